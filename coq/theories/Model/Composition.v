(* Executable model of src/conversion/mod.rs (Composition, Interval, Gap, Symbol)
   and src/editor/composition_editor.rs (CompositionEditor).  No proofs here.

   Positions are nat (buffers hold at most a few dozen symbols); text is a list
   of Unicode scalar values (N); a syllable symbol carries its u16 code.
   Rust `assert!`s are explicit Panic outcomes.  `swap_remove` changes the ORDER
   of the selection vector only; the model removes with `filter` (order kept) and
   the correspondence check compares selections as a set sorted by start. *)
From Coq Require Import NArith List Bool Arith.
From LC Require Import Base.Lib.
Import ListNotations.
Open Scope nat_scope.

Inductive symbol := SymSyl (code : N) | SymChar (c : N).
Inductive gap := GBegin | GBreak | GGlue | GNormal.

Record interval := mkIv { ib : nat; ie : nat; iphrase : bool; itext : list N }.

Record composition := mkComp {
  symbols : list symbol;
  gaps : list gap;
  selections : list interval
}.

Definition is_syllable (s : symbol) : bool := match s with SymSyl _ => true | SymChar _ => false end.
Definition is_char (s : symbol) : bool := negb (is_syllable s).

Definition gap_eqb (a b : gap) : bool :=
  match a, b with
  | GBegin, GBegin | GBreak, GBreak | GGlue, GGlue | GNormal, GNormal => true
  | _, _ => false
  end.

Definition comp_empty : composition := mkComp [] [] [].
Definition clen (c : composition) : nat := length (symbols c).

(* Interval helpers *)
Definition iv_len (i : interval) : nat := ie i - ib i.
Definition intersect_range (i : interval) (s e : nat) : bool := Nat.ltb (Nat.max (ib i) s) (Nat.min (ie i) e).
Definition iv_intersect (a b : interval) : bool := intersect_range a (ib b) (ie b).
Definition is_contained_by (i : interval) (s e : nat) : bool := Nat.leb s (ib i) && Nat.leb (ie i) e.
Definition contains_range (i : interval) (s e : nat) : bool := Nat.leb (ib i) s && Nat.leb e (ie i).

(* list helpers on positions *)
Fixpoint insert_at {A} (n : nat) (x : A) (l : list A) : list A :=
  match n, l with
  | O, _ => x :: l
  | S k, [] => [x]            (* n > length: unreachable under the asserts *)
  | S k, y :: l' => y :: insert_at k x l'
  end.

Fixpoint remove_at {A} (n : nat) (l : list A) : list A :=
  match n, l with
  | _, [] => []
  | O, _ :: l' => l'
  | S k, y :: l' => y :: remove_at k l'
  end.

Fixpoint set_at {A} (n : nat) (x : A) (l : list A) : list A :=
  match n, l with
  | _, [] => []
  | O, _ :: l' => x :: l'
  | S k, y :: l' => y :: set_at k x l'
  end.

Definition shift_iv (d : nat) (i : interval) : interval := mkIv (ib i + d) (ie i + d) (iphrase i) (itext i).
Definition unshift_iv (d : nat) (i : interval) : interval := mkIv (ib i - d) (ie i - d) (iphrase i) (itext i).

Definition fix_first_gap (g : list gap) : list gap :=
  match g with [] => [] | _ :: g' => GBegin :: g' end.

(* ---- Composition ---- *)
Definition comp_symbol (c : composition) (i : nat) : option symbol := nth_error (symbols c) i.
Definition comp_gap (c : composition) (i : nat) : option gap :=
  if Nat.ltb i (clen c) then nth_error (gaps c) i else None.

(* set_gap(index, gap): assert!(index < len); assert_ne!(gap, Begin) *)
Definition comp_set_gap (c : composition) (index : nat) (g : gap) : outcome composition :=
  if negb (Nat.ltb index (clen c)) then Panic 101
  else if gap_eqb g GBegin then Panic 102
  else if Nat.eqb index 0 then Ok c
  else
    let sels := if gap_eqb g GBreak
                then filter (fun s => negb (Nat.ltb (ib s) index && Nat.ltb index (ie s))) (selections c)
                else selections c in
    Ok (mkComp (symbols c) (set_at index g (gaps c)) sels).

(* insert(index, sym): assert!(index <= len) *)
Definition comp_insert (c : composition) (index : nat) (sym : symbol) : outcome composition :=
  if Nat.ltb (clen c) index then Panic 103
  else
    let sels := map (fun s => if Nat.leb index (ib s) then shift_iv 1 s else s)
                    (filter (fun s => negb (Nat.ltb (ib s) index && Nat.ltb index (ie s))) (selections c)) in
    let g0 := if negb (Nat.eqb (length (gaps c)) 0) && negb (Nat.eqb index (length (gaps c)))
              then set_at index GNormal (gaps c) else gaps c in
    Ok (mkComp (insert_at index sym (symbols c)) (fix_first_gap (insert_at index GNormal g0)) sels).

(* push_selection(interval): assert!(interval.end <= len) *)
Fixpoint set_range_normal (b e : nat) (g : list gap) (pos : nat) : list gap :=
  match g with
  | [] => []
  | x :: g' => (if Nat.ltb b pos && Nat.ltb pos e then GNormal else x) :: set_range_normal b e g' (S pos)
  end.

Definition comp_push_selection (c : composition) (iv : interval) : outcome composition :=
  if Nat.ltb (clen c) (ie iv) then Panic 104
  else
    let sels := filter (fun s => negb (iv_intersect s iv)) (selections c) in
    (* for i in (start..end).skip(1) { gaps[i] = Normal } *)
    Ok (mkComp (symbols c) (set_range_normal (ib iv) (ie iv) (gaps c) 0) (sels ++ [iv])).

(* replace(index, sym): assert!(index < len); then set_gap(index, Normal) *)
Definition comp_replace (c : composition) (index : nat) (sym : symbol) : outcome composition :=
  if negb (Nat.ltb index (clen c)) then Panic 105
  else comp_set_gap (mkComp (set_at index sym (symbols c)) (gaps c) (selections c)) index GNormal.

(* remove_front(n): assert!(n <= len) *)
Definition comp_remove_front (c : composition) (n : nat) : outcome composition :=
  if Nat.ltb (clen c) n then Panic 106
  else
    let sels := map (unshift_iv n) (filter (fun s => negb (Nat.ltb (ib s) n)) (selections c)) in
    Ok (mkComp (skipn n (symbols c)) (fix_first_gap (skipn n (gaps c))) sels).

(* remove(index): assert!(index < len) *)
Definition comp_remove (c : composition) (index : nat) : outcome composition :=
  if negb (Nat.ltb index (clen c)) then Panic 107
  else
    let sels := map (fun s => if Nat.leb (ib s) index then s else unshift_iv 1 s)
                    (filter (fun s => negb (Nat.leb (ib s) index && Nat.ltb index (ie s))) (selections c)) in
    Ok (mkComp (remove_at index (symbols c)) (fix_first_gap (remove_at index (gaps c))) sels).

(* ---- CompositionEditor ---- *)
Record comp_editor := mkCE {
  cursor : nat;
  cursor_stack : list nat;     (* top of the stack first *)
  inner : composition
}.

Definition ce_empty : comp_editor := mkCE 0 [] comp_empty.
Definition ce_len (e : comp_editor) : nat := clen (inner e).
Definition ce_is_empty (e : comp_editor) : bool := Nat.eqb (ce_len e) 0.
Definition ce_is_end (e : comp_editor) : bool := Nat.eqb (ce_len e) (cursor e).
Definition ce_is_begin (e : comp_editor) : bool := Nat.eqb (cursor e) 0.
Definition ce_symbol (e : comp_editor) : option symbol := comp_symbol (inner e) (cursor e).

Definition ce_push_cursor (e : comp_editor) : comp_editor := mkCE (cursor e) (cursor e :: cursor_stack e) (inner e).
Definition ce_pop_cursor (e : comp_editor) : comp_editor :=
  match cursor_stack e with
  | c :: st => mkCE (Nat.min c (ce_len e)) st (inner e)
  | [] => mkCE (Nat.min (cursor e) (ce_len e)) [] (inner e)
  end.
Definition ce_clamp_cursor (e : comp_editor) : comp_editor :=
  if Nat.eqb (cursor e) (ce_len e) then mkCE (cursor e - 1) (cursor_stack e) (inner e) else e.
Definition ce_move_cursor (e : comp_editor) (c : nat) : comp_editor := mkCE (Nat.min c (ce_len e)) (cursor_stack e) (inner e).
(* clear(): the composition and the cursor; the cursor stack is handled by the caller
   (see ce_clear in the editor model, which follows the current source) *)
Definition ce_clear_keep_stack (e : comp_editor) : comp_editor := mkCE 0 (cursor_stack e) comp_empty.
Definition ce_clear_all (e : comp_editor) : comp_editor := mkCE 0 [] comp_empty.

Definition with_inner (e : comp_editor) (cur : nat) (r : outcome composition) : outcome comp_editor :=
  match r with
  | Ok c => Ok (mkCE cur (cursor_stack e) c)
  | Err x => Err x
  | Panic s => Panic s
  | OutOfFuel => OutOfFuel
  end.

Definition ce_remove_front (e : comp_editor) (n : nat) : outcome comp_editor :=
  with_inner e (cursor e - n) (comp_remove_front (inner e) n).
Definition ce_remove_after_cursor (e : comp_editor) : outcome comp_editor :=
  with_inner e (cursor e) (comp_remove (inner e) (cursor e)).
Definition ce_remove_before_cursor (e : comp_editor) : outcome comp_editor :=
  if Nat.eqb (cursor e) 0 then Ok e
  else with_inner e (cursor e - 1) (comp_remove (inner e) (cursor e - 1)).
Definition ce_to_end (e : comp_editor) : comp_editor := mkCE (ce_len e) (cursor_stack e) (inner e).
Definition ce_to_begin (e : comp_editor) : comp_editor := mkCE 0 (cursor_stack e) (inner e).
Definition ce_left (e : comp_editor) : comp_editor := mkCE (cursor e - 1) (cursor_stack e) (inner e).
Definition ce_right (e : comp_editor) : comp_editor := mkCE (Nat.min (cursor e + 1) (ce_len e)) (cursor_stack e) (inner e).
Definition ce_insert (e : comp_editor) (s : symbol) : outcome comp_editor :=
  with_inner e (cursor e + 1) (comp_insert (inner e) (cursor e) s).
Definition ce_insert_glue (e : comp_editor) : outcome comp_editor :=
  if ce_is_end e then Ok e else with_inner e (cursor e) (comp_set_gap (inner e) (cursor e) GGlue).
Definition ce_insert_break (e : comp_editor) : outcome comp_editor :=
  if ce_is_end e then Ok e else with_inner e (cursor e) (comp_set_gap (inner e) (cursor e) GBreak).
Definition ce_replace (e : comp_editor) (s : symbol) : outcome comp_editor :=
  with_inner e (cursor e) (comp_replace (inner e) (cursor e) s).
Definition ce_symbol_for_select (e : comp_editor) : option symbol :=
  comp_symbol (inner e) (if ce_is_end e then cursor e - 1 else cursor e).
(* select(interval): assert!(!interval.str.is_empty()) *)
Definition ce_select (e : comp_editor) (iv : interval) : outcome comp_editor :=
  match itext iv with
  | [] => Panic 108
  | _ => with_inner e (cursor e) (comp_push_selection (inner e) iv)
  end.
