(* Executable model of src/zhuyin/syllable.rs and the logic of bopomofo.rs.
   A syllable is its u16 value (an N below 2^16, non-zero); a Bopomofo symbol is
   its enum discriminant.  Tables come from Gen/Bopomofo_gen.v (regenerated from
   the source on every run).  No proofs in this file. *)
From Coq Require Import NArith List Bool.
From LC Require Import Base.Lib Gen.Bopomofo_gen.
Import ListNotations.
Open Scope N_scope.

(* ---- bopomofo.rs ---- *)
Definition KIND_INITIAL : N := 0.
Definition KIND_MEDIAL : N := 1.
Definition KIND_RIME : N := 2.
Definition KIND_TONE : N := 3.
Definition KIND_INVALID : N := 4.     (* not a Bopomofo value: unreachable in Rust *)

Definition bkind (b : N) : N :=
  match nth_N kind_table b with Some k => k | None => KIND_INVALID end.
Definition bindex (b : N) : N :=
  match nth_N index_table b with Some k => k | None => 0 end.
Definition bchar (b : N) : option N := nth_N char_table b.
Definition bopomofo_of_char (c : N) : option N := assoc c of_char_table.

(* Bopomofo::from_initial(index) etc.: bounds-checked table lookup *)
Definition from_initial (i : N) : option N := nth_N initial_map i.
Definition from_medial (i : N) : option N := nth_N medial_map i.
Definition from_rime (i : N) : option N := nth_N rime_map i.
Definition from_tone (i : N) : option N := nth_N tone_map i.

(* ---- syllable.rs ---- *)
Definition EMPTY_PATTERN : N := 32768.      (* 0b1000000_00_0000_000 *)
Definition M_INITIAL : N := 32256.          (* 0b0111111_00_0000_000 *)
Definition M_MEDIAL : N := 384.             (* 0b0000000_11_0000_000 *)
Definition M_RIME : N := 120.               (* 0b0000000_00_1111_000 *)
Definition M_TONE : N := 7.                 (* 0b0000000_00_0000_111 *)

Definition initial_idx (v : N) : N := N.shiftr (N.land v M_INITIAL) 9.
Definition medial_idx (v : N) : N := N.shiftr (N.land v M_MEDIAL) 7.
Definition rime_idx (v : N) : N := N.shiftr (N.land v M_RIME) 3.
Definition tone_idx (v : N) : N := N.land v M_TONE.

Definition opt_from (f : N -> option N) (idx : N) : option N :=
  if idx =? 0 then None else f (idx - 1).

Definition initial (v : N) : option N := opt_from from_initial (initial_idx v).
Definition medial (v : N) : option N := opt_from from_medial (medial_idx v).
Definition rime (v : N) : option N := opt_from from_rime (rime_idx v).
Definition tone (v : N) : option N := opt_from from_tone (tone_idx v).

Definition nz_or_empty (x : N) : N := if x =? 0 then EMPTY_PATTERN else x.

Definition remove_initial (v : N) : option N * N := (initial v, nz_or_empty (N.land v 511)).   (* 0b0000000_11_1111_111 *)
Definition remove_medial (v : N) : option N * N := (medial v, nz_or_empty (N.land v 65151)).   (* 0b1111111_00_1111_111 *)
Definition remove_rime (v : N) : option N * N := (rime v, nz_or_empty (N.land v 65415)).       (* 0b1111111_11_0000_111 *)
Definition remove_tone (v : N) : option N * N := (tone v, nz_or_empty (N.land v 65528)).       (* 0b1111111_11_1111_000 *)

Definition is_empty (v : N) : bool := v =? EMPTY_PATTERN.
Definition is_some {A} (o : option A) : bool := match o with Some _ => true | None => false end.

(* u16::trailing_zeros for a non-zero 16-bit value; only the three thresholds matter *)
Definition tz_ge (v k : N) : bool := N.land v (N.ones k) =? 0.
Definition starts_with_shift (other : N) : N :=
  if tz_ge other 9 then 9 else if tz_ge other 7 then 7 else if tz_ge other 3 then 3 else 0.
Definition starts_with (s other : N) : bool :=
  let k := starts_with_shift other in N.shiftr s k =? N.shiftr other k.

(* Syllable::update; NonZeroU16::new(value).unwrap() is Panic when value = 0 *)
Definition update_value (v b : N) : N :=
  let k := bkind b in
  if k =? KIND_INITIAL then N.lor (N.land v 511) (N.shiftl (bindex b) 9)
  else if k =? KIND_MEDIAL then N.lor (N.land v 32383) (N.shiftl (bindex b) 7)     (* 0b0111111_00_1111_111 *)
  else if k =? KIND_RIME then N.lor (N.land v 32647) (N.shiftl (bindex b) 3)       (* 0b0111111_11_0000_111 *)
  else N.lor (N.land v 32760) (bindex b).                                          (* 0b0111111_11_1111_000 *)
Definition update (v b : N) : outcome N :=
  let x := N.land (update_value v b) 65535 in
  if x =? 0 then Panic 1 else Ok x.

Definition pop (v : N) : option N * N :=
  if is_some (tone v) then remove_tone v
  else if is_some (rime v) then remove_rime v
  else if is_some (medial v) then remove_medial v
  else if is_some (initial v) then remove_initial v
  else (None, v).

(* TryFrom<u16> *)
Definition try_from_u16 (x : N) : option N := if x =? 0 then None else Some x.

(* Display: the present components in the order initial, medial, rime, tone *)
Definition opt_list {A} (o : option A) : list A := match o with Some a => [a] | None => [] end.
Definition spell_syms (v : N) : list N :=
  opt_list (initial v) ++ opt_list (medial v) ++ opt_list (rime v) ++ opt_list (tone v).
Fixpoint map_opt {A B} (f : A -> option B) (l : list A) : list B :=
  match l with [] => [] | a :: l' => match f a with Some b => b :: map_opt f l' | None => map_opt f l' end end.
Definition spell (v : N) : list N := map_opt bchar (spell_syms v).

(* SyllableBuilder: (value, step); errors numbered as SyllableErrorKind *)
Definition E_MULTI_INITIAL : N := 0.
Definition E_MULTI_MEDIAL : N := 1.
Definition E_MULTI_RIME : N := 2.
Definition E_MULTI_TONE : N := 3.
Definition E_ORDER : N := 4.
Definition E_INVALID : N := 5.

Record builder := { bval : N; bstep : N }.
Definition builder_new : builder := {| bval := EMPTY_PATTERN; bstep := 0 |}.

(* `bopomofo as u16 - k` cannot underflow for a symbol of the right kind in the
   shipped enum order; the model keeps the subtraction saturating and the proofs
   show it never saturates on the generated tables. *)
Definition builder_insert (s : builder) (b : N) : builder + N :=
  let k := bkind b in
  if k =? KIND_INITIAL then
    if negb (N.land (bval s) M_INITIAL =? 0) then inr E_MULTI_INITIAL
    else if 0 <? bstep s then inr E_ORDER
    else inl {| bval := N.lor (N.land (bval s) 511) (N.shiftl (b + 1) 9); bstep := 1 |}
  else if k =? KIND_MEDIAL then
    if negb (N.land (bval s) M_MEDIAL =? 0) then inr E_MULTI_MEDIAL
    else if 1 <? bstep s then inr E_ORDER
    else inl {| bval := N.lor (N.land (bval s) 32383) (N.shiftl (b - 20) 7); bstep := 2 |}
  else if k =? KIND_RIME then
    if negb (N.land (bval s) M_RIME =? 0) then inr E_MULTI_RIME
    else if 2 <? bstep s then inr E_ORDER
    else inl {| bval := N.lor (N.land (bval s) 32647) (N.shiftl (b - 23) 3); bstep := 3 |}
  else if k =? KIND_TONE then
    if negb (N.land (bval s) M_TONE =? 0) then inr E_MULTI_TONE
    else if 3 <? bstep s then inr E_ORDER
    else inl {| bval := N.lor (N.land (bval s) 32760) (b - 36); bstep := 4 |}
  else inr E_INVALID.

Definition builder_build (s : builder) : N := bval s.

(* fold of insert from a given builder state (FromStr's loop, on symbols) *)
Fixpoint parse_from (s : builder) (l : list N) : N + N :=
  match l with
  | [] => inl (builder_build s)
  | b :: l' => match builder_insert s b with
               | inl s' => parse_from s' l'
               | inr e => inr e
               end
  end.
Definition parse_syms (l : list N) : N + N := parse_from builder_new l.

(* FromStr for Syllable over scalar values: try_from(c)? then insert? *)
Fixpoint parse_chars_from (s : builder) (l : list N) : N + N :=
  match l with
  | [] => inl (builder_build s)
  | c :: l' => match bopomofo_of_char c with
               | None => inr E_INVALID
               | Some b => match builder_insert s b with
                           | inl s' => parse_chars_from s' l'
                           | inr e => inr e
                           end
               end
  end.
Definition parse_chars (l : list N) : N + N := parse_chars_from builder_new l.

(* a syllable composed from optional components: the builder applied to the
   present components in canonical order (what syl![..] does) *)
Definition compose (i m r t : option N) : N + N :=
  parse_syms (opt_list i ++ opt_list m ++ opt_list r ++ opt_list t).
