(* Executable model of the path search and ranking of src/conversion/chewing.rs:
   ChewingEngine::{convert, find_k_paths, shortest_path, trim_paths} and
   PossiblePath::{score, contains, rule_*}, on top of the interval graph of Model/Conversion.v
   (find_best_phrase / find_intervals).  No proofs here.

   Every index / unwrap / expect / integer-conversion site is an explicit `Panic n`:
     301 graph[edge.start]                      (edge.start >= len)
     302 edge.start * len + edge.end - 1        (usize underflow: start = end = 0)
     303 removed_edges[..]                      (index >= len * len)
     304 parent[edge.end]                       (edge.end > len)
     305 parent[node] in the walk back          (node > len)
     306 ksp[prev][i]                           (unreachable by construction: i < ksp[prev].len())
     307 ksp[prev]                              (unreachable by construction: ksp is never empty)
     308 shortest_path(.., 0, len).unwrap()     (no path through the buffer)
     310 u32 overflow in rule_largest_freqsum   (debug builds only; pinned tree only - fix 2d722b2 saturates)
     311 i32::try_from(freq sum).expect(..)     (pinned tree only - fix 2d722b2 saturates)
     312 i32 overflow in score()                (debug builds only; buffers of thousands of symbols)
     313 i32::try_from(len variance).expect(..) / i32::try_from(#intervals).expect(..)
   every loop runs on fuel with a stated bound (`OutOfFuel`).

   One thing is NOT fixed by the Rust source: `candidates.sort_unstable_by_key(|k| k.len())` leaves the
   order of candidates of equal length to the standard library.  The model takes the sort as a
   parameter `sortu`; the theorems (Proofs/EngineProofs.v) hold for EVERY `sortu` that sorts by length
   and permutes its input, the executable instance `sort_by_len` is the stable insertion sort - which is
   what the standard library runs for at most 20 elements (core::slice::sort::unstable::sort,
   MAX_LEN_ALWAYS_INSERTION_SORT); `find_k_paths_x` also reports whether a longer list was ever sorted,
   so that the correspondence check compares the ranked alternatives exactly when the model is exact
   and falls back to `valid_conversion` otherwise. *)
From Coq Require Import NArith ZArith List Bool Arith.
From LC Require Import Base.Lib Model.Composition Model.Conversion.
Import ListNotations.
Open Scope nat_scope.

Definition path := list edge.

Definition edge_eqb (a b : edge) : bool :=
  Nat.eqb (eb a) (eb b) && Nat.eqb (ee a) (ee b) && pphrase_eqb (ephrase a) (ephrase b).
Definition path_eqb (a b : path) : bool := list_eqb edge_eqb a b.

Definition bind {A B} (x : outcome A) (f : A -> outcome B) : outcome B :=
  match x with
  | Ok a => f a
  | Err n => Err n
  | Panic n => Panic n
  | OutOfFuel => OutOfFuel
  end.

(* let mut graph = vec![vec![]; len]; for edge in intervals { graph[edge.start].push(edge) } *)
Definition graph_of (len : nat) (edges : list edge) : outcome (list (list edge)) :=
  if forallb (fun e => Nat.ltb (eb e) len) edges
  then Ok (map (fun b => filter (fun e => Nat.eqb (eb e) b) edges) (seq 0 len))
  else Panic 301.

(* removed_edges[edge.start * len + edge.end - 1] *)
Definition rem_index (len : nat) (e : edge) : outcome nat :=
  let s := eb e * len + ee e in
  if Nat.eqb s 0 then Panic 302
  else if Nat.ltb (s - 1) (len * len) then Ok (s - 1) else Panic 303.

Definition is_removed (removed : list nat) (i : nat) : bool := existsb (Nat.eqb i) removed.

(* ---- shortest_path: breadth-first search with a parent array, then the walk back ---- *)
(* the `for edge in next_edges` loop of one node; the flag says `break 'bfs` was taken *)
Fixpoint bfs_edges (len : nat) (removed : list nat) (es : list edge) (parent : list (option edge)) (queue : list nat)
  : outcome (list (option edge) * list nat * bool) :=
  match es with
  | [] => Ok (parent, queue, false)
  | e :: rest =>
    bind (rem_index len e) (fun i =>
      if is_removed removed i then bfs_edges len removed rest parent queue
      else match nth_error parent (ee e) with
           | None => Panic 304
           | Some slot =>
             let pq := match slot with
                       | None => (set_at (ee e) (Some e) parent, queue ++ [ee e])
                       | Some _ => (parent, queue)
                       end in
             if Nat.eqb (ee e) len then Ok (fst pq, snd pq, true)
             else bfs_edges len removed rest (fst pq) (snd pq)
           end)
  end.

Fixpoint bfs_loop (fuel : nat) (graph : list (list edge)) (len : nat) (removed : list nat)
  (parent : list (option edge)) (queue : list nat) : outcome (list (option edge)) :=
  match queue with
  | [] => Ok parent
  | node :: q =>
    match fuel with
    | O => OutOfFuel
    | S k =>
      match nth_error graph node with
      | None => bfs_loop k graph len removed parent q            (* graph.get(node) is None for node = len *)
      | Some es =>
        bind (bfs_edges len removed es parent q) (fun r =>
          let '(p', q', brk) := r in
          if brk then Ok p' else bfs_loop k graph len removed p' q')
      end
    end
  end.

(* while node != source { let interval = parent[node]?; node = interval.start; path.push(..) }; path.reverse() *)
Fixpoint walk_back (fuel : nat) (parent : list (option edge)) (source node : nat) (acc : path) : outcome (option path) :=
  if Nat.eqb node source then Ok (Some acc)
  else match fuel with
       | O => OutOfFuel
       | S k =>
         match nth_error parent node with
         | None => Panic 305
         | Some None => Ok None
         | Some (Some e) => walk_back k parent source (eb e) (e :: acc)
         end
       end.

Definition shortest_path (graph : list (list edge)) (removed : list nat) (source len : nat) : outcome (option path) :=
  bind (bfs_loop (S (S len)) graph len removed (repeat None (S len)) [source]) (fun parent =>
    walk_back (S len) parent source len []).

(* ---- find_k_paths ---- *)
(* for p in &ksp { if i < p.len() { removed_edges[index of p[i]] = true } } *)
Fixpoint mark_removed (len : nat) (ksp : list path) (i : nat) (removed : list nat) : outcome (list nat) :=
  match ksp with
  | [] => Ok removed
  | p :: rest =>
    match nth_error p i with
    | None => mark_removed len rest i removed
    | Some e => bind (rem_index len e) (fun idx => mark_removed len rest i (idx :: removed))
    end
  end.

(* for i in 0..ksp[prev].len() { .. } *)
Fixpoint spur_loop (graph : list (list edge)) (len : nat) (ksp : list path) (prev : path) (idxs : list nat)
  (removed : list nat) (cands : list path) : outcome (list nat * list path) :=
  match idxs with
  | [] => Ok (removed, cands)
  | i :: rest =>
    match nth_error prev i with
    | None => Panic 306
    | Some spur_edge =>
      bind (mark_removed len ksp i removed) (fun removed' =>
        bind (shortest_path graph removed' (eb spur_edge) len) (fun sp =>
          match sp with
          | Some spur =>
            let total := firstn i prev ++ spur in
            let cands' := if existsb (path_eqb total) ksp then cands else cands ++ [total] in
            spur_loop graph len ksp prev rest removed' cands'
          | None => spur_loop graph len ksp prev rest removed' cands
          end))
    end
  end.

(* Vec::swap_remove(0) applied to the tail of the sorted vector: the last element takes the place of the
   removed first one *)
Definition swap_remove0_tail (others : list path) : list path :=
  match rev others with
  | [] => []
  | l :: r => l :: rev r
  end.

Section KPaths.
Variable sortu : list path -> list path.

(* for kth in 1..k { .. }: `n` iterations are left; ksp[kth - 1] is the last path pushed;
   `big` records whether sortu ever saw more than 20 candidates *)
Fixpoint k_loop (n : nat) (graph : list (list edge)) (len : nat) (ksp : list path) (removed : list nat)
  (cands : list path) (big : bool) : outcome (list path * bool) :=
  match n with
  | O => Ok (ksp, big)
  | S n' =>
    match last (map Some ksp) None with
    | None => Panic 307
    | Some prev =>
      bind (spur_loop graph len ksp prev (seq 0 (length prev)) removed cands) (fun rc =>
        let '(removed', cands') := rc in
        match sortu cands' with
        | [] => Ok (ksp, big)
        | first :: others =>
          k_loop n' graph len (ksp ++ [first]) removed' (swap_remove0_tail others)
                 (big || Nat.ltb 20 (length cands'))
        end)
    end
  end.

Definition find_k_paths_x (k len : nat) (edges : list edge) : outcome (list path * bool) :=
  bind (graph_of len edges) (fun graph =>
    bind (shortest_path graph [] 0 len) (fun sp =>
      match sp with
      | None => Panic 308
      | Some p0 => k_loop (k - 1) graph len [p0] [] [] false
      end)).

Definition find_k_paths (k len : nat) (edges : list edge) : outcome (list path) :=
  bind (find_k_paths_x k len edges) (fun r => Ok (fst r)).
End KPaths.

(* stable insertion sort by the number of intervals (the key of sort_unstable_by_key) *)
Fixpoint insert_by_len (p : path) (l : list path) : list path :=
  match l with
  | [] => [p]
  | x :: l' => if Nat.leb (length p) (length x) then p :: l else x :: insert_by_len p l'
  end.
Definition sort_by_len (l : list path) : list path := fold_right insert_by_len [] l.

(* ---- PossiblePath::contains, trim_paths ---- *)
Definition edge_contains (a b : edge) : bool := Nat.leb (eb a) (eb b) && Nat.leb (ee b) (ee a).

(* the inner `loop`: advance `big` until self.intervals[big] contains the small interval *)
Fixpoint advance_big (bigs : path) (s : edge) : option path :=
  match bigs with
  | [] => None
  | b :: rest =>
    if Nat.ltb (eb b) (ee s)
    then (if edge_contains b s then Some bigs else advance_big rest s)
    else None
  end.

Fixpoint path_contains (bigs smalls : path) : bool :=
  match smalls with
  | [] => true
  | s :: rest =>
    match advance_big bigs s with
    | None => false
    | Some bigs' => path_contains bigs' rest
    end
  end.

Fixpoint trim_inner (cand : path) (trimmed : list path) (drop : bool) (keeper : list path) : bool * list path :=
  match trimmed with
  | [] => (drop, keeper)
  | p :: rest =>
    if drop || path_contains p cand then trim_inner cand rest true (keeper ++ [p])
    else if path_contains cand p then trim_inner cand rest drop keeper
    else trim_inner cand rest drop (keeper ++ [p])
  end.

Definition trim_step (trimmed : list path) (cand : path) : list path :=
  let '(drop, keeper) := trim_inner cand trimmed false [] in
  if drop then keeper else keeper ++ [cand].

Definition trim_paths (paths : list path) : list path := fold_left trim_step paths [].

(* ---- the score ---- *)
Open Scope Z_scope.
Definition i32_max : Z := 2147483647.
Definition i32_min : Z := -2147483648.
Definition in_i32 (z : Z) : bool := Z.leb i32_min z && Z.leb z i32_max.

Definition edge_len (e : edge) : nat := (ee e - eb e)%nat.
Definition pphrase_freq (p : pphrase) : N := match p with PSym _ => 0%N | PPhrase _ f => f end.

Definition rule_largest_sum (p : path) : Z := Z.of_nat (fold_left (fun acc e => (acc + edge_len e)%nat) p 0%nat).

Definition rule_largest_avgwordlen (p : path) : outcome Z :=
  match p with
  | [] => Ok 0
  | _ => if in_i32 (Z.of_nat (length p)) then Ok (Z.quot (6 * rule_largest_sum p) (Z.of_nat (length p))) else Panic 313
  end.

Definition abs_diff (a b : nat) : nat := ((a - b) + (b - a))%nat.

Fixpoint lenvariance_sum (p : path) : nat :=
  match p with
  | [] => 0%nat
  | e :: rest => (fold_left (fun acc e' => (acc + abs_diff (edge_len e) (edge_len e'))%nat) rest 0 + lenvariance_sum rest)%nat
  end.

Definition rule_smallest_lenvariance (p : path) : outcome Z :=
  let s := Z.of_nat (lenvariance_sum p) in
  if in_i32 s then Ok (- s) else Panic 313.

(* since fix 2d722b2: the u32 sum and the conversion to i32 saturate *)
Definition u32_max : N := 4294967295%N.
Definition freq_term (e : edge) : N :=
  let f := pphrase_freq (ephrase e) in if Nat.eqb (edge_len e) 1 then N.div f 512 else f.
Definition rule_largest_freqsum (p : path) : Z :=
  let s := fold_left (fun acc e => N.min u32_max (acc + freq_term e)) p 0%N in
  Z.min (Z.of_N s) i32_max.

Definition add_i32 (a b : Z) : outcome Z := if in_i32 (a + b) then Ok (a + b) else Panic 312.
Definition mul_i32 (a b : Z) : outcome Z := if in_i32 (a * b) then Ok (a * b) else Panic 312.
Definition sat_add_i32 (a b : Z) : Z := Z.max i32_min (Z.min i32_max (a + b)).

Definition score (p : path) : outcome Z :=
  bind (mul_i32 1000 (rule_largest_sum p)) (fun t1 =>
  bind (add_i32 0 t1) (fun s1 =>
  bind (rule_largest_avgwordlen p) (fun a =>
  bind (mul_i32 1000 a) (fun t2 =>
  bind (add_i32 s1 t2) (fun s2 =>
  bind (rule_smallest_lenvariance p) (fun v =>
  bind (mul_i32 100 v) (fun t3 =>
  bind (add_i32 s2 t3) (fun s3 =>
  Ok (sat_add_i32 s3 (rule_largest_freqsum p)))))))))).

(* the pinned tree (before fix 2d722b2): `score += freq / factor` in u32, then
   i32::try_from(score).expect("score should fit in i32"), then `score += ..` in i32 *)
Definition rule_largest_freqsum_pinned (p : path) : outcome Z :=
  let fix go (l : path) (acc : N) : outcome N :=
    match l with
    | [] => Ok acc
    | e :: rest =>
      let acc' := (acc + freq_term e)%N in
      if N.leb 4294967296 acc' then Panic 310 else go rest acc'
    end in
  bind (go p 0%N) (fun s => if Z.leb (Z.of_N s) i32_max then Ok (Z.of_N s) else Panic 311).

Definition score_pinned (p : path) : outcome Z :=
  bind (mul_i32 1000 (rule_largest_sum p)) (fun t1 =>
  bind (add_i32 0 t1) (fun s1 =>
  bind (rule_largest_avgwordlen p) (fun a =>
  bind (mul_i32 1000 a) (fun t2 =>
  bind (add_i32 s1 t2) (fun s2 =>
  bind (rule_smallest_lenvariance p) (fun v =>
  bind (mul_i32 100 v) (fun t3 =>
  bind (add_i32 s2 t3) (fun s3 =>
  bind (rule_largest_freqsum_pinned p) (fun f =>
  add_i32 s3 f))))))))).

(* trimmed_paths.sort_by(|a, b| b.cmp(a)): stable, descending by score *)
Fixpoint insert_by_score (x : Z * path) (l : list (Z * path)) : list (Z * path) :=
  match l with
  | [] => [x]
  | y :: l' => if Z.leb (fst y) (fst x) then x :: l else y :: insert_by_score x l'
  end.
Definition sort_by_score (l : list (Z * path)) : list (Z * path) := fold_right insert_by_score [] l.

Fixpoint with_scores (ps : list path) : outcome (list (Z * path)) :=
  match ps with
  | [] => Ok []
  | p :: rest => bind (score p) (fun s => bind (with_scores rest) (fun r => Ok ((s, p) :: r)))
  end.
Close Scope Z_scope.

Definition MAX_OUT_PATHS : nat := 100.

Definition ranked_paths (sortu : list path -> list path) (len : nat) (edges : list edge) : outcome (list path * bool) :=
  bind (find_k_paths_x sortu MAX_OUT_PATHS len edges) (fun r =>
    match trim_paths (fst r) with
    | [p] => Ok ([p], snd r)       (* sort_by never calls the comparator (hence score()) on a single element *)
    | trimmed => bind (with_scores trimmed) (fun sp => Ok (map snd (sort_by_score sp), snd r))
    end).

(* ChewingEngine::convert: all alternatives, best first, each folded with glue_fn *)
Definition chewing_convert_x (sortu : list path -> list path) (spell : N -> list N) (lookup : lookup_fn) (c : composition)
  : outcome (list (list interval) * bool) :=
  match symbols c with
  | [] => Ok ([[]], false)
  | _ =>
    bind (ranked_paths sortu (clen c) (find_intervals spell lookup c)) (fun r =>
      Ok (map (fun p => glue_path c (map edge_interval p)) (fst r), snd r))
  end.

Definition chewing_convert (sortu : list path -> list path) (spell : N -> list N) (lookup : lookup_fn) (c : composition)
  : outcome (list (list interval)) :=
  bind (chewing_convert_x sortu spell lookup c) (fun r => Ok (fst r)).

(* Editor::conversion(): paths[nth_conversion % paths.len()] *)
Definition engine_alt (sortu : list path -> list path) (spell : N -> list N) (lookup : lookup_fn) (c : composition) (n : nat) : list interval :=
  match chewing_convert sortu spell lookup c with
  | Ok alts => List.nth (n mod length alts) alts []
  | _ => []
  end.
