(* Concrete instances of the editor model's parameters used by the
   correspondence check: the Standard (Dai Chien) layout and an in-memory layered
   dictionary (one system TrieBuf + one user TrieBuf, both without a backing
   file).  Executable definitions only. *)
From Coq Require Import NArith List Bool Arith.
From LC Require Model.Keyboard Model.LayoutBase Model.Layout.
From LC Require Import Base.Lib Gen.Bopomofo_gen Gen.Editor_gen Model.Syllable Model.Composition
     Model.Conversion Model.Engine Model.Editor.
Import ListNotations.
Open Scope nat_scope.

(* ---- Standard layout (src/editor/zhuyin_layout/standard.rs) ---- *)
Definition upd (s b : N) : N := match update s b with Ok w => w | _ => s end.

Definition std_key_press (s : N) (ev : keyevent) : N * kbehavior :=
  match assoc (kindex ev) std_layout_table with
  | None => (s, KKeyError)
  | Some b =>
    let tone := N.eqb (bkind b) KIND_TONE in
    if tone && negb (is_empty s)
    then ((if N.eqb b bTONE1 then s else upd s b), KCommit)
    else
      let s1 := if tone then s else snd (remove_tone s) in
      if N.eqb b bTONE1 then (s1, KKeyError) else (upd s1 b, KAbsorb)
  end.

(* SyllableEditor::fuzzy_key_press (default method) *)
Definition default_fuzzy_key_press (key_press : N -> keyevent -> N * kbehavior) (s : N) (ev : keyevent)
  : N * kbehavior :=
  if is_empty s then key_press s ev
  else
    let nw := fst (key_press EMPTY_PATTERN ev) in
    let hi x := is_some (initial x) in
    let hm x := is_some (medial x) in
    let hr x := is_some (rime x) in
    if (hi s && hi nw) || (hm s && (hi nw || hm nw)) || (hr s && (hi nw || hm nw || hr nw))
    then (fst (key_press EMPTY_PATTERN ev), KFuzzy s)
    else key_press s ev.

Definition std_ops : syl_ops N :=
  mkSylOps N std_key_press (default_fuzzy_key_press std_key_press) is_empty (fun s => s)
           (fun _ => EMPTY_PATTERN) (fun s => snd (pop s)) (fun _ _ => []) (fun _ _ => EMPTY_PATTERN).

(* ---- every phonetic layout (Model/Layout.v, the models behind C14) as the editor's syllable editor ---- *)
(* The syllable editor object is (layout number, layout state); chewing_set_KBType / Editor::set_syllable_editor
   installs a fresh one (so_switch).  Layout numbers: Layout.L_STANDARD .. L_MPS2 (0..9). *)
Definition lay := (N * LayoutBase.lstate)%type.

Definition to_layout_event (ev : keyevent) : Keyboard.key_event :=
  Keyboard.mk_event (kindex ev) (kcode ev) (kunicode ev)
    ((if mshift ev then 1 else 0) + (if mctrl ev then 2 else 0) + (if mcaps ev then 4 else 0) + (if mnum ev then 8 else 0))%N.

Definition of_layout_behavior (b : LayoutBase.behavior) : kbehavior :=
  match b with
  | LayoutBase.Ignore => KIgnore | LayoutBase.Absorb => KAbsorb | LayoutBase.Commit => KCommit
  | LayoutBase.KeyError => KKeyError | LayoutBase.BError => KError | LayoutBase.NoWord => KNoWord
  | LayoutBase.OpenSymbolTable => KOpenSymbolTable | LayoutBase.Fuzzy s => KFuzzy s
  end.

(* a panic of a layout (C14 proves there is none) would be a panic of the key handler; the ops record has no
   outcome type, so it is mapped to KError with the state kept - the correspondence would show it at once *)
Definition lay_press (f : N -> LayoutBase.lstate -> Keyboard.key_event -> outcome (LayoutBase.lstate * LayoutBase.behavior))
  (x : lay) (ev : keyevent) : lay * kbehavior :=
  match f (fst x) (snd x) (to_layout_event ev) with
  | Ok r => ((fst x, fst r), of_layout_behavior (snd r))
  | _ => (x, KError)
  end.

Definition lay_ops : syl_ops lay :=
  mkSylOps lay (lay_press Layout.key_press) (lay_press Layout.fuzzy_key_press)
    (fun x => Layout.l_is_empty (fst x) (snd x))
    (fun x => Layout.l_read (fst x) (snd x))
    (fun x => (fst x, Layout.l_clear (fst x) (snd x)))
    (fun x => (fst x, Layout.l_remove_last (fst x) (snd x)))
    (fun x s => Layout.l_alt_syllables (fst x) s)
    (fun _ L => (L, LayoutBase.lstate_empty)).

(* ---- in-memory layered dictionary ---- *)
(* entry = (syllable key, text, freq, time); kept sorted by (key, text) like a BTreeMap *)
Definition dentry := (list N * list N * N * N)%type.
Record memdict := mkMD {
  md_sys : list dentry;
  md_user : list dentry;
  md_grave : list (list N * list N)      (* the user TrieBuf's graveyard *)
}.

Fixpoint lex_compare (a b : list N) : comparison :=
  match a, b with
  | [], [] => Eq
  | [], _ => Lt
  | _, [] => Gt
  | x :: a', y :: b' => match N.compare x y with Eq => lex_compare a' b' | c => c end
  end.

Definition key_compare (k1 t1 k2 t2 : list N) : comparison :=
  match lex_compare k1 k2 with Eq => lex_compare t1 t2 | c => c end.

Fixpoint bt_insert (e : dentry) (l : list dentry) : list dentry :=
  match l with
  | [] => [e]
  | x :: l' =>
    let '(k, t, _, _) := e in
    let '(k', t', _, _) := x in
    match key_compare k t k' t' with
    | Lt => e :: l
    | Eq => e :: l'
    | Gt => x :: bt_insert e l'
    end
  end.

Definition bt_remove (k t : list N) (l : list dentry) : list dentry :=
  filter (fun x => let '(k', t', _, _) := x in negb (text_eqb k k' && text_eqb t t')) l.

Definition in_grave (g : list (list N * list N)) (k t : list N) : bool :=
  existsb (fun x => text_eqb (fst x) k && text_eqb (snd x) t) g.

(* TrieBuf::lookup_all_phrases for an in-memory buffer: the btree range of the key, minus tombstones *)
Definition tb_lookup (entries : list dentry) (grave : list (list N * list N)) (k : list N) : list phrase :=
  flat_map (fun x => let '(k', t, f, _) := x in
                     if text_eqb k k' && negb (in_grave grave k t) then [(t, f)] else []) entries.

(* Layered::lookup_first_n_phrases merge: first appearance order, larger (freq, text) wins *)
Fixpoint merge_phrase (acc : list phrase) (p : phrase) : list phrase :=
  match acc with
  | [] => [p]
  | q :: acc' =>
    if text_eqb (fst q) (fst p)
    then (if N.ltb (snd q) (snd p) then p else q) :: acc'
    else q :: merge_phrase acc' p
  end.

Definition md_lookup (d : memdict) (fuzzy : bool) (k : list N) : list phrase :=
  fold_left merge_phrase (tb_lookup (md_user d) (md_grave d) k) (tb_lookup (md_sys d) [] k).

Definition md_user_lookup (d : memdict) (k : list N) : list phrase := tb_lookup (md_user d) (md_grave d) k.

(* add_phrase / update_phrase lift the tombstone of the key they write *)
Definition grave_remove (k t : list N) (g : list (list N * list N)) : list (list N * list N) :=
  filter (fun x => negb (text_eqb (fst x) k && text_eqb (snd x) t)) g.

Definition md_add (d : memdict) (k t : list N) (f : N) : memdict * bool :=
  match t with
  | [] => (d, true)                      (* Layered::add_phrase: empty phrase is logged and ignored *)
  | _ =>
    if existsb (fun p => text_eqb (fst p) t) (md_user_lookup d k) then (d, false)
    else (mkMD (md_sys d) (bt_insert (k, t, f, 0%N) (md_user d)) (grave_remove k t (md_grave d)), true)
  end.

Definition md_update (d : memdict) (k t : list N) (orig uf time : N) : memdict :=
  match t with
  | [] => d
  | _ => mkMD (md_sys d) (bt_insert (k, t, uf, time) (md_user d)) (grave_remove k t (md_grave d))
  end.

Definition md_remove (d : memdict) (k t : list N) : memdict :=
  mkMD (md_sys d) (bt_remove k t (md_user d)) ((k, t) :: md_grave d).

Definition md_ops : dict_ops memdict := mkDictOps memdict md_lookup md_user_lookup md_add md_update md_remove.

(* ---- the same dictionary when the SYSTEM layer is a trie FILE (what chewing_new2 loads; capi cases) ----
   Trie::lookup_first_n_phrases with FuzzyPartialPrefix walks the index level by level and keeps every child whose
   syllable starts_with the query's (partial) syllable: the answer is the phrases of every key of the same length
   that matches syllable by syllable, the keys in the order of the file's sibling records, each key's phrases in
   leaf order.  `md_sys` lists the file's entries in the order of its own enumeration (Trie::entries), in which keys
   of equal length come in exactly that order - so the answer is the matching entries in listing order.  For a file
   TrieBuilder wrote that is the ascending order of the syllable codes (C11_fuzzy_lookup_returns_the_matching_entries);
   the format does not require it, and the capi cases also read files whose sibling records are reversed / rotated.
   The user layer (an in-memory TrieBuf whose entries are all pending) matches its key exactly under every strategy
   (TrieBuf::entries_iter_for). *)
Fixpoint syls_match (entry query : list N) : bool :=
  match entry, query with
  | [], [] => true
  | a :: e', b :: q' => starts_with a b && syls_match e' q'
  | _, _ => false
  end.

Definition tbf_lookup (entries : list dentry) (k : list N) : list phrase :=
  map (fun x => let '(_, t, f, _) := x in (t, f))
      (filter (fun x => let '(k', _, _, _) := x in syls_match k' k) entries).

Definition mdf_lookup (d : memdict) (fuzzy : bool) (k : list N) : list phrase :=
  (* Layered merges by text from the empty list: two matching keys of the file may carry the same text *)
  if fuzzy then fold_left merge_phrase (tbf_lookup (md_sys d) k ++ tb_lookup (md_user d) (md_grave d) k) []
  else md_lookup d false k.

Definition mdf_ops : dict_ops memdict := mkDictOps memdict mdf_lookup md_user_lookup md_add md_update md_remove.

(* ---- what the correspondence driver calls ---- *)
Definition med := editor memdict N.

Definition m_init (d : memdict) (ab : list (N * list N)) (ss : symbol_sel) (t0 : N) : med :=
  init_editor d EMPTY_PATTERN ab ss t0.

Definition m_key (conv : conv_fn memdict) (e : med) (ev : keyevent) := process_keyevent md_ops std_ops conv e ev.
Definition m_select (conv : conv_fn memdict) (e : med) (n : nat) := ed_select md_ops std_ops conv e n.
Definition m_cancel (e : med) := ed_cancel_selecting e.
Definition m_start_selecting (e : med) := ed_start_selecting md_ops std_ops e.
Definition m_commit (conv : conv_fn memdict) (e : med) := ed_commit md_ops conv e.
Definition m_clear (e : med) := ed_clear std_ops e.
Definition m_ack (e : med) := ed_ack e.
Definition m_set_options (e : med) (o : options) := ed_set_options_c md_ops std_ops e o.
Definition m_set_engine (e : med) (k : engine_kind) := ed_set_engine e k.
Definition m_clear_syl (e : med) := ed_clear_syllable_editor std_ops e.
Definition m_jump_next (e : med) := ed_jump_next md_ops e.
Definition m_jump_prev (e : med) := ed_jump_prev md_ops e.
Definition m_jump_first (e : med) := ed_jump_first md_ops e.
Definition m_jump_last (e : med) := ed_jump_last md_ops e.
Definition m_learn (e : med) (k t : list N) := ed_learn_c md_ops std_ops e k t.
Definition m_unlearn (e : med) (k t : list N) := ed_unlearn_c md_ops std_ops e k t.
Definition m_candidates (e : med) := ed_all_candidates md_ops std_ops e.
Definition m_total_page (e : med) := ed_total_page md_ops std_ops e.

(* validity of a logged conversion for the model's current composition *)
Definition engine_fuzzy (k : engine_kind) : bool := match k with EngFuzzy => true | _ => false end.

Definition m_lookup1 (d : memdict) (s : N) : option (list N) :=
  match md_lookup d false [s] with p :: _ => Some (fst p) | [] => None end.

Definition m_valid_conv (e : med) (c : composition) (ivs : list interval) : bool :=
  let d := dict (sh e) in
  match engine (sh e) with
  | EngSimple => list_eqb interval_eqb (simple_convert (m_lookup1 d) spell c) ivs
  | k => valid_conversion spell (fun syms => md_lookup d (engine_fuzzy k) (syl_prefix syms)) c ivs
  end.

(* the engines themselves (Model/Engine.v): every alternative, best first, and whether the model is exact
   (no candidate list longer than 20 was ever sorted - see Engine.v on sort_unstable_by_key) *)
Definition m_engine_alts (e : med) (c : composition) : outcome (list (list interval) * bool) :=
  let d := dict (sh e) in
  match engine (sh e) with
  | EngSimple => Ok ([simple_convert (m_lookup1 d) spell c], false)
  | k => chewing_convert_x sort_by_len spell (fun syms => md_lookup d (engine_fuzzy k) (syl_prefix syms)) c
  end.

(* the conversion of the editor instance with the modelled engines in place of the oracle: SimpleEngine, or the
   n-th alternative of the Chewing / Fuzzy engine model over the current dictionary.  The engine model is
   stated for buffers of up to 4000 symbols (beyond that the i32 arithmetic of the score overflows in debug
   builds); longer buffers - which the C API cannot build, its limit is 39 - fall back to one interval per
   symbol and are outside the model. *)
Definition m_conv : conv_fn memdict := fun d k c n =>
  match k with
  | EngSimple => simple_convert (m_lookup1 d) spell c
  | _ => if Nat.leb (clen c) 4000
         then engine_alt sort_by_len spell (fun syms => md_lookup d (engine_fuzzy k) (syl_prefix syms)) c n
         else simple_convert (m_lookup1 d) spell c
  end.

(* ---- the instance the correspondence check runs since the layouts joined the editor model: the syllable editor
   is (layout number, layout state), so histories switch layouts (OpLayout / m_set_layout) at any moment ---- *)
Definition medl := editor memdict lay.

Section ML.
(* dops: in-memory system dictionary; mdf_ops: trie-file system dictionary (capi cases) *)
Variable dops : dict_ops memdict.
Definition ml_init (d : memdict) (L : N) (ab : list (N * list N)) (ss : symbol_sel) (t0 : N) : medl :=
  init_editor d (L, LayoutBase.lstate_empty) ab ss t0.
Definition ml_key (conv : conv_fn memdict) (e : medl) (ev : keyevent) := process_keyevent dops lay_ops conv e ev.
Definition ml_select (conv : conv_fn memdict) (e : medl) (n : nat) := ed_select dops lay_ops conv e n.
Definition ml_cancel (e : medl) := ed_cancel_selecting e.
Definition ml_start_selecting (e : medl) := ed_start_selecting dops lay_ops e.
Definition ml_commit (conv : conv_fn memdict) (e : medl) := ed_commit dops conv e.
Definition ml_clear (e : medl) := ed_clear lay_ops e.
Definition ml_ack (e : medl) := ed_ack e.
Definition ml_set_options (e : medl) (o : options) := ed_set_options_c dops lay_ops e o.
Definition ml_set_engine (e : medl) (k : engine_kind) := ed_set_engine e k.
Definition ml_set_layout (e : medl) (L : N) := ed_set_layout dops lay_ops e L.
Definition ml_clear_syl (e : medl) := ed_clear_syllable_editor lay_ops e.
Definition ml_jump_next (e : medl) := ed_jump_next dops e.
Definition ml_jump_prev (e : medl) := ed_jump_prev dops e.
Definition ml_jump_first (e : medl) := ed_jump_first dops e.
Definition ml_jump_last (e : medl) := ed_jump_last dops e.
Definition ml_learn (e : medl) (k t : list N) := ed_learn_c dops lay_ops e k t.
Definition ml_unlearn (e : medl) (k t : list N) := ed_unlearn_c dops lay_ops e k t.
Definition ml_candidates (e : medl) := ed_all_candidates dops lay_ops e.
Definition ml_total_page (e : medl) := ed_total_page dops lay_ops e.
Definition ml_syl_read (e : medl) : N := so_read lay_ops (syl (sh e)).
Definition ml_layout (e : medl) : N := fst (syl (sh e)).

Definition ml_valid_conv (e : medl) (c : composition) (ivs : list interval) : bool :=
  let d := dict (sh e) in
  match engine (sh e) with
  | EngSimple => list_eqb interval_eqb (simple_convert (m_lookup1 d) spell c) ivs
  | k => valid_conversion spell (fun syms => do_lookup dops d (engine_fuzzy k) (syl_prefix syms)) c ivs
  end.

Definition ml_engine_alts (e : medl) (c : composition) : outcome (list (list interval) * bool) :=
  let d := dict (sh e) in
  match engine (sh e) with
  | EngSimple => Ok ([simple_convert (m_lookup1 d) spell c], false)
  | k => chewing_convert_x sort_by_len spell (fun syms => do_lookup dops d (engine_fuzzy k) (syl_prefix syms)) c
  end.
End ML.

(* the modelled engines over a dictionary whose system layer is a trie file *)
Definition mf_conv : conv_fn memdict := fun d k c n =>
  match k with
  | EngSimple => simple_convert (m_lookup1 d) spell c
  | _ => if Nat.leb (clen c) 4000
         then engine_alt sort_by_len spell (fun syms => mdf_lookup d (engine_fuzzy k) (syl_prefix syms)) c n
         else simple_convert (m_lookup1 d) spell c
  end.
