(* Executable model of dc26.rs (Dai Chien CP26).  Keys are KeyIndex values; the
   two toggling keys K21 (I / A) and K44 (IU / OU) are modelled by hand, the other
   arms come from Gen/Layout_gen.v.  No proofs. *)
From Coq Require Import NArith List Bool.
From LC Require Import Base.Lib Gen.Bopomofo_gen Gen.Keyboard_gen Gen.Layout_gen Model.Syllable Model.LayoutBase.
Import ListNotations.
Open Scope N_scope.

Definition dc26_is_end_key (st idx : N) : bool := memN idx dc26_end_keys && negb (is_empty st).

(* KeyIndex::K21: Some result = the arm returned Absorb itself; None = fall through with I *)
Definition dc26_k21 (st : N) : option (outcome N) :=
  let m := medial st in let r := rime st in
  if opt_is m bI && opt_is r bA then Some (Ok (rm_rime (rm_medial st)))
  else if opt_is r bA then Some (update st bI)
  else if opt_is m bI then Some (update (rm_medial st) bA)
  else if is_some m then Some (update st bA)
  else None.

(* KeyIndex::K44 *)
Definition dc26_k44 (st : N) : option (outcome N) :=
  let m := medial st in let r := rime st in
  if opt_is m bIU && negb (is_some r) then Some (update (rm_medial st) bOU)
  else if opt_is m bIU && is_some r && negb (opt_is r bOU) then Some (update (rm_medial st) bOU)
  else if negb (is_some m) && opt_is r bOU then Some (obind (update st bIU) (fun s => Ok (rm_rime s)))
  else if is_some m && negb (opt_is m bIU) && opt_is r bOU then Some (obind (update st bIU) (fun s => Ok (rm_rime s)))
  else if is_some m then Some (update st bOU)
  else None.

Definition dc26_key_press (st idx : N) : outcome (N * behavior) :=
  if dc26_is_end_key st idx then
    obind (match assoc idx dc26_tone_keys with
           | Some t => update st t
           | None => Ok (rm_tone st)
           end) (fun s => Ok (s, Commit))
  else
    match assoc idx dc26_key_arms with
    | None => Ok (st, KeyError)
    | Some arm =>
      match eval_arm st arm with
      | Some b => obind (update st b) (fun s => Ok (s, Absorb))
      | None =>
        if idx =? kiK21 then
          match dc26_k21 st with
          | Some o => obind o (fun s => Ok (s, Absorb))
          | None => obind (update st bI) (fun s => Ok (s, Absorb))
          end
        else if idx =? kiK44 then
          match dc26_k44 st with
          | Some o => obind o (fun s => Ok (s, Absorb))
          | None => obind (update st bIU) (fun s => Ok (s, Absorb))
          end
        else Panic 203             (* a hand-modelled arm this model does not know (asserted by tablegen) *)
      end
    end.
