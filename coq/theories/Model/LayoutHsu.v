(* Executable model of hsu.rs (key_press with its context rules, alt_syllables).
   Keys are KeyCode values; the key -> symbol arms, the end keys, their tones and
   ALT_TABLE come from Gen/Layout_gen.v.  State = the syllable code.  No proofs. *)
From Coq Require Import NArith List Bool.
From LC Require Import Base.Lib Gen.Bopomofo_gen Gen.Layout_gen Model.Syllable Model.LayoutBase.
Import ListNotations.
Open Scope N_scope.

Definition hsu_is_end_key (st code : N) : bool := memN code hsu_end_keys && negb (is_empty st).

(* the (initial-only) rewrites applied when an end key arrives *)
Definition hsu_end_rewrite (st : N) : outcome N :=
  if negb (has_medial st) && negb (has_rime st) then
    match initial st with
    | Some k =>
        if k =? bJ then update st bZH
        else if k =? bQ then update st bCH
        else if k =? bX then update st bSH
        else if k =? bH then update (rm_initial st) bO
        else if k =? bG then update (rm_initial st) bE
        else if k =? bM then update (rm_initial st) bAN
        else if k =? bN then update (rm_initial st) bEN
        else if k =? bK then update (rm_initial st) bANG
        else if k =? bL then update (rm_initial st) bER
        else Ok st
    | None => Ok st
    end
  else Ok st.

(* fuzzy G+I / G+IU -> J *)
Definition hsu_gi_to_ji (st : N) : outcome N :=
  if opt_is (initial st) bG && (opt_is (medial st) bI || opt_is (medial st) bIU)
  then update st bJ else Ok st.

Definition hsu_key_press (st code : N) : outcome (N * behavior) :=
  if hsu_is_end_key st code then
    obind (hsu_end_rewrite st) (fun s1 =>
    obind (hsu_gi_to_ji s1) (fun s2 =>
    obind (match assoc code hsu_tone_keys with
           | Some t => update s2 t
           | None => Ok (rm_tone s2)
           end) (fun s3 => Ok (s3, Commit))))
  else
    match assoc code hsu_key_arms with
    | None => Ok (st, NoWord)
    | Some arm =>
      match eval_arm st arm with
      | None => Panic 201          (* no hand-modelled arm in hsu.rs (asserted by tablegen) *)
      | Some b =>
        let kind := bkind b in
        obind (hsu_gi_to_ji st) (fun s1 =>
        (* J Q X must be followed by I or IU; otherwise they become ZH CH SH *)
        obind (if ((kind =? KIND_MEDIAL) && (b =? bU)) || ((kind =? KIND_RIME) && negb (has_medial s1)) then
                 if opt_is (initial s1) bJ then update s1 bZH
                 else if opt_is (initial s1) bQ then update s1 bCH
                 else if opt_is (initial s1) bX then update s1 bSH
                 else Ok s1
               else Ok s1) (fun s2 =>
        (* ZH CH SH followed by I or IU become J Q X *)
        obind (if (b =? bI) || (b =? bIU) then
                 if opt_is (initial s2) bZH then update s2 bJ
                 else if opt_is (initial s2) bCH then update s2 bQ
                 else if opt_is (initial s2) bSH then update s2 bX
                 else Ok s2
               else Ok s2) (fun s3 =>
        obind (update s3 b) (fun s4 => Ok (s4, Absorb)))))
      end
    end.

Definition hsu_alt_table : list (N * list N) := alt_table_of hsu_alt_table_syms.
Definition hsu_alt_syllables (s : N) : list N := alt_lookup hsu_alt_table s.
