(* C20 meets C11: the dictionary `chewing-cli init-database` compiles (Model/Cli.v: compile_records, "the last record of
   a (syllables, phrase) pair wins") IS what the trie builder holds and enumerates when it is fed the same records
   (Model/TrieCodec.v: build / tentries; strings as UTF-8 bytes).  With TrieRoundtrip.write_read this reaches the bytes
   of the file.  Stdlib only. *)
From Coq Require Import NArith List Bool Lia Permutation.
From LC Require Import Base.Lib Model.Utf8 Model.Der Model.Syllable Model.TrieCodec Model.Uhash Model.Cli
     Proofs.CliProofs Proofs.TrieLayout Proofs.TrieRoundtrip Proofs.TrieEntries Proofs.Utf8Inj.
Import ListNotations.
Open Scope N_scope.

(* a record as the builder receives it: the phrase as a Rust String (UTF-8), no timestamp *)
Definition entry_of (r : srec) : entry := (sr_syls r, mkPhrase (encode_utf8 (sr_phrase r)) (sr_freq r) None).
(* the phrase is a sequence of chars *)
Definition rec_ok (r : srec) : Prop := Forall cp_ok (sr_phrase r).

Lemma entry_of_inj r x : rec_ok r -> rec_ok x -> entry_of r = entry_of x -> r = x.
Proof.
  intros Hr Hx H. destruct r as [s1 p1 f1], x as [s2 p2 f2]. unfold entry_of, rec_ok in *. cbn [sr_syls sr_phrase sr_freq] in *.
  injection H as Hs Hp Hf. apply (encode_utf8_inj _ _ Hr Hx) in Hp. subst. reflexivity.
Qed.

Lemma hits_key r x : rec_ok r -> rec_ok x ->
  (hits (sr_syls r) (snd (entry_of r)) (entry_of x) <-> srec_key x = srec_key r).
Proof.
  intros Hr Hx. unfold hits, entry_of, srec_key. cbn [fst snd p_str]. split.
  - intros [Hs Hp]. apply (encode_utf8_inj _ _ Hx Hr) in Hp. now rewrite Hs, Hp.
  - intros H. inversion H as [[Hs Hp]]. now rewrite Hp.
Qed.

(* the last element of a list with a (decidable) property *)
Lemma last_with {A} (P : A -> bool) : forall l x, In x l -> P x = true ->
  exists l1 y l2, l = l1 ++ y :: l2 /\ P y = true /\ forallb (fun z => negb (P z)) l2 = true.
Proof.
  induction l as [|a l IH]; intros x Hin Hp; [destruct Hin|].
  destruct (existsb P l) eqn:E.
  - apply existsb_exists in E as (z & Hz & Pz). destruct (IH z Hz Pz) as (l1 & y & l2 & -> & Py & Hl2).
    exists (a :: l1), y, l2. repeat split; assumption.
  - assert (Hn : forallb (fun z => negb (P z)) l = true).
    { apply forallb_forall. intros z Hz. apply negb_true_iff. destruct (P z) eqn:Pz; [|reflexivity].
      assert (existsb P l = true) by (apply existsb_exists; eauto). congruence. }
    destruct Hin as [->|Hin].
    + exists [], x, l. repeat split; assumption.
    + exfalso. assert (existsb P l = true) by (apply existsb_exists; eauto). congruence.
Qed.

Lemma find_rev_last {A} (P : A -> bool) l1 y l2 : P y = true -> forallb (fun z => negb (P z)) l2 = true ->
  find P (rev (l1 ++ y :: l2)) = Some y.
Proof.
  intros Py Hl2. rewrite rev_app_distr. cbn [rev]. rewrite <- app_assoc. cbn [app].
  assert (G : forall l, forallb (fun z => negb (P z)) l = true -> forall r, find P (l ++ r) = find P r).
  { induction l as [|a l IH]; intros H r; [reflexivity|]. cbn [forallb] in H. apply andb_true_iff in H as [Ha Hl].
    cbn [app find]. apply negb_true_iff in Ha. rewrite Ha. now apply IH. }
  rewrite G; [cbn [find]; now rewrite Py|].
  apply forallb_forall. intros z Hz. apply in_rev in Hz. rewrite forallb_forall in Hl2. now apply Hl2.
Qed.

(* WHAT THE TRIE HOLDS IS THE COMPILED MAP: a record r of the source is enumerated by the trie built from the records
   exactly when the compiled map answers its key with its frequency - i.e. when r is the LAST record of its key *)
Theorem trie_holds_the_compiled_map rs : Forall rec_ok rs -> forall r, In r rs ->
  (In (entry_of r) (tentries (build (map entry_of rs))) <->
   sdict_lookup (compile_records rs) (srec_key r) = Some (sr_freq r)).
Proof.
  intros Hok r Hin. rewrite Forall_forall in Hok. pose proof (Hok r Hin) as Hr.
  rewrite compile_lookup. unfold entry_of at 1. rewrite entries_build, phrases_for_last. split.
  - intros (es1 & es2 & Heq & Hno).
    apply map_eq_app in Heq as (rs1 & rs2' & -> & <- & Heq). apply map_eq_cons in Heq as (r' & rs2 & -> & Hr' & <-).
    assert (Hr'ok : rec_ok r') by (apply Hok; apply in_or_app; right; now left).
    assert (r' = r) by (apply entry_of_inj; assumption). subst r'.
    rewrite (find_rev_last (fun x => skey_eqb (srec_key r) (srec_key x)) rs1 r rs2); [reflexivity | apply skey_eqb_refl|].
    apply forallb_forall. intros z Hz. apply negb_true_iff. apply skey_eqb_neq. intros Hk.
    rewrite Forall_forall in Hno. apply (Hno (entry_of z) (in_map _ _ _ Hz)).
    apply (proj2 (hits_key r z Hr (Hok z ltac:(apply in_or_app; right; now right)))). now symmetry.
  - intros Hf.
    destruct (last_with (fun x => skey_eqb (srec_key r) (srec_key x)) rs r Hin (skey_eqb_refl _)) as (rs1 & y & rs2 & Heq & Py & Hl2).
    rewrite Heq, (find_rev_last _ rs1 y rs2 Py Hl2) in Hf. inversion Hf as [Hfreq].
    apply skey_eqb_spec in Py.
    assert (y = r).
    { destruct y as [s1 p1 f1], r as [s2 p2 f2]. unfold srec_key in Py. cbn in *. inversion Py. now subst. }
    subst y. exists (map entry_of rs1), (map entry_of rs2). split; [rewrite Heq, map_app; reflexivity|].
    apply Forall_forall. intros e He. apply in_map_iff in He as (z & <- & Hz).
    intros Hh. assert (Hzok : rec_ok z) by (apply Hok; rewrite Heq; apply in_or_app; right; now right).
    apply (proj1 (hits_key r z Hr Hzok)) in Hh.
    rewrite forallb_forall in Hl2. specialize (Hl2 z Hz). apply negb_true_iff in Hl2.
    rewrite Hh, skey_eqb_refl in Hl2. discriminate.
Qed.

(* ... and the trie holds nothing but records of the source *)
Theorem trie_holds_only_source_records rs e :
  In e (tentries (build (map entry_of rs))) -> exists r, In r rs /\ e = entry_of r.
Proof.
  destruct e as [k p]. rewrite entries_build, phrases_for_last. intros (es1 & es2 & Heq & _).
  apply map_eq_app in Heq as (rs1 & rs2' & -> & <- & Heq). apply map_eq_cons in Heq as (r' & rs2 & -> & Hr' & <-).
  exists r'. split; [apply in_or_app; right; now left | now symmetry].
Qed.
