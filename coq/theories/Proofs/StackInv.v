(* The saved cursors (CompositionEditor::cursor_stack; push_cursor when a phrase / special-symbol list opens,
   pop_cursor when a list closes) never leak: outside the Selecting state the stack is EMPTY, while a list is open
   it holds at most one cursor - after every history of key events and public operations.  (A leaked cursor is
   restored by the next unmatched pop - the symbol table's choice - and the cursor jumps: the pinned reset defect
   of C17 and several seeded changes of C01 / C05 / C17 were of this kind.)  Hence a symbol chosen from the symbol
   table lands at the cursor and the cursor ends right after it (C05).  Stdlib only. *)
From Coq Require Import NArith List Bool Arith Lia.
From LC Require Import Base.Lib Gen.Editor_gen Model.Composition Model.Conversion Model.Editor Model.EditorRun
     Proofs.CompositionProofs Proofs.EditorInv.
Import ListNotations.
Open Scope nat_scope.

Section Stack.
Context {D SY : Type} (dops : dict_ops D) (sops : syl_ops SY) (conv : conv_fn D).
Notation shared' := (shared D SY).
Notation editor' := (editor D SY).

Implicit Types s : shared D SY.
Implicit Types e : editor D SY.

Ltac inv_ok H := inversion H; subst; clear H.
Ltac bind_ok H x Hx := apply obind_ok in H; destruct H as (x & Hx & H).
Ltac split_if H :=
  match type of H with
  | context[if ?c then _ else _] => let E := fresh "E" in destruct c eqn:E
  end.

Definition stk s : list nat := cursor_stack (com s).

(* a list that REPLACES (phrase list, special-symbol list and its fallback): the only ones that save the cursor *)
Definition sel_target (t : transition) : Prop := match t with ToState (Selecting _ false _) => True | _ => False end.

(* what a key handler of a state WITHOUT a list may do to the saved cursors: nothing, drop them all, or - only
   together with opening a list - save one more *)
Definition SR s s' (t : transition) : Prop :=
  stk s' = stk s \/ stk s' = [] \/ (sel_target t /\ exists c, stk s' = c :: stk s).

Lemma with_inner_stack c cur r c' : with_inner c cur r = Ok c' -> cursor_stack c' = cursor_stack c.
Proof. unfold with_inner. destruct r; intros H; inv_ok H. reflexivity. Qed.

Lemma ce_ops_stack c :
  (forall x c', ce_insert c x = Ok c' -> cursor_stack c' = cursor_stack c) /\
  (forall x c', ce_replace c x = Ok c' -> cursor_stack c' = cursor_stack c) /\
  (forall c', ce_remove_before_cursor c = Ok c' -> cursor_stack c' = cursor_stack c) /\
  (forall c', ce_remove_after_cursor c = Ok c' -> cursor_stack c' = cursor_stack c) /\
  (forall c', ce_insert_glue c = Ok c' -> cursor_stack c' = cursor_stack c) /\
  (forall c', ce_insert_break c = Ok c' -> cursor_stack c' = cursor_stack c) /\
  (forall n c', ce_remove_front c n = Ok c' -> cursor_stack c' = cursor_stack c) /\
  (forall iv c', ce_select c iv = Ok c' -> cursor_stack c' = cursor_stack c).
Proof.
  repeat split; intros.
  - eapply with_inner_stack; eassumption.
  - eapply with_inner_stack; eassumption.
  - unfold ce_remove_before_cursor in H. destruct (Nat.eqb _ _); [now inv_ok H | eapply with_inner_stack; eassumption].
  - eapply with_inner_stack; eassumption.
  - unfold ce_insert_glue in H. destruct (ce_is_end c); [now inv_ok H | eapply with_inner_stack; eassumption].
  - unfold ce_insert_break in H. destruct (ce_is_end c); [now inv_ok H | eapply with_inner_stack; eassumption].
  - eapply with_inner_stack; eassumption.
  - unfold ce_select in H. destruct (itext iv); [discriminate | eapply with_inner_stack; eassumption].
Qed.

Lemma insert_chars_stack l : forall c c', insert_chars c l = Ok c' -> cursor_stack c' = cursor_stack c.
Proof.
  induction l as [|ch l IH]; intros c c' H; cbn [insert_chars] in H; [now inv_ok H|].
  bind_ok H c1 H1. rewrite (IH _ _ H). destruct (ce_ops_stack c) as (Hi & _). exact (Hi _ _ H1).
Qed.

Lemma pop_stack c : cursor_stack (ce_pop_cursor c) = tl (cursor_stack c).
Proof. unfold ce_pop_cursor. destruct (cursor_stack c); reflexivity. Qed.

Lemma clamp_stack c : cursor_stack (ce_clamp_cursor c) = cursor_stack c.
Proof. unfold ce_clamp_cursor. destruct (Nat.eqb _ _); reflexivity. Qed.

(* a step on the composition of s that keeps the stack *)
Lemma with_com_keep s r s' : with_com s r = Ok s' -> (forall c, r = Ok c -> cursor_stack c = stk s) -> stk s' = stk s.
Proof. unfold with_com. intros H K. bind_ok H c Hc. inv_ok H. unfold stk. cbn. now apply K. Qed.

Ltac ce_stack Hc0 :=
  match type of Hc0 with
  | ce_insert ?c _ = Ok _ => exact (proj1 (ce_ops_stack c) _ _ Hc0)
  | ce_replace ?c _ = Ok _ => exact (proj1 (proj2 (ce_ops_stack c)) _ _ Hc0)
  | ce_remove_before_cursor ?c = Ok _ => exact (proj1 (proj2 (proj2 (ce_ops_stack c))) _ Hc0)
  | ce_remove_after_cursor ?c = Ok _ => exact (proj1 (proj2 (proj2 (proj2 (ce_ops_stack c)))) _ Hc0)
  | ce_insert_glue ?c = Ok _ => exact (proj1 (proj2 (proj2 (proj2 (proj2 (ce_ops_stack c))))) _ Hc0)
  | ce_insert_break ?c = Ok _ => exact (proj1 (proj2 (proj2 (proj2 (proj2 (proj2 (ce_ops_stack c)))))) _ Hc0)
  | ce_remove_front ?c _ = Ok _ => exact (proj1 (proj2 (proj2 (proj2 (proj2 (proj2 (proj2 (ce_ops_stack c))))))) _ _ Hc0)
  | ce_select ?c _ = Ok _ => exact (proj2 (proj2 (proj2 (proj2 (proj2 (proj2 (proj2 (ce_ops_stack c))))))) _ _ Hc0)
  end.

Ltac keep_com H :=
  eapply with_com_keep; [exact H | let c0 := fresh "c0" in let Hc0 := fresh "Hc0" in intros c0 Hc0; unfold stk; ce_stack Hc0].

Lemma same s s' t : stk s' = stk s -> SR s s' t.
Proof. intros H. now left. Qed.

Lemma commit_or_insert_stk s ch s' t : commit_or_insert s ch = Ok (s', t) -> stk s' = stk s.
Proof.
  unfold commit_or_insert. destruct (ce_is_empty (com s)); intros H; [now inv_ok H|].
  bind_ok H x Hx. inv_ok H. keep_com Hx.
Qed.

Lemma entering_default_stk s ev s' t : entering_default sops s ev = Ok (s', t) -> SR s s' t.
Proof.
  intros H. unfold entering_default in H.
  destruct (negb (o_english (opts s))).
  - destruct (N.eqb (kcode ev) kc_Grave && mods_none ev); [inv_ok H; now apply same|].
    destruct (N.eqb (kcode ev) kc_Space).
    { destruct (negb (o_fullwidth (opts s))); [apply same; eapply commit_or_insert_stk; eassumption|].
      destruct (full_width_symbol_input (kunicode ev)); [apply same; eapply commit_or_insert_stk; eassumption | discriminate]. }
    destruct (o_easy_symbol (opts s)).
    { destruct (assoc (kunicode ev) (abbr s)).
      - bind_ok H c Hc. inv_ok H. apply same. unfold stk. cbn. eapply insert_chars_stack; eassumption.
      - destruct (special_symbol_input (kunicode ev)).
        + bind_ok H s1 H1. inv_ok H. apply same. keep_com H1.
        + destruct (mods_none ev).
          * destruct (so_key_press sops (syl s) ev) as [sy kb]. destruct kb; inv_ok H; now apply same.
          * inv_ok H. now apply same. }
    set (pressed := if mods_none ev then Some (so_key_press sops (syl s) ev) else None) in *.
    destruct pressed as [[sy kb]|].
    + destruct kb; try (inv_ok H; now apply same);
      (destruct (special_symbol_input (kunicode ev));
       [bind_ok H s1 H1; inv_ok H; apply same; change (stk s) with (stk (set_syl s sy)); keep_com H1|];
       destruct (is_printable ev); [|inv_ok H; now apply same];
       destruct (negb (o_fullwidth (opts s)));
       [apply same; change (stk s) with (stk (set_syl s sy)); eapply commit_or_insert_stk; eassumption|];
       destruct (full_width_symbol_input (kunicode ev)); [|discriminate];
       apply same; change (stk s) with (stk (set_syl s sy)); eapply commit_or_insert_stk; eassumption).
    + destruct (special_symbol_input (kunicode ev));
       [bind_ok H s1 H1; inv_ok H; apply same; keep_com H1|].
      destruct (is_printable ev); [|inv_ok H; now apply same].
      destruct (negb (o_fullwidth (opts s))); [apply same; eapply commit_or_insert_stk; eassumption|].
      destruct (full_width_symbol_input (kunicode ev)); [apply same; eapply commit_or_insert_stk; eassumption | discriminate].
  - destruct (negb (o_fullwidth (opts s))); [apply same; eapply commit_or_insert_stk; eassumption|].
    destruct (full_width_symbol_input (kunicode ev)); [apply same; eapply commit_or_insert_stk; eassumption | inv_ok H; now apply same].
Qed.

Lemma learn_phrase_com s k t s' ok : learn_phrase dops s k t = Ok (s', ok) -> com s' = com s.
Proof.
  unfold learn_phrase. intros H. split_if H; [now inv_ok H|].
  destruct (do_lookup dops (dict s) false k) as [|p ps].
  - destruct (do_add dops (dict s) k t 1%N). now inv_ok H.
  - bind_ok H uf Hu. now inv_ok H.
Qed.

Lemma learn_in_range_stk s a b s' ok : learn_in_range dops conv s a b = Ok (s', ok) -> stk s' = stk s.
Proof.
  unfold learn_in_range. intros H.
  split_if H; [now inv_ok H|]. split_if H; [discriminate|]. split_if H; [now inv_ok H|]. split_if H; [now inv_ok H|].
  destruct (do_add dops (dict s) _ _ 100%N) as [d' okk]. destruct okk; now inv_ok H.
Qed.

Lemma new_selecting_stk s s' st' :
  (new_phrase_selecting dops s = Ok (s', st') \/ new_phrase_selecting_simple s = Ok (s', st') \/
   exists sym, new_special_selecting s sym = Ok (s', st')) ->
  (exists pg sl, st' = Selecting pg false sl) /\ exists c, stk s' = c :: stk s.
Proof.
  intros [H|[H|(sym & H)]].
  - unfold new_phrase_selecting in H. bind_ok H p Hp. inv_ok H. split; [eauto|]. unfold stk. cbn [com set_com].
    rewrite clamp_stack. cbn. eauto.
  - unfold new_phrase_selecting_simple in H. bind_ok H p Hp. inv_ok H. split; [eauto|]. unfold stk. cbn. eauto.
  - unfold new_special_selecting in H. bind_ok H m Hm.
    destruct m; inv_ok H; (split; [eauto|]); unfold stk; cbn [com set_com]; rewrite clamp_stack; cbn; eauto.
Qed.

Lemma start_selecting_common_stk s f s' t : start_selecting_common dops s f = Ok (s', t) ->
  (s', t) = f s \/ (sel_target t /\ exists c, stk s' = c :: stk s).
Proof.
  unfold start_selecting_common. destruct (ce_symbol_for_select (com s)) as [sym|].
  - destruct (is_syllable sym); intros H; bind_ok H r Hr; destruct r as [s1 st1]; cbn [fst snd] in H; injection H as Hs Ht; subst s' t; right.
    + destruct (new_selecting_stk s s1 st1 (or_introl Hr)) as ((pg & sl & ->) & Hc). split; [exact I | exact Hc].
    + destruct (new_selecting_stk s s1 st1 (or_intror (or_intror (ex_intro _ sym Hr)))) as ((pg & sl & ->) & Hc).
      split; [exact I | exact Hc].
  - intros H. inv_ok H. now left.
Qed.

Lemma auto_learn_go_com syms : forall ivs s pending psyl s',
  auto_learn_go dops s syms ivs pending psyl = Ok s' -> com s' = com s.
Proof.
  induction ivs as [|iv rest IH]; intros s pending psyl s' H; cbn [auto_learn_go] in H.
  - destruct pending; [now inv_ok H|]. bind_ok H r Hr. destruct r as [s1 ok]. inv_ok H. cbn [fst].
    eapply learn_phrase_com; eassumption.
  - split_if H; [discriminate|]. split_if H; [discriminate|].
    split_if H; [eapply IH; eassumption|].
    bind_ok H s1 H1. bind_ok H s2 H2. rewrite (IH _ _ _ _ H).
    assert (C1 : com s1 = com s).
    { destruct pending; [now inv_ok H1|]. bind_ok H1 r Hr. destruct r as [sx ok]. inv_ok H1. cbn [fst]. eapply learn_phrase_com; eassumption. }
    assert (C2 : com s2 = com s1).
    { destruct (iphrase iv); [|now inv_ok H2]. bind_ok H2 r Hr. destruct r as [sx ok]. inv_ok H2. cbn [fst]. eapply learn_phrase_com; eassumption. }
    congruence.
Qed.

Lemma commit_stk s s' : commit dops conv s = Ok s' -> stk s' = [].
Proof.
  unfold commit. intros H. bind_ok H s1 H1. inv_ok H. reflexivity.
Qed.

Lemma entering_next_stk s ev s' t : entering_next dops sops conv s ev = Ok (s', t) -> SR s s' t.
Proof.
  intros H. unfold entering_next in H.
  split_if H.
  { split_if H; [inv_ok H; now apply same|]. bind_ok H s1 H1. inv_ok H. apply same. keep_com H1. }
  split_if H; [inv_ok H; now apply same|].
  split_if H.
  { split_if H; [inv_ok H; now apply same|].
    split_if H.
    - bind_ok H r Hr. destruct r as [s1 ok]. inv_ok H. apply same. cbn [fst]. eapply learn_in_range_stk; eassumption.
    - split_if H.
      + bind_ok H r Hr. destruct r as [s1 ok]. inv_ok H. apply same. cbn [fst]. eapply learn_in_range_stk; eassumption.
      + inv_ok H. now apply same. }
  split_if H; [inv_ok H; now apply same|].
  split_if H.
  { split_if H; [inv_ok H; now apply same|].
    split_if H; bind_ok H s1 H1; inv_ok H; apply same; keep_com H1. }
  split_if H.
  { split_if H; [inv_ok H; now apply same|]. bind_ok H s1 H1. inv_ok H. apply same. keep_com H1. }
  split_if H; [inv_ok H; now apply same|].
  split_if H; [split_if H; inv_ok H; now apply same|].
  split_if H; [split_if H; inv_ok H; now apply same|].
  split_if H; [inv_ok H; now apply same|].
  split_if H; [inv_ok H; now apply same|].
  split_if H; [inv_ok H; now apply same|].
  split_if H; [inv_ok H; now apply same|].
  split_if H.
  { destruct (start_selecting_common_stk _ _ _ _ H) as [K|K]; [|right; right; exact K]. cbv beta in K.
    destruct (ce_is_empty (com s)); inv_ok K; now apply same. }
  split_if H.
  { destruct (start_selecting_common_stk _ _ _ _ H) as [K|K]; [|right; right; exact K]. cbv beta in K. inv_ok K. now apply same. }
  split_if H; [inv_ok H; now apply same|].
  split_if H; [bind_ok H s1 H1; inv_ok H; right; left; eapply commit_stk; eassumption|].
  split_if H; [split_if H; inv_ok H; [right; left; reflexivity | now apply same]|].
  split_if H; [apply same; eapply commit_or_insert_stk; eassumption|].
  eapply entering_default_stk; eassumption.
Qed.

Lemma entering_syllable_next_stk s ev s' t : entering_syllable_next dops sops s ev = Ok (s', t) -> SR s s' t.
Proof.
  intros H. unfold entering_syllable_next in H.
  split_if H; [split_if H; inv_ok H; now apply same|].
  split_if H; [inv_ok H; now apply same|].
  split_if H; [split_if H; inv_ok H; [right; left; reflexivity | now apply same]|].
  destruct (if o_fuzzy (opts s) then so_fuzzy_key_press sops (syl s) ev else so_key_press sops (syl s) ev) as [sy kb].
  destruct kb as [| | | | | | |code]; try (inv_ok H; now apply same).
  - split_if H; [|inv_ok H; now apply same]. bind_ok H s2 H2.
    assert (S2 : stk s2 = stk s) by (change (stk s) with (stk (set_syl s sy)); keep_com H2).
    destruct (o_engine _).
    + bind_ok H r Hr. destruct r as [s3 st3]. cbn [fst snd] in H. injection H as Hs Ht. subst s' t.
      destruct (new_selecting_stk _ s3 st3 (or_intror (or_introl Hr))) as ((pg & sl & ->) & (c & Hc)).
      right. right. split; [exact I|]. exists c. rewrite Hc. unfold stk in *. cbn [com set_syl] in *. now rewrite S2.
    + inv_ok H. apply same. unfold stk in *. cbn [com set_syl] in *. exact S2.
    + inv_ok H. apply same. unfold stk in *. cbn [com set_syl] in *. exact S2.
  - split_if H; [bind_ok H s2 H2|]; inv_ok H; apply same; [|reflexivity].
    change (stk s) with (stk (set_syl s sy)). keep_com H2.
Qed.

Lemma highlighting_next_stk s ev mv s' t mv' : highlighting_next dops conv s ev mv = Ok (s', t, mv') -> stk s' = stk s.
Proof.
  intros H. unfold highlighting_next in H.
  split_if H; [now inv_ok H|]. split_if H; [now inv_ok H|]. split_if H; [now inv_ok H|].
  split_if H; [|now inv_ok H].
  bind_ok H r Hr. destruct r as [s1 ok]. inv_ok H. cbn [fst]. now rewrite (learn_in_range_stk _ _ _ _ _ Hr).
Qed.

(* a handler of the Selecting state: the list stays open and the saved cursors are untouched, or it closes and one
   (Esc: two) saved cursors are dropped *)
Definition SelR s s' (t : transition) : Prop :=
  ((exists b, t = Spin b) /\ stk s' = stk s) \/ (t = ToState Entering /\ (stk s' = tl (stk s) \/ stk s' = tl (tl (stk s)))).

Lemma selecting_select_offset_stk s pg act sel n s' t pg' sel' :
  selecting_select_offset dops sops s pg act sel n = Ok (s', t, pg', sel') -> SelR s s' t.
Proof.
  intros H. unfold selecting_select_offset in H. destruct sel as [p|y|sym0].
  - bind_ok H cands Hc. destruct (nth_error cands _); [bind_ok H c1 H1|]; inv_ok H; [|left; split; [eauto | reflexivity]].
    right. split; [reflexivity|]. left. unfold stk. cbn [com set_com].
    destruct (ce_ops_stack (com s)) as (_ & _ & _ & _ & _ & _ & _ & K8). rewrite <- (K8 _ _ H1).
    destruct (o_auto_shift (opts s)); cbn [ce_right cursor_stack]; apply pop_stack.
  - destruct (Nat.leb _ _); [inv_ok H; left; split; [eauto | reflexivity]|].
    bind_ok H r Hr. destruct r as [y' res]. destruct res; [bind_ok H c1 H1|]; inv_ok H; [|left; split; [eauto | reflexivity]].
    right. split; [reflexivity|]. left. unfold stk. cbn [com set_com]. rewrite pop_stack.
    destruct (ce_ops_stack (com s)) as (K1 & K2 & _). destruct act; [rewrite (K1 _ _ H1) | rewrite (K2 _ _ H1)]; reflexivity.
  - bind_ok H m Hm. destruct (Nat.leb _ _); [inv_ok H; left; split; [eauto | reflexivity]|].
    bind_ok H res Hr. destruct res; [bind_ok H c1 H1|]; inv_ok H; [|left; split; [eauto | reflexivity]].
    right. split; [reflexivity|]. left. unfold stk. cbn [com set_com]. rewrite pop_stack.
    destruct (ce_ops_stack (com s)) as (K1 & K2 & _). destruct act; [rewrite (K1 _ _ H1) | rewrite (K2 _ _ H1)]; reflexivity.
Qed.

Lemma cancel_stk s : stk (cancel_selecting s) = tl (stk s).
Proof. unfold cancel_selecting, stk. cbn [com set_com]. apply pop_stack. Qed.

Lemma selecting_next_stk s ev pg act sel s' t pg' sel' :
  selecting_next dops sops s ev pg act sel = Ok (s', t, pg', sel') -> SelR s s' t.
Proof.
  intros H. unfold selecting_next in H. cbv zeta in H.
  assert (STAY : forall b, SelR s s (Spin b)) by (intros b; left; split; [eauto | reflexivity]).
  split_if H; [inv_ok H; apply STAY|].
  split_if H; [inv_ok H; right; split; [reflexivity | left; apply cancel_stk]|].
  split_if H; [inv_ok H; right; split; [reflexivity | left; apply (cancel_stk (switch_language s))]|].
  split_if H; [inv_ok H; right; split; [reflexivity | left; apply cancel_stk]|].
  split_if H.
  { bind_ok H tp Htp. split_if H; [inv_ok H; apply STAY|].
    destruct sel as [p|y|sym0]; [bind_ok H p' Hp'|..]; inv_ok H; apply STAY. }
  split_if H.
  { split_if H; [inv_ok H; apply STAY|]. bind_ok H sel1 Hs1. inv_ok H. left. split; [eauto | reflexivity]. }
  split_if H.
  { split_if H; [inv_ok H; apply STAY|]. bind_ok H sel1 Hs1. inv_ok H. left. split; [eauto|].
    unfold stk. cbn [com set_com]. now rewrite clamp_stack. }
  split_if H; [split_if H; [inv_ok H; apply STAY|]; bind_ok H tp Htp; inv_ok H; apply STAY|].
  split_if H; [bind_ok H tp Htp; split_if H; inv_ok H; apply STAY|].
  split_if H; [eapply selecting_select_offset_stk; exact H|].
  split_if H.
  { inv_ok H. right. split; [reflexivity|]. right. unfold stk, cancel_selecting. cbn [com set_com]. now rewrite !pop_stack. }
  split_if H; inv_ok H; apply STAY.
Qed.

Lemma try_auto_commit_stk s s' : try_auto_commit conv s = Ok s' -> stk s' = stk s.
Proof.
  unfold try_auto_commit. intros H. split_if H; [now inv_ok H|].
  bind_ok H r Hr. destruct r as [buf rm]. bind_ok H c Hc. inv_ok H. unfold stk. cbn [com set_last set_com set_commit].
  destruct (ce_ops_stack (com s)) as (_ & _ & _ & _ & _ & _ & K7 & _). exact (K7 _ _ Hc).
Qed.

Lemma flush_dirty_stk s : stk (flush_dirty s) = stk s.
Proof. unfold flush_dirty. destruct (N.ltb 0 (dirty s)); reflexivity. Qed.

(* ---- the invariant ---- *)
Definition SIs s (x : estate) : Prop :=
  match x with
  | Selecting _ false _ => length (stk s) <= 1
  | _ => stk s = []
  end.
Definition SI e : Prop := SIs (sh e) (st e).

Lemma SIs_short s x : SIs s x -> length (stk s) <= 1.
Proof. destruct x as [| |pg [|] sel|mv]; cbn; intros H; try (rewrite H; cbn; lia); exact H. Qed.

Lemma SR_out s s' t (old : estate) : SR s s' t -> stk s = [] ->
  (match old with Selecting _ _ _ => False | _ => True end) ->
  let '(s2, st2) := apply_transition s' old t in SIs s2 st2.
Proof.
  intros R H0 Hold. destruct t as [ns|b]; cbn [apply_transition].
  - unfold SIs. change (stk (set_last s' BAbsorb)) with (stk s').
    destruct R as [R|[R|(Ht & c & R)]].
    + rewrite R, H0. destruct ns as [| |pg [|] sel|mv]; cbn; auto.
    + rewrite R. destruct ns as [| |pg [|] sel|mv]; cbn; auto.
    + rewrite R, H0. destruct ns as [| |pg [|] sel|mv]; cbn in *; try contradiction. auto.
  - unfold SIs. change (stk (set_last s' b)) with (stk s').
    destruct R as [R|[R|(Ht & _)]]; [| |contradiction].
    + rewrite R, H0. destruct old; cbn; auto; contradiction.
    + rewrite R. destruct old; cbn; auto; contradiction.
Qed.

Lemma tl_short (l : list nat) : length l <= 1 -> tl l = [] /\ tl (tl l) = [].
Proof. destruct l as [|a [|b l]]; cbn; intros H; try lia; auto. Qed.

(* leaving / staying in the Selecting state *)
Lemma SelR_out s s' t pg act sel pg' sel' : SelR s s' t -> SIs s (Selecting pg act sel) ->
  let '(s2, st2) := apply_transition s' (Selecting pg' act sel') t in SIs s2 st2.
Proof.
  intros R Hi. destruct R as [((b0 & ->) & R)|(-> & R)]; cbn [apply_transition].
  - unfold SIs in *. change (stk (set_last s' b0)) with (stk s'). rewrite R. exact Hi.
  - unfold SIs. change (stk (set_last s' BAbsorb)) with (stk s').
    destruct (tl_short _ (SIs_short _ _ Hi)) as [T1 T2]. destruct R as [R|R]; rewrite R; assumption.
Qed.

Theorem process_keyevent_SI e ev e' b : SI e -> process_keyevent dops sops conv e ev = Ok (e', b) -> SI e'.
Proof.
  intros Hi H. unfold process_keyevent in H.
  set (s0 := set_notice (set_lifetime (sh e) (lifetime (sh e) + 1)%N) []) in *.
  set (s1 := set_commit s0 []) in *.
  assert (E1 : stk s1 = stk (sh e)) by reflexivity.
  bind_ok H r Hr. destruct r as [s2 st2]. bind_ok H s3 H3. injection H as He Hb. subst e'.
  unfold SI in *. cbn [st sh].
  assert (F : forall sx x, SIs sx x -> SIs (flush_dirty sx) x).
  { intros sx x. unfold SIs. now rewrite flush_dirty_stk. }
  apply F.
  assert (K : SIs s2 st2).
  { destruct (st e) as [| |pg act sel|mv] eqn:Est.
    - bind_ok Hr r Hr1. destruct r as [sa ta]. cbn [fst snd] in Hr. injection Hr as Hap.
      pose proof (SR_out s1 sa ta Entering (entering_next_stk _ _ _ _ Hr1) ltac:(rewrite E1; exact Hi) I) as K. now rewrite Hap in K.
    - bind_ok Hr r Hr1. destruct r as [sa ta]. cbn [fst snd] in Hr. injection Hr as Hap.
      pose proof (SR_out s1 sa ta EnteringSyllable (entering_syllable_next_stk _ _ _ _ Hr1) ltac:(rewrite E1; exact Hi) I) as K. now rewrite Hap in K.
    - bind_ok Hr r Hr1. destruct r as [[[sa ta] pg'] sel']. injection Hr as Hap.
      pose proof (SelR_out s1 sa ta pg act sel pg' sel' (selecting_next_stk _ _ _ _ _ _ _ _ _ Hr1) Hi) as K. now rewrite Hap in K.
    - bind_ok Hr r Hr1. destruct r as [[sa ta] mv']. injection Hr as Hap.
      pose proof (highlighting_next_stk _ _ _ _ _ _ Hr1) as R. rewrite E1 in R. cbn [SIs] in Hi. rewrite Hi in R.
      destruct ta as [ns|b0]; cbn [apply_transition] in Hap; inv_ok Hap; unfold SIs; change (stk (set_last sa _)) with (stk sa).
      + unfold highlighting_next in Hr1. repeat (split_if Hr1; [inv_ok Hr1; exact R|]).
        split_if Hr1; [bind_ok Hr1 r0 Hr0; inv_ok Hr1; exact R | inv_ok Hr1; exact R].
      + exact R. }
  destruct (is_entering st2 && behavior_eqb (last s2) BAbsorb).
  - unfold SIs in *. rewrite (try_auto_commit_stk _ _ H3). exact K.
  - inv_ok H3. exact K.
Qed.

Lemma fst_ok_inv {A B} (r : outcome (A * B)) a : fst_ok r = Ok a -> exists b, r = Ok (a, b).
Proof. unfold fst_ok. destruct r as [[x y]| | |]; intros H; inv_ok H. eauto. Qed.

Lemma clamp_page_SI e e' : SI e -> clamp_page dops sops e = Ok e' -> SI e'.
Proof.
  unfold clamp_page, SI. intros Hi H. destruct (st e) as [| |pg act sel|mv] eqn:Est; try (inv_ok H; now rewrite Est).
  split_if H; [inv_ok H; now rewrite Est|]. bind_ok H tp Htp. inv_ok H. exact Hi.
Qed.

(* every public operation keeps the invariant *)
Theorem step_SI e o e' : SI e -> step dops sops conv e o = Ok e' -> SI e'.
Proof.
  intros Hi H. destruct o; cbn [step] in H.
  - (* key *) apply fst_ok_inv in H as (b & H). eapply process_keyevent_SI; eassumption.
  - (* select *)
    apply fst_ok_inv in H as (b & H). unfold ed_select in H.
    destruct (st e) as [| |pg act sel|mv] eqn:Est; try (inv_ok H; exact Hi).
    bind_ok H r Hr. destruct r as [[[s2 t] pg'] sel'].
    destruct (apply_transition s2 (Selecting pg' act sel') t) as [s3 st3] eqn:Ea.
    bind_ok H s4 H4. inv_ok H. unfold SI in *. rewrite Est in Hi. cbn [st sh].
    pose proof (SelR_out (sh e) s2 t pg act sel pg' sel' (selecting_select_offset_stk _ _ _ _ _ _ _ _ _ Hr) Hi) as K. rewrite Ea in K.
    destruct (is_entering st3 && behavior_eqb (last s3) BAbsorb); [unfold SIs in *; rewrite (try_auto_commit_stk _ _ H4); exact K | inv_ok H4; exact K].
  - (* cancel *)
    inv_ok H. unfold ed_cancel_selecting. unfold SI in *. destruct (st e) as [| |pg act sel|mv] eqn:Est; cbn [is_selecting fst st sh]; rewrite ?Est; try exact Hi.
    unfold SIs. change (stk (set_last (cancel_selecting (sh e)) BAbsorb)) with (stk (cancel_selecting (sh e))). rewrite cancel_stk.
    exact (proj1 (tl_short _ (SIs_short _ _ Hi))).
  - (* start *)
    apply fst_ok_inv in H as (b & H). unfold ed_start_selecting in H. bind_ok H r Hr.
    destruct (apply_transition (fst r) (st e) (snd r)) as [s2 st2] eqn:Ea. inv_ok H. unfold SI in *. cbn [st sh].
    destruct (st e) as [| |pg act sel|mv] eqn:Est.
    + destruct r as [sa ta]. cbn [fst snd] in Ea.
      assert (R : SR (sh e) sa ta).
      { destruct (start_selecting_common_stk _ _ _ _ Hr) as [K|K]; [inv_ok K; now left | right; right; exact K]. }
      pose proof (SR_out (sh e) sa ta Entering R Hi I) as K. now rewrite Ea in K.
    + destruct r as [sa ta]. cbn [fst snd] in Ea.
      assert (R : SR (sh e) sa ta).
      { destruct (start_selecting_common_stk _ _ _ _ Hr) as [K|K]; [inv_ok K; now left | right; right; exact K]. }
      pose proof (SR_out (sh e) sa ta EnteringSyllable R Hi I) as K. now rewrite Ea in K.
    + inv_ok Hr. cbn [apply_transition fst snd] in Ea. inv_ok Ea. exact Hi.
    + inv_ok Hr. cbn [apply_transition fst snd] in Ea. inv_ok Ea. exact Hi.
  - (* commit *)
    apply fst_ok_inv in H as (b & H). unfold ed_commit in H. split_if H; [inv_ok H; exact Hi|].
    bind_ok H s1 H1. inv_ok H. apply orb_false_iff in E as [E _]. apply negb_false_iff in E.
    unfold SI. cbn [st sh]. destruct (st e); try discriminate. eapply commit_stk; eassumption.
  - (* clear *) inv_ok H. reflexivity.
  - (* ack *) inv_ok H. exact Hi.
  - (* set options *)
    unfold ed_set_options_c in H. eapply clamp_page_SI; [|exact H]. unfold SI, ed_set_options in *. cbn [st sh].
    destruct (negb (Bool.eqb _ _)); exact Hi.
  - (* set engine *) inv_ok H. exact Hi.
  - (* clear syllable *) inv_ok H. exact Hi.
  - apply fst_ok_inv in H as (b & H). unfold ed_jump_next, with_phrase_sel in H.
    destruct (st e) as [| |pg act [p|y|sy]|mv] eqn:Est; try (inv_ok H; exact Hi).
    bind_ok H r Hr. destruct r; inv_ok H; unfold SI in *; cbn [st sh]; rewrite ?Est in *; exact Hi.
  - apply fst_ok_inv in H as (b & H). unfold ed_jump_prev, with_phrase_sel in H.
    destruct (st e) as [| |pg act [p|y|sy]|mv] eqn:Est; try (inv_ok H; exact Hi).
    bind_ok H r Hr. destruct r; inv_ok H; unfold SI in *; cbn [st sh]; rewrite ?Est in *; exact Hi.
  - apply fst_ok_inv in H as (b & H). unfold ed_jump_first, with_phrase_sel in H.
    destruct (st e) as [| |pg act [p|y|sy]|mv] eqn:Est; try (inv_ok H; exact Hi).
    bind_ok H r Hr. destruct r; inv_ok H; unfold SI in *; cbn [st sh]; rewrite ?Est in *; exact Hi.
  - apply fst_ok_inv in H as (b & H). unfold ed_jump_last, with_phrase_sel in H.
    destruct (st e) as [| |pg act [p|y|sy]|mv] eqn:Est; try (inv_ok H; exact Hi).
    bind_ok H r Hr. destruct r; inv_ok H; unfold SI in *; cbn [st sh]; rewrite ?Est in *; exact Hi.
  - (* learn *)
    apply fst_ok_inv in H as (b & H). unfold ed_learn_c in H. bind_ok H r Hr. bind_ok H e1 H1. inv_ok H.
    eapply clamp_page_SI; [|exact H1]. unfold ed_learn in Hr. bind_ok Hr r1 Hr1. inv_ok Hr. destruct r1 as [s1 ok]. cbn [fst].
    unfold SI, SIs in *. cbn [st sh]. unfold stk in *. now rewrite (learn_phrase_com _ _ _ _ _ Hr1).
  - (* unlearn *)
    unfold ed_unlearn_c in H. eapply clamp_page_SI; [|exact H]. exact Hi.
  - (* layout *)
    unfold ed_set_layout in H. eapply clamp_page_SI; [|exact H]. exact Hi.
Qed.

Theorem run_SI : forall ops e e', SI e -> run dops sops conv e ops = Ok e' -> SI e'.
Proof.
  induction ops as [|o ops IH]; intros e e' Hi H; cbn [run] in H; [inv_ok H; exact Hi|].
  destruct (step dops sops conv e o) as [e1| | |] eqn:Es; try discriminate.
  eapply IH; [eapply step_SI; eassumption | exact H].
Qed.

Lemma init_SI (d : D) (s0 : SY) ab ss t0 : SI (init_editor d s0 ab ss t0).
Proof. reflexivity. Qed.

(* ---- what it buys (C05): a symbol chosen from the symbol table - the list that INSERTS - lands exactly at the
   cursor, and the cursor ends right after it: the pop that closes the list finds no saved cursor to restore ---- *)
Theorem symbol_table_choice_at_cursor e pg y n s' t pg' sel' :
  SI e -> wf_ce (com (sh e)) -> st e = Selecting pg true (SelSymbol y) ->
  selecting_select_offset dops sops (sh e) pg true (SelSymbol y) n = Ok (s', t, pg', sel') -> t = ToState Entering ->
  exists sym, symbols (inner (com s')) = insert_at (cursor (com (sh e))) sym (symbols (inner (com (sh e)))) /\
              cursor (com s') = S (cursor (com (sh e))).
Proof.
  intros Hi W Hst H Ht. unfold SI in Hi. rewrite Hst in Hi. cbn [SIs] in Hi.
  unfold selecting_select_offset in H. destruct (Nat.leb _ _); [inv_ok H; discriminate|].
  bind_ok H r Hr. destruct r as [y' res]. destruct res as [sym|]; [|inv_ok H; discriminate].
  bind_ok H c1 H1. inv_ok H. exists sym. cbn [com set_com].
  destruct (ce_insert_spec _ _ _ W H1) as (Hw & Hs & Hc & Hk).
  unfold ce_pop_cursor. rewrite Hk. unfold stk in Hi. rewrite Hi. cbn [inner cursor].
  split; [exact Hs|]. rewrite Hc. apply Nat.min_l. destruct Hw as [_ Hle]. unfold ce_len in *. lia.
Qed.

End Stack.
