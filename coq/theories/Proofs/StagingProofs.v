(* C10, two dictionaries in one directory (Model/Staging.v): when the two writers use DIFFERENT staging names (what
   /repo commit ed92e26 establishes: process id + process-wide sequence number in the name), every interleaving of
   their steps ends with each target holding its own writer's contents; with ONE staging name (the pinned code, two
   builds in the same microsecond) there is an interleaving after which the first target holds the second writer's
   contents and the second writer's rename has failed. *)
From Coq Require Import NArith List Bool Arith Lia.
From LC Require Import Model.Staging.
Import ListNotations.
Open Scope N_scope.

Lemma fset_same f k v : fset f k v k = v.
Proof. unfold fset. now rewrite N.eqb_refl. Qed.
Lemma fset_other f k v m : m <> k -> fset f k v m = f m.
Proof. unfold fset. intros H. destruct (N.eqb_spec m k); [contradiction | reflexivity]. Qed.

(* what is known about one writer, by its program counter; X = the name its inode is reachable by *)
Definition wname (p : wparams) (w : wstate) : N := if Nat.leb 3 (w_pc w) then w_target p else w_stage p.

Definition WInv (p : wparams) (w : wstate) (dir ino : fmap) (next : N) : Prop :=
  match w_pc w with
  | O => dir (w_stage p) = None
  | S O => dir (w_stage p) = Some (w_handle w) /\ w_handle w < next /\ (forall m, m <> w_stage p -> dir m <> Some (w_handle w))
  | S (S O) => dir (w_stage p) = Some (w_handle w) /\ w_handle w < next /\ (forall m, m <> w_stage p -> dir m <> Some (w_handle w)) /\
               ino (w_handle w) = Some (w_data p)
  | _ => dir (w_target p) = Some (w_handle w) /\ w_handle w < next /\ (forall m, m <> w_target p -> dir m <> Some (w_handle w)) /\
         ino (w_handle w) = Some (w_data p) /\ dir (w_stage p) = None
  end.

Definition Bound (dir : fmap) (next : N) : Prop := forall m i, dir m = Some i -> i < next.

(* a writer's own step keeps its invariant *)
Lemma wstep_own p w dir ino next w' dir' ino' next' :
  w_stage p <> w_target p -> Bound dir next -> WInv p w dir ino next ->
  wstep p w dir ino next = (w', dir', ino', next') ->
  WInv p w' dir' ino' next' /\ Bound dir' next'.
Proof.
  intros Hst Hb Hi H. unfold wstep in H. unfold WInv in Hi.
  destruct (w_pc w) as [|[|[|k]]] eqn:Epc.
  - rewrite Hi in H. inversion H; subst; clear H. unfold WInv. cbn [w_pc w_handle]. split.
    + split; [apply fset_same|]. split; [lia|]. intros m Hm. rewrite fset_other by exact Hm. intros E. apply Hb in E. lia.
    + intros m i. unfold fset. destruct (N.eqb_spec m (w_stage p)); [intros E; inversion E; lia | intros E; apply Hb in E; lia].
  - destruct Hi as (H1 & H2 & H3). inversion H; subst; clear H. unfold WInv. cbn [w_pc w_handle]. split; [|exact Hb].
    repeat split; auto. apply fset_same.
  - destruct Hi as (H1 & H2 & H3 & H4). rewrite H1 in H. inversion H; subst; clear H. unfold WInv. cbn [w_pc w_handle]. split.
    + split; [rewrite fset_other by (intros E; now apply Hst); apply fset_same|]. split; [exact H2|]. split; [|split; [exact H4 | apply fset_same]].
      intros m Hm. unfold fset. destruct (N.eqb_spec m (w_stage p)); [discriminate|]. destruct (N.eqb_spec m (w_target p)); [contradiction|]. now apply H3.
    + intros m i. unfold fset. destruct (N.eqb_spec m (w_stage p)); [discriminate|]. destruct (N.eqb_spec m (w_target p)); [intros E; inversion E; subst; exact H2 | apply Hb].
  - inversion H; subst; clear H. split; [|exact Hb]. unfold WInv. rewrite Epc. exact Hi.
Qed.

(* ... and the other writer's invariant, when the two use four different names *)
Lemma wstep_frame p q w v dir ino next w' dir' ino' next' :
  w_stage p <> w_stage q -> w_stage p <> w_target q -> w_target p <> w_stage q -> w_target p <> w_target q ->
  WInv p w dir ino next -> WInv q v dir ino next ->
  wstep p w dir ino next = (w', dir', ino', next') ->
  WInv q v dir' ino' next'.
Proof.
  intros N1 N2 N3 N4 Hp Hq H. unfold wstep in H. unfold WInv in Hp.
  destruct (w_pc w) as [|[|[|k]]] eqn:Epc.
  - (* create: a fresh inode under p's staging name *)
    rewrite Hp in H. inversion H; subst; clear H. unfold WInv in *.
    destruct (w_pc v) as [|[|[|j]]].
    + rewrite fset_other by (intros E; now apply N1). exact Hq.
    + destruct Hq as (A & B & C). rewrite fset_other by (intros E; now apply N1). split; [exact A|]. split; [lia|].
      intros m Hm. unfold fset. destruct (N.eqb_spec m (w_stage p)); [intros E; inversion E; lia | now apply C].
    + destruct Hq as (A & B & C & D). rewrite fset_other by (intros E; now apply N1). split; [exact A|]. split; [lia|]. split.
      * intros m Hm. unfold fset. destruct (N.eqb_spec m (w_stage p)); [intros E; inversion E; lia | now apply C].
      * rewrite fset_other by lia. exact D.
    + destruct Hq as (A & B & C & D & E0). rewrite !(fset_other _ (w_stage p)) by (intros E; first [now apply N2 | now apply N1]).
      split; [exact A|]. split; [lia|]. split; [|split; [rewrite fset_other by lia; exact D | exact E0]].
      intros m Hm. unfold fset. destruct (N.eqb_spec m (w_stage p)); [intros E; inversion E; lia | now apply C].
  - (* write through p's handle: another inode than q's *)
    destruct Hp as (P1 & P2 & P3). inversion H; subst; clear H. unfold WInv in *.
    destruct (w_pc v) as [|[|[|j]]]; try exact Hq.
    + destruct Hq as (A & B & C & D). repeat split; auto. rewrite fset_other; [exact D|].
      intros E. apply (C (w_stage p)); [exact N1 | now rewrite P1, E].
    + destruct Hq as (A & B & C & D & E0). repeat split; auto. rewrite fset_other; [exact D|].
      intros E. apply (C (w_stage p)); [exact N2 | now rewrite P1, E].
  - (* rename of p's staging name onto p's target *)
    destruct Hp as (P1 & P2 & P3 & P4). rewrite P1 in H. inversion H; subst; clear H. unfold WInv in *.
    assert (F : forall X, X <> w_stage p -> X <> w_target p ->
                fset (fset dir (w_target p) (Some (w_handle w))) (w_stage p) None X = dir X).
    { intros X A B. rewrite fset_other by exact A. now rewrite fset_other by exact B. }
    assert (G : forall h X, X <> w_stage p -> dir X = Some h -> (forall m, m <> X -> dir m <> Some h) ->
                forall m, m <> X -> fset (fset dir (w_target p) (Some (w_handle w))) (w_stage p) None m <> Some h).
    { intros h X A B C m Hm. unfold fset. destruct (N.eqb_spec m (w_stage p)); [discriminate|].
      destruct (N.eqb_spec m (w_target p)); [|now apply C].
      intros E. inversion E; subst h. apply (C (w_stage p)); [intros E2; now apply A | exact P1]. }
    destruct (w_pc v) as [|[|[|j]]].
    + rewrite F by (intros E; first [now apply N1 | now apply N3]). exact Hq.
    + destruct Hq as (A & B & C). rewrite F by (intros E; first [now apply N1 | now apply N3]). split; [exact A|]. split; [exact B|].
      apply (G _ (w_stage q)); [intros E; now apply N1 | exact A | exact C].
    + destruct Hq as (A & B & C & D). rewrite F by (intros E; first [now apply N1 | now apply N3]). split; [exact A|]. split; [exact B|]. split; [|exact D].
      apply (G _ (w_stage q)); [intros E; now apply N1 | exact A | exact C].
    + destruct Hq as (A & B & C & D & E0). rewrite !F by (intros E; first [now apply N1 | now apply N2 | now apply N3 | now apply N4]).
      split; [exact A|]. split; [exact B|]. split; [|split; [exact D | exact E0]].
      apply (G _ (w_target q)); [intros E; now apply N2 | exact A | exact C].
  - inversion H; subst; clear H. exact Hq.
Qed.

Section Two.
Variables p1 p2 : wparams.
Hypothesis names : w_stage p1 <> w_stage p2 /\ w_stage p1 <> w_target p1 /\ w_stage p1 <> w_target p2 /\
                   w_stage p2 <> w_target p1 /\ w_stage p2 <> w_target p2 /\ w_target p1 <> w_target p2.

Definition SInv (s : sstate) : Prop :=
  Bound (s_dir s) (s_next s) /\ WInv p1 (s_w1 s) (s_dir s) (s_ino s) (s_next s) /\ WInv p2 (s_w2 s) (s_dir s) (s_ino s) (s_next s).

Lemma sstep_inv s b : SInv s -> SInv (sstep p1 p2 s b).
Proof.
  destruct names as (A & B & C & D & E & F). intros (Hb & H1 & H2). unfold sstep. destruct b.
  - destruct (wstep p1 (s_w1 s) (s_dir s) (s_ino s) (s_next s)) as [[[w d] i] n] eqn:Es.
    destruct (wstep_own _ _ _ _ _ _ _ _ _ B Hb H1 Es) as (K1 & K2).
    split; [exact K2|]. split; [exact K1|]. cbn [s_w2 s_dir s_ino s_next].
    eapply (wstep_frame p1 p2); [exact A | exact C | | exact F | exact H1 | exact H2 | exact Es]. intros X; now apply D.
  - destruct (wstep p2 (s_w2 s) (s_dir s) (s_ino s) (s_next s)) as [[[w d] i] n] eqn:Es.
    destruct (wstep_own _ _ _ _ _ _ _ _ _ E Hb H2 Es) as (K1 & K2).
    split; [exact K2|]. split; [|exact K1]. cbn [s_w1 s_dir s_ino s_next].
    eapply (wstep_frame p2 p1); [intros X; now apply A | exact D | | intros X; now apply F | exact H2 | exact H1 | exact Es]. intros X; now apply C.
Qed.

Lemma srun_inv : forall sched s, SInv s -> SInv (srun p1 p2 s sched).
Proof. induction sched as [|b r IH]; intros s H; cbn [srun fold_left]; [exact H | apply IH; now apply sstep_inv]. Qed.

(* every interleaving of the two writers, from a directory that holds neither staging name: when both are done, each
   target holds the contents its own writer wrote *)
Theorem private_staging_names_keep_the_dictionaries_apart dir ino next sched :
  Bound dir next -> dir (w_stage p1) = None -> dir (w_stage p2) = None ->
  let s := srun p1 p2 (sinit dir ino next) sched in
  both_done s = true ->
  file_of s (w_target p1) = Some (w_data p1) /\ file_of s (w_target p2) = Some (w_data p2) /\
  s_dir s (w_stage p1) = None /\ s_dir s (w_stage p2) = None.
Proof.
  intros Hb H1 H2 s Hd.
  assert (I : SInv s).
  { apply srun_inv. split; [exact Hb|]. split; [exact H1 | exact H2]. }
  destruct I as (_ & I1 & I2). unfold both_done in Hd. apply andb_true_iff in Hd as (D1 & D2).
  apply Nat.leb_le in D1, D2. unfold WInv in I1, I2. unfold file_of.
  destruct (w_pc (s_w1 s)) as [|[|[|k1]]]; try lia. destruct (w_pc (s_w2 s)) as [|[|[|k2]]]; try lia.
  destruct I1 as (A1 & _ & _ & B1 & C1). destruct I2 as (A2 & _ & _ & B2 & C2).
  rewrite A1, A2. auto.
Qed.

End Two.

(* the pinned code: both builds pick the staging name 7 (the same microsecond); targets 1 and 2 hold the old
   contents 10 and 20; writer 1 writes 11, writer 2 writes 22.  Interleaving create1 create2 write1 write2 rename1
   rename2: the first target ends with the SECOND writer's contents, the second keeps its old contents (its rename
   found no staging file) - what vharness c10 `pair` observed on the pinned tree *)
Definition pinned_dir : fmap := fun m => if N.eqb m 1 then Some 100 else if N.eqb m 2 then Some 101 else None.
Definition pinned_ino : fmap := fun i => if N.eqb i 100 then Some 10 else if N.eqb i 101 then Some 20 else None.

Theorem shared_staging_name_mixes_the_dictionaries_pinned_refuted :
  let s := srun (mkW 7 1 11) (mkW 7 2 22) (sinit pinned_dir pinned_ino 102) [true; false; true; false; true; false] in
  both_done s = true /\ file_of s 1 = Some 22 /\ file_of s 2 = Some 20.
Proof. vm_compute. repeat split. Qed.

(* the same schedule with the names the repaired code hands out (two different sequence numbers) *)
Theorem shared_staging_name_fixed_example :
  let s := srun (mkW 7 1 11) (mkW 8 2 22) (sinit pinned_dir pinned_ino 102) [true; false; true; false; true; false] in
  both_done s = true /\ file_of s 1 = Some 11 /\ file_of s 2 = Some 22.
Proof. vm_compute. repeat split. Qed.
