(* Refinement of the TrieBuf model (the code after the C09 fixes: cfg [fixed]) to the
   specification map, for every history of add / update / remove / lookup / entries /
   flush / reopen and every behaviour of the background writer. *)
From Coq Require Import NArith List Bool Lia Permutation.
From LC Require Import Base.Lib Model.Dict Model.TrieBuf Proofs.DictProofs Proofs.TrieProofs.
Import ListNotations.
Open Scope N_scope.

Lemma phrase_eta ph : mkPhrase (ph_text ph) (ph_freq ph) (ph_time ph) = ph.
Proof. now destruct ph. Qed.

(* ------------------------------------------------------------------ well-formed states *)

Definition opt_wf (o : option trie) : Prop := forall t, o = Some t -> trie_wf t.

Definition tb_wf (tb : triebuf) : Prop :=
  NoDup (map fst (tb_btree tb)) /\ opt_wf (tb_trie tb) /\ opt_wf (tb_pending tb) /\ trie_wf (tb_disk tb).

Definition store_leaf (tb : triebuf) (k : key) : list phrase :=
  match tb_trie tb with Some t => trie_leaf t k | None => [] end.
Definition store_get (tb : triebuf) (x : pkey) : option sval :=
  match tb_trie tb with Some t => trie_get t x | None => None end.
Definition store_entries (tb : triebuf) : list (key * phrase) :=
  match tb_trie tb with Some t => trie_entries t | None => [] end.

Lemma tb_get_unfold tb x :
  tb_get tb x = if gr_mem x (tb_grave tb) then None
                else match bt_find x (tb_btree tb) with
                     | Some (f, t) => Some (f, Some t)
                     | None => store_get tb x
                     end.
Proof. reflexivity. Qed.

Lemma tb_get_ext tb tb' :
  tb_trie tb' = tb_trie tb -> tb_btree tb' = tb_btree tb -> tb_grave tb' = tb_grave tb ->
  forall x, tb_get tb' x = tb_get tb x.
Proof. intros H1 H2 H3 x. rewrite !tb_get_unfold. unfold store_get. now rewrite H1, H2, H3. Qed.

Lemma store_get_entries tb x v :
  tb_wf tb -> (store_get tb x = Some v <-> In (entry_of x v) (store_entries tb)).
Proof.
  intros [_ [Hw _]]. unfold store_get, store_entries. destruct (tb_trie tb) as [t|].
  - apply trie_get_spec. now apply Hw.
  - split; [discriminate | intros []].
Qed.

Lemma store_get_leaf tb k ph :
  tb_wf tb -> (store_get tb (k, ph_text ph) = Some (val_of ph) <-> In ph (store_leaf tb k)).
Proof.
  intros Hwf. rewrite store_get_entries by assumption. destruct Hwf as [_ [Hw _]].
  unfold store_entries, store_leaf, entry_of, val_of. cbn [fst snd]. rewrite phrase_eta.
  destruct (tb_trie tb) as [t|]; [|tauto]. apply trie_entries_leaf. now apply Hw.
Qed.

Lemma store_leaf_NoDup tb k : tb_wf tb -> NoDup (texts (store_leaf tb k)).
Proof.
  intros [_ [Hw _]]. unfold store_leaf. destruct (tb_trie tb) as [t|]; [|constructor].
  apply trie_leaf_NoDup. now apply Hw.
Qed.

Lemma store_entries_NoDup tb : tb_wf tb -> NoDup (map pk (store_entries tb)).
Proof.
  intros [_ [Hw _]]. unfold store_entries. destruct (tb_trie tb) as [t|]; [|constructor].
  apply trie_entries_NoDup. now apply Hw.
Qed.

(* ------------------------------------------------------------------ the two iterators *)

Lemma tb_entries_for_fixed tb k :
  tb_wf tb ->
  tb_entries_for fixed tb k Standard =
  filter (fun ph => negb (gr_mem (k, ph_text ph) (tb_grave tb)))
         (filter (fun ph => negb (bt_mem (k, ph_text ph) (tb_btree tb))) (store_leaf tb k) ++
          map bt_phrase (filter (fun e => seq_eqb (fst (fst e)) k) (tb_btree tb))).
Proof.
  intros [_ [Hw _]]. unfold tb_entries_for, store_leaf. cbn [fix_shadow_lookup fix_range fixed orb].
  f_equal. f_equal.
  - f_equal. destruct (tb_trie tb) as [t|]; [|reflexivity]. unfold trie_lookup.
    apply trie_lookup_std. now apply Hw.
  - f_equal. apply filter_ext. intro e. apply andb_true_r.
Qed.

Lemma pend_key_In (bt : list (pkey * (N * N))) (k : key) ph :
  NoDup (map fst bt) ->
  (In ph (map bt_phrase (filter (fun e => seq_eqb (fst (fst e)) k) bt)) <->
   exists t, ph_time ph = Some t /\ bt_find (k, ph_text ph) bt = Some (ph_freq ph, t)).
Proof.
  intro Hnd. rewrite in_map_iff. split.
  - intros [[[k' p] [f t]] [<- Hin]]. apply filter_In in Hin as [Hin Hk]. cbn [fst snd] in Hk.
    apply seq_eqb_eq in Hk. subst k'. unfold bt_phrase. cbn [fst snd ph_time ph_text ph_freq].
    exists t. split; [reflexivity|]. now apply In_bt_find.
  - intros [t [Ht Hf]]. exists ((k, ph_text ph), (ph_freq ph, t)). split.
    + unfold bt_phrase. cbn [fst snd]. rewrite <- Ht. apply phrase_eta.
    + apply filter_In. split; [now apply bt_find_In | cbn [fst]; apply seq_eqb_refl].
Qed.

(* the candidates of a key are exactly the entries the abstraction holds for it ... *)
Lemma tb_entries_for_In tb k ph :
  tb_wf tb ->
  (In ph (tb_entries_for fixed tb k Standard) <-> tb_get tb (k, ph_text ph) = Some (val_of ph)).
Proof.
  intro Hwf. rewrite tb_entries_for_fixed by assumption.
  rewrite filter_In, in_app_iff, filter_In, pend_key_In by apply Hwf.
  rewrite tb_get_unfold. destruct (gr_mem (k, ph_text ph) (tb_grave tb)); cbn [negb].
  - split; [intros [_ H]; discriminate | discriminate].
  - unfold bt_mem. destruct (bt_find (k, ph_text ph) (tb_btree tb)) as [[f t]|] eqn:E; cbn [negb].
    + split.
      * intros [[[_ H]|[t' [Ht Hf]]] _]; [discriminate|].
        inversion Hf; subst. unfold val_of. now rewrite Ht.
      * unfold val_of. intros [= -> Ht]. split; [|reflexivity]. right. exists t. auto.
    + rewrite <- store_get_leaf by assumption. split.
      * intros [[[H _]|[t' [_ H]]] _]; [assumption | discriminate].
      * intro H. split; [|reflexivity]. left. auto.
Qed.

Lemma NoDup_snd_of_fst (bt : list (pkey * (N * N))) (k : key) :
  NoDup (map fst bt) -> (forall e, In e bt -> fst (fst e) = k) -> NoDup (map (fun e => snd (fst e)) bt).
Proof.
  induction bt as [|e bt IH]; cbn [map]; intros Hnd Hk; [constructor|].
  inversion Hnd as [|? ? Hn Hd]; subst. constructor.
  - intro Hin. apply Hn. apply in_map_iff in Hin as [e' [He Hi]]. apply in_map_iff. exists e'. split; [|assumption].
    destruct e as [[k1 p1] v1], e' as [[k2 p2] v2]. cbn [fst snd] in *.
    assert (k1 = k) by (apply (Hk ((k1, p1), v1)); now left).
    assert (k2 = k) by (apply (Hk ((k2, p2), v2)); now right). congruence.
  - apply IH; [assumption | intros; apply Hk; now right].
Qed.

(* ... each phrase once *)
Lemma tb_entries_for_NoDup tb k : tb_wf tb -> NoDup (texts (tb_entries_for fixed tb k Standard)).
Proof.
  intro Hwf. rewrite tb_entries_for_fixed by assumption. unfold texts.
  apply NoDup_map_filter. apply NoDup_map_app.
  - apply NoDup_map_filter. now apply store_leaf_NoDup.
  - rewrite map_map. cbn [bt_phrase ph_text].
    apply (NoDup_snd_of_fst _ k).
    + apply NoDup_map_filter. apply Hwf.
    + intros e He. apply filter_In in He as [_ He]. now apply seq_eqb_eq.
  - intros x y Hx Hy. apply filter_In in Hx as [_ Hx]. apply negb_true_iff, bt_mem_false in Hx.
    apply pend_key_In in Hy as [t [_ Hy]]; [|apply Hwf]. intro E. rewrite E in Hx. congruence.
Qed.

Lemma tb_entries_fixed tb :
  tb_entries fixed tb =
  filter (fun e => negb (gr_mem (pk e) (tb_grave tb)))
         (filter (fun e => negb (bt_mem (pk e) (tb_btree tb))) (store_entries tb) ++
          map (fun e => (fst (fst e), bt_phrase e)) (tb_btree tb)).
Proof. reflexivity. Qed.

Lemma pend_In (bt : list (pkey * (N * N))) e :
  NoDup (map fst bt) ->
  (In e (map (fun e => (fst (fst e), bt_phrase e)) bt) <->
   exists t, ph_time (snd e) = Some t /\ bt_find (pk e) bt = Some (ph_freq (snd e), t)).
Proof.
  intro Hnd. rewrite in_map_iff. split.
  - intros [[[k' p] [f t]] [<- Hin]]. unfold bt_phrase, pk. cbn [fst snd ph_time ph_text ph_freq].
    exists t. split; [reflexivity|]. now apply In_bt_find.
  - intros [t [Ht Hf]]. exists (pk e, (ph_freq (snd e), t)). split.
    + unfold bt_phrase, pk. cbn [fst snd]. rewrite <- Ht, phrase_eta. now destruct e.
    + now apply bt_find_In.
Qed.

(* the enumeration yields exactly the entries of the abstraction ... *)
Lemma tb_entries_In tb e :
  tb_wf tb -> (In e (tb_entries fixed tb) <-> tb_get tb (pk e) = Some (val_of (snd e))).
Proof.
  intro Hwf. rewrite tb_entries_fixed.
  rewrite filter_In, in_app_iff, filter_In, pend_In by apply Hwf.
  rewrite tb_get_unfold. destruct (gr_mem (pk e) (tb_grave tb)); cbn [negb].
  - split; [intros [_ H]; discriminate | discriminate].
  - unfold bt_mem. destruct (bt_find (pk e) (tb_btree tb)) as [[f t]|] eqn:E; cbn [negb].
    + split.
      * intros [[[_ H]|[t' [Ht Hf]]] _]; [discriminate|].
        inversion Hf; subst. unfold val_of. now rewrite Ht.
      * unfold val_of. intros [= -> Ht]. split; [|reflexivity]. right. exists t. auto.
    + rewrite store_get_entries, entry_of_pk by assumption. split.
      * intros [[[H _]|[t' [_ H]]] _]; [assumption | discriminate].
      * intro H. split; [|reflexivity]. left. auto.
Qed.

(* ... each once *)
Lemma tb_entries_NoDup tb : tb_wf tb -> NoDup (map pk (tb_entries fixed tb)).
Proof.
  intro Hwf. rewrite tb_entries_fixed. apply NoDup_map_filter. apply NoDup_map_app.
  - apply NoDup_map_filter. now apply store_entries_NoDup.
  - rewrite map_map. unfold pk, bt_phrase. cbn [fst snd ph_text].
    rewrite (map_ext _ fst) by (intros [[? ?] ?]; reflexivity). apply Hwf.
  - intros x y Hx Hy. apply filter_In in Hx as [_ Hx]. apply negb_true_iff, bt_mem_false in Hx.
    apply pend_In in Hy as [t [_ Hy]]; [|apply Hwf]. intro E. rewrite E in Hx. congruence.
Qed.

(* the snapshot written by flush is the abstraction of the state *)
Lemma snapshot_spec tb :
  tb_wf tb ->
  trie_wf (trie_build (tb_entries fixed tb)) /\
  forall x, trie_get (trie_build (tb_entries fixed tb)) x = tb_get tb x.
Proof.
  intro Hwf. destruct (trie_build_spec _ (tb_entries_NoDup tb Hwf)) as [Hw Hin].
  split; [assumption|]. intro x.
  apply (option_ext _ _ (fun v => In (entry_of x v) (tb_entries fixed tb))); intro v.
  - rewrite trie_get_spec by assumption. apply Hin.
  - rewrite tb_entries_In by assumption. rewrite pk_entry_of. unfold entry_of, val_of. cbn [snd ph_freq ph_time].
    destruct v. reflexivity.
Qed.

(* ------------------------------------------------------------------ the specification map *)

Lemma s_find_set x v s y : s_find y (s_set x v s) = if pkey_eqb y x then Some v else s_find y s.
Proof.
  unfold s_find, s_set. cbn [bt_find]. destruct (pkey_eqb y x) eqn:E; [reflexivity|].
  apply bt_find_remove_other. now apply pkey_eqb_neq.
Qed.

Lemma s_find_unset x s y : s_find y (s_unset x s) = if pkey_eqb y x then None else s_find y s.
Proof.
  unfold s_find, s_unset. destruct (pkey_eqb y x) eqn:E.
  - apply pkey_eqb_eq in E. subst. apply bt_find_remove_same.
  - apply bt_find_remove_other. now apply pkey_eqb_neq.
Qed.

Definition spec_wf (s : spec) : Prop := NoDup (map fst s).

Lemma spec_wf_set x v s : spec_wf s -> spec_wf (s_set x v s).
Proof.
  intro H. unfold spec_wf, s_set. cbn [map fst]. constructor.
  - apply bt_find_None, bt_find_remove_same.
  - now apply bt_remove_NoDup.
Qed.

Lemma spec_wf_unset x s : spec_wf s -> spec_wf (s_unset x s).
Proof. apply bt_remove_NoDup. Qed.

Lemma spec_step_wf s o : spec_wf s -> spec_wf (spec_step s o).
Proof.
  intro H. destruct o; cbn [spec_step]; auto using spec_wf_set, spec_wf_unset.
  destruct (s_find (k, ph_text ph) s); auto using spec_wf_set.
Qed.

Lemma s_entries_In s e : spec_wf s -> (In e (s_entries s) <-> s_find (pk e) s = Some (val_of (snd e))).
Proof.
  intro Hwf. unfold s_entries, s_find. rewrite in_map_iff. split.
  - intros [[[k p] [f t]] [<- Hin]]. unfold pk, val_of. cbn [fst snd ph_text ph_freq ph_time].
    now apply In_bt_find.
  - intro H. apply bt_find_In in H. exists (pk e, val_of (snd e)). split; [|assumption].
    unfold pk, val_of. cbn [fst snd]. rewrite phrase_eta. now destruct e.
Qed.

Lemma s_entries_NoDup s : spec_wf s -> NoDup (map pk (s_entries s)).
Proof.
  intro H. unfold s_entries. rewrite map_map. unfold pk. cbn [fst snd ph_text].
  rewrite (map_ext _ fst) by (intros [[? ?] ?]; reflexivity). exact H.
Qed.

Lemma s_lookup_In s k ph :
  spec_wf s -> (In ph (s_lookup k s) <-> s_find (k, ph_text ph) s = Some (val_of ph)).
Proof.
  intro Hwf. unfold s_lookup. rewrite in_map_iff. split.
  - intros [[k' ph'] [<- Hin]]. apply filter_In in Hin as [Hin Hk]. cbn [fst snd] in *.
    apply seq_eqb_eq in Hk. subst k'. now apply (s_entries_In s (k, ph')).
  - intro H. exists (k, ph). split; [reflexivity|]. apply filter_In. split.
    + now apply (s_entries_In s (k, ph)).
    + apply seq_eqb_refl.
Qed.

(* ------------------------------------------------------------------ the invariant *)

Definition untouched (tb : triebuf) (x : pkey) : Prop :=
  bt_mem x (tb_btree tb) = false /\ gr_mem x (tb_grave tb) = false.

(* coherence of the three copies of the data: the adopted snapshot (trie), the snapshot being
   written (pending) and the file (disk) agree on every entry not touched since *)
Definition coherent (tb : triebuf) : Prop :=
  (forall t', tb_pending tb = Some t' -> tb_trie tb <> None) /\
  (forall t', tb_pending tb = Some t' -> forall x, untouched tb x -> trie_get t' x = store_get tb x) /\
  (forall t', tb_pending tb = Some t' -> tb_dirty tb = false -> forall x, trie_get t' x = tb_get tb x) /\
  (tb_trie tb <> None -> forall x, untouched tb x -> trie_get (tb_disk tb) x = store_get tb x).

Definition refines (tb : triebuf) (s : spec) : Prop :=
  tb_wf tb /\ coherent tb /\ spec_wf s /\ forall x, tb_get tb x = s_find x s.

Lemma untouched_get tb x : untouched tb x -> tb_get tb x = store_get tb x.
Proof.
  intros [H1 H2]. rewrite tb_get_unfold, H2. apply bt_mem_false in H1. now rewrite H1.
Qed.

(* a change op only ever grows the set of touched keys *)
Lemma untouched_write tb x v g' bt' d p dk y :
  bt' = bt_insert x v (tb_btree tb) -> g' = gr_remove x (tb_grave tb) ->
  untouched (mkTB (tb_trie tb) bt' g' d p dk) y -> untouched tb y.
Proof.
  intros -> -> [H1 H2]. cbn [tb_btree tb_grave] in *.
  rewrite bt_mem_insert in H1. apply orb_false_iff in H1 as [Hne H1].
  rewrite gr_mem_remove, Hne in H2. cbn [negb andb] in H2. split; assumption.
Qed.

Lemma untouched_remove tb x d p dk y :
  untouched (mkTB (tb_trie tb) (bt_remove x (tb_btree tb)) (gr_insert x (tb_grave tb)) d p dk) y -> untouched tb y.
Proof.
  intros [H1 H2]. cbn [tb_btree tb_grave] in *.
  rewrite gr_mem_insert in H2. apply orb_false_iff in H2 as [Hne H2].
  rewrite bt_mem_remove, Hne in H1. cbn [negb andb] in H1. split; assumption.
Qed.

Lemma coherent_change tb bt' g' :
  coherent tb ->
  (forall y, untouched (mkTB (tb_trie tb) bt' g' true (tb_pending tb) (tb_disk tb)) y -> untouched tb y) ->
  coherent (mkTB (tb_trie tb) bt' g' true (tb_pending tb) (tb_disk tb)).
Proof.
  intros [C0 [C1 [C2 C3]]] Hu. unfold coherent, store_get. cbn [tb_trie tb_pending tb_dirty tb_disk].
  split; [exact C0|]. split; [|split].
  - intros t' Hp x Hx. apply (C1 t' Hp x). now apply Hu.
  - discriminate.
  - intros Ht x Hx. apply (C3 Ht x). now apply Hu.
Qed.

(* ---- one step ---- *)

Lemma tb_wf_intro T bt g d P D :
  NoDup (map fst bt) -> opt_wf T -> opt_wf P -> trie_wf D -> tb_wf (mkTB T bt g d P D).
Proof. intros H1 H2 H3 H4. unfold tb_wf. split; [exact H1|]. split; [exact H2|]. split; [exact H3 | exact H4]. Qed.

Lemma opt_wf_none : opt_wf None.
Proof. intros ? [=]. Qed.

Lemma opt_wf_some t : trie_wf t -> opt_wf (Some t).
Proof. intros H ? [= <-]. exact H. Qed.

Lemma tb_wf_change tb bt' g' d :
  tb_wf tb -> NoDup (map fst bt') -> tb_wf (mkTB (tb_trie tb) bt' g' d (tb_pending tb) (tb_disk tb)).
Proof. intros [_ [H2 [H3 H4]]] H. unfold tb_wf. split; [exact H|]. split; [exact H2|]. split; [exact H3 | exact H4]. Qed.

Lemma add_visible tb k ph :
  tb_wf tb ->
  existsb (fun q => seq_eqb (ph_text q) (ph_text ph)) (tb_entries_for fixed tb k Standard) = true <->
  tb_get tb (k, ph_text ph) <> None.
Proof.
  intro Hwf. rewrite existsb_exists. split.
  - intros [q [Hq E]]. apply seq_eqb_eq in E. apply tb_entries_for_In in Hq; [|assumption].
    rewrite E in Hq. congruence.
  - intro H. destruct (tb_get tb (k, ph_text ph)) as [[f t]|] eqn:E; [|congruence].
    exists (mkPhrase (ph_text ph) f t). split; [|cbn [ph_text]; apply seq_eqb_refl].
    apply tb_entries_for_In; [assumption|]. exact E.
Qed.

Lemma get_after_write tb x f t d y :
  tb_get (mkTB (tb_trie tb) (bt_insert x (f, t) (tb_btree tb)) (gr_remove x (tb_grave tb)) d (tb_pending tb) (tb_disk tb)) y =
  if pkey_eqb y x then Some (f, Some t) else tb_get tb y.
Proof.
  rewrite !tb_get_unfold. unfold store_get. cbn [tb_trie tb_btree tb_grave].
  rewrite gr_mem_remove, bt_find_insert. destruct (pkey_eqb y x); reflexivity.
Qed.

Lemma get_after_remove tb x d y :
  tb_get (mkTB (tb_trie tb) (bt_remove x (tb_btree tb)) (gr_insert x (tb_grave tb)) d (tb_pending tb) (tb_disk tb)) y =
  if pkey_eqb y x then None else tb_get tb y.
Proof.
  rewrite !tb_get_unfold. unfold store_get. cbn [tb_trie tb_btree tb_grave].
  rewrite gr_mem_insert. destruct (pkey_eqb y x) eqn:E; cbn [orb]; [reflexivity|].
  apply pkey_eqb_neq in E. now rewrite bt_find_remove_other.
Qed.

Lemma refines_write tb s x f t :
  refines tb s ->
  refines (mkTB (tb_trie tb) (bt_insert x (f, t) (tb_btree tb)) (gr_remove x (tb_grave tb)) true (tb_pending tb) (tb_disk tb))
          (s_set x (f, Some t) s).
Proof.
  intros [Hwf [Hc [Hs Hr]]]. split; [|split; [|split]].
  - apply tb_wf_change; [assumption|]. apply bt_insert_NoDup, Hwf.
  - apply coherent_change; [assumption|]. intros y Hy. eapply untouched_write; [reflexivity | reflexivity | exact Hy].
  - now apply spec_wf_set.
  - intro y. rewrite get_after_write, s_find_set, Hr. reflexivity.
Qed.

Lemma refines_step tb s o : refines tb s -> refines (fst (tb_step fixed tb o)) (spec_step s o).
Proof.
  intros Href. pose proof Href as [Hwf [Hc [Hs Hr]]].
  destruct o as [k ph|k p f0 uf t|k p|k n st| | |w]; cbn [tb_step spec_step].
  - (* add *)
    unfold tb_add. cbn [fix_grave fixed].
    destruct (existsb _ (tb_entries_for fixed tb k Standard)) eqn:E; cbn [fst].
    + apply add_visible in E; [|assumption]. rewrite Hr in E.
      destruct (s_find (k, ph_text ph) s); [assumption | congruence].
    + assert (Hn : tb_get tb (k, ph_text ph) = None).
      { destruct (tb_get tb (k, ph_text ph)) eqn:G; [|reflexivity].
        assert (H : tb_get tb (k, ph_text ph) <> None) by congruence.
        apply add_visible in H; [|assumption]. congruence. }
      rewrite Hr in Hn. rewrite Hn. now apply refines_write.
  - (* update *)
    cbn [fst]. unfold tb_update. cbn [fix_grave fixed]. now apply refines_write.
  - (* remove *)
    cbn [fst]. unfold tb_remove. split; [|split; [|split]].
    + apply tb_wf_change; [assumption|]. apply bt_remove_NoDup, Hwf.
    + apply coherent_change; [assumption|]. intros y Hy. eapply untouched_remove. exact Hy.
    + now apply spec_wf_unset.
    + intro y. rewrite get_after_remove, s_find_unset, Hr. reflexivity.
  - exact Href.
  - exact Href.
  - (* flush *)
    cbn [fst]. unfold tb_flush.
    destruct (tb_pending tb) as [t'|] eqn:Hp; [exact Href|].
    destruct (tb_trie tb) as [T|] eqn:Ht; [|exact Href].
    destruct (tb_dirty tb) eqn:Hd; [|exact Href].
    destruct (snapshot_spec tb Hwf) as [Hsw Hsg].
    destruct Hwf as [W1 [W2 [W3 W4]]]. destruct Hc as [C0 [C1 [C2 C3]]].
    split; [|split; [|split]].
    + apply tb_wf_intro; [assumption | rewrite <- Ht; assumption | now apply opt_wf_some | assumption].
    + unfold coherent, store_get, untouched. cbn [tb_btree tb_grave tb_trie tb_pending tb_dirty tb_disk].
      split; [intros; congruence|]. split; [|split].
      * intros t0 [= <-] x Hx. rewrite Hsg. rewrite (untouched_get tb x Hx). unfold store_get. now rewrite Ht.
      * intros t0 [= <-] _ x. rewrite Hsg. symmetry. apply tb_get_ext; cbn [tb_trie tb_btree tb_grave]; congruence.
      * intros _ x Hx. unfold store_get, untouched in C3. rewrite Ht in C3. apply C3; [congruence | exact Hx].
    + assumption.
    + intro x. rewrite <- Hr. apply tb_get_ext; cbn [tb_trie tb_btree tb_grave]; congruence.
  - (* reopen *)
    cbn [fst]. unfold tb_sync.
    destruct Hwf as [W1 [W2 [W3 W4]]]. pose proof Hc as [C0 [C1 [C2 C3]]].
    destruct (tb_pending tb) as [t'|] eqn:Hp.
    + destruct w.
      * exact Href.
      * destruct (tb_dirty tb) eqn:Hd.
        -- (* finished, but the dictionary is dirty again: the result is dropped, the file has changed *)
           split; [|split; [|split]].
           ++ apply tb_wf_intro; [assumption | assumption | apply opt_wf_none | now apply W3].
           ++ unfold coherent, store_get, untouched. cbn [tb_btree tb_grave tb_trie tb_pending tb_dirty tb_disk].
              split; [intros ? [=]|]. split; [intros ? [=]|]. split; [intros ? [=]|].
              intros _ x Hx. apply (C1 t' eq_refl x Hx).
           ++ assumption.
           ++ intro x. rewrite <- Hr. reflexivity.
        -- (* adopted *)
           split; [|split; [|split]].
           ++ apply tb_wf_intro; [constructor | apply opt_wf_some; now apply W3 | apply opt_wf_none | now apply W3].
           ++ unfold coherent, store_get, untouched. cbn [tb_btree tb_grave tb_trie tb_pending tb_dirty tb_disk].
              split; [intros ? [=]|]. split; [intros ? [=]|]. split; [intros ? [=]|]. reflexivity.
           ++ assumption.
           ++ intro x. rewrite <- Hr, <- (C2 t' eq_refl eq_refl x). reflexivity.
      * (* the writer failed: the handle is dropped *)
        split; [|split; [|split]].
        -- apply tb_wf_intro; [assumption | assumption | apply opt_wf_none | assumption].
        -- unfold coherent, store_get, untouched. cbn [tb_btree tb_grave tb_trie tb_pending tb_dirty tb_disk].
           split; [intros ? [=]|]. split; [intros ? [=]|]. split; [intros ? [=]|]. exact C3.
        -- assumption.
        -- intro x. rewrite <- Hr. reflexivity.
    + destruct (tb_trie tb) as [T|] eqn:Ht; [|exact Href].
      (* no writer: the file is read again *)
      split; [|split; [|split]].
      * apply tb_wf_intro; [assumption | now apply opt_wf_some | apply opt_wf_none | assumption].
      * unfold coherent, store_get, untouched. cbn [tb_btree tb_grave tb_trie tb_pending tb_dirty tb_disk].
        split; [intros ? [=]|]. split; [intros ? [=]|]. split; [intros ? [=]|]. reflexivity.
      * assumption.
      * intro x. rewrite <- Hr, !tb_get_unfold. unfold store_get. cbn [tb_btree tb_grave tb_trie]. rewrite Ht.
        destruct (gr_mem x (tb_grave tb)) eqn:Hg; [reflexivity|].
        destruct (bt_find x (tb_btree tb)) as [[f t]|] eqn:Hb; [reflexivity|].
        assert (Hu : untouched tb x) by (split; [now apply bt_mem_false | assumption]).
        rewrite (C3 ltac:(congruence) x Hu). unfold store_get. now rewrite Ht.
Qed.

Lemma tb_run_fst_app c tb ops : fst (tb_run c tb ops) = fold_left (fun st o => fst (tb_step c st o)) ops tb.
Proof.
  revert tb. induction ops as [|o ops IH]; intro tb; cbn [tb_run fold_left]; [reflexivity|].
  destruct (tb_step c tb o) as [tb1 r] eqn:E1. destruct (tb_run c tb1 ops) as [tb2 rs] eqn:E2.
  cbn [fst]. rewrite <- IH, E2. reflexivity.
Qed.

(* the refinement holds along every history *)
Lemma refines_run tb s ops : refines tb s -> refines (fst (tb_run fixed tb ops)) (spec_run s ops).
Proof.
  rewrite tb_run_fst_app. unfold spec_run. revert tb s.
  induction ops as [|o ops IH]; intros tb s H; cbn [fold_left]; [assumption|].
  apply IH. now apply refines_step.
Qed.

(* initial states *)
Lemma refines_new : refines tb_new_in_memory [].
Proof.
  split; [|split; [|split]].
  - apply tb_wf_intro; [constructor | apply opt_wf_none | apply opt_wf_none | apply trie_wf_nil].
  - unfold coherent. cbn. split; [intros ? [=]|]. split; [intros ? [=]|]. split; [intros ? [=]|]. congruence.
  - constructor.
  - reflexivity.
Qed.

Lemma spec_of_trie_find t x : trie_wf t -> s_find x (spec_of_trie t) = trie_get t x.
Proof.
  intro Hwf. symmetry.
  apply (option_ext _ _ (fun v => In (entry_of x v) (trie_entries t))); intro v.
  - now apply trie_get_spec.
  - unfold s_find, spec_of_trie. split.
    + intro H. apply bt_find_In, in_map_iff in H as [e [He Hin]]. inversion He; subst.
      fold (pk e). fold (val_of (snd e)). now rewrite entry_of_pk.
    + intro H. apply In_bt_find.
      * rewrite map_map. cbn [fst]. fold pk. now apply trie_entries_NoDup.
      * apply in_map_iff. exists (entry_of x v). split; [|assumption].
        destruct x, v. reflexivity.
Qed.

Lemma refines_open t : trie_wf t -> refines (tb_open t) (spec_of_trie t).
Proof.
  intro Hwf. split; [|split; [|split]].
  - apply tb_wf_intro; [constructor | now apply opt_wf_some | apply opt_wf_none | assumption].
  - unfold coherent, tb_open, store_get. cbn. split; [intros ? [=]|]. split; [intros ? [=]|]. split; [intros ? [=]|]. reflexivity.
  - unfold spec_wf, spec_of_trie. rewrite map_map. cbn [fst]. fold pk. now apply trie_entries_NoDup.
  - intro x. rewrite spec_of_trie_find by assumption. reflexivity.
Qed.

(* ------------------------------------------------------------------ observations *)

Lemma NoDup_snd_filter_key k (es : list (key * phrase)) :
  NoDup (map pk es) -> NoDup (map (fun e => ph_text (snd e)) (filter (fun e => seq_eqb (fst e) k) es)).
Proof.
  induction es as [|e es IH]; cbn [map filter]; intro Hnd; [constructor|].
  inversion Hnd as [|? ? Hn Hd]; subst.
  match goal with |- context [if ?c then _ else _] => destruct c eqn:E end; [|auto].
  cbn [map]. constructor; [|auto]. intro Hin. apply Hn.
  apply in_map_iff in Hin as [e' [He Hi]]. apply filter_In in Hi as [Hi Hk].
  apply seq_eqb_eq in E. apply seq_eqb_eq in Hk. apply in_map_iff. exists e'. split; [|assumption].
  unfold pk. f_equal; [exact (eq_trans Hk (eq_sym E)) | exact He].
Qed.

Section Observations.
  Variables (tb : triebuf) (s : spec).
  Hypothesis Href : refines tb s.

  (* lookup_all_phrases = the candidates themselves (nothing to de-duplicate) *)
  Lemma lookup_all_eq k : tb_lookup fixed tb k USIZE_MAX Standard = tb_entries_for fixed tb k Standard.
  Proof.
    unfold tb_lookup. rewrite truncate_usize_max. apply dedup_id. apply tb_entries_for_NoDup. apply Href.
  Qed.

  Lemma lookup_NoDup k : NoDup (texts (tb_lookup fixed tb k USIZE_MAX Standard)).
  Proof. rewrite lookup_all_eq. apply tb_entries_for_NoDup. apply Href. Qed.

  Lemma lookup_exact k ph :
    In ph (tb_lookup fixed tb k USIZE_MAX Standard) <-> s_find (k, ph_text ph) s = Some (ph_freq ph, ph_time ph).
  Proof.
    destruct Href as [Hwf [_ [_ Hr]]]. rewrite lookup_all_eq, tb_entries_for_In by assumption. now rewrite Hr.
  Qed.

  Lemma lookup_perm k : Permutation (tb_lookup fixed tb k USIZE_MAX Standard) (s_lookup k s).
  Proof.
    apply NoDup_Permutation.
    - apply (NoDup_map_NoDup ph_text). apply lookup_NoDup.
    - destruct Href as [_ [_ [Hs _]]]. apply (NoDup_map_NoDup ph_text). unfold s_lookup. rewrite map_map.
      apply (NoDup_snd_filter_key k). now apply s_entries_NoDup.
    - intro ph. rewrite lookup_exact, s_lookup_In by apply Href. reflexivity.
  Qed.

  Lemma entries_perm : Permutation (tb_entries fixed tb) (s_entries s).
  Proof.
    destruct Href as [Hwf [_ [Hs Hr]]]. apply NoDup_Permutation.
    - apply (NoDup_map_NoDup pk). now apply tb_entries_NoDup.
    - apply (NoDup_map_NoDup pk). now apply s_entries_NoDup.
    - intro e. rewrite tb_entries_In, s_entries_In by assumption. now rewrite Hr.
  Qed.

  Lemma add_result k ph : snd (tb_add fixed tb k ph) = true <-> s_find (k, ph_text ph) s = None.
  Proof.
    destruct Href as [Hwf [_ [_ Hr]]]. unfold tb_add.
    destruct (existsb _ (tb_entries_for fixed tb k Standard)) eqn:E; cbn [snd].
    - apply add_visible in E; [|assumption]. rewrite Hr in E. split; [discriminate | congruence].
    - split; [intros _ | reflexivity]. rewrite <- Hr.
      destruct (tb_get tb (k, ph_text ph)) eqn:G; [|reflexivity].
      assert (H : tb_get tb (k, ph_text ph) <> None) by congruence.
      apply add_visible in H; [|assumption]. congruence.
  Qed.
End Observations.
