(* Lemmas about Model/Dict.v: key equality, the sorted association list (BTreeMap),
   the graveyard set, truncation, the de-duplication loop, the abstract Trie and its
   builder, the specification map. *)
From Coq Require Import NArith List Bool Lia Permutation.
From LC Require Import Base.Lib Model.Dict.
Import ListNotations.
Open Scope N_scope.

(* ------------------------------------------------------------------ equality tests *)

Lemma seq_eqb_eq a b : seq_eqb a b = true <-> a = b.
Proof. apply list_eqb_N_spec. Qed.

Lemma seq_eqb_refl a : seq_eqb a a = true.
Proof. now apply seq_eqb_eq. Qed.

Lemma seq_eqb_neq a b : seq_eqb a b = false <-> a <> b.
Proof.
  split.
  - intros H E. apply seq_eqb_eq in E. congruence.
  - intros H. destruct (seq_eqb a b) eqn:E; [apply seq_eqb_eq in E; contradiction | reflexivity].
Qed.

Lemma seq_eqb_sym a b : seq_eqb a b = seq_eqb b a.
Proof.
  destruct (seq_eqb a b) eqn:E.
  - apply seq_eqb_eq in E. subst. symmetry. apply seq_eqb_refl.
  - symmetry. apply seq_eqb_neq. apply seq_eqb_neq in E. congruence.
Qed.

Lemma pkey_eqb_eq x y : pkey_eqb x y = true <-> x = y.
Proof.
  unfold pkey_eqb. destruct x as [k p], y as [k' p']. cbn [fst snd].
  rewrite andb_true_iff, !seq_eqb_eq. split.
  - intros [-> ->]. reflexivity.
  - intros H. inversion H. auto.
Qed.

Lemma pkey_eqb_refl x : pkey_eqb x x = true.
Proof. now apply pkey_eqb_eq. Qed.

Lemma pkey_eqb_neq x y : pkey_eqb x y = false <-> x <> y.
Proof.
  split.
  - intros H E. apply pkey_eqb_eq in E. congruence.
  - intros H. destruct (pkey_eqb x y) eqn:E; [apply pkey_eqb_eq in E; contradiction | reflexivity].
Qed.

Lemma pkey_eqb_sym x y : pkey_eqb x y = pkey_eqb y x.
Proof.
  destruct (pkey_eqb x y) eqn:E.
  - apply pkey_eqb_eq in E. subst. symmetry. apply pkey_eqb_refl.
  - symmetry. apply pkey_eqb_neq. apply pkey_eqb_neq in E. congruence.
Qed.

Lemma pkey_eq_dec (x y : pkey) : {x = y} + {x <> y}.
Proof.
  destruct (pkey_eqb x y) eqn:E; [left; now apply pkey_eqb_eq | right; now apply pkey_eqb_neq].
Qed.

(* ------------------------------------------------------------------ generic list facts *)

Lemma NoDup_map_filter {A B} (f : A -> B) (p : A -> bool) l :
  NoDup (map f l) -> NoDup (map f (filter p l)).
Proof.
  induction l as [|a l IH]; cbn [map filter]; intro H; [constructor|].
  inversion H as [|? ? Hn Hd]; subst. destruct (p a); cbn [map]; [|auto].
  constructor; [|auto]. intro Hin. apply Hn.
  apply in_map_iff in Hin as [x [Hx Hi]]. apply filter_In in Hi as [Hi _].
  apply in_map_iff. eauto.
Qed.

Lemma NoDup_map_inj_in {A B} (f : A -> B) l x y :
  NoDup (map f l) -> In x l -> In y l -> f x = f y -> x = y.
Proof.
  induction l as [|a l IH]; cbn [map]; intros Hnd Hx Hy E; [destruct Hx|].
  inversion Hnd as [|? ? Hn Hd]; subst.
  destruct Hx as [->|Hx], Hy as [->|Hy]; auto.
  - exfalso. apply Hn. rewrite E. now apply in_map.
  - exfalso. apply Hn. rewrite <- E. now apply in_map.
Qed.

Lemma NoDup_map_NoDup {A B} (f : A -> B) l : NoDup (map f l) -> NoDup l.
Proof.
  induction l as [|a l IH]; cbn [map]; intro H; [constructor|].
  inversion H as [|? ? Hn Hd]; subst. constructor; [|auto].
  intro Hin. apply Hn. now apply in_map.
Qed.

Lemma NoDup_map_app {A B} (f : A -> B) l1 l2 :
  NoDup (map f l1) -> NoDup (map f l2) ->
  (forall x y, In x l1 -> In y l2 -> f x <> f y) ->
  NoDup (map f (l1 ++ l2)).
Proof.
  induction l1 as [|a l1 IH]; cbn [map app]; intros H1 H2 Hd; [assumption|].
  inversion H1 as [|? ? Hn Hd1]; subst. constructor.
  - rewrite map_app, in_app_iff. intros [Hin|Hin]; [contradiction|].
    apply in_map_iff in Hin as [y [Hy Hi]]. apply (Hd a y); [now left | assumption | congruence].
  - apply IH; auto. intros x y Hx Hy. apply Hd; [now right | assumption].
Qed.

Lemma NoDup_snoc {A} (l : list A) x : NoDup l -> ~ In x l -> NoDup (l ++ [x]).
Proof.
  induction l as [|a l IH]; cbn [app]; intros Hnd Hni.
  - constructor; [intros [] | constructor].
  - inversion Hnd as [|? ? Hn Hd]; subst. constructor.
    + rewrite in_app_iff. intros [H|[H|[]]]; [contradiction | subst; apply Hni; now left].
    + apply IH; [assumption | intro; apply Hni; now right].
Qed.

(* ------------------------------------------------------------------ truncation *)

Lemma firstN_spec {A} n (l : list A) : firstN n l = firstn (N.to_nat n) l.
Proof.
  revert n. induction l as [|x l IH]; intro n; cbn [firstN].
  - now rewrite firstn_nil.
  - destruct (N.eqb_spec n 0) as [->|Hn]; [reflexivity|].
    replace (N.to_nat n) with (S (N.to_nat (n - 1))) by lia. cbn [firstn]. now rewrite IH.
Qed.

Lemma firstN_firstN {A} n m (l : list A) : n <= m -> firstN n (firstN m l) = firstN n l.
Proof.
  intro H. rewrite !firstN_spec, firstn_firstn. f_equal. lia.
Qed.

Lemma firstN_app_le {A} n (a b : list A) : n <= len_N a -> firstN n (a ++ b) = firstN n a.
Proof.
  intro H. rewrite !firstN_spec. unfold len_N in H.
  rewrite firstn_app. replace (N.to_nat n - length a)%nat with 0%nat by lia.
  cbn [firstn]. now rewrite app_nil_r.
Qed.

Lemma firstN_all {A} n (l : list A) : len_N l <= n -> firstN n l = l.
Proof. intro H. rewrite firstN_spec. apply firstn_all2. unfold len_N in H. lia. Qed.

Lemma truncate_usize_max {A} (l : list A) : truncate_usize USIZE_MAX l = l.
Proof. reflexivity. Qed.

(* the first n of the full result, for every n a usize can hold *)
Lemma truncate_of_full {A} n (l : list A) :
  truncate_usize n (truncate_usize USIZE_MAX l) = truncate_usize n l.
Proof. reflexivity. Qed.

Lemma truncate_usize_prefix {A} n (l : list A) : exists r, l = truncate_usize n l ++ r.
Proof.
  unfold truncate_usize. destruct (USIZE_MAX <=? n).
  - exists []. now rewrite app_nil_r.
  - rewrite firstN_spec. exists (skipn (N.to_nat n) l). symmetry. apply firstn_skipn.
Qed.

Lemma truncate_usize_firstn {A} n (l : list A) :
  n < USIZE_MAX -> truncate_usize n l = firstn (N.to_nat n) l.
Proof.
  intro H. unfold truncate_usize. destruct (N.leb_spec USIZE_MAX n); [lia|]. apply firstN_spec.
Qed.

Lemma truncate_usize_In {A} n (l : list A) x : In x (truncate_usize n l) -> In x l.
Proof.
  destruct (truncate_usize_prefix n l) as [r Hr]. intro H. rewrite Hr. apply in_app_iff. now left.
Qed.

(* ------------------------------------------------------------------ BTreeMap model *)

Section BTFacts.
  Context {V : Type}.
  Implicit Types l : list (pkey * V).

  Lemma bt_find_In x v l : bt_find x l = Some v -> In (x, v) l.
  Proof.
    induction l as [|[y w] l IH]; cbn [bt_find]; [discriminate|].
    destruct (pkey_eqb x y) eqn:E.
    - apply pkey_eqb_eq in E. subst. intros [= ->]. now left.
    - intro H. right. auto.
  Qed.

  Lemma bt_find_None x l : bt_find x l = None <-> ~ In x (map fst l).
  Proof.
    induction l as [|[y w] l IH]; cbn [bt_find map In fst].
    - split; [intros _ [] | reflexivity].
    - destruct (pkey_eqb x y) eqn:E.
      + apply pkey_eqb_eq in E. subst. split; [discriminate | intro H; exfalso; apply H; now left].
      + apply pkey_eqb_neq in E. rewrite IH. split; [intros H [H1|H1]; congruence | intros H H1; apply H; now right].
  Qed.

  Lemma In_bt_find x v l : NoDup (map fst l) -> In (x, v) l -> bt_find x l = Some v.
  Proof.
    induction l as [|[y w] l IH]; cbn [bt_find map In fst]; intros Hnd Hin; [destruct Hin|].
    inversion Hnd as [|? ? Hn Hd]; subst.
    destruct Hin as [[= -> ->]|Hin].
    - now rewrite pkey_eqb_refl.
    - destruct (pkey_eqb x y) eqn:E.
      + apply pkey_eqb_eq in E. subst. exfalso. apply Hn. apply in_map_iff. exists (y, v). auto.
      + auto.
  Qed.

  Lemma bt_mem_true x l : bt_mem x l = true <-> In x (map fst l).
  Proof.
    unfold bt_mem. destruct (bt_find x l) eqn:E.
    - split; [intros _ | reflexivity]. apply bt_find_In in E. apply in_map_iff. exists (x, v). auto.
    - apply bt_find_None in E. split; [discriminate | contradiction].
  Qed.

  Lemma bt_mem_false x l : bt_mem x l = false <-> bt_find x l = None.
  Proof. unfold bt_mem. destruct (bt_find x l); split; congruence. Qed.

  Lemma bt_remove_In e x l : In e (bt_remove x l) <-> In e l /\ fst e <> x.
  Proof.
    unfold bt_remove. rewrite filter_In, negb_true_iff, pkey_eqb_neq. intuition congruence.
  Qed.

  Lemma bt_find_remove_same x l : bt_find x (bt_remove x l) = None.
  Proof.
    apply bt_find_None. intro H. apply in_map_iff in H as [e [He Hi]].
    apply bt_remove_In in Hi as [_ Hne]. congruence.
  Qed.

  Lemma bt_find_remove_other x y l : y <> x -> bt_find y (bt_remove x l) = bt_find y l.
  Proof.
    intro Hne. induction l as [|[z w] l IH]; cbn [bt_remove filter bt_find fst]; [reflexivity|].
    destruct (pkey_eqb x z) eqn:E; cbn [negb].
    - apply pkey_eqb_eq in E. subst z.
      destruct (pkey_eqb y x) eqn:E2; [apply pkey_eqb_eq in E2; contradiction | exact IH].
    - cbn [bt_find]. destruct (pkey_eqb y z); [reflexivity | exact IH].
  Qed.

  Lemma bt_remove_NoDup x l : NoDup (map fst l) -> NoDup (map fst (bt_remove x l)).
  Proof. apply NoDup_map_filter. Qed.

  Lemma bt_ins_In e x v l : In e (bt_ins x v l) <-> e = (x, v) \/ In e l.
  Proof.
    induction l as [|[y w] l IH]; cbn [bt_ins In].
    - intuition.
    - destruct (pkey_cmp x y); cbn [In]; rewrite ?IH; intuition.
  Qed.

  Lemma bt_ins_NoDup x v l :
    NoDup (map fst l) -> ~ In x (map fst l) -> NoDup (map fst (bt_ins x v l)).
  Proof.
    induction l as [|[y w] l IH]; cbn [bt_ins map fst]; intros Hnd Hni.
    - constructor; [intros [] | constructor].
    - inversion Hnd as [|? ? Hn Hd]; subst. cbn [In] in Hni.
      assert (Hcons : NoDup (x :: y :: map fst l)) by (constructor; [exact Hni | exact Hnd]).
      destruct (pkey_cmp x y); cbn [map fst]; try exact Hcons.
      constructor.
      + intro Hin. apply in_map_iff in Hin as [e [He Hi]]. apply bt_ins_In in Hi as [->|Hi].
        * cbn [fst] in He. subst. apply Hni. now left.
        * apply Hn. apply in_map_iff. eauto.
      + apply IH; [assumption | intro; apply Hni; now right].
  Qed.

  Lemma bt_find_ins x v l y :
    bt_find x l = None ->
    bt_find y (bt_ins x v l) = if pkey_eqb y x then Some v else bt_find y l.
  Proof.
    induction l as [|[z w] l IH]; cbn [bt_ins bt_find]; intro Hx.
    - reflexivity.
    - destruct (pkey_eqb x z) eqn:Exz; [discriminate|].
      destruct (pkey_cmp x z); cbn [bt_find]; try reflexivity.
      destruct (pkey_eqb y z) eqn:Eyz.
      + apply pkey_eqb_eq in Eyz. subst z.
        destruct (pkey_eqb y x) eqn:Eyx; [|reflexivity].
        apply pkey_eqb_eq in Eyx. subst. rewrite pkey_eqb_refl in Exz. discriminate.
      + now apply IH.
  Qed.

  Lemma bt_find_insert x v l y :
    bt_find y (bt_insert x v l) = if pkey_eqb y x then Some v else bt_find y l.
  Proof.
    unfold bt_insert. rewrite bt_find_ins by apply bt_find_remove_same.
    destruct (pkey_eqb y x) eqn:E; [reflexivity|].
    apply bt_find_remove_other. now apply pkey_eqb_neq.
  Qed.

  Lemma bt_insert_NoDup x v l : NoDup (map fst l) -> NoDup (map fst (bt_insert x v l)).
  Proof.
    intro H. unfold bt_insert. apply bt_ins_NoDup; [now apply bt_remove_NoDup|].
    apply bt_find_None, bt_find_remove_same.
  Qed.

  Lemma bt_insert_In e x v l : In e (bt_insert x v l) <-> e = (x, v) \/ (In e l /\ fst e <> x).
  Proof. unfold bt_insert. now rewrite bt_ins_In, bt_remove_In. Qed.

  Lemma bt_mem_insert x v l y : bt_mem y (bt_insert x v l) = pkey_eqb y x || bt_mem y l.
  Proof. unfold bt_mem. rewrite bt_find_insert. now destruct (pkey_eqb y x). Qed.

  Lemma bt_mem_remove x l y : bt_mem y (bt_remove x l) = negb (pkey_eqb y x) && bt_mem y l.
  Proof.
    unfold bt_mem. destruct (pkey_eqb y x) eqn:E; cbn [negb andb].
    - apply pkey_eqb_eq in E. subst. now rewrite bt_find_remove_same.
    - apply pkey_eqb_neq in E. now rewrite bt_find_remove_other.
  Qed.
End BTFacts.

(* ------------------------------------------------------------------ graveyard *)

Lemma gr_mem_In x g : gr_mem x g = true <-> In x g.
Proof.
  unfold gr_mem. rewrite existsb_exists. split.
  - intros [y [Hy E]]. apply pkey_eqb_eq in E. now subst.
  - intro H. exists x. split; [assumption | apply pkey_eqb_refl].
Qed.

Lemma gr_mem_insert x g y : gr_mem y (gr_insert x g) = pkey_eqb y x || gr_mem y g.
Proof.
  unfold gr_insert. destruct (gr_mem x g) eqn:E.
  - destruct (pkey_eqb y x) eqn:E2; [|reflexivity]. apply pkey_eqb_eq in E2. subst. now rewrite E.
  - reflexivity.
Qed.

Lemma gr_mem_remove x g y : gr_mem y (gr_remove x g) = negb (pkey_eqb y x) && gr_mem y g.
Proof.
  unfold gr_remove. induction g as [|z g IH]; cbn [filter gr_mem existsb].
  - now rewrite andb_false_r.
  - fold (gr_mem y g). fold (gr_mem y (filter (fun y0 => negb (pkey_eqb x y0)) g)) in IH.
    destruct (pkey_eqb x z) eqn:E; cbn [negb].
    + apply pkey_eqb_eq in E. subst z. unfold gr_mem in IH |- *. rewrite IH.
      destruct (pkey_eqb y x); reflexivity.
    + cbn [existsb]. unfold gr_mem in IH |- *. rewrite IH.
      destruct (pkey_eqb y z) eqn:E2; cbn [orb].
      * apply pkey_eqb_eq in E2. subst z. rewrite pkey_eqb_sym, E. reflexivity.
      * reflexivity.
Qed.

(* ------------------------------------------------------------------ de-duplication *)

Definition texts (l : list phrase) : list text := map ph_text l.

Lemma phrase_max_text new old : ph_text new = ph_text old -> ph_text (phrase_max new old) = ph_text old.
Proof. unfold phrase_max. now destruct (ph_freq old <? ph_freq new). Qed.

Lemma dedup_ins_texts ph acc :
  texts (dedup_ins ph acc) =
  if existsb (seq_eqb (ph_text ph)) (texts acc) then texts acc else texts acc ++ [ph_text ph].
Proof.
  unfold texts. induction acc as [|q acc IH]; cbn [dedup_ins map existsb app]; [reflexivity|].
  rewrite (seq_eqb_sym (ph_text ph) (ph_text q)).
  destruct (seq_eqb (ph_text q) (ph_text ph)) eqn:E; cbn [orb map].
  - apply seq_eqb_eq in E. now rewrite phrase_max_text.
  - rewrite IH. destruct (existsb (seq_eqb (ph_text ph)) (map ph_text acc)); reflexivity.
Qed.

Lemma dedup_fold_texts l acc :
  texts (fold_left (fun a ph => dedup_ins ph a) l acc) =
  fold_left (fun a x => if existsb (seq_eqb x) a then a else a ++ [x]) (texts l) (texts acc).
Proof.
  revert acc. induction l as [|ph l IH]; intro acc; cbn [fold_left texts map]; [reflexivity|].
  rewrite IH, dedup_ins_texts. reflexivity.
Qed.

(* first-appearance order *)
Lemma dedup_texts l : texts (dedup l) = first_occurrences (texts l).
Proof. unfold dedup, first_occurrences. now rewrite dedup_fold_texts. Qed.

Lemma existsb_seq_In x l : existsb (seq_eqb x) l = true <-> In x l.
Proof.
  rewrite existsb_exists. split.
  - intros [y [Hy E]]. apply seq_eqb_eq in E. now subst.
  - intro H. exists x. split; [assumption | apply seq_eqb_refl].
Qed.

Lemma first_occ_fold l acc :
  NoDup acc ->
  let r := fold_left (fun a x => if existsb (seq_eqb x) a then a else a ++ [x]) l acc in
  NoDup r /\ (forall x, In x r <-> In x acc \/ In x l) /\ exists r', r = acc ++ r'.
Proof.
  revert acc. induction l as [|y l IH]; intros acc Hnd; cbn [fold_left].
  - split; [assumption|]. split; [intro; cbn [In]; tauto | exists []; now rewrite app_nil_r].
  - destruct (existsb (seq_eqb y) acc) eqn:E.
    + destruct (IH acc Hnd) as [H1 [H2 H3]]. split; [assumption|]. split; [|assumption].
      intro x. rewrite H2. cbn [In]. apply existsb_seq_In in E. intuition (subst; auto).
    + assert (Hni : ~ In y acc) by (intro Hin; apply existsb_seq_In in Hin; congruence).
      assert (Hnd' : NoDup (acc ++ [y])) by (now apply NoDup_snoc).
      destruct (IH (acc ++ [y]) Hnd') as [H1 [H2 [r' H3]]]. split; [assumption|]. split.
      * intro x. rewrite H2, in_app_iff. cbn [In]. intuition.
      * exists (y :: r'). rewrite H3, <- app_assoc. reflexivity.
Qed.

Lemma first_occurrences_NoDup l : NoDup (first_occurrences l).
Proof. apply (first_occ_fold l []). constructor. Qed.

Lemma first_occurrences_In l x : In x (first_occurrences l) <-> In x l.
Proof.
  destruct (first_occ_fold l [] (NoDup_nil _)) as [_ [H _]]. unfold first_occurrences.
  rewrite H. cbn [In]. tauto.
Qed.

Lemma first_occurrences_id l : NoDup l -> first_occurrences l = l.
Proof.
  unfold first_occurrences. intro H.
  enough (G : forall acc, NoDup (acc ++ l) ->
            fold_left (fun a x => if existsb (seq_eqb x) a then a else a ++ [x]) l acc = acc ++ l)
    by (apply (G []); assumption).
  clear H. induction l as [|y l IH]; intros acc Hnd; cbn [fold_left].
  - now rewrite app_nil_r.
  - assert (Hni : ~ In y acc).
    { intro Hin. apply NoDup_remove_2 in Hnd. apply Hnd. apply in_app_iff. now left. }
    destruct (existsb (seq_eqb y) acc) eqn:E; [apply existsb_seq_In in E; contradiction|].
    rewrite IH; rewrite <- app_assoc; [reflexivity | exact Hnd].
Qed.

Lemma dedup_NoDup l : NoDup (texts (dedup l)).
Proof. rewrite dedup_texts. apply first_occurrences_NoDup. Qed.

Lemma dedup_texts_In l p : In p (texts (dedup l)) <-> In p (texts l).
Proof. rewrite dedup_texts. apply first_occurrences_In. Qed.

(* every element of the result is one of the inputs ... *)
Lemma dedup_ins_In ph acc x : In x (dedup_ins ph acc) -> In x acc \/ x = ph.
Proof.
  induction acc as [|q acc IH]; cbn [dedup_ins In].
  - intros [<-|[]]. now right.
  - destruct (seq_eqb (ph_text q) (ph_text ph)); cbn [In].
    + unfold phrase_max. destruct (ph_freq q <? ph_freq ph); intros [<-|H]; auto.
    + intros [<-|H]; auto. destruct (IH H); auto.
Qed.

(* ... what was there stays represented by a phrase of the same text and a frequency at least
   as large ... *)
Lemma dedup_ins_mono ph acc x :
  In x acc -> exists x', In x' (dedup_ins ph acc) /\ ph_text x' = ph_text x /\ ph_freq x <= ph_freq x'.
Proof.
  induction acc as [|q acc IH]; cbn [dedup_ins In]; [intros []|].
  destruct (seq_eqb (ph_text q) (ph_text ph)) eqn:E; cbn [In].
  - apply seq_eqb_eq in E. intros [<-|H].
    + exists (phrase_max ph q). split; [now left|]. unfold phrase_max.
      destruct (N.ltb_spec (ph_freq q) (ph_freq ph)); split; auto; lia.
    + exists x. split; [now right | split; [reflexivity | lia]].
  - intros [<-|H].
    + exists q. split; [now left | split; [reflexivity | lia]].
    + destruct (IH H) as [x' [H1 H2]]. exists x'. split; [now right | assumption].
Qed.

(* ... and so is the new phrase *)
Lemma dedup_ins_new ph acc :
  exists x', In x' (dedup_ins ph acc) /\ ph_text x' = ph_text ph /\ ph_freq ph <= ph_freq x'.
Proof.
  induction acc as [|q acc IH]; cbn [dedup_ins].
  - exists ph. split; [now left | split; [reflexivity | lia]].
  - destruct (seq_eqb (ph_text q) (ph_text ph)) eqn:E.
    + apply seq_eqb_eq in E. exists (phrase_max ph q). split; [now left|]. unfold phrase_max.
      destruct (N.ltb_spec (ph_freq q) (ph_freq ph)); split; auto; lia.
    + destruct IH as [x' [H1 H2]]. exists x'. split; [now right | assumption].
Qed.

Definition dedup_inv (acc seen : list phrase) : Prop :=
  NoDup (texts acc) /\
  (forall x, In x acc -> In x seen) /\
  (forall q, In q seen -> exists x, In x acc /\ ph_text x = ph_text q /\ ph_freq q <= ph_freq x).

Lemma dedup_ins_NoDup ph acc : NoDup (texts acc) -> NoDup (texts (dedup_ins ph acc)).
Proof.
  intro H. rewrite dedup_ins_texts. destruct (existsb (seq_eqb (ph_text ph)) (texts acc)) eqn:E; [assumption|].
  apply NoDup_snoc; [assumption|]. intro Hx. apply existsb_seq_In in Hx. congruence.
Qed.

Lemma dedup_fold_inv l acc seen :
  dedup_inv acc seen -> dedup_inv (fold_left (fun a ph => dedup_ins ph a) l acc) (seen ++ l).
Proof.
  revert acc seen. induction l as [|ph l IH]; intros acc seen H; cbn [fold_left].
  - now rewrite app_nil_r.
  - replace (seen ++ ph :: l) with ((seen ++ [ph]) ++ l) by (rewrite <- app_assoc; reflexivity).
    apply IH. destruct H as [H1 [H2 H3]]. split; [now apply dedup_ins_NoDup|]. split.
    + intros x Hx. apply in_app_iff. destruct (dedup_ins_In _ _ _ Hx) as [Hi| ->]; [left; auto | right; now left].
    + intros q Hq. apply in_app_iff in Hq as [Hq|[<-|[]]].
      * destruct (H3 q Hq) as [x [Hx [Ht Hf]]].
        destruct (dedup_ins_mono ph acc x Hx) as [x' [Hx' [Ht' Hf']]].
        exists x'. split; [assumption|]. split; [congruence | lia].
      * apply dedup_ins_new.
Qed.

Lemma dedup_spec l : dedup_inv (dedup l) l.
Proof.
  unfold dedup. apply (dedup_fold_inv l [] []). split; [constructor|]. split; intros ? [].
Qed.

Lemma dedup_In l x : In x (dedup l) -> In x l.
Proof. apply (dedup_spec l). Qed.

(* one entry per phrase, carrying the highest frequency *)
Lemma dedup_max l x q :
  In x (dedup l) -> In q l -> ph_text q = ph_text x -> ph_freq q <= ph_freq x.
Proof.
  intros Hx Hq Ht. destruct (dedup_spec l) as [H1 [H2 H3]].
  destruct (H3 q Hq) as [x' [Hx' [Ht' Hf]]].
  assert (x' = x) by (apply (NoDup_map_inj_in ph_text (dedup l)); auto; congruence).
  now subst.
Qed.

Lemma dedup_ins_fresh ph acc :
  ~ In (ph_text ph) (texts acc) -> dedup_ins ph acc = acc ++ [ph].
Proof.
  induction acc as [|q acc IH]; cbn [dedup_ins texts map In app]; intro H; [reflexivity|].
  destruct (seq_eqb (ph_text q) (ph_text ph)) eqn:E.
  - apply seq_eqb_eq in E. exfalso. apply H. now left.
  - rewrite IH; [reflexivity | intro; apply H; now right].
Qed.

(* a list that has each phrase once is left alone *)
Lemma dedup_id l : NoDup (texts l) -> dedup l = l.
Proof.
  unfold dedup. intro H.
  enough (G : forall acc, NoDup (texts (acc ++ l)) ->
            fold_left (fun a ph => dedup_ins ph a) l acc = acc ++ l) by (apply (G []); assumption).
  clear H. induction l as [|ph l IH]; intros acc Hnd; cbn [fold_left].
  - now rewrite app_nil_r.
  - rewrite dedup_ins_fresh.
    + rewrite IH; rewrite <- app_assoc; [reflexivity | exact Hnd].
    + unfold texts in *. rewrite map_app in Hnd. cbn [map] in Hnd. apply NoDup_remove_2 in Hnd.
      intro Hin. apply Hnd. apply in_app_iff. now left.
Qed.
