(* Round-trip lemmas for the DER subset of Model/Der.v:
     decode_x (encode_x v ++ rest) = Some (v, rest)
   for lengths, TLVs, UTF8String, OCTET STRING, unsigned INTEGER of any width,
   [0] IMPLICIT u64 OPTIONAL and SEQUENCE.  Stdlib only. *)
From Coq Require Import NArith List Bool Lia ZArith.
From LC Require Import Base.Lib Model.Utf8 Model.Der.
Import ListNotations.
Open Scope N_scope.

Ltac Zify.zify_post_hook ::= Z.to_euclidean_division_equations.

Ltac b2p H :=
  repeat match type of H with
         | (_ <? _) = true => apply N.ltb_lt in H
         | (_ <? _) = false => apply N.ltb_ge in H
         | (_ <=? _) = true => apply N.leb_le in H
         | (_ <=? _) = false => apply N.leb_gt in H
         | (_ =? _) = true => apply N.eqb_eq in H
         | (_ =? _) = false => apply N.eqb_neq in H
         end.

(* destruct the condition of the first `if` of the goal; contradictory branches die by lia *)
Ltac step_if :=
  match goal with
  | |- context [if ?c then _ else _] =>
    let E := fresh "E" in destruct c eqn:E; b2p E; try lia
  end.

(* ---- list slicing ---- *)
Lemma len_N_app {A} (a b : list A) : len_N (a ++ b) = len_N a + len_N b.
Proof. unfold len_N. rewrite app_length. lia. Qed.

Lemma len_N_cons {A} (x : A) (l : list A) : len_N (x :: l) = 1 + len_N l.
Proof. unfold len_N. cbn [length]. lia. Qed.

Lemma to_nat_len_N {A} (l : list A) : N.to_nat (len_N l) = length l.
Proof. unfold len_N. apply Nat2N.id. Qed.

Lemma split_at_app (v rest : list N) : split_at (len_N v) (v ++ rest) = Some (v, rest).
Proof.
  unfold split_at. rewrite len_N_app.
  destruct (len_N v <=? len_N v + len_N rest) eqn:E; b2p E; [|lia].
  rewrite to_nat_len_N.
  rewrite firstn_app, Nat.sub_diag, firstn_all. cbn [firstn]. rewrite app_nil_r.
  rewrite skipn_app, Nat.sub_diag, skipn_all. reflexivity.
Qed.

Lemma split_at_spec n l a b : split_at n l = Some (a, b) -> l = a ++ b /\ len_N a = n.
Proof.
  unfold split_at. destruct (n <=? len_N l) eqn:E; [|discriminate]. b2p E.
  intros [= <- <-]. split; [symmetry; apply firstn_skipn|].
  unfold len_N in *. rewrite firstn_length. lia.
Qed.

(* ---- lengths ---- *)
Lemma dec_enc_len n lb rest : enc_len n = Some lb -> dec_len (lb ++ rest) = Some (n, rest).
Proof.
  unfold enc_len, DER_MAX.
  repeat step_if; intros [= <-]; cbn [app dec_len]; unfold DER_MAX.
  - step_if. reflexivity.
  - repeat step_if. reflexivity.
  - repeat step_if. do 2 f_equal. lia.
  - repeat step_if. do 2 f_equal. lia.
  - destruct (132 <? 128) eqn:Q0; b2p Q0; [lia|].
    destruct (132 =? 129) eqn:Q1; b2p Q1; [lia|].
    destruct (132 =? 130) eqn:Q2; b2p Q2; [lia|].
    destruct (132 =? 131) eqn:Q3; b2p Q3; [lia|].
    destruct (132 =? 132) eqn:Q4; b2p Q4; [|lia].
    assert (Hv : ((n / 16777216 * 256 + n / 65536 mod 256) * 256 + n / 256 mod 256) * 256 + n mod 256 = n) by lia.
    rewrite Hv.
    destruct ((16777216 <=? n) && (n <=? 268435455)) eqn:Q5; [reflexivity|].
    apply andb_false_iff in Q5 as [Q5|Q5]; b2p Q5; lia.
Qed.

Lemma enc_len_some n : n <= DER_MAX -> exists lb, enc_len n = Some lb /\ (length lb <= 5)%nat.
Proof.
  unfold enc_len, DER_MAX. intros H. repeat step_if; eexists; split; try reflexivity; cbn [length]; lia.
Qed.

Lemma enc_len_bound n lb : enc_len n = Some lb -> n <= DER_MAX.
Proof. unfold enc_len, DER_MAX. repeat step_if; intros [= <-]; lia. Qed.

(* ---- TLV ---- *)
Lemma dec_enc_tlv tag v b rest : enc_tlv tag v = Some b -> dec_tlv tag (b ++ rest) = Some (v, rest).
Proof.
  unfold enc_tlv. destruct (enc_len (len_N v)) as [lb|] eqn:E; [|discriminate].
  intros [= <-]. cbn [app dec_tlv]. rewrite N.eqb_refl.
  rewrite <- app_assoc. rewrite (dec_enc_len _ _ _ E). apply split_at_app.
Qed.

Lemma enc_tlv_nonempty tag v b : enc_tlv tag v = Some b -> b <> [].
Proof. unfold enc_tlv. destruct (enc_len (len_N v)); [|discriminate]. intros [= <-]. discriminate. Qed.

(* ---- UTF8String / OCTET STRING ---- *)
Lemma dec_enc_utf8string s b rest :
  utf8_valid s = true -> enc_utf8string s = Some b -> dec_utf8string (b ++ rest) = Some (s, rest).
Proof.
  intros Hv He. unfold dec_utf8string, enc_utf8string in *.
  rewrite (dec_enc_tlv _ _ _ _ He), Hv. reflexivity.
Qed.

Lemma dec_enc_octets s b rest : enc_octets s = Some b -> dec_octets (b ++ rest) = Some (s, rest).
Proof. apply dec_enc_tlv. Qed.

(* ---- unsigned integers ---- *)
Lemma from_be_acc l acc :
  fold_left (fun a b => a * 256 + b) l acc = acc * 256 ^ len_N l + from_be l.
Proof.
  unfold from_be. revert acc. induction l as [|x l IH]; intros acc.
  - cbn [fold_left]. unfold len_N. cbn [length N.of_nat]. rewrite N.pow_0_r. lia.
  - cbn [fold_left]. rewrite IH. rewrite (IH (0 * 256 + x)). rewrite len_N_cons.
    rewrite N.pow_add_r. rewrite N.pow_1_r. lia.
Qed.

Lemma from_be_cons x l : from_be (x :: l) = x * 256 ^ len_N l + from_be l.
Proof. unfold from_be at 1. cbn [fold_left]. rewrite from_be_acc. lia. Qed.

Lemma be_bytes_length w v : length (be_bytes w v) = w.
Proof. induction w; cbn [be_bytes length]; congruence. Qed.

Lemma be_bytes_bytes w v : Forall (fun b => b < 256) (be_bytes w v).
Proof.
  induction w; cbn [be_bytes]; constructor; [|assumption].
  apply N.mod_lt. lia.
Qed.

Lemma from_be_be_bytes w v : from_be (be_bytes w v) = v mod 256 ^ N.of_nat w.
Proof.
  induction w as [|w IH].
  - cbn. rewrite N.mod_1_r. reflexivity.
  - cbn [be_bytes]. rewrite from_be_cons, IH.
    unfold len_N. rewrite be_bytes_length.
    rewrite Nat2N.inj_succ, N.pow_succ_r'.
    assert (Hp : 256 ^ N.of_nat w <> 0) by (apply N.pow_nonzero; lia).
    rewrite (N.mul_comm 256), N.mod_mul_r by lia. lia.
Qed.

Lemma strip_from_be l : from_be (strip_leading_zeroes l) = from_be l.
Proof.
  induction l as [|b r IH]; [reflexivity|].
  cbn [strip_leading_zeroes]. destruct r as [|c r']; [reflexivity|].
  destruct (b =? 0) eqn:E; b2p E; [|reflexivity].
  rewrite IH. subst b. rewrite (from_be_cons 0). lia.
Qed.

Lemma strip_shape l :
  l <> [] ->
  let s := strip_leading_zeroes l in
  s <> [] /\ (length s <= length l)%nat /\
  (forall x y r, s = x :: y :: r -> x <> 0) /\
  (forall P : N -> Prop, Forall P l -> Forall P s).
Proof.
  induction l as [|b r IH]; [congruence|]. intros _.
  cbn [strip_leading_zeroes]. destruct r as [|c r'].
  - cbn zeta. split; [discriminate|]. split; [lia|]. split; [intros x y r [=]|auto].
  - destruct (b =? 0) eqn:E; b2p E.
    + destruct IH as (H1 & H2 & H3 & H4); [discriminate|]. cbn zeta.
      split; [exact H1|]. split; [cbn [length] in *; lia|]. split; [exact H3|].
      intros P HP. apply H4. now inversion HP.
    + cbn zeta. split; [discriminate|]. split; [lia|]. split; [|auto].
      intros x y r [= -> _ _]. exact E.
Qed.

Lemma uint_content_shape w v :
  (0 < w)%nat ->
  let c := uint_content w v in
  c <> [] /\ len_N c <= N.of_nat w + 1.
Proof.
  intros Hw. cbn zeta. unfold uint_content.
  destruct (strip_shape (be_bytes w v)) as (H1 & H2 & _ & _).
  { intros E. apply (f_equal (@length N)) in E. rewrite be_bytes_length in E. cbn in E. lia. }
  rewrite be_bytes_length in H2.
  destruct (needs_leading_zero _); split; try discriminate; try assumption; unfold len_N; cbn [length]; lia.
Qed.

Lemma dec_enc_uint_content w v :
  (0 < w)%nat -> v < 256 ^ N.of_nat w -> dec_uint_content w (uint_content w v) = Some v.
Proof.
  intros Hw Hv.
  assert (Hne : be_bytes w v <> []).
  { intros E. apply (f_equal (@length N)) in E. rewrite be_bytes_length in E. cbn in E. lia. }
  destruct (strip_shape (be_bytes w v) Hne) as (H1 & H2 & H3 & H4).
  rewrite be_bytes_length in H2.
  specialize (H4 _ (be_bytes_bytes w v)).
  assert (Hval : from_be (strip_leading_zeroes (be_bytes w v)) = v).
  { rewrite strip_from_be, from_be_be_bytes. apply N.mod_small. exact Hv. }
  unfold dec_uint_content.
  remember (uint_content w v) as c eqn:Hc.
  assert (Hlen : len_N c <= N.of_nat w + 1) by (subst c; apply uint_content_shape; assumption).
  destruct (N.of_nat w + 1 <? len_N c) eqn:E0; b2p E0; [lia|].
  unfold uint_content in Hc.
  remember (strip_leading_zeroes (be_bytes w v)) as s eqn:Hs.
  destruct s as [|x s']; [congruence|].
  cbn [needs_leading_zero] in Hc.
  destruct (128 <=? x) eqn:Ex; b2p Ex.
  - (* leading zero added *)
    subst c. cbn [uint_decode_to_slice]. rewrite N.eqb_refl.
    destruct (x <? 128) eqn:Ex2; b2p Ex2; [lia|].
    destruct (N.of_nat w <? len_N (x :: s')) eqn:E1; b2p E1.
    { unfold len_N in E1. lia. }
    rewrite Hval.
    unfold uint_content. rewrite <- Hs. cbn [needs_leading_zero].
    destruct (128 <=? x) eqn:Ex3; b2p Ex3; [|lia].
    rewrite N.eqb_refl. reflexivity.
  - (* no leading zero *)
    subst c.
    assert (Hsl : uint_decode_to_slice (x :: s') = Some (x :: s')).
    { cbn [uint_decode_to_slice]. destruct s' as [|y s''].
      - destruct (128 <=? x) eqn:Ex4; b2p Ex4; [lia|reflexivity].
      - assert (x <> 0) by (eapply H3; reflexivity).
        destruct (x =? 0) eqn:Ex5; b2p Ex5; [lia|].
        destruct (128 <=? x) eqn:Ex4; b2p Ex4; [lia|reflexivity]. }
    rewrite Hsl.
    destruct (N.of_nat w <? len_N (x :: s')) eqn:E1; b2p E1.
    { unfold len_N in E1. lia. }
    rewrite Hval.
    unfold uint_content. rewrite <- Hs. cbn [needs_leading_zero].
    destruct (128 <=? x) eqn:Ex3; b2p Ex3; [lia|].
    rewrite N.eqb_refl. reflexivity.
Qed.

Lemma dec_enc_uint_tagged tag w v b rest :
  (0 < w)%nat -> v < 256 ^ N.of_nat w ->
  enc_uint_tagged tag w v = Some b -> dec_uint_tagged tag w (b ++ rest) = Some (v, rest).
Proof.
  intros Hw Hv He. unfold enc_uint_tagged, dec_uint_tagged in *.
  rewrite (dec_enc_tlv _ _ _ _ He), dec_enc_uint_content by assumption. reflexivity.
Qed.

Lemma dec_enc_uint w v b rest :
  (0 < w)%nat -> v < 256 ^ N.of_nat w ->
  enc_uint w v = Some b -> dec_uint w (b ++ rest) = Some (v, rest).
Proof. apply dec_enc_uint_tagged. Qed.

(* the content of an unsigned integer is short, so its TLV always exists *)
Lemma enc_uint_tagged_some tag w v : (0 < w <= 100)%nat -> exists b, enc_uint_tagged tag w v = Some b.
Proof.
  intros Hw. unfold enc_uint_tagged, enc_tlv.
  destruct (uint_content_shape w v) as [_ Hl]; [lia|].
  destruct (enc_len_some (len_N (uint_content w v))) as (lb & -> & _); [unfold DER_MAX; lia|].
  eexists; reflexivity.
Qed.

(* ---- [0] IMPLICIT u64 OPTIONAL ---- *)
Lemma dec_enc_ctx0_some v b rest :
  v < 2 ^ 64 -> enc_ctx0_u64_opt (Some v) = Some b ->
  dec_ctx0_u64_opt (b ++ rest) = Some (Some v, rest).
Proof.
  intros Hv He. cbn [enc_ctx0_u64_opt] in He.
  pose proof (dec_enc_uint_tagged TAG_CTX0 8 v b rest) as Hd.
  assert (Hb : exists r, b = TAG_CTX0 :: r).
  { unfold enc_uint_tagged, enc_tlv in He. destruct (enc_len _); [|discriminate]. injection He as <-. eexists; reflexivity. }
  destruct Hb as [r ->]. cbn [app] in *.
  unfold dec_ctx0_u64_opt.
  change (is_valid_tag_byte TAG_CTX0) with true.
  change (in_range 128 190 TAG_CTX0) with true.
  change (N.land TAG_CTX0 31 =? 0) with true.
  change (TAG_CTX0 =? TAG_CTX0) with true.
  cbn [negb].
  rewrite Hd; [reflexivity|lia|exact Hv|exact He].
Qed.

Lemma dec_enc_ctx0_none : dec_ctx0_u64_opt [] = Some (None, []).
Proof. reflexivity. Qed.

(* ---- SEQUENCE ---- *)
Lemma dec_enc_sequence {A} (inner : list N -> option (A * list N)) body a b rest :
  inner body = Some (a, []) -> enc_sequence body = Some b ->
  dec_sequence inner (b ++ rest) = Some (a, rest).
Proof.
  intros Hi He. unfold dec_sequence, enc_sequence in *.
  rewrite (dec_enc_tlv _ _ _ _ He), Hi. reflexivity.
Qed.

(* oapp / obind inversion *)
Lemma oapp_some a b c : oapp a b = Some c -> exists x y, a = Some x /\ b = Some y /\ c = x ++ y.
Proof. destruct a, b; cbn; try discriminate. intros [= <-]. eauto. Qed.

Lemma obind_some {A B} (o : option A) (f : A -> option B) c : obind o f = Some c -> exists x, o = Some x /\ f x = Some c.
Proof. destruct o; cbn; [eauto|discriminate]. Qed.
