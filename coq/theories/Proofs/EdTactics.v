(* Shared Ltac for the editor proofs. *)
From Coq Require Import NArith List Bool Arith.
From LC Require Import Base.Lib Gen.Editor_gen Model.Editor.

Ltac inv_ok H := inversion H; subst; clear H.
Ltac split_if H :=
  match type of H with
  | context[if ?c then _ else _] => let E := fresh "E" in destruct c eqn:E
  end.

(* evaluate key-code tests on closed key codes *)
Ltac kc_eval H :=
  repeat match type of H with
  | context[N.eqb ?a ?b] =>
    let v := eval vm_compute in (N.eqb a b) in
    match v with
    | true => change (N.eqb a b) with true in H
    | false => change (N.eqb a b) with false in H
    end
  | context[is_digit_code ?a] =>
    let v := eval vm_compute in (is_digit_code a) in
    match v with
    | true => change (is_digit_code a) with true in H
    | false => change (is_digit_code a) with false in H
    end
  | context[code_in ?a ?l] =>
    let v := eval vm_compute in (code_in a l) in
    match v with
    | true => change (code_in a l) with true in H
    | false => change (code_in a l) with false in H
    end
  end; cbn [andb orb negb] in H; cbv beta iota in H.
