(* Proofs about Model/Engine.v: the path search of ChewingEngine (shortest_path, find_k_paths), trim_paths
   and the ranking, for EVERY edge list whose edges run forward inside the buffer (eb < ee <= len) and
   every sort of the candidates that permutes its input.

   - shortest_path is total (no index out of range, both loops end within their fuel), sound (an answer
     is a path of live edges from the source to the end) and complete (if the end can be reached over
     live edges it answers Some) - so `shortest_path(.., 0, len).unwrap()` cannot fail once the graph has
     a path (Proofs/GraphPath.v);
   - find_k_paths is total and every path it returns is a 0 -> len path of the graph;
   - trim_paths returns a non-empty sub-list;
   - the score is total for buffers of up to 4000 symbols, whatever the frequencies (since fix 2d722b2);
   - hence ChewingEngine::convert never panics and every alternative it returns is the glue-fold of a
     0 -> len path. *)
From Coq Require Import NArith ZArith List Bool Arith Lia Permutation.
From LC Require Import Base.Lib Model.Composition Model.Conversion Model.Engine.
Import ListNotations.
Open Scope nat_scope.

Definition fineo {A} (x : outcome A) : Prop := exists a, x = Ok a.

Lemma bind_ok {A B} (x : outcome A) (f : A -> outcome B) b : bind x f = Ok b -> exists a, x = Ok a /\ f a = Ok b.
Proof. destruct x; cbn; intros H; try discriminate. eauto. Qed.

Lemma length_set_at' {A} (x : A) : forall n l, length (set_at n x l) = length l.
Proof. induction n as [|n IH]; intros [|y l]; cbn; auto. Qed.

Lemma nth_error_set_at_eq {A} (x : A) : forall n l, n < length l -> nth_error (set_at n x l) n = Some x.
Proof. induction n as [|n IH]; intros [|y l] H; cbn in *; try lia; auto. apply IH. lia. Qed.

Lemma nth_error_set_at_neq {A} (x : A) : forall n l m, n <> m -> nth_error (set_at n x l) m = nth_error l m.
Proof.
  induction n as [|n IH]; intros [|y l] m H; cbn; auto.
  - destruct m; [lia | reflexivity].
  - destruct m; [reflexivity | cbn; apply IH; lia].
Qed.

Section Graph.
Variable E : list edge.
Variable len : nat.
Hypothesis HE : forall e, In e E -> eb e < ee e <= len.

Definition G : list (list edge) := map (fun b => filter (fun e => Nat.eqb (eb e) b) E) (seq 0 len).

Lemma graph_of_ok : graph_of len E = Ok G.
Proof.
  unfold graph_of. replace (forallb _ E) with true; [reflexivity|]. symmetry. apply forallb_forall.
  intros e He. apply Nat.ltb_lt. destruct (HE e He). lia.
Qed.

Lemma nth_error_G node : nth_error G node = if Nat.ltb node len then Some (filter (fun e => Nat.eqb (eb e) node) E) else None.
Proof.
  unfold G. destruct (Nat.ltb node len) eqn:Hl.
  - apply Nat.ltb_lt in Hl. rewrite nth_error_map.
    replace (nth_error (seq 0 len) node) with (Some node); [reflexivity|].
    symmetry. rewrite (nth_error_nth' _ 0) by (rewrite seq_length; exact Hl). now rewrite seq_nth.
  - apply Nat.ltb_ge in Hl. apply nth_error_None. now rewrite map_length, seq_length.
Qed.

Definition idx (e : edge) : nat := eb e * len + ee e - 1.

Lemma rem_index_ok e : In e E -> rem_index len e = Ok (idx e).
Proof.
  intros He. destruct (HE e He) as (H1 & H2). unfold rem_index, idx.
  replace (Nat.eqb (eb e * len + ee e) 0) with false by (symmetry; apply Nat.eqb_neq; lia).
  replace (Nat.ltb (eb e * len + ee e - 1) (len * len)) with true; [reflexivity|].
  symmetry. apply Nat.ltb_lt. nia.
Qed.

(* a path of graph edges *)
Fixpoint gpath (from to : nat) (p : path) : Prop :=
  match p with
  | [] => from = to
  | e :: r => In e E /\ eb e = from /\ gpath (ee e) to r
  end.

Lemma gpath_app a b c0 p q : gpath a b p -> gpath b c0 q -> gpath a c0 (p ++ q).
Proof.
  revert a. induction p as [|e p IH]; intros a Hp Hq; cbn in *; [now subst|].
  destruct Hp as (H1 & H2 & H3). auto.
Qed.

Lemma gpath_prefix : forall p from to i e, gpath from to p -> nth_error p i = Some e -> gpath from (eb e) (firstn i p).
Proof.
  induction p as [|x p IH]; intros from to i e Hp Hn; [destruct i; discriminate|].
  destruct Hp as (H1 & H2 & H3). destruct i as [|i]; cbn in *.
  - inversion Hn; subst. reflexivity.
  - repeat split; auto. eapply IH; eauto.
Qed.

Lemma gpath_in from to p e : gpath from to p -> In e p -> In e E.
Proof.
  revert from. induction p as [|x p IH]; intros from Hp Hin; [contradiction|].
  destruct Hp as (H1 & H2 & H3). destruct Hin as [->|Hin]; eauto.
Qed.

Lemma gpath_le from to p : gpath from to p -> from <= to.
Proof.
  revert from. induction p as [|x p IH]; intros from Hp; cbn in Hp; [lia|].
  destruct Hp as (H1 & H2 & H3). apply IH in H3. destruct (HE x H1). lia.
Qed.

Lemma gpath_nonempty from to p : gpath from to p -> from <> to -> p <> [].
Proof. destruct p; cbn; [contradiction | discriminate]. Qed.

(* sum of the edge lengths of a path *)
Lemma gpath_sum from to p : gpath from to p -> fold_left (fun acc e => acc + edge_len e) p 0 = to - from.
Proof.
  assert (Hg : forall p from acc, gpath from to p -> fold_left (fun acc e => acc + edge_len e) p acc = acc + (to - from)).
  { clear p from. induction p as [|x p IH]; intros from acc Hp; cbn in *; [subst; lia|].
    destruct Hp as (H1 & H2 & H3). rewrite (IH _ _ H3). unfold edge_len. destruct (HE x H1). pose proof (gpath_le _ _ _ H3). lia. }
  intros H. rewrite (Hg _ _ _ H). lia.
Qed.

(* ------------------------------------------------------------------ *)
(* breadth-first search *)
Section BFS.
Variable removed : list nat.
Variable source : nat.
Hypothesis Hsrc : source <= len.

Definition live (e : edge) : Prop := In e E /\ is_removed removed (idx e) = false.

(* what the parent array holds: tree edges, live, pointing back towards the source *)
Definition Pinv (parent : list (option edge)) : Prop :=
  length parent = S len /\
  forall x e, nth_error parent x = Some (Some e) ->
    live e /\ ee e = x /\ source <= eb e /\ (eb e = source \/ exists e', nth_error parent (eb e) = Some (Some e')).

Definition disc (parent : list (option edge)) (x : nat) : Prop :=
  x = source \/ exists e, nth_error parent x = Some (Some e).

Definition ext (p p' : list (option edge)) : Prop :=
  forall x e, nth_error p x = Some (Some e) -> exists e', nth_error p' x = Some (Some e').

Fixpoint nones (l : list (option edge)) : nat :=
  match l with [] => 0 | None :: r => S (nones r) | Some _ :: r => nones r end.

Lemma nones_set_at : forall i l e, nth_error l i = Some None -> S (nones (set_at i (Some e) l)) = nones l.
Proof.
  induction i as [|i IH]; intros [|[x|] l] e H; cbn in *; try discriminate; auto.
Qed.

Lemma Pinv_init : Pinv (repeat None (S len)).
Proof.
  split; [apply repeat_length|]. intros x e H. exfalso.
  assert (Hin : In (Some e) (repeat None (S len))) by (eapply nth_error_In; eauto).
  apply repeat_spec in Hin. discriminate.
Qed.

(* one node's edge loop *)
Lemma bfs_edges_spec : forall es parent queue node,
  (forall e, In e es -> In e E /\ eb e = node) -> Pinv parent -> disc parent node -> source <= node ->
  exists p' q' brk, bfs_edges len removed es parent queue = Ok (p', q', brk) /\
    Pinv p' /\ ext parent p' /\
    length q' + nones p' = length queue + nones parent /\
    (exists added, q' = queue ++ added /\ (forall x, In x added -> disc p' x) /\
                   (forall x, disc p' x -> disc parent x \/ In x added)) /\
    (brk = true -> exists e, nth_error p' len = Some (Some e)) /\
    (brk = false -> forall e, In e es -> is_removed removed (idx e) = false -> exists e', nth_error p' (ee e) = Some (Some e')).
Proof.
  induction es as [|e rest IH]; intros parent queue node Hes HP Hd Hsn.
  - exists parent, queue, false. cbn.
    split; [reflexivity|]. split; [exact HP|]. split; [intros x e0 H; eauto|]. split; [reflexivity|].
    split; [exists []; rewrite app_nil_r; split; [reflexivity|]; split; [intros x [] | intros x Hx; now left]|].
    split; [discriminate | intros _ e []].
  - destruct (Hes e (or_introl eq_refl)) as (HinE & Hnode).
    cbn [bfs_edges]. rewrite (rem_index_ok e HinE). cbn [bind].
    assert (Hrest : forall e0, In e0 rest -> In e0 E /\ eb e0 = node) by (intros e0 H0; apply Hes; now right).
    destruct (is_removed removed (idx e)) eqn:Hrm.
    + destruct (IH parent queue node Hrest HP Hd Hsn) as (p' & q' & brk & H1 & H2 & H3 & H4 & H5 & H6 & H7).
      exists p', q', brk. split; [exact H1|]. split; [exact H2|]. split; [exact H3|]. split; [exact H4|].
      split; [exact H5|]. split; [exact H6|].
      intros Hb e0 [<-|Hin0] Hr0; [congruence | now apply H7].
    + destruct (HE e HinE) as (Hlt & Hle). destruct HP as (HPl & HPe).
      destruct (nth_error parent (ee e)) as [slot|] eqn:Hslot; [|apply nth_error_None in Hslot; lia].
      (* the new parent array / queue *)
      set (pq := match slot with None => (set_at (ee e) (Some e) parent, queue ++ [ee e]) | Some _ => (parent, queue) end).
      assert (HP1 : Pinv (fst pq)).
      { destruct slot as [e1|]; cbn; [split; assumption|].
        split; [now rewrite length_set_at'|]. intros x e0 H0.
        destruct (Nat.eq_dec (ee e) x) as [<-|Hne].
        - rewrite nth_error_set_at_eq in H0 by lia. inversion H0; subst e0.
          split; [split; assumption|]. split; [reflexivity|]. split; [lia|].
          destruct Hd as [Hd|(e1 & He1)]; [left; congruence|]. right.
          exists e1. rewrite nth_error_set_at_neq by lia. congruence.
        - rewrite nth_error_set_at_neq in H0 by exact Hne. destruct (HPe x e0 H0) as (A & B & C0 & D).
          split; [exact A|]. split; [exact B|]. split; [exact C0|]. destruct D as [D|(e1 & D)]; [now left|]. right.
          destruct (Nat.eq_dec (ee e) (eb e0)) as [Heq|Hneq].
          + exists e. rewrite <- Heq. apply nth_error_set_at_eq. lia.
          + exists e1. now rewrite nth_error_set_at_neq. }
      assert (HX1 : ext parent (fst pq)).
      { destruct slot as [e1|]; cbn; intros x e0 H0; [eauto|].
        destruct (Nat.eq_dec (ee e) x) as [<-|Hne]; [congruence|]. exists e0. now rewrite nth_error_set_at_neq. }
      assert (HN1 : length (snd pq) + nones (fst pq) = length queue + nones parent).
      { destruct slot as [e1|]; cbn; [reflexivity|]. rewrite app_length. cbn [length].
        pose proof (nones_set_at (ee e) parent e Hslot). lia. }
      assert (HA1 : exists added, snd pq = queue ++ added /\ (forall x, In x added -> disc (fst pq) x) /\
                                  (forall x, disc (fst pq) x -> disc parent x \/ In x added)).
      { destruct slot as [e1|]; cbn.
        - exists []. rewrite app_nil_r. repeat split; auto. intros x [].
        - exists [ee e]. repeat split; auto.
          + intros x [<-|[]]. right. exists e. apply nth_error_set_at_eq. lia.
          + intros x [Hx|(e0 & Hx)]; [left; now left|].
            destruct (Nat.eq_dec (ee e) x) as [<-|Hne]; [right; now left|].
            rewrite nth_error_set_at_neq in Hx by exact Hne. left. right. eauto. }
      assert (HS1 : exists e', nth_error (fst pq) (ee e) = Some (Some e')).
      { destruct slot as [e1|]; cbn; [eauto|]. exists e. apply nth_error_set_at_eq. lia. }
      assert (HD1 : disc (fst pq) node).
      { destruct Hd as [Hd|(e1 & He1)]; [now left|]. right. apply (HX1 _ _ He1). }
      fold pq. destruct (Nat.eqb (ee e) len) eqn:Hend.
      * apply Nat.eqb_eq in Hend. exists (fst pq), (snd pq), true.
        split; [reflexivity|]. split; [exact HP1|]. split; [exact HX1|]. split; [exact HN1|]. split; [exact HA1|].
        split; [intros _; rewrite <- Hend; exact HS1 | discriminate].
      * destruct (IH (fst pq) (snd pq) node Hrest HP1 HD1 Hsn) as (p' & q' & brk & H1 & H2 & H3 & H4 & H5 & H6 & H7).
        exists p', q', brk. split; [exact H1|]. split; [exact H2|].
        split; [intros x e0 H0; destruct (HX1 _ _ H0) as (e1 & He1); eapply H3; eauto|].
        split; [lia|].
        split.
        { destruct HA1 as (a1 & Ha1 & Ha2 & Ha3). destruct H5 as (a2 & Hb1 & Hb2 & Hb3).
          exists (a1 ++ a2). rewrite Hb1, Ha1, app_assoc. split; [reflexivity|]. split.
          - intros x Hx. apply in_app_iff in Hx as [Hx|Hx]; [|now apply Hb2].
            destruct (Ha2 x Hx) as [Hs|(e1 & He1)]; [now left|]. right. eapply H3; eauto.
          - intros x Hx. destruct (Hb3 x Hx) as [Hx1|Hx1]; [|right; apply in_app_iff; now right].
            destruct (Ha3 x Hx1); [now left | right; apply in_app_iff; now left]. }
        split; [exact H6|].
        intros Hb e0 [<-|Hin0] Hr0; [|now apply H7].
        destruct HS1 as (e1 & He1). eapply H3; eauto.
Qed.

(* the whole search: total within its fuel; keeps Pinv; and on return either the end has a parent or
   every discovered node has all its live edges followed *)
Lemma bfs_loop_spec : forall fuel parent queue done,
  length queue + nones parent <= fuel ->
  Pinv parent ->
  (forall x, In x queue -> disc parent x /\ source <= x) ->
  (forall x, disc parent x -> In x queue \/ In x done) ->
  (forall x, In x done -> forall e, live e -> eb e = x -> exists e', nth_error parent (ee e) = Some (Some e')) ->
  exists p', bfs_loop fuel G len removed parent queue = Ok p' /\ Pinv p' /\
    ((exists e, nth_error p' len = Some (Some e)) \/
     (forall x, disc p' x -> forall e, live e -> eb e = x -> exists e', nth_error p' (ee e) = Some (Some e'))).
Proof.
  induction fuel as [|k IH]; intros parent queue done Hf HP Hq Hd Hdone.
  - destruct queue; [|cbn in Hf; lia]. exists parent. cbn. split; [reflexivity|]. split; [exact HP|]. right.
    intros x Hx. destruct (Hd x Hx) as [[]|Hx']. now apply Hdone.
  - destruct queue as [|node q].
    + exists parent. cbn. split; [reflexivity|]. split; [exact HP|]. right.
      intros x Hx. destruct (Hd x Hx) as [[]|Hx']. now apply Hdone.
    + cbn [bfs_loop]. rewrite nth_error_G. destruct (Hq node (or_introl eq_refl)) as (Hdn & Hsn).
      destruct (Nat.ltb node len) eqn:Hnl.
      * set (es := filter (fun e => Nat.eqb (eb e) node) E).
        assert (Hes : forall e, In e es -> In e E /\ eb e = node).
        { intros e He. apply filter_In in He as (H1 & H2). apply Nat.eqb_eq in H2. auto. }
        destruct (bfs_edges_spec es parent q node Hes HP Hdn Hsn) as (p' & q' & brk & H1 & H2 & H3 & H4 & H5 & H6 & H7).
        rewrite H1. cbn [bind]. destruct brk.
        -- exists p'. split; [reflexivity|]. split; [exact H2|]. left. now apply H6.
        -- destruct H5 as (added & Ha1 & Ha2 & Ha3).
           apply (IH p' q' (node :: done)).
           ++ cbn in Hf. lia.
           ++ exact H2.
           ++ intros x Hx. rewrite Ha1 in Hx. apply in_app_iff in Hx as [Hx|Hx].
              ** destruct (Hq x (or_intror Hx)) as ([Hs|(e1 & He1)] & Hsx); split; auto; [now left|]. right. eapply H3; eauto.
              ** split; [now apply Ha2|]. destruct (Ha2 x Hx) as [->|(e1 & He1)]; [lia|].
                 destruct H2 as (_ & H2). destruct (H2 x e1 He1) as ((HinE & _) & Hee' & Hse' & _). destruct (HE e1 HinE). lia.
           ++ intros x Hx. destruct (Ha3 x Hx) as [Hx1|Hx1].
              ** destruct (Hd x Hx1) as [[->|Hx2]|Hx2]; [right; now left | left; rewrite Ha1; apply in_app_iff; now left | right; now right].
              ** left. rewrite Ha1. apply in_app_iff. now right.
           ++ intros x [<-|Hx] e (HinE & Hlv) Heb.
              ** apply (H7 eq_refl e); [|exact Hlv]. apply filter_In. split; [exact HinE | now apply Nat.eqb_eq].
              ** destruct (Hdone x Hx e (conj HinE Hlv) Heb) as (e1 & He1). eapply H3; eauto.
      * (* node = len: no edges *)
        apply Nat.ltb_ge in Hnl.
        apply (IH parent q (node :: done)).
        -- cbn in Hf. lia.
        -- exact HP.
        -- intros x Hx. apply Hq. now right.
        -- intros x Hx. destruct (Hd x Hx) as [[->|Hx1]|Hx1]; [right; now left | now left | right; now right].
        -- intros x [<-|Hx] e (HinE & Hlv) Heb; [|now apply (Hdone x Hx e (conj HinE Hlv))].
           destruct (HE e HinE). lia.
Qed.

(* the walk back from a node that has a parent chain *)
Lemma walk_back_spec parent : Pinv parent -> forall fuel node acc,
  node - source <= fuel -> source <= node -> disc parent node -> gpath node len acc ->
  (forall e, In e acc -> live e) ->
  exists p, walk_back fuel parent source node acc = Ok (Some p) /\ gpath source len p /\ (forall e, In e p -> live e).
Proof.
  intros (HPl & HPe). induction fuel as [|k IH]; intros node acc Hf Hs Hd Hp Hlv.
  - assert (node = source) by lia. subst. cbn. rewrite Nat.eqb_refl. eauto.
  - cbn [walk_back]. destruct (Nat.eqb node source) eqn:Hns.
    + apply Nat.eqb_eq in Hns. subst. eauto.
    + apply Nat.eqb_neq in Hns. destruct Hd as [Hd|(e & He)]; [contradiction|]. rewrite He.
      destruct (HPe _ _ He) as (Hl & Hee & Hse & Hpar). destruct Hl as (HinE & Hrm). destruct (HE e HinE).
      apply IH.
      * lia.
      * exact Hse.
      * destruct Hpar as [Hpar|Hpar]; [now left | now right].
      * cbn. repeat split; auto. now rewrite Hee.
      * intros e0 [<-|Hin0]; [split; assumption | now apply Hlv].
Qed.

Lemma walk_back_none parent : Pinv parent -> source <> len -> nth_error parent len = Some None ->
  walk_back (S len) parent source len [] = Ok None.
Proof.
  intros _ Hne Hn. cbn [walk_back]. replace (Nat.eqb len source) with false by (symmetry; apply Nat.eqb_neq; lia).
  now rewrite Hn.
Qed.

(* live reachability *)
Fixpoint lpath (from to : nat) (p : path) : Prop :=
  match p with
  | [] => from = to
  | e :: r => live e /\ eb e = from /\ lpath (ee e) to r
  end.

Theorem shortest_path_spec :
  exists r, shortest_path G removed source len = Ok r /\
    (forall p, r = Some p -> gpath source len p /\ (forall e, In e p -> live e)) /\
    (r = None -> forall p, ~ lpath source len p).
Proof.
  unfold shortest_path.
  destruct (bfs_loop_spec (S (S len)) (repeat None (S len)) [source] []) as (p' & H1 & HP & Hend).
  - cbn [length]. assert (Hn : forall n, nones (repeat None n) = n) by (induction n; cbn; auto). rewrite Hn. lia.
  - apply Pinv_init.
  - intros x [<-|[]]. split; [now left | lia].
  - intros x [->|(e & He)]; [left; now left|]. exfalso.
    assert (Hin : In (Some e) (repeat None (S len))) by (eapply nth_error_In; eauto). apply repeat_spec in Hin. discriminate.
  - intros x [].
  - rewrite H1. cbn [bind].
    destruct (Nat.eq_dec source len) as [Heq|Hne].
    + (* nothing to walk *)
      exists (Some []). split; [|split].
      * cbn [walk_back]. rewrite Heq, Nat.eqb_refl. reflexivity.
      * intros p Hp. inversion Hp; subst p. split; [exact Heq | intros e []].
      * discriminate.
    + destruct HP as (HPl & HPe).
      destruct (nth_error p' len) as [[e|]|] eqn:Hlen.
      * destruct (walk_back_spec p' (conj HPl HPe) (S len) len []) as (p & Hw & Hg & Hl); try lia.
        -- right. eauto.
        -- reflexivity.
        -- intros e0 [].
        -- exists (Some p). rewrite Hw. split; [reflexivity|]. split; [|discriminate]. intros q Hq. inversion Hq; subst q. auto.
      * exists None. split; [now apply walk_back_none|]. split; [discriminate|]. intros _ p Hp.
        destruct Hend as [(e & He)|Hall]; [congruence|].
        (* every node on a live path from the source is discovered *)
        assert (Hreach : forall p x, disc p' x -> lpath x len p -> x <> len -> exists e, nth_error p' len = Some (Some e)).
        { clear p Hp. induction p as [|e p IH]; intros x Hx Hp Hxl; cbn in Hp; [contradiction|].
          destruct Hp as (Hlv & Heb & Hrest). destruct (Hall x Hx e Hlv Heb) as (e1 & He1).
          destruct (Nat.eq_dec (ee e) len) as [Hel|Hel]; [rewrite <- Hel; eauto|].
          apply (IH (ee e)); auto. right. eauto. }
        destruct (Hreach p source (or_introl eq_refl) Hp Hne) as (e & He). congruence.
      * apply nth_error_None in Hlen. lia.
Qed.

End BFS.

Lemma lpath_nil_gpath from to p : gpath from to p -> lpath [] from to p.
Proof.
  revert from. induction p as [|e p IH]; intros from Hp; cbn in *; [exact Hp|].
  destruct Hp as (H1 & H2 & H3). split; [split; [exact H1 | reflexivity]|]. split; [exact H2 | now apply IH].
Qed.

(* ------------------------------------------------------------------ *)
(* find_k_paths *)
Section KP.
Variable sortu : list path -> list path.
Hypothesis sortu_perm : forall l, Permutation (sortu l) l.

Definition allpaths (ps : list path) : Prop := forall p, In p ps -> gpath 0 len p.

Lemma mark_removed_ok : forall ksp i removed, allpaths ksp -> exists r, mark_removed len ksp i removed = Ok r.
Proof.
  induction ksp as [|p ksp IH]; intros i removed Ha; cbn [mark_removed]; [eauto|].
  assert (Ha' : allpaths ksp) by (intros q Hq; apply Ha; now right).
  destruct (nth_error p i) as [e|] eqn:Hn; [|now apply IH].
  rewrite (rem_index_ok e); [cbn [bind]; now apply IH|].
  eapply gpath_in; [apply (Ha p); now left | eapply nth_error_In; eauto].
Qed.

Lemma spur_loop_spec ksp prev : allpaths ksp -> gpath 0 len prev ->
  forall idxs removed cands, (forall i, In i idxs -> i < length prev) -> allpaths cands ->
  exists removed' cands', spur_loop G len ksp prev idxs removed cands = Ok (removed', cands') /\ allpaths cands'.
Proof.
  intros Hk Hprev. induction idxs as [|i rest IH]; intros removed cands Hi Hc; cbn [spur_loop]; [eauto|].
  assert (Hrest : forall j, In j rest -> j < length prev) by (intros j Hj; apply Hi; now right).
  destruct (nth_error prev i) as [se|] eqn:Hn; [|apply nth_error_None in Hn; specialize (Hi i (or_introl eq_refl)); lia].
  destruct (mark_removed_ok ksp i removed Hk) as (removed' & Hm). rewrite Hm. cbn [bind].
  assert (HseE : In se E) by (eapply gpath_in; [exact Hprev | eapply nth_error_In; eauto]).
  assert (Hsl : eb se <= len) by (destruct (HE se HseE); lia).
  destruct (shortest_path_spec removed' (eb se) Hsl) as (r & Hr & Hsome & _). rewrite Hr. cbn [bind].
  destruct r as [spur|]; [|now apply IH].
  apply IH; [exact Hrest|]. destruct (Hsome spur eq_refl) as (Hg & _).
  assert (Ht : gpath 0 len (firstn i prev ++ spur)).
  { eapply gpath_app; [eapply gpath_prefix; eauto | exact Hg]. }
  destruct (existsb _ ksp); [exact Hc|]. intros q Hq. apply in_app_iff in Hq as [Hq|[<-|[]]]; [now apply Hc | exact Ht].
Qed.

Lemma last_map_some {A} (l : list A) : l <> [] -> exists x, last (map Some l) None = Some x /\ In x l.
Proof.
  induction l as [|a l IH]; intros H; [contradiction|]. destruct l as [|b l]; [exists a; cbn; auto|].
  destruct IH as (x & Hx & Hin); [discriminate|]. exists x. split; [exact Hx | now right].
Qed.

Lemma swap_remove0_tail_incl others x : In x (swap_remove0_tail others) -> In x others.
Proof.
  unfold swap_remove0_tail. intros H. apply in_rev. destruct (rev others) as [|l r]; [contradiction|].
  destruct H as [<-|H]; [now left | right; now apply in_rev].
Qed.

Lemma k_loop_spec : forall n ksp removed cands big, ksp <> [] -> allpaths ksp -> allpaths cands ->
  exists ksp' b, k_loop sortu n G len ksp removed cands big = Ok (ksp', b) /\ allpaths ksp' /\ exists more, ksp' = ksp ++ more.
Proof.
  induction n as [|n IH]; intros ksp removed cands big Hne Hk Hc; cbn [k_loop].
  - exists ksp, big. split; [reflexivity|]. split; [exact Hk|]. exists []. now rewrite app_nil_r.
  - destruct (last_map_some ksp Hne) as (prev & Hl & Hin). rewrite Hl.
    destruct (spur_loop_spec ksp prev Hk (Hk prev Hin) (seq 0 (length prev)) removed cands) as (removed' & cands' & Hs & Hc').
    + intros i Hi. apply in_seq in Hi. lia.
    + exact Hc.
    + rewrite Hs. cbn [bind]. destruct (sortu cands') as [|first others] eqn:Hsort.
      * exists ksp, big. split; [reflexivity|]. split; [exact Hk|]. exists []. now rewrite app_nil_r.
      * assert (Hsub : forall q, In q (first :: others) -> gpath 0 len q).
        { intros q Hq. apply Hc'. eapply Permutation_in; [apply sortu_perm|]. now rewrite Hsort. }
        destruct (IH (ksp ++ [first]) removed' (swap_remove0_tail others) (big || Nat.ltb 20 (length cands'))) as (ksp' & b & H1 & H2 & more & H3).
        -- intros H. apply app_eq_nil in H as (_ & H). discriminate.
        -- intros q Hq. apply in_app_iff in Hq as [Hq|[<-|[]]]; [now apply Hk | apply Hsub; now left].
        -- intros q Hq. apply Hsub. right. now apply swap_remove0_tail_incl.
        -- exists ksp', b. split; [exact H1|]. split; [exact H2|]. exists ([first] ++ more). now rewrite app_assoc.
Qed.

(* the first path: a breadth-first shortest path from 0 with nothing removed; it exists as soon as the
   graph has a path at all - `.unwrap()` (Panic 308) cannot fire *)
Theorem find_k_paths_spec k : (exists p, gpath 0 len p) ->
  exists p0 more b, find_k_paths_x sortu k len E = Ok (p0 :: more, b) /\
    shortest_path G [] 0 len = Ok (Some p0) /\ allpaths (p0 :: more).
Proof.
  intros (p & Hp). unfold find_k_paths_x. rewrite graph_of_ok. cbn [bind].
  destruct (shortest_path_spec [] 0 (Nat.le_0_l len)) as (r & Hr & Hsome & Hnone). rewrite Hr. cbn [bind].
  destruct r as [p0|]; [|exfalso; apply (Hnone eq_refl p); now apply lpath_nil_gpath].
  destruct (Hsome p0 eq_refl) as (Hg & _).
  destruct (k_loop_spec (k - 1) [p0] [] [] false) as (ksp' & b & H1 & H2 & more & H3).
  - discriminate.
  - intros q [<-|[]]. exact Hg.
  - intros q [].
  - subst ksp'. cbn [app] in *. exists p0, more, b. split; [exact H1|]. split; [reflexivity | exact H2].
Qed.

End KP.

(* ------------------------------------------------------------------ *)
(* trim_paths keeps a non-empty sub-list *)
Lemma trim_inner_spec cand : forall trimmed drop keeper,
  let r := trim_inner cand trimmed drop keeper in
  (forall p, In p (snd r) -> In p keeper \/ In p trimmed) /\
  (fst r = true -> drop = true \/ snd r <> []) /\ (keeper <> [] -> snd r <> []).
Proof.
  induction trimmed as [|p rest IH]; intros drop keeper; cbn [trim_inner].
  - cbn. split; [auto|]. split; [auto | auto].
  - destruct (drop || path_contains p cand) eqn:Hd.
    + destruct (IH true (keeper ++ [p])) as (A & B & C0). split; [|split].
      * intros q Hq. destruct (A q Hq) as [Hq'|Hq']; [|right; now right].
        apply in_app_iff in Hq' as [Hq'|[<-|[]]]; [now left | right; now left].
      * intros _. right. apply C0. intros H. apply app_eq_nil in H as (_ & H). discriminate.
      * intros _. apply C0. intros H. apply app_eq_nil in H as (_ & H). discriminate.
    + apply orb_false_iff in Hd as (-> & _). destruct (path_contains cand p).
      * destruct (IH false keeper) as (A & B & C0). split; [|split; [exact B | exact C0]].
        intros q Hq. destruct (A q Hq); [now left | right; now right].
      * destruct (IH false (keeper ++ [p])) as (A & B & C0). split; [|split].
        -- intros q Hq. destruct (A q Hq) as [Hq'|Hq']; [|right; now right].
           apply in_app_iff in Hq' as [Hq'|[<-|[]]]; [now left | right; now left].
        -- exact B.
        -- intros _. apply C0. intros H. apply app_eq_nil in H as (_ & H). discriminate.
Qed.

Lemma trim_step_spec trimmed cand :
  trim_step trimmed cand <> [] /\ forall p, In p (trim_step trimmed cand) -> In p trimmed \/ p = cand.
Proof.
  unfold trim_step. pose proof (trim_inner_spec cand trimmed false []) as H. cbn zeta in H.
  destruct (trim_inner cand trimmed false []) as [drop keeper]. cbn [fst snd] in H. destruct H as (A & B & _).
  destruct drop.
  - split; [destruct (B eq_refl) as [H|H]; [discriminate | exact H]|].
    intros p Hp. destruct (A p Hp) as [[]|Hp']. now left.
  - split; [intros H; apply app_eq_nil in H as (_ & H); discriminate|].
    intros p Hp. apply in_app_iff in Hp as [Hp|[<-|[]]]; [|now right]. destruct (A p Hp) as [[]|Hp']. now left.
Qed.

Theorem trim_paths_spec paths : paths <> [] -> trim_paths paths <> [] /\ forall p, In p (trim_paths paths) -> In p paths.
Proof.
  unfold trim_paths.
  assert (Hg : forall ps acc, (forall p, In p (fold_left trim_step ps acc) -> In p acc \/ In p ps) /\
                              (ps <> [] -> fold_left trim_step ps acc <> [])).
  { induction ps as [|c0 ps IH]; intros acc; cbn [fold_left].
    - split; [auto | intros H; contradiction].
    - destruct (IH (trim_step acc c0)) as (A & B). destruct (trim_step_spec acc c0) as (T1 & T2). split.
      + intros p Hp. destruct (A p Hp) as [Hp'|Hp']; [|right; now right].
        destruct (T2 p Hp') as [Hq|Hq]; [now left | subst p; right; now left].
      + intros _. destruct ps as [|c1 ps]; [exact T1 | apply B; discriminate]. }
  intros Hne. destruct (Hg paths []) as (A & B). split; [now apply B|].
  intros p Hp. destruct (A p Hp) as [[]|Hp']. exact Hp'.
Qed.


(* ------------------------------------------------------------------ *)
(* the score of a 0 -> len path never overflows for buffers of up to 4000 symbols, whatever the
   frequencies (the frequency term saturates since fix 2d722b2) *)
Lemma gpath_edge_len from to p e : gpath from to p -> In e p -> 1 <= edge_len e.
Proof. intros Hp Hin. destruct (HE e (gpath_in _ _ _ _ Hp Hin)). unfold edge_len. lia. Qed.

Definition sum_len (p : path) : nat := fold_left (fun acc e => acc + edge_len e) p 0.

Lemma fold_add_shift (f : edge -> nat) : forall l a, fold_left (fun acc e => acc + f e) l a = a + fold_left (fun acc e => acc + f e) l 0.
Proof. induction l as [|x l IH]; intros a; cbn [fold_left]; [lia|]. rewrite IH, (IH (0 + f x)). lia. Qed.

Lemma sum_len_cons e p : sum_len (e :: p) = edge_len e + sum_len p.
Proof. unfold sum_len. cbn [fold_left]. rewrite fold_add_shift. lia. Qed.

Lemma length_le_sum_len p : (forall e, In e p -> 1 <= edge_len e) -> length p <= sum_len p.
Proof.
  induction p as [|e p IH]; intros H; [cbn; lia|]. rewrite sum_len_cons. cbn [length].
  specialize (H e (or_introl eq_refl)) as H1. assert (length p <= sum_len p) by (apply IH; intros x Hx; apply H; now right). lia.
Qed.

Lemma abs_diff_le a b : abs_diff a b <= a + b.
Proof. unfold abs_diff. lia. Qed.

Lemma lenvariance_bound : forall p, lenvariance_sum p <= length p * sum_len p.
Proof.
  induction p as [|e p IH]; [cbn; lia|]. cbn [lenvariance_sum length]. rewrite sum_len_cons.
  assert (H : fold_left (fun acc e' => acc + abs_diff (edge_len e) (edge_len e')) p 0 <= length p * edge_len e + sum_len p).
  { clear IH. induction p as [|x p IH]; [cbn; lia|]. cbn [fold_left length]. rewrite fold_add_shift, sum_len_cons.
    pose proof (abs_diff_le (edge_len e) (edge_len x)). nia. }
  nia.
Qed.

Lemma in_i32_intro z : (-2147483648 <= z <= 2147483647)%Z -> in_i32 z = true.
Proof. intros H. unfold in_i32, i32_min, i32_max. apply andb_true_iff. split; apply Z.leb_le; lia. Qed.

Theorem score_total p : gpath 0 len p -> len <= 4000 -> exists z, score p = Ok z.
Proof.
  intros Hp Hlen.
  assert (Hsum : sum_len p = len) by (unfold sum_len; rewrite (gpath_sum _ _ _ Hp); lia).
  assert (Hlp : length p <= len) by (rewrite <- Hsum; apply length_le_sum_len; intros e He; eapply gpath_edge_len; eauto).
  pose proof (lenvariance_bound p) as Hv. rewrite Hsum in Hv.
  unfold score. unfold rule_largest_sum. fold (sum_len p). rewrite Hsum.
  unfold mul_i32 at 1. rewrite in_i32_intro by lia. cbn [bind].
  unfold add_i32 at 1. rewrite in_i32_intro by lia. cbn [bind].
  assert (Ha : exists a, rule_largest_avgwordlen p = Ok a /\ (0 <= a <= 6 * Z.of_nat len)%Z).
  { unfold rule_largest_avgwordlen. destruct p as [|e p']; [exists 0%Z; split; [reflexivity | lia]|].
    rewrite in_i32_intro by lia. eexists. split; [reflexivity|]. unfold rule_largest_sum. fold (sum_len (e :: p')). rewrite Hsum.
    set (n := Z.of_nat (length (e :: p'))). assert (1 <= n)%Z by (unfold n; cbn [length]; lia).
    split; [apply Z.quot_pos; lia|]. rewrite Z.quot_div_nonneg by lia. apply Z.div_le_upper_bound; nia. }
  destruct Ha as (a & -> & Ha). cbn [bind].
  unfold mul_i32 at 1. rewrite in_i32_intro by lia. cbn [bind].
  unfold add_i32 at 1. rewrite in_i32_intro by lia. cbn [bind].
  unfold rule_smallest_lenvariance. rewrite in_i32_intro by nia. cbn [bind].
  unfold mul_i32 at 1. rewrite in_i32_intro by nia. cbn [bind].
  unfold add_i32 at 1. rewrite in_i32_intro by nia. cbn [bind]. eauto.
Qed.

Lemma with_scores_total : forall ps, allpaths ps -> len <= 4000 -> exists sp, with_scores ps = Ok sp /\ map snd sp = ps.
Proof.
  induction ps as [|p ps IH]; intros Ha Hl; cbn [with_scores]; [exists []; auto|].
  destruct (score_total p (Ha p (or_introl eq_refl)) Hl) as (z & ->). cbn [bind].
  destruct IH as (sp & -> & Hm); [intros q Hq; apply Ha; now right | exact Hl|]. cbn [bind].
  exists ((z, p) :: sp). cbn. now rewrite Hm.
Qed.

Lemma insert_by_score_perm x : forall l, Permutation (insert_by_score x l) (x :: l).
Proof.
  induction l as [|y l IH]; cbn [insert_by_score]; [reflexivity|]. destruct (Z.leb (fst y) (fst x)); [reflexivity|].
  rewrite IH. apply perm_swap.
Qed.

Lemma sort_by_score_perm : forall l, Permutation (sort_by_score l) l.
Proof. induction l as [|x l IH]; cbn; [reflexivity|]. now rewrite insert_by_score_perm, IH. Qed.

Section Ranked.
Variable sortu : list path -> list path.
Hypothesis sortu_perm : forall l, Permutation (sortu l) l.

(* find_k_paths + trim_paths + sort: total, non-empty, nothing but 0 -> len paths *)
Theorem ranked_paths_spec : (exists p, gpath 0 len p) -> len <= 4000 ->
  exists ps b, ranked_paths sortu len E = Ok (ps, b) /\ ps <> [] /\ allpaths ps.
Proof.
  intros Hex Hl. unfold ranked_paths.
  destruct (find_k_paths_spec sortu sortu_perm MAX_OUT_PATHS Hex) as (p0 & more & b & -> & _ & Ha). cbn [bind fst snd].
  destruct (trim_paths_spec (p0 :: more)) as (Tne & Tin); [discriminate|].
  assert (Hat : allpaths (trim_paths (p0 :: more))) by (intros q Hq; apply Ha, Tin, Hq).
  destruct (trim_paths (p0 :: more)) as [|t1 [|t2 ts]] eqn:Et; [contradiction | |].
  - exists [t1], b. split; [reflexivity|]. split; [discriminate | exact Hat].
  - destruct (with_scores_total _ Hat Hl) as (sp & -> & Hm). cbn [bind].
    exists (map snd (sort_by_score sp)), b. split; [reflexivity|].
    assert (Hperm : Permutation (map snd (sort_by_score sp)) (t1 :: t2 :: ts)) by (rewrite <- Hm; apply Permutation_map, sort_by_score_perm).
    split.
    + intros H. rewrite H in Hperm. apply Permutation_nil in Hperm. discriminate.
    + intros q Hq. apply Hat. eapply Permutation_in; eauto.
Qed.
End Ranked.

End Graph.

(* ------------------------------------------------------------------ *)
(* ChewingEngine::convert on the interval graph of a well-formed composition *)
From LC Require Import Proofs.CompositionProofs Proofs.ConversionProofs Proofs.GraphPath.

Section Convert.
Variable lookup : lookup_fn.
Hypothesis lookup_nil : lookup [] = [].
Variable spell : N -> list N.
Variable c : composition.
Hypothesis Wc : wf_comp c.

Let E := find_intervals spell lookup c.
Let len := clen c.

Lemma fbp_nil b : find_best_phrase spell lookup c b [] = None.
Proof.
  unfold find_best_phrase. cbn [length]. rewrite Nat.add_0_r.
  assert (E1 : has_break_inside c b 0 = false) by reflexivity. rewrite E1.
  assert (E2 : sel_conflicts c b b = false).
  { unfold sel_conflicts. apply not_true_iff_false. intros H. apply existsb_exists in H as (s & _ & H).
    apply andb_true_iff in H as (H & _). unfold intersect_range in H. apply Nat.ltb_lt in H. lia. }
  rewrite E2. cbn [existsb]. rewrite lookup_nil. cbn [pick_best].
  unfold forced_selection. destruct (find _ (selections c)) as [s|] eqn:Ef; [|reflexivity].
  apply find_some in Ef as (Hs & Hb). apply andb_true_iff in Hb as (H1 & H2). apply Nat.eqb_eq in H1, H2.
  destruct Wc as [_ Ws _ _]. rewrite Forall_forall in Ws. destruct (Ws s Hs). lia.
Qed.

Lemma graph_edge_inv g : In g E -> exists n p, g = mkEdge (eb g) (eb g + n) p /\ eb g < len /\ 1 <= n /\ eb g + n <= len /\
  find_best_phrase spell lookup c (eb g) (firstn n (skipn (eb g) (symbols c))) = Some p.
Proof.
  intros Hg. unfold E, find_intervals in Hg. apply in_flat_map in Hg as (b & Hb & Hg). apply in_seq in Hb.
  unfold edges_from in Hg. apply in_flat_map in Hg as (n & Hn & Hg). apply in_seq in Hn.
  destruct (find_best_phrase spell lookup c b (firstn n (skipn b (symbols c)))) as [p|] eqn:Ef; [|contradiction].
  destruct Hg as [<-|[]]. cbn [eb]. exists n, p. split; [reflexivity|]. split; [unfold len; lia|].
  destruct n as [|n]; [cbn [firstn] in Ef; rewrite fbp_nil in Ef; discriminate|].
  split; [lia|]. split; [unfold len; lia | exact Ef].
Qed.

Lemma graph_range g : In g E -> eb g < ee g <= len.
Proof. intros Hg. destruct (graph_edge_inv g Hg) as (n & p & -> & H1 & H2 & H3 & _). cbn [eb ee] in *. lia. Qed.

Lemma gpath_path_ok : forall p from, gpath E from len p -> path_ok E from len p = true.
Proof.
  induction p as [|e p IH]; intros from Hp; cbn [gpath path_ok] in *; [now apply Nat.eqb_eq|].
  destruct Hp as (H1 & H2 & H3). destruct (graph_range e H1) as (Hlt & _).
  apply andb_true_iff; split; [|now apply IH].
  apply andb_true_iff; split.
  - apply andb_true_iff; split; [now apply Nat.eqb_eq | now apply Nat.ltb_lt].
  - apply existsb_exists. exists e. split; [exact H1|]. now rewrite !Nat.eqb_refl, pphrase_eqb_refl.
Qed.

Lemma path_ok_gpath : forall p from, path_ok E from len p = true -> gpath E from len p.
Proof.
  induction p as [|e p IH]; intros from Hp; cbn [gpath path_ok] in *; [now apply Nat.eqb_eq|].
  apply andb_true_iff in Hp as [Hp H4]. apply andb_true_iff in Hp as [Hp H3]. apply andb_true_iff in Hp as [H1 H2].
  apply existsb_exists in H3 as (g & Hin & Hm).
  apply andb_true_iff in Hm as [Hm Hm3]. apply andb_true_iff in Hm as [Hm1 Hm2].
  apply Nat.eqb_eq in Hm1, Hm2, H1. apply pphrase_eqb_eq in Hm3.
  assert (e = g) as -> by (destruct e, g; simpl in *; subst; reflexivity).
  split; [exact Hin|]. split; [exact H1 | now apply IH].
Qed.

(* contiguity of the glue fold needs nothing but edges that run forward *)
Fixpoint rcont (e : nat) (acc : list interval) : Prop :=
  match acc with
  | [] => e = 0
  | iv :: r => ie iv = e /\ ib iv < ie iv /\ rcont (ib iv) r
  end.

Lemma glue_step_rcont acc e iv : rcont e acc -> ib iv = e -> ib iv < ie iv -> rcont (ie iv) (glue_step c acc iv).
Proof.
  intros Hr Hb Hlt. unfold glue_step. destruct acc as [|last rest].
  - cbn in *. repeat split; auto. congruence.
  - destruct Hr as (R1 & R2 & R3).
    assert (Hpush : rcont (ie iv) (iv :: last :: rest)) by (cbn; repeat split; auto; congruence).
    destruct (negb (iphrase last) || negb (iphrase iv)); [exact Hpush|].
    destruct (comp_gap c (ie last)) as [[| | |]|]; try exact Hpush.
    cbn. repeat split; auto. lia.
Qed.

Lemma fold_glue_rcont : forall ivs acc e e', rcont e acc -> contiguous e e' ivs = true ->
  rcont e' (fold_left (glue_step c) ivs acc).
Proof.
  induction ivs as [|iv ivs IH]; intros acc e e' Hr Hc; cbn [fold_left contiguous] in *.
  - apply Nat.eqb_eq in Hc. now subst.
  - apply andb_true_iff in Hc as [Hc H3]. apply andb_true_iff in Hc as [H1 H2]. apply Nat.eqb_eq in H1. apply Nat.ltb_lt in H2.
    apply (IH _ (ie iv) e'); [apply (glue_step_rcont acc e iv); assumption | exact H3].
Qed.

Lemma contiguous_app : forall l a b c0 l', contiguous a b l = true -> contiguous b c0 l' = true -> contiguous a c0 (l ++ l') = true.
Proof.
  induction l as [|iv l IH]; intros a b c0 l' H1 H2; cbn [contiguous app] in *.
  - apply Nat.eqb_eq in H1. now subst.
  - apply andb_true_iff in H1 as [H1 H3]. rewrite H1. cbn [andb]. eapply IH; eauto.
Qed.

Lemma rcont_rev : forall acc e, rcont e acc -> contiguous 0 e (rev acc) = true.
Proof.
  induction acc as [|iv acc IH]; intros e H; cbn [rcont rev contiguous] in *; [now apply Nat.eqb_eq|].
  destruct H as (H1 & H2 & H3). eapply contiguous_app; [apply IH; exact H3|].
  cbn [contiguous]. apply andb_true_iff; split; [|now apply Nat.eqb_eq].
  apply andb_true_iff; split; [apply Nat.eqb_refl | now apply Nat.ltb_lt].
Qed.

Lemma gpath_contiguous : forall p from, gpath E from len p -> contiguous from len (map edge_interval p) = true.
Proof.
  induction p as [|e p IH]; intros from Hp; cbn [gpath map contiguous] in *; [now apply Nat.eqb_eq|].
  destruct Hp as (H1 & H2 & H3). destruct (graph_range e H1) as (Hlt & _). cbn [edge_interval ib ie].
  apply andb_true_iff; split; [|now apply IH].
  apply andb_true_iff; split; [now apply Nat.eqb_eq | now apply Nat.ltb_lt].
Qed.

Lemma glue_path_contiguous p : gpath E 0 len p -> contiguous 0 len (glue_path c (map edge_interval p)) = true.
Proof.
  intros Hp. unfold glue_path. apply rcont_rev. eapply fold_glue_rcont; [reflexivity | now apply gpath_contiguous].
Qed.

Section WithSort.
Variable sortu : list path -> list path.
Hypothesis sortu_perm : forall l, Permutation (sortu l) l.

(* ChewingEngine::convert never panics, never runs out of fuel, returns at least one alternative, and every
   alternative is the glue-fold of a 0 -> len path of the interval graph (so C03's theorems about every
   path apply to every alternative) and tiles the buffer *)
Theorem chewing_convert_spec : len <= 4000 ->
  exists alts b, chewing_convert_x sortu spell lookup c = Ok (alts, b) /\ alts <> [] /\
    forall ivs, In ivs alts ->
      contiguous 0 len ivs = true /\
      (symbols c <> [] -> exists p, path_ok E 0 len p = true /\ ivs = glue_path c (map edge_interval p)).
Proof.
  intros Hl. unfold chewing_convert_x. destruct (symbols c) as [|s0 ss] eqn:Es.
  - exists [[]], false. split; [reflexivity|]. split; [discriminate|]. intros ivs [<-|[]].
    split; [unfold len, clen; rewrite Es; reflexivity | intros H; contradiction].
  - rewrite <- Es.
    destruct (graph_has_a_path lookup spell c Wc) as (p & Hp).
    destruct (ranked_paths_spec E len graph_range sortu sortu_perm) as (ps & b & Hr & Hne & Ha).
    + exists p. now apply path_ok_gpath.
    + exact Hl.
    + fold E len. rewrite Hr. cbn [bind fst snd]. eexists _, b. split; [reflexivity|]. split.
      * destruct ps; [contradiction | discriminate].
      * intros ivs Hin. apply in_map_iff in Hin as (q & <- & Hq). specialize (Ha q Hq).
        split; [now apply glue_path_contiguous|]. intros _. exists q. split; [now apply gpath_path_ok | reflexivity].
Qed.
End WithSort.

End Convert.

Lemma chewing_convert_x_nonempty sortu spell lookup c : symbols c <> [] ->
  chewing_convert_x sortu spell lookup c =
  bind (ranked_paths sortu (clen c) (find_intervals spell lookup c))
       (fun r => Ok (map (fun p => glue_path c (map edge_interval p)) (fst r), snd r)).
Proof. intros H. unfold chewing_convert_x. destruct (symbols c); [contradiction | reflexivity]. Qed.
