(* next_break_point / after_previous_break_point of the phrase selector: where they stop and
   that everything in between is a syllable.  Used by the selector invariant and its totality. *)
From Coq Require Import NArith List Bool Arith Lia.
From LC Require Import Base.Lib Model.Composition Model.Conversion Model.Editor.
Import ListNotations.
Open Scope nat_scope.

Definition syl_at (c : composition) (k : nat) : Prop := exists s, nth_error (symbols c) k = Some (SymSyl s).
Definition syl_range (c : composition) (b e : nat) : Prop := forall k, b <= k < e -> syl_at c k.

Lemma syl_range_sub c b e b' e' : syl_range c b e -> b <= b' -> e' <= e -> syl_range c b' e'.
Proof. intros H H1 H2 k Hk. apply H. lia. Qed.

Lemma syl_range_snoc c b e : syl_range c b e -> syl_at c e -> syl_range c b (S e).
Proof. intros H He k Hk. destruct (Nat.eq_dec k e) as [->|]; [exact He | apply H; lia]. Qed.

Lemma syl_range_empty c b : syl_range c b b.
Proof. intros k Hk. lia. Qed.

Lemma syl_at_dec c k : {syl_at c k} + {~ syl_at c k}.
Proof.
  unfold syl_at. destruct (nth_error (symbols c) k) as [[s|ch]|].
  - left. eauto.
  - right. intros (s & H). discriminate.
  - right. intros (s & H). discriminate.
Qed.

(* ---- next_break_point ---- *)
Lemma next_break_point_spec c : forall fuel cur, cur <= clen c -> clen c - cur < fuel ->
  let r := next_break_point c fuel cur in
  cur <= r <= clen c /\ syl_range c cur r /\ (r < clen c -> ~ syl_at c r).
Proof.
  induction fuel as [|k IH]; intros cur Hc Hf; [lia|]. cbn [next_break_point].
  destruct (Nat.eqb (clen c) cur) eqn:E.
  - apply Nat.eqb_eq in E. subst cur. repeat split; try lia. apply syl_range_empty.
  - apply Nat.eqb_neq in E. unfold comp_symbol.
    destruct (nth_error (symbols c) cur) as [[s|ch]|] eqn:En.
    + cbn [is_syllable negb]. destruct (IH (S cur) ltac:(lia) ltac:(lia)) as (H1 & H2 & H3).
      repeat split; try lia; [|exact H3].
      intros j Hj. destruct (Nat.eq_dec j cur) as [->|]; [exists s; exact En | apply H2; lia].
    + cbn [is_syllable negb]. repeat split; try lia; [apply syl_range_empty|].
      intros _ (s & Hs). congruence.
    + apply nth_error_None in En. unfold clen in *. lia.
Qed.

Lemma nbp_props c cur : cur <= clen c ->
  cur <= nbp c cur <= clen c /\ syl_range c cur (nbp c cur) /\ (nbp c cur < clen c -> ~ syl_at c (nbp c cur)).
Proof. intros H. unfold nbp. apply next_break_point_spec; lia. Qed.

Lemma nbp_gt c cur : cur < clen c -> syl_at c cur -> cur < nbp c cur.
Proof.
  intros Hc Hs. destruct (nbp_props c cur ltac:(lia)) as ((H1 & H2) & _ & H3).
  destruct (Nat.eq_dec (nbp c cur) cur) as [E|]; [|lia]. exfalso. rewrite E in H3. now apply H3.
Qed.

(* a range of syllables starting at b does not reach past the break point after b *)
Lemma nbp_max c b e : syl_range c b e -> b <= e <= clen c -> e <= nbp c b.
Proof.
  intros Hs He. destruct (nbp_props c b ltac:(lia)) as ((H1 & H2) & _ & H3).
  destruct (le_lt_dec e (nbp c b)) as [|Hlt]; [assumption|]. exfalso. apply H3; [lia|]. apply Hs. lia.
Qed.

(* ---- after_previous_break_point ---- *)
Lemma after_prev_break_point_spec c : forall fuel cur, cur < fuel -> cur <= clen c ->
  let r := after_prev_break_point c fuel cur in r <= cur /\ syl_range c r cur.
Proof.
  induction fuel as [|k IH]; intros cur Hf Hc; [lia|]. cbn [after_prev_break_point].
  destruct (Nat.eqb cur 0) eqn:E0.
  - apply Nat.eqb_eq in E0. subst. split; [lia | apply syl_range_empty].
  - apply Nat.eqb_neq in E0.
    destruct (existsb _ (selections c)); [split; [lia | apply syl_range_empty]|].
    assert (K : let x := match comp_symbol c (cur - 1) with
                         | Some s => if negb (is_syllable s) then cur else after_prev_break_point c k (cur - 1)
                         | None => after_prev_break_point c k (cur - 1)
                         end in x <= cur /\ syl_range c x cur).
    { unfold comp_symbol. destruct (nth_error (symbols c) (cur - 1)) as [[s|ch]|] eqn:En; cbn [is_syllable negb].
      - destruct (IH (cur - 1) ltac:(lia) ltac:(lia)) as (H1 & H2). split; [lia|].
        replace cur with (S (cur - 1)) at 2 by lia. apply syl_range_snoc; [exact H2 | exists s; exact En].
      - split; [lia | apply syl_range_empty].
      - apply nth_error_None in En. unfold clen in *. lia. }
    destruct (comp_gap c cur) as [[| | |]|]; try exact K. split; [lia | apply syl_range_empty].
Qed.

Lemma apbp_props c cur : cur <= clen c -> apbp c cur <= cur /\ syl_range c (apbp c cur) cur.
Proof. intros H. unfold apbp. apply after_prev_break_point_spec; lia. Qed.

(* ---- slices of syllable ranges ---- *)
Lemma nth_error_skipn0 {A} : forall b (l : list A), nth_error (skipn b l) 0 = nth_error l b.
Proof.
  induction b as [|b IH]; intros l; [reflexivity|]. destruct l as [|y l']; [reflexivity|]. cbn [skipn nth_error]. apply IH.
Qed.

Lemma slice_head_syl c b e : b < e <= clen c -> syl_at c b -> exists s l, slice (symbols c) b e = SymSyl s :: l.
Proof.
  intros (Hlt & Hle) (s & Hs). unfold slice, clen in *.
  destruct (skipn b (symbols c)) as [|x l] eqn:Ek.
  - assert (length (skipn b (symbols c)) = 0) by now rewrite Ek. rewrite skipn_length in H. lia.
  - assert (Hx : nth_error (skipn b (symbols c)) 0 = Some x) by now rewrite Ek.
    pose proof (nth_error_skipn0 b (symbols c)) as H.
    rewrite H, Hs in Hx. inversion Hx; subst. destruct (e - b) as [|n] eqn:En; [lia|]. cbn [firstn]. eauto.
Qed.

Lemma slice_single c b : b < clen c -> syl_at c b -> exists s, slice (symbols c) b (S b) = [SymSyl s].
Proof.
  intros Hb Hs. destruct (slice_head_syl c b (S b) ltac:(lia) Hs) as (s & l & H). exists s.
  assert (length (slice (symbols c) b (S b)) = 1).
  { unfold slice. rewrite firstn_length, skipn_length. unfold clen in Hb. lia. }
  rewrite H in *. destruct l; [reflexivity | cbn in H0; lia].
Qed.
