(* C08, last clause ("X becomes the default conversion of those syllables typed alone"), on the model of
   the engine's own path search (Model/Engine.v): when the interval graph has an edge that spans the whole
   buffer, ChewingEngine::convert returns exactly ONE alternative - that edge.
     - the breadth-first search from 0 meets the whole-range edge while it is still expanding node 0, so
       the first of the k shortest paths is that single edge;
     - every other 0 -> len path is contained in it, so trim_paths drops all of them;
     - a single remaining path is returned as it is.
   With Proofs/LearnProofs.v (the phrase with the strictly highest frequency owns that edge) this closes
   the clause for every number of syllables. *)
From Coq Require Import NArith ZArith List Bool Arith Lia Permutation.
From LC Require Import Base.Lib Model.Composition Model.Conversion Model.Engine
     Proofs.CompositionProofs Proofs.ConversionProofs Proofs.GraphPath Proofs.EngineProofs.
Import ListNotations.
Open Scope nat_scope.

(* ---- two operational facts about one node's edge loop ---- *)
Section Edges.
Variable len : nat.
Variable es0 : list edge.

Lemma bfs_edges_from : forall es parent queue p' q' brk,
  bfs_edges len [] es parent queue = Ok (p', q', brk) ->
  (forall e, In e es -> In e es0) ->
  (forall x e, nth_error parent x = Some (Some e) -> In e es0) ->
  forall x e, nth_error p' x = Some (Some e) -> In e es0.
Proof.
  induction es as [|e rest IH]; intros parent queue p' q' brk H Hes Hpar; cbn [bfs_edges] in H.
  - inversion H; subst. exact Hpar.
  - apply bind_ok in H as (i & _ & H). cbn [is_removed existsb] in H.
    destruct (nth_error parent (ee e)) as [slot|] eqn:Hslot; [|discriminate].
    set (pq := match slot with None => (set_at (ee e) (Some e) parent, queue ++ [ee e]) | Some _ => (parent, queue) end) in H.
    assert (Hpar1 : forall x e0, nth_error (fst pq) x = Some (Some e0) -> In e0 es0).
    { destruct slot as [e1|]; cbn; [exact Hpar|]. intros x e0 H0.
      destruct (Nat.eq_dec (ee e) x) as [<-|Hne].
      - rewrite nth_error_set_at_eq in H0 by (apply nth_error_Some; congruence). inversion H0; subst. apply Hes. now left.
      - rewrite nth_error_set_at_neq in H0 by exact Hne. eapply Hpar; eauto. }
    destruct (Nat.eqb (ee e) len).
    + inversion H; subst. exact Hpar1.
    + eapply IH; [exact H | intros e0 H0; apply Hes; now right | exact Hpar1].
Qed.

Lemma bfs_edges_breaks : forall es parent queue p' q' brk,
  bfs_edges len [] es parent queue = Ok (p', q', brk) ->
  (exists e, In e es /\ ee e = len) -> brk = true.
Proof.
  induction es as [|e rest IH]; intros parent queue p' q' brk H (e1 & Hin & Hee); [contradiction|].
  cbn [bfs_edges] in H. apply bind_ok in H as (i & _ & H). cbn [is_removed existsb] in H.
  destruct (nth_error parent (ee e)) as [slot|] eqn:Hslot; [|discriminate].
  destruct (Nat.eqb (ee e) len) eqn:Hend.
  - now inversion H.
  - apply Nat.eqb_neq in Hend. destruct Hin as [->|Hin]; [contradiction|]. eapply IH; eauto.
Qed.
End Edges.

Section Default.
Variable lookup : lookup_fn.
Hypothesis lookup_nil : lookup [] = [].
Variable spell : N -> list N.
Variable c : composition.
Hypothesis Wc : wf_comp c.

Let E := find_intervals spell lookup c.
Let len := clen c.
Hypothesis Hlen : 1 <= len.

(* the whole buffer is one edge of the graph *)
Variable p0 : pphrase.
Hypothesis Hwhole : find_best_phrase spell lookup c 0 (symbols c) = Some p0.

Let e0 := mkEdge 0 len p0.

Lemma firstn_whole : firstn len (skipn 0 (symbols c)) = symbols c.
Proof. cbn [skipn]. apply firstn_all. Qed.

Lemma e0_in : In e0 E.
Proof.
  unfold e0. replace len with (0 + len) at 1 by lia. apply edge_in_graph; [exact Hlen | lia|]. now rewrite firstn_whole.
Qed.

Lemma e0_unique g : In g E -> eb g = 0 -> ee g = len -> g = e0.
Proof.
  intros Hg Hb He. destruct (graph_edge_inv lookup lookup_nil spell c Wc g Hg) as (n & p & Hgeq & _ & _ & _ & Hf).
  rewrite Hgeq in He. cbn [ee] in He. rewrite Hb in *. assert (n = len) by lia. subst n.
  fold len in Hf. rewrite firstn_whole, Hwhole in Hf. inversion Hf; subst p. rewrite Hgeq. reflexivity.
Qed.

Let HE := graph_range lookup lookup_nil spell c Wc.

(* the breadth-first search from 0: the whole-range edge is met while node 0 is expanded *)
Lemma first_path_is_e0 : shortest_path (G E len) [] 0 len = Ok (Some [e0]).
Proof.
  unfold shortest_path. cbn [bfs_loop]. rewrite nth_error_G. replace (Nat.ltb 0 len) with true by (symmetry; apply Nat.ltb_lt; lia).
  set (es := filter (fun e => Nat.eqb (eb e) 0) E).
  assert (Hes : forall e, In e es -> In e E /\ eb e = 0).
  { intros e He. apply filter_In in He as (H1 & H2). apply Nat.eqb_eq in H2. auto. }
  destruct (bfs_edges_spec E len HE [] 0 (Nat.le_0_l len) es (repeat None (S len)) [] 0 Hes) as (p' & q' & brk & H1 & H2 & _).
  - apply Pinv_init.
  - now left.
  - lia.
  - rewrite H1. cbn [bind].
    assert (brk = true) as ->.
    { eapply bfs_edges_breaks; [exact H1|]. exists e0. split; [|reflexivity]. apply filter_In. split; [apply e0_in | reflexivity]. }
    cbn [bind]. destruct H2 as (HPl & HPe).
    assert (Hfrom : forall x e, nth_error p' x = Some (Some e) -> In e es).
    { eapply bfs_edges_from; [exact H1 | auto|]. intros x e H. exfalso.
      assert (Hin : In (Some e) (repeat None (S len))) by (eapply nth_error_In; eauto). apply repeat_spec in Hin. discriminate. }
    destruct (bfs_edges_spec E len HE [] 0 (Nat.le_0_l len) es (repeat None (S len)) [] 0 Hes) as (p2 & q2 & brk2 & K1 & _ & _ & _ & _ & K6 & _);
      [apply Pinv_init | now left | lia|].
    rewrite H1 in K1. inversion K1; subst p2 q2 brk2. destruct (K6 eq_refl) as (e & He).
    destruct (Hes e (Hfrom _ _ He)) as (HinE & Heb). destruct (HPe _ _ He) as (_ & Hee & _).
    assert (e = e0) as -> by (apply e0_unique; assumption).
    cbn [walk_back]. replace (Nat.eqb len 0) with false by (symmetry; apply Nat.eqb_neq; lia). rewrite He.
    cbn [eb e0]. destruct len; reflexivity.
Qed.

(* every path of the graph is contained in the whole-range edge *)
Lemma e0_contains : forall q from, gpath E from len q -> path_contains [e0] q = true.
Proof.
  induction q as [|s q IH]; intros from Hq; cbn [path_contains gpath] in *; [reflexivity|].
  destruct Hq as (H1 & H2 & H3). destruct (HE s H1) as (Hlt & Hle).
  cbn [advance_big].
  destruct (Nat.ltb (eb e0) (ee s)) eqn:A; [|apply Nat.ltb_ge in A; unfold e0 in A; cbn [eb] in A; lia].
  destruct (edge_contains e0 s) eqn:B; [eapply IH; eauto|]. exfalso. unfold edge_contains in B.
  apply andb_false_iff in B as [B|B]; apply Nat.leb_gt in B; unfold e0 in B; cbn [eb ee] in B; lia.
Qed.

Lemma trim_to_e0 : forall more, (forall q, In q more -> gpath E 0 len q) -> fold_left trim_step more [[e0]] = [[e0]].
Proof.
  induction more as [|q more IH]; intros Hm; cbn [fold_left]; [reflexivity|].
  replace (trim_step [[e0]] q) with [[e0]]; [apply IH; intros r Hr; apply Hm; now right|].
  unfold trim_step. cbn [trim_inner orb]. rewrite (e0_contains q 0 (Hm q (or_introl eq_refl))). reflexivity.
Qed.

Section WithSort.
Variable sortu : list path -> list path.
Hypothesis sortu_perm : forall l, Permutation (sortu l) l.

Theorem whole_range_edge_is_the_only_alternative :
  exists b, chewing_convert_x sortu spell lookup c = Ok ([[edge_interval e0]], b).
Proof.
  assert (Hx := chewing_convert_x_nonempty sortu spell lookup c).
  rewrite Hx by (intros Hnil; unfold len, clen in Hlen; rewrite Hnil in Hlen; cbn in Hlen; lia).
  fold E len. unfold ranked_paths.
  destruct (find_k_paths_spec E len HE sortu sortu_perm MAX_OUT_PATHS) as (p1 & more & b & Hk & Hsp & Ha).
  - exists [e0]. cbn. split; [apply e0_in|]. split; reflexivity.
  - rewrite Hk. cbn [bind fst snd].
    assert (Hp1 : p1 = [e0]) by (rewrite first_path_is_e0 in Hsp; now inversion Hsp). rewrite Hp1 in *. clear Hp1.
    assert (Ht : trim_paths ([e0] :: more) = [[e0]]).
    { unfold trim_paths. cbn [fold_left]. replace (trim_step [] [e0]) with [[e0]] by reflexivity.
      apply trim_to_e0. intros q Hq. apply Ha. now right. }
    unfold path in *. rewrite Ht. cbn [bind fst snd map]. exists b. reflexivity.
Qed.
End WithSort.

End Default.

(* ---- the phrase that leads its homophones is the default conversion of its syllables typed alone ---- *)
From LC Require Import Gen.Editor_gen Model.Editor Proofs.LearnProofs.

Theorem leader_is_the_default (sortu : list path -> list path) (lookup : lookup_fn) (spell : N -> list N) (c : composition) (x : phrase) :
  (forall l, Permutation (sortu l) l) -> lookup [] = [] -> wf_comp c ->
  1 <= clen c -> selections c = [] -> existsb is_char (symbols c) = false ->
  (forall k, comp_gap c k <> Some GBreak) ->
  In x (lookup (symbols c)) -> NoDup (lookup (symbols c)) ->
  (forall q, In q (lookup (symbols c)) -> q <> x -> (snd q < snd x)%N) ->
  exists b, chewing_convert_x sortu spell lookup c = Ok ([[mkIv 0 (clen c) true (fst x)]], b).
Proof.
  intros Hperm Hnil Wc Hlen Hsel Hchars Hbrk Hin Hnd Hlead.
  assert (Hw : find_best_phrase spell lookup c 0 (symbols c) = Some (PPhrase (fst x) (snd x))).
  { unfold find_best_phrase. change (0 + length (symbols c)) with (clen c). change (length (symbols c)) with (clen c).
    assert (E1 : has_break_inside c 0 (clen c) = false).
    { unfold has_break_inside. apply not_true_iff_false. intros H. apply existsb_exists in H as (i & _ & H).
      specialize (Hbrk i). destruct (comp_gap c i) as [[| | |]|]; try discriminate. now apply Hbrk. }
    rewrite E1. unfold sel_conflicts. rewrite Hsel. cbn [existsb].
    rewrite (not_char_pattern (symbols c) (Some (PSym (SymChar 0%N)))) by exact Hchars. rewrite Hchars.
    pose proof (pick_best_takes_the_leader c 0 (clen c) Hsel (lookup (symbols c)) None 0%N x Hin Hlead Hnd eq_refl (or_intror eq_refl)) as Hpb.
    unfold phrase in *. rewrite Hpb.
    reflexivity. }
  destruct (whole_range_edge_is_the_only_alternative lookup Hnil spell c Wc Hlen _ Hw sortu Hperm) as (b & Hb).
  exists b. rewrite Hb. reflexivity.
Qed.
