(* The in-memory dictionary instance used by the correspondence check satisfies
   the dictionary hypotheses of the editor theorems (non-vacuity). *)
From Coq Require Import NArith List Bool Arith Lia.
From LC Require Import Base.Lib Model.Composition Model.Conversion Model.Editor Model.EdInst.
Import ListNotations.
Open Scope nat_scope.

Definition entry_key (e : dentry) : list N := let '(k, _, _, _) := e in k.
Definition md_ok (d : memdict) : Prop :=
  Forall (fun e => entry_key e <> []) (md_sys d) /\ Forall (fun e => entry_key e <> []) (md_user d).

Lemma text_eqb_nil_l k : text_eqb [] k = true -> k = [].
Proof. destruct k; cbn; [reflexivity | discriminate]. Qed.

Lemma tb_lookup_nil entries g : Forall (fun e => entry_key e <> []) entries -> tb_lookup entries g [] = [].
Proof.
  induction 1 as [|e l He Hl IH]; cbn [tb_lookup flat_map]; [reflexivity|].
  fold (tb_lookup l g []). rewrite IH. destruct e as [[[k t] f] tm]. cbn [entry_key] in He.
  destruct (text_eqb [] k) eqn:E; [apply text_eqb_nil_l in E; contradiction | reflexivity].
Qed.

Lemma md_ok_lookup d f : md_ok d -> do_lookup md_ops d f [] = [].
Proof.
  intros [Hs Hu]. cbn [do_lookup md_ops]. unfold md_lookup.
  rewrite (tb_lookup_nil _ _ Hu), (tb_lookup_nil _ _ Hs). reflexivity.
Qed.

Lemma bt_insert_forall (P : dentry -> Prop) e : forall l, P e -> Forall P l -> Forall P (bt_insert e l).
Proof.
  induction l as [|x l IH]; intros He Hl; cbn [bt_insert]; [repeat constructor; assumption|].
  destruct e as [[[k t] f] tm]. destruct x as [[[k' t'] f'] tm'].
  inversion Hl as [|x' l' Hx Hl']; subst.
  destruct (key_compare k t k' t'); constructor; auto.
Qed.

Lemma md_ok_add d k t f : md_ok d -> length t <= length k -> md_ok (fst (do_add md_ops d k t f)).
Proof.
  intros [Hs Hu] Hlen. cbn [do_add md_ops]. unfold md_add. destruct t as [|c t]; [split; assumption|].
  destruct (existsb _ _); cbn [fst]; [split; assumption|].
  split; cbn [md_sys md_user]; [assumption|]. apply bt_insert_forall; [|assumption].
  cbn [entry_key]. destruct k; cbn [length] in Hlen; [lia | discriminate].
Qed.

Lemma md_ok_update d k t f u tm : md_ok d -> length t = length k -> k <> [] -> md_ok (do_update md_ops d k t f u tm).
Proof.
  intros [Hs Hu] Hlen Hk. cbn [do_update md_ops]. unfold md_update. destruct t; [split; assumption|].
  split; cbn [md_sys md_user]; [assumption|]. apply bt_insert_forall; assumption.
Qed.

Lemma md_ok_remove d k t : md_ok d -> md_ok (do_remove md_ops d k t).
Proof.
  intros [Hs Hu]. cbn [do_remove md_ops]. unfold md_remove. split; cbn [md_sys md_user]; [assumption|].
  unfold bt_remove. rewrite Forall_forall in *. intros x Hx. apply filter_In in Hx as [Hx _]. now apply Hu.
Qed.

(* a concrete non-trivial dictionary meeting md_ok *)
Example md_ok_example :
  md_ok (mkMD [([2560%N], [20007%N], 2004%N, 0%N); ([2560%N; 6275%N], [19976%N; 20007%N], 5%N, 0%N)] [] []).
Proof. split; repeat constructor; discriminate. Qed.
