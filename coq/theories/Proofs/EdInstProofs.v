(* The in-memory dictionary instance used by the correspondence check satisfies
   the dictionary hypotheses of the editor theorems (non-vacuity). *)
From Coq Require Import NArith List Bool Arith Lia.
From LC Require Import Base.Lib Gen.Editor_gen Model.Composition Model.Conversion Model.Editor Model.EdInst.
Import ListNotations.
Open Scope nat_scope.

Definition entry_key (e : dentry) : list N := let '(k, _, _, _) := e in k.
Definition md_ok (d : memdict) : Prop :=
  Forall (fun e => entry_key e <> []) (md_sys d) /\ Forall (fun e => entry_key e <> []) (md_user d).

Lemma text_eqb_nil_l k : text_eqb [] k = true -> k = [].
Proof. destruct k; cbn; [reflexivity | discriminate]. Qed.

Lemma tb_lookup_nil entries g : Forall (fun e => entry_key e <> []) entries -> tb_lookup entries g [] = [].
Proof.
  induction 1 as [|e l He Hl IH]; cbn [tb_lookup flat_map]; [reflexivity|].
  fold (tb_lookup l g []). rewrite IH. destruct e as [[[k t] f] tm]. cbn [entry_key] in He.
  destruct (text_eqb [] k) eqn:E; [apply text_eqb_nil_l in E; contradiction | reflexivity].
Qed.

Lemma md_ok_lookup d f : md_ok d -> do_lookup md_ops d f [] = [].
Proof.
  intros [Hs Hu]. cbn [do_lookup md_ops]. unfold md_lookup.
  rewrite (tb_lookup_nil _ _ Hu), (tb_lookup_nil _ _ Hs). reflexivity.
Qed.

Lemma bt_insert_forall (P : dentry -> Prop) e : forall l, P e -> Forall P l -> Forall P (bt_insert e l).
Proof.
  induction l as [|x l IH]; intros He Hl; cbn [bt_insert]; [repeat constructor; assumption|].
  destruct e as [[[k t] f] tm]. destruct x as [[[k' t'] f'] tm'].
  inversion Hl as [|x' l' Hx Hl']; subst.
  destruct (key_compare k t k' t'); constructor; auto.
Qed.

Lemma md_ok_add d k t f : md_ok d -> length t <= length k -> (f <= 100)%N -> md_ok (fst (do_add md_ops d k t f)).
Proof.
  intros [Hs Hu] Hlen _. cbn [do_add md_ops]. unfold md_add. destruct t as [|c t]; [split; assumption|].
  destruct (existsb _ _); cbn [fst]; [split; assumption|].
  split; cbn [md_sys md_user]; [assumption|]. apply bt_insert_forall; [|assumption].
  cbn [entry_key]. destruct k; cbn [length] in Hlen; [lia | discriminate].
Qed.

Lemma md_ok_update d k t f u tm : md_ok d -> length t = length k -> k <> [] -> (u <= MAX_USER_FREQ)%N -> md_ok (do_update md_ops d k t f u tm).
Proof.
  intros [Hs Hu] Hlen Hk _. cbn [do_update md_ops]. unfold md_update. destruct t; [split; assumption|].
  split; cbn [md_sys md_user]; [assumption|]. apply bt_insert_forall; assumption.
Qed.

Lemma md_ok_remove d k t : md_ok d -> md_ok (do_remove md_ops d k t).
Proof.
  intros [Hs Hu]. cbn [do_remove md_ops]. unfold md_remove. split; cbn [md_sys md_user]; [assumption|].
  unfold bt_remove. rewrite Forall_forall in *. intros x Hx. apply filter_In in Hx as [Hx _]. now apply Hu.
Qed.

(* a concrete non-trivial dictionary meeting md_ok *)
Example md_ok_example :
  md_ok (mkMD [([2560%N], [20007%N], 2004%N, 0%N); ([2560%N; 6275%N], [19976%N; 20007%N], 5%N, 0%N)] [] []).
Proof. split; repeat constructor; discriminate. Qed.

(* ---- the stronger well-formedness the totality theorem (C01) needs: no empty phrase.  The frequencies are
   ANY numbers (every u32 is a legal frequency in a dictionary file): the engine's sum and the estimate's
   addition saturate (fixes 2d722b2 and the one of estimate.rs) ---- *)
Definition entry_fine (e : dentry) : Prop :=
  let '(k, t, f, _) := e in k <> [] /\ t <> [].
Definition md_fine (d : memdict) : Prop := Forall entry_fine (md_sys d) /\ Forall entry_fine (md_user d).

Lemma md_fine_ok d : md_fine d -> md_ok d.
Proof.
  intros [Hs Hu]. split; (eapply Forall_impl; [|eassumption]); intros [[[k t] f] tm] (H & _); exact H.
Qed.

Lemma md_fine_add d k t f : md_fine d -> length t <= length k -> (f <= 100)%N -> md_fine (fst (do_add md_ops d k t f)).
Proof.
  intros [Hs Hu] Hlen Hf. cbn [do_add md_ops]. unfold md_add. destruct t as [|c t]; [split; assumption|].
  destruct (existsb _ _); cbn [fst]; [split; assumption|].
  split; cbn [md_sys md_user]; [assumption|]. apply bt_insert_forall; [|assumption].
  cbn [entry_fine]. split; [destruct k; cbn [length] in Hlen; [lia | discriminate] | discriminate].
Qed.

Lemma md_fine_update d k t f u tm : md_fine d -> length t = length k -> k <> [] -> (u <= MAX_USER_FREQ)%N ->
  md_fine (do_update md_ops d k t f u tm).
Proof.
  intros [Hs Hu] Hlen Hk Hb. cbn [do_update md_ops]. unfold md_update. destruct t; [split; assumption|].
  split; cbn [md_sys md_user]; [assumption|]. apply bt_insert_forall; [|assumption].
  cbn [entry_fine]. split; [assumption | discriminate].
Qed.

Lemma md_fine_remove d k t : md_fine d -> md_fine (do_remove md_ops d k t).
Proof.
  intros [Hs Hu]. cbn [do_remove md_ops]. unfold md_remove. split; cbn [md_sys md_user]; [assumption|].
  unfold bt_remove. rewrite Forall_forall in *. intros x Hx. apply filter_In in Hx as [Hx _]. now apply Hu.
Qed.

Definition phrase_fine (p : phrase) : Prop := fst p <> [].

Lemma tb_lookup_fine entries g k : Forall entry_fine entries -> Forall phrase_fine (tb_lookup entries g k).
Proof.
  intros H. unfold tb_lookup. apply Forall_forall. intros p Hp. apply in_flat_map in Hp as ([[[k' t] f] tm] & Hin & Hp).
  rewrite Forall_forall in H. specialize (H _ Hin). cbn [entry_fine] in H. destruct H as (_ & Ht).
  destruct (text_eqb k k' && negb (in_grave g k t)); [|contradiction]. destruct Hp as [<-|[]]. exact Ht.
Qed.

Lemma merge_phrase_fine p : phrase_fine p -> forall acc, Forall phrase_fine acc -> Forall phrase_fine (merge_phrase acc p).
Proof.
  intros Hp. induction acc as [|q acc IH]; intros H; cbn [merge_phrase]; [constructor; [exact Hp | constructor]|].
  inversion H as [|x l Hq Hacc]; subst. destruct (text_eqb (fst q) (fst p)).
  - constructor; [destruct (N.ltb (snd q) (snd p)); assumption | assumption].
  - constructor; [assumption | now apply IH].
Qed.

Lemma md_lookup_fine d f k : md_fine d -> Forall phrase_fine (do_lookup md_ops d f k).
Proof.
  intros [Hs Hu]. cbn [do_lookup md_ops]. unfold md_lookup.
  pose proof (tb_lookup_fine (md_user d) (md_grave d) k Hu) as HU. pose proof (tb_lookup_fine (md_sys d) [] k Hs) as HS.
  revert HS. generalize (tb_lookup (md_sys d) [] k). induction HU as [|p l Hp Hl IH]; intros acc HS; cbn [fold_left]; [exact HS|].
  apply IH. now apply merge_phrase_fine.
Qed.

Lemma md_fine_text d f k p : md_fine d -> In p (do_lookup md_ops d f k) -> fst p <> [].
Proof. intros H Hin. pose proof (md_lookup_fine d f k H) as F. rewrite Forall_forall in F. exact (F _ Hin). Qed.

Example md_fine_example :
  md_fine (mkMD [([2560%N], [20007%N], 2004%N, 0%N); ([2560%N; 6275%N], [19976%N; 20007%N], 5%N, 0%N)] [([2560%N], [20013%N], 7%N, 3%N)] []).
Proof. split; repeat constructor; try discriminate; reflexivity. Qed.

(* ---- the same facts for the dictionary whose system layer is a trie file (mdf_ops: capi cases) ---- *)
Lemma tbf_lookup_in entries k p : In p (tbf_lookup entries k) ->
  exists k' tm, In (k', fst p, snd p, tm) entries /\ syls_match k' k = true.
Proof.
  unfold tbf_lookup. intros H. apply in_map_iff in H as ([[[k' t] f] tm] & <- & Hin).
  apply filter_In in Hin as (Hin & Hm). exists k', tm. cbn [fst snd]. split; assumption.
Qed.

Lemma syls_match_nil k' : syls_match k' [] = true -> k' = [].
Proof. destruct k'; cbn; [reflexivity | discriminate]. Qed.

Lemma tbf_lookup_nil entries : Forall (fun e => entry_key e <> []) entries -> tbf_lookup entries [] = [].
Proof.
  intros H. destruct (tbf_lookup entries []) as [|p l] eqn:E; [reflexivity|]. exfalso.
  assert (Hin : In p (tbf_lookup entries [])) by (rewrite E; now left).
  apply tbf_lookup_in in Hin as (k' & tm & Hin & Hm). apply syls_match_nil in Hm. subst k'.
  rewrite Forall_forall in H. exact (H _ Hin eq_refl).
Qed.

Lemma mdf_ok_lookup d f : md_ok d -> do_lookup mdf_ops d f [] = [].
Proof.
  intros [Hs Hu]. cbn [do_lookup mdf_ops]. unfold mdf_lookup. destruct f.
  - rewrite (tb_lookup_nil _ _ Hu), (tbf_lookup_nil _ Hs). reflexivity.
  - unfold md_lookup. rewrite (tb_lookup_nil _ _ Hu), (tb_lookup_nil _ _ Hs). reflexivity.
Qed.

Lemma tbf_lookup_fine entries k : Forall entry_fine entries -> Forall phrase_fine (tbf_lookup entries k).
Proof.
  intros H. apply Forall_forall. intros p Hp. apply tbf_lookup_in in Hp as (k' & tm & Hin & _).
  rewrite Forall_forall in H. specialize (H _ Hin). cbn [entry_fine] in H. destruct H as (_ & Ht). exact Ht.
Qed.

Lemma mdf_lookup_fine d f k : md_fine d -> Forall phrase_fine (do_lookup mdf_ops d f k).
Proof.
  intros Hd. cbn [do_lookup mdf_ops]. unfold mdf_lookup. destruct f; [|exact (md_lookup_fine d false k Hd)].
  destruct Hd as [Hs Hu].
  pose proof (tb_lookup_fine (md_user d) (md_grave d) k Hu) as HU. pose proof (tbf_lookup_fine (md_sys d) k Hs) as HS.
  assert (HA : Forall phrase_fine (tbf_lookup (md_sys d) k ++ tb_lookup (md_user d) (md_grave d) k)) by (apply Forall_app; now split).
  assert (H0 : Forall phrase_fine (@nil phrase)) by constructor.
  revert H0. generalize (@nil phrase). induction HA as [|p l Hp Hl IH]; intros acc H0; cbn [fold_left]; [exact H0|].
  apply IH. now apply merge_phrase_fine.
Qed.

Lemma mdf_fine_text d f k p : md_fine d -> In p (do_lookup mdf_ops d f k) -> fst p <> [].
Proof. intros H Hin. pose proof (mdf_lookup_fine d f k H) as F. rewrite Forall_forall in F. exact (F _ Hin). Qed.

(* add / update / remove are the same functions for both instances *)
Lemma mdf_fine_add d k t f : md_fine d -> length t <= length k -> (f <= 100)%N -> md_fine (fst (do_add mdf_ops d k t f)).
Proof. exact (md_fine_add d k t f). Qed.
Lemma mdf_fine_update d k t f u tm : md_fine d -> length t = length k -> k <> [] -> (u <= MAX_USER_FREQ)%N ->
  md_fine (do_update mdf_ops d k t f u tm).
Proof. exact (md_fine_update d k t f u tm). Qed.
Lemma mdf_fine_remove d k t : md_fine d -> md_fine (do_remove mdf_ops d k t).
Proof. exact (md_fine_remove d k t). Qed.
