(* C06 through the C API: with nothing being composed (editing state, empty pre-edit buffer) the thirteen named
   key functions chewing_handle_Enter / Esc / Tab / Backspace / Del / Left / Right / Up / Down / Home / End /
   PageUp / PageDown - on every keyboard layout, with any modifier bits - return with
   chewing_keystroke_CheckIgnore = 1, commit nothing and leave the context as it was.  The named functions map
   the key code through the keyboard layout (Model/Keyboard.map_keycode: swept over all keyboards x these codes x
   all modifier sets: the code is kept). *)
From Coq Require Import NArith ZArith List Bool String Lia.
From LC Require Model.Keyboard.
From LC Require Import Base.Lib Gen.Keyboard_gen Gen.Capi_gen Gen.Editor_gen Model.Composition Model.Conversion Model.Editor
     Model.EditorRun Model.EdInst Model.CapiKeys Model.CapiConfig Model.CapiRun
     Proofs.CompositionProofs Proofs.EdInstProofs Proofs.EditorInv Proofs.NoPanic Proofs.KeyboardProofs
     Proofs.EditorFrames Proofs.CapiKeysProofs Proofs.CapiInv.
Import ListNotations.

Definition chk_named_code (kb : N) : bool :=
  forallb (fun code => forall_below 16 (fun mods =>
    match Keyboard.map_keycode kb code mods with
    | Ok ev => N.eqb (Keyboard.ev_code ev) code
    | _ => false
    end)) passthrough_codes.

Lemma named_code_sweep : forall_below n_keyboard chk_named_code = true.
Proof. vm_compute. reflexivity. Qed.

Lemma named_key_code kb code mods : (kb < n_keyboard)%N -> In code passthrough_codes -> (mods < 16)%N ->
  exists ev, Keyboard.map_keycode kb code mods = Ok ev /\ Keyboard.ev_code ev = code.
Proof.
  intros Hkb Hin Hm.
  pose proof (forall_below_true _ _ named_code_sweep kb Hkb) as H. unfold chk_named_code in H.
  rewrite forallb_forall in H. specialize (H code Hin).
  apply forall_below_true with (i := mods) in H; [|exact Hm].
  destruct (Keyboard.map_keycode kb code mods) as [ev| | |]; try discriminate.
  apply N.eqb_eq in H. eauto.
Qed.

Section CapiPassthrough.
Variable conv : conv_fn memdict.
Variable ss0 : symbol_sel.
Notation CI := (CInv ss0).

Lemma process_keyevent_last (e : medl) k e' b : process_keyevent mdf_ops lay_ops conv e k = Ok (e', b) -> last (sh e') = b.
Proof.
  intros H. unfold process_keyevent in H. cbv zeta in H.
  match type of H with obind ?r ?f = _ => destruct r as [[s2 st2]| | |]; cbn [obind] in H; try discriminate end.
  match type of H with obind ?r ?f = _ => destruct r as [s3| | |]; cbn [obind] in H; try discriminate end.
  injection H as <- <-. reflexivity.
Qed.

Theorem c_passthrough_when_idle c code mods :
  CI c -> In code passthrough_codes -> (mods < 16)%N ->
  st (cx_ed c) = Entering -> chewing_buffer_Len c = 0%Z ->
  exists c', cstep conv c (CHandle code mods) = Ok c' /\
    chewing_keystroke_CheckIgnore c' = 1%Z /\ chewing_keystroke_CheckAbsorb c' = 0%Z /\ chewing_commit_Check c' = 0%Z /\
    persist_eq (sh (cx_ed c')) (sh (cx_ed c)) /\ st (cx_ed c') = st (cx_ed c) /\
    cx_kb c' = cx_kb c /\ cx_kbcompat c' = cx_kbcompat c /\ cx_sel c' = cx_sel c /\
    chewing_buffer_Len c' = 0%Z /\ chewing_cursor_Current c' = chewing_cursor_Current c.
Proof.
  intros Hc Hin Hm Hst Hlen. pose proof Hc as [[[W _ _ _] _] Hk].
  destruct (named_key_code (cx_kb c) code mods Hk Hin Hm) as (ev & Hev & Hcode).
  cbn [cstep]. unfold handle_code. rewrite Hev. unfold press, ml_key.
  assert (He : ce_is_empty (com (sh (cx_ed c))) = true).
  { unfold chewing_buffer_Len, flag, c_flags in Hlen. cbn [List.nth] in Hlen. unfold ce_is_empty. apply Nat.eqb_eq. lia. }
  assert (Hcur : (cursor (com (sh (cx_ed c))) <= ce_len (com (sh (cx_ed c))))%nat) by (destruct W as [_ Hcu]; unfold ce_len in *; lia).
  assert (Hin' : In (kcode (of_key_event ev)) passthrough_codes) by (cbn [of_key_event kcode]; now rewrite Hcode).
  destruct (passthrough_when_idle mdf_ops lay_ops conv (cx_ed c) (of_key_event ev) Hst He Hcur Hin') as (e' & He').
  rewrite He'. eexists. split; [reflexivity|]. cbn [fst].
  destruct (ignore_changes_nothing mdf_ops lay_ops conv _ _ _ He') as (Hp & Hs & Hcb).
  pose proof (process_keyevent_last _ _ _ _ He') as Hl.
  pose proof Hp as (Hcom & _).
  unfold chewing_keystroke_CheckIgnore, chewing_keystroke_CheckAbsorb, chewing_commit_Check, chewing_buffer_Len,
         chewing_cursor_Current, flag, c_flags in *. cbn [List.nth cx_ed with_ed cx_kb cx_kbcompat cx_sel] in *.
  rewrite Hl, Hcb, Hcom. cbn. repeat split; try assumption; try apply Hp.
Qed.

End CapiPassthrough.
