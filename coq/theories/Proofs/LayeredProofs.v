(* Lemmas about Model/Layered.v: the merged result over arbitrary layers, and the
   concrete stack system Tries + user TrieBuf along a history. *)
From Coq Require Import NArith List Bool Lia Permutation.
From LC Require Import Base.Lib Model.Dict Model.TrieBuf Model.Layered
  Proofs.DictProofs Proofs.TrieProofs Proofs.TrieBufProofs.
Import ListNotations.
Open Scope N_scope.

Lemma merge_all ls : layered_merge ls USIZE_MAX = dedup (concat ls).
Proof. reflexivity. Qed.

Lemma in_concat_iff {A} (ls : list (list A)) x : In x (concat ls) <-> exists l, In l ls /\ In x l.
Proof. rewrite in_concat. split; intros [l H]; exists l; tauto. Qed.

(* one entry per phrase *)
Lemma merge_NoDup ls : NoDup (texts (layered_merge ls USIZE_MAX)).
Proof. rewrite merge_all. apply dedup_NoDup. Qed.

(* the union of the layers *)
Lemma merge_union ls p :
  In p (texts (layered_merge ls USIZE_MAX)) <-> exists l, In l ls /\ In p (texts l).
Proof.
  rewrite merge_all, dedup_texts_In. unfold texts. rewrite in_map_iff. split.
  - intros [x [<- Hx]]. apply in_concat_iff in Hx as [l [Hl Hx]]. exists l. split; [assumption | now apply in_map].
  - intros [l [Hl Hp]]. apply in_map_iff in Hp as [x [<- Hx]]. exists x. split; [reflexivity|].
    apply in_concat_iff. eauto.
Qed.

(* every entry is an entry of some layer and carries the highest frequency of its phrase *)
Lemma merge_max ls x :
  In x (layered_merge ls USIZE_MAX) ->
  (exists l, In l ls /\ In x l) /\
  (forall l q, In l ls -> In q l -> ph_text q = ph_text x -> ph_freq q <= ph_freq x).
Proof.
  rewrite merge_all. intro Hx. split.
  - apply in_concat_iff. now apply dedup_In.
  - intros l q Hl Hq Ht. apply (dedup_max (concat ls) x q); auto. apply in_concat_iff. eauto.
Qed.

(* in order of first appearance *)
Lemma merge_order ls : texts (layered_merge ls USIZE_MAX) = first_occurrences (texts (concat ls)).
Proof. rewrite merge_all. apply dedup_texts. Qed.

(* first n of the full result *)
Lemma merge_first_n ls n : layered_merge ls n = truncate_usize n (layered_merge ls USIZE_MAX).
Proof. reflexivity. Qed.

(* ---- the concrete stack ---- *)

(* the ops Layered forwards to its user dictionary: an empty phrase is dropped *)
Definition forwarded (o : op) : bool :=
  match o with
  | OAdd _ ph => negb (is_nil (ph_text ph))
  | OUpdate _ p _ _ _ => negb (is_nil p)
  | _ => true
  end.

Lemma ly_step_user d o :
  ly_user (fst (ly_step fixed d o)) = if forwarded o then fst (tb_step fixed (ly_user d) o) else ly_user d.
Proof.
  destruct o as [k ph|k p f0 uf t|k p|k n st| | |w]; cbn [ly_step forwarded tb_step].
  - destruct (is_nil (ph_text ph)); cbn [negb fst]; [reflexivity|].
    destruct (tb_add fixed (ly_user d) k ph). reflexivity.
  - destruct (is_nil p); reflexivity.
  - reflexivity.
  - reflexivity.
  - reflexivity.
  - reflexivity.
  - reflexivity.
Qed.

Lemma ly_step_sys d o : ly_sys (fst (ly_step fixed d o)) = ly_sys d.
Proof.
  destruct o as [k ph|k p f0 uf t|k p|k n st| | |w]; cbn [ly_step]; try reflexivity.
  - destruct (is_nil (ph_text ph)); [reflexivity|]. destruct (tb_add fixed (ly_user d) k ph). reflexivity.
  - destruct (is_nil p); reflexivity.
Qed.

Lemma ly_run_fst d ops : fst (ly_run fixed d ops) = fold_left (fun st o => fst (ly_step fixed st o)) ops d.
Proof.
  revert d. induction ops as [|o ops IH]; intro d; cbn [ly_run fold_left]; [reflexivity|].
  destruct (ly_step fixed d o) as [d1 r] eqn:E1. destruct (ly_run fixed d1 ops) as [d2 rs] eqn:E2.
  cbn [fst]. rewrite <- IH, E2. reflexivity.
Qed.

Lemma ly_run_user d ops :
  ly_user (fst (ly_run fixed d ops)) = fst (tb_run fixed (ly_user d) (filter forwarded ops)) /\
  ly_sys (fst (ly_run fixed d ops)) = ly_sys d.
Proof.
  rewrite ly_run_fst, tb_run_fst_app. revert d.
  induction ops as [|o ops IH]; intro d; cbn [fold_left filter]; [split; reflexivity|].
  destruct (IH (fst (ly_step fixed d o))) as [H1 H2]. rewrite H1, H2, ly_step_user, ly_step_sys.
  destruct (forwarded o); cbn [fold_left]; split; reflexivity.
Qed.

(* the Standard lookup of the stack: layer results are the leaves of the system Tries and the
   live phrases of the user map *)
Lemma ly_results_std d k :
  Forall trie_wf (ly_sys d) ->
  ly_results fixed d k Standard =
  map (fun t => trie_leaf t k) (ly_sys d) ++ [tb_lookup fixed (ly_user d) k USIZE_MAX Standard].
Proof.
  intro Hw. unfold ly_results. f_equal. apply map_ext_in. intros t Ht.
  rewrite Forall_forall in Hw. apply trie_lookup_std. now apply Hw.
Qed.
