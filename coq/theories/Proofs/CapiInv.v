(* What the C getters report after ANY sequence of C calls (Model/CapiRun.v): the context invariant of
   CapiKeysProofs is kept by every call, and it says about chewing_cursor_Current / chewing_buffer_Len /
   chewing_cand_TotalPage / ChoicePerPage / TotalChoice / CurrentPage / chewing_cand_Enumerate what C05 and C07
   state about the editor.  The getters are the projections c_flags / c_cand_enumerate of Model/CapiKeys.v (the
   correspondence compares them with the real functions after every call of a capi case). *)
From Coq Require Import NArith ZArith List Bool String Lia.
From LC Require Model.Keyboard.
From LC Require Import Base.Lib Gen.Keyboard_gen Gen.Capi_gen Gen.Editor_gen Model.Composition Model.Conversion Model.Editor
     Model.EditorRun Model.EdInst Model.CapiKeys Model.CapiConfig Model.CapiRun
     Proofs.CompositionProofs Proofs.EdInstProofs Proofs.EditorInv Proofs.EditorSelect Proofs.Paging Proofs.NoPanic
     Proofs.EditorFrames Proofs.CapiKeysProofs.
Import ListNotations.

(* the getters, by their C names *)
Definition flag (k : nat) (c : cctx) : Z := List.nth k (c_flags c) 0%Z.
Definition chewing_commit_Check := flag 0.
Definition chewing_buffer_Len := flag 2.
Definition chewing_cursor_Current := flag 4.
Definition chewing_cand_CheckDone := flag 5.
Definition chewing_cand_TotalPage := flag 6.
Definition chewing_cand_ChoicePerPage := flag 7.
Definition chewing_cand_TotalChoice := flag 8.
Definition chewing_cand_CurrentPage := flag 9.
Definition chewing_keystroke_CheckIgnore := flag 12.
Definition chewing_keystroke_CheckAbsorb := flag 13.

Section CapiInv.
Variable conv : conv_fn memdict.
Hypothesis conv_tiles : forall d k c n, md_fine d -> wf_comp c -> contiguous 0 (clen c) (conv d k c n) = true.
Variable ss0 : symbol_sel.
Hypothesis ss0_good : ss_good ss0.
Hypothesis ss0_fresh : ss_cursor ss0 = None.

Notation CI := (CInv ss0).

Theorem crun_inv : forall ops c c', Forall cop_fine ops -> CI c -> crun conv c ops = Ok c' -> CI c'.
Proof.
  induction ops as [|o rest IH]; intros c c' Hops Hc H; cbn [crun] in H; [inversion H; subst; exact Hc|].
  inversion Hops as [|x l Ho Hrest]; subst.
  destruct (cstep_ok conv conv_tiles ss0 ss0_good ss0_fresh c o Ho Hc) as (_ & K).
  destruct (cstep conv c o) as [c1| | |] eqn:Es; try discriminate. eapply IH; [exact Hrest | now apply K | exact H].
Qed.

(* C05 through the C getters: 0 <= chewing_cursor_Current <= chewing_buffer_Len *)
Theorem cinv_cursor c : CI c -> (0 <= chewing_cursor_Current c <= chewing_buffer_Len c)%Z.
Proof.
  intros [[[W _ _ _] _] _]. unfold chewing_cursor_Current, chewing_buffer_Len, flag, c_flags. cbn [List.nth].
  destruct W as [_ Hc]. unfold ce_len in *. lia.
Qed.

Lemma candidates_ok (s : shared memdict lay) sel : sel_inv ss0 s sel -> exists l, candidates mdf_ops lay_ops s sel = Ok l.
Proof.
  intros Hsel. pose proof (fine_candidates mdf_ops lay_ops ss0 s sel Hsel) as F.
  destruct (candidates mdf_ops lay_ops s sel) as [l|x| |] eqn:E; try contradiction; [eauto|].
  exfalso. destruct sel as [p|y|sym]; cbn [candidates] in E.
  - repeat match type of E with
           | (if ?b then _ else _) = _ => destruct b
           | match ?x with _ => _ end = _ => destruct x
           end; discriminate.
  - discriminate.
  - destruct sym; discriminate.
Qed.

(* C07 through the C getters, while a list is open (chewing_cand_CheckDone = 0): the page size is at least 1, the
   page count is the ceiling of the total over the page size, the current page is below the page count (page 0
   of an empty list), and chewing_cand_Enumerate walks exactly the candidates from the current page on *)
Theorem cinv_paging c : CI c -> chewing_cand_CheckDone c = 0%Z ->
  (1 <= chewing_cand_ChoicePerPage c)%Z /\
  chewing_cand_TotalPage c = ((chewing_cand_TotalChoice c + chewing_cand_ChoicePerPage c - 1) / chewing_cand_ChoicePerPage c)%Z /\
  ((0 < chewing_cand_TotalChoice c)%Z -> (0 <= chewing_cand_CurrentPage c < chewing_cand_TotalPage c)%Z) /\
  (chewing_cand_TotalChoice c = 0%Z -> chewing_cand_CurrentPage c = 0%Z) /\
  Z.of_nat (List.length (c_cand_enumerate c)) = (chewing_cand_TotalChoice c - chewing_cand_CurrentPage c * chewing_cand_ChoicePerPage c)%Z.
Proof.
  intros [[[W _ _ Hper] Hst] _] Hdone.
  unfold chewing_cand_CheckDone, chewing_cand_ChoicePerPage, chewing_cand_TotalPage, chewing_cand_TotalChoice,
         chewing_cand_CurrentPage, flag, c_cand_enumerate, c_flags in *. cbn [List.nth] in *.
  unfold ml_total_page, ml_candidates, ed_total_page, ed_all_candidates, ed_page_no, is_selecting_b in *.
  destruct (st (cx_ed c)) as [| |pg act sel| ] eqn:Est; cbn [negb bz] in Hdone; try discriminate.
  cbn [state_inv] in Hst. destruct Hst as (Hsel & Hpg & _).
  destruct (candidates_ok (sh (cx_ed c)) sel Hsel) as (l & Hl).
  unfold total_page. rewrite Hl. cbn [obind]. unfold div_ceil.
  set (per := o_per_page (opts (sh (cx_ed c)))) in *.
  destruct (Nat.eqb per 0) eqn:E0; [apply Nat.eqb_eq in E0; lia|]. cbn [obind].
  specialize (Hpg Hper l Hl). fold per in Hpg.
  assert (Hdiv : Z.of_nat ((List.length l + per - 1) / per) = ((Z.of_nat (List.length l) + Z.of_nat per - 1) / Z.of_nat per)%Z).
  { rewrite Nat2Z.inj_div. f_equal. lia. }
  split; [lia|]. split; [exact Hdiv|]. split; [|split].
  - intros Hpos. split; [lia|].
    assert (Hlt : pg < pages_of (List.length l) per).
    { apply page_index_valid; [lia|]. destruct Hpg as [->|Hlt]; [destruct l; cbn in *; lia | exact Hlt]. }
    unfold pages_of in Hlt. lia.
  - intros Hz. assert (List.length l = 0) by lia. destruct Hpg as [->|Hlt]; [reflexivity | lia].
  - rewrite skipn_length. destruct Hpg as [->|Hlt]; [cbn; lia | nia].
Qed.

(* C02 through the C getters: after a key-entry call (chewing_handle_* / Default / CtrlNum / Numlock with any int)
   chewing_commit_Check = 1 only together with the key result Commit - then neither chewing_keystroke_CheckIgnore
   nor chewing_keystroke_CheckAbsorb is set *)
Definition key_call (o : cop) : Prop :=
  match o with CHandle _ _ | CDefault _ | CCtrlNum _ | CNumlock _ => True | _ => False end.

Lemma press_commit c ev c' : press conv c ev = Ok c' -> commit_buf (sh (cx_ed c')) <> [] -> last (sh (cx_ed c')) = BCommit.
Proof.
  unfold press, ml_key. destruct ev as [ev| | |]; try discriminate.
  destruct (process_keyevent mdf_ops lay_ops conv (cx_ed c) (of_key_event ev)) as [[e b]| | |] eqn:E; try discriminate.
  intros H Hne. inversion H; subst c'; clear H. cbn [cx_ed with_ed fst] in *.
  pose proof (commit_string_only_with_commit mdf_ops lay_ops conv _ _ _ _ E Hne) as Hb. subst b.
  unfold process_keyevent in E. cbv zeta in E.
  match type of E with obind ?r ?f = _ => destruct r as [[s2 st2]| | |]; cbn [obind] in E; try discriminate end.
  match type of E with obind ?r ?f = _ => destruct r as [s3| | |]; cbn [obind] in E; try discriminate end.
  inversion E; subst. reflexivity.
Qed.

Theorem c_commit_check_only_with_commit c o c' : key_call o -> cstep conv c o = Ok c' ->
  (* chewing_handle_CtrlNum with a key that is no digit returns -1 and handles nothing *)
  c' = c \/
  (chewing_commit_Check c' = 1%Z ->
   chewing_keystroke_CheckIgnore c' = 0%Z /\ chewing_keystroke_CheckAbsorb c' = 0%Z /\ c_commit_string c' <> []).
Proof.
  intros Hk H.
  assert (G : commit_buf (sh (cx_ed c')) <> [] -> last (sh (cx_ed c')) = BCommit ->
              chewing_commit_Check c' = 1%Z ->
              chewing_keystroke_CheckIgnore c' = 0%Z /\ chewing_keystroke_CheckAbsorb c' = 0%Z /\ c_commit_string c' <> []).
  { intros Hne Hl _. unfold chewing_keystroke_CheckIgnore, chewing_keystroke_CheckAbsorb, flag, c_flags, c_commit_string. cbn [List.nth].
    rewrite Hl. cbn. repeat split; exact Hne. }
  assert (Hne : chewing_commit_Check c' = 1%Z -> commit_buf (sh (cx_ed c')) <> []).
  { intros Hc. unfold chewing_commit_Check, flag, c_flags in Hc. cbn [List.nth] in Hc.
    destruct (commit_buf (sh (cx_ed c'))); [cbn in Hc; discriminate | discriminate]. }
  destruct o as [code mods|key|key|key| | | | | | | | | | | | | |]; try contradiction; cbn [cstep] in H.
  - right. intros Hc. apply G; [now apply Hne | eapply press_commit; [exact H | now apply Hne] | exact Hc].
  - right. intros Hc. apply G; [now apply Hne | eapply press_commit; [exact H | now apply Hne] | exact Hc].
  - unfold handle_ctrlnum, drop_rc in H. destruct ((48 <=? u8_of key)%N && (u8_of key <=? 57)%N).
    + unfold handle_code in H.
      destruct (press conv c (Keyboard.map_keycode (cx_kb c) (if (u8_of key =? 48)%N then kcN0 else (u8_of key - 48)%N) MOD_CTRL)) as [c1| | |] eqn:E;
        try discriminate. inversion H; subst c'. right. intros Hc.
      apply G; [now apply Hne | eapply press_commit; [exact E | now apply Hne] | exact Hc].
    + inversion H; subst c'. now left.
  - right. intros Hc. apply G; [now apply Hne | eapply press_commit; [exact H | now apply Hne] | exact Hc].
Qed.

End CapiInv.
