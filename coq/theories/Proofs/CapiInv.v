(* What the C getters report after ANY sequence of C calls (Model/CapiRun.v): the context invariant of
   CapiKeysProofs is kept by every call, and it says about chewing_cursor_Current / chewing_buffer_Len /
   chewing_cand_TotalPage / ChoicePerPage / TotalChoice / CurrentPage / chewing_cand_Enumerate what C05 and C07
   state about the editor.  The getters are the projections c_flags / c_cand_enumerate of Model/CapiKeys.v (the
   correspondence compares them with the real functions after every call of a capi case). *)
From Coq Require Import NArith ZArith List Bool String Lia.
From LC Require Model.Keyboard.
From LC Require Import Base.Lib Gen.Keyboard_gen Gen.Capi_gen Gen.Editor_gen Model.Composition Model.Conversion Model.Editor
     Model.EditorRun Model.EdInst Model.CapiKeys Model.CapiConfig Model.CapiRun
     Proofs.CompositionProofs Proofs.EdInstProofs Proofs.EditorInv Proofs.EditorSelect Proofs.Paging Proofs.NoPanic
     Proofs.CapiKeysProofs.
Import ListNotations.

(* the getters, by their C names *)
Definition flag (k : nat) (c : cctx) : Z := List.nth k (c_flags c) 0%Z.
Definition chewing_buffer_Len := flag 2.
Definition chewing_cursor_Current := flag 4.
Definition chewing_cand_CheckDone := flag 5.
Definition chewing_cand_TotalPage := flag 6.
Definition chewing_cand_ChoicePerPage := flag 7.
Definition chewing_cand_TotalChoice := flag 8.
Definition chewing_cand_CurrentPage := flag 9.

Section CapiInv.
Variable conv : conv_fn memdict.
Hypothesis conv_tiles : forall d k c n, md_fine d -> wf_comp c -> contiguous 0 (clen c) (conv d k c n) = true.
Variable ss0 : symbol_sel.
Hypothesis ss0_good : ss_good ss0.
Hypothesis ss0_fresh : ss_cursor ss0 = None.

Notation CI := (CInv ss0).

Theorem crun_inv : forall ops c c', Forall cop_fine ops -> CI c -> crun conv c ops = Ok c' -> CI c'.
Proof.
  induction ops as [|o rest IH]; intros c c' Hops Hc H; cbn [crun] in H; [inversion H; subst; exact Hc|].
  inversion Hops as [|x l Ho Hrest]; subst.
  destruct (cstep_ok conv conv_tiles ss0 ss0_good ss0_fresh c o Ho Hc) as (_ & K).
  destruct (cstep conv c o) as [c1| | |] eqn:Es; try discriminate. eapply IH; [exact Hrest | now apply K | exact H].
Qed.

(* C05 through the C getters: 0 <= chewing_cursor_Current <= chewing_buffer_Len *)
Theorem cinv_cursor c : CI c -> (0 <= chewing_cursor_Current c <= chewing_buffer_Len c)%Z.
Proof.
  intros [[[W _ _ _] _] _]. unfold chewing_cursor_Current, chewing_buffer_Len, flag, c_flags. cbn [List.nth].
  destruct W as [_ Hc]. unfold ce_len in *. lia.
Qed.

Lemma candidates_ok (s : shared memdict lay) sel : sel_inv ss0 s sel -> exists l, candidates mdf_ops lay_ops s sel = Ok l.
Proof.
  intros Hsel. pose proof (fine_candidates mdf_ops lay_ops ss0 s sel Hsel) as F.
  destruct (candidates mdf_ops lay_ops s sel) as [l|x| |] eqn:E; try contradiction; [eauto|].
  exfalso. destruct sel as [p|y|sym]; cbn [candidates] in E.
  - repeat match type of E with
           | (if ?b then _ else _) = _ => destruct b
           | match ?x with _ => _ end = _ => destruct x
           end; discriminate.
  - discriminate.
  - destruct sym; discriminate.
Qed.

(* C07 through the C getters, while a list is open (chewing_cand_CheckDone = 0): the page size is at least 1, the
   page count is the ceiling of the total over the page size, the current page is below the page count (page 0
   of an empty list), and chewing_cand_Enumerate walks exactly the candidates from the current page on *)
Theorem cinv_paging c : CI c -> chewing_cand_CheckDone c = 0%Z ->
  (1 <= chewing_cand_ChoicePerPage c)%Z /\
  chewing_cand_TotalPage c = ((chewing_cand_TotalChoice c + chewing_cand_ChoicePerPage c - 1) / chewing_cand_ChoicePerPage c)%Z /\
  ((0 < chewing_cand_TotalChoice c)%Z -> (0 <= chewing_cand_CurrentPage c < chewing_cand_TotalPage c)%Z) /\
  (chewing_cand_TotalChoice c = 0%Z -> chewing_cand_CurrentPage c = 0%Z) /\
  Z.of_nat (List.length (c_cand_enumerate c)) = (chewing_cand_TotalChoice c - chewing_cand_CurrentPage c * chewing_cand_ChoicePerPage c)%Z.
Proof.
  intros [[[W _ _ Hper] Hst] _] Hdone.
  unfold chewing_cand_CheckDone, chewing_cand_ChoicePerPage, chewing_cand_TotalPage, chewing_cand_TotalChoice,
         chewing_cand_CurrentPage, flag, c_cand_enumerate, c_flags in *. cbn [List.nth] in *.
  unfold ml_total_page, ml_candidates, ed_total_page, ed_all_candidates, ed_page_no, is_selecting_b in *.
  destruct (st (cx_ed c)) as [| |pg act sel| ] eqn:Est; cbn [negb bz] in Hdone; try discriminate.
  cbn [state_inv] in Hst. destruct Hst as (Hsel & Hpg & _).
  destruct (candidates_ok (sh (cx_ed c)) sel Hsel) as (l & Hl).
  unfold total_page. rewrite Hl. cbn [obind]. unfold div_ceil.
  set (per := o_per_page (opts (sh (cx_ed c)))) in *.
  destruct (Nat.eqb per 0) eqn:E0; [apply Nat.eqb_eq in E0; lia|]. cbn [obind].
  specialize (Hpg Hper l Hl). fold per in Hpg.
  assert (Hdiv : Z.of_nat ((List.length l + per - 1) / per) = ((Z.of_nat (List.length l) + Z.of_nat per - 1) / Z.of_nat per)%Z).
  { rewrite Nat2Z.inj_div. f_equal. lia. }
  split; [lia|]. split; [exact Hdiv|]. split; [|split].
  - intros Hpos. split; [lia|].
    assert (Hlt : pg < pages_of (List.length l) per).
    { apply page_index_valid; [lia|]. destruct Hpg as [->|Hlt]; [destruct l; cbn in *; lia | exact Hlt]. }
    unfold pages_of in Hlt. lia.
  - intros Hz. assert (List.length l = 0) by lia. destruct Hpg as [->|Hlt]; [reflexivity | lia].
  - rewrite skipn_length. destruct Hpg as [->|Hlt]; [cbn; lia | nia].
Qed.

End CapiInv.
