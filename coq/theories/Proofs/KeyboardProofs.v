(* Proofs about Model/Keyboard.v on the generated keyboard tables (C14 part c; the
   lemmas are reusable by C16 / C18).  All domains are finite and swept completely. *)
From Coq Require Import NArith List Bool Lia.
From LC Require Import Base.Lib Gen.Keyboard_gen Model.Keyboard.
Import ListNotations.
Open Scope N_scope.

Definition is_ok {A} (o : outcome A) : bool := match o with Ok _ => true | _ => false end.

Lemma is_ok_true {A} (o : outcome A) : is_ok o = true -> exists a, o = Ok a.
Proof. destruct o; cbn; intro H; try discriminate. eauto. Qed.

(* ---- table shape: every array has MATRIX_SIZE entries, every KeyCode occurs in
        every KEYCODE_INDEX (so .expect("invalid keycode") cannot fire) ---- *)
Definition kb_tables_ok_b : bool :=
  (len_N index_map =? MATRIX_SIZE) &&
  forallb (fun i => i <? n_keyindex) index_map &&
  forallb (fun e =>
    let '(_, (ki, um, sm)) := e in
    (len_N ki =? MATRIX_SIZE) && (len_N um =? MATRIX_SIZE) && (len_N sm =? MATRIX_SIZE) &&
    forall_below n_keycode (fun c => match position ki c with Some _ => true | None => false end)) keyboard_tables &&
  forall_below n_keyboard (fun kb => table_keyboard kb || (kb =? kb_DvorakOnQwerty)).

Lemma kb_tables_ok : kb_tables_ok_b = true.
Proof. vm_cast_no_check (eq_refl true). Qed.

(* ---- map_with_mod is total on all key codes x all modifier combinations and
        yields enum values ---- *)
Definition chk_map_keycode (kb : N) : bool :=
  forall_below n_keycode (fun code =>
  forall_below 16 (fun mods =>
    match map_keycode kb code mods with
    | Ok ev => valid_event_b ev && (ev_mods ev =? mods)
    | _ => false
    end)).

Lemma map_keycode_sweep : forall_below n_keyboard chk_map_keycode = true.
Proof. vm_cast_no_check (eq_refl true). Qed.

Lemma map_keycode_total kb code mods :
  kb < n_keyboard -> code < n_keycode -> mods < 16 ->
  exists ev, map_keycode kb code mods = Ok ev /\ valid_event_b ev = true /\ ev_mods ev = mods.
Proof.
  intros Hkb Hc Hm.
  pose proof (forall_below_true _ _ map_keycode_sweep kb Hkb) as H. unfold chk_map_keycode in H.
  apply forall_below_true with (i := code) in H; [|exact Hc].
  apply forall_below_true with (i := mods) in H; [|exact Hm].
  destruct (map_keycode kb code mods) as [ev| | |]; try discriminate.
  apply andb_true_iff in H as [Hv He]. apply N.eqb_eq in He. eauto.
Qed.

(* ---- map_ascii / map_ascii_numlock are total on all 256 byte values ---- *)
Definition chk_map_ascii (kb : N) : bool :=
  forall_below 256 (fun c =>
    match map_ascii kb c with Ok ev => valid_event_b ev | _ => false end &&
    match map_ascii_numlock kb c with Ok ev => valid_event_b ev | _ => false end).

Lemma map_ascii_sweep : forall_below n_keyboard chk_map_ascii = true.
Proof. vm_cast_no_check (eq_refl true). Qed.

Lemma map_ascii_total kb c :
  kb < n_keyboard -> c < 256 ->
  (exists ev, map_ascii kb c = Ok ev /\ valid_event_b ev = true) /\
  (exists ev, map_ascii_numlock kb c = Ok ev /\ valid_event_b ev = true).
Proof.
  intros Hkb Hc.
  pose proof (forall_below_true _ _ map_ascii_sweep kb Hkb) as H. unfold chk_map_ascii in H.
  apply forall_below_true with (i := c) in H; [|exact Hc].
  apply andb_true_iff in H as [H1 H2].
  destruct (map_ascii kb c) as [ev| | |]; try discriminate.
  destruct (map_ascii_numlock kb c) as [ev'| | |]; try discriminate.
  split; eauto.
Qed.

(* ---- printable ASCII -> key event -> character is the identity on every keyboard
        that does not remap keys ---- *)
Definition chk_ascii_identity (kb : N) : bool :=
  negb (table_keyboard kb) ||
  forall_below 127 (fun c =>
    (c <? 32) || match map_ascii kb c with Ok ev => ev_unicode ev =? c | _ => false end).

Lemma ascii_identity_sweep : forall_below n_keyboard chk_ascii_identity = true.
Proof. vm_cast_no_check (eq_refl true). Qed.

Lemma ascii_identity kb c :
  kb < n_keyboard -> table_keyboard kb = true -> 32 <= c <= 126 ->
  exists ev, map_ascii kb c = Ok ev /\ ev_unicode ev = c.
Proof.
  intros Hkb Ht Hc.
  pose proof (forall_below_true _ _ ascii_identity_sweep kb Hkb) as H. unfold chk_ascii_identity in H.
  rewrite Ht in H. cbn [negb orb] in H.
  apply forall_below_true with (i := c) in H; [|lia].
  destruct (N.ltb_spec c 32) as [Hlt|_]; [lia|]. cbn [orb] in H.
  destruct (map_ascii kb c) as [ev| | |]; try discriminate.
  apply N.eqb_eq in H. eauto.
Qed.

(* the keyboards that do not remap keys are all but DvorakOnQwerty *)
Lemma table_keyboards kb : kb < n_keyboard -> table_keyboard kb = negb (kb =? kb_DvorakOnQwerty).
Proof.
  intros Hkb.
  assert (H : forall_below n_keyboard (fun kb => Bool.eqb (table_keyboard kb) (negb (kb =? kb_DvorakOnQwerty))) = true)
    by (vm_cast_no_check (eq_refl true)).
  apply forall_below_true with (i := kb) in H; [|exact Hkb]. now apply Bool.eqb_prop in H.
Qed.

(* DvorakOnQwerty does remap: the key labelled q produces an apostrophe *)
Lemma dvorak_on_qwerty_remaps :
  exists ev, map_ascii kb_DvorakOnQwerty 113 = Ok ev /\ ev_unicode ev = 39 /\ ev_code ev = kcQuote.
Proof. eexists. vm_compute. repeat split. Qed.
