(* Proofs about Model/Loader.v and Model/LegacySqlite.v (C19): the migration is
   complete and free of duplicates, a second start-up is the identity, legacy
   stores come back unchanged, learned phrases are kept. *)
From Coq Require Import NArith ZArith List Bool Lia.
From LC Require Import Base.Lib Gen.Uhash_gen Model.Utf8Dfa Model.Uhash Model.LegacySqlite Model.Loader
  Proofs.Utf8DfaProofs Proofs.UhashProofs.
Import ListNotations.
Open Scope N_scope.

(* ------------------------------------------------------------------ *)
(* the map *)

Lemma ukey_eqb_spec a b : ukey_eqb a b = true <-> a = b.
Proof.
  unfold ukey_eqb. destruct a as [s1 p1], b as [s2 p2]. cbn [fst snd].
  rewrite andb_true_iff, !list_eqb_N_spec. split.
  - intros [-> ->]. reflexivity.
  - intros E. inversion E. auto.
Qed.

Lemma ukey_eqb_refl a : ukey_eqb a a = true.
Proof. now apply ukey_eqb_spec. Qed.

Lemma ukey_eqb_neq a b : a <> b -> ukey_eqb a b = false.
Proof. intros H. destruct (ukey_eqb a b) eqn:E; [apply ukey_eqb_spec in E; contradiction | reflexivity]. Qed.

Lemma lookup_update_same d k v : dict_lookup (dict_update d k v) k = Some v.
Proof.
  induction d as [|[k' v'] d IH]; cbn [dict_update dict_lookup].
  - now rewrite ukey_eqb_refl.
  - destruct (ukey_eqb k k') eqn:E; cbn [dict_lookup]; [now rewrite ukey_eqb_refl | now rewrite E].
Qed.

Lemma lookup_update_other d k v k' : k' <> k -> dict_lookup (dict_update d k v) k' = dict_lookup d k'.
Proof.
  intros Hne. induction d as [|[k0 v0] d IH]; cbn [dict_update dict_lookup].
  - now rewrite ukey_eqb_neq.
  - destruct (ukey_eqb k k0) eqn:E; cbn [dict_lookup].
    + apply ukey_eqb_spec in E. subst k0. now rewrite !(ukey_eqb_neq k' k).
    + now rewrite IH.
Qed.

Lemma update_fresh d k v : ~ In k (map fst d) -> dict_update d k v = d ++ [(k, v)].
Proof.
  induction d as [|[k' v'] d IH]; intros H; [reflexivity|].
  cbn [dict_update map fst In] in *.
  rewrite ukey_eqb_neq by (intros ->; apply H; now left).
  cbn [app]. f_equal. apply IH. intros Hi. apply H. now right.
Qed.

Lemma update_keys d k v :
  map fst (dict_update d k v) = if existsb (ukey_eqb k) (map fst d) then map fst d else map fst d ++ [k].
Proof.
  induction d as [|[k' v'] d IH]; [reflexivity|].
  cbn [dict_update map fst existsb].
  destruct (ukey_eqb k k') eqn:E; cbn [orb map fst].
  - apply ukey_eqb_spec in E. now subst.
  - rewrite IH. destruct (existsb (ukey_eqb k) (map fst d)); reflexivity.
Qed.

Lemma existsb_ukey k l : existsb (ukey_eqb k) l = true <-> In k l.
Proof.
  rewrite existsb_exists. split.
  - intros [x [Hx E]]. apply ukey_eqb_spec in E. now subst.
  - intros H. exists k. split; [exact H | apply ukey_eqb_refl].
Qed.

Lemma NoDup_snoc {A} (l : list A) k : NoDup l -> ~ In k l -> NoDup (l ++ [k]).
Proof.
  induction l as [|x l IH]; intros H Hk; cbn [app].
  - constructor; [intros [] | constructor].
  - inversion H as [|x0 l0 Hx Hl]; subst. constructor.
    + intros Hi. apply in_app_or in Hi as [Hi|[->|[]]]; [contradiction | apply Hk; now left].
    + apply IH; [exact Hl | intros Hi; apply Hk; now right].
Qed.

Lemma update_nodup d k v : NoDup (map fst d) -> NoDup (map fst (dict_update d k v)).
Proof.
  intros H. rewrite update_keys.
  destruct (existsb (ukey_eqb k) (map fst d)) eqn:E; [exact H|].
  apply NoDup_snoc; [exact H|].
  intros Hi. apply existsb_ukey in Hi. congruence.
Qed.

(* exactly once: the new dictionary never lists a key twice, whatever the legacy store held *)
Lemma fold_update_nodup {A} (f : A -> ukey * uval) l : forall d,
  NoDup (map fst d) -> NoDup (map fst (fold_left (fun d a => dict_update d (fst (f a)) (snd (f a))) l d)).
Proof.
  induction l as [|a l IH]; intros d H; [exact H|]. cbn [fold_left]. apply IH, update_nodup, H.
Qed.

Lemma migrate_nodup es : NoDup (map fst (migrate es)).
Proof.
  unfold migrate.
  apply (fold_update_nodup (fun e => (entry_key e, entry_val e)) es []). constructor.
Qed.

Definition entry_kv (e : uentry) : ukey * uval := (entry_key e, entry_val e).

(* complete: with pairwise distinct keys the new dictionary is exactly the list
   of legacy entries - same syllables, phrase, user frequency (and time) *)
Lemma fold_migrate_fresh es : forall d,
  NoDup (map fst d ++ map entry_key es) ->
  fold_left (fun d e => dict_update d (entry_key e) (entry_val e)) es d = d ++ map entry_kv es.
Proof.
  induction es as [|e es IH]; intros d H; [now rewrite app_nil_r|].
  cbn [fold_left map]. rewrite update_fresh.
  - rewrite IH.
    + rewrite <- app_assoc. reflexivity.
    + rewrite map_app. cbn [map fst]. rewrite <- app_assoc. exact H.
  - cbn [map] in H. apply NoDup_remove_2 in H. intros Hi. apply H. apply in_or_app. now left.
Qed.

Lemma migrate_complete es : NoDup (map entry_key es) -> migrate es = map entry_kv es.
Proof. intros H. unfold migrate. now rewrite fold_migrate_fresh. Qed.

Lemma find_app {A} (f : A -> bool) l1 l2 :
  find f (l1 ++ l2) = match find f l1 with Some x => Some x | None => find f l2 end.
Proof. induction l1 as [|x l1 IH]; [reflexivity|]. cbn [app find]. destruct (f x); [reflexivity | exact IH]. Qed.

(* in general (repeated keys in the legacy store) the last record wins *)
Lemma fold_migrate_lookup es : forall d k,
  dict_lookup (fold_left (fun d e => dict_update d (entry_key e) (entry_val e)) es d) k =
  match find (fun e => ukey_eqb k (entry_key e)) (rev es) with
  | Some e => Some (entry_val e)
  | None => dict_lookup d k
  end.
Proof.
  induction es as [|e es IH]; intros d k; [reflexivity|].
  cbn [fold_left rev]. rewrite IH, find_app.
  destruct (find (fun e0 => ukey_eqb k (entry_key e0)) (rev es)); [reflexivity|].
  cbn [find]. destruct (ukey_eqb k (entry_key e)) eqn:E.
  - apply ukey_eqb_spec in E. subst k. apply lookup_update_same.
  - apply lookup_update_other. intros ->. now rewrite ukey_eqb_refl in E.
Qed.

Lemma migrate_lookup es k :
  dict_lookup (migrate es) k =
  match find (fun e => ukey_eqb k (entry_key e)) (rev es) with
  | Some e => Some (entry_val e)
  | None => None
  end.
Proof. unfold migrate. now rewrite fold_migrate_lookup. Qed.

(* learning *)
Lemma learn_lookup ls : forall d k,
  dict_lookup (learn d ls) k =
  match find (fun kv => ukey_eqb k (fst kv)) (rev ls) with
  | Some kv => Some (snd kv)
  | None => dict_lookup d k
  end.
Proof.
  unfold learn. induction ls as [|[k0 v0] ls IH]; intros d k; [reflexivity|].
  cbn [fold_left rev]. rewrite IH, find_app.
  destruct (find (fun kv => ukey_eqb k (fst kv)) (rev ls)); [reflexivity|].
  cbn [find fst snd]. destruct (ukey_eqb k k0) eqn:E.
  - apply ukey_eqb_spec in E. subst k. apply lookup_update_same.
  - apply lookup_update_other. intros ->. now rewrite ukey_eqb_refl in E.
Qed.

Lemma learn_nodup ls d : NoDup (map fst d) -> NoDup (map fst (learn d ls)).
Proof. intros H. unfold learn. apply (fold_update_nodup (fun kv => kv) ls d H). Qed.

(* phrases learned afterwards are kept alongside the migrated ones *)
Lemma learn_keeps_others d ls k :
  ~ In k (map fst ls) -> dict_lookup (learn d ls) k = dict_lookup d k.
Proof.
  intros H. rewrite learn_lookup.
  destruct (find (fun kv => ukey_eqb k (fst kv)) (rev ls)) as [kv|] eqn:E; [|reflexivity].
  apply find_some in E as [Hin Hk]. apply ukey_eqb_spec in Hk. subst k.
  exfalso. apply H. apply in_map. now apply in_rev.
Qed.

(* ------------------------------------------------------------------ *)
(* start-up *)

(* the legacy records of a SQLite store: the userphrase_v1 table when it exists,
   else the dictionary / user tables *)
Definition sqlite_legacy_rows (db : sqldb) : option (list v1row) * (list dictrow * list uprow) :=
  match db_v1 db with
  | Some rows => (Some rows, ([], []))
  | None => (None, (db_dict db, db_user db))
  end.

Lemma sqlite_open_keeps_legacy db db' : sqlite_open db = Ok db' -> sqlite_legacy_rows db' = sqlite_legacy_rows db.
Proof.
  unfold sqlite_open, sqlite_migrate, sqlite_legacy_rows.
  destruct (db_v1 db) as [rows|] eqn:E.
  - destruct (db_marker db).
    + intros H. inversion H; subst. now rewrite E.
    + destruct (forallb v1_row_readable rows); [|discriminate].
      destruct (fold_left migrate_row rows (db_dict db, db_user db)) as [ds us].
      intros H. inversion H; subst. reflexivity.
  - intros H. inversion H; subst. reflexivity.
Qed.

(* the migration marker makes a second open the identity: every v1 row is copied once *)
Lemma sqlite_open_idempotent db db' : sqlite_open db = Ok db' -> sqlite_open db' = Ok db'.
Proof.
  unfold sqlite_open, sqlite_migrate.
  destruct (db_v1 db) as [rows|] eqn:E.
  - destruct (db_marker db) eqn:M.
    + intros H. inversion H; subst. now rewrite E, M.
    + destruct (forallb v1_row_readable rows); [|discriminate].
      destruct (fold_left migrate_row rows (db_dict db, db_user db)) as [ds us].
      intros H. inversion H; subst. reflexivity.
  - intros H. inversion H; subst. reflexivity.
Qed.

Definition legacy_of (u : userdir) :=
  (ud_uhash u, match ud_sqlite u with Some db => Some (sqlite_legacy_rows db) | None => None end).

(* never destroyed: whatever start-up does, both legacy stores still hold all their records
   (the hash file is returned byte for byte) *)
Lemma startup_keeps_legacy u d u' : startup u = Ok (d, u') -> legacy_of u' = legacy_of u.
Proof.
  unfold startup, legacy_of.
  destruct (ud_current u) as [d0|].
  - intros H. inversion H; subst. reflexivity.
  - destruct (ud_sqlite u) as [db|].
    + destruct (sqlite_open db) as [db'| | |] eqn:E; try discriminate.
      intros H. inversion H; subst. cbn [ud_uhash ud_sqlite].
      now rewrite (sqlite_open_keeps_legacy _ _ E).
    + destruct (ud_uhash u) as [bs|].
      * destruct (load_uhash bs); try discriminate; intros H; inversion H; subst; reflexivity.
      * intros H. inversion H; subst. reflexivity.
Qed.

(* once the current dictionary exists, start-up returns it and touches nothing *)
Lemma startup_current u d u' : startup u = Ok (d, u') -> ud_current u' = Some d.
Proof.
  unfold startup.
  destruct (ud_current u) as [d0|] eqn:C.
  - intros H. inversion H; subst. exact C.
  - destruct (ud_sqlite u) as [db|].
    + destruct (sqlite_open db); try discriminate. intros H. inversion H; subst. reflexivity.
    + destruct (ud_uhash u) as [bs|].
      * destruct (load_uhash bs); try discriminate; intros H; inversion H; subst; reflexivity.
      * intros H. inversion H; subst. reflexivity.
Qed.

Lemma startup_with_current u d : ud_current u = Some d -> startup u = Ok (d, u).
Proof. intros H. unfold startup. now rewrite H. Qed.

(* creating the context again neither duplicates nor alters entries *)
Lemma startup_idempotent u d u' : startup u = Ok (d, u') -> startup u' = Ok (d, u').
Proof. intros H. apply startup_with_current, (startup_current _ _ _ H). Qed.

(* the second start-up does not depend on the legacy stores at all *)
Lemma startup_ignores_legacy d h1 s1 h2 s2 :
  exists u1' u2',
    startup {| ud_current := Some d; ud_uhash := h1; ud_sqlite := s1 |} = Ok (d, u1') /\
    startup {| ud_current := Some d; ud_uhash := h2; ud_sqlite := s2 |} = Ok (d, u2').
Proof. eexists _, _. split; reflexivity. Qed.

(* a learning session followed by any number of plain restarts *)
Lemma session_then_startup u ls d u' :
  session u ls = Ok (d, u') -> startup u' = Ok (d, u').
Proof.
  unfold session. destruct (startup u) as [[d0 u0]| | |]; try discriminate.
  intros H. inversion H; subst. reflexivity.
Qed.

Lemma session_spec u ls d u' :
  session u ls = Ok (d, u') ->
  exists d0 u0, startup u = Ok (d0, u0) /\ d = learn d0 ls /\ legacy_of u' = legacy_of u.
Proof.
  unfold session. destruct (startup u) as [[d0 u0]| | |] eqn:E; try discriminate.
  intros H. inversion H; subst. exists d0, u0. repeat split.
  rewrite <- (startup_keeps_legacy _ _ _ E). reflexivity.
Qed.

(* repeated start-ups interleaved with learning: the result is the first
   migration followed by all learning in order; the legacy stores are unchanged *)
Lemma sessions_spec hist : forall u d u',
  sessions u hist = Ok (d, u') ->
  exists d0 u0, startup u = Ok (d0, u0) /\ d = fold_left learn hist d0 /\ legacy_of u' = legacy_of u.
Proof.
  induction hist as [|ls hist IH]; intros u d u' H; cbn [sessions] in H.
  - exists d, u'. repeat split; [exact H | apply (startup_keeps_legacy _ _ _ H)].
  - destruct (session u ls) as [[d1 u1]| | |] eqn:E; try discriminate.
    destruct (session_spec _ _ _ _ E) as (d0 & u0 & S0 & -> & L1).
    destruct (IH _ _ _ H) as (d2 & u2 & S2 & -> & L2).
    rewrite (session_then_startup _ _ _ _ E) in S2. inversion S2; subst.
    exists d0, u0. repeat split; [exact S0 | congruence].
Qed.

(* ------------------------------------------------------------------ *)
(* the four legacy formats *)

Definition only_uhash (bs : list N) : userdir := {| ud_current := None; ud_uhash := Some bs; ud_sqlite := None |}.
Definition only_sqlite (db : sqldb) : userdir := {| ud_current := None; ud_uhash := None; ud_sqlite := Some db |}.

Definition lrec_key (r : lrec) : ukey := (lr_syls r, lr_phrase r).

Lemma live_entries_keys rs :
  map entry_key (live_entries rs) = map lrec_key (filter (fun r => negb (lr_dead r)) rs).
Proof. unfold live_entries. rewrite map_map. reflexivity. Qed.

(* binary hash file: every live record, nothing else, each once *)
Theorem startup_bin lt rs :
  forallb lrec_wf rs = true ->
  NoDup (map lrec_key (filter (fun r => negb (lr_dead r)) rs)) ->
  exists u', startup (only_uhash (print_bin lt rs)) = Ok (map entry_kv (live_entries rs), u') /\
             ud_uhash u' = Some (print_bin lt rs).
Proof.
  intros W ND. unfold startup, only_uhash. cbn [ud_current ud_sqlite ud_uhash].
  rewrite load_uhash_print_bin by exact W.
  rewrite migrate_complete by (rewrite live_entries_keys; exact ND).
  eexists. split; reflexivity.
Qed.

(* text hash file, any 64-bit lifetime *)
Theorem startup_text lt rs :
  (-9223372036854775808 <= lt < 9223372036854775808)%Z ->
  forallb lrec_wf rs = true -> forallb lrec_text_ok rs = true ->
  NoDup (map lrec_key rs) ->
  exists u', startup (only_uhash (print_text lt rs)) = Ok (map entry_kv (map entry_of rs), u') /\
             ud_uhash u' = Some (print_text lt rs).
Proof.
  intros Hlt W T ND. unfold startup, only_uhash. cbn [ud_current ud_sqlite ud_uhash].
  rewrite load_uhash_print_text by assumption.
  rewrite migrate_complete by (rewrite map_map; exact ND).
  eexists. split; reflexivity.
Qed.

(* SQLite store in the current schema: whatever entries() lists is copied *)
Theorem startup_sqlite db db' :
  sqlite_open db = Ok db' ->
  NoDup (map entry_key (sqlite_entries db')) ->
  exists u', startup (only_sqlite db) = Ok (map entry_kv (sqlite_entries db'), u') /\
             ud_sqlite u' = Some db'.
Proof.
  intros O ND. unfold startup, only_sqlite. cbn [ud_current ud_sqlite ud_uhash].
  rewrite O, migrate_complete by exact ND. eexists. split; reflexivity.
Qed.

(* ------------------------------------------------------------------ *)
(* the older SQLite schema: userphrase_v1 -> dictionary_v1 + userphrase_v2 *)

(* a row the legacy engine wrote: `length` phones that are syllables, zero padded to 11;
   frequencies in range with user >= orig *)
Definition v1row_wf (r : v1row) : bool :=
  v1_row_readable r &&
  list_eqb N.eqb (r1_phones r) (v1_syls r ++ repeat 0 (11 - length (v1_syls r))) &&
  (r1_orig r <=? r1_user r).

Definition v1_entry (r : v1row) : uentry :=
  {| ue_syls := v1_syls r; ue_phrase := r1_phrase r; ue_freq := r1_user r; ue_time := r1_time r |}.
Definition v1_key (r : v1row) : ukey := (v1_syls r, r1_phrase r).

Definition ids_upto (us : list uprow) : Prop := map up_id us = map N.of_nat (seq 1 (length us)).

Lemma fold_max_le l : forall a m, (forall x, In x l -> x <= m) -> a <= m -> fold_left N.max l a <= m.
Proof.
  induction l as [|x l IH]; intros a m H Ha; [exact Ha|].
  cbn [fold_left]. apply IH; [intros y Hy; apply H; now right|].
  apply N.max_lub; [exact Ha | apply H; now left].
Qed.

Lemma fold_max_ge l : forall a, a <= fold_left N.max l a.
Proof.
  induction l as [|x l IH]; intros a; [apply N.le_refl|]. cbn [fold_left].
  etransitivity; [|apply IH]. apply N.le_max_l.
Qed.

Lemma fold_max_in l : forall a x, In x l -> x <= fold_left N.max l a.
Proof.
  induction l as [|y l IH]; intros a x H; [contradiction|]. cbn [fold_left].
  destruct H as [->|H]; [|now apply IH].
  etransitivity; [|apply fold_max_ge]. apply N.le_max_r.
Qed.

Lemma next_rowid_upto us : ids_upto us -> next_rowid us = N.of_nat (S (length us)).
Proof.
  unfold ids_upto, next_rowid. intros H. rewrite H.
  assert (E : fold_left N.max (map N.of_nat (seq 1 (length us))) 0 = N.of_nat (length us)).
  { apply N.le_antisymm.
    - apply fold_max_le; [|lia]. intros x Hx. apply in_map_iff in Hx as [i [<- Hi]].
      apply in_seq in Hi. lia.
    - destruct (length us) as [|n] eqn:L; [cbn; lia|].
      apply fold_max_in. apply in_map_iff. exists (S n). split; [reflexivity|]. apply in_seq. lia. }
  rewrite E. lia.
Qed.

Lemma up_find_app_found us u id x : up_find us id = Some x -> up_find (us ++ [u]) id = Some x.
Proof.
  induction us as [|y us IH]; [discriminate|]. cbn [up_find app].
  destruct (up_id y =? id); [auto | exact IH].
Qed.

Lemma up_find_app_new us u : (forall y, In y us -> up_id y <> up_id u) -> up_find (us ++ [u]) (up_id u) = Some u.
Proof.
  induction us as [|y us IH]; intros H; cbn [up_find app].
  - now rewrite N.eqb_refl.
  - destruct (N.eqb_spec (up_id y) (up_id u)) as [E|_]; [exfalso; apply (H y); [now left | exact E]|].
    apply IH. intros z Hz. apply H. now right.
Qed.

Lemma dictrow_same_key_spec a b :
  dictrow_same_key a b = true <-> (dr_syls a, dr_phrase a) = (dr_syls b, dr_phrase b).
Proof.
  unfold dictrow_same_key. rewrite andb_true_iff, !list_eqb_N_spec. split.
  - intros [-> ->]. reflexivity.
  - intros E. inversion E. auto.
Qed.

Definition dr_key (r : dictrow) : ukey := (dr_syls r, dr_phrase r).

Lemma dict_upsert_fresh ds r : ~ In (dr_key r) (map dr_key ds) -> dict_upsert ds r = ds ++ [r].
Proof.
  induction ds as [|x ds IH]; intros H; [reflexivity|]. cbn [dict_upsert].
  destruct (dictrow_same_key r x) eqn:E.
  - apply dictrow_same_key_spec in E. exfalso. apply H. left. unfold dr_key. now rewrite E.
  - cbn [app]. f_equal. apply IH. intros Hi. apply H. now right.
Qed.

(* invariant of the copy loop *)
Record mig_inv (done : list v1row) (ds : list dictrow) (us : list uprow) : Prop := {
  mi_ids : ids_upto us;
  mi_len : length us = length done;
  mi_keys : map dr_key ds = map v1_key done;
  mi_joined : Forall (fun r => exists id u, dr_upid r = Some id /\ up_find us id = Some u) ds;
  mi_entries : map (sqlite_entry us) ds = map v1_entry done
}.

Lemma sqlite_entry_app us u r :
  (exists id x, dr_upid r = Some id /\ up_find us id = Some x) ->
  sqlite_entry (us ++ [u]) r = sqlite_entry us r.
Proof.
  intros (id & x & Hid & Hx). unfold sqlite_entry. rewrite Hid, Hx, (up_find_app_found _ u _ _ Hx). reflexivity.
Qed.

Lemma mig_step done ds us r :
  mig_inv done ds us -> r1_orig r <= r1_user r -> ~ In (v1_key r) (map v1_key done) ->
  let '(ds', us') := migrate_row (ds, us) r in mig_inv (done ++ [r]) ds' us'.
Proof.
  intros I Hf Hk. cbn [migrate_row].
  pose proof (next_rowid_upto us (mi_ids _ _ _ I)) as Hid.
  set (u := {| up_id := next_rowid us; up_user := r1_user r; up_time := r1_time r |}).
  set (row := {| dr_syls := v1_syls r; dr_phrase := r1_phrase r; dr_freq := r1_orig r; dr_upid := Some (next_rowid us) |}).
  assert (Hnew : up_find (us ++ [u]) (next_rowid us) = Some u).
  { change (next_rowid us) with (up_id u) at 1. apply up_find_app_new.
    intros y Hy. cbn [up_id u]. rewrite Hid.
    pose proof (mi_ids _ _ _ I) as Hids. unfold ids_upto in Hids.
    assert (Hin : In (up_id y) (map up_id us)) by now apply in_map.
    rewrite Hids in Hin. apply in_map_iff in Hin as [i [<- Hi]]. apply in_seq in Hi. lia. }
  rewrite dict_upsert_fresh by (rewrite (mi_keys _ _ _ I); exact Hk).
  constructor.
  - unfold ids_upto. rewrite map_app, app_length. cbn [map length up_id u].
    rewrite Nat.add_1_r, seq_S, map_app, (mi_ids _ _ _ I), Hid. reflexivity.
  - rewrite !app_length, (mi_len _ _ _ I). reflexivity.
  - rewrite !map_app, (mi_keys _ _ _ I). reflexivity.
  - apply Forall_app. split.
    + eapply Forall_impl; [|apply (mi_joined _ _ _ I)].
      intros x (id & y & H1 & H2). exists id, y. split; [exact H1 | now apply up_find_app_found].
    + constructor; [|constructor]. exists (next_rowid us), u. split; [reflexivity | exact Hnew].
  - rewrite !map_app. f_equal.
    + rewrite <- (mi_entries _ _ _ I). apply map_ext_in. intros x Hx.
      apply sqlite_entry_app. pose proof (mi_joined _ _ _ I) as J. rewrite Forall_forall in J. now apply J.
    + cbn [map]. unfold sqlite_entry. cbn [dr_upid row]. rewrite Hnew.
      unfold v1_entry. cbn [dr_syls dr_phrase dr_freq row up_user up_time u].
      rewrite N.max_r by exact Hf. reflexivity.
Qed.

Lemma mig_fold rows : forall done ds us,
  mig_inv done ds us ->
  Forall (fun r => r1_orig r <= r1_user r) rows ->
  NoDup (map v1_key (done ++ rows)) ->
  let '(ds', us') := fold_left migrate_row rows (ds, us) in mig_inv (done ++ rows) ds' us'.
Proof.
  induction rows as [|r rows IH]; intros done ds us I Hf ND.
  - cbn [fold_left]. now rewrite app_nil_r.
  - cbn [fold_left]. inversion Hf as [|r0 l0 Hr Hrs]; subst.
    assert (Hk : ~ In (v1_key r) (map v1_key done)).
    { rewrite map_app in ND. cbn [map] in ND. apply NoDup_remove_2 in ND.
      intros Hi. apply ND. apply in_or_app. now left. }
    pose proof (mig_step done ds us r I Hr Hk) as S.
    destruct (migrate_row (ds, us) r) as [ds1 us1].
    specialize (IH (done ++ [r]) ds1 us1 S Hrs).
    rewrite <- app_assoc in IH. cbn [app] in IH. apply IH, ND.
Qed.

(* a directory that holds only a store in the older schema *)
Definition v1_store (rows : list v1row) : sqldb :=
  {| db_v1 := Some rows; db_dict := []; db_user := []; db_marker := false |}.

(* every v1 row is copied exactly once into the v2 tables, with its syllables,
   phrase, user frequency and time; the v1 table is kept; the marker is set *)
Theorem sqlite_v1_migration rows :
  forallb v1row_wf rows = true -> NoDup (map v1_key rows) ->
  exists db', sqlite_open (v1_store rows) = Ok db' /\
              sqlite_entries db' = map v1_entry rows /\
              length (db_user db') = length rows /\
              db_v1 db' = Some rows /\ db_marker db' = true.
Proof.
  intros W ND. unfold sqlite_open, sqlite_migrate, v1_store. cbn [db_v1 db_marker db_dict db_user].
  assert (Hread : forallb v1_row_readable rows = true).
  { apply forallb_forall. intros r Hr. rewrite forallb_forall in W. specialize (W r Hr).
    unfold v1row_wf in W. apply andb_true_iff in W as [W _]. apply andb_true_iff in W as [W _]. exact W. }
  assert (Hf : Forall (fun r => r1_orig r <= r1_user r) rows).
  { apply Forall_forall. intros r Hr. rewrite forallb_forall in W. specialize (W r Hr).
    unfold v1row_wf in W. apply andb_true_iff in W as [_ W]. now apply N.leb_le. }
  rewrite Hread.
  assert (I0 : mig_inv [] [] []) by (constructor; try reflexivity; constructor).
  pose proof (mig_fold rows [] [] [] I0 Hf ND) as I.
  destruct (fold_left migrate_row rows ([], [])) as [ds us]. cbn [app] in I.
  eexists. split; [reflexivity|]. cbn [db_v1 db_marker db_dict db_user].
  unfold sqlite_entries. cbn [db_dict db_user].
  repeat split; [apply (mi_entries _ _ _ I) | apply (mi_len _ _ _ I)].
Qed.

(* end to end for the older schema: first context creation *)
Theorem startup_sqlite_v1 rows :
  forallb v1row_wf rows = true -> NoDup (map v1_key rows) ->
  exists u' db', startup (only_sqlite (v1_store rows)) = Ok (map entry_kv (map v1_entry rows), u') /\
                 ud_sqlite u' = Some db' /\ db_v1 db' = Some rows /\
                 sqlite_open db' = Ok db'.
Proof.
  intros W ND. destruct (sqlite_v1_migration rows W ND) as (db' & O & E & _ & V & _).
  destruct (startup_sqlite (v1_store rows) db' O) as (u' & S & U).
  { rewrite E, map_map. exact ND. }
  exists u', db'. rewrite E in S. repeat split; try assumption.
  apply (sqlite_open_idempotent _ _ O).
Qed.
