(* C12 for trie files: totality of the reader model on EVERY byte string.
   open returns Ok or Err; an opened trie has a validated index, which denotes
   a shape (TrieValidate.v); over a shape lookups and entries never panic,
   never bail out of fuel and have a linear cost (TrieShape.v). *)
From Coq Require Import NArith List Bool Lia ZArith Permutation.
From LC Require Import Base.Lib Model.Utf8 Model.Der Model.Syllable Model.TrieCodec Gen.Trie_gen
     Proofs.DerProofs Proofs.TrieFileProofs Proofs.TrieShape Proofs.TrieValidate.
Import ListNotations.
Open Scope N_scope.

Definition bytes_ok (l : list N) : Prop := Forall (fun b => b < 256) l.

(* ---- decoders return pieces of their input ---- *)
Section Pieces.
  Variable P : N -> Prop.

  Lemma Forall_firstn n (l : list N) : Forall P l -> Forall P (firstn n l).
  Proof. revert l. induction n; intros [|x l] H; cbn; try constructor; inversion H; subst; auto. Qed.

  Lemma Forall_skipn n (l : list N) : Forall P l -> Forall P (skipn n l).
  Proof. revert l. induction n; intros [|x l] H; cbn; try assumption; inversion H; subst; auto. Qed.

  Lemma dec_len_pieces l n r : Forall P l -> dec_len l = Some (n, r) -> Forall P r.
  Proof.
    intros H. unfold dec_len. destruct l as [|b l]; [discriminate|].
    inversion H as [|? ? _ H1]; subst.
    repeat step_if; try discriminate.
    - intros [= _ <-]. exact H1.
    - destruct l as [|x l]; [discriminate|]. step_if; intros [= _ <-]. now inversion H1.
    - destruct l as [|x [|y l]]; try discriminate. step_if; intros [= _ <-].
      inversion H1; subst. now inversion H4.
    - destruct l as [|x [|y [|z l]]]; try discriminate. step_if; intros [= _ <-].
      inversion H1 as [|? ? _ H2]; subst. inversion H2 as [|? ? _ H3]; subst. now inversion H3.
    - destruct l as [|x [|y [|z [|w l]]]]; try discriminate.
      destruct ((16777216 <=? ((x * 256 + y) * 256 + z) * 256 + w) && (((x * 256 + y) * 256 + z) * 256 + w <=? DER_MAX));
        [|discriminate].
      intros [= _ <-].
      inversion H1 as [|? ? _ H2]; subst. inversion H2 as [|? ? _ H3]; subst. inversion H3 as [|? ? _ H4]; subst.
      now inversion H4.
  Qed.

  Lemma dec_tlv_pieces tag l v r : Forall P l -> dec_tlv tag l = Some (v, r) -> Forall P v /\ Forall P r.
  Proof.
    intros H. unfold dec_tlv. destruct l as [|t l]; [discriminate|].
    inversion H as [|? ? _ H1]; subst.
    destruct (t =? tag); [|discriminate].
    destruct (dec_len l) as [[n r']|] eqn:E; [|discriminate].
    pose proof (dec_len_pieces _ _ _ H1 E) as H2.
    unfold split_at. destruct (n <=? len_N r'); [|discriminate].
    intros [= <- <-]. split; [apply Forall_firstn|apply Forall_skipn]; assumption.
  Qed.
End Pieces.

Lemma dec_file_pieces P bytes i idx data :
  Forall P bytes -> dec_file bytes = Some (i, idx, data) -> Forall P idx /\ Forall P data.
Proof.
  intros H. unfold dec_file. destruct (DER_MAX <? len_N bytes); [discriminate|].
  unfold dec_sequence.
  destruct (dec_tlv TAG_SEQUENCE bytes) as [[body r]|] eqn:E0; [|discriminate].
  destruct (dec_tlv_pieces P _ _ _ _ H E0) as [Hb _].
  destruct (dec_file_body body) as [[x [|? ?]]|] eqn:E1; try discriminate.
  destruct r; cbv beta iota; [|discriminate]. intros [= ->].
  unfold dec_file_body in E1.
  unfold dec_utf8string in E1.
  destruct (dec_tlv TAG_UTF8 body) as [[m r1]|] eqn:E2; [|discriminate].
  destruct (dec_tlv_pieces P _ _ _ _ Hb E2) as [_ H1].
  destruct (utf8_valid m); [|discriminate].
  unfold dec_uint, dec_uint_tagged in E1.
  destruct (dec_tlv TAG_INTEGER r1) as [[c r2]|] eqn:E3; [|discriminate].
  destruct (dec_tlv_pieces P _ _ _ _ H1 E3) as [_ H2].
  destruct (dec_uint_content 1 c); [|discriminate].
  destruct (negb (bytes_eqb m MAGIC && (n =? dict_format_version))); [discriminate|].
  unfold dec_info, dec_sequence in E1.
  destruct (dec_tlv TAG_SEQUENCE r2) as [[ib r3]|] eqn:E4; [|discriminate].
  destruct (dec_tlv_pieces P _ _ _ _ H2 E4) as [_ H3].
  destruct (dec_info_body ib) as [[inf [|? ?]]|]; try discriminate.
  unfold dec_octets in E1.
  destruct (dec_tlv TAG_OCTET r3) as [[ix r4]|] eqn:E5; [|discriminate].
  destruct (dec_tlv_pieces P _ _ _ _ H3 E5) as [Hix H4].
  destruct (dec_tlv TAG_SEQUENCE r4) as [[dt r5]|] eqn:E6; [|discriminate].
  destruct (dec_tlv_pieces P _ _ _ _ H4 E6) as [Hdt _].
  injection E1 as <- <- <- _. split; assumption.
Qed.

(* ---- open ---- *)
Theorem open_total bytes : (exists t, open bytes = Ok t) \/ (exists e, open bytes = Err e).
Proof.
  unfold open, open_unchecked. destruct (dec_file bytes) as [[[i idx] data]|]; [|right; eauto].
  destruct (validate_index _); [left|right]; eauto.
Qed.

Lemma open_facts bytes t :
  bytes_ok bytes -> open bytes = Ok t ->
  Forall rec_ok (t_recs t) /\ validate_index (t_recs t) = true.
Proof.
  intros Hb. unfold open, open_unchecked.
  destruct (dec_file bytes) as [[[i idx] data]|] eqn:E; [|discriminate].
  destruct (validate_index _) eqn:Ev; [|discriminate].
  intros [= <-]. cbn [t_recs] in *. split; [|exact Ev].
  apply parse_recs_ok. destruct (dec_file_pieces _ _ _ _ _ Hb E) as [H1 _]. exact H1.
Qed.

(* ---- lookup ---- *)
Definition syllables_ok (q : list N) : Prop := Forall (fun s => s <> 0) q.

Theorem lookup_total_valid t q first strategy :
  Forall rec_ok (t_recs t) -> validate_index (t_recs t) = true -> syllables_ok q ->
  exists ps c, lookup_cost t q first strategy = (Ok ps, c) /\ c <= len_N q * len_N (t_recs t).
Proof.
  intros Hok Hv Hq. destruct t as [info recs data]. cbn [t_recs] in *.
  destruct (rec_at recs 0) as [root|] eqn:Hroot.
  2:{ exists [], 0. unfold lookup_cost. cbn [t_recs]. rewrite Hroot. split; [reflexivity|lia]. }
  destruct (N.eq_dec (r_len root) 0) as [Hz|Hnz].
  { exists [], 0. unfold lookup_cost. cbn [t_recs]. rewrite Hroot, Hz. split; [reflexivity|lia]. }
  destruct (validated_denotes recs root Hv Hroot Hnz) as (sh & Hd & Hs).
  destruct (lookup_over_shape recs data Hok info root sh q first strategy Hroot Hd Hq) as (ps & c & Hl & Hc & _).
  exists ps, c. split; [exact Hl|]. nia.
Qed.

(* ---- entries ---- *)
Theorem entries_total_valid t dbg :
  Forall rec_ok (t_recs t) -> validate_index (t_recs t) = true ->
  exists l, entries_leaves dbg (entries_fuel t) t = Ok l.
Proof.
  intros Hok Hv. destruct t as [info recs data]. unfold entries_leaves, entries_fuel. cbn [t_recs t_data] in *.
  destruct (rec_at recs 0) as [root|] eqn:Hroot; [|eauto].
  destruct (r_len root =? 0) eqn:Hz; b2p Hz; [eauto|].
  destruct (validated_denotes recs root Hv Hroot Hz) as (sh & Hd & Hs).
  destruct (entries_over_shape recs data dbg root sh (S (S (3 * length recs))) Hok Hd) as (l & Hl & _).
  { pose proof (steps_bound sh). unfold len_N in Hs. lia. }
  exists l. exact Hl.
Qed.

Lemma entries_of_leaves t : (exists l, entries_leaves false (entries_fuel t) t = Ok l) -> exists es, entries t = Ok es.
Proof. intros (l & H). unfold entries. rewrite H. eauto. Qed.

(* ---- the statements of C12 over byte strings ---- *)
Theorem trie_reader_total bytes :
  bytes_ok bytes ->
  (exists e, open bytes = Err e) \/
  (exists t, open bytes = Ok t /\
     (forall q first strategy, syllables_ok q ->
        exists ps c, lookup_cost t q first strategy = (Ok ps, c) /\ c <= len_N q * len_N (t_recs t)) /\
     (exists es, entries t = Ok es) /\
     (forall dbg, exists l, entries_leaves dbg (entries_fuel t) t = Ok l)).
Proof.
  intros Hb. destruct (open_total bytes) as [(t & Ht)|He]; [right|left; exact He].
  destruct (open_facts bytes t Hb Ht) as (Hok & Hv).
  exists t. split; [exact Ht|]. split; [|split].
  - intros q first strategy Hq. apply lookup_total_valid; assumption.
  - apply entries_of_leaves. apply entries_total_valid; assumption.
  - intros dbg. apply entries_total_valid; assumption.
Qed.

(* context creation over such files: composition *)
Theorem ctx_user_file_total bytes : bytes_ok bytes -> ctx_user_file bytes = Ok true \/ ctx_user_file bytes = Ok false.
Proof.
  intros Hb. unfold ctx_user_file.
  destruct (trie_reader_total bytes Hb) as [(e & He)|(t & Ht & _ & (es & Hes) & _)].
  - rewrite He. right. reflexivity.
  - rewrite Ht, Hes. left. reflexivity.
Qed.

Theorem ctx_system_file_total bytes : ctx_system_file bytes = Ok true.
Proof.
  unfold ctx_system_file. destruct (open_total bytes) as [(t & ->)|(e & ->)]; reflexivity.
Qed.
