(* Proofs about Model/Composition.v: well-formedness invariant of compositions and
   composition editors, preserved by every operation; exact image of the symbol
   list, cursor and selection list under each operation (C04, C05). *)
From Coq Require Import NArith List Bool Arith Lia.
From LC Require Import Base.Lib Model.Composition.
Import ListNotations.
Open Scope nat_scope.

Ltac b2p := repeat match goal with
  | H : (_ && _) = true |- _ => apply andb_true_iff in H; destruct H
  | H : (_ || _) = false |- _ => apply orb_false_iff in H; destruct H
  | H : negb _ = true |- _ => apply negb_true_iff in H
  | H : negb _ = false |- _ => apply negb_false_iff in H
  | H : Nat.ltb _ _ = true |- _ => apply Nat.ltb_lt in H
  | H : Nat.ltb _ _ = false |- _ => apply Nat.ltb_ge in H
  | H : Nat.leb _ _ = true |- _ => apply Nat.leb_le in H
  | H : Nat.leb _ _ = false |- _ => apply Nat.leb_gt in H
  | H : Nat.eqb _ _ = true |- _ => apply Nat.eqb_eq in H
  | H : Nat.eqb _ _ = false |- _ => apply Nat.eqb_neq in H
  end.

(* ------------------------------------------------------------------ *)
(* list helpers *)

Lemma length_insert_at {A} (x : A) : forall n l, n <= length l -> length (insert_at n x l) = S (length l).
Proof.
  induction n as [|n IH]; intros l H; destruct l as [|y l]; cbn [insert_at length] in *; try lia.
  rewrite IH; lia.
Qed.

Lemma length_remove_at {A} : forall n (l : list A), n < length l -> length (remove_at n l) = length l - 1.
Proof.
  induction n as [|n IH]; intros l H; destruct l as [|y l]; cbn [remove_at length] in *; try lia.
  rewrite IH; lia.
Qed.

Lemma length_set_at {A} (x : A) : forall n l, length (set_at n x l) = length l.
Proof.
  induction n as [|n IH]; intros l; destruct l as [|y l]; cbn [set_at length]; try reflexivity.
  now rewrite IH.
Qed.

Lemma length_fix_first_gap g : length (fix_first_gap g) = length g.
Proof. destruct g; reflexivity. Qed.

Lemma length_set_range_normal b e : forall g pos, length (set_range_normal b e g pos) = length g.
Proof. induction g as [|x g IH]; intros pos; cbn [set_range_normal length]; [reflexivity | now rewrite IH]. Qed.

Lemma nth_error_insert_at_lt {A} (x : A) : forall n l i, i < n -> n <= length l ->
  nth_error (insert_at n x l) i = nth_error l i.
Proof.
  induction n as [|n IH]; intros l i Hi Hn; [lia|].
  destruct l as [|y l]; cbn [length] in Hn; [lia|]. cbn [insert_at].
  destruct i as [|i]; cbn [nth_error]; [reflexivity|]. apply IH; lia.
Qed.

Lemma nth_error_insert_at_eq {A} (x : A) : forall n l, n <= length l -> nth_error (insert_at n x l) n = Some x.
Proof.
  induction n as [|n IH]; intros l Hn; destruct l as [|y l]; cbn [insert_at nth_error length] in *; try reflexivity; try lia.
  apply IH; lia.
Qed.

Lemma nth_error_insert_at_gt {A} (x : A) : forall n l i, n <= i -> n <= length l ->
  nth_error (insert_at n x l) (S i) = nth_error l i.
Proof.
  induction n as [|n IH]; intros l i Hi Hn.
  - reflexivity.
  - destruct l as [|y l]; cbn [length] in Hn; [lia|]. cbn [insert_at].
    destruct i as [|i]; [lia|]. cbn [nth_error]. apply IH; lia.
Qed.

Lemma nth_error_remove_at_lt {A} : forall n (l : list A) i, i < n -> nth_error (remove_at n l) i = nth_error l i.
Proof.
  induction n as [|n IH]; intros l i Hi; [lia|].
  destruct l as [|y l]; cbn [remove_at]; [reflexivity|].
  destruct i as [|i]; cbn [nth_error]; [reflexivity|]. apply IH; lia.
Qed.

Lemma nth_error_remove_at_ge {A} : forall n (l : list A) i, n <= i -> nth_error (remove_at n l) i = nth_error l (S i).
Proof.
  induction n as [|n IH]; intros l i Hi.
  - destruct l as [|y l]; cbn [remove_at nth_error]; [now destruct i | reflexivity].
  - destruct l as [|y l]; cbn [remove_at]; [now destruct i|].
    destruct i as [|i]; [lia|]. cbn [nth_error]. apply IH; lia.
Qed.

Lemma nth_error_set_at_ne {A} (x : A) : forall n l i, i <> n -> nth_error (set_at n x l) i = nth_error l i.
Proof.
  induction n as [|n IH]; intros l i Hi; destruct l as [|y l]; cbn [set_at]; try reflexivity.
  - destruct i; [lia | reflexivity].
  - destruct i as [|i]; cbn [nth_error]; [reflexivity | apply IH; lia].
Qed.

Lemma nth_error_set_at_eq {A} (x : A) : forall n l, n < length l -> nth_error (set_at n x l) n = Some x.
Proof.
  induction n as [|n IH]; intros l Hn; destruct l as [|y l]; cbn [set_at nth_error length] in *; try lia; [reflexivity|].
  apply IH; lia.
Qed.

Lemma nth_error_fix_first_gap g i : 0 < i -> nth_error (fix_first_gap g) i = nth_error g i.
Proof. intros Hi. destruct g; [reflexivity|]. destruct i; [lia | reflexivity]. Qed.

Lemma nth_error_skipn_add {A} : forall n (l : list A) i, nth_error (skipn n l) i = nth_error l (n + i).
Proof.
  induction n as [|n IH]; intros l i; [reflexivity|]. destruct l as [|y l]; cbn [skipn Nat.add nth_error]; [now destruct i | apply IH].
Qed.

Lemma nth_error_set_range_normal b e : forall g pos i,
  nth_error (set_range_normal b e g pos) i =
  match nth_error g i with
  | Some x => Some (if Nat.ltb b (pos + i) && Nat.ltb (pos + i) e then GNormal else x)
  | None => None
  end.
Proof.
  induction g as [|x g IH]; intros pos i; cbn [set_range_normal]; [now destruct i|].
  destruct i as [|i]; cbn [nth_error]; [now rewrite Nat.add_0_r|].
  rewrite IH. replace (S pos + i) with (pos + S i) by lia. reflexivity.
Qed.

(* ------------------------------------------------------------------ *)
(* well-formed compositions *)

Definition sel_ok (n : nat) (s : interval) : Prop := ib s < ie s /\ ie s <= n.
Definition disjoint (a b : interval) : Prop := ie a <= ib b \/ ie b <= ib a.


(* what the conversion graph needs of the recorded choices: a choice covers syllables only and no
   break lies strictly inside it (then the choice's own range is an edge of the graph, C03) *)
Definition syl_sym (c : composition) (k : nat) : Prop := exists code, nth_error (symbols c) k = Some (SymSyl code).
Definition sel_clean (c : composition) (s : interval) : Prop :=
  (forall k, ib s <= k < ie s -> syl_sym c k) /\ (forall k, ib s < k < ie s -> nth_error (gaps c) k <> Some GBreak).
Definition clean (c : composition) : Prop := forall s, In s (selections c) -> sel_clean c s.

Record wf_comp (c : composition) : Prop := {
  wf_gaps : length (gaps c) = length (symbols c);
  wf_sels : Forall (sel_ok (clen c)) (selections c);
  wf_disj : ForallOrdPairs disjoint (selections c);
  wf_clean : clean c
}.

Lemma wf_comp_empty : wf_comp comp_empty.
Proof. constructor; [reflexivity | constructor | constructor | intros s []]. Qed.

Lemma gap_eqb_eq a b : gap_eqb a b = true <-> a = b.
Proof. destruct a, b; cbn; split; intros H; try reflexivity; discriminate. Qed.

Lemma FOP_filter {A} (R : A -> A -> Prop) f : forall l, ForallOrdPairs R l -> ForallOrdPairs R (filter f l).
Proof.
  induction l as [|x l IH]; intros H; cbn [filter]; [constructor|].
  inversion H as [|x' l' Hx Hl]; subst.
  destruct (f x); [|now apply IH].
  constructor; [|now apply IH].
  rewrite Forall_forall in *. intros y Hy. apply filter_In in Hy as [Hy _]. now apply Hx.
Qed.

Lemma FOP_map {A} (R : A -> A -> Prop) (P : A -> Prop) f :
  (forall a b, P a -> P b -> R a b -> R (f a) (f b)) ->
  forall l, Forall P l -> ForallOrdPairs R l -> ForallOrdPairs R (map f l).
Proof.
  intros Hf. induction l as [|x l IH]; intros HP H; cbn [map]; [constructor|].
  inversion H as [|x' l' Hx Hl]; subst. inversion HP as [|x'' l'' Px Pl]; subst.
  constructor; [|now apply IH].
  rewrite Forall_forall in *. intros y Hy. apply in_map_iff in Hy as (z & <- & Hz).
  apply Hf; auto.
Qed.

Lemma FOP_app_single {A} (R : A -> A -> Prop) x : forall l,
  ForallOrdPairs R l -> Forall (fun y => R y x) l -> ForallOrdPairs R (l ++ [x]).
Proof.
  induction l as [|y l IH]; intros H Hx; cbn [app]; [repeat constructor|].
  inversion H as [|y' l' Hy Hl]; subst. inversion Hx as [|y'' l'' Ryx Rl]; subst.
  constructor; [|now apply IH].
  apply Forall_app. split; [assumption | now constructor].
Qed.

Lemma Forall_filter {A} (P : A -> Prop) f l : Forall P l -> Forall P (filter f l).
Proof.
  rewrite !Forall_forall. intros H x Hx. apply filter_In in Hx as [Hx _]. now apply H.
Qed.

Lemma Forall_filter_both {A} (P : A -> Prop) f l :
  Forall P l -> Forall (fun x => P x /\ f x = true) (filter f l).
Proof.
  rewrite !Forall_forall. intros H x Hx. apply filter_In in Hx as [Hx Hf]. split; [now apply H | exact Hf].
Qed.

(* ---- each operation preserves wf_comp ---- *)

Lemma set_gap_wf c i g c' : wf_comp c -> comp_set_gap c i g = Ok c' ->
  wf_comp c' /\ symbols c' = symbols c /\ (forall s, In s (selections c') -> In s (selections c)).
Proof.
  intros W H. unfold comp_set_gap in H.
  destruct (negb (Nat.ltb i (clen c))); [discriminate|].
  destruct (gap_eqb g GBegin); [discriminate|].
  destruct (Nat.eqb i 0).
  - inversion H; subst. auto.
  - inversion H; subst; clear H. cbn [symbols selections gaps]. split; [|split; [reflexivity|]].
    + destruct W as [Wg Ws Wd Wk]. constructor; unfold clen in *; cbn [symbols gaps selections] in *.
      * now rewrite length_set_at.
      * destruct (gap_eqb g GBreak); [now apply Forall_filter | assumption].
      * destruct (gap_eqb g GBreak); [now apply FOP_filter | assumption].
      * intros s Hs. unfold sel_clean; cbn [symbols gaps].
        assert (Hin : In s (selections c) /\ (gap_eqb g GBreak = true -> negb (Nat.ltb (ib s) i && Nat.ltb i (ie s)) = true)).
        { destruct (gap_eqb g GBreak); [apply filter_In in Hs as [H1 H2]; auto | split; [exact Hs | discriminate]]. }
        destruct Hin as (Hin & Hbr). destruct (Wk s Hin) as (K1 & K2). split; [exact K1|].
        intros k Hk. destruct (Nat.eq_dec k i) as [->|Hne]; [|rewrite nth_error_set_at_ne by exact Hne; now apply K2].
        intros Hg. destruct (nth_error (set_at i g (gaps c)) i) eqn:En; [|discriminate].
        assert (Hi : i < length (gaps c)) by (rewrite <- (length_set_at g i); apply nth_error_Some; congruence).
        rewrite nth_error_set_at_eq in En by exact Hi. assert (g = GBreak) by congruence. subst g.
        specialize (Hbr eq_refl). apply negb_true_iff, andb_false_iff in Hbr. destruct Hbr as [Hb|Hb]; b2p; lia.
    + intros s Hs. destruct (gap_eqb g GBreak); [apply filter_In in Hs; tauto | assumption].
Qed.

Lemma insert_wf c i x c' : wf_comp c -> comp_insert c i x = Ok c' ->
  wf_comp c' /\ symbols c' = insert_at i x (symbols c) /\ i <= clen c.
Proof.
  intros [Wg Ws Wd Wk] H. unfold comp_insert in H.
  destruct (Nat.ltb (clen c) i) eqn:Hi; [discriminate|]. b2p.
  inversion H; subst; clear H. cbn [symbols]. split; [|split; [reflexivity | exact Hi]].
  assert (Hlen : length (insert_at i x (symbols c)) = S (clen c)) by (apply length_insert_at; exact Hi).
  constructor; unfold clen in *; cbn [symbols gaps selections] in *.
  - rewrite length_fix_first_gap, length_insert_at.
    + rewrite Hlen. destruct (_ && _); [rewrite length_set_at|]; unfold clen; lia.
    + destruct (_ && _); [rewrite length_set_at|]; unfold clen in *; lia.
  - rewrite Hlen. apply Forall_map.
    pose proof (Forall_filter_both _ (fun s => negb (Nat.ltb (ib s) i && Nat.ltb i (ie s))) _ Ws) as F.
    eapply Forall_impl; [|exact F]. cbn beta. intros s [[H1 H2] _].
    destruct (Nat.leb i (ib s)); unfold sel_ok, shift_iv; cbn [ib ie]; lia.
  - apply FOP_map with (P := fun s => sel_ok (clen c) s /\ negb (Nat.ltb (ib s) i && Nat.ltb i (ie s)) = true).
    + intros a b [[Ha1 Ha2] Ka] [[Hb1 Hb2] Kb] Hd. unfold disjoint in *.
      apply negb_true_iff, andb_false_iff in Ka, Kb.
      destruct (Nat.leb i (ib a)) eqn:Ea, (Nat.leb i (ib b)) eqn:Eb; unfold shift_iv; cbn [ib ie]; b2p.
      * lia.
      * destruct Kb as [Kb|Kb]; b2p; lia.
      * destruct Ka as [Ka|Ka]; b2p; lia.
      * lia.
    + now apply Forall_filter_both.
    + now apply FOP_filter.
  - intros s' Hs'. apply in_map_iff in Hs' as (s & <- & Hs). apply filter_In in Hs as (Hs & Kf).
    destruct (Wk s Hs) as (K1 & K2). rewrite Forall_forall in Ws. destruct (Ws s Hs) as (S1 & S2).
    apply negb_true_iff, andb_false_iff in Kf. unfold sel_clean, syl_sym; cbn [symbols gaps].
    assert (G0 : forall k, k <> i -> nth_error (if negb (Nat.eqb (length (gaps c)) 0) && negb (Nat.eqb i (length (gaps c))) then set_at i GNormal (gaps c) else gaps c) k = nth_error (gaps c) k).
    { intros k Hk. destruct (_ && _); [now apply nth_error_set_at_ne | reflexivity]. }
    assert (L0 : length (if negb (Nat.eqb (length (gaps c)) 0) && negb (Nat.eqb i (length (gaps c))) then set_at i GNormal (gaps c) else gaps c) = length (gaps c)).
    { destruct (_ && _); [apply length_set_at | reflexivity]. }
    destruct (Nat.leb i (ib s)) eqn:Ei; unfold shift_iv; cbn [ib ie]; b2p.
    + split; intros k Hk; (destruct k as [|k]; [lia|]).
      * rewrite nth_error_insert_at_gt by (unfold clen in *; lia). apply K1. lia.
      * rewrite nth_error_fix_first_gap by lia. rewrite nth_error_insert_at_gt by lia. rewrite G0 by lia. apply K2. lia.
    + assert (ie s <= i) by (destruct Kf as [Kf|Kf]; b2p; lia).
      split; intros k Hk.
      * rewrite nth_error_insert_at_lt by (unfold clen in *; lia). now apply K1.
      * rewrite nth_error_fix_first_gap by lia. rewrite nth_error_insert_at_lt by lia. rewrite G0 by lia. now apply K2.
Qed.

Lemma remove_wf c i c' : wf_comp c -> comp_remove c i = Ok c' ->
  wf_comp c' /\ symbols c' = remove_at i (symbols c) /\ i < clen c.
Proof.
  intros [Wg Ws Wd Wk] H. unfold comp_remove in H.
  destruct (negb (Nat.ltb i (clen c))) eqn:Hi; [discriminate|]. b2p.
  inversion H; subst; clear H. cbn [symbols]. split; [|split; [reflexivity | exact Hi]].
  assert (Hlen : length (remove_at i (symbols c)) = clen c - 1) by (apply length_remove_at; exact Hi).
  constructor; unfold clen in *; cbn [symbols gaps selections] in *.
  - rewrite length_fix_first_gap, length_remove_at; unfold clen in *; lia.
  - rewrite Hlen. apply Forall_map.
    pose proof (Forall_filter_both _ (fun s => negb (Nat.leb (ib s) i && Nat.ltb i (ie s))) _ Ws) as F.
    eapply Forall_impl; [|exact F]. cbn beta. intros s [[H1 H2] K].
    apply negb_true_iff, andb_false_iff in K.
    destruct (Nat.leb (ib s) i) eqn:E; unfold sel_ok, unshift_iv; cbn [ib ie]; b2p.
    + destruct K as [K|K]; b2p; lia.
    + lia.
  - apply FOP_map with (P := fun s => sel_ok (clen c) s /\ negb (Nat.leb (ib s) i && Nat.ltb i (ie s)) = true).
    + intros a b [[Ha1 Ha2] Ka] [[Hb1 Hb2] Kb] Hd. unfold disjoint in *.
      apply negb_true_iff, andb_false_iff in Ka, Kb.
      destruct (Nat.leb (ib a) i) eqn:Ea, (Nat.leb (ib b) i) eqn:Eb; unfold unshift_iv; cbn [ib ie]; b2p.
      * lia.
      * destruct Ka as [Ka|Ka]; b2p; lia.
      * destruct Kb as [Kb|Kb]; b2p; lia.
      * lia.
    + now apply Forall_filter_both.
    + now apply FOP_filter.
  - intros s' Hs'. apply in_map_iff in Hs' as (s & <- & Hs). apply filter_In in Hs as (Hs & Kf).
    destruct (Wk s Hs) as (K1 & K2). rewrite Forall_forall in Ws. destruct (Ws s Hs) as (S1 & S2).
    apply negb_true_iff, andb_false_iff in Kf. unfold sel_clean, syl_sym; cbn [symbols gaps].
    destruct (Nat.leb (ib s) i) eqn:Ei; unfold unshift_iv; cbn [ib ie]; b2p.
    + assert (ie s <= i) by (destruct Kf as [Kf|Kf]; b2p; lia).
      split; intros k Hk.
      * rewrite nth_error_remove_at_lt by lia. now apply K1.
      * rewrite nth_error_fix_first_gap by lia. rewrite nth_error_remove_at_lt by lia. now apply K2.
    + split; intros k Hk.
      * rewrite nth_error_remove_at_ge by lia. apply K1. lia.
      * rewrite nth_error_fix_first_gap by lia. rewrite nth_error_remove_at_ge by lia. apply K2. lia.
Qed.

Lemma remove_front_wf c n c' : wf_comp c -> comp_remove_front c n = Ok c' ->
  wf_comp c' /\ symbols c' = skipn n (symbols c) /\ n <= clen c.
Proof.
  intros [Wg Ws Wd Wk] H. unfold comp_remove_front in H.
  destruct (Nat.ltb (clen c) n) eqn:Hn; [discriminate|]. b2p.
  inversion H; subst; clear H. cbn [symbols]. split; [|split; [reflexivity | exact Hn]].
  constructor; unfold clen in *; cbn [symbols gaps selections] in *.
  - rewrite length_fix_first_gap, !skipn_length. lia.
  - rewrite skipn_length. apply Forall_map.
    pose proof (Forall_filter_both _ (fun s => negb (Nat.ltb (ib s) n)) _ Ws) as F.
    eapply Forall_impl; [|exact F]. cbn beta. intros s [[H1 H2] K]. b2p.
    unfold sel_ok, unshift_iv, clen in *; cbn [ib ie]; lia.
  - apply FOP_map with (P := fun s => sel_ok (clen c) s /\ negb (Nat.ltb (ib s) n) = true).
    + intros a b [[Ha1 Ha2] Ka] [[Hb1 Hb2] Kb] Hd. unfold disjoint, unshift_iv in *; cbn [ib ie]. b2p. lia.
    + now apply Forall_filter_both.
    + now apply FOP_filter.
  - intros s' Hs'. apply in_map_iff in Hs' as (s & <- & Hs). apply filter_In in Hs as (Hs & Kf). b2p.
    destruct (Wk s Hs) as (K1 & K2). unfold sel_clean, syl_sym, unshift_iv; cbn [symbols gaps ib ie].
    split; intros k Hk.
    + rewrite nth_error_skipn_add. apply K1. lia.
    + rewrite nth_error_fix_first_gap by lia. rewrite nth_error_skipn_add. apply K2. lia.
Qed.

Lemma push_selection_wf c iv c' : wf_comp c -> ib iv < ie iv -> (forall k, ib iv <= k < ie iv -> syl_sym c k) ->
  comp_push_selection c iv = Ok c' ->
  wf_comp c' /\ symbols c' = symbols c /\
  selections c' = filter (fun s => negb (iv_intersect s iv)) (selections c) ++ [iv].
Proof.
  intros [Wg Ws Wd Wk] Hiv Hsyl H. unfold comp_push_selection in H.
  destruct (Nat.ltb (clen c) (ie iv)) eqn:He; [discriminate|]. b2p.
  inversion H; subst; clear H. cbn [symbols selections]. split; [|split; reflexivity].
  constructor; unfold clen in *; cbn [symbols gaps selections] in *.
  - now rewrite length_set_range_normal.
  - apply Forall_app. split; [now apply Forall_filter|]. constructor; [|constructor]. split; assumption.
  - apply FOP_app_single; [now apply FOP_filter|].
    pose proof (Forall_filter_both _ (fun s => negb (iv_intersect s iv)) _ Ws) as F.
    eapply Forall_impl; [|exact F]. cbn beta. intros s [[H1 H2] K].
    unfold iv_intersect, intersect_range in K. b2p. unfold disjoint. lia.
  - intros s Hs. unfold sel_clean, syl_sym; cbn [symbols gaps].
    assert (G : forall k, nth_error (set_range_normal (ib iv) (ie iv) (gaps c) 0) k = Some GBreak -> nth_error (gaps c) k = Some GBreak /\ ~ (ib iv < k < ie iv)).
    { intros k Hk. rewrite nth_error_set_range_normal in Hk. cbn [Nat.add] in Hk. destruct (nth_error (gaps c) k) as [x|]; [|discriminate].
      destruct (Nat.ltb (ib iv) k && Nat.ltb k (ie iv)) eqn:E; [discriminate|]. split; [congruence|].
      apply andb_false_iff in E. destruct E as [E|E]; b2p; lia. }
    apply in_app_or in Hs as [Hs|[<-|[]]].
    + apply filter_In in Hs as (Hs & _). destruct (Wk s Hs) as (K1 & K2). split; [exact K1|].
      intros k Hk Hg. apply G in Hg as (Hg & _). now apply (K2 k Hk).
    + split; [exact Hsyl|]. intros k Hk Hg. apply G in Hg as (_ & Hg). now apply Hg.
Qed.

Lemma replace_wf c i x c' : wf_comp c -> (exists ch, nth_error (symbols c) i = Some (SymChar ch)) ->
  comp_replace c i x = Ok c' ->
  wf_comp c' /\ symbols c' = set_at i x (symbols c).
Proof.
  intros W (ch & Hch) H. unfold comp_replace in H.
  destruct (negb (Nat.ltb i (clen c))) eqn:Hi; [discriminate|].
  assert (W1 : wf_comp (mkComp (set_at i x (symbols c)) (gaps c) (selections c))).
  { destruct W as [Wg Ws Wd Wk]. constructor; unfold clen in *; cbn [symbols gaps selections] in *; rewrite ?length_set_at; try assumption.
    (* the replaced symbol is a character, so it lies in no recorded choice *)
    intros s Hs. destruct (Wk s Hs) as (K1 & K2). split; [|exact K2]. intros k Hk. unfold syl_sym; cbn [symbols].
    destruct (Nat.eq_dec k i) as [->|Hne]; [|rewrite nth_error_set_at_ne by exact Hne; now apply K1].
    destruct (K1 i Hk) as (code & Hc). congruence. }
  destruct (set_gap_wf _ _ _ _ W1 H) as (W2 & Hs & _). split; [exact W2 | exact Hs].
Qed.

(* ------------------------------------------------------------------ *)
(* composition editor *)

Record wf_ce (e : comp_editor) : Prop := {
  wf_inner : wf_comp (inner e);
  wf_cursor : cursor e <= ce_len e
}.

Lemma wf_ce_empty : wf_ce ce_empty.
Proof. constructor; [apply wf_comp_empty | cbn; lia]. Qed.

Lemma with_inner_ok e cur r e' : with_inner e cur r = Ok e' ->
  exists c, r = Ok c /\ e' = mkCE cur (cursor_stack e) c.
Proof. destruct r; cbn; intros H; inversion H; eauto. Qed.

Lemma ce_push_cursor_wf e : wf_ce e -> wf_ce (ce_push_cursor e).
Proof. intros [Wi Wc]. constructor; assumption. Qed.

Lemma ce_pop_cursor_wf e : wf_ce e -> wf_ce (ce_pop_cursor e).
Proof.
  intros [Wi Wc]. unfold ce_pop_cursor. destruct (cursor_stack e); constructor; cbn [inner cursor ce_len]; try assumption;
  unfold ce_len; cbn [inner]; lia.
Qed.

Lemma ce_clamp_cursor_wf e : wf_ce e -> wf_ce (ce_clamp_cursor e).
Proof.
  intros [Wi Wc]. unfold ce_clamp_cursor. destruct (Nat.eqb (cursor e) (ce_len e)); constructor; cbn [inner cursor];
  try assumption; unfold ce_len in *; cbn [inner]; lia.
Qed.

Lemma ce_move_cursor_wf e c : wf_ce e -> wf_ce (ce_move_cursor e c).
Proof. intros [Wi Wc]. constructor; unfold ce_move_cursor, ce_len in *; cbn [inner cursor] in *; [assumption | lia]. Qed.

Lemma ce_left_wf e : wf_ce e -> wf_ce (ce_left e).
Proof. intros [Wi Wc]. constructor; unfold ce_left, ce_len in *; cbn [inner cursor] in *; [assumption | lia]. Qed.
Lemma ce_right_wf e : wf_ce e -> wf_ce (ce_right e).
Proof. intros [Wi Wc]. constructor; unfold ce_right, ce_len in *; cbn [inner cursor] in *; [assumption | lia]. Qed.
Lemma ce_to_end_wf e : wf_ce e -> wf_ce (ce_to_end e).
Proof. intros [Wi Wc]. constructor; unfold ce_to_end, ce_len in *; cbn [inner cursor] in *; [assumption | lia]. Qed.
Lemma ce_to_begin_wf e : wf_ce e -> wf_ce (ce_to_begin e).
Proof. intros [Wi Wc]. constructor; unfold ce_to_begin, ce_len in *; cbn [inner cursor] in *; [assumption | lia]. Qed.
Lemma ce_clear_keep_stack_wf e : wf_ce (ce_clear_keep_stack e).
Proof. constructor; cbn; [apply wf_comp_empty | lia]. Qed.
Lemma ce_clear_all_wf e : wf_ce (ce_clear_all e).
Proof. constructor; cbn; [apply wf_comp_empty | lia]. Qed.

(* a completed syllable or symbol is inserted exactly at the cursor; the cursor advances by one *)
Lemma ce_insert_spec e x e' : wf_ce e -> ce_insert e x = Ok e' ->
  wf_ce e' /\ symbols (inner e') = insert_at (cursor e) x (symbols (inner e)) /\
  cursor e' = S (cursor e) /\ cursor_stack e' = cursor_stack e.
Proof.
  intros [Wi Wc] H. unfold ce_insert in H. apply with_inner_ok in H as (c & Hc & ->).
  destruct (insert_wf _ _ _ _ Wi Hc) as (W' & Hs & Hi).
  cbn [inner cursor cursor_stack]. split; [|split; [exact Hs | split; [lia | reflexivity]]].
  constructor; cbn [inner cursor]; [exact W'|].
  unfold ce_len; cbn [inner]. unfold clen. rewrite Hs, length_insert_at; unfold ce_len, clen in *; lia.
Qed.

(* Backspace removes the symbol before the cursor *)
Lemma ce_remove_before_spec e e' : wf_ce e -> ce_remove_before_cursor e = Ok e' ->
  wf_ce e' /\
  ((cursor e = 0 /\ e' = e) \/
   (0 < cursor e /\ symbols (inner e') = remove_at (cursor e - 1) (symbols (inner e)) /\ cursor e' = cursor e - 1)) /\
  cursor_stack e' = cursor_stack e.
Proof.
  intros W H. unfold ce_remove_before_cursor in H. destruct (Nat.eqb (cursor e) 0) eqn:E; b2p.
  - inversion H; subst. split; [assumption|]. split; [left; auto | reflexivity].
  - destruct W as [Wi Wc]. apply with_inner_ok in H as (c & Hc & ->).
    destruct (remove_wf _ _ _ Wi Hc) as (W' & Hs & Hi).
    cbn [inner cursor cursor_stack]. split; [|split; [right; split; [lia | split; [exact Hs | reflexivity]] | reflexivity]].
    constructor; cbn [inner cursor]; [assumption|].
    unfold ce_len; cbn [inner]. unfold clen. rewrite Hs, length_remove_at; unfold ce_len, clen in *; lia.
Qed.

(* Delete removes the symbol at the cursor *)
Lemma ce_remove_after_spec e e' : wf_ce e -> ce_remove_after_cursor e = Ok e' ->
  wf_ce e' /\ symbols (inner e') = remove_at (cursor e) (symbols (inner e)) /\ cursor e' = cursor e /\
  cursor_stack e' = cursor_stack e.
Proof.
  intros [Wi Wc] H. unfold ce_remove_after_cursor in H. apply with_inner_ok in H as (c & Hc & ->).
  destruct (remove_wf _ _ _ Wi Hc) as (W' & Hs & Hi).
  cbn [inner cursor cursor_stack]. split; [|split; [exact Hs | split; reflexivity]].
  constructor; cbn [inner cursor]; [assumption|].
  unfold ce_len; cbn [inner]. unfold clen. rewrite Hs, length_remove_at; unfold ce_len, clen in *; lia.
Qed.

Lemma ce_remove_front_spec e n e' : wf_ce e -> ce_remove_front e n = Ok e' ->
  wf_ce e' /\ symbols (inner e') = skipn n (symbols (inner e)) /\ cursor e' = cursor e - n /\ n <= ce_len e.
Proof.
  intros [Wi Wc] H. unfold ce_remove_front in H. apply with_inner_ok in H as (c & Hc & ->).
  destruct (remove_front_wf _ _ _ Wi Hc) as (W' & Hs & Hn).
  cbn [inner cursor]. split; [|split; [exact Hs | split; [reflexivity | exact Hn]]].
  constructor; cbn [inner cursor]; [assumption|].
  unfold ce_len; cbn [inner]. unfold clen. rewrite Hs, skipn_length. unfold ce_len, clen in *. lia.
Qed.

Lemma ce_set_gap_wf e (f : comp_editor -> outcome comp_editor) e' :
  (f = ce_insert_glue \/ f = ce_insert_break) -> wf_ce e -> f e = Ok e' ->
  wf_ce e' /\ symbols (inner e') = symbols (inner e) /\ cursor e' = cursor e /\ cursor_stack e' = cursor_stack e.
Proof.
  intros Hf [Wi Wc] H.
  assert (K : forall gp, (if ce_is_end e then Ok e else with_inner e (cursor e) (comp_set_gap (inner e) (cursor e) gp)) = Ok e' ->
              wf_ce e' /\ symbols (inner e') = symbols (inner e) /\ cursor e' = cursor e /\ cursor_stack e' = cursor_stack e).
  { intros gp K. destruct (ce_is_end e).
    - inversion K; subst. split; [constructor; assumption | auto].
    - apply with_inner_ok in K as (c & Hc & ->). destruct (set_gap_wf _ _ _ _ Wi Hc) as (W' & Hs & _).
      cbn [inner cursor cursor_stack]. split; [|split; [exact Hs | split; reflexivity]].
      constructor; cbn [inner cursor]; [assumption|].
      unfold ce_len; cbn [inner]. unfold clen. rewrite Hs. exact Wc. }
  destruct Hf as [-> | ->]; [apply (K GGlue) | apply (K GBreak)]; exact H.
Qed.

Lemma ce_replace_spec e x e' : wf_ce e -> (exists ch, nth_error (symbols (inner e)) (cursor e) = Some (SymChar ch)) ->
  ce_replace e x = Ok e' ->
  wf_ce e' /\ symbols (inner e') = set_at (cursor e) x (symbols (inner e)) /\ cursor e' = cursor e.
Proof.
  intros [Wi Wc] Hch H. unfold ce_replace in H. apply with_inner_ok in H as (c & Hc & ->).
  destruct (replace_wf _ _ _ _ Wi Hch Hc) as (W' & Hs).
  cbn [inner cursor]. split; [|split; [exact Hs | reflexivity]].
  constructor; cbn [inner cursor]; [assumption|].
  unfold ce_len; cbn [inner]. unfold clen. rewrite Hs, length_set_at. exact Wc.
Qed.

Lemma ce_select_spec e iv e' : wf_ce e -> ib iv < ie iv -> (forall k, ib iv <= k < ie iv -> syl_sym (inner e) k) ->
  ce_select e iv = Ok e' ->
  wf_ce e' /\ symbols (inner e') = symbols (inner e) /\ cursor e' = cursor e /\
  selections (inner e') = filter (fun s => negb (iv_intersect s iv)) (selections (inner e)) ++ [iv].
Proof.
  intros [Wi Wc] Hiv Hsyl H. unfold ce_select in H. destruct (itext iv); [discriminate|].
  apply with_inner_ok in H as (c & Hc & ->).
  destruct (push_selection_wf _ _ _ Wi Hiv Hsyl Hc) as (W' & Hs & Hsel).
  cbn [inner cursor]. split; [|split; [exact Hs | split; [reflexivity | exact Hsel]]].
  constructor; cbn [inner cursor]; [assumption|].
  unfold ce_len; cbn [inner]. unfold clen. rewrite Hs. exact Wc.
Qed.

(* ------------------------------------------------------------------ *)
(* C04: exact image of the selection list under each editing operation.
   A selection (b,e,T) survives - index-shifted - iff the operation does not touch [b,e). *)

Lemma insert_selections c i x c' : comp_insert c i x = Ok c' ->
  selections c' = map (fun s => if Nat.leb i (ib s) then shift_iv 1 s else s)
                      (filter (fun s => negb (Nat.ltb (ib s) i && Nat.ltb i (ie s))) (selections c)).
Proof. unfold comp_insert. destruct (Nat.ltb (clen c) i); [discriminate|]. intros H; inversion H; reflexivity. Qed.

Lemma remove_selections c i c' : comp_remove c i = Ok c' ->
  selections c' = map (fun s => if Nat.leb (ib s) i then s else unshift_iv 1 s)
                      (filter (fun s => negb (Nat.leb (ib s) i && Nat.ltb i (ie s))) (selections c)).
Proof. unfold comp_remove. destruct (negb (Nat.ltb i (clen c))); [discriminate|]. intros H; inversion H; reflexivity. Qed.

Lemma remove_front_selections c n c' : comp_remove_front c n = Ok c' ->
  selections c' = map (unshift_iv n) (filter (fun s => negb (Nat.ltb (ib s) n)) (selections c)).
Proof. unfold comp_remove_front. destruct (Nat.ltb (clen c) n); [discriminate|]. intros H; inversion H; reflexivity. Qed.

(* a selection not touched by an insertion at i survives, shifted when it lies at or after i *)
Lemma insert_keeps_selection c i x c' s : comp_insert c i x = Ok c' ->
  In s (selections c) -> (ie s <= i \/ i <= ib s) ->
  In (if Nat.leb i (ib s) then shift_iv 1 s else s) (selections c').
Proof.
  intros H Hin Hout. rewrite (insert_selections _ _ _ _ H).
  apply in_map_iff. exists s. split; [reflexivity|]. apply filter_In. split; [assumption|].
  apply negb_true_iff, andb_false_iff. destruct Hout; [right; apply Nat.ltb_ge | left; apply Nat.ltb_ge]; lia.
Qed.

Lemma remove_keeps_selection c i c' s : comp_remove c i = Ok c' ->
  In s (selections c) -> (ie s <= i \/ i < ib s) ->
  In (if Nat.leb (ib s) i then s else unshift_iv 1 s) (selections c').
Proof.
  intros H Hin Hout. rewrite (remove_selections _ _ _ H).
  apply in_map_iff. exists s. split; [reflexivity|]. apply filter_In. split; [assumption|].
  apply negb_true_iff, andb_false_iff. destruct Hout; [right; apply Nat.ltb_ge | left; apply Nat.leb_gt]; lia.
Qed.

Lemma remove_front_keeps_selection c n c' s : comp_remove_front c n = Ok c' ->
  In s (selections c) -> n <= ib s -> In (unshift_iv n s) (selections c').
Proof.
  intros H Hin Hout. rewrite (remove_front_selections _ _ _ H).
  apply in_map_iff. exists s. split; [reflexivity|]. apply filter_In. split; [assumption|].
  apply negb_true_iff, Nat.ltb_ge. lia.
Qed.

(* a new choice replaces only the choices it overlaps *)
Lemma push_selection_keeps c iv c' s : comp_push_selection c iv = Ok c' ->
  In s (selections c) -> iv_intersect s iv = false -> In s (selections c').
Proof.
  unfold comp_push_selection. destruct (Nat.ltb (clen c) (ie iv)); [discriminate|].
  intros H Hin Hd. inversion H; subst; cbn [selections]. apply in_app_iff. left.
  apply filter_In. split; [assumption | now rewrite Hd].
Qed.

Lemma push_selection_has c iv c' : comp_push_selection c iv = Ok c' -> In iv (selections c').
Proof.
  unfold comp_push_selection. destruct (Nat.ltb (clen c) (ie iv)); [discriminate|].
  intros H. inversion H; subst; cbn [selections]. apply in_app_iff. right. now left.
Qed.

(* nothing else creates selections *)
Lemma insert_no_new c i x c' s' : comp_insert c i x = Ok c' -> In s' (selections c') ->
  exists s, In s (selections c) /\ (s' = s \/ s' = shift_iv 1 s).
Proof.
  intros H Hin. rewrite (insert_selections _ _ _ _ H) in Hin. apply in_map_iff in Hin as (s & <- & Hs).
  apply filter_In in Hs as [Hs _]. exists s. split; [assumption|]. destruct (Nat.leb i (ib s)); auto.
Qed.
