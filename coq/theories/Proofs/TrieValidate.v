(* validate_index (the structural check of Trie::new added by the fix b1dbe45):
   an index that passes it denotes a shape (Proofs/TrieShape.v) whose size is
   at most the number of records.  The proof follows the validation loop: the
   loop state (i, next) has the pending block [i, next) of records that were
   claimed by a parent and not visited yet; visiting an internal record claims
   the block [next, e) as its children.  Stdlib only. *)
From Coq Require Import NArith List Bool Lia ZArith.
From LC Require Import Base.Lib Model.Utf8 Model.Der Model.Syllable Model.TrieCodec
     Proofs.DerProofs Proofs.TrieFileProofs Proofs.TrieShape.
Import ListNotations.
Open Scope N_scope.

Inductive item := ILeaf (db dl : N) | INode (sh : shape).
Definition isize (it : item) : N := match it with ILeaf _ _ => 1 | INode sh => ssize sh end.
Definition tsize (items : list item) : N := fold_right (fun it a => isize it + a) 0 items.

Section Validate.
  Variable recs : list rec.
  Local Notation nrec := (len_N recs).

  Definition item_at (i : N) (it : item) : Prop :=
    match it with
    | ILeaf db dl => rec_at recs i = Some (db, dl, 0)
    | INode sh => exists rk, rec_at recs i = Some rk /\ r_syl rk <> 0 /\ rdenotes recs rk sh
    end.

  Fixpoint block (i : N) (items : list item) : Prop :=
    match items with
    | [] => True
    | it :: r => item_at i it /\ block (i + 1) r
    end.

  Lemma block_app a : forall i b, block i (a ++ b) <-> block i a /\ block (i + len_N a) b.
  Proof.
    induction a as [|x a IH]; intros i b.
    - cbn [app block]. unfold len_N. cbn [length N.of_nat]. rewrite N.add_0_r. tauto.
    - cbn [app block]. rewrite IH, len_N_cons. replace (i + 1 + len_N a) with (i + (1 + len_N a)) by lia. tauto.
  Qed.

  Lemma tsize_cons it r : tsize (it :: r) = isize it + tsize r.
  Proof. reflexivity. Qed.

  Lemma tsize_app a b : tsize (a ++ b) = tsize a + tsize b.
  Proof. induction a as [|x a IH]; [reflexivity|]. cbn [app]. rewrite !tsize_cons, IH. lia. Qed.

  Lemma map_length_N {A B} (f : A -> B) l : len_N (map f l) = len_N l.
  Proof. unfold len_N. now rewrite map_length. Qed.

  Lemma block_nodes ks : forall j, block j (map INode ks) -> list_at (rdenotes recs) recs j ks.
  Proof.
    induction ks as [|k ks IH]; intros j H; [exact I|].
    cbn [map block item_at] in H. destruct H as [H1 H2]. cbn [list_at]. split; [exact H1|apply IH; exact H2].
  Qed.

  Lemma tsize_nodes ks : tsize (map INode ks) = fsize ks.
  Proof. induction ks as [|k ks IH]; [reflexivity|]. cbn [map]. rewrite tsize_cons, fsize_cons, IH. reflexivity. Qed.

  Lemma item_has_rec i it : item_at i it -> exists r, rec_at recs i = Some r /\ (r_syl r = 0 <-> exists db dl, it = ILeaf db dl).
  Proof.
    destruct it as [db dl|sh]; cbn [item_at].
    - intros H. eexists. split; [exact H|]. cbn [r_syl snd]. split; eauto.
    - intros (rk & H & Hz & _). exists rk. split; [exact H|]. split; [congruence|intros (? & ? & [=])].
  Qed.

  (* items whose records all have a non-zero syllable are internal nodes *)
  Lemma tail_nodes B : forall j, block j B ->
    forallb (fun r => negb (r_syl r =? 0)) (slice_recs recs j (len_N B)) = true ->
    exists ks, B = map INode ks.
  Proof.
    induction B as [|it B IH]; intros j Hb Hf; [exists []; reflexivity|].
    cbn [block] in Hb. destruct Hb as [Hi Hb].
    destruct (item_has_rec _ _ Hi) as (r & Hr & Hz).
    rewrite (slice_recs_cons _ _ _ _ Hr) in Hf by (rewrite len_N_cons; lia).
    cbn [forallb] in Hf. apply andb_true_iff in Hf as [Hf1 Hf2].
    rewrite len_N_cons in Hf2. replace (1 + len_N B - 1) with (len_N B) in Hf2 by lia.
    destruct (IH _ Hb Hf2) as (ks & ->).
    destruct it as [db dl|sh].
    - exfalso. apply negb_true_iff in Hf1. b2p Hf1. apply Hf1. apply Hz. eauto.
    - exists (sh :: ks). reflexivity.
  Qed.

  (* the record r with the children items B is the root of a shape *)
  Lemma shape_of_children r B :
    block (r_begin r) B -> len_N B = r_len r -> 1 <= r_len r -> r_begin r + r_len r <= nrec ->
    range_no_zero recs (r_begin r + 1) (r_len r - 1) = true ->
    exists sh, rdenotes recs r sh /\ ssize sh = 1 + tsize B.
  Proof.
    intros Hb Hl Hge Hle Hnz.
    destruct B as [|it B]; [unfold len_N in Hl; cbn in Hl; lia|].
    cbn [block] in Hb. destruct Hb as [Hi Hb].
    rewrite len_N_cons in Hl.
    unfold range_no_zero in Hnz. replace (r_len r - 1) with (len_N B) in Hnz by lia.
    destruct (tail_nodes B _ Hb Hnz) as (ks & ->).
    assert (Hml : len_N (map INode ks) = len_N ks) by (unfold len_N; now rewrite map_length).
    rewrite Hml in Hl.
    destruct it as [db dl|sh1].
    - exists (Shape (r_syl r) (Some (db, dl)) ks). split.
      + cbn [rdenotes leafbit].
        split; [reflexivity|]. split; [lia|]. split; [lia|]. split; [lia|]. split; [exact Hi|].
        apply block_nodes. exact Hb.
      + rewrite ssize_eq, tsize_cons, tsize_nodes. cbn [isize leafbit]. lia.
    - exists (Shape (r_syl r) None (sh1 :: ks)). split.
      + cbn [rdenotes leafbit].
        split; [reflexivity|]. split; [rewrite len_N_cons; lia|]. split; [lia|]. split; [lia|]. split; [exact I|].
        rewrite N.add_0_r. cbn [list_at]. split; [exact Hi|apply block_nodes; exact Hb].
      + rewrite ssize_eq, fsize_cons, tsize_cons, tsize_nodes. cbn [isize leafbit]. lia.
  Qed.

  (* the loop: the pending block [i, next) consists of items, of total size <= nrec - i *)
  Lemma validate_items : forall fuel i next,
    0 < i -> i <= next -> next <= nrec -> (N.to_nat (nrec - i) < fuel)%nat ->
    validate_from fuel recs nrec i next = true ->
    exists items, len_N items = next - i /\ block i items /\ tsize items <= nrec - i.
  Proof.
    induction fuel as [|fuel IH]; intros i next Hi Hin Hn Hf Hv; [lia|].
    cbn [validate_from] in Hv.
    destruct (i <? next) eqn:E1; b2p E1; cbn [andb negb] in Hv.
    2:{ exists []. replace (next - i) with 0 by lia. repeat split; cbn; lia. }
    destruct (i <? nrec) eqn:E2; b2p E2; [|lia]. cbn [negb] in Hv.
    destruct (rec_at_some recs i E2) as (r & Hr). rewrite Hr in Hv.
    destruct (i =? 0) eqn:E0; b2p E0; [lia|]. cbn [orb andb] in Hv.
    destruct (r_syl r =? 0) eqn:Es; b2p Es; cbn [negb] in Hv.
    - (* a leaf record *)
      destruct (IH (i + 1) next) as (items & Hl & Hb & Ht); try lia; try assumption.
      exists (ILeaf (r_begin r) (r_len r) :: items). split; [rewrite len_N_cons; lia|]. split.
      + cbn [block item_at]. split; [|exact Hb]. rewrite Hr. destruct r as [[a b] c]. cbn in Es. subst c. reflexivity.
      + rewrite tsize_cons. cbn [isize]. lia.
    - (* an internal record: claims [next, e) *)
      destruct (negb (r_begin r =? next) || (r_begin r + r_len r <=? r_begin r) || (nrec <? r_begin r + r_len r)) eqn:Ec;
        [discriminate|].
      apply orb_false_iff in Ec as [Ec Ec3]. apply orb_false_iff in Ec as [Ec1 Ec2].
      apply negb_false_iff in Ec1. b2p Ec1. b2p Ec2. b2p Ec3.
      destruct (negb (range_no_zero recs (r_begin r + 1) (r_len r - 1))) eqn:Ez; [discriminate|].
      apply negb_false_iff in Ez.
      destruct (IH (i + 1) (r_begin r + r_len r)) as (items & Hl & Hb & Ht); try lia; try assumption.
      (* split the pending items into the old block and the children of i *)
      set (k := N.to_nat (next - (i + 1))).
      assert (Hsplit : items = firstn k items ++ skipn k items) by (symmetry; apply firstn_skipn).
      assert (Hk : len_N (firstn k items) = next - (i + 1)).
      { unfold len_N in *. rewrite firstn_length. subst k. lia. }
      assert (Hk2 : len_N (skipn k items) = r_len r).
      { unfold len_N in *. rewrite skipn_length. subst k. lia. }
      rewrite Hsplit in Hb, Ht. apply block_app in Hb as [Hb1 Hb2]. rewrite tsize_app in Ht.
      rewrite Hk in Hb2. replace (i + 1 + (next - (i + 1))) with (r_begin r) in Hb2 by lia.
      destruct (shape_of_children r (skipn k items) Hb2 Hk2) as (sh & Hd & Hs); try lia; try assumption.
      exists (INode sh :: firstn k items). split; [rewrite len_N_cons; lia|]. split.
      + cbn [block item_at]. split; [|exact Hb1]. exists r. repeat split; assumption.
      + rewrite tsize_cons. cbn [isize]. lia.
  Qed.

  Theorem validated_denotes root :
    validate_index recs = true -> rec_at recs 0 = Some root -> r_len root <> 0 ->
    exists sh, rdenotes recs root sh /\ ssize sh <= nrec.
  Proof.
    unfold validate_index. intros Hv Hroot Hlen.
    pose proof (rec_at_lt _ _ _ Hroot) as Hn.
    cbn [validate_from] in Hv.
    destruct (0 <? 1) eqn:E1; b2p E1; [|lia].
    destruct (0 <? nrec) eqn:E2; b2p E2; [|lia]. cbn [andb negb] in Hv.
    rewrite Hroot in Hv. rewrite N.eqb_refl in Hv. cbn [orb andb] in Hv.
    destruct (r_begin root =? r_begin root + r_len root) eqn:Ee; b2p Ee; [lia|].
    destruct (negb (r_begin root =? 1) || (r_begin root + r_len root <=? r_begin root) || (nrec <? r_begin root + r_len root)) eqn:Ec;
      [discriminate|].
    apply orb_false_iff in Ec as [Ec Ec3]. apply orb_false_iff in Ec as [Ec1 Ec2].
    apply negb_false_iff in Ec1. b2p Ec1. b2p Ec2. b2p Ec3.
    destruct (negb (range_no_zero recs (r_begin root + 1) (r_len root - 1))) eqn:Ez; [discriminate|].
    apply negb_false_iff in Ez.
    destruct (validate_items (length recs) (0 + 1) (r_begin root + r_len root)) as (items & Hl & Hb & Ht);
      try lia; try assumption.
    { unfold len_N in *. lia. }
    replace (0 + 1) with (r_begin root) in Hb by lia.
    destruct (shape_of_children root items Hb) as (sh & Hd & Hs); try lia; try assumption.
    exists sh. split; [exact Hd|]. lia.
  Qed.
End Validate.

(* records parsed from bytes have fields within their widths *)
Lemma parse_recs_ok : forall bytes, Forall (fun b => b < 256) bytes -> Forall rec_ok (parse_recs bytes).
Proof.
  fix IH 1. intros bytes H.
  destruct bytes as [|a [|b [|c [|d [|e [|f [|g [|h r]]]]]]]]; try solve [cbn; constructor].
  cbn [parse_recs].
  inversion H as [|? ? Ha H1]; subst. inversion H1 as [|? ? Hb H2]; subst. inversion H2 as [|? ? Hc H3]; subst.
  inversion H3 as [|? ? Hd H4]; subst. inversion H4 as [|? ? He H5]; subst. inversion H5 as [|? ? Hf H6]; subst.
  inversion H6 as [|? ? Hg H7]; subst. inversion H7 as [|? ? Hh H8]; subst.
  apply Forall_cons; [|apply IH; exact H8].
  unfold rec_ok, U32, U16. cbn [r_begin r_len r_syl fst snd]. lia.
Qed.
