(* C08, "with auto-learning disabled, committing never changes the user dictionary", for whole key events: with the
   option set, NO key event in any state changes the dictionary - except the two explicit add-phrase gestures
   (Ctrl-digit in the editing state, Enter while a range is marked), which are the user's own request and no learning.
   Frame lemmas per handler, as Proofs/EngineFrame.v does for the engine.  Stdlib only. *)
From Coq Require Import NArith List Bool Arith Lia.
From LC Require Import Base.Lib Gen.Editor_gen Model.Composition Model.Conversion Model.Editor Model.EditorRun
     Proofs.CompositionProofs Proofs.EditorInv.
Import ListNotations.
Open Scope nat_scope.

Section Frame.
Context {D SY : Type} (dops : dict_ops D) (sops : syl_ops SY) (conv : conv_fn D).
Notation shared' := (shared D SY).
Notation editor' := (editor D SY).

Implicit Types s : shared D SY.
Implicit Types e : editor D SY.

Ltac inv_ok H := inversion H; subst; clear H.
Ltac bind_ok H x Hx := apply obind_ok in H; destruct H as (x & Hx & H).
Ltac split_if H :=
  match type of H with
  | context[if ?c then _ else _] => let E := fresh "E" in destruct c eqn:E
  end.

(* the dictionary and the auto-learning switch *)
Definition dk s : D * bool := (dict s, o_no_learn (opts s)).

Lemma with_com_dk s r s' : with_com s r = Ok s' -> dk s' = dk s.
Proof. unfold with_com. intros H. bind_ok H c Hc. now inv_ok H. Qed.

Lemma switch_language_dk s : dk (switch_language s) = dk s.
Proof. reflexivity. Qed.
Lemma switch_form_dk s : dk (switch_form s) = dk s.
Proof. reflexivity. Qed.

Lemma commit_or_insert_dk s ch s' t : commit_or_insert s ch = Ok (s', t) -> dk s' = dk s.
Proof.
  unfold commit_or_insert. destruct (ce_is_empty (com s)); intros H; [now inv_ok H|].
  bind_ok H x Hx. inv_ok H. eapply with_com_dk; eassumption.
Qed.

Lemma entering_default_dk s ev s' t : entering_default sops s ev = Ok (s', t) -> dk s' = dk s.
Proof.
  intros H. unfold entering_default in H.
  destruct (negb (o_english (opts s))).
  - destruct (N.eqb (kcode ev) kc_Grave && mods_none ev); [now inv_ok H|].
    destruct (N.eqb (kcode ev) kc_Space).
    { destruct (negb (o_fullwidth (opts s))); [eapply commit_or_insert_dk; eassumption|].
      destruct (full_width_symbol_input (kunicode ev)); [eapply commit_or_insert_dk; eassumption | discriminate]. }
    destruct (o_easy_symbol (opts s)).
    { destruct (assoc (kunicode ev) (abbr s)).
      - bind_ok H c Hc. now inv_ok H.
      - destruct (special_symbol_input (kunicode ev)).
        + bind_ok H s1 H1. inv_ok H. eapply with_com_dk; eassumption.
        + destruct (mods_none ev).
          * destruct (so_key_press sops (syl s) ev) as [sy kb]. destruct kb; now inv_ok H.
          * now inv_ok H. }
    set (pressed := if mods_none ev then Some (so_key_press sops (syl s) ev) else None) in *.
    destruct pressed as [[sy kb]|].
    + destruct kb; try (now inv_ok H);
      (destruct (special_symbol_input (kunicode ev));
       [bind_ok H s1 H1; inv_ok H; change (dk s) with (dk (set_syl s sy)); eapply with_com_dk; eassumption|];
       destruct (is_printable ev); [|now inv_ok H];
       destruct (negb (o_fullwidth (opts s)));
       [change (dk s) with (dk (set_syl s sy)); eapply commit_or_insert_dk; eassumption|];
       destruct (full_width_symbol_input (kunicode ev)); [|discriminate];
       change (dk s) with (dk (set_syl s sy)); eapply commit_or_insert_dk; eassumption).
    + destruct (special_symbol_input (kunicode ev));
       [bind_ok H s1 H1; inv_ok H; eapply with_com_dk; eassumption|].
      destruct (is_printable ev); [|now inv_ok H].
      destruct (negb (o_fullwidth (opts s))); [eapply commit_or_insert_dk; eassumption|].
      destruct (full_width_symbol_input (kunicode ev)); [eapply commit_or_insert_dk; eassumption | discriminate].
  - destruct (negb (o_fullwidth (opts s))); [eapply commit_or_insert_dk; eassumption|].
    destruct (full_width_symbol_input (kunicode ev)); [eapply commit_or_insert_dk; eassumption | now inv_ok H].
Qed.

Lemma new_selecting_dk s s' st' :
  (new_phrase_selecting dops s = Ok (s', st') \/ new_phrase_selecting_simple s = Ok (s', st') \/
   exists sym, new_special_selecting s sym = Ok (s', st')) -> dk s' = dk s.
Proof.
  intros [H|[H|(sym & H)]].
  - unfold new_phrase_selecting in H. bind_ok H p Hp. now inv_ok H.
  - unfold new_phrase_selecting_simple in H. bind_ok H p Hp. now inv_ok H.
  - unfold new_special_selecting in H. bind_ok H m Hm. destruct m; now inv_ok H.
Qed.

Lemma start_selecting_common_dk s f s' t : start_selecting_common dops s f = Ok (s', t) ->
  (s', t) = f s \/ dk s' = dk s.
Proof.
  unfold start_selecting_common. destruct (ce_symbol_for_select (com s)) as [sym|].
  - destruct (is_syllable sym); intros H; bind_ok H r Hr; destruct r as [s1 st1]; cbn [fst snd] in H; injection H as Hs Ht; subst s' t; right;
    eapply new_selecting_dk; eauto.
  - intros H. inv_ok H. now left.
Qed.

Lemma commit_dk s s' : o_no_learn (opts s) = true -> commit dops conv s = Ok s' -> dk s' = dk s.
Proof.
  unfold commit. intros Hn H. rewrite Hn in H. bind_ok H s1 H1. inv_ok H1. inv_ok H. reflexivity.
Qed.

Lemma entering_next_dk s ev s' t : o_no_learn (opts s) = true -> (is_digit_code (kcode ev) && mctrl ev) = false ->
  entering_next dops sops conv s ev = Ok (s', t) -> dk s' = dk s.
Proof.
  intros Hn Hnd H. unfold entering_next in H.
  split_if H.
  { split_if H; [now inv_ok H|]. bind_ok H s1 H1. inv_ok H. eapply with_com_dk; eassumption. }
  split_if H; [now inv_ok H|].
  split_if H; [congruence|].
  split_if H; [now inv_ok H|].
  split_if H.
  { split_if H; [now inv_ok H|].
    split_if H; bind_ok H s1 H1; inv_ok H; eapply with_com_dk; eassumption. }
  split_if H.
  { split_if H; [now inv_ok H|]. bind_ok H s1 H1. inv_ok H. eapply with_com_dk; eassumption. }
  split_if H; [now inv_ok H|].
  split_if H; [split_if H; now inv_ok H|].
  split_if H; [split_if H; now inv_ok H|].
  split_if H; [now inv_ok H|].
  split_if H; [now inv_ok H|].
  split_if H; [now inv_ok H|].
  split_if H; [now inv_ok H|].
  split_if H.
  { destruct (start_selecting_common_dk _ _ _ _ H) as [K|K]; [|exact K]. cbv beta in K.
    destruct (ce_is_empty (com s)); now inv_ok K. }
  split_if H.
  { destruct (start_selecting_common_dk _ _ _ _ H) as [K|K]; [|exact K]. cbv beta in K. now inv_ok K. }
  split_if H; [now inv_ok H|].
  split_if H; [bind_ok H s1 H1; inv_ok H; eapply commit_dk; [exact Hn | eassumption]|].
  split_if H; [split_if H; now inv_ok H|].
  split_if H; [eapply commit_or_insert_dk; eassumption|].
  eapply entering_default_dk; eassumption.
Qed.

Lemma entering_syllable_next_dk s ev s' t : entering_syllable_next dops sops s ev = Ok (s', t) -> dk s' = dk s.
Proof.
  intros H. unfold entering_syllable_next in H.
  split_if H; [split_if H; now inv_ok H|].
  split_if H; [now inv_ok H|].
  split_if H; [split_if H; now inv_ok H|].
  destruct (if o_fuzzy (opts s) then so_fuzzy_key_press sops (syl s) ev else so_key_press sops (syl s) ev) as [sy kb].
  destruct kb as [| | | | | | |code]; try (now inv_ok H).
  - split_if H; [|now inv_ok H]. bind_ok H s2 H2.
    assert (S2 : dk s2 = dk s) by (change (dk s) with (dk (set_syl s sy)); eapply with_com_dk; eassumption).
    destruct (o_engine _).
    + bind_ok H r Hr. destruct r as [s3 st3]. cbn [fst snd] in H. injection H as Hs Ht. subst s' t.
      rewrite (new_selecting_dk _ s3 st3 (or_intror (or_introl Hr))). unfold dk in *. cbn [dict opts set_syl] in *. exact S2.
    + inv_ok H. unfold dk in *. cbn [dict opts set_syl] in *. exact S2.
    + inv_ok H. unfold dk in *. cbn [dict opts set_syl] in *. exact S2.
  - split_if H; [bind_ok H s2 H2|]; inv_ok H; [|reflexivity].
    change (dk s) with (dk (set_syl s sy)). eapply with_com_dk; eassumption.
Qed.

Lemma highlighting_next_dk s ev mv s' t mv' : N.eqb (kcode ev) kc_Enter = false ->
  highlighting_next dops conv s ev mv = Ok (s', t, mv') -> dk s' = dk s.
Proof.
  intros Hne H. unfold highlighting_next in H. rewrite Hne in H.
  split_if H; [now inv_ok H|]. split_if H; [now inv_ok H|]. split_if H; [now inv_ok H|]. now inv_ok H.
Qed.

Lemma selecting_select_offset_dk s pg act sel n s' t pg' sel' :
  selecting_select_offset dops sops s pg act sel n = Ok (s', t, pg', sel') -> dk s' = dk s.
Proof.
  intros H. unfold selecting_select_offset in H. destruct sel as [p|y|sym0].
  - bind_ok H cands Hc. destruct (nth_error cands _); [bind_ok H c1 H1|]; now inv_ok H.
  - destruct (Nat.leb _ _); [now inv_ok H|].
    bind_ok H r Hr. destruct r as [y' res]. destruct res; [bind_ok H c1 H1|]; now inv_ok H.
  - bind_ok H m Hm. destruct (Nat.leb _ _); [now inv_ok H|].
    bind_ok H res Hr. destruct res; [bind_ok H c1 H1|]; now inv_ok H.
Qed.

Lemma selecting_next_dk s ev pg act sel s' t pg' sel' :
  selecting_next dops sops s ev pg act sel = Ok (s', t, pg', sel') -> dk s' = dk s.
Proof.
  intros H. unfold selecting_next in H. cbv zeta in H.
  split_if H; [now inv_ok H|].
  split_if H; [now inv_ok H|].
  split_if H; [now inv_ok H|].
  split_if H; [now inv_ok H|].
  split_if H.
  { bind_ok H tp Htp. split_if H; [now inv_ok H|].
    destruct sel as [p|y|sym0]; [bind_ok H p' Hp'|..]; now inv_ok H. }
  split_if H; [split_if H; [now inv_ok H|]; bind_ok H sel1 Hs1; now inv_ok H|].
  split_if H; [split_if H; [now inv_ok H|]; bind_ok H sel1 Hs1; now inv_ok H|].
  split_if H; [split_if H; [now inv_ok H|]; bind_ok H tp Htp; now inv_ok H|].
  split_if H; [bind_ok H tp Htp; split_if H; now inv_ok H|].
  split_if H; [eapply selecting_select_offset_dk; exact H|].
  split_if H; [now inv_ok H|].
  split_if H; now inv_ok H.
Qed.

Lemma try_auto_commit_dk s s' : try_auto_commit conv s = Ok s' -> dk s' = dk s.
Proof.
  unfold try_auto_commit. intros H. split_if H; [now inv_ok H|].
  bind_ok H r Hr. destruct r as [buf rm]. bind_ok H c Hc. now inv_ok H.
Qed.

Lemma flush_dirty_dk s : dk (flush_dirty s) = dk s.
Proof. unfold flush_dirty. destruct (N.ltb 0 (dirty s)); reflexivity. Qed.

Lemma apply_transition_dk s old t : dk (fst (apply_transition s old t)) = dk s.
Proof. destruct t; reflexivity. Qed.

(* the explicit add-phrase gestures *)
Definition adds_phrase (st0 : estate) (ev : keyevent) : bool :=
  match st0 with
  | Entering => is_digit_code (kcode ev) && mctrl ev
  | Highlighting _ => N.eqb (kcode ev) kc_Enter
  | _ => false
  end.

(* with auto-learning disabled no other key event, in any state, changes the dictionary (nor the switch) *)
Theorem process_keyevent_dk e ev e' b : o_no_learn (opts (sh e)) = true -> adds_phrase (st e) ev = false ->
  process_keyevent dops sops conv e ev = Ok (e', b) -> dk (sh e') = dk (sh e).
Proof.
  intros Hn Ha H. unfold process_keyevent in H.
  set (s0 := set_notice (set_lifetime (sh e) (lifetime (sh e) + 1)%N) []) in *.
  set (s1 := set_commit s0 []) in *.
  assert (E1 : dk s1 = dk (sh e)) by reflexivity.
  assert (Hn1 : o_no_learn (opts s1) = true) by exact Hn.
  bind_ok H r Hr. destruct r as [s2 st2]. bind_ok H s3 H3. injection H as He Hb. subst e'. cbn [sh].
  rewrite flush_dirty_dk.
  assert (K : dk s2 = dk (sh e)).
  { rewrite <- E1. destruct (st e) as [| |pg act sel|mv]; cbn [adds_phrase] in Ha.
    - bind_ok Hr r Hr1. destruct r as [sa ta]. cbn [fst snd] in Hr. injection Hr as Hap.
      rewrite <- (entering_next_dk _ _ _ _ Hn1 Ha Hr1). rewrite <- (apply_transition_dk sa Entering ta). now rewrite Hap.
    - bind_ok Hr r Hr1. destruct r as [sa ta]. cbn [fst snd] in Hr. injection Hr as Hap.
      rewrite <- (entering_syllable_next_dk _ _ _ _ Hr1). rewrite <- (apply_transition_dk sa EnteringSyllable ta). now rewrite Hap.
    - bind_ok Hr r Hr1. destruct r as [[[sa ta] pg'] sel']. injection Hr as Hap.
      rewrite <- (selecting_next_dk _ _ _ _ _ _ _ _ _ Hr1). rewrite <- (apply_transition_dk sa (Selecting pg' act sel') ta). now rewrite Hap.
    - bind_ok Hr r Hr1. destruct r as [[sa ta] mv']. injection Hr as Hap.
      rewrite <- (highlighting_next_dk _ _ _ _ _ _ Ha Hr1). rewrite <- (apply_transition_dk sa (Highlighting mv') ta). now rewrite Hap. }
  destruct (is_entering st2 && behavior_eqb (last s2) BAbsorb).
  - rewrite (try_auto_commit_dk _ _ H3). exact K.
  - inv_ok H3. exact K.
Qed.

(* ... and so no sequence of such key events does: typing, choosing, cycling alternatives, committing with Enter,
   auto-commit - whatever the keys, as long as none of them is one of the two add-phrase gestures in the state
   it arrives in *)
Fixpoint quiet_keys (e : editor') (evs : list keyevent) : Prop :=
  match evs with
  | [] => True
  | ev :: rest =>
    adds_phrase (st e) ev = false /\
    match process_keyevent dops sops conv e ev with Ok (e1, _) => quiet_keys e1 rest | _ => True end
  end.

Theorem keys_dk : forall evs e e', o_no_learn (opts (sh e)) = true -> quiet_keys e evs ->
  run dops sops conv e (map OpKey evs) = Ok e' -> dk (sh e') = dk (sh e).
Proof.
  induction evs as [|ev rest IH]; intros e e' Hn Hq H; cbn [map run] in H; [now inv_ok H|].
  cbn [quiet_keys] in Hq. destruct Hq as (Ha & Hq). cbn [step] in H. unfold fst_ok in H.
  destruct (process_keyevent dops sops conv e ev) as [[e1 b]| | |] eqn:E; try discriminate.
  pose proof (process_keyevent_dk _ _ _ _ Hn Ha E) as K.
  assert (Hn1 : o_no_learn (opts (sh e1)) = true) by (unfold dk in K; injection K as _ K2; now rewrite K2).
  rewrite <- K. eapply IH; [exact Hn1 | exact Hq | exact H].
Qed.

End Frame.
