(* C14 completeness: the readings the search cannot enter (they mirror the open
   entries of /verif/KNOWN_FINDINGS.json; keep the two in sync) and the checker of
   the per-keyboard completeness sweeps. *)
From Coq Require Import NArith List Bool.
From LC Require Import Base.Lib Gen.Readings_gen Model.Layout Model.LayoutSearch.
Import ListNotations.
Open Scope N_scope.

(* layout -> readings of data/word.src that no key sequence enters (syllable codes):
     hsu    ㄝˋ ㄑ˙ ㄟˋ      (ALT_TABLE lists toneless syllables only; ㄑ alone becomes ㄔ)
     et26   ㄝˋ ㄟˋ
     dc26   ㄝ ㄝˋ ㄥ ˇ ˋ ˊ ˙ (ㄝ / ㄥ share a key with ㄖ / ㄙ; no ALT_TABLE)
     hanyu  ㄧㄞˊ             (no final "iai" / "yai")
     thl, mps2  ㄐ ㄧㄞˊ ㄈㄨㄥˋ  (bare j is ㄓ; -ung after ㄈ is read as -eng) *)
Definition known_unreachable (L : N) : list N :=
  match L with
  | 1 => [36; 6657; 52]
  | 5 => [36; 52]
  | 6 => [32; 36; 96; 3; 4; 2; 1]
  | 7 => [170]
  | 8 => [6144; 170; 2404]
  | 9 => [6144; 170; 2404]
  | _ => []
  end.

Definition chk_exact (kb L : N) : bool :=
  list_eqb N.eqb (unreachable_readings kb L) (known_unreachable L).
