(* C14: complete one-step sweep of syllable-state layout 2 (see Model/Layout.v for the
   numbering): every well-formed syllable state x every key class (key_press and
   fuzzy_key_press) + remove_last + clear.  One file per layout so that make runs
   them in parallel. *)
From Coq Require Import NArith List Bool.
From LC Require Import Base.Lib Proofs.SyllableProofs Proofs.LayoutDefs.
Open Scope N_scope.

Lemma sweep_layout_2 : forall_comps (chk_state 2) = true.
Proof. vm_cast_no_check (eq_refl true). Qed.
