(* Witnesses (by computation on the faithful model) of statements that were false on the
   pinned tree; each was replayed on the implementation and then repaired by a `fix:` commit
   (see KNOWN_FINDINGS.json).  The witnesses are stated against explicit variants of the
   pre-fix definitions so that they keep compiling after the model follows the fixed code. *)
From Coq Require Import NArith List Bool Arith.
From LC Require Import Base.Lib Gen.Editor_gen Model.Syllable Model.Composition Model.Conversion Model.Editor Model.EditorRun Model.EdInst.
Import ListNotations.
Open Scope nat_scope.

Definition conv_single {D : Type} : conv_fn D :=
  fun _ _ c _ => map (fun i => mkIv i (S i) true [20013%N]) (seq 0 (clen c)).

Definition key (code : N) (uni : N) : keyevent := mkKey code code uni false false false false.
Definition empty_dict : memdict := mkMD [] [] [].
Definition e0 : med := m_init empty_dict [] ss_empty 0%N.
Definition english (o : options) : options := set_english o true.

(* ---- C02, pre-fix (422bee4^): process_keyevent cleared the commit buffer only when the
   previous result was Commit ---- *)
Definition process_keyevent_prefix (e : med) (ev : keyevent) : outcome (med * behavior) :=
  let s0 := set_notice (set_lifetime (sh e) (lifetime (sh e) + 1)%N) [] in
  let s1 := match last s0 with BCommit => set_commit s0 [] | _ => s0 end in
  do r <- match st e with
          | Entering => do r <- entering_next md_ops std_ops conv_single s1 ev; Ok (apply_transition (fst r) Entering (snd r))
          | _ => Panic 0%N
          end;
  let '(s2, st2) := r in
  do s3 <- (if is_entering st2 && behavior_eqb (last s2) BAbsorb then try_auto_commit conv_single s2 else Ok s2);
  let s4 := flush_dirty s3 in
  Ok (mkEditor s4 st2, last s4).

(* witnesses are computed step by step on closed terms (vm_compute under the existential binders
   would evaluate the later steps on a symbolic editor) *)
Definition pick (r : outcome (med * behavior)) : med := match r with Ok (e, _) => e | _ => e0 end.
Definition pickb (r : outcome (med * bool)) : med := match r with Ok (e, _) => e | _ => e0 end.
Definition english_e0 : med := ed_set_options std_ops e0 (english default_options).
Definition p1 : med := Eval vm_compute in pick (process_keyevent_prefix english_e0 (key kc_X 120%N)).
Definition p2 : med := Eval vm_compute in pickb (m_start_selecting p1).
Definition p3 : med := Eval vm_compute in pick (process_keyevent_prefix p2 (key kc_Left 65533%N)).

(* English mode, key x (committed at once), chewing_cand_open (fails; overwrites the last key
   result), Left: the key is Ignored but the commit string "x" is still reported *)
Lemma C02_stale_commit_refuted_prefix :
  exists e1 e2 e3,
    process_keyevent_prefix (ed_set_options std_ops e0 (english default_options)) (key kc_X 120%N) = Ok (e1, BCommit) /\
    m_start_selecting e1 = Ok (e2, false) /\
    process_keyevent_prefix e2 (key kc_Left 65533%N) = Ok (e3, BIgnore) /\
    commit_buf (sh e3) = [120%N].
Proof. exists p1, p2, p3. vm_compute. repeat split. Qed.

Definition f1 : med := Eval vm_compute in pick (m_key conv_single english_e0 (key kc_X 120%N)).
Definition f2 : med := Eval vm_compute in pickb (m_start_selecting f1).
Definition f3 : med := Eval vm_compute in pick (m_key conv_single f2 (key kc_Left 65533%N)).

(* the same history on the model of the fixed code reports no commit string *)
Lemma C02_stale_commit_fixed :
  exists e1 e2 e3,
    m_key conv_single (ed_set_options std_ops e0 (english default_options)) (key kc_X 120%N) = Ok (e1, BCommit) /\
    m_start_selecting e1 = Ok (e2, false) /\
    m_key conv_single e2 (key kc_Left 65533%N) = Ok (e3, BIgnore) /\
    commit_buf (sh e3) = [].
Proof. exists f1, f2, f3. vm_compute. repeat split. Qed.
