(* The BFS layout of TrieBuilder::write (Model/TrieCodec.v bfs): the index it
   produces denotes (Proofs/TrieShape.v) a shape that mirrors the builder's
   tree, with every leaf's phrase slice equal to the DER encoding of the sorted
   leaf.  Invariant of the loop: counter = records written + queue length =
   index of the record the next enqueued node will get.  Stdlib only. *)
From Coq Require Import NArith List Bool Lia ZArith Permutation.
From LC Require Import Base.Lib Model.Utf8 Model.Der Model.Syllable Model.TrieCodec Gen.Trie_gen
     Proofs.DerProofs Proofs.TrieFileProofs Proofs.TrieShape.
Import ListNotations.
Open Scope N_scope.

(* ---- the stable insertion sort ---- *)
Lemma sinsert_perm {A} (le : A -> A -> bool) x l : Permutation (sinsert le x l) (x :: l).
Proof.
  induction l as [|y l IH]; cbn [sinsert]; [apply Permutation_refl|].
  destruct (le x y); [apply Permutation_refl|].
  eapply Permutation_trans; [apply perm_skip; exact IH|apply perm_swap].
Qed.

Lemma ssort_perm {A} (le : A -> A -> bool) l : Permutation (ssort le l) l.
Proof.
  induction l as [|x l IH]; cbn [ssort]; [apply Permutation_refl|].
  eapply Permutation_trans; [apply sinsert_perm|apply perm_skip; exact IH].
Qed.

Lemma ssort_Forall {A} (P : A -> Prop) le l : Forall P l -> Forall P (ssort le l).
Proof.
  intros H. rewrite Forall_forall in *. intros x Hx. apply H.
  eapply Permutation_in; [apply ssort_perm|exact Hx].
Qed.

Lemma ssort_length {A} (le : A -> A -> bool) l : length (ssort le l) = length l.
Proof. apply Permutation_length. apply ssort_perm. Qed.

(* ---- what the theorem assumes about a builder tree ----
   every leaf is non-empty, holds valid phrases and encodes to fewer than 2^16
   bytes (Data Len is 16 bit); every node has fewer than 2^16 children incl.
   the leaf (Child Len is 16 bit) and at least one; child syllables are
   non-zero u16 values. *)
Definition leaf_cap (ps : list phrase) : Prop :=
  ps <> [] /\ Forall phrase_ok ps /\ exists b, enc_phrases (sort_leaf ps) = Some b /\ len_N b < U16.

Fixpoint tok (t : tnode) : Prop :=
  match t with
  | TNode leaf ch =>
    (match leaf with Some ps => leaf_cap ps | None => True end) /\
    len_N (kids_of (TNode leaf ch)) < U16 /\ kids_of (TNode leaf ch) <> [] /\
    fold_right (fun sc a => (fst sc <> 0 /\ fst sc < U16 /\ tok (snd sc)) /\ a) True ch
  end.

Definition child_ok (sc : N * tnode) : Prop := fst sc <> 0 /\ fst sc < U16 /\ tok (snd sc).

Lemma tok_children leaf ch : tok (TNode leaf ch) -> Forall child_ok ch.
Proof.
  cbn [tok]. intros (_ & _ & _ & H). induction ch as [|sc ch IH]; [constructor|].
  cbn [fold_right] in H. destruct H as [H1 H2]. constructor; [exact H1|apply IH; exact H2].
Qed.

Definition qitem_ok (it : qitem) : Prop :=
  match it with
  | QNode syl t => tok t
  | QLeaf ps => leaf_cap ps
  end.

Lemma kids_ok_of t : tok t -> Forall qitem_ok (kids_of t).
Proof.
  intros H. destruct t as [leaf ch]. pose proof (tok_children _ _ H) as Hc.
  cbn [tok] in H. destruct H as (Hl & _).
  unfold kids_of. cbn [tleaf tchildren]. apply Forall_app. split.
  - destruct leaf; constructor; [exact Hl|constructor].
  - apply Forall_map. apply ssort_Forall. eapply Forall_impl; [|exact Hc].
    intros sc (_ & _ & Ht). exact Ht.
Qed.

(* ---- mirror: a shape that mirrors a builder node ---- *)
Definition leaf_mirror (data : list N) (l : option (list phrase)) (s : option (N * N)) : Prop :=
  match l, s with
  | None, None => True
  | Some ps, Some (db, dl) =>
    exists b, Forall phrase_ok ps /\ enc_phrases (sort_leaf ps) = Some b /\ slice_bytes data db dl = b /\
              dl = len_N b /\ dl <> 0 /\ db + dl <= len_N data
  | _, _ => False
  end.

Inductive mirror (data : list N) : N -> tnode -> shape -> Prop :=
| mirror_intro syl t l kids :
    leaf_mirror data (tleaf t) l ->
    Forall2 (fun sc k => mirror data (fst sc) (snd sc) k) (sort_children (tchildren t)) kids ->
    mirror data syl t (Shape syl l kids).

(* ---- representation of a queue item at a record index ---- *)
Definition item_repr (recs : list rec) (data : list N) (it : qitem) (i : N) : Prop :=
  match it with
  | QLeaf ps =>
    exists db dl, rec_at recs i = Some (db, dl, 0) /\ leaf_mirror data (Some ps) (Some (db, dl))
  | QNode syl t =>
    exists r sh, rec_at recs i = Some r /\ rdenotes recs r sh /\ mirror data syl t sh
  end.

Fixpoint items_repr (recs : list rec) (data : list N) (q : list qitem) (i : N) : Prop :=
  match q with
  | [] => True
  | it :: q' => item_repr recs data it i /\ items_repr recs data q' (i + 1)
  end.

Lemma items_repr_app recs data a : forall b i,
  items_repr recs data (a ++ b) i <-> items_repr recs data a i /\ items_repr recs data b (i + len_N a).
Proof.
  induction a as [|x a IH]; intros b i.
  - cbn [app items_repr]. unfold len_N. cbn [length N.of_nat]. rewrite N.add_0_r. tauto.
  - cbn [app items_repr]. rewrite IH, len_N_cons. replace (i + 1 + len_N a) with (i + (1 + len_N a)) by lia. tauto.
Qed.

(* ---- prefixes ---- *)
Lemma rec_at_app_l (a b : list rec) i r : rec_at a i = Some r -> rec_at (a ++ b) i = Some r.
Proof.
  unfold rec_at. intros H. rewrite nth_error_app1; [exact H|].
  apply nth_error_Some. congruence.
Qed.

Lemma rec_at_middle (a b : list rec) r : rec_at (a ++ r :: b) (len_N a) = Some r.
Proof.
  unfold rec_at. rewrite to_nat_len_N. rewrite nth_error_app2 by lia. rewrite Nat.sub_diag. reflexivity.
Qed.

Lemma slice_bytes_middle (a b c : list N) : slice_bytes (a ++ b ++ c) (len_N a) (len_N b) = b.
Proof.
  unfold slice_bytes. rewrite !to_nat_len_N.
  rewrite skipn_app, skipn_all, Nat.sub_diag. cbn [skipn app].
  rewrite firstn_app, firstn_all, Nat.sub_diag. cbn [firstn]. apply app_nil_r.
Qed.

(* bfs only appends *)
Lemma bfs_extends : forall fuel q cb dict data dict' data',
  bfs fuel q cb dict data = Ok (dict', data') ->
  exists d1 d2, dict' = dict ++ d1 /\ data' = data ++ d2 /\ len_N q <= len_N d1.
Proof.
  induction fuel as [|fuel IH]; intros q cb dict data dict' data' H.
  - destruct q; cbn [bfs] in H; [|discriminate]. injection H as <- <-.
    exists [], []. rewrite !app_nil_r. repeat split. unfold len_N. cbn. lia.
  - destruct q as [|it q']; cbn [bfs] in H.
    + injection H as <- <-. exists [], []. rewrite !app_nil_r. repeat split. unfold len_N. cbn. lia.
    + destruct it as [syl t|ps].
      * apply IH in H as (d1 & d2 & -> & -> & Hl).
        exists ((cb mod U32, len_N (kids_of t) mod U16, syl) :: d1), d2. rewrite <- app_assoc. repeat split.
        rewrite len_N_app in Hl. rewrite !len_N_cons. lia.
      * destruct (enc_phrases (sort_leaf ps)) as [bytes|]; [|discriminate].
        apply IH in H as (d1 & d2 & -> & -> & Hl).
        exists ((len_N data mod U32, len_N bytes mod U16, 0) :: d1), (bytes ++ d2). rewrite <- !app_assoc. repeat split.
        rewrite !len_N_cons. lia.
Qed.

Lemma bfs_longer fuel q cb dict data dict' data' :
  bfs fuel q cb dict data = Ok (dict', data') ->
  len_N dict + len_N q <= len_N dict' /\ len_N data <= len_N data'.
Proof.
  intros H. apply bfs_extends in H as (d1 & d2 & -> & -> & Hl).
  rewrite !len_N_app. lia.
Qed.

Lemma map_length_N' {A B} (f : A -> B) l : len_N (map f l) = len_N l.
Proof. unfold len_N. now rewrite map_length. Qed.

(* ---- the layout invariant ---- *)
Lemma kids_shapes recs data scs : Forall child_ok scs ->
  forall j, items_repr recs data (map (fun sc => QNode (fst sc) (snd sc)) scs) j ->
  exists ks, list_at (rdenotes recs) recs j ks /\
             Forall2 (fun sc k => mirror data (fst sc) (snd sc) k) scs ks /\
             len_N ks = len_N scs.
Proof.
  induction scs as [|sc scs IH]; intros Hsorted j Hj.
  - exists []. split; [exact I|]. split; [constructor|reflexivity].
  - inversion Hsorted as [|? ? Hsc Hscs]; subst.
    cbn [map items_repr item_repr] in Hj. destruct Hj as ((r & sh & Hr & Hd & Hm) & Hrest).
    destruct (IH Hscs (j + 1) Hrest) as (ks & Hat & HF & Hl).
    exists (sh :: ks). split; [|split].
    + cbn [list_at]. split; [|exact Hat]. exists r. split; [exact Hr|]. split; [|exact Hd].
      inversion Hm; subst. cbn [rdenotes] in Hd. destruct Hd as (Hs & _). rewrite Hs.
      destruct Hsc as (Hz & _). exact Hz.
    + constructor; assumption.
    + rewrite !len_N_cons. lia.
Qed.

Lemma build_shape recs data syl t cb :
  tok t ->
  items_repr recs data (kids_of t) cb ->
  cb + len_N (kids_of t) <= len_N recs ->
  exists sh, rdenotes recs (cb, len_N (kids_of t), syl) sh /\ mirror data syl t sh.
Proof.
  intros Hok Hrep Hle. destruct t as [leaf ch].
  pose proof (tok_children _ _ Hok) as Hch.
  cbn [tok] in Hok. destruct Hok as (Hleaf & Hcap & Hne & _).
  unfold kids_of in *. cbn [tleaf tchildren] in *.
  assert (Hsorted : Forall child_ok (sort_children ch)) by (apply ssort_Forall; exact Hch).
  pose proof (kids_shapes recs data (sort_children ch) Hsorted) as Hkids.
  destruct leaf as [ps|].
  - cbn [app items_repr item_repr] in Hrep. destruct Hrep as ((db & dl & Hr & Hlm) & Hrest).
    destruct (Hkids (cb + 1) Hrest) as (ks & Hat & HF & Hl).
    exists (Shape syl (Some (db, dl)) ks). split.
    + cbn [rdenotes r_syl r_len r_begin fst snd leafbit].
      split; [reflexivity|]. split.
      { rewrite len_N_app, len_N_cons, map_length_N', Hl. unfold len_N at 1. cbn. lia. }
      split. { rewrite len_N_app, len_N_cons. lia. }
      split; [exact Hle|]. split; [exact Hr|exact Hat].
    + constructor; [exact Hlm|exact HF].
  - cbn [app] in Hrep. destruct (Hkids cb Hrep) as (ks & Hat & HF & Hl).
    exists (Shape syl None ks). split.
    + cbn [rdenotes r_syl r_len r_begin fst snd leafbit].
      split; [reflexivity|]. split.
      { cbn [app]. rewrite map_length_N', Hl. lia. }
      split.
      { cbn [app] in *. destruct (sort_children ch); [cbn in Hne; congruence|]. cbn [map]. rewrite len_N_cons. lia. }
      split; [exact Hle|]. split; [exact I|]. rewrite N.add_0_r. exact Hat.
    + constructor; [exact I|exact HF].
Qed.

Lemma bfs_repr : forall fuel q cb dict data dict' data',
  bfs fuel q cb dict data = Ok (dict', data') ->
  cb = len_N dict + len_N q ->
  len_N dict' < U32 -> len_N data' < U32 ->
  Forall qitem_ok q ->
  items_repr dict' data' q (len_N dict).
Proof.
  induction fuel as [|fuel IH]; intros q cb dict data dict' data' H Hcb Hd Hdt Hq.
  - destruct q; cbn [bfs] in H; [exact I|discriminate].
  - destruct q as [|it q']; [exact I|].
    inversion Hq as [|? ? Hit Hq']; subst.
    cbn [bfs] in H. destruct it as [syl t|ps].
    + (* an internal node: its record, then its kids at the end of the queue *)
      pose proof H as Hext. apply bfs_extends in Hext as (d1 & d2 & Hd1 & _ & _).
      pose proof (bfs_longer _ _ _ _ _ _ _ H) as (Hlong & _).
      cbn [qitem_ok] in Hit.
      assert (Hkq : Forall qitem_ok (q' ++ kids_of t)) by (apply Forall_app; split; [exact Hq'|apply kids_ok_of; exact Hit]).
      set (cb := len_N dict + len_N (QNode syl t :: q')) in *.
      set (r0 := (cb mod U32, len_N (kids_of t) mod U16, syl)) in *.
      assert (Hl1 : len_N (dict ++ [r0]) = len_N dict + 1) by (rewrite len_N_app; reflexivity).
      assert (Hcbv : cb = len_N dict + 1 + len_N q') by (unfold cb; rewrite len_N_cons; lia).
      assert (Hrep : items_repr dict' data' (q' ++ kids_of t) (len_N dict + 1)).
      { rewrite <- Hl1. eapply IH; [exact H| |assumption|assumption|assumption].
        rewrite Hl1, len_N_app. lia. }
      apply items_repr_app in Hrep as [Hq1 Hk].
      cbn [items_repr]. split; [|exact Hq1]. cbn [item_repr].
      rewrite Hl1, len_N_app in Hlong.
      assert (Hcb32 : cb mod U32 = cb) by (apply N.mod_small; lia).
      assert (Hn16 : len_N (kids_of t) mod U16 = len_N (kids_of t)).
      { apply N.mod_small. destruct t. cbn [tok] in Hit. tauto. }
      assert (Hrec : rec_at dict' (len_N dict) = Some (cb, len_N (kids_of t), syl)).
      { rewrite Hd1. rewrite <- app_assoc. cbn [app]. unfold r0. rewrite Hcb32, Hn16. apply rec_at_middle. }
      rewrite <- Hcbv in Hk.
      destruct (build_shape dict' data' syl t cb Hit Hk) as (sh & Hden & Hmir); [lia|].
      exists (cb, len_N (kids_of t), syl), sh. split; [exact Hrec|]. split; assumption.
    + (* a leaf: its phrases are appended to the data *)
      cbn [qitem_ok] in Hit. destruct Hit as (Hne & Hpok & (b & Hb & Hb16)).
      rewrite Hb in H.
      pose proof H as Hext. apply bfs_extends in Hext as (d1 & d2 & Hd1 & Hd2 & _).
      pose proof (bfs_longer _ _ _ _ _ _ _ H) as (_ & Hlong2).
      set (r0 := (len_N data mod U32, len_N b mod U16, 0)) in *.
      assert (Hl1 : len_N (dict ++ [r0]) = len_N dict + 1) by (rewrite len_N_app; reflexivity).
      assert (Hrep : items_repr dict' data' q' (len_N dict + 1)).
      { rewrite <- Hl1. eapply IH; [exact H| |assumption|assumption|assumption].
        rewrite Hl1, len_N_cons. lia. }
      cbn [items_repr]. split; [|exact Hrep]. cbn [item_repr].
      rewrite len_N_app in Hlong2.
      assert (H32 : len_N data mod U32 = len_N data) by (apply N.mod_small; lia).
      assert (H16 : len_N b mod U16 = len_N b) by (apply N.mod_small; exact Hb16).
      exists (len_N data), (len_N b). split.
      * rewrite Hd1. rewrite <- app_assoc. cbn [app]. unfold r0. rewrite H32, H16. apply rec_at_middle.
      * cbn [leaf_mirror]. exists b. split; [exact Hpok|]. split; [exact Hb|]. split.
        { rewrite Hd2. rewrite <- app_assoc. apply slice_bytes_middle. }
        split; [reflexivity|]. split.
        { intros Hz. destruct (sort_leaf ps) as [|p ps'] eqn:Es.
          - apply (f_equal (@length phrase)) in Es. unfold sort_leaf in Es. rewrite ssort_length in Es.
            destruct ps; [congruence|discriminate].
          - cbn [enc_phrases] in Hb. apply oapp_some in Hb as (x & y & Hx & _ & ->).
            apply enc_phrase_nonempty in Hx. rewrite len_N_app in Hz. destruct x; [congruence|].
            rewrite len_N_cons in Hz. lia. }
        rewrite Hd2, <- app_assoc, !len_N_app. lia.
Qed.
