(* C16 through the C context model, for the two numeric options whose read-back could depend on what the editor
   holds at the moment of the call: chewing.auto_commit_threshold (chewing_set_maxChiSymbolLen) and
   chewing.candidates_per_page.  In ANY context - whatever the buffer holds, an open candidate list, a half-typed
   syllable - a value of the documented range is accepted and read back unchanged; any other int is refused and
   the context is the one before. *)
From Coq Require Import NArith ZArith List Bool String Lia.
From LC Require Import Base.Lib Gen.Keyboard_gen Gen.Capi_gen Gen.Editor_gen Model.Composition Model.Conversion Model.Editor
     Model.EditorRun Model.EdInst Model.CapiKeys Model.CapiConfig Model.CapiRun Proofs.EngineFrame.
From LC Require Model.Config.
Import ListNotations.
Open Scope Z_scope.

Lemma as_c_int_small z : 0 <= z <= 2147483647 -> Config.as_c_int z = z.
Proof.
  intros H. unfold Config.as_c_int.
  replace ((z + 2147483648) mod 4294967296) with (z + 2147483648); [lia|].
  symmetry. apply Z.mod_small. lia.
Qed.

Lemma set_options_opts (e : medl) o e' : ml_set_options mdf_ops e o = Ok e' -> opts (sh e') = o.
Proof.
  unfold ml_set_options, ed_set_options_c. intros H. apply (clamp_page_sh mdf_ops lay_ops) in H. rewrite H.
  unfold ed_set_options. cbn [sh]. destruct (negb _); reflexivity.
Qed.

Theorem c_threshold_reads_back c v c' rc :
  config_set_int_c c (Config.iopt_name Config.OAutoCommitThreshold) v = Ok (c', rc) ->
  (0 <= v <= 39 -> rc = c_OK /\ config_get_int_c c' (Config.iopt_name Config.OAutoCommitThreshold) = v) /\
  (~ 0 <= v <= 39 -> rc = c_ERROR /\ c' = c).
Proof.
  intros H. unfold config_set_int_c in H. unfold set_int_global_reject in H.
  change (Config.parse_iopt (Config.iopt_name Config.OAutoCommitThreshold)) with (Some Config.OAutoCommitThreshold) in H.
  cbn [Config.apply_iopt] in H. unfold set_int_reject_auto_commit_threshold in H.
  destruct (v <? 0) eqn:E0.
  - apply Z.ltb_lt in E0. inversion H; subst. split; [lia | auto].
  - apply Z.ltb_ge in E0. destruct ((0 <=? v) && (v <=? 39)) eqn:Er; cbn [negb] in H.
    + apply andb_true_iff in Er as (A & B). apply Z.leb_le in A, B.
      match type of H with match ?r with _ => _ end = _ => destruct r as [e2| | |] eqn:Es; try discriminate end.
      inversion H; subst. split; [|lia]. intros _. split; [reflexivity|].
      unfold config_get_int_c.
      change (Config.parse_iopt (Config.iopt_name Config.OAutoCommitThreshold)) with (Some Config.OAutoCommitThreshold).
      cbn [cx_ed with_ed]. rewrite (set_options_opts _ _ _ Es). cbn. rewrite Z2Nat.id by lia. apply as_c_int_small. lia.
    + inversion H; subst. split; [|auto]. intros R. exfalso.
      assert (X : (0 <=? v) && (v <=? 39) = true) by (apply andb_true_iff; split; apply Z.leb_le; lia). congruence.
Qed.

Theorem c_per_page_reads_back c v c' rc :
  config_set_int_c c (Config.iopt_name Config.OCandidatesPerPage) v = Ok (c', rc) ->
  (1 <= v <= 10 -> rc = c_OK /\ config_get_int_c c' (Config.iopt_name Config.OCandidatesPerPage) = v) /\
  (~ 1 <= v <= 10 -> rc = c_ERROR /\ c' = c).
Proof.
  intros H. unfold config_set_int_c in H. unfold set_int_global_reject in H.
  change (Config.parse_iopt (Config.iopt_name Config.OCandidatesPerPage)) with (Some Config.OCandidatesPerPage) in H.
  cbn [Config.apply_iopt] in H. unfold set_int_reject_candidates_per_page in H.
  destruct (v <? 0) eqn:E0.
  - apply Z.ltb_lt in E0. inversion H; subst. split; [lia | auto].
  - apply Z.ltb_ge in E0. destruct ((v =? 0) || (v >? 10)) eqn:Er.
    + inversion H; subst. split; [|auto]. intros R. exfalso. apply orb_true_iff in Er as [Er|Er]; [apply Z.eqb_eq in Er | apply Z.gtb_lt in Er]; lia.
    + apply orb_false_iff in Er as (A & B). apply Z.eqb_neq in A. rewrite Z.gtb_ltb in B. apply Z.ltb_ge in B.
      match type of H with match ?r with _ => _ end = _ => destruct r as [e2| | |] eqn:Es; try discriminate end.
      inversion H; subst. split; [|lia]. intros _. split; [reflexivity|].
      unfold config_get_int_c.
      change (Config.parse_iopt (Config.iopt_name Config.OCandidatesPerPage)) with (Some Config.OCandidatesPerPage).
      cbn [cx_ed with_ed]. rewrite (set_options_opts _ _ _ Es). cbn. rewrite Z2Nat.id by lia. apply as_c_int_small. lia.
Qed.
