(* Candidate lists (C07): what the list contains, how it is paged, what choosing does.
   Built on the editor invariant (EditorInv: the selector's range is non-empty, inside the buffer
   it was opened on, that buffer is still the editor's, and the page index is in range - for
   every history) and on Paging.v. *)
From Coq Require Import NArith List Bool Arith Lia.
From LC Require Import Base.Lib Gen.Editor_gen Model.Syllable Model.Composition Model.Conversion Model.Editor Model.EditorRun
     Model.EdInst Proofs.CompositionProofs Proofs.Paging Proofs.EditorInv Proofs.EditorWitness.
Import ListNotations.
Open Scope nat_scope.

Section Select.
Context {D SY : Type} (dops : dict_ops D) (sops : syl_ops SY) (conv : conv_fn D).
Notation shared' := (shared D SY).
Notation editor' := (editor D SY).

Ltac inv_ok H := inversion H; subst; clear H.
Ltac bind_ok H x Hx := apply obind_ok in H; destruct H as (x & Hx & H).

(* ---- what a phrase list contains ---- *)
(* the syllables of the highlighted range *)
Definition range_key (p : phrase_sel) : list N := syl_prefix (slice (symbols (ps_com p)) (ps_begin p) (ps_end p)).

(* the list is the dictionary's answer for exactly the highlighted syllables, in the dictionary's
   order, followed - for a single syllable - by the answers for the layout's alternative syllables *)
Lemma candidates_phrase_spec (s : shared') p c : candidates dops sops s (SelPhrase p) = Ok c ->
  exists alts, c = map fst (do_lookup dops (dict s) (ps_fuzzy p) (range_key p)) ++ alts /\
    (ps_end p - ps_begin p <> 1 -> alts = []) /\
    (ps_end p - ps_begin p = 1 -> exists code, slice (symbols (ps_com p)) (ps_begin p) (ps_end p) = [SymSyl code] /\
       alts = flat_map (fun a => map fst (do_lookup dops (dict s) (ps_fuzzy p) [a])) (so_alt sops (syl s) code)).
Proof.
  unfold candidates, range_key. intros H.
  destruct (Nat.ltb (ps_end p) (ps_begin p)); [discriminate|].
  destruct (Nat.ltb (clen (ps_com p)) (ps_end p)); [discriminate|].
  destruct (Nat.eqb (ps_end p - ps_begin p) 1) eqn:E1.
  - apply Nat.eqb_eq in E1.
    destruct (slice (symbols (ps_com p)) (ps_begin p) (ps_end p)) as [|[code|ch] [|x l]] eqn:Es; try discriminate.
    inv_ok H. eexists. split; [reflexivity|]. split; [intros Hne; contradiction|].
    intros _. exists code. split; reflexivity.
  - apply Nat.eqb_neq in E1. inv_ok H. exists []. rewrite app_nil_r. split; [reflexivity|]. split; [reflexivity | intros; contradiction].
Qed.

(* every phrase the (layered) dictionary holds for the highlighted syllables is offered *)
Lemma candidates_phrase_complete (s : shared') p c ph : candidates dops sops s (SelPhrase p) = Ok c ->
  In ph (do_lookup dops (dict s) (ps_fuzzy p) (range_key p)) -> In (fst ph) c.
Proof.
  intros H Hin. destruct (candidates_phrase_spec _ _ _ H) as (alts & -> & _).
  apply in_or_app. left. now apply in_map.
Qed.

(* ---- paging ---- *)
Lemma total_page_spec (s : shared') sel tp : total_page dops sops s sel = Ok tp ->
  exists c, candidates dops sops s sel = Ok c /\ 0 < o_per_page (opts s) /\ tp = pages_of (length c) (o_per_page (opts s)).
Proof.
  unfold total_page. intros H. bind_ok H c Hc. unfold div_ceil in H.
  destruct (Nat.eqb (o_per_page (opts s)) 0) eqn:E; [discriminate|]. apply Nat.eqb_neq in E.
  inv_ok H. exists c. split; [assumption | split; [lia | reflexivity]].
Qed.

(* ---- choosing ---- *)
(* in range: exactly (begin, end, candidate n) is recorded as the user's choice for the range, no
   symbol of the buffer changes, the list closes *)
Lemma choose_in_range_phrase (s : shared') pg act p n c text s' t pg' sel' :
  wf_ce (com s) -> ps_begin p < ps_end p ->
  candidates dops sops s (SelPhrase p) = Ok c -> nth_error c n = Some text ->
  selecting_select_offset dops sops s pg act (SelPhrase p) n = Ok (s', t, pg', sel') ->
  t = ToState Entering /\
  In (mkIv (ps_begin p) (ps_end p) true text) (selections (inner (com s'))) /\
  symbols (inner (com s')) = symbols (inner (com s)) /\
  selections (inner (com s')) =
    filter (fun x => negb (iv_intersect x (mkIv (ps_begin p) (ps_end p) true text))) (selections (inner (com s)))
    ++ [mkIv (ps_begin p) (ps_end p) true text] /\
  dict s' = dict s /\ opts s' = opts s.
Proof.
  intros W Hlt Hc Hn H. unfold selecting_select_offset in H. rewrite Hc in H. cbn [obind] in H. rewrite Hn in H.
  bind_ok H c1 H1. inv_ok H.
  unfold ce_select in H1. destruct text as [|ch text']; [discriminate|]. cbn [itext] in H1.
  apply with_inner_ok in H1 as (ci & Hci & ->).
  assert (Hsym : symbols ci = symbols (inner (com s)) /\
                 selections ci = filter (fun x => negb (iv_intersect x (mkIv (ps_begin p) (ps_end p) true (ch :: text')))) (selections (inner (com s)))
                                 ++ [mkIv (ps_begin p) (ps_end p) true (ch :: text')]).
  { unfold comp_push_selection in Hci. destruct (Nat.ltb _ _); [discriminate|]. inv_ok Hci. split; reflexivity. }
  destruct Hsym as (Hsym & Hsel).
  assert (K : forall e0, inner (if o_auto_shift (opts s) then ce_right (ce_pop_cursor e0) else ce_pop_cursor e0) = inner e0).
  { intros e0. destruct (o_auto_shift (opts s)); unfold ce_right, ce_pop_cursor; destruct (cursor_stack e0); reflexivity. }
  cbn [com set_com dict opts]. rewrite K. cbn [inner].
  split; [reflexivity|]. split; [rewrite Hsel; apply in_or_app; right; now left|].
  split; [exact Hsym|]. split; [exact Hsel|]. split; reflexivity.
Qed.

(* out of range: rejected with a bell, nothing at all changes (for all three kinds of list) *)
Lemma choose_out_of_range (s : shared') pg act sel n c s' t pg' sel' :
  candidates dops sops s sel = Ok c -> length c <= n ->
  selecting_select_offset dops sops s pg act sel n = Ok (s', t, pg', sel') ->
  s' = s /\ t = Spin BBell /\ pg' = pg /\ sel' = sel.
Proof.
  intros Hc Hn H. unfold selecting_select_offset in H. destruct sel as [p|y|sym0].
  - rewrite Hc in H. cbn [obind] in H.
    assert (E : nth_error c n = None) by now apply nth_error_None. rewrite E in H. inv_ok H. auto.
  - cbn [candidates] in Hc. inv_ok Hc. apply Nat.leb_le in Hn. rewrite Hn in H. inv_ok H. auto.
  - cbn [candidates] in Hc. rewrite Hc in H. cbn [obind] in H. apply Nat.leb_le in Hn. rewrite Hn in H. inv_ok H. auto.
Qed.

(* a symbol chosen from a symbol table or a special-symbol list is the n-th entry of the list *)
Lemma choose_in_range_special (s : shared') pg act sym0 n c ch s' t pg' sel' :
  candidates dops sops s (SelSpecial sym0) = Ok c -> nth_error c n = Some ch ->
  selecting_select_offset dops sops s pg act (SelSpecial sym0) n = Ok (s', t, pg', sel') ->
  t = ToState Entering /\ exists x c1, ch = [x] /\
    (if act then ce_insert (com s) (SymChar x) else ce_replace (com s) (SymChar x)) = Ok c1 /\
    com s' = ce_pop_cursor c1.
Proof.
  intros Hc Hn H. unfold selecting_select_offset in H. cbn [candidates] in Hc. rewrite Hc in H. cbn [obind] in H.
  assert (Hlt : n < length c) by (apply nth_error_Some; congruence).
  destruct (Nat.leb (length c) n) eqn:E; [apply Nat.leb_le in E; lia|].
  bind_ok H res Hr. unfold special_menu, special_select in *. destruct sym0 as [code|c0]; [discriminate|].
  inv_ok Hc. inv_ok Hr.
  destruct (special_find_category c0) as [cat|]; [|destruct n; discriminate].
  rewrite nth_error_map in Hn. destruct (nth_error (tl cat) n) as [x|]; [|discriminate]. cbn in Hn. inv_ok Hn.
  bind_ok H c1 H1. inv_ok H. split; [reflexivity|]. exists x, c1. auto.
Qed.

End Select.

(* ---- pinned tree: the page index could exceed the page count (fixed by 68d3a38) ----
   three homophones, page size 1, third page; then the page size becomes 10 without the clamp
   that the fix added: page index 2 with a page count of 1 *)
Definition d3 : memdict :=
  mkMD [([10268%N], [20874%N], 30%N, 0%N); ([10268%N], [31574%N], 20%N, 0%N); ([10268%N], [28204%N], 10%N, 0%N)] [] [].
Definition per_page (o : options) (n : nat) : options :=
  mkOpts (o_easy_symbol o) (o_esc_clear o) (o_space_select o) (o_auto_shift o) (o_rearward o) (o_no_learn o)
         (o_threshold o) n (o_english o) (o_fullwidth o) (o_add_backward o) (o_fuzzy o) (o_engine o) (o_fw_toggle o).
Definition open_third_page : list op :=
  [OpSetOptions (per_page default_options 1);
   OpKey (key kc_H 104%N); OpKey (key kc_K 107%N); OpKey (key kc_N4 52%N);
   OpKey (key kc_Down 65533%N); OpKey (key kc_Right 65533%N); OpKey (key kc_Right 65533%N)].

Lemma page_after_resize_pinned_refuted :
  exists e, run md_ops std_ops conv_single (m_init d3 [] ss_empty 0%N) open_third_page = Ok e /\
    let e' := ed_set_options std_ops e (per_page default_options 10) in       (* set_editor_options as pinned *)
    ed_page_no e' = Some 2 /\ ed_total_page md_ops std_ops e' = Ok (Some 1).
Proof. vm_compute. eexists. split; [reflexivity | split; reflexivity]. Qed.

Lemma page_after_resize_fixed :
  exists e e', run md_ops std_ops conv_single (m_init d3 [] ss_empty 0%N) open_third_page = Ok e /\
    ed_set_options_c md_ops std_ops e (per_page default_options 10) = Ok e' /\
    ed_page_no e' = Some 0 /\ ed_total_page md_ops std_ops e' = Ok (Some 1).
Proof. vm_compute. do 2 eexists. split; [reflexivity | split; [reflexivity | split; reflexivity]]. Qed.
