(* C08: learning.  The frequency arithmetic of LaxUserFreqEstimate::estimate as learn_phrase uses
   it, the bounded-liveness claim "at most 64 repetitions", which phrases a commit hands to
   learn_phrase, and "learning disabled => the dictionary is not touched". *)
From Coq Require Import NArith List Bool Arith Lia ZArith.
From LC Require Import Base.Lib Gen.Editor_gen Model.Composition Model.Conversion Model.Editor Model.EditorRun
     Proofs.CompositionProofs Proofs.EditorInv.
Import ListNotations.

Section Estimate.
Context {D SY : Type} (dops : dict_ops D).
Local Open Scope N_scope.

Ltac Zify.zify_post_hook ::= Z.div_mod_to_equations.

(* learn_phrase calls estimate with orig_freq = the phrase's own frequency *)
Lemma estimate_raises f m u : f <= m -> estimate f f m = Ok u ->
  f <= MAX_USER_FREQ -> f <= u /\ (f < MAX_USER_FREQ -> f < u) /\ u <= MAX_USER_FREQ.
Proof.
  unfold estimate, MAX_USER_FREQ, SHORT_INCREASE_FREQ, U32_MAX. intros Hfm H Hf.
  destruct (N.ltb m f) eqn:E1; [discriminate|].
  destruct (N.leb m f) eqn:E2; inversion H; subst; clear H; lia.
Qed.

(* whatever the frequencies (any u32, and beyond): the addition saturates *)
Lemma estimate_never_panics f m : f <= m -> exists u, estimate f f m = Ok u.
Proof.
  unfold estimate. intros Hfm.
  destruct (N.ltb m f) eqn:E1; [apply N.ltb_lt in E1; lia|]. eauto.
Qed.

(* a frequency above MAX_USER_FREQ (a system phrase may carry any u32) is capped, never wrapped *)
Lemma estimate_saturates f m u : f <= m -> estimate f f m = Ok u -> u = N.min (f + (if N.leb m f then N.min ((m - f) / 5 + 1) 10 else N.max ((m - f) / 5 + 1) 10)) MAX_USER_FREQ.
Proof.
  unfold estimate, MAX_USER_FREQ, SHORT_INCREASE_FREQ, U32_MAX. intros Hfm H.
  destruct (N.ltb m f) eqn:E1; [discriminate|].
  destruct (N.leb m f) eqn:E2; inversion H; subst; clear H; lia.
Qed.

(* ---- "repeating the choice at most 64 times makes X the most frequent" ---- *)
(* one repetition: X has frequency f, the best OTHER phrase of the key has frequency m (constant:
   nothing else is learned); max_freq is the maximum over all phrases of the key, X included *)
Definition learn_step (m f : N) : N :=
  let mx := N.max m f in
  let base := (mx - f) / 5 + 1 in
  N.min (f + (if N.leb mx f then N.min base SHORT_INCREASE_FREQ else N.max base SHORT_INCREASE_FREQ)) MAX_USER_FREQ.

Lemma learn_step_is_estimate m f : f <= N.max m f -> estimate f f (N.max m f) = Ok (learn_step m f).
Proof.
  intros H1. unfold estimate, learn_step, U32_MAX, SHORT_INCREASE_FREQ, MAX_USER_FREQ.
  destruct (N.ltb (N.max m f) f) eqn:E1; [apply N.ltb_lt in E1; lia|].
  f_equal. destruct (N.leb (N.max m f) f); lia.
Qed.

(* the gap to the best homophone shrinks by a fifth (at least by 10) per repetition *)
Definition next_gap (g : N) : N := g - N.max (g / 5 + 1) 10.

Lemma next_gap_mono g1 g2 : g1 <= g2 -> next_gap g1 <= next_gap g2.
Proof. unfold next_gap. intros H. lia. Qed.

Lemma iter_next_gap_mono k : forall g1 g2, g1 <= g2 -> N.iter k next_gap g1 <= N.iter k next_gap g2.
Proof.
  induction k using N.peano_ind; intros g1 g2 H; [exact H|].
  rewrite !N.iter_succ. apply next_gap_mono. now apply IHk.
Qed.

Lemma gap_after_step m f : f <= m -> m < 1000000 -> m - learn_step m f <= next_gap (m - f).
Proof.
  intros H1 H2. unfold learn_step, next_gap, MAX_USER_FREQ, SHORT_INCREASE_FREQ.
  replace (N.max m f) with m by lia.
  destruct (N.leb m f) eqn:E; [apply N.leb_le in E|apply N.leb_gt in E]; lia.
Qed.

Lemma learn_step_grows m f : m < 1000000 -> f < 1000000 -> f < learn_step m f.
Proof.
  intros H1 H2. unfold learn_step, MAX_USER_FREQ, SHORT_INCREASE_FREQ.
  destruct (N.leb (N.max m f) f) eqn:E; [apply N.leb_le in E|apply N.leb_gt in E]; lia.
Qed.

Lemma learn_step_bound m f : learn_step m f <= MAX_USER_FREQ.
Proof. unfold learn_step. lia. Qed.

(* once X has passed the others it stays ahead *)
Lemma learn_step_keeps_lead m f : m < f -> f <= MAX_USER_FREQ -> m < learn_step m f.
Proof.
  intros H1 H2. unfold learn_step, MAX_USER_FREQ, SHORT_INCREASE_FREQ in *.
  destruct (N.leb (N.max m f) f) eqn:E; [apply N.leb_le in E|apply N.leb_gt in E]; lia.
Qed.

Lemma gap_after_steps m k : forall f, f <= m -> m < 1000000 ->
  m - N.iter k (learn_step m) f <= N.iter k next_gap (m - f).
Proof.
  induction k using N.peano_ind; intros f H1 H2; [cbn; lia|].
  rewrite !N.iter_succ.
  destruct (N.le_gt_cases (N.iter k (learn_step m) f) m) as [Hle|Hgt].
  - etransitivity; [apply gap_after_step; assumption|]. apply next_gap_mono. now apply IHk.
  - assert (m < learn_step m (N.iter k (learn_step m) f)).
    { apply learn_step_keeps_lead; [exact Hgt|].
      destruct k using N.peano_ind; [cbn in *; unfold MAX_USER_FREQ; lia | rewrite N.iter_succ; apply learn_step_bound]. }
    lia.
Qed.

Lemma sixty_three_steps_close_any_gap : N.iter 63 next_gap 999999 = 0.
Proof. vm_compute. reflexivity. Qed.

(* BOUNDED LIVENESS: for all initial frequencies f <= m < 1,000,000, after 64 repetitions of
   "choose X and commit" X's frequency exceeds m *)
Theorem learn_converges f m : f <= m -> m < 1000000 -> m < N.iter 64 (learn_step m) f.
Proof.
  intros H1 H2.
  assert (H63 : m <= N.iter 63 (learn_step m) f).
  { pose proof (gap_after_steps m 63 f H1 H2) as Hg.
    assert (N.iter 63 next_gap (m - f) <= N.iter 63 next_gap 999999) by (apply iter_next_gap_mono; lia).
    rewrite sixty_three_steps_close_any_gap in H. lia. }
  change 64 with (N.succ 63). rewrite N.iter_succ.
  destruct (N.eq_dec (N.iter 63 (learn_step m) f) m) as [Heq|Hne].
  - rewrite Heq. apply learn_step_grows; lia.
  - apply learn_step_keeps_lead; [lia|]. change 63 with (N.succ 62). rewrite N.iter_succ. apply learn_step_bound.
Qed.

(* ... and the bound is not loose by much: from (1, 999999) 49 repetitions are not enough *)
Lemma forty_nine_are_not_enough : N.iter 49 (learn_step 999999) 1 <= 999999.
Proof. vm_compute. discriminate. Qed.

End Estimate.

(* ------------------------------------------------------------------ *)
Section AutoLearn.
Context {D SY : Type} (dops : dict_ops D) (sops : syl_ops SY) (conv : conv_fn D).
Local Open Scope nat_scope.
Notation shared' := (shared D SY).

Ltac inv_ok H := inversion H; subst; clear H.
Ltac bind_ok H x Hx := apply obind_ok in H; destruct H as (x & Hx & H).

(* what auto_learn hands to learn_phrase, in order: every phrase interval of two or more
   characters under the syllables it covers, and every maximal run of one-character words that
   are not break words as one phrase *)
Fixpoint learn_calls (syms : list symbol) (ivs : list interval) (pending : list N) (psyl : list symbol)
  : list (list N * list N) :=
  match ivs with
  | [] => match pending with [] => [] | _ => [(syl_prefix psyl, pending)] end
  | iv :: rest =>
    let rng := slice syms (ib iv) (ie iv) in
    if iphrase iv && Nat.eqb (iv_len iv) 1 && negb (is_break_word (itext iv))
    then learn_calls syms rest (pending ++ itext iv) (psyl ++ rng)
    else (match pending with [] => [] | _ => [(syl_prefix psyl, pending)] end)
         ++ (if iphrase iv then [(syl_prefix rng, itext iv)] else [])
         ++ learn_calls syms rest [] []
  end.

Fixpoint learn_all (s : shared') (calls : list (list N * list N)) : outcome shared' :=
  match calls with
  | [] => Ok s
  | (k, t) :: rest => match learn_phrase dops s k t with
                      | Ok (s', _) => learn_all s' rest
                      | Err x => Err x | Panic n => Panic n | OutOfFuel => OutOfFuel
                      end
  end.

Lemma learn_all_app s a b : learn_all s (a ++ b) =
  match learn_all s a with Ok s' => learn_all s' b | Err x => Err x | Panic n => Panic n | OutOfFuel => OutOfFuel end.
Proof.
  revert s. induction a as [|[k t] a IH]; intros s; cbn [app learn_all]; [reflexivity|].
  destruct (learn_phrase dops s k t) as [[s' ok]| | |]; [apply IH | reflexivity | reflexivity | reflexivity].
Qed.

(* auto_learn is exactly "learn_phrase on each of those, in order" (when the intervals lie inside the buffer) *)
Lemma auto_learn_go_is_learn_calls syms : forall ivs s pending psyl,
  Forall (fun iv => ib iv <= ie iv <= length syms) ivs ->
  auto_learn_go dops s syms ivs pending psyl = learn_all s (learn_calls syms ivs pending psyl).
Proof.
  induction ivs as [|iv rest IH]; intros s pending psyl Hok; cbn [auto_learn_go learn_calls].
  - destruct pending; [reflexivity|]. cbn [learn_all]. unfold obind.
    destruct (learn_phrase dops s (syl_prefix psyl) (n :: pending)) as [[s' ok]| | |]; reflexivity.
  - inversion Hok as [|x l [H1 H2] Hrest]; subst.
    destruct (Nat.ltb (ie iv) (ib iv)) eqn:E1; [apply Nat.ltb_lt in E1; lia|].
    destruct (Nat.ltb (length syms) (ie iv)) eqn:E2; [apply Nat.ltb_lt in E2; lia|].
    destruct (iphrase iv && Nat.eqb (iv_len iv) 1 && negb (is_break_word (itext iv))) eqn:E3; [now apply IH|].
    unfold obind.
    destruct pending as [|p0 pending'].
    + cbn [app]. destruct (iphrase iv).
      * cbn [app learn_all]. destruct (learn_phrase dops s _ (itext iv)) as [[s' ok]| | |]; cbn [fst]; try reflexivity. now apply IH.
      * cbn [app]. now apply IH.
    + cbn [app learn_all]. destruct (learn_phrase dops s (syl_prefix psyl) (p0 :: pending')) as [[s1 ok1]| | |]; cbn [fst]; try reflexivity.
      destruct (iphrase iv).
      * cbn [app learn_all]. destruct (learn_phrase dops s1 _ (itext iv)) as [[s' ok]| | |]; cbn [fst]; try reflexivity. now apply IH.
      * cbn [app]. now apply IH.
Qed.

(* every phrase of two or more characters of the committed conversion is handed to learn_phrase
   under exactly the syllables it covers *)
Lemma multi_char_phrases_are_learned syms : forall ivs pending psyl iv,
  In iv ivs -> iphrase iv = true -> 2 <= iv_len iv ->
  In (syl_prefix (slice syms (ib iv) (ie iv)), itext iv) (learn_calls syms ivs pending psyl).
Proof.
  induction ivs as [|x rest IH]; intros pending psyl iv Hin Hp Hl; [destruct Hin|].
  cbn [learn_calls]. destruct Hin as [->|Hin].
  - rewrite Hp. destruct (Nat.eqb (iv_len iv) 1) eqn:E; [apply Nat.eqb_eq in E; lia|]. cbn [andb].
    apply in_or_app. right. apply in_or_app. left. now left.
  - destruct (iphrase x && Nat.eqb (iv_len x) 1 && negb (is_break_word (itext x))); [now apply IH|].
    apply in_or_app. right. apply in_or_app. right. now apply IH.
Qed.

(* a one-character word that stands alone (the intervals before and after it are not part of a
   run: first in the list here, followed by a longer phrase / a symbol / the end) is learned too *)
Lemma single_word_run_is_learned syms iv rest :
  iphrase iv = true -> iv_len iv = 1 -> is_break_word (itext iv) = false ->
  (match rest with [] => True | y :: _ => (iphrase y && Nat.eqb (iv_len y) 1 && negb (is_break_word (itext y))) = false end) ->
  itext iv <> [] ->
  In (syl_prefix (slice syms (ib iv) (ie iv)), itext iv) (learn_calls syms (iv :: rest) [] []).
Proof.
  intros Hp Hl Hb Hn Ht. cbn [learn_calls]. rewrite Hp, Hl, Hb. cbn [Nat.eqb andb negb app].
  destruct rest as [|y rest']; cbn [learn_calls].
  - destruct (itext iv); [contradiction | now left].
  - rewrite Hn. destruct (itext iv); [contradiction|]. apply in_or_app. left. now left.
Qed.

(* learning disabled: a commit does not touch the dictionary (nor the pending-flush counter) *)
Lemma commit_without_learning (s s' : shared') : o_no_learn (opts s) = true -> commit dops conv s = Ok s' ->
  dict s' = dict s /\ dirty s' = dirty s.
Proof. unfold commit. intros H Hc. rewrite H in Hc. cbn [obind] in Hc. inv_ok Hc. split; reflexivity. Qed.

(* learn_phrase on a phrase the key already has: the frequency handed to update_phrase is never
   lower than before, and higher below the cap *)
Lemma learn_phrase_updates (s : shared') k t (s' : shared') ok p ps :
  length k = length t -> do_lookup dops (dict s) false k = p :: ps ->
  learn_phrase dops s k t = Ok (s', ok) ->
  let pf := match find (fun q => text_eqb (fst q) t) (p :: ps) with Some q => snd q | None => 0%N end in
  exists uf, dict s' = do_update dops (dict s) k t pf uf (lifetime s) /\ ok = true /\
             (pf <= MAX_USER_FREQ -> pf <= uf /\ (pf < MAX_USER_FREQ -> pf < uf))%N.
Proof.
  intros Hlen Hl H. unfold learn_phrase in H. rewrite Hlen, Nat.eqb_refl in H. cbn [negb] in H. rewrite Hl in H.
  cbv zeta. set (pf := match find (fun q => text_eqb (fst q) t) (p :: ps) with Some q => snd q | None => 0%N end) in *.
  bind_ok H uf Hu. inv_ok H. exists uf. split; [reflexivity|]. split; [reflexivity|]. intros Hcap.
  assert (Hmax : forall l acc, (acc <= max_freq_of l acc)%N /\ (forall q, In q l -> snd q <= max_freq_of l acc)%N).
  { induction l as [|x l IH]; intros acc; cbn [max_freq_of]; [split; [lia | intros q []]|].
    destruct (IH (N.max acc (snd x))) as (I1 & I2). split; [lia|].
    intros q [<-|Hq]; [lia | now apply I2]. }
  destruct (Hmax (p :: ps) 0%N) as (_ & M2).
  assert (Hpf : (pf <= max_freq_of (p :: ps) 0)%N).
  { subst pf. destruct (find (fun q => text_eqb (fst q) t) (p :: ps)) as [q|] eqn:Ef; [apply find_some in Ef as [Hin _]; now apply M2 | lia]. }
  destruct (estimate_raises pf (max_freq_of (p :: ps) 0) uf Hpf Hu Hcap) as (R1 & R2 & _). auto.
Qed.

End AutoLearn.

(* the phrase with the strictly highest frequency among the dictionary's answers wins the edge
   that covers the whole range (no selections, no breaks): once X leads, the interval graph offers X *)
Lemma pick_best_takes_the_leader (c : composition) s e : selections c = [] ->
  forall cands best mf x, In x cands -> (forall q, In q cands -> q <> x -> (snd q < snd x)%N) -> NoDup cands ->
  (match best with Some b => (snd b <= mf)%N /\ (snd b < snd x)%N | None => mf = 0%N end) -> (mf < snd x \/ best = None)%N ->
  pick_best c s e cands best mf = Some x.
Proof.
  intros Hsel. induction cands as [|p rest IH]; intros best mf x Hin Hlead Hnd Hb Hmf; [destruct Hin|].
  cbn [pick_best]. unfold agrees_with_selections. rewrite Hsel. cbn [forallb]. cbv iota.
  inversion Hnd as [|a l Hnotin Hnd']; subst.
  destruct Hin as [->|Hin].
  - match goal with |- (if ?b then _ else _) = _ => assert (E : b = true) end.
    { destruct Hmf as [Hlt| ->]; [apply N.ltb_lt in Hlt; now rewrite Hlt | now rewrite orb_true_r]. }
    rewrite E. clear IH.
    (* from here on x is the best and nothing beats it *)
    assert (K : forall l, (forall q, In q l -> (snd q < snd x)%N) -> pick_best c s e l (Some x) (snd x) = Some x).
    { induction l as [|q l IHl]; intros Hl; cbn [pick_best]; [reflexivity|].
      unfold agrees_with_selections. rewrite Hsel. cbn [forallb]. cbv iota.
      assert ((snd q < snd x)%N) by (apply Hl; now left).
      assert (E2 : N.ltb (snd x) (snd q) = false) by (apply N.ltb_ge; lia). rewrite E2. cbn [orb]. cbv iota.
      apply IHl. intros r Hr. apply Hl. now right. }
    apply K. intros q Hq. apply Hlead; [now right | intros ->; contradiction].
  - assert (Hpx : p <> x) by (intros ->; contradiction).
    assert (Hp : (snd p < snd x)%N) by (apply Hlead; [now left | exact Hpx]).
    match goal with |- (if ?b then _ else _) = _ => destruct b eqn:E end.
    + apply IH; try assumption.
      * intros q Hq. apply Hlead. now right.
      * split; lia.
      * left. exact Hp.
    + apply IH; try assumption.
      * intros q Hq. apply Hlead. now right.
Qed.
