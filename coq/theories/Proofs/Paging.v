(* Paging arithmetic of candidate lists (C07): page count = ceiling of total / page size,
   pages partition the list in order, item k of page i is item i*per+k of the list.
   Pure list/nat facts, no model dependency. *)
From Coq Require Import List Arith Lia.
Import ListNotations.
Open Scope nat_scope.

(* usize::div_ceil as the model writes it *)
Definition pages_of (total per : nat) : nat := (total + per - 1) / per.

Lemma pages_of_zero per : 0 < per -> pages_of 0 per = 0.
Proof. intros H. unfold pages_of. apply Nat.div_small. lia. Qed.

Lemma pages_of_bounds total per : 0 < per -> 0 < total ->
  (pages_of total per - 1) * per < total /\ total <= pages_of total per * per /\ 0 < pages_of total per.
Proof.
  intros Hp Ht. unfold pages_of.
  pose proof (Nat.div_mod (total + per - 1) per ltac:(lia)) as Hd.
  pose proof (Nat.mod_upper_bound (total + per - 1) per ltac:(lia)) as Hm.
  set (q := (total + per - 1) / per) in *. set (r := (total + per - 1) mod per) in *.
  assert (0 < q) by (destruct q; [cbn in Hd; lia | lia]).
  repeat split; try assumption; nia.
Qed.

(* the page count is THE ceiling: the least n with n * per >= total *)
Lemma pages_of_least total per n : 0 < per -> total <= n * per -> pages_of total per <= n.
Proof.
  intros Hp Hn. destruct total as [|t].
  - rewrite pages_of_zero by assumption. lia.
  - destruct (pages_of_bounds (S t) per Hp ltac:(lia)) as (Hlo & _ & Hpos).
    destruct (le_lt_dec (pages_of (S t) per) n) as [|Hgt]; [assumption|].
    assert (n * per <= (pages_of (S t) per - 1) * per) by (apply Nat.mul_le_mono_r; lia). lia.
Qed.

Definition page {A} (per : nat) (l : list A) (i : nat) : list A := firstn per (skipn (i * per) l).

Lemma skipn_add {A} : forall a b (l : list A), skipn a (skipn b l) = skipn (b + a) l.
Proof.
  intros a b. induction b as [|b IH]; intros l; [reflexivity|].
  destruct l as [|x l']; cbn [skipn Nat.add]; [now destruct a | apply IH].
Qed.

Lemma page_succ {A} per (l : list A) i : page per l (S i) = page per (skipn per l) i.
Proof. unfold page. rewrite skipn_add. reflexivity. Qed.

Lemma pages_concat_upto {A} per : forall n (l : list A), length l <= n * per ->
  concat (map (page per l) (seq 0 n)) = l.
Proof.
  induction n as [|n IH]; intros l Hl.
  - destruct l; [reflexivity | cbn in Hl; lia].
  - cbn [seq map concat]. rewrite <- seq_shift, map_map.
    rewrite (map_ext _ (page per (skipn per l))) by (intros i; apply page_succ).
    rewrite IH by (rewrite skipn_length; lia).
    unfold page. cbn [Nat.mul skipn]. apply firstn_skipn.
Qed.

(* the pages, in order, are exactly the list *)
Theorem pages_partition {A} per (l : list A) : 0 < per ->
  concat (map (page per l) (seq 0 (pages_of (length l) per))) = l.
Proof.
  intros Hp. apply pages_concat_upto. destruct l as [|x l']; [cbn; lia|].
  now destruct (pages_of_bounds (length (x :: l')) per Hp ltac:(cbn; lia)) as (_ & H & _).
Qed.

Lemma page_length {A} per (l : list A) i : length (page per l i) = Nat.min per (length l - i * per).
Proof. unfold page. now rewrite firstn_length, skipn_length. Qed.

(* every page before the last is full, the last one holds between 1 and per items *)
Theorem page_sizes {A} per (l : list A) i : 0 < per -> i < pages_of (length l) per ->
  1 <= length (page per l i) <= per /\ (S i < pages_of (length l) per -> length (page per l i) = per).
Proof.
  intros Hp Hi. rewrite page_length.
  assert (0 < length l) as Hl.
  { destruct l; [rewrite pages_of_zero in Hi by assumption; lia | cbn; lia]. }
  destruct (pages_of_bounds (length l) per Hp Hl) as (Hlo & Hhi & Hpos).
  assert (i * per <= (pages_of (length l) per - 1) * per) by (apply Nat.mul_le_mono_r; lia).
  split; [lia|]. intros Hs.
  assert (S i * per <= (pages_of (length l) per - 1) * per) by (apply Nat.mul_le_mono_r; lia). lia.
Qed.

Lemma nth_error_firstn_lt {A} : forall n (l : list A) k, k < n -> nth_error (firstn n l) k = nth_error l k.
Proof.
  induction n as [|n IH]; intros l k Hk; [lia|].
  destruct l as [|x l']; [now destruct k|]. destruct k as [|k]; [reflexivity|]. cbn. apply IH. lia.
Qed.

(* item k of page i is item i*per+k of the whole list *)
Theorem page_nth {A} per (l : list A) i k : k < per -> nth_error (page per l i) k = nth_error l (i * per + k).
Proof.
  intros Hk. unfold page. rewrite nth_error_firstn_lt by assumption.
  revert l. generalize (i * per) as m. induction m as [|m IH]; intros l; [reflexivity|].
  destruct l as [|x l']; cbn [skipn Nat.add nth_error]; [now destruct k | apply IH].
Qed.

(* a page index below the page count names a non-empty page and conversely *)
Theorem page_index_valid {A} per (l : list A) i : 0 < per ->
  (i < pages_of (length l) per <-> i * per < length l).
Proof.
  intros Hp. destruct l as [|x l'].
  - rewrite pages_of_zero by assumption. cbn. lia.
  - destruct (pages_of_bounds (length (x :: l')) per Hp ltac:(cbn; lia)) as (Hlo & Hhi & Hpos). split.
    + intros Hi. assert (i * per <= (pages_of (length (x :: l')) per - 1) * per) by (apply Nat.mul_le_mono_r; lia). lia.
    + intros Hi. destruct (le_lt_dec (pages_of (length (x :: l')) per) i) as [Hge|]; [|assumption].
      assert (pages_of (length (x :: l')) per * per <= i * per) by (apply Nat.mul_le_mono_r; lia). lia.
Qed.
