(* Every key event the keyboard layouts build (KeyboardLayout::map_with_mod / map_ascii /
   map_ascii_numlock on the generated tables: 8 layouts x 63 key codes x 16 modifier sets, and all 256
   bytes of the two ASCII entry points) satisfies the precondition `event_ok` of the editor's totality
   theorem (C01): Space carries a character with a full-width form and so does every printable key.
   Finite domains, swept completely. *)
From Coq Require Import NArith List Bool Lia.
From LC Require Import Base.Lib Gen.Keyboard_gen Gen.Editor_gen Model.Keyboard Model.Editor Proofs.KeyboardProofs Proofs.NoPanic.
Import ListNotations.
Open Scope N_scope.

(* the editor's view of a keyboard event *)
Definition ed_event (ev : key_event) : keyevent :=
  mkKey (ev_index ev) (ev_code ev) (ev_unicode ev)
        (has_mod (ev_mods ev) MOD_SHIFT) (has_mod (ev_mods ev) MOD_CTRL)
        (has_mod (ev_mods ev) MOD_CAPSLOCK) (has_mod (ev_mods ev) MOD_NUMLOCK).

Definition has_fw (c : N) : bool := match full_width_symbol_input c with Some _ => true | None => false end.
Definition event_ok_b (ev : keyevent) : bool :=
  (negb (kcode ev =? kc_Space) || has_fw (kunicode ev)) && (negb (Editor.is_printable ev) || has_fw (kunicode ev)).

Lemma event_ok_b_true ev : event_ok_b ev = true -> event_ok ev.
Proof.
  unfold event_ok_b, event_ok, has_fw. intros H. apply andb_true_iff in H as [H1 H2]. split.
  - intros Hc. rewrite Hc, N.eqb_refl in H1. cbn [negb orb] in H1. destruct (full_width_symbol_input _); [discriminate | discriminate H1].
  - intros Hp. rewrite Hp in H2. cbn [negb orb] in H2. destruct (full_width_symbol_input _); [discriminate | discriminate H2].
Qed.

(* the two generated enumerations of KeyCode agree on Space *)
Lemma kc_space_same : kc_Space = kcSpace.
Proof. reflexivity. Qed.

Definition chk_keycode_events (kb : N) : bool :=
  forall_below n_keycode (fun code =>
  forall_below 16 (fun mods =>
    match map_keycode kb code mods with Ok ev => event_ok_b (ed_event ev) | _ => false end)).

Lemma keycode_events_sweep : forall_below n_keyboard chk_keycode_events = true.
Proof. vm_cast_no_check (eq_refl true). Qed.

Lemma keycode_event_ok kb code mods ev :
  kb < n_keyboard -> code < Keyboard_gen.n_keycode -> mods < 16 -> map_keycode kb code mods = Ok ev -> event_ok (ed_event ev).
Proof.
  intros Hkb Hc Hm He.
  pose proof (forall_below_true _ _ keycode_events_sweep kb Hkb) as H. unfold chk_keycode_events in H.
  apply forall_below_true with (i := code) in H; [|exact Hc].
  apply forall_below_true with (i := mods) in H; [|exact Hm].
  rewrite He in H. now apply event_ok_b_true.
Qed.

Definition chk_ascii_events (kb : N) : bool :=
  forall_below 256 (fun c =>
    match map_ascii kb c with Ok ev => event_ok_b (ed_event ev) | _ => false end &&
    match map_ascii_numlock kb c with Ok ev => event_ok_b (ed_event ev) | _ => false end).

Lemma ascii_events_sweep : forall_below n_keyboard chk_ascii_events = true.
Proof. vm_cast_no_check (eq_refl true). Qed.

Lemma ascii_event_ok kb c ev :
  kb < n_keyboard -> c < 256 -> (map_ascii kb c = Ok ev \/ map_ascii_numlock kb c = Ok ev) -> event_ok (ed_event ev).
Proof.
  intros Hkb Hc He.
  pose proof (forall_below_true _ _ ascii_events_sweep kb Hkb) as H. unfold chk_ascii_events in H.
  apply forall_below_true with (i := c) in H; [|exact Hc]. apply andb_true_iff in H as [H1 H2].
  destruct He as [He|He]; [rewrite He in H1 | rewrite He in H2]; now apply event_ok_b_true.
Qed.
