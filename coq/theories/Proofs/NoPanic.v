(* C01: totality of the editor model.  Every Rust panic site is an explicit `Panic n` of the
   model and every loop runs on fuel (`OutOfFuel`); here: from a state satisfying the invariant no
   operation reaches either, for histories of any length. *)
From Coq Require Import NArith List Bool Arith Lia.
From LC Require Import Base.Lib Gen.Editor_gen Model.Composition Model.Conversion Model.Editor Model.EditorRun
     Proofs.CompositionProofs Proofs.Paging Proofs.EditorInv.
Import ListNotations.
Open Scope nat_scope.

(* an outcome that is neither a panic nor an exhausted loop *)
Definition fine {A} (r : outcome A) : Prop := match r with Ok _ => True | Err _ => True | Panic _ => False | OutOfFuel => False end.

Lemma fine_bind {A B} (r : outcome A) (f : A -> outcome B) :
  fine r -> (forall a, r = Ok a -> fine (f a)) -> fine (obind r f).
Proof. destruct r; cbn; auto. Qed.

Lemma fine_ok {A} (r : outcome A) : fine r -> (forall x, r <> Err x) -> exists a, r = Ok a.
Proof. destruct r as [a|x| |]; cbn; intros H Hx; [eauto | exfalso; now apply (Hx x) | contradiction | contradiction]. Qed.

(* ---- Composition / CompositionEditor primitives ---- *)
Lemma fine_with_inner e cur r : fine r -> fine (with_inner e cur r).
Proof. destruct r; cbn; auto. Qed.

Lemma fine_comp_insert c i x : i <= clen c -> fine (comp_insert c i x).
Proof. intros H. unfold comp_insert. destruct (Nat.ltb (clen c) i) eqn:E; [apply Nat.ltb_lt in E; lia | exact I]. Qed.

Lemma fine_comp_remove c i : i < clen c -> fine (comp_remove c i).
Proof. intros H. unfold comp_remove. destruct (Nat.ltb i (clen c)) eqn:E; [exact I | apply Nat.ltb_ge in E; lia]. Qed.

Lemma fine_comp_set_gap c i g : i < clen c -> g <> GBegin -> fine (comp_set_gap c i g).
Proof.
  intros H Hg. unfold comp_set_gap. destruct (Nat.ltb i (clen c)) eqn:E; [|apply Nat.ltb_ge in E; lia]. cbn [negb].
  destruct g; try contradiction; cbn [gap_eqb]; destruct (Nat.eqb i 0); exact I.
Qed.

Lemma fine_comp_replace c i x : i < clen c -> fine (comp_replace c i x).
Proof.
  intros H. unfold comp_replace. destruct (Nat.ltb i (clen c)) eqn:E; [|apply Nat.ltb_ge in E; lia]. cbn [negb].
  apply fine_comp_set_gap; [unfold clen in *; cbn [symbols]; now rewrite length_set_at | discriminate].
Qed.

Lemma fine_comp_remove_front c n : n <= clen c -> fine (comp_remove_front c n).
Proof. intros H. unfold comp_remove_front. destruct (Nat.ltb (clen c) n) eqn:E; [apply Nat.ltb_lt in E; lia | exact I]. Qed.

Lemma fine_comp_push_selection c iv : ie iv <= clen c -> fine (comp_push_selection c iv).
Proof. intros H. unfold comp_push_selection. destruct (Nat.ltb (clen c) (ie iv)) eqn:E; [apply Nat.ltb_lt in E; lia | exact I]. Qed.

Lemma fine_ce_insert e x : wf_ce e -> fine (ce_insert e x).
Proof. intros [_ Hc]. apply fine_with_inner, fine_comp_insert. exact Hc. Qed.

Lemma fine_ce_remove_before e : wf_ce e -> fine (ce_remove_before_cursor e).
Proof.
  intros [_ Hc]. unfold ce_remove_before_cursor. destruct (Nat.eqb (cursor e) 0) eqn:E; [exact I|].
  apply Nat.eqb_neq in E. apply fine_with_inner, fine_comp_remove. unfold ce_len in Hc. lia.
Qed.

Lemma fine_ce_remove_after e : wf_ce e -> ce_is_end e = false -> fine (ce_remove_after_cursor e).
Proof.
  intros [_ Hc] He. unfold ce_is_end in He. apply Nat.eqb_neq in He.
  apply fine_with_inner, fine_comp_remove. unfold ce_len in *. lia.
Qed.

Lemma fine_ce_insert_glue e : wf_ce e -> fine (ce_insert_glue e).
Proof.
  intros [_ Hc]. unfold ce_insert_glue. destruct (ce_is_end e) eqn:He; [exact I|].
  unfold ce_is_end in He. apply Nat.eqb_neq in He.
  apply fine_with_inner, fine_comp_set_gap; [unfold ce_len in *; lia | discriminate].
Qed.

Lemma fine_ce_insert_break e : wf_ce e -> fine (ce_insert_break e).
Proof.
  intros [_ Hc]. unfold ce_insert_break. destruct (ce_is_end e) eqn:He; [exact I|].
  unfold ce_is_end in He. apply Nat.eqb_neq in He.
  apply fine_with_inner, fine_comp_set_gap; [unfold ce_len in *; lia | discriminate].
Qed.

Lemma fine_ce_replace e x : cursor e < ce_len e -> fine (ce_replace e x).
Proof. intros H. apply fine_with_inner, fine_comp_replace. exact H. Qed.

Lemma fine_ce_remove_front e n : n <= ce_len e -> fine (ce_remove_front e n).
Proof. intros H. apply fine_with_inner, fine_comp_remove_front. exact H. Qed.

Lemma fine_ce_select e iv : itext iv <> [] -> ie iv <= ce_len e -> fine (ce_select e iv).
Proof.
  intros Ht He. unfold ce_select. destruct (itext iv) eqn:E; [contradiction|].
  apply fine_with_inner, fine_comp_push_selection. exact He.
Qed.

Lemma fine_insert_chars l : forall c, wf_ce c -> fine (insert_chars c l).
Proof.
  induction l as [|ch l IH]; intros c W; cbn [insert_chars]; [exact I|].
  apply fine_bind; [now apply fine_ce_insert|]. intros c' Hc'. apply IH. now destruct (ce_insert_spec _ _ _ W Hc').
Qed.

(* ------------------------------------------------------------------ *)
(* The pinned tree: three ways to crash or hang it (each replayed through the C API on the
   implementation and repaired by a fix: commit; the definitions below are the pre-fix code) *)
From LC Require Import Model.Syllable Model.EdInst Proofs.EditorWitness.

(* (1) English mode, full-width form, a key without a full-width form (any non-printable key code
   through chewing_handle_Default / chewing_handle_Numlock): full_width_symbol_input(..).unwrap() *)
Definition english_fullwidth_pinned (s : shared memdict N) (ev : keyevent) : outcome (shared memdict N * transition) :=
  match full_width_symbol_input (kunicode ev) with
  | None => Panic 603%N
  | Some ch => commit_or_insert s ch
  end.

Lemma english_fullwidth_nonprintable_pinned_panics :
  english_fullwidth_pinned (sh e0) (key 0%N 65533%N) = Panic 603%N.
Proof. reflexivity. Qed.

Definition english_fullwidth (o : options) : options := set_fullwidth (set_english o true) true.

Lemma english_fullwidth_nonprintable_fixed :
  exists e, m_key conv_single (ed_set_options std_ops e0 (english_fullwidth default_options)) (key 0%N 65533%N) = Ok (e, BIgnore).
Proof. vm_compute. eexists. reflexivity. Qed.

(* (2) a syllable left without a word (typed under the fuzzy lookup before the engine went back to
   the standard one, or its only word removed): PhraseSelector::init shrank the range past empty *)
Fixpoint ps_shrink_pinned (d : memdict) (fuel : nat) (p : phrase_sel) : outcome phrase_sel :=
  match fuel with
  | O => OutOfFuel
  | S k =>
    if Nat.ltb (ps_end p) (ps_begin p) then Panic 201%N
    else if Nat.ltb (clen (ps_com p)) (ps_end p) then Panic 202%N
    else if has_phrase md_ops d (ps_fuzzy p) (syl_prefix (slice (symbols (ps_com p)) (ps_begin p) (ps_end p))) then Ok p
    else if ps_fwd p
         then (if Nat.eqb (ps_end p) 0 then Panic 203%N
               else ps_shrink_pinned d k (mkPS (ps_begin p) (ps_end p - 1) (ps_fwd p) (ps_orig p) (ps_fuzzy p) (ps_com p)))
         else ps_shrink_pinned d k (mkPS (S (ps_begin p)) (ps_end p) (ps_fwd p) (ps_orig p) (ps_fuzzy p) (ps_com p))
  end.

Definition one_syllable : composition := mkComp [SymSyl 10268%N] [GBegin] [].
Definition sel_on_it (fwd : bool) : phrase_sel := mkPS 0 1 fwd 0 false one_syllable.

Lemma selector_init_without_word_pinned_panics :
  ps_shrink_pinned empty_dict 3 (sel_on_it true) = Panic 203%N /\
  ps_shrink_pinned empty_dict 3 (sel_on_it false) = Panic 201%N.
Proof. split; reflexivity. Qed.

Lemma selector_init_without_word_fixed : forall fwd,
  ps_shrink md_ops empty_dict 3 (sel_on_it fwd) = Ok (sel_on_it fwd).
Proof. intros [|]; reflexivity. Qed.

(* (3) ... and PhraseSelector::next (Down on the last page) cycled through the ranges forever:
   for EVERY amount of fuel the pinned loop is still running *)
Fixpoint ps_cycle_pinned (d : memdict) (fuel : nat) (p : phrase_sel) : outcome phrase_sel :=
  match fuel with
  | O => OutOfFuel
  | S k =>
    let c := ps_com p in
    let r :=
      if ps_fwd p then
        if Nat.eqb (ps_end p) 0 then Panic 209%N
        else let e := ps_end p - 1 in
             Ok (ps_begin p, if Nat.eqb (ps_begin p) e then nbp c (ps_begin p) else e)
      else
        let b := S (ps_begin p) in
        Ok (if Nat.eqb b (ps_end p) then apbp c (b - 1) else b, ps_end p) in
    match r with
    | Ok (b, e) =>
      match ps_range_has md_ops d p b e with
      | Ok true => Ok (ps_with_range p b e)
      | Ok false => ps_cycle_pinned d k (ps_with_range p b e)
      | Err x => Err x | Panic s => Panic s | OutOfFuel => OutOfFuel
      end
    | Err x => Err x | Panic s => Panic s | OutOfFuel => OutOfFuel
    end
  end.

Lemma selector_next_without_word_pinned_never_ends : forall fuel fwd,
  ps_cycle_pinned empty_dict fuel (sel_on_it fwd) = OutOfFuel.
Proof.
  induction fuel as [|k IH]; intros fwd; [reflexivity|].
  destruct fwd; cbn [ps_cycle_pinned]; (change (ps_cycle_pinned empty_dict k (sel_on_it true) = OutOfFuel) || change (ps_cycle_pinned empty_dict k (sel_on_it false) = OutOfFuel)); apply IH.
Qed.

Lemma selector_next_without_word_fixed : forall fwd,
  ps_next md_ops empty_dict (sel_on_it fwd) = Ok (sel_on_it fwd).
Proof. intros [|]; reflexivity. Qed.

(* ------------------------------------------------------------------ *)
(* Totality of the phrase selector: on a selector satisfying the invariant (EditorInv.ps_ok) no
   slice index is out of range, no subtraction underflows and every loop ends within its fuel. *)
From LC Require Import Proofs.BreakPoints.

Section SelectorTotal.
Context {D : Type} (dops : dict_ops D).
Variable dict_ok : D -> Prop.
Hypothesis ok_lookup : forall d f, dict_ok d -> do_lookup dops d f [] = [].

Lemma fine_ps_range_has d p b e : b <= e <= clen (ps_com p) -> exists r, ps_range_has dops d p b e = Ok r.
Proof.
  intros (H1 & H2). unfold ps_range_has.
  destruct (Nat.ltb e b) eqn:E1; [apply Nat.ltb_lt in E1; lia|].
  destruct (Nat.ltb (clen (ps_com p)) e) eqn:E2; [apply Nat.ltb_lt in E2; lia|]. eauto.
Qed.

(* PhraseSelector::init's shrinking loop ends (at the latest on a single syllable) *)
Lemma ps_shrink_total d : forall fuel p, ps_begin p < ps_end p <= clen (ps_com p) ->
  syl_range (ps_com p) (ps_begin p) (ps_end p) -> ps_end p - ps_begin p < fuel ->
  exists p', ps_shrink dops d fuel p = Ok p'.
Proof.
  induction fuel as [|k IH]; intros p (Hlt & Hle) Hs Hf; [lia|]. cbn [ps_shrink].
  destruct (Nat.ltb (ps_end p) (ps_begin p)) eqn:E1; [apply Nat.ltb_lt in E1; lia|].
  destruct (Nat.ltb (clen (ps_com p)) (ps_end p)) eqn:E2; [apply Nat.ltb_lt in E2; lia|].
  destruct (has_phrase dops d (ps_fuzzy p) _); [eauto|].
  destruct (Nat.eqb (ps_end p - ps_begin p) 1) eqn:E3.
  - apply Nat.eqb_eq in E3.
    destruct (slice_head_syl (ps_com p) (ps_begin p) (ps_end p) ltac:(lia) (Hs (ps_begin p) ltac:(lia))) as (s & l & Hsl).
    rewrite Hsl. cbn [andb]. eauto.
  - apply Nat.eqb_neq in E3. cbn [andb].
    destruct (ps_fwd p).
    + destruct (Nat.eqb (ps_end p) 0) eqn:E4; [apply Nat.eqb_eq in E4; lia|].
      apply IH; cbn [ps_begin ps_end ps_com]; [lia | eapply syl_range_sub; [exact Hs | lia | lia] | lia].
    + apply IH; cbn [ps_begin ps_end ps_com]; [lia | eapply syl_range_sub; [exact Hs | lia | lia] | lia].
Qed.

Lemma ps_init_total d p cur : cur < clen (ps_com p) -> syl_at (ps_com p) cur -> exists p', ps_init dops d p cur = Ok p'.
Proof.
  intros Hc Hs. unfold ps_init. destruct (ps_fwd p).
  - assert (Nat.eqb cur (clen (ps_com p)) = false) as E by (apply Nat.eqb_neq; lia). rewrite E. cbn [andb].
    destruct (nbp_props (ps_com p) cur ltac:(lia)) as ((N1 & N2) & Hr & _).
    pose proof (nbp_gt (ps_com p) cur Hc Hs).
    apply ps_shrink_total; cbn [ps_begin ps_end ps_com]; [lia | exact Hr | lia].
  - destruct (apbp_props (ps_com p) cur ltac:(lia)) as (A1 & Hr).
    assert (Em : Nat.min (S cur) (clen (ps_com p)) = S cur) by lia.
    apply ps_shrink_total; cbn [ps_begin ps_end ps_com]; rewrite ?Em; [lia | apply syl_range_snoc; assumption | lia].
Qed.

Lemma ps_next_point_total d : forall fuel p b e, b < e <= clen (ps_com p) -> e - b < fuel ->
  exists r, ps_next_point dops d fuel p b e = Ok r.
Proof.
  induction fuel as [|k IH]; intros p b e (Hlt & Hle) Hf; [lia|]. cbn [ps_next_point].
  destruct (ps_fwd p).
  - destruct (Nat.eqb e 0) eqn:E0; [apply Nat.eqb_eq in E0; lia|].
    destruct (Nat.eqb b (e - 1)) eqn:E1; [eauto|]. apply Nat.eqb_neq in E1.
    destruct (fine_ps_range_has d p b (e - 1) ltac:(lia)) as ([|] & ->); [eauto|]. apply IH; lia.
  - destruct (Nat.eqb (S b) e) eqn:E1; [eauto|]. apply Nat.eqb_neq in E1.
    destruct (fine_ps_range_has d p (S b) e ltac:(lia)) as ([|] & ->); [eauto|]. apply IH; lia.
Qed.

Lemma ps_prev_point_total d : forall fuel p b e, b <= e <= clen (ps_com p) -> ps_orig p <= clen (ps_com p) ->
  (if ps_fwd p then clen (ps_com p) - e < fuel else b < fuel) ->
  exists r, ps_prev_point dops d fuel p b e = Ok r.
Proof.
  induction fuel as [|k IH]; intros p b e (Hlt & Hle) Ho Hf; [destruct (ps_fwd p); lia|]. cbn [ps_prev_point].
  destruct (ps_fwd p) eqn:Ef.
  - destruct (Nat.eqb e (clen (ps_com p))) eqn:E0; [eauto|]. apply Nat.eqb_neq in E0.
    destruct (Nat.ltb (nbp (ps_com p) (ps_orig p)) (S e)) eqn:E1; [eauto|]. apply Nat.ltb_ge in E1.
    destruct (nbp_props (ps_com p) (ps_orig p) Ho) as ((_ & N2) & _).
    destruct (fine_ps_range_has d p b (S e) ltac:(lia)) as ([|] & ->); [eauto|].
    apply IH; [lia | exact Ho | rewrite Ef; lia].
  - destruct (Nat.eqb b 0) eqn:E0; [eauto|]. apply Nat.eqb_neq in E0.
    destruct (Nat.ltb (b - 1) (apbp (ps_com p) (ps_orig p))); [eauto|].
    destruct (fine_ps_range_has d p (b - 1) e ltac:(lia)) as ([|] & ->); [eauto|].
    apply IH; [lia | exact Ho | rewrite Ef; lia].
Qed.

(* PhraseSelector::next: the cycle through the ranges comes back to the range it started from after at
   most (number of ranges) steps - this is the termination argument the pinned code lacked *)
Lemma ps_cycle_total_fwd d b0 e0 L : forall fuel p, ps_ok p -> ps_fwd p = true -> ps_begin p = b0 ->
  L = nbp (ps_com p) b0 -> b0 < e0 <= L ->
  (if Nat.ltb e0 (ps_end p) then ps_end p - e0 else (ps_end p - b0) + (L - e0)) < fuel ->
  exists p', ps_cycle dops d fuel (b0, e0) p = Ok p'.
Proof.
  induction fuel as [|k IH]; intros p Hok Hf Hb HL He0 Hd; [lia|].
  pose proof (ps_cycle_step_ok p Hok) as Hstep. cbv zeta in Hstep. rewrite Hf in Hstep.
  pose proof Hok as [Hlt Hle [Hsyl _ _]].
  assert (HeL : ps_end p <= L) by (subst L b0; apply nbp_max; [exact Hsyl | lia]).
  cbn [ps_cycle]. rewrite Hf.
  destruct (Nat.eqb (ps_end p) 0) eqn:E0; [apply Nat.eqb_eq in E0; lia|]. cbn [obind].
  set (e' := if Nat.eqb (ps_begin p) (ps_end p - 1) then nbp (ps_com p) (ps_begin p) else ps_end p - 1) in *.
  pose proof Hstep as [Hlt' Hle' _]. cbn [ps_with_range ps_begin ps_end ps_com] in Hlt', Hle'.
  destruct (fine_ps_range_has d p (ps_begin p) e' ltac:(lia)) as ([|] & ->); [eauto|].
  cbn [fst snd]. destruct (Nat.eqb (ps_begin p) b0 && Nat.eqb e' e0) eqn:Est; [eauto|].
  apply IH; cbn [ps_with_range ps_begin ps_end ps_com ps_fwd]; try assumption.
  rewrite Hb, Nat.eqb_refl in Est. cbn [andb] in Est. apply Nat.eqb_neq in Est.
  subst e'. rewrite Hb in *.
  destruct (Nat.eqb b0 (ps_end p - 1)) eqn:E1.
  - apply Nat.eqb_eq in E1. rewrite <- HL in *.
    destruct (Nat.ltb e0 (ps_end p)) eqn:E2; [apply Nat.ltb_lt in E2; lia|]. apply Nat.ltb_ge in E2.
    destruct (Nat.ltb e0 L) eqn:E3; [apply Nat.ltb_lt in E3; lia | apply Nat.ltb_ge in E3; lia].
  - apply Nat.eqb_neq in E1.
    destruct (Nat.ltb e0 (ps_end p)) eqn:E2; [apply Nat.ltb_lt in E2 | apply Nat.ltb_ge in E2].
    + destruct (Nat.ltb e0 (ps_end p - 1)) eqn:E3; [apply Nat.ltb_lt in E3; lia | apply Nat.ltb_ge in E3; lia].
    + destruct (Nat.ltb e0 (ps_end p - 1)) eqn:E3; [apply Nat.ltb_lt in E3; lia | apply Nat.ltb_ge in E3; lia].
Qed.

Lemma ps_cycle_total_rear d b0 e A : forall fuel p, ps_ok p -> ps_fwd p = false -> ps_end p = e ->
  A = apbp (ps_com p) (e - 1) -> A <= b0 < e ->
  (if Nat.ltb (ps_begin p) b0 then b0 - ps_begin p else (e - 1 - ps_begin p) + 1 + (b0 - A)) < fuel ->
  exists p', ps_cycle dops d fuel (b0, e) p = Ok p'.
Proof.
  induction fuel as [|k IH]; intros p Hok Hf He HA Hb0 Hd; [lia|].
  pose proof (ps_cycle_step_ok p Hok) as Hstep. cbv zeta in Hstep. rewrite Hf in Hstep.
  pose proof Hok as [Hlt Hle [Hsyl _ Hdir]]. rewrite Hf in Hdir. destruct Hdir as (Hd1 & Hd2).
  assert (HAo : A = apbp (ps_com p) (ps_orig p)) by (subst A e; rewrite Hd1; f_equal; lia).
  cbn [ps_cycle]. rewrite Hf. cbn [obind].
  set (b' := if Nat.eqb (S (ps_begin p)) (ps_end p) then apbp (ps_com p) (S (ps_begin p) - 1) else S (ps_begin p)) in *.
  pose proof Hstep as [Hlt' Hle' _]. cbn [ps_with_range ps_begin ps_end ps_com] in Hlt', Hle'.
  destruct (fine_ps_range_has d p b' (ps_end p) ltac:(lia)) as ([|] & ->); [eauto|].
  cbn [fst snd]. destruct (Nat.eqb b' b0 && Nat.eqb (ps_end p) e) eqn:Est; [eauto|].
  apply IH; cbn [ps_with_range ps_begin ps_end ps_com ps_fwd]; try assumption.
  rewrite He, Nat.eqb_refl, andb_true_r in Est. apply Nat.eqb_neq in Est.
  subst b'. rewrite He in *.
  destruct (Nat.eqb (S (ps_begin p)) e) eqn:E1.
  - apply Nat.eqb_eq in E1. replace (S (ps_begin p) - 1) with (e - 1) in * by lia. rewrite <- HA in *.
    destruct (Nat.ltb (ps_begin p) b0) eqn:E2; [apply Nat.ltb_lt in E2; lia|]. apply Nat.ltb_ge in E2.
    destruct (Nat.ltb A b0) eqn:E3; [apply Nat.ltb_lt in E3; lia | apply Nat.ltb_ge in E3; lia].
  - apply Nat.eqb_neq in E1.
    destruct (Nat.ltb (ps_begin p) b0) eqn:E2; [apply Nat.ltb_lt in E2 | apply Nat.ltb_ge in E2].
    + destruct (Nat.ltb (S (ps_begin p)) b0) eqn:E3; [apply Nat.ltb_lt in E3; lia | apply Nat.ltb_ge in E3; lia].
    + destruct (Nat.ltb (S (ps_begin p)) b0) eqn:E3; [apply Nat.ltb_lt in E3; lia | apply Nat.ltb_ge in E3; lia].
Qed.

Theorem ps_next_total d p : ps_ok p -> exists p', ps_next dops d p = Ok p'.
Proof.
  intros Hok. pose proof Hok as [Hlt Hle [Hsyl (O1 & O2) Hdir]]. unfold ps_next.
  destruct (ps_fwd p) eqn:Ef.
  - destruct (nbp_props (ps_com p) (ps_begin p) ltac:(lia)) as ((N1 & N2) & _).
    assert (ps_end p <= nbp (ps_com p) (ps_begin p)) by (apply nbp_max; [exact Hsyl | lia]).
    eapply ps_cycle_total_fwd; try eassumption; try reflexivity; [lia|].
    rewrite Nat.ltb_irrefl. lia.
  - destruct Hdir as (Hd1 & Hd2).
    destruct (apbp_props (ps_com p) (ps_orig p) ltac:(lia)) as (A1 & _).
    eapply ps_cycle_total_rear with (A := apbp (ps_com p) (ps_end p - 1)); try eassumption; try reflexivity.
    + replace (ps_end p - 1) with (ps_orig p) by lia. lia.
    + rewrite Nat.ltb_irrefl. replace (ps_end p - 1) with (ps_orig p) by lia. lia.
Qed.

Lemma ps_jump_last_total d : forall fuel p, ps_ok p -> dict_ok d -> ps_end p - ps_begin p < fuel ->
  exists p', ps_jump_last dops d fuel p = Ok p'.
Proof.
  induction fuel as [|k IH]; intros p Hok Hd Hf; [lia|]. cbn [ps_jump_last].
  pose proof Hok as [Hlt Hle _].
  destruct (ps_next_point_total d (S (S (clen (ps_com p)))) p (ps_begin p) (ps_end p) ltac:(lia) ltac:(lia)) as (r & Hr).
  unfold ps_next_selection_point. rewrite Hr. destruct r as [[b e]|]; [|eauto].
  destruct (ps_next_point_inv dops dict_ok ok_lookup _ _ _ _ _ _ _ Hd Hr) as (A & B & C & E & F & G).
  apply IH; [apply ps_ok_narrower; assumption | exact Hd | cbn [ps_with_range ps_begin ps_end]; lia].
Qed.

End SelectorTotal.
