(* C01: totality of the editor model.  Every Rust panic site is an explicit `Panic n` of the
   model and every loop runs on fuel (`OutOfFuel`); here: from a state satisfying the invariant no
   operation reaches either, for histories of any length. *)
From Coq Require Import NArith List Bool Arith Lia.
From LC Require Import Base.Lib Gen.Editor_gen Model.Composition Model.Conversion Model.Editor Model.EditorRun
     Proofs.CompositionProofs Proofs.Paging Proofs.EditorInv.
Import ListNotations.
Open Scope nat_scope.

(* an outcome that is neither a panic nor an exhausted loop *)
Definition fine {A} (r : outcome A) : Prop := match r with Ok _ => True | Err _ => True | Panic _ => False | OutOfFuel => False end.

Lemma fine_bind {A B} (r : outcome A) (f : A -> outcome B) :
  fine r -> (forall a, r = Ok a -> fine (f a)) -> fine (obind r f).
Proof. destruct r; cbn; auto. Qed.

Lemma fine_ok {A} (r : outcome A) : fine r -> (forall x, r <> Err x) -> exists a, r = Ok a.
Proof. destruct r as [a|x| |]; cbn; intros H Hx; [eauto | exfalso; now apply (Hx x) | contradiction | contradiction]. Qed.

(* ---- Composition / CompositionEditor primitives ---- *)
Lemma fine_with_inner e cur r : fine r -> fine (with_inner e cur r).
Proof. destruct r; cbn; auto. Qed.

Lemma fine_comp_insert c i x : i <= clen c -> fine (comp_insert c i x).
Proof. intros H. unfold comp_insert. destruct (Nat.ltb (clen c) i) eqn:E; [apply Nat.ltb_lt in E; lia | exact I]. Qed.

Lemma fine_comp_remove c i : i < clen c -> fine (comp_remove c i).
Proof. intros H. unfold comp_remove. destruct (Nat.ltb i (clen c)) eqn:E; [exact I | apply Nat.ltb_ge in E; lia]. Qed.

Lemma fine_comp_set_gap c i g : i < clen c -> g <> GBegin -> fine (comp_set_gap c i g).
Proof.
  intros H Hg. unfold comp_set_gap. destruct (Nat.ltb i (clen c)) eqn:E; [|apply Nat.ltb_ge in E; lia]. cbn [negb].
  destruct g; try contradiction; cbn [gap_eqb]; destruct (Nat.eqb i 0); exact I.
Qed.

Lemma fine_comp_replace c i x : i < clen c -> fine (comp_replace c i x).
Proof.
  intros H. unfold comp_replace. destruct (Nat.ltb i (clen c)) eqn:E; [|apply Nat.ltb_ge in E; lia]. cbn [negb].
  apply fine_comp_set_gap; [unfold clen in *; cbn [symbols]; now rewrite length_set_at | discriminate].
Qed.

Lemma fine_comp_remove_front c n : n <= clen c -> fine (comp_remove_front c n).
Proof. intros H. unfold comp_remove_front. destruct (Nat.ltb (clen c) n) eqn:E; [apply Nat.ltb_lt in E; lia | exact I]. Qed.

Lemma fine_comp_push_selection c iv : ie iv <= clen c -> fine (comp_push_selection c iv).
Proof. intros H. unfold comp_push_selection. destruct (Nat.ltb (clen c) (ie iv)) eqn:E; [apply Nat.ltb_lt in E; lia | exact I]. Qed.

Lemma fine_ce_insert e x : wf_ce e -> fine (ce_insert e x).
Proof. intros [_ Hc]. apply fine_with_inner, fine_comp_insert. exact Hc. Qed.

Lemma fine_ce_remove_before e : wf_ce e -> fine (ce_remove_before_cursor e).
Proof.
  intros [_ Hc]. unfold ce_remove_before_cursor. destruct (Nat.eqb (cursor e) 0) eqn:E; [exact I|].
  apply Nat.eqb_neq in E. apply fine_with_inner, fine_comp_remove. unfold ce_len in Hc. lia.
Qed.

Lemma fine_ce_remove_after e : wf_ce e -> ce_is_end e = false -> fine (ce_remove_after_cursor e).
Proof.
  intros [_ Hc] He. unfold ce_is_end in He. apply Nat.eqb_neq in He.
  apply fine_with_inner, fine_comp_remove. unfold ce_len in *. lia.
Qed.

Lemma fine_ce_insert_glue e : wf_ce e -> fine (ce_insert_glue e).
Proof.
  intros [_ Hc]. unfold ce_insert_glue. destruct (ce_is_end e) eqn:He; [exact I|].
  unfold ce_is_end in He. apply Nat.eqb_neq in He.
  apply fine_with_inner, fine_comp_set_gap; [unfold ce_len in *; lia | discriminate].
Qed.

Lemma fine_ce_insert_break e : wf_ce e -> fine (ce_insert_break e).
Proof.
  intros [_ Hc]. unfold ce_insert_break. destruct (ce_is_end e) eqn:He; [exact I|].
  unfold ce_is_end in He. apply Nat.eqb_neq in He.
  apply fine_with_inner, fine_comp_set_gap; [unfold ce_len in *; lia | discriminate].
Qed.

Lemma fine_ce_replace e x : cursor e < ce_len e -> fine (ce_replace e x).
Proof. intros H. apply fine_with_inner, fine_comp_replace. exact H. Qed.

Lemma fine_ce_remove_front e n : n <= ce_len e -> fine (ce_remove_front e n).
Proof. intros H. apply fine_with_inner, fine_comp_remove_front. exact H. Qed.

Lemma fine_ce_select e iv : itext iv <> [] -> ie iv <= ce_len e -> fine (ce_select e iv).
Proof.
  intros Ht He. unfold ce_select. destruct (itext iv) eqn:E; [contradiction|].
  apply fine_with_inner, fine_comp_push_selection. exact He.
Qed.

Lemma fine_insert_chars l : forall c, wf_ce c -> fine (insert_chars c l).
Proof.
  induction l as [|ch l IH]; intros c W; cbn [insert_chars]; [exact I|].
  apply fine_bind; [now apply fine_ce_insert|]. intros c' Hc'. apply IH. now destruct (ce_insert_spec _ _ _ W Hc').
Qed.

(* ------------------------------------------------------------------ *)
(* The pinned tree: three ways to crash or hang it (each replayed through the C API on the
   implementation and repaired by a fix: commit; the definitions below are the pre-fix code) *)
From LC Require Import Model.Syllable Model.EdInst Proofs.EditorWitness.

(* (1) English mode, full-width form, a key without a full-width form (any non-printable key code
   through chewing_handle_Default / chewing_handle_Numlock): full_width_symbol_input(..).unwrap() *)
Definition english_fullwidth_pinned (s : shared memdict N) (ev : keyevent) : outcome (shared memdict N * transition) :=
  match full_width_symbol_input (kunicode ev) with
  | None => Panic 603%N
  | Some ch => commit_or_insert s ch
  end.

Lemma english_fullwidth_nonprintable_pinned_panics :
  english_fullwidth_pinned (sh e0) (key 0%N 65533%N) = Panic 603%N.
Proof. reflexivity. Qed.

Definition english_fullwidth (o : options) : options := set_fullwidth (set_english o true) true.

Lemma english_fullwidth_nonprintable_fixed :
  exists e, m_key conv_single (ed_set_options std_ops e0 (english_fullwidth default_options)) (key 0%N 65533%N) = Ok (e, BIgnore).
Proof. vm_compute. eexists. reflexivity. Qed.

(* (2) a syllable left without a word (typed under the fuzzy lookup before the engine went back to
   the standard one, or its only word removed): PhraseSelector::init shrank the range past empty *)
Fixpoint ps_shrink_pinned (d : memdict) (fuel : nat) (p : phrase_sel) : outcome phrase_sel :=
  match fuel with
  | O => OutOfFuel
  | S k =>
    if Nat.ltb (ps_end p) (ps_begin p) then Panic 201%N
    else if Nat.ltb (clen (ps_com p)) (ps_end p) then Panic 202%N
    else if has_phrase md_ops d (ps_fuzzy p) (syl_prefix (slice (symbols (ps_com p)) (ps_begin p) (ps_end p))) then Ok p
    else if ps_fwd p
         then (if Nat.eqb (ps_end p) 0 then Panic 203%N
               else ps_shrink_pinned d k (mkPS (ps_begin p) (ps_end p - 1) (ps_fwd p) (ps_orig p) (ps_fuzzy p) (ps_com p)))
         else ps_shrink_pinned d k (mkPS (S (ps_begin p)) (ps_end p) (ps_fwd p) (ps_orig p) (ps_fuzzy p) (ps_com p))
  end.

Definition one_syllable : composition := mkComp [SymSyl 10268%N] [GBegin] [].
Definition sel_on_it (fwd : bool) : phrase_sel := mkPS 0 1 fwd 0 false one_syllable.

Lemma selector_init_without_word_pinned_panics :
  ps_shrink_pinned empty_dict 3 (sel_on_it true) = Panic 203%N /\
  ps_shrink_pinned empty_dict 3 (sel_on_it false) = Panic 201%N.
Proof. split; reflexivity. Qed.

Lemma selector_init_without_word_fixed : forall fwd,
  ps_shrink md_ops empty_dict 3 (sel_on_it fwd) = Ok (sel_on_it fwd).
Proof. intros [|]; reflexivity. Qed.

(* (3) ... and PhraseSelector::next (Down on the last page) cycled through the ranges forever:
   for EVERY amount of fuel the pinned loop is still running *)
Fixpoint ps_cycle_pinned (d : memdict) (fuel : nat) (p : phrase_sel) : outcome phrase_sel :=
  match fuel with
  | O => OutOfFuel
  | S k =>
    let c := ps_com p in
    let r :=
      if ps_fwd p then
        if Nat.eqb (ps_end p) 0 then Panic 209%N
        else let e := ps_end p - 1 in
             Ok (ps_begin p, if Nat.eqb (ps_begin p) e then nbp c (ps_begin p) else e)
      else
        let b := S (ps_begin p) in
        Ok (if Nat.eqb b (ps_end p) then apbp c (b - 1) else b, ps_end p) in
    match r with
    | Ok (b, e) =>
      match ps_range_has md_ops d p b e with
      | Ok true => Ok (ps_with_range p b e)
      | Ok false => ps_cycle_pinned d k (ps_with_range p b e)
      | Err x => Err x | Panic s => Panic s | OutOfFuel => OutOfFuel
      end
    | Err x => Err x | Panic s => Panic s | OutOfFuel => OutOfFuel
    end
  end.

Lemma selector_next_without_word_pinned_never_ends : forall fuel fwd,
  ps_cycle_pinned empty_dict fuel (sel_on_it fwd) = OutOfFuel.
Proof.
  induction fuel as [|k IH]; intros fwd; [reflexivity|].
  destruct fwd; cbn [ps_cycle_pinned]; (change (ps_cycle_pinned empty_dict k (sel_on_it true) = OutOfFuel) || change (ps_cycle_pinned empty_dict k (sel_on_it false) = OutOfFuel)); apply IH.
Qed.

Lemma selector_next_without_word_fixed : forall fwd,
  ps_next md_ops empty_dict (sel_on_it fwd) = Ok (sel_on_it fwd).
Proof. intros [|]; reflexivity. Qed.
