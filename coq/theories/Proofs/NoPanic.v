(* C01: totality of the editor model.  Every Rust panic site is an explicit `Panic n` of the
   model and every loop runs on fuel (`OutOfFuel`); here: from a state satisfying the invariant no
   operation reaches either, for histories of any length. *)
From Coq Require Import NArith List Bool Arith Lia.
From LC Require Import Base.Lib Gen.Editor_gen Model.Composition Model.Conversion Model.Editor Model.EditorRun
     Proofs.CompositionProofs Proofs.Paging Proofs.EditorInv.
Import ListNotations.
Open Scope nat_scope.

(* an outcome that is neither a panic nor an exhausted loop *)
Definition fine {A} (r : outcome A) : Prop := match r with Ok _ => True | Err _ => True | Panic _ => False | OutOfFuel => False end.

Lemma fine_bind {A B} (r : outcome A) (f : A -> outcome B) :
  fine r -> (forall a, r = Ok a -> fine (f a)) -> fine (obind r f).
Proof. destruct r; cbn; auto. Qed.

Lemma fine_ok {A} (r : outcome A) : fine r -> (forall x, r <> Err x) -> exists a, r = Ok a.
Proof. destruct r as [a|x| |]; cbn; intros H Hx; [eauto | exfalso; now apply (Hx x) | contradiction | contradiction]. Qed.

(* ---- Composition / CompositionEditor primitives ---- *)
Lemma fine_with_inner e cur r : fine r -> fine (with_inner e cur r).
Proof. destruct r; cbn; auto. Qed.

Lemma fine_comp_insert c i x : i <= clen c -> fine (comp_insert c i x).
Proof. intros H. unfold comp_insert. destruct (Nat.ltb (clen c) i) eqn:E; [apply Nat.ltb_lt in E; lia | exact I]. Qed.

Lemma fine_comp_remove c i : i < clen c -> fine (comp_remove c i).
Proof. intros H. unfold comp_remove. destruct (Nat.ltb i (clen c)) eqn:E; [exact I | apply Nat.ltb_ge in E; lia]. Qed.

Lemma fine_comp_set_gap c i g : i < clen c -> g <> GBegin -> fine (comp_set_gap c i g).
Proof.
  intros H Hg. unfold comp_set_gap. destruct (Nat.ltb i (clen c)) eqn:E; [|apply Nat.ltb_ge in E; lia]. cbn [negb].
  destruct g; try contradiction; cbn [gap_eqb]; destruct (Nat.eqb i 0); exact I.
Qed.

Lemma fine_comp_replace c i x : i < clen c -> fine (comp_replace c i x).
Proof.
  intros H. unfold comp_replace. destruct (Nat.ltb i (clen c)) eqn:E; [|apply Nat.ltb_ge in E; lia]. cbn [negb].
  apply fine_comp_set_gap; [unfold clen in *; cbn [symbols]; now rewrite length_set_at | discriminate].
Qed.

Lemma fine_comp_remove_front c n : n <= clen c -> fine (comp_remove_front c n).
Proof. intros H. unfold comp_remove_front. destruct (Nat.ltb (clen c) n) eqn:E; [apply Nat.ltb_lt in E; lia | exact I]. Qed.

Lemma fine_comp_push_selection c iv : ie iv <= clen c -> fine (comp_push_selection c iv).
Proof. intros H. unfold comp_push_selection. destruct (Nat.ltb (clen c) (ie iv)) eqn:E; [apply Nat.ltb_lt in E; lia | exact I]. Qed.

Lemma fine_ce_insert e x : wf_ce e -> fine (ce_insert e x).
Proof. intros [_ Hc]. apply fine_with_inner, fine_comp_insert. exact Hc. Qed.

Lemma fine_ce_remove_before e : wf_ce e -> fine (ce_remove_before_cursor e).
Proof.
  intros [_ Hc]. unfold ce_remove_before_cursor. destruct (Nat.eqb (cursor e) 0) eqn:E; [exact I|].
  apply Nat.eqb_neq in E. apply fine_with_inner, fine_comp_remove. unfold ce_len in Hc. lia.
Qed.

Lemma fine_ce_remove_after e : wf_ce e -> ce_is_end e = false -> fine (ce_remove_after_cursor e).
Proof.
  intros [_ Hc] He. unfold ce_is_end in He. apply Nat.eqb_neq in He.
  apply fine_with_inner, fine_comp_remove. unfold ce_len in *. lia.
Qed.

Lemma fine_ce_insert_glue e : wf_ce e -> fine (ce_insert_glue e).
Proof.
  intros [_ Hc]. unfold ce_insert_glue. destruct (ce_is_end e) eqn:He; [exact I|].
  unfold ce_is_end in He. apply Nat.eqb_neq in He.
  apply fine_with_inner, fine_comp_set_gap; [unfold ce_len in *; lia | discriminate].
Qed.

Lemma fine_ce_insert_break e : wf_ce e -> fine (ce_insert_break e).
Proof.
  intros [_ Hc]. unfold ce_insert_break. destruct (ce_is_end e) eqn:He; [exact I|].
  unfold ce_is_end in He. apply Nat.eqb_neq in He.
  apply fine_with_inner, fine_comp_set_gap; [unfold ce_len in *; lia | discriminate].
Qed.

Lemma fine_ce_replace e x : cursor e < ce_len e -> fine (ce_replace e x).
Proof. intros H. apply fine_with_inner, fine_comp_replace. exact H. Qed.

Lemma fine_ce_remove_front e n : n <= ce_len e -> fine (ce_remove_front e n).
Proof. intros H. apply fine_with_inner, fine_comp_remove_front. exact H. Qed.

Lemma fine_ce_select e iv : itext iv <> [] -> ie iv <= ce_len e -> fine (ce_select e iv).
Proof.
  intros Ht He. unfold ce_select. destruct (itext iv) eqn:E; [contradiction|].
  apply fine_with_inner, fine_comp_push_selection. exact He.
Qed.

Lemma fine_insert_chars l : forall c, wf_ce c -> fine (insert_chars c l).
Proof.
  induction l as [|ch l IH]; intros c W; cbn [insert_chars]; [exact I|].
  apply fine_bind; [now apply fine_ce_insert|]. intros c' Hc'. apply IH. now destruct (ce_insert_spec _ _ _ W Hc').
Qed.

(* ------------------------------------------------------------------ *)
(* The pinned tree: three ways to crash or hang it (each replayed through the C API on the
   implementation and repaired by a fix: commit; the definitions below are the pre-fix code) *)
From LC Require Import Model.Syllable Model.EdInst Proofs.EditorWitness.

(* (1) English mode, full-width form, a key without a full-width form (any non-printable key code
   through chewing_handle_Default / chewing_handle_Numlock): full_width_symbol_input(..).unwrap() *)
Definition english_fullwidth_pinned (s : shared memdict N) (ev : keyevent) : outcome (shared memdict N * transition) :=
  match full_width_symbol_input (kunicode ev) with
  | None => Panic 603%N
  | Some ch => commit_or_insert s ch
  end.

Lemma english_fullwidth_nonprintable_pinned_panics :
  english_fullwidth_pinned (sh e0) (key 0%N 65533%N) = Panic 603%N.
Proof. reflexivity. Qed.

Definition english_fullwidth (o : options) : options := set_fullwidth (set_english o true) true.

Lemma english_fullwidth_nonprintable_fixed :
  exists e, m_key conv_single (ed_set_options std_ops e0 (english_fullwidth default_options)) (key 0%N 65533%N) = Ok (e, BIgnore).
Proof. vm_compute. eexists. reflexivity. Qed.

(* (2) a syllable left without a word (typed under the fuzzy lookup before the engine went back to
   the standard one, or its only word removed): PhraseSelector::init shrank the range past empty *)
Fixpoint ps_shrink_pinned (d : memdict) (fuel : nat) (p : phrase_sel) : outcome phrase_sel :=
  match fuel with
  | O => OutOfFuel
  | S k =>
    if Nat.ltb (ps_end p) (ps_begin p) then Panic 201%N
    else if Nat.ltb (clen (ps_com p)) (ps_end p) then Panic 202%N
    else if has_phrase md_ops d (ps_fuzzy p) (syl_prefix (slice (symbols (ps_com p)) (ps_begin p) (ps_end p))) then Ok p
    else if ps_fwd p
         then (if Nat.eqb (ps_end p) 0 then Panic 203%N
               else ps_shrink_pinned d k (mkPS (ps_begin p) (ps_end p - 1) (ps_fwd p) (ps_orig p) (ps_fuzzy p) (ps_com p)))
         else ps_shrink_pinned d k (mkPS (S (ps_begin p)) (ps_end p) (ps_fwd p) (ps_orig p) (ps_fuzzy p) (ps_com p))
  end.

Definition one_syllable : composition := mkComp [SymSyl 10268%N] [GBegin] [].
Definition sel_on_it (fwd : bool) : phrase_sel := mkPS 0 1 fwd 0 false one_syllable.

Lemma selector_init_without_word_pinned_panics :
  ps_shrink_pinned empty_dict 3 (sel_on_it true) = Panic 203%N /\
  ps_shrink_pinned empty_dict 3 (sel_on_it false) = Panic 201%N.
Proof. split; reflexivity. Qed.

Lemma selector_init_without_word_fixed : forall fwd,
  ps_shrink md_ops empty_dict 3 (sel_on_it fwd) = Ok (sel_on_it fwd).
Proof. intros [|]; reflexivity. Qed.

(* (3) ... and PhraseSelector::next (Down on the last page) cycled through the ranges forever:
   for EVERY amount of fuel the pinned loop is still running *)
Fixpoint ps_cycle_pinned (d : memdict) (fuel : nat) (p : phrase_sel) : outcome phrase_sel :=
  match fuel with
  | O => OutOfFuel
  | S k =>
    let c := ps_com p in
    let r :=
      if ps_fwd p then
        if Nat.eqb (ps_end p) 0 then Panic 209%N
        else let e := ps_end p - 1 in
             Ok (ps_begin p, if Nat.eqb (ps_begin p) e then nbp c (ps_begin p) else e)
      else
        let b := S (ps_begin p) in
        Ok (if Nat.eqb b (ps_end p) then apbp c (b - 1) else b, ps_end p) in
    match r with
    | Ok (b, e) =>
      match ps_range_has md_ops d p b e with
      | Ok true => Ok (ps_with_range p b e)
      | Ok false => ps_cycle_pinned d k (ps_with_range p b e)
      | Err x => Err x | Panic s => Panic s | OutOfFuel => OutOfFuel
      end
    | Err x => Err x | Panic s => Panic s | OutOfFuel => OutOfFuel
    end
  end.

Lemma selector_next_without_word_pinned_never_ends : forall fuel fwd,
  ps_cycle_pinned empty_dict fuel (sel_on_it fwd) = OutOfFuel.
Proof.
  induction fuel as [|k IH]; intros fwd; [reflexivity|].
  destruct fwd; cbn [ps_cycle_pinned]; (change (ps_cycle_pinned empty_dict k (sel_on_it true) = OutOfFuel) || change (ps_cycle_pinned empty_dict k (sel_on_it false) = OutOfFuel)); apply IH.
Qed.

Lemma selector_next_without_word_fixed : forall fwd,
  ps_next md_ops empty_dict (sel_on_it fwd) = Ok (sel_on_it fwd).
Proof. intros [|]; reflexivity. Qed.

(* ------------------------------------------------------------------ *)
(* Totality of the phrase selector: on a selector satisfying the invariant (EditorInv.ps_ok) no
   slice index is out of range, no subtraction underflows and every loop ends within its fuel. *)
From LC Require Import Proofs.BreakPoints.

Section SelectorTotal.
Context {D : Type} (dops : dict_ops D).
Variable dict_ok : D -> Prop.
Hypothesis ok_lookup : forall d f, dict_ok d -> do_lookup dops d f [] = [].

Lemma fine_ps_range_has d p b e : b <= e <= clen (ps_com p) -> exists r, ps_range_has dops d p b e = Ok r.
Proof.
  intros (H1 & H2). unfold ps_range_has.
  destruct (Nat.ltb e b) eqn:E1; [apply Nat.ltb_lt in E1; lia|].
  destruct (Nat.ltb (clen (ps_com p)) e) eqn:E2; [apply Nat.ltb_lt in E2; lia|]. eauto.
Qed.

(* PhraseSelector::init's shrinking loop ends (at the latest on a single syllable) *)
Lemma ps_shrink_total d : forall fuel p, ps_begin p < ps_end p <= clen (ps_com p) ->
  syl_range (ps_com p) (ps_begin p) (ps_end p) -> ps_end p - ps_begin p < fuel ->
  exists p', ps_shrink dops d fuel p = Ok p'.
Proof.
  induction fuel as [|k IH]; intros p (Hlt & Hle) Hs Hf; [lia|]. cbn [ps_shrink].
  destruct (Nat.ltb (ps_end p) (ps_begin p)) eqn:E1; [apply Nat.ltb_lt in E1; lia|].
  destruct (Nat.ltb (clen (ps_com p)) (ps_end p)) eqn:E2; [apply Nat.ltb_lt in E2; lia|].
  destruct (has_phrase dops d (ps_fuzzy p) _); [eauto|].
  destruct (Nat.eqb (ps_end p - ps_begin p) 1) eqn:E3.
  - apply Nat.eqb_eq in E3.
    destruct (slice_head_syl (ps_com p) (ps_begin p) (ps_end p) ltac:(lia) (Hs (ps_begin p) ltac:(lia))) as (s & l & Hsl).
    rewrite Hsl. cbn [andb]. eauto.
  - apply Nat.eqb_neq in E3. cbn [andb].
    destruct (ps_fwd p).
    + destruct (Nat.eqb (ps_end p) 0) eqn:E4; [apply Nat.eqb_eq in E4; lia|].
      apply IH; cbn [ps_begin ps_end ps_com]; [lia | eapply syl_range_sub; [exact Hs | lia | lia] | lia].
    + apply IH; cbn [ps_begin ps_end ps_com]; [lia | eapply syl_range_sub; [exact Hs | lia | lia] | lia].
Qed.

Lemma ps_init_total d p cur : cur < clen (ps_com p) -> syl_at (ps_com p) cur -> exists p', ps_init dops d p cur = Ok p'.
Proof.
  intros Hc Hs. unfold ps_init. destruct (ps_fwd p).
  - assert (Nat.eqb cur (clen (ps_com p)) = false) as E by (apply Nat.eqb_neq; lia). rewrite E. cbn [andb].
    destruct (nbp_props (ps_com p) cur ltac:(lia)) as ((N1 & N2) & Hr & _).
    pose proof (nbp_gt (ps_com p) cur Hc Hs).
    apply ps_shrink_total; cbn [ps_begin ps_end ps_com]; [lia | exact Hr | lia].
  - destruct (apbp_props (ps_com p) cur ltac:(lia)) as (A1 & Hr).
    assert (Em : Nat.min (S cur) (clen (ps_com p)) = S cur) by lia.
    apply ps_shrink_total; cbn [ps_begin ps_end ps_com]; rewrite ?Em; [lia | apply syl_range_snoc; assumption | lia].
Qed.

Lemma ps_next_point_total d : forall fuel p b e, b < e <= clen (ps_com p) -> e - b < fuel ->
  exists r, ps_next_point dops d fuel p b e = Ok r.
Proof.
  induction fuel as [|k IH]; intros p b e (Hlt & Hle) Hf; [lia|]. cbn [ps_next_point].
  destruct (ps_fwd p).
  - destruct (Nat.eqb e 0) eqn:E0; [apply Nat.eqb_eq in E0; lia|].
    destruct (Nat.eqb b (e - 1)) eqn:E1; [eauto|]. apply Nat.eqb_neq in E1.
    destruct (fine_ps_range_has d p b (e - 1) ltac:(lia)) as ([|] & ->); [eauto|]. apply IH; lia.
  - destruct (Nat.eqb (S b) e) eqn:E1; [eauto|]. apply Nat.eqb_neq in E1.
    destruct (fine_ps_range_has d p (S b) e ltac:(lia)) as ([|] & ->); [eauto|]. apply IH; lia.
Qed.

Lemma ps_prev_point_total d : forall fuel p b e, b <= e <= clen (ps_com p) -> ps_orig p <= clen (ps_com p) ->
  (if ps_fwd p then clen (ps_com p) - e < fuel else b < fuel) ->
  exists r, ps_prev_point dops d fuel p b e = Ok r.
Proof.
  induction fuel as [|k IH]; intros p b e (Hlt & Hle) Ho Hf; [destruct (ps_fwd p); lia|]. cbn [ps_prev_point].
  destruct (ps_fwd p) eqn:Ef.
  - destruct (Nat.eqb e (clen (ps_com p))) eqn:E0; [eauto|]. apply Nat.eqb_neq in E0.
    destruct (Nat.ltb (nbp (ps_com p) (ps_orig p)) (S e)) eqn:E1; [eauto|]. apply Nat.ltb_ge in E1.
    destruct (nbp_props (ps_com p) (ps_orig p) Ho) as ((_ & N2) & _).
    destruct (fine_ps_range_has d p b (S e) ltac:(lia)) as ([|] & ->); [eauto|].
    apply IH; [lia | exact Ho | rewrite Ef; lia].
  - destruct (Nat.eqb b 0) eqn:E0; [eauto|]. apply Nat.eqb_neq in E0.
    destruct (Nat.ltb (b - 1) (apbp (ps_com p) (ps_orig p))); [eauto|].
    destruct (fine_ps_range_has d p (b - 1) e ltac:(lia)) as ([|] & ->); [eauto|].
    apply IH; [lia | exact Ho | rewrite Ef; lia].
Qed.

(* PhraseSelector::next: the cycle through the ranges comes back to the range it started from after at
   most (number of ranges) steps - this is the termination argument the pinned code lacked *)
Lemma ps_cycle_total_fwd d b0 e0 L : forall fuel p, ps_ok p -> ps_fwd p = true -> ps_begin p = b0 ->
  L = nbp (ps_com p) b0 -> b0 < e0 <= L ->
  (if Nat.ltb e0 (ps_end p) then ps_end p - e0 else (ps_end p - b0) + (L - e0)) < fuel ->
  exists p', ps_cycle dops d fuel (b0, e0) p = Ok p'.
Proof.
  induction fuel as [|k IH]; intros p Hok Hf Hb HL He0 Hd; [lia|].
  pose proof (ps_cycle_step_ok p Hok) as Hstep. cbv zeta in Hstep. rewrite Hf in Hstep.
  pose proof Hok as [Hlt Hle [Hsyl _ _]].
  assert (HeL : ps_end p <= L) by (subst L b0; apply nbp_max; [exact Hsyl | lia]).
  cbn [ps_cycle]. rewrite Hf.
  destruct (Nat.eqb (ps_end p) 0) eqn:E0; [apply Nat.eqb_eq in E0; lia|]. cbn [obind].
  set (e' := if Nat.eqb (ps_begin p) (ps_end p - 1) then nbp (ps_com p) (ps_begin p) else ps_end p - 1) in *.
  pose proof Hstep as [Hlt' Hle' _]. cbn [ps_with_range ps_begin ps_end ps_com] in Hlt', Hle'.
  destruct (fine_ps_range_has d p (ps_begin p) e' ltac:(lia)) as ([|] & ->); [eauto|].
  cbn [fst snd]. destruct (Nat.eqb (ps_begin p) b0 && Nat.eqb e' e0) eqn:Est; [eauto|].
  apply IH; cbn [ps_with_range ps_begin ps_end ps_com ps_fwd]; try assumption.
  rewrite Hb, Nat.eqb_refl in Est. cbn [andb] in Est. apply Nat.eqb_neq in Est.
  subst e'. rewrite Hb in *.
  destruct (Nat.eqb b0 (ps_end p - 1)) eqn:E1.
  - apply Nat.eqb_eq in E1. rewrite <- HL in *.
    destruct (Nat.ltb e0 (ps_end p)) eqn:E2; [apply Nat.ltb_lt in E2; lia|]. apply Nat.ltb_ge in E2.
    destruct (Nat.ltb e0 L) eqn:E3; [apply Nat.ltb_lt in E3; lia | apply Nat.ltb_ge in E3; lia].
  - apply Nat.eqb_neq in E1.
    destruct (Nat.ltb e0 (ps_end p)) eqn:E2; [apply Nat.ltb_lt in E2 | apply Nat.ltb_ge in E2].
    + destruct (Nat.ltb e0 (ps_end p - 1)) eqn:E3; [apply Nat.ltb_lt in E3; lia | apply Nat.ltb_ge in E3; lia].
    + destruct (Nat.ltb e0 (ps_end p - 1)) eqn:E3; [apply Nat.ltb_lt in E3; lia | apply Nat.ltb_ge in E3; lia].
Qed.

Lemma ps_cycle_total_rear d b0 e A : forall fuel p, ps_ok p -> ps_fwd p = false -> ps_end p = e ->
  A = apbp (ps_com p) (e - 1) -> A <= b0 < e ->
  (if Nat.ltb (ps_begin p) b0 then b0 - ps_begin p else (e - 1 - ps_begin p) + 1 + (b0 - A)) < fuel ->
  exists p', ps_cycle dops d fuel (b0, e) p = Ok p'.
Proof.
  induction fuel as [|k IH]; intros p Hok Hf He HA Hb0 Hd; [lia|].
  pose proof (ps_cycle_step_ok p Hok) as Hstep. cbv zeta in Hstep. rewrite Hf in Hstep.
  pose proof Hok as [Hlt Hle [Hsyl _ Hdir]]. rewrite Hf in Hdir. destruct Hdir as (Hd1 & Hd2).
  assert (HAo : A = apbp (ps_com p) (ps_orig p)) by (subst A e; rewrite Hd1; f_equal; lia).
  cbn [ps_cycle]. rewrite Hf. cbn [obind].
  set (b' := if Nat.eqb (S (ps_begin p)) (ps_end p) then apbp (ps_com p) (S (ps_begin p) - 1) else S (ps_begin p)) in *.
  pose proof Hstep as [Hlt' Hle' _]. cbn [ps_with_range ps_begin ps_end ps_com] in Hlt', Hle'.
  destruct (fine_ps_range_has d p b' (ps_end p) ltac:(lia)) as ([|] & ->); [eauto|].
  cbn [fst snd]. destruct (Nat.eqb b' b0 && Nat.eqb (ps_end p) e) eqn:Est; [eauto|].
  apply IH; cbn [ps_with_range ps_begin ps_end ps_com ps_fwd]; try assumption.
  rewrite He, Nat.eqb_refl, andb_true_r in Est. apply Nat.eqb_neq in Est.
  subst b'. rewrite He in *.
  destruct (Nat.eqb (S (ps_begin p)) e) eqn:E1.
  - apply Nat.eqb_eq in E1. replace (S (ps_begin p) - 1) with (e - 1) in * by lia. rewrite <- HA in *.
    destruct (Nat.ltb (ps_begin p) b0) eqn:E2; [apply Nat.ltb_lt in E2; lia|]. apply Nat.ltb_ge in E2.
    destruct (Nat.ltb A b0) eqn:E3; [apply Nat.ltb_lt in E3; lia | apply Nat.ltb_ge in E3; lia].
  - apply Nat.eqb_neq in E1.
    destruct (Nat.ltb (ps_begin p) b0) eqn:E2; [apply Nat.ltb_lt in E2 | apply Nat.ltb_ge in E2].
    + destruct (Nat.ltb (S (ps_begin p)) b0) eqn:E3; [apply Nat.ltb_lt in E3; lia | apply Nat.ltb_ge in E3; lia].
    + destruct (Nat.ltb (S (ps_begin p)) b0) eqn:E3; [apply Nat.ltb_lt in E3; lia | apply Nat.ltb_ge in E3; lia].
Qed.

Theorem ps_next_total d p : ps_ok p -> exists p', ps_next dops d p = Ok p'.
Proof.
  intros Hok. pose proof Hok as [Hlt Hle [Hsyl (O1 & O2) Hdir]]. unfold ps_next.
  destruct (ps_fwd p) eqn:Ef.
  - destruct (nbp_props (ps_com p) (ps_begin p) ltac:(lia)) as ((N1 & N2) & _).
    assert (ps_end p <= nbp (ps_com p) (ps_begin p)) by (apply nbp_max; [exact Hsyl | lia]).
    eapply ps_cycle_total_fwd; try eassumption; try reflexivity; [lia|].
    rewrite Nat.ltb_irrefl. lia.
  - destruct Hdir as (Hd1 & Hd2).
    destruct (apbp_props (ps_com p) (ps_orig p) ltac:(lia)) as (A1 & _).
    eapply ps_cycle_total_rear with (A := apbp (ps_com p) (ps_end p - 1)); try eassumption; try reflexivity.
    + replace (ps_end p - 1) with (ps_orig p) by lia. lia.
    + rewrite Nat.ltb_irrefl. replace (ps_end p - 1) with (ps_orig p) by lia. lia.
Qed.

Lemma ps_jump_last_total d : forall fuel p, ps_ok p -> dict_ok d -> ps_end p - ps_begin p < fuel ->
  exists p', ps_jump_last dops d fuel p = Ok p'.
Proof.
  induction fuel as [|k IH]; intros p Hok Hd Hf; [lia|]. cbn [ps_jump_last].
  pose proof Hok as [Hlt Hle _].
  destruct (ps_next_point_total d (S (S (clen (ps_com p)))) p (ps_begin p) (ps_end p) ltac:(lia) ltac:(lia)) as (r & Hr).
  unfold ps_next_selection_point. rewrite Hr. destruct r as [[b e]|]; [|eauto].
  destruct (ps_next_point_inv dops dict_ok ok_lookup _ _ _ _ _ _ _ Hd Hr) as (A & B & C & E & F & G).
  apply IH; [apply ps_ok_narrower; assumption | exact Hd | cbn [ps_with_range ps_begin ps_end]; lia].
Qed.

End SelectorTotal.

(* ------------------------------------------------------------------ *)
(* Totality of the four key handlers and of every public operation *)
From LC Require Import Proofs.LearnProofs.

Section Total.
Context {D SY : Type} (dops : dict_ops D) (sops : syl_ops SY) (conv : conv_fn D).
Variable dict_ok : D -> Prop.
Hypothesis ok_lookup : forall d f, dict_ok d -> do_lookup dops d f [] = [].
Hypothesis ok_add : forall d k t f, dict_ok d -> length t <= length k -> (f <= 100)%N -> dict_ok (fst (do_add dops d k t f)).
Hypothesis ok_update : forall d k t f u tm, dict_ok d -> length t = length k -> k <> [] -> (u <= MAX_USER_FREQ)%N -> dict_ok (do_update dops d k t f u tm).
Hypothesis ok_remove : forall d k t, dict_ok d -> dict_ok (do_remove dops d k t).
Hypothesis alt_stable : forall x c, so_alt sops (so_clear sops x) c = so_alt sops x c.
Variable ss0 : symbol_sel.
Hypothesis ss0_good : ss_good ss0.
Hypothesis ss0_fresh : ss_cursor ss0 = None.
(* what totality needs on top of the invariant's hypotheses: a well-formed dictionary has no empty phrase
   (its frequencies are any numbers: the engine's and the estimate's additions saturate); the conversion tiles the buffer (C03);
   key events are the ones the C API builds: a printable ASCII character or U+FFFD, Space carries ' ' *)
Hypothesis ok_text : forall d f k p, dict_ok d -> In p (do_lookup dops d f k) -> fst p <> [].
Hypothesis conv_tiles : forall d k c n, dict_ok d -> wf_comp c -> contiguous 0 (clen c) (conv d k c n) = true.
Definition event_ok (ev : keyevent) : Prop :=
  (kcode ev = kc_Space -> full_width_symbol_input (kunicode ev) <> None) /\
  (is_printable ev = true -> full_width_symbol_input (kunicode ev) <> None).

Notation shared' := (shared D SY).
Notation editor' := (editor D SY).
Notation SInv := (EditorInv.SInv dict_ok ss0).
Notation sel_inv := (EditorInv.sel_inv ss0).

Ltac inv_ok H := inversion H; subst; clear H.
Ltac bind_ok H x Hx := apply obind_ok in H; destruct H as (x & Hx & H).

Lemma fine_with_com (s : shared') r : fine r -> fine (with_com s r).
Proof. unfold with_com. intros H. apply fine_bind; [exact H | intros; exact I]. Qed.

Lemma fine_commit_or_insert (s : shared') ch : SInv s -> fine (commit_or_insert s ch).
Proof.
  intros [W _ _ _]. unfold commit_or_insert. destruct (ce_is_empty (com s)); [exact I|].
  apply fine_bind; [apply fine_with_com, fine_ce_insert, W | intros; exact I].
Qed.

Lemma max_freq_of_spec l : forall acc, (acc <= max_freq_of l acc)%N /\ (forall q, In q l -> (snd q <= max_freq_of l acc)%N).
Proof.
  induction l as [|x l IH]; intros acc; cbn [max_freq_of]; [split; [lia | intros q []]|].
  destruct (IH (N.max acc (snd x))) as (I1 & I2). split; [lia|].
  intros q [<-|Hq]; [lia | now apply I2].
Qed.

Lemma fine_learn_phrase (s : shared') k t : SInv s -> fine (learn_phrase dops s k t).
Proof.
  intros [W Dk _ _]. unfold learn_phrase. destruct (negb _); [exact I|].
  destruct (do_lookup dops (dict s) false k) as [|p ps] eqn:El.
  - destruct (do_add dops (dict s) k t 1%N). exact I.
  - apply fine_bind; [|intros; exact I].
    set (pf := match find (fun q => text_eqb (fst q) t) (p :: ps) with Some q => snd q | None => 0%N end).
    destruct (max_freq_of_spec (p :: ps) 0%N) as (_ & M2).
    assert (Hpf : (pf <= max_freq_of (p :: ps) 0)%N).
    { subst pf. destruct (find (fun q => text_eqb (fst q) t) (p :: ps)) as [q|] eqn:Ef; [apply find_some in Ef as [Hin _]; now apply M2 | lia]. }
    destruct (estimate_never_panics pf (max_freq_of (p :: ps) 0) Hpf) as (u & ->). exact I.
Qed.

Lemma fine_auto_learn_go syms : forall ivs (s : shared') pending psyl, SInv s ->
  Forall (fun iv => ib iv <= ie iv <= length syms) ivs -> fine (auto_learn_go dops s syms ivs pending psyl).
Proof.
  induction ivs as [|iv rest IH]; intros s pending psyl Hs Hok; cbn [auto_learn_go].
  - destruct pending; [exact I|]. apply fine_bind; [now apply fine_learn_phrase | intros; exact I].
  - inversion Hok as [|x l (H1 & H2) Hrest]; subst.
    destruct (Nat.ltb (ie iv) (ib iv)) eqn:E1; [apply Nat.ltb_lt in E1; lia|].
    destruct (Nat.ltb (length syms) (ie iv)) eqn:E2; [apply Nat.ltb_lt in E2; lia|].
    destruct (iphrase iv && Nat.eqb (iv_len iv) 1 && negb (is_break_word (itext iv))); [now apply IH|].
    apply fine_bind.
    + destruct pending; [exact I|]. apply fine_bind; [now apply fine_learn_phrase | intros; exact I].
    + intros s1 H1'. assert (I1 : SInv s1).
      { destruct pending; [now inv_ok H1'|]. bind_ok H1' r Hr. inv_ok H1'. destruct r as [sx b]. cbn [fst].
        eapply (learn_phrase_inv dops) in Hr as (Hx & _); try exact Hs; try eassumption. }
      apply fine_bind.
      * destruct (iphrase iv); [|exact I]. apply fine_bind; [now apply fine_learn_phrase | intros; exact I].
      * intros s2 H2'. assert (I2 : SInv s2).
        { destruct (iphrase iv); [|now inv_ok H2']. bind_ok H2' r Hr. inv_ok H2'. destruct r as [sx b]. cbn [fst].
          eapply (learn_phrase_inv dops) in Hr as (Hx & _); try exact I1; try eassumption. }
        now apply IH.
Qed.

(* intervals of a tiling lie inside the buffer *)
Lemma contiguous_bounds : forall ivs from len, contiguous from len ivs = true ->
  from <= len /\ Forall (fun iv => from <= ib iv /\ ib iv < ie iv /\ ie iv <= len) ivs.
Proof.
  induction ivs as [|iv rest IH]; intros from len H; cbn [contiguous] in H.
  - apply Nat.eqb_eq in H. subst. split; [lia | constructor].
  - apply andb_true_iff in H as (H & Hr). apply andb_true_iff in H as (H1 & H2).
    apply Nat.eqb_eq in H1. apply Nat.ltb_lt in H2. destruct (IH _ _ Hr) as (Hle & Hf). split; [lia|].
    constructor; [lia|]. eapply Forall_impl; [|exact Hf]. cbv beta. intros a (A & B & C). lia.
Qed.

Lemma fine_commit (s : shared') : SInv s -> fine (commit dops conv s).
Proof.
  intros Hs. pose proof Hs as [[Wc _] Hdk _ _]. unfold commit. apply fine_bind; [|intros; exact I].
  destruct (o_no_learn (opts s)); [exact I|]. unfold auto_learn. apply fine_auto_learn_go; [exact Hs|].
  unfold conversion. destruct (contiguous_bounds _ _ _ (conv_tiles (dict s) (engine s) (inner (com s)) (nth s) Hdk Wc)) as (_ & Hf).
  eapply Forall_impl; [|exact Hf]. cbv beta. unfold clen. intros a (A & B & C). lia.
Qed.

Lemma fine_auto_commit_take len thr : forall ivs buf remove, contiguous remove len ivs = true ->
  exists b r, auto_commit_take len thr ivs buf remove = Ok (b, r) /\ r <= len.
Proof.
  induction ivs as [|iv rest IH]; intros buf remove H; cbn [auto_commit_take].
  - cbn [contiguous] in H. apply Nat.eqb_eq in H. subst. eauto.
  - pose proof H as H0. cbn [contiguous] in H. apply andb_true_iff in H as (H & Hr). apply andb_true_iff in H as (H1 & H2).
    apply Nat.eqb_eq in H1. apply Nat.ltb_lt in H2. destruct (contiguous_bounds _ _ _ Hr) as (Hle & _).
    unfold iv_len. replace (remove + (ie iv - ib iv)) with (ie iv) by lia.
    destruct (Nat.ltb len (ie iv)) eqn:E; [apply Nat.ltb_lt in E; lia|].
    destruct (Nat.leb (len - ie iv) thr); [eauto|]. now apply IH.
Qed.

Lemma fine_try_auto_commit (s : shared') : SInv s -> fine (try_auto_commit conv s).
Proof.
  intros [[Wc Wcur] Hdk _ _]. unfold try_auto_commit. destruct (Nat.leb _ _); [exact I|].
  destruct (fine_auto_commit_take (ce_len (com s)) (o_threshold (opts s)) (conversion conv s) [] 0 (conv_tiles _ _ _ _ Hdk Wc)) as (b & r & Hr & Hle).
  rewrite Hr. cbn [obind]. apply fine_bind; [now apply fine_ce_remove_front | intros; exact I].
Qed.

Lemma fine_learn_in_range (s : shared') a b : a <= b -> fine (learn_in_range dops conv s a b).
Proof.
  intros Hab. unfold learn_in_range. destruct (Nat.ltb (ce_len (com s)) b); [exact I|].
  destruct (Nat.ltb b a) eqn:E; [apply Nat.ltb_lt in E; lia|].
  destruct (existsb is_char _); [exact I|]. destruct (existsb _ _); [exact I|].
  destruct (do_add dops (dict s) _ _ 100%N) as [d' ok]. destruct ok; exact I.
Qed.

(* ---- candidate lists ---- *)
Lemma fine_candidates (s : shared') sel : sel_inv s sel -> fine (candidates dops sops s sel).
Proof.
  intros Hsel. destruct sel as [p|y|sym]; cbn [candidates].
  - destruct Hsel as ([Hlt Hle [Hsyl _ _]] & _).
    destruct (Nat.ltb (ps_end p) (ps_begin p)) eqn:E1; [apply Nat.ltb_lt in E1; lia|].
    destruct (Nat.ltb (clen (ps_com p)) (ps_end p)) eqn:E2; [apply Nat.ltb_lt in E2; lia|].
    destruct (Nat.eqb (ps_end p - ps_begin p) 1) eqn:E3; [|exact I]. apply Nat.eqb_eq in E3.
    replace (ps_end p) with (S (ps_begin p)) by lia.
    destruct (slice_single (ps_com p) (ps_begin p) ltac:(lia) (Hsyl (ps_begin p) ltac:(lia))) as (code & ->). exact I.
  - exact I.
  - cbn [sel_inv] in Hsel. destruct sym; [discriminate | exact I].
Qed.

Lemma fine_total_page (s : shared') sel : SInv s -> sel_inv s sel -> fine (total_page dops sops s sel).
Proof.
  intros [_ _ _ Pp] Hsel. unfold total_page. apply fine_bind; [now apply fine_candidates|]. intros c _. unfold div_ceil.
  destruct (Nat.eqb (o_per_page (opts s)) 0) eqn:E; [apply Nat.eqb_eq in E; lia | exact I].
Qed.

Lemma inner_clamp_push (e : comp_editor) : inner (ce_clamp_cursor (ce_push_cursor e)) = inner e.
Proof. unfold ce_clamp_cursor, ce_push_cursor. cbn [cursor inner cursor_stack ce_len]. destruct (Nat.eqb _ _); reflexivity. Qed.

Lemma fine_new_phrase_selecting (s : shared') code : ce_symbol_for_select (com s) = Some (SymSyl code) ->
  fine (new_phrase_selecting dops s).
Proof.
  intros Hsym. unfold new_phrase_selecting. destruct (symbol_for_select_at_clamped_cursor _ _ Hsym) as (Hlt & Hat).
  apply fine_bind; [|intros; exact I].
  destruct (ps_init_total dops (dict s) (ps_new (negb (o_rearward (opts s))) (o_fuzzy (opts s)) (inner (ce_clamp_cursor (ce_push_cursor (com s)))))
              (cursor (ce_clamp_cursor (ce_push_cursor (com s))))) as (p' & ->); [| |exact I];
    cbn [ps_new ps_com]; rewrite inner_clamp_push; [exact Hlt | exists code; exact Hat].
Qed.

Lemma fine_new_phrase_selecting_simple (s : shared') : wf_ce (com s) -> 0 < cursor (com s) -> fine (new_phrase_selecting_simple s).
Proof.
  intros [_ Wc] Hc. unfold new_phrase_selecting_simple, ps_init_single_word. apply fine_bind; [|intros; exact I].
  cbn [ps_new ps_com ce_push_cursor cursor inner]. unfold ce_len in Wc.
  destruct (Nat.eqb (Nat.min (cursor (com s)) (clen (inner (com s)))) 0) eqn:E; [apply Nat.eqb_eq in E; lia | exact I].
Qed.

Lemma fine_new_special_selecting (s : shared') ch : fine (new_special_selecting s (SymChar ch)).
Proof. unfold new_special_selecting. cbn [special_menu obind]. destruct (match special_find_category ch with Some _ => _ | None => _ end); exact I. Qed.

Lemma fine_start_selecting_common (s : shared') f : fine (start_selecting_common dops s f).
Proof.
  unfold start_selecting_common. destruct (ce_symbol_for_select (com s)) as [[code|ch]|] eqn:E; cbn [is_syllable]; [| |exact I].
  - apply fine_bind; [eapply fine_new_phrase_selecting; exact E | intros; exact I].
  - apply fine_bind; [apply fine_new_special_selecting | intros; exact I].
Qed.

(* ---- Entering ---- *)
Lemma fine_entering_default (s : shared') ev : SInv s -> event_ok ev -> fine (entering_default sops s ev).
Proof.
  intros Hs (Hsp & Hpr). pose proof Hs as [W _ _ _]. unfold entering_default.
  assert (Hsyl : forall x, SInv (set_syl s x)) by (intros x; destruct Hs; constructor; assumption).
  destruct (negb (o_english (opts s))).
  - destruct (N.eqb (kcode ev) kc_Grave && mods_none ev); [exact I|].
    destruct (N.eqb (kcode ev) kc_Space) eqn:Esp.
    + apply N.eqb_eq in Esp. destruct (negb (o_fullwidth (opts s))); [now apply fine_commit_or_insert|].
      destruct (full_width_symbol_input (kunicode ev)) eqn:Ef; [now apply fine_commit_or_insert | now apply Hsp in Esp].
    + destruct (o_easy_symbol (opts s)).
      * destruct (assoc (kunicode ev) (abbr s)).
        { apply fine_bind; [now apply fine_insert_chars | intros; exact I]. }
        destruct (special_symbol_input (kunicode ev)).
        { apply fine_bind; [apply fine_with_com, fine_ce_insert, W | intros; exact I]. }
        destruct (mods_none ev); [|exact I]. destruct (so_key_press sops (syl s) ev) as [sy kb]. destruct kb; exact I.
      * set (pressed := if mods_none ev then Some (so_key_press sops (syl s) ev) else None).
        assert (K : forall s0 : shared', SInv s0 ->
                  fine (match special_symbol_input (kunicode ev) with
                        | Some sy => do s' <- with_com s0 (ce_insert (com s0) (SymChar sy)); Ok (s', Spin BAbsorb)
                        | None => if is_printable ev then
                                    if negb (o_fullwidth (opts s)) then commit_or_insert s0 (kunicode ev)
                                    else match full_width_symbol_input (kunicode ev) with
                                         | None => Panic 602 | Some ch => commit_or_insert s0 ch end
                                  else Ok (s0, Spin BBell)
                        end)).
        { intros s0 H0. destruct (special_symbol_input (kunicode ev)).
          - apply fine_bind; [apply fine_with_com, fine_ce_insert; now destruct H0 | intros; exact I].
          - destruct (is_printable ev) eqn:Ep; [|exact I]. destruct (negb (o_fullwidth (opts s))); [now apply fine_commit_or_insert|].
            destruct (full_width_symbol_input (kunicode ev)) eqn:Ef; [now apply fine_commit_or_insert | exfalso; now apply Hpr]. }
        destruct pressed as [[sy kb]|]; [destruct kb; first [exact I | apply K, Hsyl] | now apply K].
  - destruct (negb (o_fullwidth (opts s))); [now apply fine_commit_or_insert|].
    destruct (full_width_symbol_input (kunicode ev)); [now apply fine_commit_or_insert | exact I].
Qed.

Ltac split_ifs := repeat match goal with |- fine (if ?c then _ else _) => let E := fresh "E" in destruct c eqn:E end.

Lemma fine_entering_next (s : shared') ev : SInv s -> event_ok ev -> fine (entering_next dops sops conv s ev).
Proof.
  intros Hs Hev. pose proof Hs as [W _ _ _]. unfold entering_next. cbv zeta. split_ifs; try exact I;
  try (apply fine_bind; [|intros; exact I]);
  first [ apply fine_with_com; first [ now apply fine_ce_remove_before | now apply fine_ce_insert_glue | now apply fine_ce_insert_break
                                     | now apply fine_ce_remove_after ]
        | apply fine_learn_in_range; match goal with H : Nat.leb _ _ = true |- _ => apply Nat.leb_le in H | _ => idtac end; lia
        | apply fine_start_selecting_common
        | now apply fine_commit
        | now apply fine_commit_or_insert
        | now apply fine_entering_default ].
Qed.

Lemma fine_entering_syllable_next (s : shared') ev : SInv s -> fine (entering_syllable_next dops sops s ev).
Proof.
  intros Hs. pose proof Hs as [W _ _ _]. unfold entering_syllable_next. cbv zeta. split_ifs; try exact I.
  destruct (if o_fuzzy (opts s) then so_fuzzy_key_press sops (syl s) ev else so_key_press sops (syl s) ev) as [sy kb].
  destruct kb; try exact I.
  - (* Commit *)
    destruct (has_phrase dops _ _ _); [|exact I]. cbn [com set_syl].
    apply fine_bind; [apply fine_with_com, fine_ce_insert, W|]. intros s2 H2.
    apply with_com_ok in H2 as (c2 & Hc2 & ->). cbn [com set_syl] in Hc2. destruct (ce_insert_spec _ _ _ W Hc2) as (W2 & _ & Hcur & _).
    destruct (o_engine _); try exact I. apply fine_bind; [|intros; exact I].
    apply fine_new_phrase_selecting_simple; cbn [com set_syl set_com]; [exact W2 | lia].
  - (* Fuzzy *)
    destruct (has_phrase dops _ _ _); [|exact I]. cbn [com set_syl].
    apply fine_bind; [apply fine_with_com, fine_ce_insert, W | intros; exact I].
Qed.

(* ---- Selecting ---- *)
Lemma fine_ss_select y n : ss_from ss0 y -> fine (ss_select y n).
Proof.
  intros (Hc & Ht & Hcur). destruct ss0_good as (G1 & G2). unfold ss_select. destruct (ss_cursor y) as [c|] eqn:Ec.
  - specialize (Hcur c eq_refl). rewrite Ht. destruct (Nat.leb (length (ss_table ss0)) c) eqn:E; [apply Nat.leb_le in E; lia | exact I].
  - destruct (nth_error (ss_category y) n) as [[name [idx|]]|] eqn:En; try exact I.
    destruct name as [|ch name']; [|exact I]. apply nth_error_In in En. rewrite Hc in En. now apply G1 in En.
Qed.

Lemma candidates_nonempty (s : shared') p c t : SInv s -> candidates dops sops s (SelPhrase p) = Ok c -> In t c -> t <> [].
Proof.
  intros [_ Dk _ _] H Hin. cbn [candidates] in H.
  assert (B : forall f k, In t (map fst (do_lookup dops (dict s) f k)) -> t <> []).
  { intros f k Hm. apply in_map_iff in Hm as (q & <- & Hq). eapply ok_text; eassumption. }
  destruct (Nat.ltb (ps_end p) (ps_begin p)); [discriminate|]. destruct (Nat.ltb (clen (ps_com p)) (ps_end p)); [discriminate|].
  destruct (Nat.eqb (ps_end p - ps_begin p) 1).
  - destruct (slice _ _ _) as [|[code|ch] [|y l]]; try discriminate. inv_ok H.
    apply in_app_or in Hin as [Hin|Hin]; [now apply B in Hin|].
    apply in_flat_map in Hin as (a & _ & Ha). now apply B in Ha.
  - inv_ok H. now apply B in Hin.
Qed.

Lemma fine_insert_or_replace (s : shared') (act : bool) sym : wf_ce (com s) -> (act = false -> cursor (com s) < ce_len (com s)) ->
  fine (if act then ce_insert (com s) sym else ce_replace (com s) sym).
Proof. intros W Ha. destruct act; [now apply fine_ce_insert | apply fine_ce_replace; now apply Ha]. Qed.

Lemma fine_selecting_select_offset (s : shared') pg act sel n : SInv s -> sel_inv s sel -> act_ok s act sel ->
  fine (selecting_select_offset dops sops s pg act sel n).
Proof.
  intros Hs Hsel Hact. pose proof Hs as [W _ _ _]. destruct sel as [p|y|sym]; cbn [selecting_select_offset].
  - destruct (candidates dops sops s (SelPhrase p)) as [c| | |] eqn:Ec;
      try (pose proof (fine_candidates s (SelPhrase p) Hsel) as F; rewrite Ec in F; exact F); cbn [obind].
    destruct (nth_error c n) as [text|] eqn:En; [|exact I]. apply fine_bind; [|intros; exact I].
    destruct Hsel as ([_ Hle _] & Hcom). apply fine_ce_select; cbn [itext ie].
    + eapply candidates_nonempty; [exact Hs | exact Ec | eapply nth_error_In; exact En].
    + unfold ce_len. now rewrite <- Hcom.
  - destruct (Nat.leb _ _); [exact I|]. apply fine_bind; [now apply fine_ss_select|]. intros [y' [sy|]] _; [|exact I].
    apply fine_bind; [apply fine_insert_or_replace; [exact W | intros Hf; apply char_at_cursor_lt; now apply Hact] | intros; exact I].
  - cbn [sel_inv] in Hsel. destruct sym as [code|ch]; [discriminate|]. cbn [special_menu special_select obind].
    destruct (Nat.leb _ _); [exact I|]. destruct (match special_find_category ch with Some _ => _ | None => _ end) as [sy|]; [|exact I].
    apply fine_bind; [apply fine_insert_or_replace; [exact W | intros Hf; apply char_at_cursor_lt; now apply Hact] | intros; exact I].
Qed.

Lemma fine_reselect_at_cursor (s : shared') : cursor (com s) < ce_len (com s) -> fine (reselect_at_cursor dops s).
Proof.
  intros Hc. unfold reselect_at_cursor, ce_symbol, comp_symbol.
  destruct (nth_error (symbols (inner (com s))) (cursor (com s))) as [[code|ch]|] eqn:E; cbn [is_syllable].
  - apply fine_bind; [|intros; exact I].
    destruct (ps_init_total dops (dict s) (ps_new (negb (o_rearward (opts s))) (o_fuzzy (opts s)) (inner (com s))) (cursor (com s)))
      as (p' & ->); [exact Hc | exists code; exact E | exact I].
  - exact I.
  - apply nth_error_None in E. unfold ce_len, clen in Hc. lia.
Qed.

Lemma fine_selecting_next (s : shared') ev pg act sel : SInv s -> sel_inv s sel -> act_ok s act sel ->
  fine (selecting_next dops sops s ev pg act sel).
Proof.
  intros Hs Hsel Hact. pose proof Hs as [[_ Wc] Dk _ _]. unfold selecting_next, selecting_select. cbv zeta.
  assert (NE : ce_is_empty (com s) = false -> 0 < ce_len (com s)).
  { unfold ce_is_empty. intros E. apply Nat.eqb_neq in E. lia. }
  assert (SB : sel_begin s sel <= ce_len (com s)).
  { destruct sel as [p|y|sym]; cbn [sel_begin]; [|exact Wc | exact Wc]. destruct Hsel as ([Hlt Hle _] & Hcom). unfold ce_len. rewrite <- Hcom. lia. }
  split_ifs; try exact I;
  try (apply fine_bind; [now apply fine_total_page | intros; split_ifs; try exact I]);
  try (now apply fine_selecting_select_offset).
  - destruct sel as [p|y|sym]; try exact I. apply fine_bind; [|intros; exact I].
    destruct Hsel as (Hok & _). destruct (ps_next_total dops (dict s) p Hok) as (p' & ->). exact I.
  - apply fine_bind; [|intros; exact I]. apply fine_reselect_at_cursor. specialize (NE eq_refl).
    unfold ce_move_cursor. cbn [com set_com cursor ce_len inner]. unfold ce_len in *. cbn [cursor inner]. lia.
  - apply fine_bind; [|intros; exact I]. apply fine_reselect_at_cursor. specialize (NE eq_refl).
    unfold ce_clamp_cursor, ce_move_cursor. cbn [com set_com cursor ce_len inner]. unfold ce_len in *. cbn [cursor inner].
    destruct (Nat.eqb _ _) eqn:Eq; cbn [cursor inner]; [apply Nat.eqb_eq in Eq | apply Nat.eqb_neq in Eq]; lia.
Qed.

Lemma fine_highlighting_next (s : shared') ev mv : fine (highlighting_next dops conv s ev mv).
Proof.
  unfold highlighting_next. cbv zeta. split_ifs; try exact I. apply fine_bind; [|intros; exact I]. apply fine_learn_in_range. lia.
Qed.

(* ---- a key event, whatever the state ---- *)
Notation Inv := (EditorInv.Inv dops sops dict_ok ss0).
Notation state_inv := (EditorInv.state_inv dops sops ss0).

Lemma fine_fst_ok {A B} (r : outcome (A * B)) : fine r -> fine (fst_ok r).
Proof. destruct r as [[a b]| | |]; cbn; auto. Qed.

Lemma fine_auto_commit_if (s : shared') (b : bool) : SInv s -> fine (if b then try_auto_commit conv s else Ok s).
Proof. intros Hs. destruct b; [now apply fine_try_auto_commit | exact I]. Qed.

Theorem fine_process_keyevent (e : editor') ev : Inv e -> event_ok ev -> fine (process_keyevent dops sops conv e ev).
Proof.
  intros [Ish Ist] Hev. unfold process_keyevent.
  set (s0 := set_notice (set_lifetime (sh e) (lifetime (sh e) + 1)%N) []).
  assert (I0 : SInv s0) by (subst s0; destruct Ish; constructor; assumption).
  set (s1 := set_commit s0 []).
  assert (I1 : SInv s1) by (subst s1; destruct I0; constructor; assumption).
  assert (V1 : same_view (sh e) s1) by (subst s1 s0; repeat split).
  pose proof (state_inv_view dops sops ss0 _ _ _ V1 Ist) as Ist1.
  apply fine_bind.
  - destruct (st e) as [| |pg act sel|mv]; (apply fine_bind; [|intros [[? ?] ?]; intros; try exact I; try (destruct p; exact I)]).
    + now apply fine_entering_next.
    + now apply fine_entering_syllable_next.
    + destruct Ist1 as (Hs1 & _ & Ha1). now apply fine_selecting_next.
    + apply fine_highlighting_next.
  - intros [s2 st2] Hr. apply fine_bind; [|intros; exact I].
    destruct (is_entering st2 && behavior_eqb (last s2) BAbsorb); [|exact I]. apply fine_try_auto_commit.
    (* the shared state after the handler satisfies the invariant *)
    destruct (st e) as [| |pg act sel|mv] eqn:Est.
    + bind_ok Hr r Hr1. destruct r as [sa ta]. cbn [fst snd] in Hr.
      eapply (entering_next_inv dops sops) in Hr1 as (Ia & Ta); try exact I1; try eassumption.
      injection Hr as Hap. eapply apply_transition_inv; [exact Ia | | exact Ta | exact Hap]. now destruct ta.
    + bind_ok Hr r Hr1. destruct r as [sa ta]. cbn [fst snd] in Hr.
      eapply (entering_syllable_next_inv dops sops) in Hr1 as (Ia & Ta); try exact I1; try eassumption.
      injection Hr as Hap. eapply apply_transition_inv; [exact Ia | | exact Ta | exact Hap]. now destruct ta.
    + bind_ok Hr r Hr1. destruct r as [[[sa ta] pg'] sel']. destruct Ist1 as (Hs1 & Hp1).
      eapply (selecting_next_inv dops sops) in Hr1 as (Ia & Ta & Sa); try exact I1; try eassumption.
      injection Hr as Hap. eapply apply_transition_inv; [exact Ia | | exact Ta | exact Hap]. destruct ta; [exact I | exact Sa].
    + bind_ok Hr r Hr1. destruct r as [[sa ta] mv'].
      eapply (highlighting_next_inv dops sops) in Hr1 as (Ia & Ta); try exact I1; try eassumption.
      injection Hr as Hap. eapply apply_transition_inv; [exact Ia | | exact Ta | exact Hap]. now destruct ta.
Qed.

(* ---- the other public operations ---- *)
Lemma fine_ed_select (e : editor') n : Inv e -> fine (ed_select dops sops conv e n).
Proof.
  intros [Ish Ist]. unfold ed_select. destruct (st e) as [| |pg act sel|mv] eqn:Est; try exact I.
  destruct Ist as (Hs & Hp & Ha). apply fine_bind; [now apply fine_selecting_select_offset|].
  intros [[[s2 t] pg'] sel'] Hr. destruct (apply_transition s2 (Selecting pg' act sel') t) as [s3 st3] eqn:Ea.
  apply fine_bind; [|intros; exact I]. apply fine_auto_commit_if.
  eapply (selecting_select_offset_inv dops sops) in Hr as (I2 & T2 & S2); try exact Ish; try eassumption; [|split; assumption].
  eapply apply_transition_inv; [exact I2 | | exact T2 | exact Ea]. destruct t; [exact I | exact S2].
Qed.

Lemma fine_ed_start_selecting (e : editor') : fine (ed_start_selecting dops sops e).
Proof.
  unfold ed_start_selecting. apply fine_bind.
  - destruct (st e); try exact I; apply fine_start_selecting_common.
  - intros [s1 t1] _. cbn [fst snd]. destruct (apply_transition s1 (st e) t1). exact I.
Qed.

Lemma fine_ed_commit (e : editor') : Inv e -> fine (ed_commit dops conv e).
Proof.
  intros [Ish _]. unfold ed_commit. destruct (negb _ || _); [exact I|]. apply fine_bind; [now apply fine_commit | intros; exact I].
Qed.

Lemma fine_clamp_page (e : editor') : 1 <= o_per_page (opts (sh e)) ->
  (forall pg act sel, st e = Selecting pg act sel -> sel_inv (sh e) sel) -> fine (clamp_page dops sops e).
Proof.
  intros Hp Hsel. unfold clamp_page. destruct (st e) as [| |pg act sel|mv]; try exact I.
  destruct (Nat.eqb _ 0); [exact I|]. apply fine_bind; [|intros; exact I].
  specialize (Hsel _ _ _ eq_refl). unfold total_page. apply fine_bind; [now apply fine_candidates|]. intros c _. unfold div_ceil.
  destruct (Nat.eqb (o_per_page (opts (sh e))) 0) eqn:E; [apply Nat.eqb_eq in E; lia | exact I].
Qed.

Lemma fine_ed_set_options_c (e : editor') o : 1 <= o_per_page o -> Inv e -> fine (ed_set_options_c dops sops e o).
Proof.
  intros Ho [Ish Ist]. unfold ed_set_options_c. apply fine_clamp_page.
  - unfold ed_set_options. cbn [sh opts set_opts]. exact Ho.
  - intros pg act sel Hst. unfold ed_set_options in *. cbn [sh st] in *. rewrite Hst in Ist. destruct Ist as (Hs & _).
    eapply sel_inv_view; [|exact Hs]. destruct (negb _); reflexivity.
Qed.

Lemma fine_ed_learn_c (e : editor') k t : Inv e -> fine (ed_learn_c dops sops e k t).
Proof.
  intros [Ish Ist]. unfold ed_learn_c. apply fine_bind.
  - unfold ed_learn. apply fine_bind; [now apply fine_learn_phrase | intros; exact I].
  - intros [e0 b0] Hr. cbn [fst snd]. apply fine_bind; [|intros; exact I].
    eapply (ed_learn_inv_s dops) in Hr as (I0 & Ec & Eo & Es); try exact Ish; try eassumption.
    apply fine_clamp_page; [now destruct I0|].
    intros pg act sel Hst. rewrite Es in Hst. rewrite Hst in Ist. destruct Ist as (Hs & _).
    eapply sel_inv_view; [|exact Hs]. now rewrite Ec.
Qed.

Lemma fine_ed_unlearn_c (e : editor') k t : Inv e -> fine (ed_unlearn_c dops sops e k t).
Proof.
  intros [[W Dk Sy Pp] Ist]. unfold ed_unlearn_c. apply fine_clamp_page; unfold ed_unlearn; cbn [sh st opts set_dict]; [exact Pp|].
  intros pg act sel Hst. rewrite Hst in Ist. now destruct Ist.
Qed.

Lemma fine_ed_set_layout (e : editor') L : Inv e -> fine (ed_set_layout dops sops e L).
Proof.
  intros [[W Dk Sy Pp] Ist]. unfold ed_set_layout. apply fine_clamp_page; unfold ed_set_layout_pinned; cbn [sh st opts set_syl]; [exact Pp|].
  intros pg act sel Hst. rewrite Hst in Ist. destruct Ist as (Hs & _). eapply sel_inv_view; [|exact Hs]. reflexivity.
Qed.

Lemma fine_with_phrase_sel (e : editor') f : Inv e -> (forall pg act p, ps_ok p -> fine (f pg act p)) -> fine (with_phrase_sel e f).
Proof.
  intros [_ Ist] Hf. unfold with_phrase_sel. destruct (st e) as [| |pg act [p|y|sy]|mv]; try exact I.
  destruct Ist as ((Hok & _) & _). apply fine_bind; [now apply Hf | intros [p'|] _; exact I].
Qed.

Lemma fine_of_ex {A} (r : outcome A) : (exists a, r = Ok a) -> fine r.
Proof. intros (a & ->). exact I. Qed.

Lemma fine_ed_jumps (e : editor') : Inv e ->
  fine (ed_jump_next dops e) /\ fine (ed_jump_prev dops e) /\ fine (ed_jump_first dops e) /\ fine (ed_jump_last dops e).
Proof.
  intros Hi. pose proof Hi as [[_ Dk _ _] _].
  repeat split; (apply fine_with_phrase_sel; [exact Hi|]); intros pg act p Hok; pose proof Hok as [Hlt Hle [Hsyl (O1 & O2) Hdir]];
    (apply fine_bind; [apply fine_of_ex | intros; exact I]).
  - apply ps_next_point_total; lia.
  - apply ps_prev_point_total; [lia | lia | destruct (ps_fwd p); lia].
  - now apply ps_init_total.
  - apply (ps_jump_last_total dops dict_ok ok_lookup); [exact Hok | exact Dk | lia].
Qed.

(* ---- every operation, every history ---- *)
Definition op_fine (o : op) : Prop :=
  match o with OpKey ev => event_ok ev | OpSetOptions x => 1 <= o_per_page x | _ => True end.

Lemma op_fine_ok o : op_fine o -> op_ok o.
Proof. destruct o; cbn; auto. Qed.

Theorem fine_step (e : editor') o : op_fine o -> Inv e -> fine (step dops sops conv e o).
Proof.
  intros Ho Hi. destruct o; cbn [step op_fine] in *; try exact I; try apply fine_fst_ok.
  - now apply fine_process_keyevent.
  - now apply fine_ed_select.
  - apply fine_ed_start_selecting.
  - now apply fine_ed_commit.
  - now apply fine_ed_set_options_c.
  - now destruct (fine_ed_jumps e Hi) as (A & B & C & E).
  - now destruct (fine_ed_jumps e Hi) as (A & B & C & E).
  - now destruct (fine_ed_jumps e Hi) as (A & B & C & E).
  - now destruct (fine_ed_jumps e Hi) as (A & B & C & E).
  - now apply fine_ed_learn_c.
  - now apply fine_ed_unlearn_c.
  - now apply fine_ed_set_layout.
Qed.

Theorem fine_run ops : forall (e : editor'), Forall op_fine ops -> Inv e -> fine (run dops sops conv e ops).
Proof.
  induction ops as [|o rest IH]; intros e Hops Hi; cbn [run]; [exact I|].
  inversion Hops as [|x l Ho Hrest]; subst.
  pose proof (fine_step e o Ho Hi) as F.
  destruct (step dops sops conv e o) as [e1| | |] eqn:Es; try exact F.
  apply IH; [exact Hrest|].
  eapply (step_inv dops sops conv dict_ok); try eassumption. now apply op_fine_ok.
Qed.

End Total.
