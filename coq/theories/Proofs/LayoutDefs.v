(* Definitions shared by the C14 layout proofs: well-formed syllable states, the
   boolean checkers of the one-step sweeps, and their soundness lemmas. *)
From Coq Require Import NArith List Bool Lia.
From LC Require Import Base.Lib Gen.Bopomofo_gen Gen.Keyboard_gen Gen.Layout_gen
  Model.Syllable Model.SyllableSearch Model.Keyboard Model.LayoutBase Model.Layout Model.LayoutSearch
  Proofs.SyllableProofs.
Import ListNotations.
Open Scope N_scope.

(* a syllable value is well formed when it is the packing of four component
   indices in range (index 0 = component absent; all absent = the EMPTY pattern);
   by C13_roundtrip such a value decodes to exactly these components and re-spells *)
Definition wf_syl (v : N) : Prop :=
  exists ci cm cr ct, in_range ci cm cr ct /\ v = pack ci cm cr ct.
(* ... and composable when at least one component is present *)
Definition composable (v : N) : Prop :=
  exists ci cm cr ct, in_range ci cm cr ct /\ all_zero ci cm cr ct = false /\ v = pack ci cm cr ct.

Definition wf_syl_b (v : N) : bool :=
  let ci := initial_idx v in let cm := medial_idx v in let cr := rime_idx v in let ct := tone_idx v in
  (ci <=? n_init) && (cm <=? n_med) && (cr <=? n_rime) && (ct <=? n_tone) && (v =? pack ci cm cr ct).
Definition composable_b (v : N) : bool := wf_syl_b v && negb (is_empty v).

Lemma wf_syl_b_sound v : wf_syl_b v = true -> wf_syl v.
Proof.
  unfold wf_syl_b. intros H.
  apply andb_true_iff in H as [H H5]. apply andb_true_iff in H as [H H4].
  apply andb_true_iff in H as [H H3]. apply andb_true_iff in H as [H1 H2].
  apply N.leb_le in H1, H2, H3, H4. apply N.eqb_eq in H5.
  exists (initial_idx v), (medial_idx v), (rime_idx v), (tone_idx v). split; [|exact H5].
  unfold in_range. auto.
Qed.

Lemma composable_b_sound v : composable_b v = true -> composable v.
Proof.
  unfold composable_b. intros H. apply andb_true_iff in H as [Hw He].
  apply wf_syl_b_sound in Hw as (ci & cm & cr & ct & Hr & Hv).
  exists ci, cm, cr, ct. split; [exact Hr|]. split; [|exact Hv].
  destruct (all_zero ci cm cr ct) eqn:Ez; [|reflexivity].
  exfalso. apply negb_true_iff in He. unfold is_empty in He. apply N.eqb_neq in He. apply He.
  rewrite Hv. unfold pack. unfold all_zero in Ez. now rewrite Ez.
Qed.

Lemma composable_wf v : composable v -> wf_syl v.
Proof. intros (ci & cm & cr & ct & Hr & _ & Hv). exists ci, cm, cr, ct. auto. Qed.

Lemma composable_not_empty v : composable v -> v <> EMPTY_PATTERN.
Proof.
  intros (ci & cm & cr & ct & Hr & Hz & Hv) He.
  pose proof (d_empty _ _ _ _ _ (pack_decoded _ _ _ _ Hr)) as Hd.
  rewrite <- Hv, Hz in Hd. unfold is_empty in Hd. apply N.eqb_neq in Hd. contradiction.
Qed.

Lemma wf_empty : wf_syl EMPTY_PATTERN.
Proof. apply wf_syl_b_sound. vm_compute. reflexivity. Qed.

(* state of a layout object *)
Definition wf_state (st : lstate) : Prop := wf_syl (ls_syl st) /\ wf_syl (ls_alt st).

(* the compact layouts set a tone only while committing, so between the editor's
   operations their syllable carries none *)
Definition compact (L : N) : bool := (L =? L_HSU) || (L =? L_ET26) || (L =? L_DC26).
Definition inv (L : N) (st : lstate) : Prop :=
  wf_state st /\ (compact L = true -> tone_idx (ls_syl st) = 0).

Definition inv_syl_b (L v : N) : bool := wf_syl_b v && (negb (compact L) || (tone_idx v =? 0)).

(* key events whose enum fields are enum values *)
Definition valid_op (op : lop) : Prop :=
  match op with
  | OpKey ev | OpFuzzyKey ev => valid_event_b ev = true
  | _ => True
  end.

(* ---- the operations of the one-step sweep of a syllable-state layout ---- *)
Definition class_events : list key_event := map class_event key_classes.
Definition sweep_ops : list lop :=
  map OpKey class_events ++ map OpFuzzyKey class_events ++ [OpRemoveLast; OpClear].

Definition norm_op (L : N) (op : lop) : lop :=
  match op with
  | OpKey ev => OpKey (class_event (class_of L ev))
  | OpFuzzyKey ev => OpFuzzyKey (class_event (class_of L ev))
  | _ => op
  end.

Definition chk_op (L v : N) (op : lop) : bool :=
  match l_step L (syl_state v) op with
  | Ok (st', b) =>
      let v' := ls_syl st' in
      wf_syl_b v' && wf_syl_b (ls_alt st') &&
      match handed L st' b with Some s => wf_syl_b s | None => true end &&
      (negb (inv_syl_b L v) ||
       match b with
       | Commit => composable_b v'
       | Fuzzy s => composable_b s && inv_syl_b L v'
       | _ => inv_syl_b L v'
       end)
  | _ => false
  end.

Definition chk_state (L : N) (ci cm cr ct : N) : bool :=
  let v := pack ci cm cr ct in forallb (chk_op L v) sweep_ops.
