(* C06 through the C API: a key-entry call answered with Ignore leaves the whole context as it was (and nothing is
   committed); one answered with Bell leaves pre-edit buffer, choices and cursor as they were. *)
From Coq Require Import NArith ZArith List Bool String Lia.
From LC Require Model.Keyboard.
From LC Require Import Base.Lib Gen.Keyboard_gen Gen.Capi_gen Gen.Editor_gen Model.Composition Model.Conversion Model.Editor
     Model.EditorRun Model.EdInst Model.CapiKeys Model.CapiConfig Model.CapiRun
     Proofs.CompositionProofs Proofs.EditorInv Proofs.EditorFrames Proofs.CapiKeysProofs Proofs.CapiInv Proofs.CapiPassthrough.
Import ListNotations.

Section CapiResult.
Variable conv : conv_fn memdict.

(* every key-entry call hands at most one key event to the editor *)
Lemma key_call_is_one_key_event c o c' : key_call o -> cstep conv c o = Ok c' ->
  c' = c \/ exists ev e' b, process_keyevent mdf_ops lay_ops conv (cx_ed c) ev = Ok (e', b) /\ c' = with_ed c e'.
Proof.
  intros Hk H.
  assert (P : forall ev, press conv c ev = Ok c' ->
              exists ev0 e' b, process_keyevent mdf_ops lay_ops conv (cx_ed c) ev0 = Ok (e', b) /\ c' = with_ed c e').
  { intros ev Hp. unfold press, ml_key in Hp. destruct ev as [ev| | |]; try discriminate.
    destruct (process_keyevent mdf_ops lay_ops conv (cx_ed c) (of_key_event ev)) as [[e b]| | |] eqn:E; try discriminate.
    inversion Hp; subst c'. cbn [fst]. eauto. }
  destruct o as [code mods|key|key|key| | | | | | | | | | | | | |]; try contradiction; cbn [cstep] in H.
  - right. eapply P. exact H.
  - right. eapply P. exact H.
  - unfold handle_ctrlnum, drop_rc in H. destruct ((48 <=? u8_of key)%N && (u8_of key <=? 57)%N).
    + unfold handle_code in H.
      destruct (press conv c (Keyboard.map_keycode (cx_kb c) (if (u8_of key =? 48)%N then kcN0 else (u8_of key - 48)%N) MOD_CTRL)) as [c1| | |] eqn:E;
        try discriminate. inversion H; subst c'. right. eapply P. exact E.
    + inversion H; subst c'. now left.
  - right. eapply P. exact H.
Qed.

Theorem c_ignored_or_bell_key_call c o c' : key_call o -> cstep conv c o = Ok c' ->
  c' = c \/
  ((chewing_keystroke_CheckIgnore c' = 1%Z ->
    persist_eq (sh (cx_ed c')) (sh (cx_ed c)) /\ st (cx_ed c') = st (cx_ed c) /\ chewing_commit_Check c' = 0%Z /\
    cx_kb c' = cx_kb c /\ cx_kbcompat c' = cx_kbcompat c /\ cx_sel c' = cx_sel c /\
    chewing_buffer_Len c' = chewing_buffer_Len c /\ chewing_cursor_Current c' = chewing_cursor_Current c) /\
   (last (sh (cx_ed c')) = BBell -> com (sh (cx_ed c')) = com (sh (cx_ed c)))).
Proof.
  intros Hk H. destruct (key_call_is_one_key_event c o c' Hk H) as [->|(ev & e' & b & E & ->)]; [now left | right].
  pose proof (process_keyevent_last conv _ _ _ _ E) as Hl. cbn [cx_ed with_ed cx_kb cx_kbcompat cx_sel].
  split.
  - intros Hi. unfold chewing_keystroke_CheckIgnore, flag, c_flags in Hi. cbn [List.nth cx_ed with_ed] in Hi.
    assert (Hb : b = BIgnore) by (rewrite Hl in Hi; destruct b; cbn in Hi; try discriminate; reflexivity). rewrite Hb in E.
    destruct (ignore_changes_nothing mdf_ops lay_ops conv _ _ _ E) as (Hp & Hs & Hcb).
    pose proof Hp as (Hcom & _).
    unfold chewing_commit_Check, chewing_buffer_Len, chewing_cursor_Current, flag, c_flags. cbn [List.nth cx_ed with_ed].
    rewrite Hcb, Hcom. cbn. repeat split; try assumption; apply Hp.
  - intros Hbell. rewrite Hl in Hbell. rewrite Hbell in E. exact (bell_keeps_preedit mdf_ops lay_ops conv _ _ _ E).
Qed.

End CapiResult.
