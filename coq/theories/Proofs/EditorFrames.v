(* Frame conditions of the key handlers (C06, C02, C05):
   - a key answered with Ignore changes nothing persistent and commits nothing;
   - a key answered with Bell leaves pre-edit text, selections and cursor alone;
   - committing the whole buffer yields exactly the string displayed before;
   - auto-commit moves whole leading intervals and accounts for every symbol. *)
From Coq Require Import NArith List Bool Arith Lia.
From LC Require Import Base.Lib Gen.Editor_gen Model.Composition Model.Conversion Model.Editor Model.EditorRun
     Proofs.CompositionProofs Proofs.EditorInv.
Import ListNotations.
Open Scope nat_scope.

Section Frames.
Context {D SY : Type} (dops : dict_ops D) (sops : syl_ops SY) (conv : conv_fn D).
Notation shared' := (shared D SY).
Notation editor' := (editor D SY).

Implicit Types s : shared D SY.
Implicit Types e : editor D SY.

Ltac inv_ok H := inversion H; subst; clear H.
Ltac bind_ok H x Hx := apply obind_ok in H; destruct H as (x & Hx & H).
Ltac split_if H :=
  match type of H with
  | context[if ?c then _ else _] => let E := fresh "E" in destruct c eqn:E
  end.

(* what persists between keystrokes: everything except the per-keystroke outputs
   (commit string, notice, last result), the tick counter and the dirty counter *)
Definition persist_eq (a b : shared') : Prop :=
  com a = com b /\ syl a = syl b /\ dict a = dict b /\ opts a = opts b /\ engine a = engine b /\
  nth a = nth b /\ abbr a = abbr b /\ sym_sel a = sym_sel b.

Lemma persist_refl a : persist_eq a a.
Proof. repeat split. Qed.

Lemma commit_or_insert_spin (s : shared') ch s' b : commit_or_insert s ch = Ok (s', Spin b) -> b = BCommit \/ b = BAbsorb.
Proof.
  unfold commit_or_insert. destruct (ce_is_empty (com s)); intros H.
  - inv_ok H. now left.
  - bind_ok H x Hx. inv_ok H. now right.
Qed.

Lemma entering_default_spin s ev s' b : entering_default sops s ev = Ok (s', Spin b) ->
  (b = BIgnore -> s' = s) /\ (b = BBell -> com s' = com s /\ dict s' = dict s /\ opts s' = opts s /\ nth s' = nth s).
Proof.
  intros H. unfold entering_default in H.
  assert (CI : forall s0 ch, commit_or_insert s0 ch = Ok (s', Spin b) -> b <> BIgnore /\ b <> BBell).
  { intros s0 ch H0. apply commit_or_insert_spin in H0 as [-> | ->]; split; discriminate. }
  assert (FIN : b <> BIgnore /\ b <> BBell ->
                (b = BIgnore -> s' = s) /\ (b = BBell -> com s' = com s /\ dict s' = dict s /\ opts s' = opts s /\ nth s' = nth s)).
  { intros [A B]. split; [intros ->; contradiction | intros ->; contradiction]. }
  destruct (negb (o_english (opts s))).
  - destruct (N.eqb (kcode ev) kc_Grave && mods_none ev); [discriminate|].
    destruct (N.eqb (kcode ev) kc_Space).
    { destruct (negb (o_fullwidth (opts s))); [apply FIN; eapply CI; eassumption|].
      destruct (full_width_symbol_input (kunicode ev)); [apply FIN; eapply CI; eassumption | discriminate]. }
    destruct (o_easy_symbol (opts s)).
    { destruct (assoc (kunicode ev) (abbr s)).
      - bind_ok H c Hc. inv_ok H. apply FIN. split; discriminate.
      - destruct (special_symbol_input (kunicode ev)).
        + bind_ok H s1 H1. inv_ok H. apply FIN. split; discriminate.
        + destruct (mods_none ev).
          * destruct (so_key_press sops (syl s) ev) as [sy kb].
            destruct kb; inv_ok H; (split; [discriminate | intros _; cbn; auto]).
          * inv_ok H. split; [discriminate | intros _; auto]. }
    set (pressed := if mods_none ev then Some (so_key_press sops (syl s) ev) else None) in *.
    destruct pressed as [[sy kb]|].
    + destruct kb; try discriminate;
      (destruct (special_symbol_input (kunicode ev));
       [bind_ok H s1 H1; inv_ok H; apply FIN; split; discriminate|];
       destruct (is_printable ev); [|inv_ok H; split; [discriminate | intros _; cbn; auto]];
       destruct (negb (o_fullwidth (opts s))); [apply FIN; eapply CI; eassumption|];
       destruct (full_width_symbol_input (kunicode ev)); [apply FIN; eapply CI; eassumption | discriminate]).
    + destruct (special_symbol_input (kunicode ev));
       [bind_ok H s1 H1; inv_ok H; apply FIN; split; discriminate|].
      destruct (is_printable ev); [|inv_ok H; split; [discriminate | intros _; auto]].
      destruct (negb (o_fullwidth (opts s))); [apply FIN; eapply CI; eassumption|].
      destruct (full_width_symbol_input (kunicode ev)); [apply FIN; eapply CI; eassumption | discriminate].
  - destruct (negb (o_fullwidth (opts s))); [apply FIN; eapply CI; eassumption|].
    destruct (full_width_symbol_input (kunicode ev)); [apply FIN; eapply CI; eassumption|].
    inv_ok H. split; [reflexivity | discriminate].
Qed.

Lemma start_selecting_common_spin s f s' b :
  start_selecting_common dops s f = Ok (s', Spin b) -> (s', Spin b) = f s.
Proof.
  unfold start_selecting_common. destruct (ce_symbol_for_select (com s)) as [sym|].
  - destruct (is_syllable sym); intros H; bind_ok H r Hr; inv_ok H.
  - intros H. now inv_ok H.
Qed.

Lemma learn_in_range_frame s a b s' ok : learn_in_range dops conv s a b = Ok (s', ok) ->
  com s' = com s /\ opts s' = opts s /\ nth s' = nth s /\ syl s' = syl s.
Proof.
  unfold learn_in_range. intros H.
  split_if H; [inv_ok H; cbn; auto|].
  split_if H; [discriminate|].
  split_if H; [inv_ok H; cbn; auto|].
  split_if H; [inv_ok H; cbn; auto|].
  destruct (do_add dops (dict s) _ _ 100%N) as [d' okk] eqn:Ea.
  destruct okk; inv_ok H; cbn; auto.
Qed.

(* ---- Entering ---- *)
Lemma entering_next_spin s ev s' b : entering_next dops sops conv s ev = Ok (s', Spin b) ->
  (b = BIgnore -> s' = s) /\ (b = BBell -> com s' = com s).
Proof.
  intros H. unfold entering_next in H.
  assert (NO : forall P Q : Prop, b <> BIgnore -> (b = BBell -> Q) -> (b = BIgnore -> P) /\ (b = BBell -> Q)).
  { intros P Q A B. split; [intros X; contradiction | exact B]. }
  assert (ABS : forall P Q : Prop, b = BAbsorb \/ b = BCommit -> (b = BIgnore -> P) /\ (b = BBell -> Q)).
  { intros P Q [-> | ->]; split; discriminate. }
  assert (IGN : b = BIgnore -> s' = s -> (b = BIgnore -> s' = s) /\ (b = BBell -> com s' = com s)).
  { intros -> ->. split; [reflexivity | discriminate]. }
  split_if H.
  { split_if H; [inv_ok H; now apply IGN|]. bind_ok H s1 H1. inv_ok H. apply ABS. now left. }
  split_if H; [inv_ok H; apply ABS; now left|].
  split_if H.
  { split_if H; [discriminate|].
    split_if H.
    - bind_ok H r Hr. destruct r as [s1 ok]. inv_ok H. cbn [fst snd].
      destruct (learn_in_range_frame _ _ _ _ _ Hr) as (Hc & _).
      destruct ok; [apply ABS; now left | split; [discriminate | intros _; exact Hc]].
    - split_if H.
      + bind_ok H r Hr. destruct r as [s1 ok]. inv_ok H. cbn [fst snd].
        destruct (learn_in_range_frame _ _ _ _ _ Hr) as (Hc & _).
        destruct ok; [apply ABS; now left | split; [discriminate | intros _; exact Hc]].
      + inv_ok H. split; [discriminate | intros _; reflexivity]. }
  split_if H; [inv_ok H; now apply IGN|].
  split_if H.
  { split_if H; [inv_ok H; apply ABS; now left|].
    split_if H; bind_ok H s1 H1; inv_ok H; apply ABS; now left. }
  split_if H.
  { split_if H; [inv_ok H; now apply IGN|]. bind_ok H s1 H1. inv_ok H. apply ABS. now left. }
  split_if H; [inv_ok H; apply ABS; now left|].
  split_if H; [split_if H; [inv_ok H; now apply IGN | discriminate]|].
  split_if H; [split_if H; [inv_ok H; now apply IGN | discriminate]|].
  split_if H; [inv_ok H; apply ABS; now left|].
  split_if H; [inv_ok H; apply ABS; now left|].
  split_if H; [inv_ok H; now apply IGN|].
  split_if H; [inv_ok H; apply ABS; now left|].
  split_if H.
  { apply start_selecting_common_spin in H. cbv beta in H.
    destruct (ce_is_empty (com s)); inv_ok H; [apply ABS; now right | now apply IGN]. }
  split_if H.
  { apply start_selecting_common_spin in H. cbv beta in H. inv_ok H. now apply IGN. }
  split_if H; [inv_ok H; apply ABS; now left|].
  split_if H; [bind_ok H s1 H1; inv_ok H; apply ABS; now right|].
  split_if H; [split_if H; inv_ok H; [apply ABS; now left | now apply IGN]|].
  split_if H.
  { apply commit_or_insert_spin in H as [-> | ->]; apply ABS; auto. }
  destruct (entering_default_spin _ _ _ _ H) as (A & B).
  split; [exact A | intros X; now destruct (B X)].
Qed.

(* ---- EnteringSyllable: never Ignore; Bell leaves the composition alone ---- *)
Lemma entering_syllable_next_spin s ev s' b : entering_syllable_next dops sops s ev = Ok (s', Spin b) ->
  b <> BIgnore /\ (b = BBell -> com s' = com s).
Proof.
  intros H. unfold entering_syllable_next in H.
  split_if H; [split_if H; [inv_ok H; split; discriminate | discriminate]|].
  split_if H; [discriminate|].
  split_if H; [discriminate|].
  destruct (if o_fuzzy (opts s) then so_fuzzy_key_press sops (syl s) ev else so_key_press sops (syl s) ev) as [sy kb].
  destruct kb as [| | | | | | |code].
  - inv_ok H. split; [discriminate | intros _; reflexivity].
  - inv_ok H. split; discriminate.
  - split_if H; [|discriminate]. bind_ok H s2 H2.
    destruct (o_engine _); [bind_ok H r Hr; discriminate | discriminate | discriminate].
  - inv_ok H. split; [discriminate | intros _; reflexivity].
  - inv_ok H. split; [discriminate | intros _; reflexivity].
  - inv_ok H. split; [discriminate | intros _; reflexivity].
  - inv_ok H. split; [discriminate | intros _; reflexivity].
  - split_if H; [bind_ok H s2 H2|]; inv_ok H; split; discriminate.
Qed.

(* ---- Selecting ---- *)
Lemma selecting_select_offset_spin s pg act sel n s' b pg' sel' :
  selecting_select_offset dops sops s pg act sel n = Ok (s', Spin b, pg', sel') ->
  s' = s /\ b <> BIgnore /\ (b = BBell -> pg' = pg /\ sel' = sel).
Proof.
  intros H. unfold selecting_select_offset in H. destruct sel as [p|y|sym0].
  - bind_ok H cands Hc. destruct (nth_error cands _).
    + bind_ok H c1 H1. discriminate.
    + inv_ok H. split; [reflexivity | split; [discriminate | auto]].
  - destruct (Nat.leb _ _); [inv_ok H; split; [reflexivity | split; [discriminate | auto]]|].
    bind_ok H r Hr. destruct r as [y' res]. destruct res.
    + bind_ok H c1 H1. discriminate.
    + inv_ok H. split; [reflexivity | split; discriminate].
  - bind_ok H m Hm. destruct (Nat.leb _ _); [inv_ok H; split; [reflexivity | split; [discriminate | auto]]|].
    bind_ok H res Hr. destruct res.
    + bind_ok H c1 H1. discriminate.
    + inv_ok H. split; [reflexivity | split; discriminate].
Qed.

Lemma selecting_select_spin s pg act sel n s' b pg' sel' :
  selecting_select dops sops s pg act sel n = Ok (s', Spin b, pg', sel') ->
  s' = s /\ b <> BIgnore /\ (b = BBell -> pg' = pg /\ sel' = sel).
Proof. unfold selecting_select. apply selecting_select_offset_spin. Qed.

Lemma selecting_next_spin s ev pg act sel s' b pg' sel' :
  selecting_next dops sops s ev pg act sel = Ok (s', Spin b, pg', sel') ->
  (b = BIgnore -> s' = s /\ pg' = pg /\ sel' = sel) /\ (b = BBell -> s' = s /\ pg' = pg /\ sel' = sel).
Proof.
  intros H. unfold selecting_next in H. cbv zeta in H.
  assert (ABS : forall P Q : Prop, b = BAbsorb -> (b = BIgnore -> P) /\ (b = BBell -> Q)).
  { intros P Q ->; split; discriminate. }
  assert (SAME : s' = s -> pg' = pg -> sel' = sel ->
                 (b = BIgnore -> s' = s /\ pg' = pg /\ sel' = sel) /\ (b = BBell -> s' = s /\ pg' = pg /\ sel' = sel)).
  { intros -> -> ->. auto. }
  split_if H; [inv_ok H; now apply SAME|].
  split_if H; [discriminate|].
  split_if H; [discriminate|].
  split_if H; [discriminate|].
  split_if H.
  { bind_ok H tp Htp. split_if H; [inv_ok H; now apply ABS|].
    destruct sel as [p|y|sym0]; [bind_ok H p' Hp'|..]; inv_ok H; now apply ABS. }
  split_if H.
  { split_if H; [inv_ok H; now apply SAME|]. bind_ok H sel1 Hs1. inv_ok H. now apply ABS. }
  split_if H.
  { split_if H; [inv_ok H; now apply SAME|]. bind_ok H sel1 Hs1. inv_ok H. now apply ABS. }
  split_if H.
  { split_if H; [inv_ok H; now apply ABS|]. bind_ok H tp Htp. inv_ok H. now apply ABS. }
  split_if H.
  { bind_ok H tp Htp. split_if H; inv_ok H; now apply ABS. }
  split_if H.
  { destruct (selecting_select_spin _ _ _ _ _ _ _ _ _ H) as (-> & A & B).
    split; [intros X; contradiction | intros X; destruct (B X); auto]. }
  split_if H; [discriminate|].
  split_if H; inv_ok H; [now apply ABS | now apply SAME].
Qed.

(* ---- Highlighting: never Ignore, never Bell ---- *)
Lemma highlighting_next_spin s ev mv s' b mv' :
  highlighting_next dops conv s ev mv = Ok (s', Spin b, mv') -> b = BAbsorb /\ s' = s.
Proof.
  intros H. unfold highlighting_next in H.
  split_if H; [discriminate|].
  split_if H; [inv_ok H; auto|].
  split_if H; [inv_ok H; auto|].
  split_if H; [bind_ok H r Hr; discriminate | discriminate].
Qed.

(* ---- C06: the key-level theorems ---- *)
Definition state_eq (a b : estate) : Prop := a = b.

Theorem ignore_changes_nothing e ev e' :
  process_keyevent dops sops conv e ev = Ok (e', BIgnore) ->
  persist_eq (sh e') (sh e) /\ st e' = st e /\
  (* nothing is committed by an ignored key: the commit string is empty unless it is the
     one left by an earlier API call that overwrote the last key result (see C02) *)
  commit_buf (sh e') = [].
Proof.
  intros H. unfold process_keyevent in H.
  set (s0 := set_notice (set_lifetime (sh e) (lifetime (sh e) + 1)%N) []) in *.
  set (s1 := set_commit s0 []) in *.
  assert (P1 : persist_eq s1 (sh e)).
  { subst s1 s0. cbn; repeat split. }
  assert (C1 : commit_buf s1 = []) by reflexivity.
  bind_ok H r Hr. destruct r as [s2 st2]. bind_ok H s3 H3.
  injection H as He Hb. subst e'. cbn [sh st].
  assert (K : last s2 = BIgnore -> s2 = set_last s1 BIgnore /\ st2 = st e).
  { intros HL. destruct (st e) as [| |pg act sel|mv] eqn:Est.
    - bind_ok Hr r Hr1. destruct r as [sa ta]. cbn [fst snd] in Hr. injection Hr as Hap.
      destruct ta as [ns|bb]; cbn [apply_transition] in Hap; inv_ok Hap; cbn [last set_last] in HL; [discriminate|].
      subst bb. destruct (entering_next_spin _ _ _ _ Hr1) as (A & _). rewrite (A eq_refl). auto.
    - bind_ok Hr r Hr1. destruct r as [sa ta]. cbn [fst snd] in Hr. injection Hr as Hap.
      destruct ta as [ns|bb]; cbn [apply_transition] in Hap; inv_ok Hap; cbn [last set_last] in HL; [discriminate|].
      subst bb. destruct (entering_syllable_next_spin _ _ _ _ Hr1) as (A & _). contradiction.
    - bind_ok Hr r Hr1. destruct r as [[[sa ta] pg'] sel']. injection Hr as Hap.
      destruct ta as [ns|bb]; cbn [apply_transition] in Hap; inv_ok Hap; cbn [last set_last] in HL; [discriminate|].
      subst bb. destruct (selecting_next_spin _ _ _ _ _ _ _ _ _ Hr1) as (A & _).
      destruct (A eq_refl) as (-> & -> & ->). auto.
    - bind_ok Hr r Hr1. destruct r as [[sa ta] mv']. injection Hr as Hap.
      destruct ta as [ns|bb]; cbn [apply_transition] in Hap; inv_ok Hap; cbn [last set_last] in HL; [discriminate|].
      subst bb. destruct (highlighting_next_spin _ _ _ _ _ _ Hr1) as (A & _). discriminate. }
  (* the final result is Ignore, so neither the transition nor auto-commit produced another result *)
  assert (L2 : last s2 = BIgnore).
  { destruct (is_entering st2 && behavior_eqb (last s2) BAbsorb) eqn:Eq.
    - unfold try_auto_commit in H3. destruct (Nat.leb _ _).
      + inv_ok H3. unfold flush_dirty in Hb. destruct (N.ltb 0 (dirty s3)); cbn in Hb; exact Hb.
      + bind_ok H3 r0 Hr0. destruct r0 as [buf rm]. bind_ok H3 c Hc. inv_ok H3.
        unfold flush_dirty in Hb. destruct (N.ltb 0 _); cbn in Hb; discriminate.
    - inv_ok H3. unfold flush_dirty in Hb. destruct (N.ltb 0 (dirty s3)); cbn in Hb; exact Hb. }
  destruct (K L2) as (-> & ->).
  assert (E3 : s3 = set_last s1 BIgnore).
  { destruct (is_entering (st e) && behavior_eqb (last (set_last s1 BIgnore)) BAbsorb) eqn:Eq.
    - cbn [last set_last behavior_eqb] in Eq. rewrite andb_false_r in Eq. discriminate.
    - now inv_ok H3. }
  subst s3.
  split; [|split; [reflexivity|]].
  - unfold flush_dirty. destruct P1 as (A1 & A2 & A3 & A4 & A5 & A6 & A7 & A8).
    destruct (N.ltb 0 _); cbn; repeat split; assumption.
  - unfold flush_dirty. destruct (N.ltb 0 _); cbn; auto.
Qed.

Theorem bell_keeps_preedit e ev e' :
  process_keyevent dops sops conv e ev = Ok (e', BBell) ->
  com (sh e') = com (sh e).
Proof.
  intros H. unfold process_keyevent in H.
  set (s0 := set_notice (set_lifetime (sh e) (lifetime (sh e) + 1)%N) []) in *.
  set (s1 := set_commit s0 []) in *.
  assert (P1 : com s1 = com (sh e)).
  { subst s1 s0. reflexivity. }
  bind_ok H r Hr. destruct r as [s2 st2]. bind_ok H s3 H3.
  injection H as He Hb. subst e'. cbn [sh st].
  assert (K : last s2 = BBell -> com s2 = com s1).
  { intros HL. destruct (st e) as [| |pg act sel|mv] eqn:Est.
    - bind_ok Hr r Hr1. destruct r as [sa ta]. cbn [fst snd] in Hr. injection Hr as Hap.
      destruct ta as [ns|bb]; cbn [apply_transition] in Hap; inv_ok Hap; cbn [last set_last] in HL; [discriminate|].
      subst bb. destruct (entering_next_spin _ _ _ _ Hr1) as (_ & A). cbn. exact (A eq_refl).
    - bind_ok Hr r Hr1. destruct r as [sa ta]. cbn [fst snd] in Hr. injection Hr as Hap.
      destruct ta as [ns|bb]; cbn [apply_transition] in Hap; inv_ok Hap; cbn [last set_last] in HL; [discriminate|].
      subst bb. destruct (entering_syllable_next_spin _ _ _ _ Hr1) as (_ & A). cbn. exact (A eq_refl).
    - bind_ok Hr r Hr1. destruct r as [[[sa ta] pg'] sel']. injection Hr as Hap.
      destruct ta as [ns|bb]; cbn [apply_transition] in Hap; inv_ok Hap; cbn [last set_last] in HL; [discriminate|].
      subst bb. destruct (selecting_next_spin _ _ _ _ _ _ _ _ _ Hr1) as (_ & A).
      destruct (A eq_refl) as (-> & _). reflexivity.
    - bind_ok Hr r Hr1. destruct r as [[sa ta] mv']. injection Hr as Hap.
      destruct ta as [ns|bb]; cbn [apply_transition] in Hap; inv_ok Hap; cbn [last set_last] in HL; [discriminate|].
      subst bb. destruct (highlighting_next_spin _ _ _ _ _ _ Hr1) as (A & _). discriminate. }
  assert (L2 : last s2 = BBell /\ s3 = s2).
  { destruct (is_entering st2 && behavior_eqb (last s2) BAbsorb) eqn:Eq.
    - apply andb_true_iff in Eq as [_ Eq]. destruct (last s2) eqn:El; try discriminate.
      unfold try_auto_commit in H3. destruct (Nat.leb _ _).
      + inv_ok H3. unfold flush_dirty in Hb. destruct (N.ltb 0 (dirty s3)); cbn in Hb; congruence.
      + bind_ok H3 r0 Hr0. destruct r0 as [buf rm]. bind_ok H3 c Hc. inv_ok H3.
        unfold flush_dirty in Hb. destruct (N.ltb 0 _); cbn in Hb; discriminate.
    - inv_ok H3. split; [|reflexivity]. unfold flush_dirty in Hb. destruct (N.ltb 0 (dirty s3)); cbn in Hb; exact Hb. }
  destruct L2 as (L2 & ->). rewrite <- P1, <- (K L2).
  unfold flush_dirty. destruct (N.ltb 0 _); reflexivity.
Qed.

(* ---- C06: keys are passed through when nothing is being composed ---- *)
Ltac kc_eval H :=
  repeat match type of H with
  | context[N.eqb ?a ?b] =>
    let v := eval vm_compute in (N.eqb a b) in
    match v with
    | true => change (N.eqb a b) with true in H
    | false => change (N.eqb a b) with false in H
    end
  | context[is_digit_code ?a] =>
    let v := eval vm_compute in (is_digit_code a) in
    match v with
    | true => change (is_digit_code a) with true in H
    | false => change (is_digit_code a) with false in H
    end
  | context[code_in ?a ?l] =>
    let v := eval vm_compute in (code_in a l) in
    match v with
    | true => change (code_in a l) with true in H
    | false => change (code_in a l) with false in H
    end
  end; cbn [andb orb negb] in H; cbv beta iota in H.

Definition passthrough_codes : list N :=
  [kc_Enter; kc_Esc; kc_Tab; kc_Backspace; kc_Del; kc_Left; kc_Right; kc_Up; kc_Down;
   kc_Home; kc_End; kc_PageUp; kc_PageDown].

Lemma entering_next_passthrough s ev :
  In (kcode ev) passthrough_codes -> ce_is_empty (com s) = true -> cursor (com s) <= ce_len (com s) ->
  entering_next dops sops conv s ev = Ok (s, Spin BIgnore).
Proof.
  intros Hin He Hc.
  assert (Hend : ce_is_end (com s) = true).
  { unfold ce_is_end, ce_is_empty in *. apply Nat.eqb_eq in He. apply Nat.eqb_eq. lia. }
  unfold passthrough_codes in Hin. cbn [In] in Hin.
  assert (K : forall r, entering_next dops sops conv s ev = r -> r = Ok (s, Spin BIgnore)).
  { intros r Hr. unfold entering_next in Hr.
    destruct Hin as [Hk|[Hk|[Hk|[Hk|[Hk|[Hk|[Hk|[Hk|[Hk|[Hk|[Hk|[Hk|[Hk|[]]]]]]]]]]]]]];
      rewrite <- Hk in Hr; kc_eval Hr; rewrite ?He, ?Hend in Hr; cbn [andb orb negb] in Hr; cbv beta iota in Hr;
      try (symmetry; exact Hr);
      (destruct (mcaps ev); cbn [andb] in Hr; cbv iota in Hr); try (symmetry; exact Hr). }
  now apply K.
Qed.

Theorem passthrough_when_idle e ev :
  st e = Entering -> ce_is_empty (com (sh e)) = true -> cursor (com (sh e)) <= ce_len (com (sh e)) ->
  In (kcode ev) passthrough_codes ->
  exists e', process_keyevent dops sops conv e ev = Ok (e', BIgnore).
Proof.
  intros Hst He Hc Hin. unfold process_keyevent. rewrite Hst.
  set (s0 := set_notice (set_lifetime (sh e) (lifetime (sh e) + 1)%N) []).
  set (s1 := set_commit s0 []).
  assert (E1 : com s1 = com (sh e)) by (subst s1 s0; reflexivity).
  rewrite (entering_next_passthrough s1 ev Hin); [|now rewrite E1|now rewrite E1].
  cbn [obind fst snd apply_transition is_entering last set_last behavior_eqb andb].
  unfold flush_dirty. destruct (N.ltb 0 _); eexists; reflexivity.
Qed.

(* ---- C05: Left / Right / Home / End move only the cursor ---- *)
Lemma cursor_keys_move_only_cursor s ev s' t :
  In (kcode ev) [kc_Left; kc_Right; kc_Home; kc_End] -> mshift ev = false ->
  entering_next dops sops conv s ev = Ok (s', t) ->
  inner (com s') = inner (com s) /\ cursor_stack (com s') = cursor_stack (com s) /\
  syl s' = syl s /\ dict s' = dict s /\ opts s' = opts s /\ nth s' = nth s /\ commit_buf s' = commit_buf s /\
  (cursor (com s') = cursor (com s) - 1 \/ cursor (com s') = Nat.min (cursor (com s) + 1) (ce_len (com s)) \/
   cursor (com s') = 0 \/ cursor (com s') = ce_len (com s) \/ cursor (com s') = cursor (com s)).
Proof.
  intros Hin Hsh H. unfold entering_next in H. cbn [In] in Hin.
  destruct Hin as [Hk|[Hk|[Hk|[Hk|[]]]]]; rewrite <- Hk in H; kc_eval H; rewrite ?Hsh in H;
    cbn [andb orb negb] in H; cbv beta iota in H;
    (destruct (mcaps ev); cbn [andb] in H; cbv iota in H);
    (destruct (ce_is_empty (com s)); cbv iota in H);
    inv_ok H; cbn; repeat split; auto 6.
Qed.

(* C05: a key absorbed in the Entering state leaves the buffer within the limit *)
Theorem absorbed_in_entering_is_bounded e ev e' :
  process_keyevent dops sops conv e ev = Ok (e', BAbsorb) -> st e' = Entering ->
  ce_len (com (sh e')) <= o_threshold (opts (sh e')).
Proof.
  intros H Hst. unfold process_keyevent in H.
  bind_ok H r Hr. destruct r as [s2 st2]. bind_ok H s3 H3. injection H as He Hb. subst e'. cbn [sh st] in *. subst st2.
  cbn [is_entering andb] in H3.
  assert (L3 : last s3 = BAbsorb) by (unfold flush_dirty in Hb; destruct (N.ltb 0 _); cbn in Hb; exact Hb).
  assert (K : ce_len (com s3) <= o_threshold (opts s3)).
  { destruct (behavior_eqb (last s2) BAbsorb) eqn:Eb.
    - unfold try_auto_commit in H3. destruct (Nat.leb _ _) eqn:El.
      + inv_ok H3. now apply Nat.leb_le.
      + bind_ok H3 r0 Hr0. destruct r0 as [buf rm]. bind_ok H3 c Hc. inv_ok H3. cbn in L3. discriminate.
    - inv_ok H3. rewrite L3 in Eb. discriminate. }
  unfold flush_dirty. destruct (N.ltb 0 _); exact K.
Qed.

(* ---- C02: the commit buffer is written only together with a Commit result ---- *)
Lemma with_com_commit_buf s r s' : with_com s r = Ok s' -> commit_buf s' = commit_buf s.
Proof. unfold with_com. intros H. bind_ok H c Hc. now inv_ok H. Qed.

Lemma commit_or_insert_cb s ch s' t : commit_or_insert s ch = Ok (s', t) -> t = Spin BCommit \/ commit_buf s' = commit_buf s.
Proof.
  unfold commit_or_insert. destruct (ce_is_empty (com s)); intros H.
  - inv_ok H. now left.
  - bind_ok H x Hx. inv_ok H. right. eapply with_com_commit_buf; eassumption.
Qed.

Lemma insert_chars_any l : forall c c', insert_chars c l = Ok c' -> True.
Proof. trivial. Qed.

Lemma entering_default_cb s ev s' t : entering_default sops s ev = Ok (s', t) ->
  t = Spin BCommit \/ commit_buf s' = commit_buf s.
Proof.
  intros H. unfold entering_default in H.
  assert (INS : forall s0 x s1, with_com s0 (ce_insert (com s0) x) = Ok s1 -> commit_buf s1 = commit_buf s0).
  { intros s0 x s1 H0. eapply with_com_commit_buf; eassumption. }
  destruct (negb (o_english (opts s))).
  - destruct (N.eqb (kcode ev) kc_Grave && mods_none ev); [inv_ok H; now right|].
    destruct (N.eqb (kcode ev) kc_Space).
    { destruct (negb (o_fullwidth (opts s))); [eapply commit_or_insert_cb; eassumption|].
      destruct (full_width_symbol_input (kunicode ev)); [eapply commit_or_insert_cb; eassumption | discriminate]. }
    destruct (o_easy_symbol (opts s)).
    { destruct (assoc (kunicode ev) (abbr s)).
      - bind_ok H c Hc. inv_ok H. now right.
      - destruct (special_symbol_input (kunicode ev)).
        + bind_ok H s1 H1. inv_ok H. right. eapply INS; eassumption.
        + destruct (mods_none ev).
          * destruct (so_key_press sops (syl s) ev) as [sy kb]. destruct kb; inv_ok H; now right.
          * inv_ok H. now right. }
    set (pressed := if mods_none ev then Some (so_key_press sops (syl s) ev) else None) in *.
    destruct pressed as [[sy kb]|].
    + destruct kb; try (inv_ok H; now right);
      (destruct (special_symbol_input (kunicode ev));
       [bind_ok H s1 H1; inv_ok H; right; erewrite INS by eassumption; reflexivity|];
       destruct (is_printable ev); [|inv_ok H; now right];
       destruct (negb (o_fullwidth (opts s)));
       [destruct (commit_or_insert_cb _ _ _ _ H) as [K|K]; [now left | right; exact K]|];
       destruct (full_width_symbol_input (kunicode ev)); [|discriminate];
       destruct (commit_or_insert_cb _ _ _ _ H) as [K|K]; [now left | right; exact K]).
    + destruct (special_symbol_input (kunicode ev));
       [bind_ok H s1 H1; inv_ok H; right; eapply INS; eassumption|].
      destruct (is_printable ev); [|inv_ok H; now right].
      destruct (negb (o_fullwidth (opts s))); [eapply commit_or_insert_cb; eassumption|].
      destruct (full_width_symbol_input (kunicode ev)); [eapply commit_or_insert_cb; eassumption | discriminate].
  - destruct (negb (o_fullwidth (opts s))); [eapply commit_or_insert_cb; eassumption|].
    destruct (full_width_symbol_input (kunicode ev)); [eapply commit_or_insert_cb; eassumption | inv_ok H; now right].
Qed.

Lemma learn_in_range_cb s a b s' ok : learn_in_range dops conv s a b = Ok (s', ok) -> commit_buf s' = commit_buf s.
Proof.
  unfold learn_in_range. intros H.
  split_if H; [now inv_ok H|]. split_if H; [discriminate|]. split_if H; [now inv_ok H|]. split_if H; [now inv_ok H|].
  destruct (do_add dops (dict s) _ _ 100%N) as [d' okk]. destruct okk; now inv_ok H.
Qed.

Lemma new_selecting_cb s s' st' :
  (new_phrase_selecting dops s = Ok (s', st') \/ new_phrase_selecting_simple s = Ok (s', st') \/
   exists sym, new_special_selecting s sym = Ok (s', st')) -> commit_buf s' = commit_buf s.
Proof.
  intros [H|[H|(sym & H)]].
  - unfold new_phrase_selecting in H. bind_ok H p Hp. now inv_ok H.
  - unfold new_phrase_selecting_simple in H. bind_ok H p Hp. now inv_ok H.
  - unfold new_special_selecting in H. bind_ok H m Hm. destruct m; now inv_ok H.
Qed.

Lemma start_selecting_common_cb s f s' t : start_selecting_common dops s f = Ok (s', t) ->
  (s', t) = f s \/ commit_buf s' = commit_buf s.
Proof.
  unfold start_selecting_common. destruct (ce_symbol_for_select (com s)) as [sym|].
  - destruct (is_syllable sym); intros H; bind_ok H r Hr; destruct r as [s1 st1]; inv_ok H; right; cbn [fst];
    eapply new_selecting_cb; eauto.
  - intros H. inv_ok H. now left.
Qed.

Lemma entering_next_cb s ev s' t : entering_next dops sops conv s ev = Ok (s', t) ->
  t = Spin BCommit \/ commit_buf s' = commit_buf s.
Proof.
  intros H. unfold entering_next in H.
  assert (WC : forall r s1, with_com s r = Ok s1 -> commit_buf s1 = commit_buf s).
  { intros r s1 H0. eapply with_com_commit_buf; eassumption. }
  split_if H.
  { split_if H; [inv_ok H; now right|]. bind_ok H s1 H1. inv_ok H. right. eapply WC; eassumption. }
  split_if H; [inv_ok H; now right|].
  split_if H.
  { split_if H; [inv_ok H; now right|].
    split_if H.
    - bind_ok H r Hr. destruct r as [s1 ok]. inv_ok H. right. cbn [fst]. eapply learn_in_range_cb; eassumption.
    - split_if H.
      + bind_ok H r Hr. destruct r as [s1 ok]. inv_ok H. right. cbn [fst]. eapply learn_in_range_cb; eassumption.
      + inv_ok H. now right. }
  split_if H; [inv_ok H; now right|].
  split_if H.
  { split_if H; [inv_ok H; now right|].
    split_if H; bind_ok H s1 H1; inv_ok H; right; eapply WC; eassumption. }
  split_if H.
  { split_if H; [inv_ok H; now right|]. bind_ok H s1 H1. inv_ok H. right. eapply WC; eassumption. }
  split_if H; [inv_ok H; now right|].
  split_if H; [split_if H; inv_ok H; now right|].
  split_if H; [split_if H; inv_ok H; now right|].
  split_if H; [inv_ok H; now right|].
  split_if H; [inv_ok H; now right|].
  split_if H; [inv_ok H; now right|].
  split_if H; [inv_ok H; now right|].
  split_if H.
  { destruct (start_selecting_common_cb _ _ _ _ H) as [K|K]; [|now right]. cbv beta in K.
    destruct (ce_is_empty (com s)); inv_ok K; [now left | now right]. }
  split_if H.
  { destruct (start_selecting_common_cb _ _ _ _ H) as [K|K]; [|now right]. cbv beta in K. inv_ok K. now right. }
  split_if H; [inv_ok H; now right|].
  split_if H; [bind_ok H s1 H1; inv_ok H; now left|].
  split_if H; [split_if H; inv_ok H; now right|].
  split_if H; [eapply commit_or_insert_cb; eassumption|].
  eapply entering_default_cb; eassumption.
Qed.

Lemma entering_syllable_next_cb s ev s' t : entering_syllable_next dops sops s ev = Ok (s', t) ->
  commit_buf s' = commit_buf s.
Proof.
  intros H. unfold entering_syllable_next in H.
  split_if H; [split_if H; now inv_ok H|].
  split_if H; [now inv_ok H|].
  split_if H; [split_if H; now inv_ok H|].
  destruct (if o_fuzzy (opts s) then so_fuzzy_key_press sops (syl s) ev else so_key_press sops (syl s) ev) as [sy kb].
  destruct kb as [| | | | | | |code]; try (now inv_ok H).
  - split_if H; [|now inv_ok H]. bind_ok H s2 H2. apply with_com_commit_buf in H2. cbn [commit_buf set_syl] in H2.
    destruct (o_engine _).
    + bind_ok H r Hr. destruct r as [s3 st3]. inv_ok H. cbn [fst].
      rewrite (new_selecting_cb _ _ _ (or_intror (or_introl Hr))). cbn. exact H2.
    + inv_ok H. cbn. exact H2.
    + inv_ok H. cbn. exact H2.
  - split_if H; [bind_ok H s2 H2; apply with_com_commit_buf in H2|]; inv_ok H; [exact H2 | reflexivity].
Qed.

Lemma selecting_select_offset_cb s pg act sel n s' t pg' sel' :
  selecting_select_offset dops sops s pg act sel n = Ok (s', t, pg', sel') -> commit_buf s' = commit_buf s.
Proof.
  intros H. unfold selecting_select_offset in H. destruct sel as [p|y|sym0].
  - bind_ok H cands Hc. destruct (nth_error cands _); [bind_ok H c1 H1|]; now inv_ok H.
  - destruct (Nat.leb _ _); [now inv_ok H|].
    bind_ok H r Hr. destruct r as [y' res]. destruct res; [bind_ok H c1 H1|]; now inv_ok H.
  - bind_ok H m Hm. destruct (Nat.leb _ _); [now inv_ok H|].
    bind_ok H res Hr. destruct res; [bind_ok H c1 H1|]; now inv_ok H.
Qed.

Lemma selecting_select_cb s pg act sel n s' t pg' sel' :
  selecting_select dops sops s pg act sel n = Ok (s', t, pg', sel') -> commit_buf s' = commit_buf s.
Proof. unfold selecting_select. apply selecting_select_offset_cb. Qed.

Lemma selecting_next_cb s ev pg act sel s' t pg' sel' :
  selecting_next dops sops s ev pg act sel = Ok (s', t, pg', sel') -> commit_buf s' = commit_buf s.
Proof.
  intros H. unfold selecting_next in H. cbv zeta in H.
  split_if H; [now inv_ok H|].
  split_if H; [now inv_ok H|].
  split_if H; [now inv_ok H|].
  split_if H; [now inv_ok H|].
  split_if H.
  { bind_ok H tp Htp. split_if H; [now inv_ok H|].
    destruct sel as [p|y|sym0]; [bind_ok H p' Hp'|..]; now inv_ok H. }
  split_if H; [split_if H; [now inv_ok H|]; bind_ok H sel1 Hs1; now inv_ok H|].
  split_if H; [split_if H; [now inv_ok H|]; bind_ok H sel1 Hs1; now inv_ok H|].
  split_if H; [split_if H; [now inv_ok H|]; bind_ok H tp Htp; now inv_ok H|].
  split_if H; [bind_ok H tp Htp; split_if H; now inv_ok H|].
  split_if H; [eapply selecting_select_cb; eassumption|].
  split_if H; [now inv_ok H|].
  split_if H; now inv_ok H.
Qed.

Lemma highlighting_next_cb s ev mv s' t mv' :
  highlighting_next dops conv s ev mv = Ok (s', t, mv') -> commit_buf s' = commit_buf s.
Proof.
  intros H. unfold highlighting_next in H.
  split_if H; [now inv_ok H|]. split_if H; [now inv_ok H|]. split_if H; [now inv_ok H|].
  split_if H; [|now inv_ok H].
  bind_ok H r Hr. destruct r as [s1 ok]. inv_ok H. cbn [fst]. now rewrite (learn_in_range_cb _ _ _ _ _ Hr).
Qed.

(* A non-empty commit string is available only when the key result says Commit
   (every key event, every state, every layout / dictionary / conversion). *)
Theorem commit_string_only_with_commit e ev e' b :
  process_keyevent dops sops conv e ev = Ok (e', b) -> commit_buf (sh e') <> [] -> b = BCommit.
Proof.
  intros H Hne. unfold process_keyevent in H.
  set (s0 := set_notice (set_lifetime (sh e) (lifetime (sh e) + 1)%N) []) in *.
  set (s1 := set_commit s0 []) in *.
  bind_ok H r Hr. destruct r as [s2 st2]. bind_ok H s3 H3. injection H as He Hb. subst e'. cbn [sh] in Hne.
  assert (K : last s2 = BCommit \/ commit_buf s2 = []).
  { destruct (st e) as [| |pg act sel|mv].
    - bind_ok Hr r Hr1. destruct r as [sa ta]. cbn [fst snd] in Hr. injection Hr as Hap.
      destruct (entering_next_cb _ _ _ _ Hr1) as [-> | K].
      + cbn [apply_transition] in Hap. inv_ok Hap. now left.
      + right. destruct ta; cbn [apply_transition] in Hap; inv_ok Hap; cbn; exact K.
    - bind_ok Hr r Hr1. destruct r as [sa ta]. cbn [fst snd] in Hr. injection Hr as Hap.
      right. pose proof (entering_syllable_next_cb _ _ _ _ Hr1) as K.
      destruct ta; cbn [apply_transition] in Hap; inv_ok Hap; cbn; exact K.
    - bind_ok Hr r Hr1. destruct r as [[[sa ta] pg'] sel']. injection Hr as Hap.
      right. pose proof (selecting_next_cb _ _ _ _ _ _ _ _ _ Hr1) as K.
      destruct ta; cbn [apply_transition] in Hap; inv_ok Hap; cbn; exact K.
    - bind_ok Hr r Hr1. destruct r as [[sa ta] mv']. injection Hr as Hap.
      right. pose proof (highlighting_next_cb _ _ _ _ _ _ Hr1) as K.
      destruct ta; cbn [apply_transition] in Hap; inv_ok Hap; cbn; exact K. }
  assert (K3 : last s3 = BCommit \/ commit_buf s3 = []).
  { destruct (is_entering st2 && behavior_eqb (last s2) BAbsorb).
    - unfold try_auto_commit in H3. destruct (Nat.leb _ _); [now inv_ok H3|].
      bind_ok H3 r0 Hr0. destruct r0 as [buf rm]. bind_ok H3 c Hc. inv_ok H3. now left.
    - now inv_ok H3. }
  unfold flush_dirty in *. destruct (N.ltb 0 (dirty s3)); cbn in *; destruct K3 as [K3|K3]; congruence.
Qed.

(* ---- C02: what is committed is what was displayed ---- *)
Theorem enter_commits_display e ev e' b :
  st e = Entering -> ce_is_empty (com (sh e)) = false -> kcode ev = kc_Enter ->
  process_keyevent dops sops conv e ev = Ok (e', b) ->
  b = BCommit /\ commit_buf (sh e') = display conv (sh e) /\ ce_len (com (sh e')) = 0 /\ st e' = Entering.
Proof.
  intros Hst Hne Hk H. unfold process_keyevent in H. rewrite Hst in H.
  set (s0 := set_notice (set_lifetime (sh e) (lifetime (sh e) + 1)%N) []) in *.
  set (s1 := set_commit s0 []) in *.
  assert (E1 : com s1 = com (sh e) /\ nth s1 = nth (sh e)) by (subst s1 s0; split; reflexivity).
  destruct E1 as (Ec & En).
  assert (Hd : display conv s1 = display conv (sh e)) by (unfold display, conversion; now rewrite Ec, En).
  bind_ok H r Hr. destruct r as [s2 st2]. bind_ok Hr r1 Hr1. destruct r1 as [sa ta]. cbn [fst snd] in Hr.
  unfold entering_next in Hr1. rewrite Hk in Hr1. kc_eval Hr1. rewrite Ec, Hne in Hr1.
  cbn [andb orb negb] in Hr1. cbv beta iota in Hr1.
  bind_ok Hr1 sc Hsc. inv_ok Hr1. cbn [apply_transition] in Hr. inv_ok Hr.
  unfold commit in Hsc. bind_ok Hsc sl Hsl. inv_ok Hsc.
  cbn [is_entering last set_last behavior_eqb andb obind] in H. inv_ok H.
  cbn [sh st]. unfold flush_dirty. destruct (N.ltb 0 _); cbn; (split; [reflexivity | split; [|split; reflexivity]]);
  fold (display conv s1); exact Hd.
Qed.

Fixpoint sum_len (ivs : list interval) : nat :=
  match ivs with [] => 0 | iv :: r => iv_len iv + sum_len r end.

Lemma auto_commit_take_spec len thr : forall ivs buf rm buf' rm',
  rm <= len ->
  auto_commit_take len thr ivs buf rm = Ok (buf', rm') ->
  exists j, buf' = buf ++ flat_map itext (firstn j ivs) /\ rm' = rm + sum_len (firstn j ivs) /\
            rm' <= len /\ (len - rm' <= thr \/ length ivs <= j).
Proof.
  induction ivs as [|iv rest IH]; intros buf rm buf' rm' Hrm H; cbn [auto_commit_take] in H.
  - inv_ok H. exists 0. cbn. rewrite app_nil_r. repeat split; lia.
  - split_if H; [discriminate|]. apply Nat.ltb_ge in E. split_if H.
    + inv_ok H. exists 1. cbn [firstn flat_map sum_len]. rewrite app_nil_r. apply Nat.leb_le in E0.
      repeat split; lia.
    + destruct (IH _ _ _ _ E H) as (j & Hb & Hr & Hle & Hj). exists (S j). cbn [firstn flat_map sum_len length].
      rewrite Hb, Hr, <- app_assoc. repeat split; try lia.
Qed.

(* a tiling: contiguous from `from` to `len`, one character per covered symbol *)
Definition one_char_each (ivs : list interval) : Prop := Forall (fun iv => length (itext iv) = iv_len iv) ivs.

Lemma contiguous_sum : forall ivs from len, contiguous from len ivs = true -> from + sum_len ivs = len.
Proof.
  induction ivs as [|iv r IH]; intros from len H; cbn [contiguous sum_len] in *.
  - apply Nat.eqb_eq in H. lia.
  - apply andb_true_iff in H as [H H2]. apply andb_true_iff in H as [H0 H1].
    apply Nat.eqb_eq in H0. apply Nat.ltb_lt in H1. specialize (IH _ _ H2). unfold iv_len. lia.
Qed.

Lemma sum_len_firstn_le j : forall ivs, sum_len (firstn j ivs) <= sum_len ivs.
Proof. induction j as [|j IH]; intros [|iv r]; cbn [firstn sum_len]; try lia. specialize (IH r). lia. Qed.

Lemma flat_map_text_length ivs : one_char_each ivs -> length (flat_map itext ivs) = sum_len ivs.
Proof.
  induction 1 as [|iv r Hiv Hr IH]; cbn [flat_map sum_len]; [reflexivity|]. rewrite app_length, IH, Hiv. reflexivity.
Qed.

Lemma one_char_firstn j : forall ivs, one_char_each ivs -> one_char_each (firstn j ivs).
Proof.
  unfold one_char_each. induction j as [|j IH]; intros [|iv r] H; cbn [firstn]; try constructor.
  - inversion H; subst; assumption.
  - apply IH. inversion H; subst; assumption.
Qed.

(* try_auto_commit: the characters pushed out are the texts of a leading part of the
   conversion of the full buffer, in order; exactly their symbols are removed from the front;
   committed + remaining = before; afterwards the buffer fits the limit *)
Theorem auto_commit_accounts s s' :
  wf_ce (com s) ->
  contiguous 0 (ce_len (com s)) (conversion conv s) = true -> one_char_each (conversion conv s) ->
  try_auto_commit conv s = Ok s' ->
  (ce_len (com s) <= o_threshold (opts s) /\ s' = s) \/
  exists j,
    commit_buf s' = flat_map itext (firstn j (conversion conv s)) /\
    symbols (inner (com s')) = skipn (sum_len (firstn j (conversion conv s))) (symbols (inner (com s))) /\
    length (commit_buf s') + ce_len (com s') = ce_len (com s) /\
    ce_len (com s') <= o_threshold (opts s') /\ last s' = BCommit.
Proof.
  intros W Hc H1 H. unfold try_auto_commit in H.
  destruct (Nat.leb (ce_len (com s)) (o_threshold (opts s))) eqn:El.
  - left. apply Nat.leb_le in El. inv_ok H. auto.
  - right. bind_ok H r Hr. destruct r as [buf rm]. bind_ok H c Hcc. inv_ok H.
    destruct (auto_commit_take_spec _ _ _ _ _ _ _ (Nat.le_0_l _) Hr) as (j & Hb & Hrm & Hle & Hj).
    cbn [app] in Hb. cbn [plus] in Hrm.
    destruct (ce_remove_front_spec _ _ _ W Hcc) as (W' & Hs & Hcur & Hn).
    exists j. cbn [commit_buf set_commit set_com set_last com opts last].
    assert (Hlen' : ce_len c = ce_len (com s) - rm).
    { unfold ce_len, clen. rewrite Hs, skipn_length. reflexivity. }
    assert (Hbl : length buf = rm).
    { rewrite Hb, Hrm. apply flat_map_text_length. now apply one_char_firstn. }
    split; [exact Hb | split; [now rewrite <- Hrm | split; [lia | split; [|reflexivity]]]].
    destruct Hj as [Hj|Hj]; [lia|].
    assert (rm = ce_len (com s)).
    { rewrite Hrm, firstn_all2 by exact Hj. pose proof (contiguous_sum _ _ _ Hc). lia. }
    lia.
Qed.

End Frames.
