(* Proofs about Model/Syllable.v on the generated tables (C13).
   Finite domains are swept completely by vm_compute and lifted with
   forall_below_spec; everything else is by induction / lia. *)
From Coq Require Import NArith List Bool Lia.
From LC Require Import Base.Lib Gen.Bopomofo_gen Model.Syllable Model.SyllableSearch.
Import ListNotations.
Open Scope N_scope.

(* ------------------------------------------------------------------ *)
(* Component indices: 0 = absent, k = the k-th entry of the index map. *)

Definition n_init : N := len_N initial_map.
Definition n_med : N := len_N medial_map.
Definition n_rime : N := len_N rime_map.
Definition n_tone : N := len_N tone_map.

Definition sym_i (c : N) : option N := opt_from from_initial c.
Definition sym_m (c : N) : option N := opt_from from_medial c.
Definition sym_r (c : N) : option N := opt_from from_rime c.

Definition comp_syms (ci cm cr ct : N) : list N :=
  opt_list (sym_i ci) ++ opt_list (sym_m cm) ++ opt_list (sym_r cr) ++ opt_list (sym_t ct).

Definition in_range (ci cm cr ct : N) : Prop :=
  ci <= n_init /\ cm <= n_med /\ cr <= n_rime /\ ct <= n_tone.

(* the arithmetic packing the field layout stands for *)
Definition pack (ci cm cr ct : N) : N :=
  if (ci =? 0) && (cm =? 0) && (cr =? 0) && (ct =? 0) then EMPTY_PATTERN
  else ci * 512 + cm * 128 + cr * 8 + ct.

Definition forall_comps (p : N -> N -> N -> N -> bool) : bool :=
  forall_below (n_init + 1) (fun ci =>
  forall_below (n_med + 1) (fun cm =>
  forall_below (n_rime + 1) (fun cr =>
  forall_below (n_tone + 1) (fun ct => p ci cm cr ct)))).

Lemma forall_comps_spec p :
  forall_comps p = true ->
  forall ci cm cr ct, in_range ci cm cr ct -> p ci cm cr ct = true.
Proof.
  unfold forall_comps, in_range. intros H ci cm cr ct (Hi & Hm & Hr & Ht).
  apply forall_below_true with (i := ci) in H; [|lia].
  apply forall_below_true with (i := cm) in H; [|lia].
  apply forall_below_true with (i := cr) in H; [|lia].
  apply forall_below_true with (i := ct) in H; [|lia].
  exact H.
Qed.

(* ------------------------------------------------------------------ *)
(* Table well-formedness (generated tables). *)

Definition tables_wf_b : bool :=
  (len_N kind_table =? n_bopomofo) && (len_N index_table =? n_bopomofo) &&
  (len_N char_table =? n_bopomofo) &&
  forall_below n_bopomofo (fun b =>
    (bkind b <? 4) &&
    (* char round trip: TryFrom<char>(char::from(b)) = Ok b *)
    match bchar b with Some c => option_eqb N.eqb (bopomofo_of_char c) (Some b) | None => false end &&
    (* index() agrees with the builder's discriminant arithmetic *)
    (if bkind b =? KIND_INITIAL then (bindex b =? b + 1)
     else if bkind b =? KIND_MEDIAL then (20 <=? b) && (bindex b =? b - 20)
     else if bkind b =? KIND_RIME then (23 <=? b) && (bindex b =? b - 23)
     else (36 <=? b) && (bindex b =? b - 36)) &&
    (1 <=? bindex b)) &&
  (* the index maps invert index() *)
  forall_below n_init (fun i => match from_initial i with Some b => (bkind b =? KIND_INITIAL) && (bindex b =? i + 1) | None => false end) &&
  forall_below n_med (fun i => match from_medial i with Some b => (bkind b =? KIND_MEDIAL) && (bindex b =? i + 1) | None => false end) &&
  forall_below n_rime (fun i => match from_rime i with Some b => (bkind b =? KIND_RIME) && (bindex b =? i + 1) | None => false end) &&
  forall_below n_tone (fun i => match from_tone i with Some b => (bkind b =? KIND_TONE) && (bindex b =? i + 1) | None => false end) &&
  (* field widths *)
  (n_init <? 64) && (n_med <? 4) && (n_rime <? 16) && (n_tone <? 8) &&
  (* TryFrom<char> only yields Bopomofo values, each from its own char *)
  forallb (fun p => (snd p <? n_bopomofo) && option_eqb N.eqb (bchar (snd p)) (Some (fst p))) of_char_table.

Lemma tables_wf : tables_wf_b = true.
Proof. vm_cast_no_check (eq_refl true). Qed.

(* every tone symbol the parser accepts is decodable: this is the obligation
   the first-tone mark violated before the fix (index 5 with a 4-entry map) *)
Definition all_tones_decodable_b : bool :=
  forall_below n_bopomofo (fun b =>
    if bkind b =? KIND_TONE then option_eqb N.eqb (sym_t (bindex b)) (Some b) else true).

Lemma all_tones_decodable : all_tones_decodable_b = true.
Proof. vm_cast_no_check (eq_refl true). Qed.

(* ------------------------------------------------------------------ *)
(* Compose / decode / spell / parse round trips over all component tuples. *)

Definition chk_comp (ci cm cr ct : N) : bool :=
  match parse_syms (comp_syms ci cm cr ct) with
  | inl v =>
      (v =? pack ci cm cr ct) && negb (v =? 0) && (v <? 65536) &&
      (* code -> components *)
      option_eqb N.eqb (initial v) (sym_i ci) && option_eqb N.eqb (medial v) (sym_m cm) &&
      option_eqb N.eqb (rime v) (sym_r cr) && option_eqb N.eqb (tone v) (sym_t ct) &&
      Bool.eqb (is_empty v) ((ci =? 0) && (cm =? 0) && (cr =? 0) && (ct =? 0)) &&
      (* components -> spelling -> syllable *)
      list_eqb N.eqb (spell_syms v) (comp_syms ci cm cr ct) &&
      (len_N (spell v) =? len_N (spell_syms v)) &&
      match parse_chars (spell v) with inl v' => v' =? v | inr _ => false end &&
      (* code -> syllable -> code *)
      option_eqb N.eqb (try_from_u16 v) (Some v)
  | inr _ => false
  end.

Lemma chk_comp_all : forall_comps chk_comp = true.
Proof. vm_cast_no_check (eq_refl true). Qed.

Lemma pack_inj ci cm cr ct ci' cm' cr' ct' :
  in_range ci cm cr ct -> in_range ci' cm' cr' ct' ->
  pack ci cm cr ct = pack ci' cm' cr' ct' ->
  ci = ci' /\ cm = cm' /\ cr = cr' /\ ct = ct'.
Proof.
  pose proof tables_wf as W. unfold tables_wf_b in W.
  repeat (apply andb_true_iff in W as [W ?]).
  repeat match goal with H : (_ <? _) = true |- _ => apply N.ltb_lt in H end.
  unfold in_range, pack. intros (Hi & Hm & Hr & Ht) (Hi' & Hm' & Hr' & Ht').
  destruct ((ci =? 0) && (cm =? 0) && (cr =? 0) && (ct =? 0))%bool eqn:E;
  destruct ((ci' =? 0) && (cm' =? 0) && (cr' =? 0) && (ct' =? 0))%bool eqn:E'.
  - repeat (apply andb_true_iff in E as [E ?]). repeat (apply andb_true_iff in E' as [E' ?]).
    repeat match goal with H : (_ =? _) = true |- _ => apply N.eqb_eq in H end. lia.
  - unfold EMPTY_PATTERN. intros. exfalso. lia.
  - unfold EMPTY_PATTERN. intros. exfalso. lia.
  - intros. lia.
Qed.

(* ------------------------------------------------------------------ *)
(* Every accepted symbol list is the canonical spelling of its result. *)


(* explores only the symbol lists the builder accepts (a rejected prefix
   rejects every extension, by definition of parse_from) *)
Fixpoint chk_parse (fuel : nat) (s : builder) (acc_rev : list N) : bool :=
  list_eqb N.eqb (spell_syms (builder_build s)) (rev acc_rev) &&
  match fuel with
  | O => forallb (fun b => match builder_insert s b with inl _ => false | inr _ => true end) syms_all
  | S k => forallb (fun b => match builder_insert s b with
                             | inl s' => chk_parse k s' (b :: acc_rev)
                             | inr _ => true
                             end) syms_all
  end.

Lemma chk_parse_sound fuel : forall s acc l v,
  chk_parse fuel s acc = true ->
  Forall (fun b => b < n_bopomofo) l ->
  parse_from s l = inl v ->
  rev acc ++ l = spell_syms v.
Proof.
  induction fuel as [|k IH]; intros s acc l v H Hl Hp; cbn [chk_parse] in H;
    apply andb_true_iff in H as [Hs Hrest]; apply list_eqb_N_spec in Hs.
  - destruct l as [|b l'].
    + cbn in Hp. inversion Hp; subst. now rewrite app_nil_r.
    + exfalso. cbn [parse_from] in Hp.
      rewrite forallb_forall in Hrest. specialize (Hrest b).
      inversion Hl as [|b0 l0 Hb Hl']; subst.
      assert (Hin : In b syms_all) by (apply range_nat_In; lia).
      specialize (Hrest Hin). destruct (builder_insert s b); discriminate.
  - destruct l as [|b l'].
    + cbn in Hp. inversion Hp; subst. now rewrite app_nil_r.
    + cbn [parse_from] in Hp. rewrite forallb_forall in Hrest. specialize (Hrest b).
      inversion Hl as [|b0 l0 Hb Hl']; subst.
      assert (Hin : In b syms_all) by (apply range_nat_In; lia).
      specialize (Hrest Hin).
      destruct (builder_insert s b) as [s'|e]; [|discriminate].
      specialize (IH s' (b :: acc) l' v Hrest Hl' Hp).
      cbn [rev] in IH. now rewrite <- app_assoc in IH.
Qed.

(* ------------------------------------------------------------------ *)
(* starts_with on packed codes *)

Definition last_present (cm cr ct : N) : N :=
  if negb (ct =? 0) then 3 else if negb (cr =? 0) then 2 else if negb (cm =? 0) then 1 else 0.

Definition agree_upto (ci cm cr ct pi pm pr pt : N) : bool :=
  let lp := last_present pm pr pt in
  (ci =? pi) && ((lp <? 1) || (cm =? pm)) && ((lp <? 2) || (cr =? pr)) && ((lp <? 3) || (ct =? pt)).

Definition shift_of_last (lp : N) : N :=
  if lp =? 3 then 0 else if lp =? 2 then 3 else if lp =? 1 then 7 else 9.

Definition all_zero (ci cm cr ct : N) : bool := (ci =? 0) && (cm =? 0) && (cr =? 0) && (ct =? 0).

(* the shift chosen for a non-empty prefix depends only on its last component *)
Definition chk_shift (pi pm pr pt : N) : bool :=
  all_zero pi pm pr pt ||
  (starts_with_shift (pack pi pm pr pt) =? shift_of_last (last_present pm pr pt)).
Lemma chk_shift_all : forall_comps chk_shift = true.
Proof. vm_cast_no_check (eq_refl true). Qed.

(* the four shifted views of a packed code *)
Definition chk_views (ci cm cr ct : N) : bool :=
  let v := pack ci cm cr ct in
  let e := all_zero ci cm cr ct in
  (N.shiftr v 0 =? (if e then 32768 else ci * 512 + cm * 128 + cr * 8 + ct)) &&
  (N.shiftr v 3 =? (if e then 4096 else ci * 64 + cm * 16 + cr)) &&
  (N.shiftr v 7 =? (if e then 256 else ci * 4 + cm)) &&
  (N.shiftr v 9 =? (if e then 64 else ci)).
Lemma chk_views_all : forall_comps chk_views = true.
Proof. vm_cast_no_check (eq_refl true). Qed.

Lemma widths : n_init < 64 /\ n_med < 4 /\ n_rime < 16 /\ n_tone < 8.
Proof. vm_compute. repeat split; reflexivity. Qed.

Lemma starts_with_pack ci cm cr ct pi pm pr pt :
  in_range ci cm cr ct -> in_range pi pm pr pt ->
  all_zero pi pm pr pt = false ->
  starts_with (pack ci cm cr ct) (pack pi pm pr pt) = agree_upto ci cm cr ct pi pm pr pt.
Proof.
  intros Hs Hp Hne.
  pose proof (forall_comps_spec _ chk_shift_all _ _ _ _ Hp) as Hsh.
  pose proof (forall_comps_spec _ chk_views_all _ _ _ _ Hp) as Hvp.
  pose proof (forall_comps_spec _ chk_views_all _ _ _ _ Hs) as Hvs.
  unfold chk_shift in Hsh. rewrite Hne in Hsh. cbn [orb] in Hsh. apply N.eqb_eq in Hsh.
  unfold chk_views in Hvp, Hvs. rewrite Hne in Hvp.
  apply andb_true_iff in Hvp as [Hvp Hp9]. apply andb_true_iff in Hvp as [Hvp Hp7].
  apply andb_true_iff in Hvp as [Hp0 Hp3].
  apply andb_true_iff in Hvs as [Hvs Hs9]. apply andb_true_iff in Hvs as [Hvs Hs7].
  apply andb_true_iff in Hvs as [Hs0 Hs3].
  apply N.eqb_eq in Hp0, Hp3, Hp7, Hp9, Hs0, Hs3, Hs7, Hs9.
  unfold starts_with. rewrite Hsh. clear Hsh.
  pose proof widths as (Wi & Wm & Wr & Wt).
  destruct Hs as (Hi & Hm & Hr & Ht). destruct Hp as (Hpi & Hpm & Hpr & Hpt).
  assert (Hnz : pi <> 0 \/ pm <> 0 \/ pr <> 0 \/ pt <> 0).
  { unfold all_zero in Hne.
    destruct (N.eq_dec pi 0) as [->|]; [|now left].
    destruct (N.eq_dec pm 0) as [->|]; [|now right; left].
    destruct (N.eq_dec pr 0) as [->|]; [|now right; right; left].
    destruct (N.eq_dec pt 0) as [->|]; [|now right; right; right].
    discriminate. }
  assert (Hz : all_zero ci cm cr ct = true <-> (ci = 0 /\ cm = 0 /\ cr = 0 /\ ct = 0)).
  { unfold all_zero. rewrite !andb_true_iff, !N.eqb_eq. tauto. }
  unfold agree_upto, shift_of_last, last_present.
  apply eq_true_iff_eq.
  destruct (N.eq_dec pt 0) as [Ept|Ept];
    [rewrite (proj2 (N.eqb_eq pt 0) Ept)|rewrite (proj2 (N.eqb_neq pt 0) Ept)]; cbn [negb].
  2: { change (3 =? 3) with true. cbv iota. rewrite Hs0, Hp0.
       rewrite !andb_true_iff, !orb_true_iff, !N.eqb_eq, !N.ltb_lt.
       destruct (all_zero ci cm cr ct) eqn:Ez;
         [pose proof (proj1 Hz eq_refl) as Ez'
         |assert (Ez' : ~ (ci = 0 /\ cm = 0 /\ cr = 0 /\ ct = 0)) by (intro X; apply Hz in X; discriminate)]; lia. }
  destruct (N.eq_dec pr 0) as [Epr|Epr];
    [rewrite (proj2 (N.eqb_eq pr 0) Epr)|rewrite (proj2 (N.eqb_neq pr 0) Epr)]; cbn [negb].
  2: { change (2 =? 3) with false. change (2 =? 2) with true. cbv iota. rewrite Hs3, Hp3.
       rewrite !andb_true_iff, !orb_true_iff, !N.eqb_eq, !N.ltb_lt.
       destruct (all_zero ci cm cr ct) eqn:Ez;
         [pose proof (proj1 Hz eq_refl) as Ez'
         |assert (Ez' : ~ (ci = 0 /\ cm = 0 /\ cr = 0 /\ ct = 0)) by (intro X; apply Hz in X; discriminate)]; lia. }
  destruct (N.eq_dec pm 0) as [Epm|Epm];
    [rewrite (proj2 (N.eqb_eq pm 0) Epm)|rewrite (proj2 (N.eqb_neq pm 0) Epm)]; cbn [negb].
  2: { change (1 =? 3) with false. change (1 =? 2) with false. change (1 =? 1) with true.
       cbv iota. rewrite Hs7, Hp7.
       rewrite !andb_true_iff, !orb_true_iff, !N.eqb_eq, !N.ltb_lt.
       destruct (all_zero ci cm cr ct) eqn:Ez;
         [pose proof (proj1 Hz eq_refl) as Ez'
         |assert (Ez' : ~ (ci = 0 /\ cm = 0 /\ cr = 0 /\ ct = 0)) by (intro X; apply Hz in X; discriminate)]; lia. }
  change (0 =? 3) with false. change (0 =? 2) with false. change (0 =? 1) with false.
  cbv iota. rewrite Hs9, Hp9.
  rewrite !andb_true_iff, !orb_true_iff, !N.eqb_eq, !N.ltb_lt.
  destruct (all_zero ci cm cr ct) eqn:Ez;
         [pose proof (proj1 Hz eq_refl) as Ez'
         |assert (Ez' : ~ (ci = 0 /\ cm = 0 /\ cr = 0 /\ ct = 0)) by (intro X; apply Hz in X; discriminate)]; lia.
Qed.

(* ------------------------------------------------------------------ *)
(* update / remove_* / pop against the accessors, on every 16-bit code *)

Definition fields_eqb (v w : N) (skip : N) : bool :=
  ((skip =? 0) || (initial_idx v =? initial_idx w)) &&
  ((skip =? 1) || (medial_idx v =? medial_idx w)) &&
  ((skip =? 2) || (rime_idx v =? rime_idx w)) &&
  ((skip =? 3) || (tone_idx v =? tone_idx w)).

Definition field_idx (k v : N) : N :=
  if k =? 0 then initial_idx v else if k =? 1 then medial_idx v else if k =? 2 then rime_idx v else tone_idx v.

(* update on every composable syllable x every symbol: the addressed field
   becomes index(b), the other three fields are untouched, the result is a
   non-zero code below 2^15 (so NonZeroU16::new(..).unwrap() cannot fail) *)
Definition chk_update (v b : N) : bool :=
  match update v b with
  | Ok w => negb (w =? 0) && (w <? 32768) && (field_idx (bkind b) w =? bindex b) && fields_eqb v w (bkind b)
  | _ => false
  end.
Definition chk_update_comp (ci cm cr ct : N) : bool :=
  forall_below n_bopomofo (chk_update (pack ci cm cr ct)).
Lemma chk_update_comp_all : forall_comps chk_update_comp = true.
Proof. vm_cast_no_check (eq_refl true). Qed.

Definition chk_remove (v : N) : bool :=
  (v =? 0) ||
  let chk (k : N) (r : option N * N) (acc : option N) :=
      let w := snd r in
      option_eqb N.eqb (fst r) acc && negb (w =? 0) && (w <? 65536) &&
      ((w =? EMPTY_PATTERN) || ((field_idx k w =? 0) && fields_eqb v w k)) in
  chk 0 (remove_initial v) (initial v) && chk 1 (remove_medial v) (medial v) &&
  chk 2 (remove_rime v) (rime v) && chk 3 (remove_tone v) (tone v).
Lemma chk_remove_all : forall_below 65536 chk_remove = true.
Proof. vm_cast_no_check (eq_refl true). Qed.

(* pop removes and returns the last present component of a composable syllable *)
Definition chk_pop (ci cm cr ct : N) : bool :=
  let v := pack ci cm cr ct in
  let r := pop v in
  if negb (ct =? 0) then option_eqb N.eqb (fst r) (sym_t ct) && (snd r =? pack ci cm cr 0)
  else if negb (cr =? 0) then option_eqb N.eqb (fst r) (sym_r cr) && (snd r =? pack ci cm 0 0)
  else if negb (cm =? 0) then option_eqb N.eqb (fst r) (sym_m cm) && (snd r =? pack ci 0 0 0)
  else if negb (ci =? 0) then option_eqb N.eqb (fst r) (sym_i ci) && (snd r =? pack 0 0 0 0)
  else option_eqb N.eqb (fst r) None && (snd r =? v).
Lemma chk_pop_all : forall_comps chk_pop = true.
Proof. vm_cast_no_check (eq_refl true). Qed.

(* ------------------------------------------------------------------ *)
(* Derived statements used by Properties/C13.v *)

Lemma chk_parse_all : chk_parse 5 builder_new [] = true.
Proof. vm_cast_no_check (eq_refl true). Qed.

Lemma parse_syms_canonical l v :
  Forall (fun b => b < n_bopomofo) l -> parse_syms l = inl v -> l = spell_syms v.
Proof. intros Hl Hp. exact (chk_parse_sound 5 builder_new [] l v chk_parse_all Hl Hp). Qed.

Lemma assoc_In {A} k (l : list (N * A)) v : assoc k l = Some v -> In (k, v) l.
Proof.
  induction l as [|[k' v'] l IH]; cbn [assoc]; [discriminate|].
  destruct (N.eqb_spec k k') as [->|Hne].
  - intros H; inversion H; subst. now left.
  - intros H. right. now apply IH.
Qed.

Lemma of_char_sound c b :
  bopomofo_of_char c = Some b -> b < n_bopomofo /\ bchar b = Some c.
Proof.
  intros H. apply assoc_In in H.
  pose proof tables_wf as W. unfold tables_wf_b in W.
  apply andb_true_iff in W as [_ W].
  rewrite forallb_forall in W. specialize (W _ H). cbn [fst snd] in W.
  apply andb_true_iff in W as [W1 W2]. apply N.ltb_lt in W1.
  apply option_eqb_N_spec in W2. now split.
Qed.

Lemma parse_chars_from_syms s l v :
  parse_chars_from s l = inl v ->
  exists syms, parse_from s syms = inl v /\ Forall (fun b => b < n_bopomofo) syms /\
               map_opt bchar syms = l.
Proof.
  revert s. induction l as [|c l IH]; intros s H; cbn [parse_chars_from] in H.
  - exists []. cbn. repeat split; [exact H | constructor].
  - destruct (bopomofo_of_char c) as [b|] eqn:Ec; [|discriminate].
    destruct (builder_insert s b) as [s'|e] eqn:Ei; [|discriminate].
    destruct (IH s' H) as (syms & Hp & Hf & Hm).
    apply of_char_sound in Ec as [Hb Hc].
    exists (b :: syms). cbn [parse_from map_opt]. rewrite Ei, Hc, Hm.
    repeat split; [exact Hp | now constructor].
Qed.

Lemma parse_chars_canonical l v : parse_chars l = inl v -> l = spell v.
Proof.
  intros H. apply parse_chars_from_syms in H as (syms & Hp & Hf & Hm).
  apply parse_syms_canonical in Hp; [|exact Hf]. unfold spell. now rewrite <- Hp.
Qed.

Lemma comp_facts ci cm cr ct :
  in_range ci cm cr ct -> chk_comp ci cm cr ct = true.
Proof. apply forall_comps_spec, chk_comp_all. Qed.

Lemma compose_pack ci cm cr ct :
  in_range ci cm cr ct ->
  compose (sym_i ci) (sym_m cm) (sym_r cr) (sym_t ct) = inl (pack ci cm cr ct).
Proof.
  intros H. apply comp_facts in H. unfold chk_comp in H. unfold compose. fold (comp_syms ci cm cr ct).
  destruct (parse_syms (comp_syms ci cm cr ct)) as [v|e]; [|discriminate].
  repeat (apply andb_true_iff in H as [H _]). apply N.eqb_eq in H. now subst.
Qed.

Record decoded (v ci cm cr ct : N) : Prop := {
  d_nonzero : v <> 0;
  d_u16 : v < 65536;
  d_initial : initial v = sym_i ci;
  d_medial : medial v = sym_m cm;
  d_rime : rime v = sym_r cr;
  d_tone : tone v = sym_t ct;
  d_empty : is_empty v = all_zero ci cm cr ct;
  d_spell : spell_syms v = comp_syms ci cm cr ct;
  d_spell_total : len_N (spell v) = len_N (spell_syms v);
  d_parse : parse_chars (spell v) = inl v;
  d_try_from : try_from_u16 v = Some v
}.

Lemma pack_decoded ci cm cr ct :
  in_range ci cm cr ct -> decoded (pack ci cm cr ct) ci cm cr ct.
Proof.
  intros Hr. pose proof (comp_facts _ _ _ _ Hr) as H. unfold chk_comp in H.
  destruct (parse_syms (comp_syms ci cm cr ct)) as [v|e]; [|discriminate].
  apply andb_true_iff in H as [H H12]. apply andb_true_iff in H as [H H11].
  apply andb_true_iff in H as [H H10]. apply andb_true_iff in H as [H H9].
  apply andb_true_iff in H as [H H8]. apply andb_true_iff in H as [H H7].
  apply andb_true_iff in H as [H H6]. apply andb_true_iff in H as [H H5].
  apply andb_true_iff in H as [H H4]. apply andb_true_iff in H as [H H3].
  apply andb_true_iff in H as [H1 H2].
  apply N.eqb_eq in H1. subst v.
  constructor.
  - apply negb_true_iff, N.eqb_neq in H2. exact H2.
  - now apply N.ltb_lt.
  - now apply option_eqb_N_spec.
  - now apply option_eqb_N_spec.
  - now apply option_eqb_N_spec.
  - now apply option_eqb_N_spec.
  - apply eqb_prop in H8. exact H8.
  - now apply list_eqb_N_spec.
  - now apply N.eqb_eq.
  - destruct (parse_chars (spell (pack ci cm cr ct))) as [v'|]; [|discriminate].
    apply N.eqb_eq in H11. now subst.
  - now apply option_eqb_N_spec.
Qed.

Lemma spell_pack_inj ci cm cr ct ci' cm' cr' ct' :
  in_range ci cm cr ct -> in_range ci' cm' cr' ct' ->
  spell (pack ci cm cr ct) = spell (pack ci' cm' cr' ct') ->
  ci = ci' /\ cm = cm' /\ cr = cr' /\ ct = ct'.
Proof.
  intros H1 H2 He.
  pose proof (d_parse _ _ _ _ _ (pack_decoded _ _ _ _ H1)) as P1.
  pose proof (d_parse _ _ _ _ _ (pack_decoded _ _ _ _ H2)) as P2.
  rewrite He in P1. rewrite P1 in P2. inversion P2 as [Hp].
  now apply pack_inj.
Qed.

Lemma update_spec ci cm cr ct b :
  in_range ci cm cr ct -> b < n_bopomofo ->
  chk_update (pack ci cm cr ct) b = true.
Proof.
  intros Hr Hb. pose proof (forall_comps_spec _ chk_update_comp_all _ _ _ _ Hr) as H.
  unfold chk_update_comp in H. now apply forall_below_true with (i := b) in H.
Qed.

Lemma remove_spec v : 0 < v < 65536 -> chk_remove v = true.
Proof.
  intros Hv. pose proof chk_remove_all as H.
  apply forall_below_true with (i := v) in H; [exact H | lia].
Qed.

Lemma pop_spec ci cm cr ct : in_range ci cm cr ct -> chk_pop ci cm cr ct = true.
Proof. apply forall_comps_spec, chk_pop_all. Qed.
