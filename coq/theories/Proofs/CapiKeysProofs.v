(* C01 for the key-entry glue of the C API (Model/CapiKeys.v): no history of C calls - every chewing_handle_*
   with ANY int, chewing_set_KBType with any int at any moment, selection keys, candidate calls, editor
   operations - panics or hangs.  The context invariant: the editor invariant (EditorInv) and "the keyboard is
   one of the eight AnyKeyboardLayout variants"; every event the keyboards build meets the editor's
   precondition (KeyEventsOk sweeps); the KB table only names keyboards that exist. *)
From Coq Require Import NArith ZArith List Bool String Lia.
From LC Require Model.Keyboard.
From LC Require Import Base.Lib Gen.Keyboard_gen Gen.Capi_gen Gen.Editor_gen Model.Composition Model.Conversion Model.Editor
     Model.EditorRun Model.EdInst Model.CapiKeys Model.CapiConfig Model.CapiRun
     Proofs.CompositionProofs Proofs.EdInstProofs Proofs.EditorInv Proofs.NoPanic Proofs.KeyboardProofs Proofs.KeyEventsOk.
Import ListNotations.

Section Capi.
Variable conv : conv_fn memdict.
Hypothesis conv_tiles : forall d k c n, md_fine d -> wf_comp c -> contiguous 0 (clen c) (conv d k c n) = true.
Variable ss0 : symbol_sel.
Hypothesis ss0_good : ss_good ss0.
Hypothesis ss0_fresh : ss_cursor ss0 = None.

Notation EInv := (Inv mdf_ops lay_ops md_fine ss0).

Record CInv (c : cctx) : Prop := { ci_ed : EInv (cx_ed c); ci_kb : (cx_kb c < n_keyboard)%N }.

Definition cop_fine (o : cop) : Prop :=
  match o with
  | CHandle code mods => (code < n_keycode)%N /\ (mods < 16)%N
  | CEditor o => op_fine o
  | _ => True
  end.

(* the instance facts the generic editor theorems need *)
Let lay_alt_stable : forall x c, so_alt lay_ops (so_clear lay_ops x) c = so_alt lay_ops x c.
Proof. intros [L s] c. reflexivity. Qed.

Let md_lookup_nil : forall d f, md_fine d -> do_lookup mdf_ops d f [] = [].
Proof. intros d f H. apply mdf_ok_lookup. now apply md_fine_ok. Qed.
Let md_text : forall d f k p, md_fine d -> In p (do_lookup mdf_ops d f k) -> fst p <> [].
Proof. intros d f k p. apply mdf_fine_text. Qed.

Lemma e_fine_step e o : op_fine o -> EInv e -> fine (step mdf_ops lay_ops conv e o).
Proof.
  intros Ho Hi.
  exact (fine_step mdf_ops lay_ops conv md_fine md_lookup_nil mdf_fine_add mdf_fine_update ss0 ss0_good ss0_fresh
                   md_text conv_tiles e o Ho Hi).
Qed.

Lemma e_step_inv e o e' : op_fine o -> EInv e -> step mdf_ops lay_ops conv e o = Ok e' -> EInv e'.
Proof.
  intros Ho Hi H.
  exact (step_inv mdf_ops lay_ops conv md_fine md_lookup_nil mdf_fine_add mdf_fine_update mdf_fine_remove lay_alt_stable
                  ss0 ss0_good ss0_fresh e o e' (op_fine_ok o Ho) Hi H).
Qed.

Lemma of_key_event_is_ed_event ev : of_key_event ev = ed_event ev.
Proof. reflexivity. Qed.

(* a key event handed to the editor: as the editor operation OpKey *)
Lemma press_is_step c ev : press conv c (Ok ev) =
  match step mdf_ops lay_ops conv (cx_ed c) (OpKey (of_key_event ev)) with
  | Ok e => Ok (with_ed c e) | Err x => Err x | Panic s => Panic s | OutOfFuel => OutOfFuel end.
Proof.
  unfold press, ml_key. cbn [step]. unfold fst_ok.
  destruct (process_keyevent mdf_ops lay_ops conv (cx_ed c) (of_key_event ev)) as [[e b]| | |]; reflexivity.
Qed.

Lemma press_ok c ev : CInv c -> event_ok (ed_event ev) ->
  fine (press conv c (Ok ev)) /\ forall c', press conv c (Ok ev) = Ok c' -> CInv c'.
Proof.
  intros [Hi Hk] Hev. rewrite press_is_step, of_key_event_is_ed_event.
  pose proof (e_fine_step (cx_ed c) (OpKey (ed_event ev)) Hev Hi) as F.
  destruct (step mdf_ops lay_ops conv (cx_ed c) (OpKey (ed_event ev))) as [e| | |] eqn:Es; try exact F; try (split; [exact F | discriminate]).
  split; [exact I|]. intros c' H. inversion H; subst c'. constructor; [|exact Hk].
  eapply e_step_inv; [| exact Hi | exact Es]. exact Hev.
Qed.

Lemma u8_lt key : (u8_of key < 256)%N.
Proof. unfold u8_of. pose proof (Z.mod_pos_bound key 256 ltac:(lia)). lia. Qed.

(* the generated KB table only names keyboards of the keyboard model *)
Lemma keyboard_number_lt name : (keyboard_number name < n_keyboard)%N.
Proof.
  unfold keyboard_number. repeat (destruct (String.eqb name _); [vm_compute; reflexivity|]). vm_compute. reflexivity.
Qed.

Lemma drop_rc_fine {A} (r : outcome (cctx * A)) : fine r -> fine (drop_rc r).
Proof. destruct r; cbn; auto. Qed.

(* chewing_config_set_int: whatever the name and the int, the options it installs keep the page size >= 1
   (candidates_per_page accepts 1..10; every other arm leaves the field alone) *)
Lemma apply_iopt_per_page o v op eng op' eng' : set_int_global_reject v = false ->
  Config.apply_iopt o v op eng = Some (op', eng') -> (1 <= Config.candidates_per_page op)%Z ->
  (1 <= Config.candidates_per_page op')%Z.
Proof.
  intros Hg H Hp. unfold set_int_global_reject in Hg. apply Z.ltb_ge in Hg.
  destruct o; cbn [Config.apply_iopt] in H;
    try (match type of H with
         | match ?x with _ => _ end = _ => destruct x as [y|]; [|discriminate]; inversion H; subst; cbn; exact Hp
         end).
  - (* candidates_per_page *)
    unfold set_int_reject_candidates_per_page in H. destruct ((v =? 0) || (v >? 10))%Z eqn:E; [discriminate|].
    inversion H; subst. cbn. apply orb_false_iff in E as (E1 & _). apply Z.eqb_neq in E1. lia.
  - (* auto_commit_threshold *)
    destruct (set_int_reject_auto_commit_threshold v); [discriminate|]. inversion H; subst. cbn. exact Hp.
  - (* conversion_engine *)
    destruct (Config.assocZ v set_int_engine) as [[kind [inst strat]]|]; [|discriminate]. inversion H; subst. cbn. exact Hp.
Qed.

Lemma config_set_int_ok c name v : CInv c ->
  fine (config_set_int_c c name v) /\ forall c' rc, config_set_int_c c name v = Ok (c', rc) -> CInv c'.
Proof.
  intros Hc. pose proof Hc as [Hi Hk]. unfold config_set_int_c.
  destruct (set_int_global_reject v) eqn:Hg; [split; [exact I | intros c' rc H; inversion H; subst; exact Hc]|].
  destruct (Config.parse_iopt name) as [o|]; [|split; [exact I | intros c' rc H; inversion H; subst; exact Hc]].
  destruct (Config.apply_iopt o v (of_ed_options (opts (sh (cx_ed c)))) (engine_to_N (engine (sh (cx_ed c))))) as [[op' eng']|] eqn:Ea;
    [|split; [exact I | intros c' rc H; inversion H; subst; exact Hc]].
  assert (Hper : (1 <= o_per_page (to_ed_options op'))%nat).
  { cbn [to_ed_options o_per_page].
    assert (1 <= Config.candidates_per_page op')%Z; [|lia].
    eapply apply_iopt_per_page; [exact Hg | exact Ea|]. cbn [of_ed_options Config.candidates_per_page].
    destruct Hi as [[_ _ _ Hp] _]. lia. }
  set (e1 := ml_set_engine (cx_ed c) (engine_of_N eng')).
  assert (H1 : EInv e1) by (eapply (e_step_inv (cx_ed c) (OpSetEngine (engine_of_N eng'))); [exact I | exact Hi | reflexivity]).
  unfold ml_set_options.
  pose proof (e_fine_step e1 (OpSetOptions (to_ed_options op')) Hper H1) as F. cbn [step] in F.
  destruct (ed_set_options_c mdf_ops lay_ops e1 (to_ed_options op')) as [e2| | |] eqn:Es; try (split; [exact F | intros c' rc H; discriminate H]).
  split; [exact I|]. intros c' rc H. inversion H; subst c' rc. constructor; cbn [cx_ed cx_kb with_ed]; [|exact Hk].
  eapply (e_step_inv e1 (OpSetOptions (to_ed_options op'))); [exact Hper | exact H1 | exact Es].
Qed.

Theorem cstep_ok c o : cop_fine o -> CInv c ->
  fine (cstep conv c o) /\ forall c', cstep conv c o = Ok c' -> CInv c'.
Proof.
  intros Ho Hc. pose proof Hc as [Hi Hk]. destruct o; cbn [cstep cop_fine] in *.
  - (* named handlers *)
    destruct Ho as (Hcode & Hmods). unfold handle_code.
    destruct (map_keycode_total (cx_kb c) code mods Hk Hcode Hmods) as (ev & Hev & _). rewrite Hev.
    apply press_ok; [exact Hc|]. eapply keycode_event_ok; eauto.
  - (* chewing_handle_Default, any int *)
    unfold handle_default. set (key' := if is_selecting_b (cx_ed c) then _ else key).
    destruct (map_ascii_total (cx_kb c) (u8_of key') Hk (u8_lt key')) as ((ev & Hev & _) & _). rewrite Hev.
    apply press_ok; [exact Hc|]. eapply ascii_event_ok; [exact Hk | apply (u8_lt key') | left; exact Hev].
  - (* chewing_handle_CtrlNum *)
    unfold handle_ctrlnum. destruct ((48 <=? u8_of key)%N && (u8_of key <=? 57)%N) eqn:Ed; [|split; [exact I | intros c' H; inversion H; subst; exact Hc]].
    apply andb_true_iff in Ed as (E1 & E2). apply N.leb_le in E1, E2.
    set (code := if (u8_of key =? 48)%N then kcN0 else (u8_of key - 48)%N).
    assert (Hcode : (code < n_keycode)%N).
    { unfold code. destruct (u8_of key =? 48)%N; [vm_compute; reflexivity|]. unfold n_keycode. lia. }
    unfold handle_code. destruct (map_keycode_total (cx_kb c) code MOD_CTRL Hk Hcode ltac:(vm_compute; reflexivity)) as (ev & Hev & _).
    rewrite Hev. destruct (press_ok c ev Hc ltac:(eapply keycode_event_ok; eauto; vm_compute; reflexivity)) as (F & K).
    destruct (press conv c (Ok ev)) as [c1| | |] eqn:Ep; cbn [drop_rc fst]; try (split; [exact F | intros c' H; discriminate H]).
    split; [exact I|]. intros c' H. inversion H; subst. now apply K.
  - (* chewing_handle_Numlock *)
    unfold handle_numlock.
    destruct (map_ascii_total (cx_kb c) (u8_of key) Hk (u8_lt key)) as (_ & (ev & Hev & _)). rewrite Hev.
    apply press_ok; [exact Hc|]. eapply ascii_event_ok; [exact Hk | apply (u8_lt key) | right; exact Hev].
  - (* chewing_set_KBType, any int: a layout switch of the editor + a keyboard of the table *)
    unfold set_kbtype.
    set (known := if ((0 <=? n) && (n <=? 255))%Z then assoc (Z.to_N n) kb_table_by_number else None).
    set (t := match known with Some r => (Z.to_N n, r, 0%Z) | None => (KB_Default, (init_keyboard, init_syllable_editor), (-1)%Z) end).
    destruct t as [[kbn row] rc]. unfold ml_set_layout.
    pose proof (e_fine_step (cx_ed c) (OpLayout (layout_number (snd row))) I Hi) as F. cbn [step] in F.
    destruct (ed_set_layout mdf_ops lay_ops (cx_ed c) (layout_number (snd row))) as [e| | |] eqn:Es; cbn [drop_rc fst]; try (split; [exact F | intros c' H; discriminate H]).
    split; [exact I|]. intros c' H. inversion H; subst c'. constructor; cbn [cx_ed cx_kb]; [|apply keyboard_number_lt].
    eapply (e_step_inv (cx_ed c) (OpLayout (layout_number (snd row)))); [exact I | exact Hi | exact Es].
  - (* chewing_set_selKey *)
    split; [exact I|]. intros c' H. inversion H; subst c'. unfold set_selkey. destruct (Nat.eqb _ 10); [constructor; assumption | exact Hc].
  - (* chewing_cand_choose_by_index, any int *)
    unfold cand_choose, ml_select.
    pose proof (e_fine_step (cx_ed c) (OpSelect (choose_index (cx_ed c) i)) I Hi) as F. cbn [step] in F. unfold fst_ok in F.
    destruct (ed_select mdf_ops lay_ops conv (cx_ed c) (choose_index (cx_ed c) i)) as [[e b]| | |] eqn:Es; cbn [drop_rc fst]; try (split; [exact F | intros c' H; discriminate H]).
    split; [exact I|]. intros c' H. inversion H; subst c'. constructor; cbn [cx_ed cx_kb]; [|exact Hk].
    eapply (e_step_inv (cx_ed c) (OpSelect (choose_index (cx_ed c) i))); [exact I | exact Hi |]. cbn [step]. now rewrite Es.
  - (* chewing_cand_open *)
    unfold cand_open, ml_start_selecting.
    pose proof (e_fine_step (cx_ed c) OpStart I Hi) as F. cbn [step] in F. unfold fst_ok in F.
    destruct (ed_start_selecting mdf_ops lay_ops (cx_ed c)) as [[e b]| | |] eqn:Es; cbn [drop_rc fst]; try (split; [exact F | intros c' H; discriminate H]).
    split; [exact I|]. intros c' H. inversion H; subst c'. constructor; cbn [cx_ed cx_kb]; [|exact Hk].
    eapply (e_step_inv (cx_ed c) OpStart); [exact I | exact Hi |]. cbn [step]. now rewrite Es.
  - (* chewing_cand_close *)
    split; [exact I|]. intros c' H. inversion H; subst c'. unfold cand_close, ml_cancel. constructor; cbn [cx_ed cx_kb fst with_ed]; [|exact Hk].
    eapply (e_step_inv (cx_ed c) OpCancel); [exact I | exact Hi | reflexivity].
  - (* chewing_cand_list_first / last / next / prev *)
    unfold cand_list. destruct (negb (is_selecting_b (cx_ed c))); [split; [exact I | intros c' H; inversion H; subst; exact Hc]|].
    set (o := match which with 0%N => OpJumpFirst | 1%N => OpJumpLast | 2%N => OpJumpNext | _ => OpJumpPrev end).
    pose proof (e_fine_step (cx_ed c) o ltac:(destruct which as [|[p|[p|p|]|]]; exact I) Hi) as F.
    assert (Es : step mdf_ops lay_ops conv (cx_ed c) o =
                 fst_ok (match which with 0%N => ml_jump_first mdf_ops (cx_ed c) | 1%N => ml_jump_last mdf_ops (cx_ed c) | 2%N => ml_jump_next mdf_ops (cx_ed c) | _ => ml_jump_prev mdf_ops (cx_ed c) end))
      by (unfold o; destruct which as [|[p|[p|p|]|]]; reflexivity).
    rewrite Es in F. unfold fst_ok in F.
    destruct (match which with 0%N => ml_jump_first mdf_ops (cx_ed c) | 1%N => ml_jump_last mdf_ops (cx_ed c) | 2%N => ml_jump_next mdf_ops (cx_ed c) | _ => ml_jump_prev mdf_ops (cx_ed c) end)
      as [[e b]| | |] eqn:Ej; cbn [drop_rc fst]; try (split; [exact F | intros c' H; discriminate H]).
    split; [exact I|]. intros c' H. inversion H; subst c'. constructor; cbn [cx_ed cx_kb with_ed]; [|exact Hk].
    eapply (e_step_inv (cx_ed c) o); [destruct which as [|[p|[p|p|]|]]; exact I | exact Hi |]. rewrite Es. unfold fst_ok. reflexivity.
  - (* chewing_commit_preedit_buf *)
    unfold commit_preedit, ml_commit.
    pose proof (e_fine_step (cx_ed c) OpCommit I Hi) as F. cbn [step] in F. unfold fst_ok in F.
    destruct (ed_commit mdf_ops conv (cx_ed c)) as [[e b]| | |] eqn:Es; cbn [drop_rc fst]; try (split; [exact F | intros c' H; discriminate H]).
    split; [exact I|]. intros c' H. inversion H; subst c'. constructor; cbn [cx_ed cx_kb]; [|exact Hk].
    eapply (e_step_inv (cx_ed c) OpCommit); [exact I | exact Hi |]. cbn [step]. now rewrite Es.
  - (* chewing_clean_preedit_buf *)
    split; [exact I|]. intros c' H. inversion H; subst c'. unfold clean_preedit. destruct (is_entering_b (cx_ed c)); cbn [fst]; [|exact Hc].
    constructor; cbn [cx_ed cx_kb with_ed]; [|exact Hk]. eapply (e_step_inv (cx_ed c) OpClear); [exact I | exact Hi | reflexivity].
  - (* chewing_clean_bopomofo_buf *)
    split; [exact I|]. intros c' H. inversion H; subst c'. unfold clean_bopomofo. constructor; cbn [cx_ed cx_kb with_ed fst]; [|exact Hk].
    eapply (e_step_inv (cx_ed c) OpClearSyl); [exact I | exact Hi | reflexivity].
  - (* chewing_Reset *)
    split; [exact I|]. intros c' H. inversion H; subst c'. unfold reset. constructor; cbn [cx_ed cx_kb with_ed]; [|exact Hk].
    eapply (e_step_inv (cx_ed c) OpClear); [exact I | exact Hi | reflexivity].
  - (* chewing_config_set_int, any name, any int *)
    destruct (config_set_int_ok c name value Hc) as (F & K).
    destruct (config_set_int_c c name value) as [[c1 rc]| | |] eqn:Es; cbn [drop_rc fst]; try (split; [exact F | intros c' H; discriminate H]).
    split; [exact I|]. intros c' H. inversion H; subst c'. eapply K; reflexivity.
  - (* chewing_userphrase_add, any two strings *)
    unfold userphrase_add. destruct (Nat.ltb 11 _); [split; [exact I | intros c' H; inversion H; subst; exact Hc]|].
    unfold ml_learn.
    pose proof (e_fine_step (cx_ed c) (OpLearn (parse_bopomofo bopomofo) phrase) I Hi) as F. cbn [step] in F. unfold fst_ok in F.
    destruct (ed_learn_c mdf_ops lay_ops (cx_ed c) (parse_bopomofo bopomofo) phrase) as [[e b]| | |] eqn:Es; cbn [drop_rc fst]; try (split; [exact F | intros c' H; discriminate H]).
    split; [exact I|]. intros c' H. inversion H; subst c'. constructor; cbn [cx_ed cx_kb with_ed]; [|exact Hk].
    eapply (e_step_inv (cx_ed c) (OpLearn (parse_bopomofo bopomofo) phrase)); [exact I | exact Hi |]. cbn [step]. now rewrite Es.
  - (* chewing_userphrase_remove *)
    unfold userphrase_remove. destruct (negb _); [split; [exact I | intros c' H; inversion H; subst; exact Hc]|].
    unfold ml_unlearn.
    pose proof (e_fine_step (cx_ed c) (OpUnlearn (parse_bopomofo bopomofo) phrase) I Hi) as F. cbn [step] in F.
    destruct (ed_unlearn_c mdf_ops lay_ops (cx_ed c) (parse_bopomofo bopomofo) phrase) as [e| | |] eqn:Es; cbn [drop_rc fst]; try (split; [exact F | intros c' H; discriminate H]).
    split; [exact I|]. intros c' H. inversion H; subst c'. constructor; cbn [cx_ed cx_kb with_ed]; [|exact Hk].
    eapply (e_step_inv (cx_ed c) (OpUnlearn (parse_bopomofo bopomofo) phrase)); [exact I | exact Hi | exact Es].
  - (* an operation of the editor itself *)
    pose proof (e_fine_step (cx_ed c) o Ho Hi) as F.
    destruct (step mdf_ops lay_ops conv (cx_ed c) o) as [e| | |] eqn:Es; try (split; [exact F | intros c' H; discriminate H]).
    split; [exact I|]. intros c' H. inversion H; subst c'. constructor; cbn [cx_ed cx_kb with_ed]; [|exact Hk].
    eapply e_step_inv; eassumption.
Qed.

Theorem crun_fine : forall ops c, Forall cop_fine ops -> CInv c -> fine (crun conv c ops).
Proof.
  induction ops as [|o rest IH]; intros c Hops Hc; cbn [crun]; [exact I|].
  inversion Hops as [|x l Ho Hrest]; subst.
  destruct (cstep_ok c o Ho Hc) as (F & K).
  destruct (cstep conv c o) as [c1| | |] eqn:Es; try exact F. apply IH; [exact Hrest | now apply K].
Qed.

End Capi.
