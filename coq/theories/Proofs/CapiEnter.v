(* C02 / C05 through the C API: chewing_handle_Enter on a non-empty buffer in the editing state commits exactly the
   pre-edit string shown before (the conversion of the buffer as displayed), on every keyboard layout and with any
   modifier bits; a key-entry call answered with Absorb that leaves the editor in the editing state leaves the
   buffer within the configured limit. *)
From Coq Require Import NArith ZArith List Bool String Lia.
From LC Require Model.Keyboard.
From LC Require Import Base.Lib Gen.Keyboard_gen Gen.Capi_gen Gen.Editor_gen Model.Composition Model.Conversion Model.Editor
     Model.EditorRun Model.EdInst Model.CapiKeys Model.CapiConfig Model.CapiRun
     Proofs.CompositionProofs Proofs.EditorInv Proofs.EditorFrames Proofs.CapiKeysProofs Proofs.CapiInv Proofs.CapiPassthrough
     Proofs.CapiResult Proofs.DictFrame.
Import ListNotations.

Section CapiEnter.
Variable conv : conv_fn memdict.
Variable ss0 : symbol_sel.
Notation CI := (CInv ss0).

(* what chewing_buffer_String shows: the conversion of the buffer *)
Definition chewing_buffer_String (c : cctx) : list N := display conv (sh (cx_ed c)).

Theorem c_enter_commits_display c mods c' :
  CI c -> (mods < 16)%N -> st (cx_ed c) = Entering -> (0 < chewing_buffer_Len c)%Z ->
  cstep conv c (CHandle kc_Enter mods) = Ok c' ->
  c_commit_string c' = chewing_buffer_String c /\ chewing_buffer_Len c' = 0%Z /\ last (sh (cx_ed c')) = BCommit /\
  chewing_keystroke_CheckIgnore c' = 0%Z /\ chewing_keystroke_CheckAbsorb c' = 0%Z /\ st (cx_ed c') = Entering.
Proof.
  intros Hc Hm Hst Hlen H. pose proof Hc as [_ Hk].
  assert (Hin : In kc_Enter passthrough_codes) by (left; reflexivity).
  destruct (named_key_code (cx_kb c) kc_Enter mods Hk Hin Hm) as (ev & Hev & Hcode).
  cbn [cstep] in H. unfold handle_code in H. rewrite Hev in H. unfold press, ml_key in H.
  destruct (process_keyevent mdf_ops lay_ops conv (cx_ed c) (of_key_event ev)) as [[e' b]| | |] eqn:E; try discriminate.
  inversion H; subst c'; clear H. cbn [fst].
  assert (Hne : ce_is_empty (com (sh (cx_ed c))) = false).
  { unfold chewing_buffer_Len, flag, c_flags in Hlen. cbn [List.nth] in Hlen. unfold ce_is_empty. apply Nat.eqb_neq. lia. }
  assert (Hkc : kcode (of_key_event ev) = kc_Enter) by (cbn [of_key_event kcode]; exact Hcode).
  destruct (enter_commits_display mdf_ops lay_ops conv _ _ _ _ Hst Hne Hkc E) as (Hb & Hcb & Hl0 & Hst').
  pose proof (process_keyevent_last conv _ _ _ _ E) as Hl. rewrite Hb in Hl.
  unfold c_commit_string, chewing_buffer_String, chewing_buffer_Len, chewing_keystroke_CheckIgnore,
         chewing_keystroke_CheckAbsorb, flag, c_flags. cbn [List.nth cx_ed with_ed].
  rewrite Hl, Hcb, Hl0. repeat split; try reflexivity. exact Hst'.
Qed.

(* C05: a key-entry call answered with Absorb that leaves the editing state leaves the buffer within the limit *)
Theorem c_absorbed_key_call_is_bounded c o c' : key_call o -> cstep conv c o = Ok c' ->
  c' = c \/
  (chewing_keystroke_CheckAbsorb c' = 1%Z -> st (cx_ed c') = Entering ->
   (chewing_buffer_Len c' <= Z.of_nat (o_threshold (opts (sh (cx_ed c')))))%Z).
Proof.
  intros Hk H. destruct (key_call_is_one_key_event conv c o c' Hk H) as [->|(ev & e' & b & E & ->)]; [now left | right].
  cbn [cx_ed with_ed]. intros Ha Hst.
  pose proof (process_keyevent_last conv _ _ _ _ E) as Hl.
  unfold chewing_keystroke_CheckAbsorb, flag, c_flags in Ha. cbn [List.nth cx_ed with_ed] in Ha.
  assert (Hb : b = BAbsorb) by (rewrite Hl in Ha; destruct b; cbn in Ha; try discriminate; reflexivity). rewrite Hb in E.
  pose proof (absorbed_in_entering_is_bounded mdf_ops lay_ops conv _ _ _ E Hst) as K.
  unfold chewing_buffer_Len, flag, c_flags. cbn [List.nth cx_ed with_ed]. lia.
Qed.

(* C08: with auto-learning disabled chewing_handle_Enter - the commit - leaves the dictionary as it was, in every
   state but the one where Enter is the explicit add-phrase gesture (a range is marked) *)
Theorem c_enter_with_learning_disabled_keeps_the_dictionary c mods c' :
  CI c -> (mods < 16)%N -> o_no_learn (opts (sh (cx_ed c))) = true ->
  (forall mv, st (cx_ed c) <> Highlighting mv) ->
  cstep conv c (CHandle kc_Enter mods) = Ok c' ->
  dict (sh (cx_ed c')) = dict (sh (cx_ed c)) /\ o_no_learn (opts (sh (cx_ed c'))) = true.
Proof.
  intros Hc Hm Hn Hst H. pose proof Hc as [_ Hk].
  assert (Hin : In kc_Enter passthrough_codes) by (left; reflexivity).
  destruct (named_key_code (cx_kb c) kc_Enter mods Hk Hin Hm) as (ev & Hev & Hcode).
  cbn [cstep] in H. unfold handle_code in H. rewrite Hev in H. unfold press, ml_key in H.
  destruct (process_keyevent mdf_ops lay_ops conv (cx_ed c) (of_key_event ev)) as [[e' b]| | |] eqn:E; try discriminate.
  inversion H; subst c'; clear H. cbn [fst cx_ed with_ed].
  assert (Ha : adds_phrase (st (cx_ed c)) (of_key_event ev) = false).
  { unfold adds_phrase. destruct (st (cx_ed c)) as [| |pg act sel|mv]; try reflexivity.
    - cbn [of_key_event kcode]. rewrite Hcode. reflexivity.
    - exfalso. now apply (Hst mv). }
  pose proof (process_keyevent_dk mdf_ops lay_ops conv _ _ _ _ Hn Ha E) as K. unfold dk in K. injection K as K1 K2.
  split; [exact K1 | now rewrite K2].
Qed.

End CapiEnter.
