(* C14 completeness: every reading of data/word.src outside the known-unreachable
   class has a typed text that enters it, on every keyboard and every layout. *)
From Coq Require Import NArith List Bool Lia.
From LC Require Import Base.Lib Gen.Bopomofo_gen Gen.Keyboard_gen Gen.Layout_gen Gen.Readings_gen
  Model.Syllable Model.LayoutBase Model.LayoutHsu Model.LayoutEt26 Model.LayoutPinyin Model.Layout Model.LayoutSearch
  Proofs.SyllableProofs Proofs.LayoutDefs Proofs.LayoutCompleteDefs
  Proofs.LayoutComplete0 Proofs.LayoutComplete1 Proofs.LayoutComplete2 Proofs.LayoutComplete3
  Proofs.LayoutComplete4 Proofs.LayoutComplete5 Proofs.LayoutComplete6 Proofs.LayoutComplete7.
Import ListNotations.
Open Scope N_scope.

Lemma exact_all kb L :
  kb < n_keyboard -> L < n_layouts -> unreachable_readings kb L = known_unreachable L.
Proof.
  intros Hkb HL. change n_keyboard with 8 in Hkb. apply list_eqb_N_spec.
  assert (H : kb = 0 \/ kb = 1 \/ kb = 2 \/ kb = 3 \/ kb = 4 \/ kb = 5 \/ kb = 6 \/ kb = 7) by lia.
  destruct H as [->|[->|[->|[->|[->|[->|[->| ->]]]]]]].
  - exact (forall_below_true _ _ complete_kb_0 L HL).
  - exact (forall_below_true _ _ complete_kb_1 L HL).
  - exact (forall_below_true _ _ complete_kb_2 L HL).
  - exact (forall_below_true _ _ complete_kb_3 L HL).
  - exact (forall_below_true _ _ complete_kb_4 L HL).
  - exact (forall_below_true _ _ complete_kb_5 L HL).
  - exact (forall_below_true _ _ complete_kb_6 L HL).
  - exact (forall_below_true _ _ complete_kb_7 L HL).
Qed.

Lemma complete kb L r :
  kb < n_keyboard -> L < n_layouts -> In r readings -> ~ In r (known_unreachable L) ->
  exists bytes, enters_b readings kb L bytes r = true.
Proof.
  intros Hkb HL Hr Hk. pose proof (exact_all kb L Hkb HL) as H.
  assert (Hf : forall f : N -> bool, f r = true -> In r (filter f readings)).
  { intros f Hfr. apply filter_In. split; [exact Hr | exact Hfr]. }
  destruct (witness_with (make_ctx kb L) L r) as [bytes|] eqn:Ew.
  - destruct (enters_b readings kb L bytes r) eqn:Ee; [exists bytes; exact Ee|].
    exfalso. apply Hk. rewrite <- H. unfold unreachable_readings. cbv zeta.
    apply Hf. rewrite Ew, Ee. reflexivity.
  - exfalso. apply Hk. rewrite <- H. unfold unreachable_readings. cbv zeta.
    apply Hf. rewrite Ew. reflexivity.
Qed.

(* the generated reading codes are the model's own parse of the symbol lists, and
   every reading is a composable syllable *)
Definition readings_ok_b : bool :=
  list_eqb N.eqb (map syl_of readings_syms) readings && forallb composable_b readings &&
  (len_N readings =? n_readings).

Lemma readings_ok : readings_ok_b = true.
Proof. vm_cast_no_check (eq_refl true). Qed.

Lemma readings_composable r : In r readings -> composable r.
Proof.
  intros H. pose proof readings_ok as Hok. unfold readings_ok_b in Hok.
  apply andb_true_iff in Hok as [Hok _]. apply andb_true_iff in Hok as [_ Hc].
  rewrite forallb_forall in Hc. apply composable_b_sound. now apply Hc.
Qed.

(* every syl![..] literal of the layout tables builds (the macro would panic otherwise)
   into a composable syllable *)
Definition literals_ok_b : bool :=
  forallb (fun e => composable_b (fst e) && forallb composable_b (snd e)) (hsu_alt_table ++ et26_alt_table) &&
  forallb (fun e => composable_b (fst (snd e)) && composable_b (snd (snd e)))
    (pinyin_common_mapping ++ pinyin_hanyu_mapping ++ pinyin_thl_mapping ++ pinyin_mps2_mapping).

Lemma literals_ok : literals_ok_b = true.
Proof. vm_cast_no_check (eq_refl true). Qed.
