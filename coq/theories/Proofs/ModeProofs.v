(* C18: English and full-width modes. *)
From Coq Require Import NArith List Bool Arith Lia.
From LC Require Import Base.Lib Gen.Editor_gen Model.Composition Model.Conversion Model.Editor Model.EditorRun
     Proofs.EdTactics Proofs.CompositionProofs Proofs.EditorInv Proofs.EditorFrames.
Import ListNotations.
Open Scope nat_scope.

(* ---- the full-width table on the 95 printable ASCII characters ---- *)
Definition printable (c : N) : bool := (N.leb 32 c && N.leb c 126)%N.

Definition fw_total_b : bool :=
  forall_below 127 (fun c => negb (printable c) || match full_width_symbol_input c with Some _ => true | None => false end).
Lemma fw_total : fw_total_b = true.
Proof. vm_cast_no_check (eq_refl true). Qed.

Definition fw_injective_b : bool :=
  forall_below 127 (fun c => forall_below 127 (fun d =>
    negb (printable c) || negb (printable d) || N.eqb c d ||
    negb (option_eqb N.eqb (full_width_symbol_input c) (full_width_symbol_input d)))).
Lemma fw_injective : fw_injective_b = true.
Proof. vm_cast_no_check (eq_refl true). Qed.

(* every image is a single character different from the ASCII original (a full-width form) *)
Definition fw_not_ascii_b : bool :=
  forall_below 127 (fun c => negb (printable c) ||
    match full_width_symbol_input c with Some f => N.ltb 127 f | None => false end).
Lemma fw_not_ascii : fw_not_ascii_b = true.
Proof. vm_cast_no_check (eq_refl true). Qed.

Lemma printable_lt c : printable c = true -> (c < 127)%N.
Proof. unfold printable. intros H. apply andb_true_iff in H as [_ H]. apply N.leb_le in H. lia. Qed.

Lemma fw_total_spec c : printable c = true -> exists f, full_width_symbol_input c = Some f /\ (127 < f)%N.
Proof.
  intros Hp. pose proof fw_not_ascii as H. apply forall_below_true with (i := c) in H; [|now apply printable_lt].
  rewrite Hp in H. cbn [negb orb] in H. destruct (full_width_symbol_input c) as [f|]; [|discriminate].
  exists f. split; [reflexivity | now apply N.ltb_lt].
Qed.

Lemma fw_injective_spec c d : printable c = true -> printable d = true ->
  full_width_symbol_input c = full_width_symbol_input d -> c = d.
Proof.
  intros Hc Hd He. pose proof fw_injective as H.
  apply forall_below_true with (i := c) in H; [|now apply printable_lt].
  apply forall_below_true with (i := d) in H; [|now apply printable_lt].
  rewrite Hc, Hd in H. cbn [negb orb] in H. apply orb_true_iff in H as [H|H]; [now apply N.eqb_eq|].
  rewrite He in H. apply negb_true_iff in H.
  assert (K : option_eqb N.eqb (full_width_symbol_input d) (full_width_symbol_input d) = true) by (now apply option_eqb_N_spec).
  congruence.
Qed.

(* ---- the English branch of the Entering handler ---- *)
Section Modes.
Context {D SY : Type} (dops : dict_ops D) (sops : syl_ops SY) (conv : conv_fn D).
Implicit Types s : shared D SY.

(* the 48 key codes that carry a printable character (N1 .. Space) *)
Definition char_codes : list N := map N.of_nat (seq 1 48).

Lemma english_key_goes_to_default s ev :
  In (kcode ev) char_codes -> mctrl ev = false -> mcaps ev = false -> mnum ev = false ->
  (N.eqb (kcode ev) kc_Space && mshift ev && o_fw_toggle (opts s) = false) ->
  o_english (opts s) = true ->
  entering_next dops sops conv s ev =
    (if negb (o_fullwidth (opts s)) then commit_or_insert s (kunicode ev)
     else match full_width_symbol_input (kunicode ev) with
          | None => Ok (s, Spin BIgnore)
          | Some ch => commit_or_insert s ch
          end).
Proof.
  intros Hin Hctrl Hcaps Hnum Htog Heng.
  assert (K : forall r, entering_next dops sops conv s ev = r -> r =
    (if negb (o_fullwidth (opts s)) then commit_or_insert s (kunicode ev)
     else match full_width_symbol_input (kunicode ev) with
          | None => Ok (s, Spin BIgnore)
          | Some ch => commit_or_insert s ch
          end)).
  { intros r Hr. unfold entering_next in Hr. rewrite Hctrl, Hnum, Hcaps in Hr.
    unfold char_codes in Hin. cbn [seq map In N.of_nat] in Hin.
    repeat (destruct Hin as [Hk|Hin];
      [rewrite <- Hk in Hr, Htog; kc_eval Hr; kc_eval Htog;
       try rewrite Htog in Hr; rewrite ?Heng in Hr; cbn [andb orb negb] in Hr; rewrite ?andb_false_r in Hr;
       cbv beta iota in Hr;
       unfold entering_default in Hr; rewrite Heng in Hr; cbn [negb] in Hr; cbv iota in Hr;
       symmetry; exact Hr|]).
    destruct Hin. }
  now apply K.
Qed.

(* committed at once when the buffer is empty, otherwise inserted at the cursor *)
Lemma commit_or_insert_spec s ch s' t : wf_ce (com s) -> commit_or_insert s ch = Ok (s', t) ->
  (ce_is_empty (com s) = true /\ t = Spin BCommit /\ commit_buf s' = [ch] /\ com s' = com s) \/
  (ce_is_empty (com s) = false /\ t = Spin BAbsorb /\
   symbols (inner (com s')) = insert_at (cursor (com s)) (SymChar ch) (symbols (inner (com s))) /\
   cursor (com s') = S (cursor (com s)) /\ commit_buf s' = commit_buf s) /\
  syl s' = syl s /\ dict s' = dict s /\ opts s' = opts s /\ nth s' = nth s.
Proof.
  intros W H. unfold commit_or_insert in H. destruct (ce_is_empty (com s)) eqn:E.
  - inv_ok H. left. auto.
  - apply obind_ok in H as (s1 & H1 & H). inv_ok H. apply with_com_ok in H1 as (c & Hc & ->).
    destruct (ce_insert_spec _ _ _ W Hc) as (_ & Hs & Hcur & _).
    right. cbn. repeat split; auto.
Qed.

(* Caps Lock toggles exactly the language mode; Shift-Space toggles exactly the character form
   when the toggle key is enabled: nothing already in the buffer is altered *)
Lemma capslock_toggles_language s ev :
  kcode ev = kc_Unknown -> mcaps ev = true ->
  entering_next dops sops conv s ev = Ok (switch_language s, Spin BAbsorb).
Proof.
  intros Hk Hc. unfold entering_next. rewrite Hk, Hc.
  change (N.eqb kc_Unknown kc_Backspace) with false. change (N.eqb kc_Unknown kc_Unknown) with true. reflexivity.
Qed.

Lemma shift_space_toggles_form s ev :
  kcode ev = kc_Space -> mshift ev = true -> mctrl ev = false -> mcaps ev = false ->
  entering_next dops sops conv s ev =
    (if o_fw_toggle (opts s) then Ok (switch_form s, Spin BAbsorb) else entering_next dops sops conv s ev).
Proof.
  intros Hk Hs Hc Hcaps. destruct (o_fw_toggle (opts s)) eqn:Et; [|reflexivity].
  assert (K : forall r, entering_next dops sops conv s ev = r -> r = Ok (switch_form s, Spin BAbsorb)).
  { intros r Hr. unfold entering_next in Hr. rewrite Hk, Hs, Hc, Hcaps, Et in Hr. kc_eval Hr.
    symmetry. exact Hr. }
  now apply K.
Qed.

Lemma switch_language_frame s :
  com (switch_language s) = com s /\ syl (switch_language s) = syl s /\ dict (switch_language s) = dict s /\
  commit_buf (switch_language s) = commit_buf s /\ nth (switch_language s) = nth s /\
  o_english (opts (switch_language s)) = negb (o_english (opts s)) /\
  o_fullwidth (opts (switch_language s)) = o_fullwidth (opts s) /\
  o_threshold (opts (switch_language s)) = o_threshold (opts s) /\ o_per_page (opts (switch_language s)) = o_per_page (opts s).
Proof. repeat split. Qed.

Lemma switch_form_frame s :
  com (switch_form s) = com s /\ syl (switch_form s) = syl s /\ dict (switch_form s) = dict s /\
  commit_buf (switch_form s) = commit_buf s /\ nth (switch_form s) = nth s /\
  o_fullwidth (opts (switch_form s)) = negb (o_fullwidth (opts s)) /\
  o_english (opts (switch_form s)) = o_english (opts s) /\
  o_threshold (opts (switch_form s)) = o_threshold (opts s) /\ o_per_page (opts (switch_form s)) = o_per_page (opts s).
Proof. repeat split. Qed.

End Modes.
