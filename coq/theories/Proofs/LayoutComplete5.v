(* C14: completeness sweep for keyboard 5 (AnyKeyboardLayout order) x all ten layouts x
   all readings of data/word.src.  One file per keyboard so that make runs them in parallel. *)
From Coq Require Import NArith List Bool.
From LC Require Import Base.Lib Model.Layout Model.LayoutSearch Proofs.LayoutCompleteDefs.
Open Scope N_scope.

Lemma complete_kb_5 :
  forall_below n_layouts (fun L => list_eqb N.eqb (unreachable_readings 5 L) (known_unreachable L)) = true.
Proof. vm_cast_no_check (eq_refl true). Qed.
