(* C02 through the C getters, both directions: after a key-entry C call the key result is Commit exactly when
   chewing_commit_Check = 1 (Proofs/CommitConverse.v for "Commit -> a commit string", Proofs/CapiInv.v for the
   other direction). *)
From Coq Require Import NArith ZArith List Bool String Lia.
From LC Require Model.Keyboard.
From LC Require Import Base.Lib Gen.Keyboard_gen Gen.Capi_gen Gen.Editor_gen Model.Composition Model.Conversion Model.Editor
     Model.EditorRun Model.EdInst Model.CapiKeys Model.CapiConfig Model.CapiRun
     Proofs.CompositionProofs Proofs.EdInstProofs Proofs.EditorInv Proofs.NoPanic
     Proofs.EditorFrames Proofs.CommitConverse Proofs.CapiKeysProofs Proofs.CapiInv.
Import ListNotations.

Section CapiCommit.
Variable conv : conv_fn memdict.
Hypothesis conv_tiles : forall d k c n, md_fine d -> wf_comp c -> contiguous 0 (clen c) (conv d k c n) = true.
Hypothesis conv_shows : forall d k c n, md_fine d -> symbols c <> [] -> head_text (conv d k c n).
Variable ss0 : symbol_sel.
Hypothesis ss0_good : ss_good ss0.
Hypothesis ss0_fresh : ss_cursor ss0 = None.

Notation CI := (CInv ss0).

Lemma ci_dict c : CI c -> md_fine (dict (sh (cx_ed c))).
Proof. intros [[[_ Hd _ _] _] _]. exact Hd. Qed.

Lemma press_commit_iff c ev c' : CI c -> CI c' -> press conv c ev = Ok c' ->
  (last (sh (cx_ed c')) = BCommit <-> commit_buf (sh (cx_ed c')) <> []).
Proof.
  intros Hc Hc' H. split; [|now apply (press_commit conv c ev c' H)].
  intros Hl. unfold press, ml_key in H. destruct ev as [ev| | |]; try discriminate.
  destruct (process_keyevent mdf_ops lay_ops conv (cx_ed c) (of_key_event ev)) as [[e b]| | |] eqn:E; try discriminate.
  inversion H; subst c'; clear H. cbn [cx_ed with_ed fst] in *.
  assert (Hb : b = last (sh e)).
  { unfold process_keyevent in E. cbv zeta in E.
    match type of E with obind ?r ?f = _ => destruct r as [[s2 st2]| | |]; cbn [obind] in E; try discriminate end.
    match type of E with obind ?r ?f = _ => destruct r as [s3| | |]; cbn [obind] in E; try discriminate end.
    inversion E; subst. reflexivity. }
  rewrite <- Hb in Hl. subst b.
  eapply (commit_result_has_commit_string mdf_ops lay_ops conv md_fine conv_shows); [| | exact E].
  - now apply ci_dict.
  - apply (ci_dict _ Hc').
Qed.

Theorem c_commit_check_iff_commit_result c o c' : key_call o -> cop_fine o -> CI c -> cstep conv c o = Ok c' ->
  (* chewing_handle_CtrlNum with a key that is no digit returns -1 and handles nothing *)
  c' = c \/
  (last (sh (cx_ed c')) = BCommit <-> chewing_commit_Check c' = 1%Z).
Proof.
  intros Hk Ho Hc H.
  assert (Hc' : CI c') by (destruct (cstep_ok conv conv_tiles ss0 ss0_good ss0_fresh c o Ho Hc) as (_ & K); now apply K).
  assert (Hf : chewing_commit_Check c' = 1%Z <-> commit_buf (sh (cx_ed c')) <> []).
  { unfold chewing_commit_Check, flag, c_flags. cbn [List.nth].
    destruct (commit_buf (sh (cx_ed c'))); cbn; split; intros X; try discriminate; try reflexivity. now contradiction X. }
  destruct o as [code mods|key|key|key| | | | | | | | | | | | | |]; try contradiction; cbn [cstep] in H.
  - right. rewrite Hf. eapply press_commit_iff; [exact Hc | exact Hc' | exact H].
  - right. rewrite Hf. eapply press_commit_iff; [exact Hc | exact Hc' | exact H].
  - unfold handle_ctrlnum, drop_rc in H. destruct ((48 <=? u8_of key)%N && (u8_of key <=? 57)%N).
    + unfold handle_code in H.
      destruct (press conv c (Keyboard.map_keycode (cx_kb c) (if (u8_of key =? 48)%N then kcN0 else (u8_of key - 48)%N) MOD_CTRL)) as [c1| | |] eqn:E;
        try discriminate. inversion H; subst c'. right. rewrite Hf. eapply press_commit_iff; [exact Hc | exact Hc' | exact E].
    + inversion H; subst c'. now left.
  - right. rewrite Hf. eapply press_commit_iff; [exact Hc | exact Hc' | exact H].
Qed.

End CapiCommit.
