(* C05 at the level of the keys: what the Backspace key, the Delete key and the key that completes a syllable do
   to the shared state of the editor - the composition operation of Proofs/CompositionProofs.v at the cursor, and
   nothing else. *)
From Coq Require Import NArith List Bool Arith Lia.
From LC Require Import Base.Lib Gen.Editor_gen Model.Composition Model.Conversion Model.Editor Model.EditorRun
     Proofs.CompositionProofs Proofs.EditorInv Proofs.EdTactics Proofs.EditorFrames.
Import ListNotations.
Open Scope nat_scope.

Section EditKeys.
Context {D SY : Type} (dops : dict_ops D) (sops : syl_ops SY) (conv : conv_fn D).
Notation shared' := (shared D SY).
Implicit Types s : shared D SY.

Ltac bind_ok H x Hx := apply obind_ok in H; destruct H as (x & Hx & H).

(* everything of the shared state but the composition editor *)
Definition rest_eq s' s : Prop :=
  syl s' = syl s /\ dict s' = dict s /\ opts s' = opts s /\ engine s' = engine s /\ nth s' = nth s /\
  abbr s' = abbr s /\ sym_sel s' = sym_sel s /\ commit_buf s' = commit_buf s /\ notice s' = notice s.

Lemma with_com_rest s r s' : with_com s r = Ok s' -> exists c, r = Ok c /\ com s' = c /\ rest_eq s' s.
Proof.
  unfold with_com. intros H. bind_ok H c Hc. inv_ok H. exists c. cbn. repeat split; auto.
Qed.

(* Backspace in the editing state *)
Theorem backspace_key s ev s' t : wf_ce (com s) -> kcode ev = kc_Backspace ->
  entering_next dops sops conv s ev = Ok (s', t) ->
  (ce_is_empty (com s) = true /\ s' = s /\ t = Spin BIgnore) \/
  (ce_is_empty (com s) = false /\ t = Spin BAbsorb /\ wf_ce (com s') /\ rest_eq s' s /\
   cursor_stack (com s') = cursor_stack (com s) /\
   ((cursor (com s) = 0 /\ com s' = com s) \/
    (0 < cursor (com s) /\ symbols (inner (com s')) = remove_at (cursor (com s) - 1) (symbols (inner (com s))) /\
     cursor (com s') = cursor (com s) - 1))).
Proof.
  intros W Hk H. unfold entering_next in H. rewrite Hk in H. kc_eval H.
  destruct (ce_is_empty (com s)) eqn:Ee.
  - inv_ok H. left. auto.
  - right. bind_ok H s1 H1. inv_ok H. destruct (with_com_rest _ _ _ H1) as (c & Hc & Hcom & Hr).
    destruct (ce_remove_before_spec _ _ W Hc) as (W' & Hcase & Hstk). rewrite Hcom.
    split; [reflexivity|]. split; [reflexivity|]. split; [exact W'|]. split; [exact Hr|]. split; [exact Hstk|].
    destruct Hcase as [(H0 & ->)|(Hp & Hs & Hcu)]; [left; auto | right; auto].
Qed.

(* Delete in the editing state *)
Theorem delete_key s ev s' t : wf_ce (com s) -> kcode ev = kc_Del ->
  entering_next dops sops conv s ev = Ok (s', t) ->
  (ce_is_end (com s) = true /\ s' = s /\ t = Spin BIgnore) \/
  (ce_is_end (com s) = false /\ t = Spin BAbsorb /\ wf_ce (com s') /\ rest_eq s' s /\
   cursor_stack (com s') = cursor_stack (com s) /\
   symbols (inner (com s')) = remove_at (cursor (com s)) (symbols (inner (com s))) /\
   cursor (com s') = cursor (com s)).
Proof.
  intros W Hk H. unfold entering_next in H. rewrite Hk in H. kc_eval H.
  destruct (ce_is_end (com s)) eqn:Ee.
  - inv_ok H. left. auto.
  - right. bind_ok H s1 H1. inv_ok H. destruct (with_com_rest _ _ _ H1) as (c & Hc & Hcom & Hr).
    destruct (ce_remove_after_spec _ _ W Hc) as (W' & Hs & Hcu & Hstk). rewrite Hcom.
    split; [reflexivity|]. split; [reflexivity|]. split; [exact W'|]. split; [exact Hr|]. auto.
Qed.

(* the key that completes a syllable (the phonetic editor answers Commit): when the dictionary has a word for the
   syllable read, it goes into the buffer exactly at the cursor and the cursor advances by one (under the simple
   engine the single-word list opens at once: the cursor is saved, nothing else); otherwise nothing is inserted *)
Theorem syllable_commit_key s ev s' t sy :
  wf_ce (com s) ->
  N.eqb (kcode ev) kc_Backspace = false -> (N.eqb (kcode ev) kc_Unknown && mcaps ev) = false -> N.eqb (kcode ev) kc_Esc = false ->
  (if o_fuzzy (opts s) then so_fuzzy_key_press sops (syl s) ev else so_key_press sops (syl s) ev) = (sy, KCommit) ->
  entering_syllable_next dops sops s ev = Ok (s', t) ->
  (com s' = com s /\ t = ToState Entering) \/
  (symbols (inner (com s')) = insert_at (cursor (com s)) (SymSyl (so_read sops sy)) (symbols (inner (com s))) /\
   cursor (com s') = S (cursor (com s)) /\
   (cursor_stack (com s') = cursor_stack (com s) \/
    (o_engine (opts s) = EngSimple /\ cursor_stack (com s') = S (cursor (com s)) :: cursor_stack (com s))) /\
   dict s' = dict s /\ opts s' = opts s /\ commit_buf s' = commit_buf s).
Proof.
  intros W Hb Hu He Hp H. unfold entering_syllable_next in H. rewrite Hb, Hu, He, Hp in H.
  split_if H.
  - right. bind_ok H s2 H2. destruct (with_com_rest _ _ _ H2) as (c & Hc & Hcom & Hr).
    cbn [com set_syl] in Hc. destruct (ce_insert_spec _ _ _ W Hc) as (W' & Hs & Hcu & Hstk).
    destruct Hr as (_ & Hd & Ho & _ & _ & _ & _ & Hcb & _). cbn [dict opts commit_buf set_syl] in *.
    subst c. cbn [opts set_syl] in H. rewrite Ho in H. destruct (o_engine (opts s)) eqn:Eng.
    + bind_ok H r Hr. destruct r as [s4 st4]. inv_ok H. cbn [fst].
      unfold new_phrase_selecting_simple in Hr. bind_ok Hr p' Hp'. inv_ok Hr.
      cbn [com set_com set_syl dict opts commit_buf ce_push_cursor inner cursor cursor_stack].
      unfold ce_push_cursor. cbn [inner cursor cursor_stack]. rewrite Hs, Hcu, Hstk.
      repeat split; auto.
    + inv_ok H. cbn [com set_syl dict opts commit_buf]. repeat split; auto.
    + inv_ok H. cbn [com set_syl dict opts commit_buf]. repeat split; auto.
  - left. inv_ok H. cbn. auto.
Qed.

(* ---- C04 at the level of the keys: a recorded choice that the edit does not touch stays recorded (moved along
   with its symbols) ---- *)
Theorem backspace_key_keeps_choice s ev s' t sel : kcode ev = kc_Backspace ->
  entering_next dops sops conv s ev = Ok (s', t) ->
  In sel (selections (inner (com s))) -> (ie sel <= cursor (com s) - 1 \/ cursor (com s) - 1 < ib sel) ->
  com s' = com s \/
  In (if Nat.leb (ib sel) (cursor (com s) - 1) then sel else unshift_iv 1 sel) (selections (inner (com s'))).
Proof.
  intros Hk H Hin Hout. unfold entering_next in H. rewrite Hk in H. kc_eval H.
  destruct (ce_is_empty (com s)); [inv_ok H; now left|].
  bind_ok H s1 H1. inv_ok H. destruct (with_com_rest _ _ _ H1) as (c & Hc & Hcom & _). rewrite Hcom.
  unfold ce_remove_before_cursor in Hc. destruct (Nat.eqb (cursor (com s)) 0); [inv_ok Hc; now left|].
  apply with_inner_ok in Hc as (c1 & Hc1 & ->). cbn [inner]. right.
  exact (remove_keeps_selection _ _ _ _ Hc1 Hin Hout).
Qed.

Theorem delete_key_keeps_choice s ev s' t sel : kcode ev = kc_Del ->
  entering_next dops sops conv s ev = Ok (s', t) ->
  In sel (selections (inner (com s))) -> (ie sel <= cursor (com s) \/ cursor (com s) < ib sel) ->
  com s' = com s \/
  In (if Nat.leb (ib sel) (cursor (com s)) then sel else unshift_iv 1 sel) (selections (inner (com s'))).
Proof.
  intros Hk H Hin Hout. unfold entering_next in H. rewrite Hk in H. kc_eval H.
  destruct (ce_is_end (com s)); [inv_ok H; now left|].
  bind_ok H s1 H1. inv_ok H. destruct (with_com_rest _ _ _ H1) as (c & Hc & Hcom & _). rewrite Hcom.
  unfold ce_remove_after_cursor in Hc. apply with_inner_ok in Hc as (c1 & Hc1 & ->). cbn [inner]. right.
  exact (remove_keeps_selection _ _ _ _ Hc1 Hin Hout).
Qed.

Theorem syllable_commit_key_keeps_choice s ev s' t sy sel :
  N.eqb (kcode ev) kc_Backspace = false -> (N.eqb (kcode ev) kc_Unknown && mcaps ev) = false -> N.eqb (kcode ev) kc_Esc = false ->
  (if o_fuzzy (opts s) then so_fuzzy_key_press sops (syl s) ev else so_key_press sops (syl s) ev) = (sy, KCommit) ->
  entering_syllable_next dops sops s ev = Ok (s', t) ->
  In sel (selections (inner (com s))) -> (ie sel <= cursor (com s) \/ cursor (com s) <= ib sel) ->
  com s' = com s \/
  In (if Nat.leb (cursor (com s)) (ib sel) then shift_iv 1 sel else sel) (selections (inner (com s'))).
Proof.
  intros Hb Hu He Hp H Hin Hout. unfold entering_syllable_next in H. rewrite Hb, Hu, He, Hp in H.
  split_if H; [|inv_ok H; cbn; now left].
  bind_ok H s2 H2. destruct (with_com_rest _ _ _ H2) as (c & Hc & Hcom & Hr).
  cbn [com set_syl] in Hc. unfold ce_insert in Hc. apply with_inner_ok in Hc as (c1 & Hc1 & Hce).
  pose proof (insert_keeps_selection _ _ _ _ _ Hc1 Hin Hout) as K.
  assert (G : In (if Nat.leb (cursor (com s)) (ib sel) then shift_iv 1 sel else sel) (selections (inner (com s2)))).
  { rewrite Hcom, Hce. cbn [inner]. exact K. }
  destruct (o_engine _).
  - bind_ok H r Hr0. destruct r as [s4 st4]. inv_ok H. cbn [fst].
    unfold new_phrase_selecting_simple in Hr0. bind_ok Hr0 p' Hp'. inv_ok Hr0. right. cbn. exact G.
  - inv_ok H. right. cbn. exact G.
  - inv_ok H. right. cbn. exact G.
Qed.

End EditKeys.
