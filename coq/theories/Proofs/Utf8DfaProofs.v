(* Facts about the UTF-8 automaton of Model/Utf8Dfa.v. *)
From Coq Require Import NArith List Bool Lia.
From LC Require Import Base.Lib Model.Utf8Dfa.
Import ListNotations.
Open Scope N_scope.

Lemma urun_app s a b : urun s (a ++ b) = urun (urun s a) b.
Proof. unfold urun. apply fold_left_app. Qed.

Lemma utf8_ok_app a b : utf8_ok a = true -> utf8_ok (a ++ b) = utf8_ok b.
Proof.
  unfold utf8_ok. rewrite urun_app. intros H.
  destruct (urun U0 a); try discriminate H. reflexivity.
Qed.

Lemma utf8_ok_app_both a b : utf8_ok a = true -> utf8_ok b = true -> utf8_ok (a ++ b) = true.
Proof. intros Ha Hb. rewrite utf8_ok_app; assumption. Qed.

Lemma urun_ascii a : Forall (fun b => b < 128) a -> urun U0 a = U0.
Proof.
  induction a as [|b a IH]; intros H; [reflexivity|].
  inversion H as [|b0 a0 Hb Ha]; subst.
  unfold urun. cbn [fold_left ustep].
  destruct (N.ltb_spec b 128) as [_|Hge]; [|lia]. apply IH, Ha.
Qed.

Lemma utf8_ok_ascii a : Forall (fun b => b < 128) a -> utf8_ok a = true.
Proof. intros H. unfold utf8_ok. now rewrite urun_ascii. Qed.

Lemma utf8_nchars_app a b : utf8_nchars (a ++ b) = utf8_nchars a + utf8_nchars b.
Proof. unfold utf8_nchars, len_N. rewrite filter_app, app_length. lia. Qed.

Lemma utf8_nchars_ascii a : Forall (fun b => b < 128) a -> utf8_nchars a = len_N a.
Proof.
  unfold utf8_nchars, len_N. induction a as [|b a IH]; intros H; [reflexivity|].
  inversion H as [|b0 a0 Hb Ha]; subst. cbv beta in Hb. cbn [filter].
  assert (Hc : is_contb b = false).
  { unfold is_contb, in_rng. destruct (N.leb_spec 128 b) as [Hge|_]; [lia|reflexivity]. }
  rewrite Hc. cbn [negb length]. specialize (IH Ha). lia.
Qed.

