(* C14 soundness of the three Pinyin variants.  The state holds a key string of
   arbitrary content, so the proof factors key_press through its table lookups:
   whatever the string is, a lookup yields an entry of the generated table (or
   nothing), and the finishing function is swept over all
   (variant, initial entry option, final entry option, tone option) combinations;
   builder.insert(..).unwrap() is shown unreachable the same way. *)
From Coq Require Import NArith List Bool Lia.
From LC Require Import Base.Lib Gen.Bopomofo_gen Gen.Keyboard_gen Gen.Layout_gen
  Model.Syllable Model.SyllableSearch Model.Keyboard Model.LayoutBase Model.LayoutPinyin Model.Layout
  Proofs.SyllableProofs Proofs.LayoutDefs Proofs.LayoutPinyinSweep.
Import ListNotations.
Open Scope N_scope.

(* ---- key_press of a Pinyin variant from any state with well-formed syllables ---- *)
Definition plain_behavior (b : behavior) : Prop :=
  b = KeyError \/ b = NoWord \/ b = Absorb \/ b = Commit.

Lemma pinyin_key_press_facts v st ev :
  In v variants -> wf_state st ->
  exists st' b, pinyin_key_press v st ev = Ok (st', b) /\ wf_state st' /\ plain_behavior b.
Proof.
  intros Hv Hw. unfold pinyin_key_press.
  destruct (match ls_keys st with [] => negb (is_atoz (ev_code ev)) | _ :: _ => false end).
  { exists st, KeyError. split; [reflexivity | split; [exact Hw | unfold plain_behavior; auto]]. }
  destruct (negb (memN (ev_code ev) pinyin_tone_keys)).
  { destruct (len_N (ls_keys st) =? MAX_PINYIN_LEN).
    { exists st, NoWord. split; [reflexivity | split; [exact Hw | unfold plain_behavior; auto]]. }
    destruct (negb (is_ascii_alphabetic (ev_unicode ev))).
    { exists st, KeyError. split; [reflexivity | split; [exact Hw | unfold plain_behavior; auto]]. }
    eexists _, Absorb. split; [reflexivity|]. split; [exact Hw | unfold plain_behavior; auto]. }
  pose proof (assoc_opts (ev_code ev) pinyin_tone_table) as Ht. fold tone_opts in Ht.
  set (tone := assoc (ev_code ev) pinyin_tone_table) in *.
  destruct (find_str (ls_keys st) (pinyin_variant_mapping v)) as [e|] eqn:E1.
  { apply find_some in E1 as [Hin _].
    destruct (commit_entry_ok v e tone Hv (in_or_app _ _ _ (or_introl Hin)) Ht) as (st' & Hc & Hw').
    exists st', Commit. split; [exact Hc | split; [exact Hw' | unfold plain_behavior; auto]]. }
  destruct (find_str (ls_keys st) pinyin_common_mapping) as [e|] eqn:E2.
  { apply find_some in E2 as [Hin _].
    destruct (commit_entry_ok v e tone Hv (in_or_app _ _ _ (or_intror Hin)) Ht) as (st' & Hc & Hw').
    exists st', Commit. split; [exact Hc | split; [exact Hw' | unfold plain_behavior; auto]]. }
  set (ini := find (fun e => str_starts_with (ls_keys st) (fst e)) pinyin_initial_mapping).
  set (fin := find_str (match ini with
                        | Some e => str_trim_start (length (ls_keys st)) (ls_keys st) (fst e)
                        | None => ls_keys st
                        end) pinyin_final_mapping).
  assert (Hi : In (option_map snd ini) ini_opts) by apply find_opts.
  assert (Hf : In (option_map snd fin) fin_opts) by apply find_opts.
  destruct (finish_ok v _ _ tone Hv Hi Hf Ht) as (s & Hs & Hws).
  assert (Hcommit : exists st' b,
            obind (pinyin_finish v (option_map snd ini) (option_map snd fin) tone)
                  (fun s => Ok (mk_lstate s s [], Commit)) = Ok (st', b) /\ wf_state st' /\ plain_behavior b).
  { rewrite Hs. cbn [obind]. eexists _, Commit. split; [reflexivity|].
    split; [split; exact Hws | unfold plain_behavior; auto]. }
  destruct ini as [ei|]; [exact Hcommit|].
  destruct fin as [ef|]; [exact Hcommit|].
  eexists _, Absorb. split; [reflexivity|].
  split; [exact Hw | unfold plain_behavior; auto].
Qed.

Lemma pinyin_cases L : 7 <= L < 10 -> L = 7 \/ L = 8 \/ L = 9.
Proof. lia. Qed.

Lemma pinyin_key_press_eq L st ev :
  7 <= L < 10 -> exists v, In v variants /\ key_press L st ev = pinyin_key_press v st ev
                           /\ fuzzy_key_press L st ev = pinyin_key_press v st ev.
Proof.
  intros H. apply pinyin_cases in H as [->|[->| ->]].
  - exists V_HANYU. split; [left; reflexivity | split; reflexivity].
  - exists V_THL. split; [right; left; reflexivity | split; reflexivity].
  - exists V_MPS2. split; [right; right; left; reflexivity | split; reflexivity].
Qed.

(* one operation on a Pinyin layout *)
Lemma pinyin_step_facts L st op :
  7 <= L < 10 -> wf_state st ->
  exists st' b, l_step L st op = Ok (st', b) /\ wf_state st' /\ plain_behavior b.
Proof.
  intros HL Hw. destruct op as [ev|ev| |]; cbn [l_step].
  - destruct (pinyin_key_press_eq L st ev HL) as (v & Hv & E & _). rewrite E.
    now apply pinyin_key_press_facts.
  - destruct (pinyin_key_press_eq L st ev HL) as (v & Hv & _ & E). rewrite E.
    now apply pinyin_key_press_facts.
  - eexists _, Absorb. split; [reflexivity|]. split; [|unfold plain_behavior; auto].
    apply pinyin_cases in HL as [->|[->| ->]]; exact Hw.
  - eexists _, Absorb. split; [reflexivity|]. split; [|unfold plain_behavior; auto].
    split; exact wf_empty.
Qed.

(* the layout can hand the editor the EMPTY syllable: "ih" + Space (FINAL_MAPPING has
   an entry with neither medial nor rime); the editor's dictionary look-up is what
   keeps it out of the buffer *)
Lemma pinyin_commits_empty :
  run_editor L_HANYU lstate_empty
    (map OpKey [mk_event kiK22 kcI 105 0; mk_event kiK32 kcH 104 0; mk_event kiK48 kcSpace 32 0])
  = Ok (lstate_empty, [EMPTY_PATTERN]).
Proof. vm_compute. reflexivity. Qed.
