(* C14: genuine unreachability of the known-unreachable readings, all layouts. *)
From Coq Require Import NArith List Bool Lia.
From LC Require Import Base.Lib Gen.Readings_gen Model.Syllable Model.LayoutBase Model.Layout
  Proofs.LayoutDefs Proofs.LayoutSoundness Proofs.LayoutPinyinProofs Proofs.LayoutCompleteDefs
  Proofs.LayoutUnreach Proofs.LayoutPinyinUnreach.
Import ListNotations.
Open Scope N_scope.

Definition would_enter (L r s : N) : Prop :=
  s = r \/ (In r (l_alt_syllables L s) /\ In s readings).

Lemma known_unreachable_genuine_all L r ops st hs :
  L < n_layouts -> In r (known_unreachable L) -> Forall valid_op ops ->
  run_editor L lstate_empty ops = Ok (st, hs) ->
  forall s, In s hs -> ~ would_enter L r s.
Proof.
  intros HL Hr Hops Hrun s Hs. destruct (layout_split L HL) as [H7|HP].
  - exact (known_unreachable_genuine L r ops st hs H7 Hr Hops Hrun s Hs).
  - intros [->|[Ha _]].
    + exact (pinyin_known_unreachable_genuine L r ops st hs HP Hr Hrun Hs).
    + apply pinyin_cases in HP as [->|[->| ->]]; exact Ha.
Qed.

(* "every reading of word.src can be entered with every layout" is false: ㄝ with dc26 *)
Lemma complete_all_refuted : exists L r,
  L < n_layouts /\ In r readings /\
  forall ops st hs, Forall valid_op ops -> run_editor L lstate_empty ops = Ok (st, hs) ->
    forall s, In s hs -> ~ would_enter L r s.
Proof.
  exists L_DC26, 32. split; [reflexivity|]. split.
  - apply memN_In. vm_compute. reflexivity.
  - intros ops st hs Hops Hrun. apply (known_unreachable_genuine_all L_DC26 32 ops st hs); auto.
    + reflexivity.
    + left. reflexivity.
Qed.
