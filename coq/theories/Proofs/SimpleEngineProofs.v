(* SimpleEngine::convert (Conversion.simple_convert, modelled exactly and compared for equality with the
   implementation on every logged conversion) tiles the buffer: every recorded choice as it is, every other
   symbol on its own (a character as itself, a syllable by the dictionary's first word or its spelling),
   sorted by start - contiguous from 0 to the end of the buffer.  For every well-formed composition. *)
From Coq Require Import NArith List Bool Arith Lia Sorted.
From LC Require Import Base.Lib Model.Composition Model.Conversion Proofs.CompositionProofs.
Import ListNotations.
Open Scope nat_scope.

Definition holds (iv : interval) (k : nat) : bool := Nat.leb (ib iv) k && Nat.ltb k (ie iv).
Fixpoint count (k : nat) (l : list interval) : nat :=
  match l with [] => 0 | x :: l' => (if holds x k then 1 else 0) + count k l' end.

Lemma count_app k a b : count k (a ++ b) = count k a + count k b.
Proof. induction a as [|x a IH]; cbn [app count]; [reflexivity | rewrite IH; lia]. Qed.

Lemma count_in k x l : In x l -> holds x k = true -> 1 <= count k l.
Proof.
  induction l as [|y l IH]; intros Hin Hh; [contradiction|]. cbn [count]. destruct Hin as [->|Hin]; [rewrite Hh; lia|].
  specialize (IH Hin Hh). lia.
Qed.

Lemma count_pos k l : 1 <= count k l -> exists x, In x l /\ holds x k = true.
Proof.
  induction l as [|y l IH]; cbn [count]; intros H; [lia|]. destruct (holds y k) eqn:E; [exists y; split; [now left | exact E]|].
  destruct (IH ltac:(lia)) as (x & Hx & Hh). exists x. split; [now right | exact Hh].
Qed.

(* ---- insertion sort by start: same members with the same multiplicities, sorted ---- *)
Lemma count_insert k iv l : count k (insert_by_start iv l) = count k (iv :: l).
Proof.
  induction l as [|x l IH]; cbn [insert_by_start]; [reflexivity|]. destruct (Nat.leb (ib iv) (ib x)); [reflexivity|].
  cbn [count] in *. rewrite IH. lia.
Qed.

Lemma count_sort k l : count k (sort_by_start l) = count k l.
Proof. induction l as [|x l IH]; [reflexivity|]. cbn [sort_by_start fold_right]. fold (sort_by_start l). rewrite count_insert. cbn [count]. now rewrite IH. Qed.

Lemma in_insert iv l x : In x (insert_by_start iv l) <-> x = iv \/ In x l.
Proof.
  induction l as [|y l IH]; cbn [insert_by_start]; [cbn; intuition|]. destruct (Nat.leb (ib iv) (ib y)); cbn [In]; [intuition|].
  rewrite IH. cbn [In]. intuition.
Qed.

Lemma in_sort l x : In x (sort_by_start l) <-> In x l.
Proof.
  induction l as [|y l IH]; [reflexivity|]. cbn [sort_by_start fold_right]. fold (sort_by_start l). rewrite in_insert, IH. cbn [In]. intuition.
Qed.

Definition le_start (a b : interval) : Prop := ib a <= ib b.

Lemma insert_sorted iv l : StronglySorted le_start l -> StronglySorted le_start (insert_by_start iv l).
Proof.
  induction 1 as [|x l Hs IH Hx]; cbn [insert_by_start]; [repeat constructor|].
  destruct (Nat.leb (ib iv) (ib x)) eqn:E.
  - apply Nat.leb_le in E. constructor; [constructor; assumption|]. constructor; [exact E|].
    eapply Forall_impl; [|exact Hx]. unfold le_start. intros a Ha. lia.
  - apply Nat.leb_gt in E. constructor; [exact IH|]. apply Forall_forall. intros y Hy. apply in_insert in Hy as [->|Hy].
    + unfold le_start. lia.
    + rewrite Forall_forall in Hx. now apply Hx.
Qed.

Lemma sort_sorted l : StronglySorted le_start (sort_by_start l).
Proof. induction l as [|x l IH]; [constructor|]. cbn [sort_by_start fold_right]. now apply insert_sorted. Qed.

(* ---- a start-sorted list of non-empty intervals inside [from, len) that holds every position of
        [from, len) exactly once is contiguous from `from` to len ---- *)
Lemma exact_cover_contiguous len : forall l from, from <= len -> StronglySorted le_start l ->
  Forall (fun x => from <= ib x /\ ib x < ie x /\ ie x <= len) l ->
  (forall k, from <= k < len -> count k l = 1) ->
  contiguous from len l = true.
Proof.
  induction l as [|x l IH]; intros from Hle Hs Hin Hc; cbn [contiguous].
  - apply Nat.eqb_eq. destruct (Nat.eq_dec from len) as [E|E]; [exact E|]. specialize (Hc from ltac:(lia)). cbn in Hc. lia.
  - inversion Hs as [|x' l' Hs' Hx]; subst. inversion Hin as [|x' l' (X1 & X2 & X3) Hin']; subst.
    assert (Hfrom : from < len) by lia.
    (* the head starts at `from` *)
    assert (Eb : ib x = from).
    { destruct (Nat.eq_dec (ib x) from) as [E|E]; [exact E|]. exfalso.
      pose proof (Hc from ltac:(lia)) as H1. cbn [count] in H1.
      assert (Hx0 : holds x from = false) by (unfold holds; apply andb_false_iff; left; apply Nat.leb_gt; lia).
      rewrite Hx0 in H1. destruct (count_pos from l ltac:(lia)) as (y & Hy & Hh).
      rewrite Forall_forall in Hx. specialize (Hx y Hy). unfold le_start in Hx.
      unfold holds in Hh. apply andb_true_iff in Hh as (Hh & _). apply Nat.leb_le in Hh. lia. }
    rewrite Eb, Nat.eqb_refl. cbn [andb]. assert (Elt : Nat.ltb from (ie x) = true) by (apply Nat.ltb_lt; lia). rewrite <- Eb at 1. rewrite Eb, Elt. cbn [andb].
    (* everything after the head starts at or after its end *)
    assert (Hafter : forall y, In y l -> ie x <= ib y).
    { intros y Hy. rewrite Forall_forall in Hx, Hin'. specialize (Hx y Hy). destruct (Hin' y Hy) as (Y1 & Y2 & Y3). unfold le_start in Hx.
      destruct (le_lt_dec (ie x) (ib y)) as [|Hlt]; [assumption|]. exfalso.
      pose proof (Hc (ib y) ltac:(lia)) as H1. cbn [count] in H1.
      assert (Hx1 : holds x (ib y) = true) by (unfold holds; apply andb_true_iff; split; [apply Nat.leb_le | apply Nat.ltb_lt]; lia).
      assert (Hy1 : holds y (ib y) = true) by (unfold holds; apply andb_true_iff; split; [apply Nat.leb_le | apply Nat.ltb_lt]; lia).
      rewrite Hx1 in H1. pose proof (count_in (ib y) y l Hy Hy1). lia. }
    apply IH; [lia | exact Hs' | |].
    + apply Forall_forall. intros y Hy. rewrite Forall_forall in Hin'. destruct (Hin' y Hy) as (Y1 & Y2 & Y3). specialize (Hafter y Hy). lia.
    + intros k Hk. pose proof (Hc k ltac:(lia)) as H1. cbn [count] in H1.
      assert (Hx0 : holds x k = false) by (unfold holds; apply andb_false_iff; right; apply Nat.ltb_ge; lia).
      rewrite Hx0 in H1. lia.
Qed.

(* ---- the intervals of SimpleEngine ---- *)
Section Simple.
Variable lookup1 : N -> option (list N).
Variable spell : N -> list N.
Variable c : composition.
Hypothesis Wc : wf_comp c.

Definition in_selection (i : nat) : bool := existsb (fun sel => intersect_range sel i (S i)) (selections c).
Definition single (i : nat) : list interval :=
  match nth_error (symbols c) i with
  | None => []
  | Some sym =>
    if in_selection i then []
    else match sym with
         | SymChar ch => [mkIv i (S i) false [ch]]
         | SymSyl s => [mkIv i (S i) true (match lookup1 s with Some t => t | None => spell s end)]
         end
  end.
Definition singles : list interval := flat_map single (seq 0 (clen c)).

Lemma simple_convert_eq : simple_convert lookup1 spell c = sort_by_start (singles ++ selections c).
Proof. reflexivity. Qed.

Lemma intersect_single sel i : intersect_range sel i (S i) = holds sel i.
Proof.
  unfold intersect_range, holds.
  destruct (Nat.max_spec (ib sel) i) as [(M1 & ->)|(M1 & ->)], (Nat.min_spec (ie sel) (S i)) as [(M2 & ->)|(M2 & ->)];
    destruct (Nat.leb_spec (ib sel) i), (Nat.ltb_spec i (ie sel)); cbn [andb];
    first [reflexivity | apply Nat.ltb_lt; lia | apply Nat.ltb_ge; lia | exfalso; lia].
Qed.

Lemma in_selection_count i : in_selection i = true <-> 1 <= count i (selections c).
Proof.
  unfold in_selection. split.
  - intros H. apply existsb_exists in H as (sel & Hs & H). rewrite intersect_single in H. eapply count_in; eassumption.
  - intros H. apply count_pos in H as (sel & Hs & H). apply existsb_exists. exists sel. now rewrite intersect_single.
Qed.

(* disjoint choices hold a position at most once *)
Lemma count_selections_le1 k : count k (selections c) <= 1.
Proof.
  destruct Wc as [_ _ Wd _]. induction Wd as [|x l Hx Hl IH]; cbn [count]; [lia|].
  destruct (holds x k) eqn:E; [|lia].
  destruct (le_lt_dec 1 (count k l)) as [H|H]; [|lia]. exfalso.
  apply count_pos in H as (y & Hy & Hh). rewrite Forall_forall in Hx. specialize (Hx y Hy). unfold disjoint in Hx.
  unfold holds in *. apply andb_true_iff in E as (E1 & E2), Hh as (H1 & H2).
  apply Nat.leb_le in E1, H1. apply Nat.ltb_lt in E2, H2. lia.
Qed.

Lemma count_single k i : count k (single i) = if Nat.eqb k i && negb (in_selection i) && Nat.ltb i (clen c) then 1 else 0.
Proof.
  unfold single. destruct (nth_error (symbols c) i) as [sym|] eqn:En.
  - assert (Hi : Nat.ltb i (clen c) = true) by (apply Nat.ltb_lt, nth_error_Some; congruence). rewrite Hi, andb_true_r.
    destruct (in_selection i); cbn [negb]; [now rewrite andb_false_r|]. rewrite andb_true_r.
    assert (K : forall ph t, count k [mkIv i (S i) ph t] = if Nat.eqb k i then 1 else 0).
    { intros ph t. cbn [count]. unfold holds. cbn [ib ie]. destruct (Nat.eqb k i) eqn:E.
      - apply Nat.eqb_eq in E. subst. rewrite Nat.leb_refl. assert (Nat.ltb i (S i) = true) as -> by (apply Nat.ltb_lt; lia). reflexivity.
      - apply Nat.eqb_neq in E. destruct (Nat.leb i k) eqn:E1, (Nat.ltb k (S i)) eqn:E2; cbn [andb]; try reflexivity.
        apply Nat.leb_le in E1. apply Nat.ltb_lt in E2. lia. }
    destruct sym; apply K.
  - assert (Hi : Nat.ltb i (clen c) = false) by (apply Nat.ltb_ge, nth_error_None; exact En). now rewrite Hi, andb_false_r.
Qed.

Lemma count_singles_from k : forall n a, count k (flat_map single (seq a n)) =
  if Nat.leb a k && Nat.ltb k (a + n) && negb (in_selection k) && Nat.ltb k (clen c) then 1 else 0.
Proof.
  induction n as [|n IH]; intros a; cbn [seq flat_map].
  - replace (Nat.leb a k && Nat.ltb k (a + 0)) with false; [reflexivity|].
    symmetry. apply andb_false_iff. destruct (Nat.leb a k) eqn:E; [right | now left]. apply Nat.leb_le in E. apply Nat.ltb_ge. lia.
  - rewrite count_app, count_single, IH.
    destruct (Nat.eqb k a) eqn:Ea.
    + apply Nat.eqb_eq in Ea. subst a. rewrite Nat.leb_refl.
      assert (Nat.ltb k (k + S n) = true) as -> by (apply Nat.ltb_lt; lia).
      assert (Nat.leb (S k) k = false) as -> by (apply Nat.leb_gt; lia). cbn [andb]. destruct (negb (in_selection k) && Nat.ltb k (clen c)); reflexivity.
    + apply Nat.eqb_neq in Ea. cbn [andb].
      assert (E : Nat.leb (S a) k && Nat.ltb k (S a + n) = Nat.leb a k && Nat.ltb k (a + S n)).
      { destruct (Nat.leb (S a) k) eqn:E1, (Nat.ltb k (S a + n)) eqn:E2, (Nat.leb a k) eqn:E3, (Nat.ltb k (a + S n)) eqn:E4; cbn [andb]; try reflexivity; exfalso; b2p; lia. }
      rewrite E. reflexivity.
Qed.

Lemma count_all k : k < clen c -> count k (singles ++ selections c) = 1.
Proof.
  intros Hk. rewrite count_app. unfold singles. rewrite count_singles_from. cbn [Nat.add Nat.leb].
  assert (Nat.ltb k (clen c) = true) as -> by now apply Nat.ltb_lt. cbn [andb]. rewrite andb_true_r.
  pose proof (count_selections_le1 k) as Hle. destruct (in_selection k) eqn:E; cbn [negb].
  - apply in_selection_count in E. lia.
  - destruct (le_lt_dec 1 (count k (selections c))) as [H|H]; [apply in_selection_count in H; congruence | lia].
Qed.

Lemma member_shape x : In x (singles ++ selections c) ->
  In x (selections c) \/
  (exists i ch, nth_error (symbols c) i = Some (SymChar ch) /\ x = mkIv i (S i) false [ch]) \/
  (exists i s, nth_error (symbols c) i = Some (SymSyl s) /\
               x = mkIv i (S i) true (match lookup1 s with Some t => t | None => spell s end)).
Proof.
  intros H. apply in_app_or in H as [H|H]; [|now left]. right. unfold singles in H. apply in_flat_map in H as (i & _ & H).
  unfold single in H. destruct (nth_error (symbols c) i) as [[s|ch]|] eqn:En; try contradiction;
    destruct (in_selection i); try contradiction; destruct H as [<-|[]]; [right | left]; eauto.
Qed.

Lemma member_range x : In x (singles ++ selections c) -> ib x < ie x /\ ie x <= clen c.
Proof.
  intros H. destruct (member_shape x H) as [Hs|[(i & ch & En & ->)|(i & s & En & ->)]].
  - destruct Wc as [_ Ws _ _]. rewrite Forall_forall in Ws. exact (Ws x Hs).
  - cbn [ib ie]. assert (i < clen c) by (apply nth_error_Some; congruence). lia.
  - cbn [ib ie]. assert (i < clen c) by (apply nth_error_Some; congruence). lia.
Qed.

(* SimpleEngine::convert tiles the buffer *)
Theorem simple_convert_contiguous : contiguous 0 (clen c) (simple_convert lookup1 spell c) = true.
Proof.
  rewrite simple_convert_eq. apply exact_cover_contiguous; [lia | apply sort_sorted | |].
  - apply Forall_forall. intros x Hx. apply (proj1 (in_sort _ _)) in Hx. destruct (member_range x Hx). lia.
  - intros k Hk. rewrite count_sort. apply count_all. lia.
Qed.

(* ... and every interval is a recorded choice or a single symbol: a character as itself, a syllable by the
   dictionary's first word for it, or - when it has none - by its spelling *)
Theorem simple_convert_members x : In x (simple_convert lookup1 spell c) ->
  In x (selections c) \/
  (exists i ch, nth_error (symbols c) i = Some (SymChar ch) /\ x = mkIv i (S i) false [ch]) \/
  (exists i s, nth_error (symbols c) i = Some (SymSyl s) /\
               x = mkIv i (S i) true (match lookup1 s with Some t => t | None => spell s end)).
Proof. rewrite simple_convert_eq. intros H. apply (proj1 (in_sort _ _)) in H. now apply member_shape. Qed.

(* every recorded choice is shown *)
Theorem simple_convert_keeps_choices sel : In sel (selections c) -> In sel (simple_convert lookup1 spell c).
Proof. intros H. rewrite simple_convert_eq. apply (proj2 (in_sort _ _)). apply in_or_app. now right. Qed.

(* the tiling contract of C03 (Conversion.tiling_ok: contiguous, one character per symbol, characters
   unchanged) for dictionaries whose words for one syllable have one character and that have a word
   for every syllable of the buffer, and choices that carry one character per symbol *)
Hypothesis lookup1_len : forall s t, lookup1 s = Some t -> length t = 1.
Hypothesis has_word1 : forall s, In (SymSyl s) (symbols c) -> lookup1 s <> None.
Hypothesis sel_len : Forall (fun s => length (itext s) = ie s - ib s) (selections c).

Theorem simple_convert_tiling_ok : tiling_ok c (simple_convert lookup1 spell c) = true.
Proof.
  unfold tiling_ok. rewrite simple_convert_contiguous. cbn [andb].
  assert (U : forall ivs, symbol_texts_ok c ivs = forallb (fun iv =>
    Nat.eqb (length (itext iv)) (ie iv - ib iv) &&
    forallb (fun k => match nth_error (symbols c) (ib iv + k) with
                      | Some (SymChar ch) => match nth_error (itext iv) k with Some x => N.eqb x ch | None => false end
                      | _ => true
                      end) (seq 0 (ie iv - ib iv))) ivs) by (intros [|y l]; reflexivity).
  rewrite U. apply forallb_forall. intros x Hx.
  destruct (simple_convert_members x Hx) as [Hs|[(i & ch & En & ->)|(i & s & En & ->)]].
  - rewrite Forall_forall in sel_len. rewrite (sel_len x Hs), Nat.eqb_refl. cbn [andb].
    apply forallb_forall. intros k Hk. apply in_seq in Hk. destruct Wc as [_ _ _ Wk]. destruct (Wk x Hs) as (K1 & _).
    destruct (K1 (ib x + k) ltac:(lia)) as (code & ->). reflexivity.
  - cbn [ib ie itext length]. replace (S i - i) with 1 by lia. cbn [Nat.eqb andb seq forallb]. rewrite Nat.add_0_r, En. cbn [nth_error].
    now rewrite N.eqb_refl.
  - cbn [ib ie itext]. replace (S i - i) with 1 by lia. cbn [seq forallb]. rewrite Nat.add_0_r, En. rewrite andb_true_r.
    destruct (lookup1 s) as [t|] eqn:El; [rewrite (lookup1_len s t El); reflexivity|].
    exfalso. apply (has_word1 s); [eapply nth_error_In; exact En | exact El].
Qed.

End Simple.
