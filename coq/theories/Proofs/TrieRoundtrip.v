(* C11: reading back what TrieBuilder::write wrote.
   - the file written for a tree within the format's capacities is accepted by
     open (DER envelope, then the structural validation of the index);
   - lookups on it are the tree-level walk (twalk / tcollect) - exact and fuzzy,
     any `first`;
   - entries is a permutation of the tree's (path, phrase) pairs.  Stdlib only. *)
From Coq Require Import NArith List Bool Lia ZArith Permutation.
From LC Require Import Base.Lib Model.Utf8 Model.Der Model.Syllable Model.TrieCodec Gen.Trie_gen
     Proofs.DerProofs Proofs.TrieFileProofs Proofs.TrieShape Proofs.TrieLayout.
Import ListNotations.
Open Scope N_scope.

(* ------------------------------------------------------------------ *)
(* the records written are well-formed records                           *)

Definition qsyl_ok (it : qitem) : Prop :=
  match it with QNode syl _ => syl <> 0 /\ syl < U16 | QLeaf _ => True end.

Lemma kids_syl_ok t : tok t -> Forall qsyl_ok (kids_of t).
Proof.
  intros H. destruct t as [leaf ch]. pose proof (tok_children _ _ H) as Hc.
  unfold kids_of. cbn [tleaf tchildren]. apply Forall_app. split.
  - destruct leaf; constructor; [exact I|constructor].
  - apply Forall_map. apply ssort_Forall. eapply Forall_impl; [|exact Hc].
    intros sc (H1 & H2 & _). split; assumption.
Qed.

Definition qsyl16 (it : qitem) : Prop := match it with QNode syl _ => syl < U16 | QLeaf _ => True end.

Lemma bfs_recs_ok : forall fuel q cb dict data dict' data',
  bfs fuel q cb dict data = Ok (dict', data') ->
  Forall rec_ok dict -> Forall qsyl16 q -> Forall qitem_ok q -> Forall rec_ok dict'.
Proof.
  induction fuel as [|fuel IH]; intros q cb dict data dict' data' H Hd Hs Hq.
  - destruct q; cbn [bfs] in H; [|discriminate]. injection H as <- <-. exact Hd.
  - destruct q as [|it q']; cbn [bfs] in H; [injection H as <- <-; exact Hd|].
    inversion Hs as [|? ? Hs1 Hs']; subst. inversion Hq as [|? ? Hq1 Hq']; subst.
    assert (Hm32 : forall x, x mod U32 < U32) by (intros; apply N.mod_lt; unfold U32; lia).
    assert (Hm16 : forall x, x mod U16 < U16) by (intros; apply N.mod_lt; unfold U16; lia).
    destruct it as [syl t|ps].
    + eapply IH; [exact H| | |].
      * apply Forall_app. split; [exact Hd|]. constructor; [|constructor].
        unfold rec_ok. cbn [r_begin r_len r_syl fst snd]. auto.
      * apply Forall_app. split; [exact Hs'|]. eapply Forall_impl; [|apply kids_syl_ok; exact Hq1].
        intros [s ?|?]; cbn; tauto.
      * apply Forall_app. split; [exact Hq'|apply kids_ok_of; exact Hq1].
    + destruct (enc_phrases (sort_leaf ps)) as [b|]; [|discriminate].
      eapply IH; [exact H| |exact Hs'|exact Hq'].
      apply Forall_app. split; [exact Hd|]. constructor; [|constructor].
      unfold rec_ok, U16. cbn [r_begin r_len r_syl fst snd]. split; [apply Hm32|]. split; [apply Hm16|lia].
Qed.

(* ------------------------------------------------------------------ *)
(* the written index passes validate_index                               *)

Lemma forallb_slice (p : rec -> bool) recs : forall m j,
  (forall k, k < N.of_nat m -> exists r, rec_at recs (j + k) = Some r /\ p r = true) ->
  forallb p (slice_recs recs j (N.of_nat m)) = true.
Proof.
  induction m as [|m IH]; intros j H; [reflexivity|].
  destruct (H 0) as (r & Hr & Hp); [lia|]. rewrite N.add_0_r in Hr.
  rewrite (slice_recs_cons _ _ _ _ Hr) by lia.
  cbn [forallb]. rewrite Hp. cbn [andb].
  replace (N.of_nat (S m) - 1) with (N.of_nat m) by lia.
  apply IH. intros k Hk. destruct (H (1 + k)) as (r' & Hr' & Hp'); [lia|].
  exists r'. split; [|exact Hp']. rewrite <- Hr'. f_equal. lia.
Qed.

(* the records of queue items that are internal nodes have a non-zero syllable *)
Lemma items_repr_nth recs data q : forall j k it,
  items_repr recs data q j -> nth_error q k = Some it ->
  item_repr recs data it (j + N.of_nat k).
Proof.
  induction q as [|x q IH]; intros j k it Hr Hn; [destruct k; discriminate|].
  cbn [items_repr] in Hr. destruct Hr as [H1 H2]. destruct k as [|k].
  - cbn in Hn. injection Hn as <-. rewrite N.add_0_r. exact H1.
  - cbn [nth_error] in Hn. replace (j + N.of_nat (S k)) with (j + 1 + N.of_nat k) by lia.
    eapply IH; eassumption.
Qed.

Lemma item_repr_syl recs data it i :
  item_repr recs data it i ->
  exists r, rec_at recs i = Some r /\
            match it with QNode syl _ => r_syl r = syl | QLeaf _ => r_syl r = 0 end.
Proof.
  destruct it as [syl t|ps]; cbn [item_repr].
  - intros (r & sh & Hr & Hd & Hm). exists r. split; [exact Hr|].
    inversion Hm; subst. cbn [rdenotes] in Hd. tauto.
  - intros (db & dl & Hr & _). eexists. split; [exact Hr|reflexivity].
Qed.

Lemma tail_kids_nonzero t : tok t ->
  forall k it, nth_error (kids_of t) (S k) = Some it -> exists syl t', it = QNode syl t' /\ syl <> 0.
Proof.
  intros Hok k it Hn. pose proof (kids_syl_ok t Hok) as Hs.
  destruct t as [leaf ch]. unfold kids_of in *. cbn [tleaf tchildren] in *.
  assert (Hin : In it (map (fun sc => QNode (fst sc) (snd sc)) (sort_children ch))).
  { destruct leaf; cbn [app] in Hn.
    - cbn [nth_error] in Hn. eapply nth_error_In; exact Hn.
    - eapply nth_error_In; exact Hn. }
  apply in_map_iff in Hin as (sc & <- & Hin).
  apply Forall_app in Hs as [_ Hs]. rewrite Forall_forall in Hs.
  specialize (Hs (QNode (fst sc) (snd sc))). cbn [qsyl_ok] in Hs.
  exists (fst sc), (snd sc). split; [reflexivity|]. apply Hs. apply in_map_iff. eauto.
Qed.

Lemma Forall_tl {A} (P : A -> Prop) l : Forall P l -> Forall P (tl l).
Proof. destruct 1; [constructor|assumption]. Qed.

(* at record 0 (the root) the syllable is irrelevant; everywhere else a node has a
   non-zero syllable *)
Lemma bfs_validates : forall fuel q cb dict data dict' data',
  bfs fuel q cb dict data = Ok (dict', data') ->
  cb = len_N dict + len_N q ->
  len_N dict' < U32 -> len_N data' < U32 ->
  Forall qitem_ok q -> Forall qsyl_ok (tl q) ->
  (0 < len_N dict /\ Forall qsyl_ok q \/ len_N dict = 0 /\ exists syl t, hd_error q = Some (QNode syl t)) ->
  forall vf, (length dict' - length dict < vf)%nat ->
  validate_from vf dict' (len_N dict') (len_N dict) cb = true.
Proof.
  induction fuel as [|fuel IH]; intros q cb dict data dict' data' H Hcb Hd Hdt Hq Hs Hhead vf Hvf.
  - destruct q; cbn [bfs] in H; [|discriminate]. injection H as <- <-.
    destruct vf; [lia|]. cbn [validate_from]. subst cb.
    unfold len_N at 3. cbn [length N.of_nat]. rewrite N.add_0_r, N.ltb_irrefl. reflexivity.
  - destruct q as [|it q'].
    { cbn [bfs] in H. injection H as <- <-. destruct vf; [lia|]. cbn [validate_from]. subst cb.
      unfold len_N at 3. cbn [length N.of_nat]. rewrite N.add_0_r, N.ltb_irrefl. reflexivity. }
    pose proof (bfs_repr _ _ _ _ _ _ _ H Hcb Hd Hdt Hq) as Hrep.
    pose proof (bfs_longer _ _ _ _ _ _ _ H) as (Hlong & _).
    inversion Hq as [|? ? Hq1 Hq']; subst. cbn [tl] in Hs. rename Hs into Hs'.
    cbn [items_repr] in Hrep. destruct Hrep as [Hit _].
    rewrite len_N_cons in *.
    destruct vf as [|vf]; [lia|]. cbn [validate_from].
    destruct (len_N dict <? len_N dict + (1 + len_N q')) eqn:E1; b2p E1; [|lia].
    destruct (len_N dict <? len_N dict') eqn:E2; b2p E2; [|lia]. cbn [andb negb].
    cbn [bfs] in H. destruct it as [syl t|ps].
    + cbn [item_repr] in Hit. destruct Hit as (r & sh & Hr & Hden & Hmir).
      rewrite Hr. inversion Hmir; subst. cbn [rdenotes] in Hden.
      destruct Hden as (Hsyl & Hlen & Hge & Hle & _).
      assert (Hint : ((len_N dict =? 0) || negb (r_syl r =? 0)) = true).
      { destruct Hhead as [[Hpos Hall]|[Hz _]].
        - inversion Hall as [|? ? Hh _]; subst. cbn [qsyl_ok] in Hh. destruct Hh as [Hnz _].
          destruct (r_syl r =? 0) eqn:Es; b2p Es; [congruence|]. apply orb_true_r.
        - rewrite Hz. reflexivity. }
      rewrite Hint.
      (* the record is the one bfs wrote: begin = counter, len = number of kids *)
      pose proof H as Hext. apply bfs_extends in Hext as (d1 & d2 & Hd1 & _ & _).
      cbn [qitem_ok] in Hq1.
      assert (Hcb32 : (len_N dict + (1 + len_N q')) mod U32 = len_N dict + (1 + len_N q')) by (apply N.mod_small; lia).
      assert (Hn16 : len_N (kids_of t) mod U16 = len_N (kids_of t)).
      { apply N.mod_small. destruct t. cbn [tok] in Hq1. tauto. }
      assert (Hr' : r = (len_N dict + (1 + len_N q'), len_N (kids_of t), syl)).
      { rewrite Hd1, <- app_assoc in Hr. cbn [app] in Hr. rewrite rec_at_middle in Hr.
        rewrite Hcb32, Hn16 in Hr. congruence. }
      subst r. cbn [r_begin r_len r_syl fst snd] in *.
      destruct (len_N dict + (1 + len_N q') =? len_N dict + (1 + len_N q') + len_N (kids_of t)) eqn:E5; b2p E5; [lia|].
      rewrite andb_false_r.
      rewrite N.eqb_refl. cbn [negb orb].
      destruct (len_N dict + (1 + len_N q') + len_N (kids_of t) <=? len_N dict + (1 + len_N q')) eqn:E3; b2p E3; [lia|].
      destruct (len_N dict' <? len_N dict + (1 + len_N q') + len_N (kids_of t)) eqn:E4; b2p E4; [lia|]. cbn [orb].
      set (r0 := ((len_N dict + (1 + len_N q')) mod U32, len_N (kids_of t) mod U16, syl)) in *.
      assert (Hl1 : len_N (dict ++ [r0]) = len_N dict + 1) by (rewrite len_N_app; reflexivity).
      assert (Hkq : Forall qitem_ok (q' ++ kids_of t)) by (apply Forall_app; split; [exact Hq'|apply kids_ok_of; exact Hq1]).
      (* only the first kid may be a leaf *)
      assert (Hk : items_repr dict' data' (kids_of t) (len_N dict + (1 + len_N q'))).
      { assert (Hcbeq : len_N dict + (1 + len_N q') + len_N (kids_of t) = len_N (dict ++ [r0]) + len_N (q' ++ kids_of t))
          by (rewrite Hl1, len_N_app; lia).
        pose proof (bfs_repr _ _ _ _ _ _ _ H Hcbeq Hd Hdt Hkq) as Hall.
        rewrite Hl1 in Hall. apply items_repr_app in Hall as [_ Hk'].
        replace (len_N dict + (1 + len_N q')) with (len_N dict + 1 + len_N q') by lia. exact Hk'. }
      assert (Hnz2 : range_no_zero dict' (len_N dict + (1 + len_N q') + 1) (len_N (kids_of t) - 1) = true).
      { unfold range_no_zero.
        replace (len_N (kids_of t) - 1) with (N.of_nat (length (kids_of t) - 1)) by (unfold len_N; lia).
        apply forallb_slice. intros k Hk1.
        destruct (nth_error (kids_of t) (S (N.to_nat k))) as [it|] eqn:En.
        2:{ apply nth_error_None in En. lia. }
        destruct (tail_kids_nonzero t Hq1 _ _ En) as (s' & t' & -> & Hsnz).
        pose proof (items_repr_nth _ _ _ _ _ _ Hk En) as Hir.
        apply item_repr_syl in Hir as (r' & Hr' & Hsy).
        exists r'. split.
        - rewrite <- Hr'. f_equal. lia.
        - apply negb_true_iff. apply N.eqb_neq. congruence. }
      rewrite Hnz2. cbn [negb].
      rewrite <- Hl1.
      assert (Hsq : Forall qsyl_ok (q' ++ kids_of t)) by (apply Forall_app; split; [exact Hs'|apply kids_syl_ok; exact Hq1]).
      eapply IH; [exact H| |assumption|assumption|exact Hkq| | |].
      * rewrite Hl1, len_N_app. lia.
      * apply Forall_tl. exact Hsq.
      * left. split; [rewrite Hl1; lia|exact Hsq].
      * rewrite app_length. cbn [length]. unfold len_N in E2. lia.
    + cbn [item_repr] in Hit. destruct Hit as (db & dl & Hr & _).
      rewrite Hr. cbn [r_syl snd]. rewrite N.eqb_refl. cbn [negb].
      destruct Hhead as [[Hpos Hall]|[_ (? & ? & [=])]].
      destruct (len_N dict =? 0) eqn:E0; b2p E0; [lia|]. cbn [orb].
      destruct (enc_phrases (sort_leaf ps)) as [b|]; [|discriminate].
      set (r0 := (len_N data mod U32, len_N b mod U16, 0)) in *.
      assert (Hl1 : len_N (dict ++ [r0]) = len_N dict + 1) by (rewrite len_N_app; reflexivity).
      rewrite <- Hl1.
      eapply IH; [exact H| |assumption|assumption|exact Hq'| | |].
      * rewrite Hl1. lia.
      * apply Forall_tl. exact Hs'.
      * left. split; [rewrite Hl1; lia|exact Hs'].
      * rewrite app_length. cbn [length]. unfold len_N in E2. lia.
Qed.

(* ------------------------------------------------------------------ *)
(* tree-level reading of a builder tree                                  *)

(* one query syllable: the matching children of every current node, children
   in the order they are written (sorted by syllable) *)
Definition tnext (strategy s : N) (ts : list tnode) : list tnode :=
  flat_map (fun t => map snd (filter (fun sc => search_pred strategy (fst sc) s) (sort_children (tchildren t)))) ts.
Definition twalk (strategy : N) (q : list N) (ts : list tnode) : list tnode :=
  fold_left (fun ts s => tnext strategy s ts) q ts.

(* the leaves of the final nodes, sorted, concatenated until more than `first` phrases are there *)
Fixpoint tcollect (first : N) (ls : list (option (list phrase))) (acc : list phrase) : list phrase :=
  match ls with
  | [] => acc
  | None :: r => tcollect first r acc
  | Some ps :: r =>
    let acc' := acc ++ sort_leaf ps in
    if first <? len_N acc' then acc' else tcollect first r acc'
  end.

Definition tlookup (t : tnode) (q : list N) (first strategy : N) : list phrase :=
  let ps0 := tcollect first (map tleaf (twalk strategy q [t])) [] in
  if lookup_truncates && (first <? len_N ps0) then firstn (N.to_nat first) ps0 else ps0.

Fixpoint tleaves (syls : list N) (t : tnode) : list eentry :=
  match t with
  | TNode leaf ch =>
    (match leaf with Some ps => [(rev syls, sort_leaf ps)] | None => [] end)
      ++ flat_map (fun sc => tleaves (fst sc :: syls) (snd sc)) ch
  end.
Definition tentries (t : tnode) : list entry := flatten_entries (tleaves [] t).

Section Mirror.
  Variable data : list N.
  Definition M (t : tnode) (sh : shape) : Prop := exists syl, mirror data syl t sh.

  Lemma mirror_next strategy s ts shs :
    Forall2 M ts shs -> Forall2 M (tnext strategy s ts) (next_shapes strategy s shs).
  Proof.
    induction 1 as [|t sh ts shs (syl & Hm) HF IH]; [constructor|].
    cbn [tnext next_shapes flat_map]. apply Forall2_app; [|exact IH].
    inversion Hm as [? ? l kids Hl Hk]; subst. unfold match_kids. cbn [sh_kids].
    clear - Hk. induction Hk as [|sc k scs ks Hsk _ IHk]; [constructor|].
    cbn [filter]. inversion Hsk; subst. cbn [sh_syl].
    destruct (search_pred strategy (fst sc) s); [|exact IHk].
    cbn [map]. constructor; [|exact IHk]. exists (fst sc). assumption.
  Qed.

  Lemma mirror_walk strategy q : forall ts shs,
    Forall2 M ts shs -> Forall2 M (twalk strategy q ts) (walk_shapes strategy q shs).
  Proof.
    induction q as [|s q IH]; intros ts shs H; [exact H|].
    cbn [twalk walk_shapes fold_left]. apply IH. apply mirror_next. exact H.
  Qed.

  Lemma mirror_collect first : forall ts shs acc,
    Forall2 M ts shs ->
    collect_sh data first (map sh_leaf shs) acc = Ok (tcollect first (map tleaf ts) acc).
  Proof.
    intros ts shs acc H. revert acc. induction H as [|t sh ts shs (syl & Hm) HF IH]; intros acc; [reflexivity|].
    inversion Hm as [? ? l kids Hl Hk]; subst. cbn [map sh_leaf].
    destruct (tleaf t) as [ps|] eqn:Et; destruct l as [[db dl]|]; cbn [leaf_mirror] in Hl; try contradiction.
    - destruct Hl as (b & Hpok & Hb & Hsl & Hdl & Hnz & Hin).
      cbn [collect_sh tcollect].
      destruct ((dl =? 0) || (len_N data <? db + dl)) eqn:E.
      { apply orb_true_iff in E as [E|E]; b2p E; lia. }
      rewrite Hsl.
      rewrite (phrases_of_slice_enc (sort_leaf ps) b); [|apply ssort_Forall; exact Hpok|exact Hb].
      destruct (first <? _); [reflexivity|apply IH].
    - cbn [collect_sh tcollect]. apply IH.
  Qed.

  (* the leaves of a mirrored shape *)
  Lemma flat_map_perm2 {A B C} (f : A -> list C) (g : B -> list C) (R : A -> B -> Prop) la lb :
    Forall2 R la lb -> (forall a b, In b lb -> R a b -> Permutation (g b) (f a)) ->
    Permutation (flat_map g lb) (flat_map f la).
  Proof.
    induction 1 as [|a b la lb Hab HF IH]; intros Hp; [constructor|].
    cbn [flat_map]. apply Permutation_app; [apply Hp; [left; reflexivity|exact Hab]|].
    apply IH. intros a' b' Hin. apply Hp. right. exact Hin.
  Qed.

  Lemma mirror_inb : forall sh syl t, mirror data syl t sh -> all_inb data sh.
  Proof.
    induction sh as [s l ks IH] using shape_ind'. intros syl t Hm.
    inversion Hm as [? ? ? ? Hl Hk]; subst. cbn [all_inb]. split.
    - destruct l as [[db dl]|]; [|exact I]. destruct (tleaf t); cbn [leaf_mirror] in Hl; [|contradiction].
      destruct Hl as (b & _ & _ & _ & _ & Hnz & Hin). unfold leaf_inb. cbn [fst snd]. split; assumption.
    - clear - IH Hk. revert IH. induction Hk as [|sc k scs ks Hsk _ IHk]; intros IH; [exact I|].
      inversion IH as [|? ? Hk1 Hks]; subst. cbn [fold_right]. split; [eapply Hk1; exact Hsk|apply IHk; exact Hks].
  Qed.

  Lemma mirror_leaves : forall sh syl t syls, mirror data syl t sh ->
    Permutation (leaves data syls sh) (tleaves syls t).
  Proof.
    induction sh as [s l ks IH] using shape_ind'. intros syl t syls Hm.
    inversion Hm as [? ? ? ? Hl Hk]; subst. destruct t as [leaf ch]. cbn [tleaf tchildren] in *.
    cbn [leaves tleaves]. apply Permutation_app.
    - destruct leaf as [ps|]; destruct l as [[db dl]|]; cbn [leaf_mirror] in Hl; try contradiction; [|constructor].
      destruct Hl as (b & Hpok & Hb & Hsl & _).
      unfold leaf_entry. cbn [fst snd]. rewrite Hsl.
      rewrite (phrases_of_slice_enc (sort_leaf ps) b); [apply Permutation_refl|apply ssort_Forall; exact Hpok|exact Hb].
    - eapply Permutation_trans.
      + eapply (flat_map_perm2 (fun sc => tleaves (fst sc :: syls) (snd sc))); [exact Hk|].
        intros sc k Hin Hsk. cbv beta. rewrite Forall_forall in IH.
        assert (Hs : sh_syl k = fst sc) by (inversion Hsk; reflexivity). rewrite Hs.
        eapply IH; [exact Hin|exact Hsk].
      + apply Permutation_flat_map. apply ssort_perm.
  Qed.
End Mirror.

(* ------------------------------------------------------------------ *)
(* sizes: the shape that mirrors the root has as many records as the index *)

Definition csum (ch : list (N * tnode)) : nat := fold_right (fun sc a => (tsize (snd sc) + a)%nat) 0%nat ch.

Lemma tsize_eq leaf ch : tsize (TNode leaf ch) = S ((match leaf with Some _ => 1 | None => 0 end) + csum ch)%nat.
Proof.
  cbn [tsize]. f_equal. f_equal. induction ch as [|[s c] ch IH]; [reflexivity|].
  cbn [snd]. rewrite IH. reflexivity.
Qed.

Lemma csum_perm a b : Permutation a b -> csum a = csum b.
Proof.
  induction 1 as [|x a b _ IH|x y a|a b c _ IH1 _ IH2].
  - reflexivity.
  - change (csum (x :: a)) with (tsize (snd x) + csum a)%nat.
    change (csum (x :: b)) with (tsize (snd x) + csum b)%nat. lia.
  - change (csum (y :: x :: a)) with (tsize (snd y) + (tsize (snd x) + csum a))%nat.
    change (csum (x :: y :: a)) with (tsize (snd x) + (tsize (snd y) + csum a))%nat. lia.
  - congruence.
Qed.

Definition isz (it : qitem) : nat := match it with QNode _ t => tsize t | QLeaf _ => 1%nat end.
Definition qsize (q : list qitem) : nat := fold_right (fun it a => (isz it + a)%nat) 0%nat q.

Lemma qsize_cons x a : qsize (x :: a) = (isz x + qsize a)%nat.
Proof. reflexivity. Qed.

Lemma qsize_app a b : qsize (a ++ b) = (qsize a + qsize b)%nat.
Proof. induction a as [|x a IH]; [reflexivity|]. cbn [app]. rewrite !qsize_cons, IH. lia. Qed.

Lemma qsize_kids t : tsize t = S (qsize (kids_of t)).
Proof.
  destruct t as [leaf ch]. rewrite tsize_eq. unfold kids_of. cbn [tleaf tchildren]. rewrite qsize_app.
  assert (H1 : qsize (match leaf with Some ps => [QLeaf ps] | None => [] end) = (match leaf with Some _ => 1 | None => 0 end)%nat)
    by (destruct leaf; reflexivity).
  assert (H2 : qsize (map (fun sc => QNode (fst sc) (snd sc)) (sort_children ch)) = csum ch).
  { rewrite (csum_perm ch (sort_children ch)) by (apply Permutation_sym; apply ssort_perm).
    induction (sort_children ch) as [|sc l IH]; [reflexivity|]. cbn [map]. rewrite qsize_cons, IH. reflexivity. }
  rewrite H1, H2. reflexivity.
Qed.

Lemma bfs_count : forall fuel q cb dict data dict' data',
  bfs fuel q cb dict data = Ok (dict', data') -> length dict' = (length dict + qsize q)%nat.
Proof.
  induction fuel as [|fuel IH]; intros q cb dict data dict' data' H.
  - destruct q; cbn [bfs] in H; [|discriminate]. injection H as <- <-. cbn. lia.
  - destruct q as [|it q']; cbn [bfs] in H; [injection H as <- <-; cbn; lia|].
    destruct it as [syl t|ps].
    + apply IH in H. rewrite H, app_length, qsize_app, qsize_cons. cbn [length isz]. rewrite (qsize_kids t). lia.
    + destruct (enc_phrases (sort_leaf ps)); [|discriminate].
      apply IH in H. rewrite H, app_length, qsize_cons. cbn [length isz]. lia.
Qed.

Lemma mirror_size data : forall sh syl t, mirror data syl t sh -> ssize sh = N.of_nat (tsize t).
Proof.
  induction sh as [s l ks IH] using shape_ind'. intros syl t Hm.
  inversion Hm as [? ? ? ? Hl Hk]; subst. destruct t as [leaf ch]. cbn [tleaf tchildren] in *.
  rewrite ssize_eq, tsize_eq.
  assert (Hlb : leafbit l = N.of_nat (match leaf with Some _ => 1 | None => 0 end)).
  { destruct leaf; destruct l as [[? ?]|]; cbn [leaf_mirror] in Hl; try contradiction; reflexivity. }
  assert (Hks : fsize ks = N.of_nat (csum (sort_children ch))).
  { clear - IH Hk. revert IH. induction Hk as [|sc k scs kss Hsk _ IHk]; intros IH; [reflexivity|].
    inversion IH as [|? ? Hk1 Hkss]; subst. rewrite fsize_cons. cbn [csum fold_right].
    rewrite (Hk1 _ _ Hsk). fold (csum scs). rewrite (IHk Hkss). lia. }
  rewrite (csum_perm ch (sort_children ch)) by (apply Permutation_sym; apply ssort_perm).
  rewrite Hlb, Hks. lia.
Qed.

(* ------------------------------------------------------------------ *)
(* write, then read                                                      *)

Definition root_ok (t : tnode) : Prop := t = tempty \/ tok t.

Lemma len_enc_recs rs : len_N (enc_recs rs) = 8 * len_N rs.
Proof.
  induction rs as [|r rs IH]; [reflexivity|].
  unfold enc_recs in *. cbn [flat_map]. rewrite len_N_app, IH, len_N_cons.
  unfold enc_rec, be32, be16. cbn [app]. unfold len_N at 1. cbn [length N.of_nat]. lia.
Qed.

Lemma enc_file_sizes i idx data b :
  enc_file i idx data = Some b -> len_N idx <= DER_MAX /\ len_N data <= DER_MAX.
Proof.
  unfold enc_file. intros He. apply obind_some in He as (body & Hb & _).
  apply oapp_some in Hb as (x1234 & x5 & Hb & E5 & ->).
  apply oapp_some in Hb as (x123 & x4 & Hb & E4 & ->).
  unfold enc_octets, enc_sequence, enc_tlv in *.
  destruct (enc_len (len_N idx)) eqn:E1; [|discriminate].
  destruct (enc_len (len_N data)) eqn:E2; [|discriminate].
  split; eapply enc_len_bound; eassumption.
Qed.

Lemma twalk_nil strategy q : twalk strategy q [] = [].
Proof. induction q as [|s q IH]; [reflexivity|]. cbn [twalk fold_left tnext flat_map]. exact IH. Qed.

Lemma tlookup_empty q first strategy : tlookup tempty q first strategy = [].
Proof.
  unfold tlookup. assert (H : tcollect first (map tleaf (twalk strategy q [tempty])) [] = []).
  { destruct q as [|s q]; [reflexivity|]. cbn [twalk fold_left]. change (tnext strategy s [tempty]) with (@nil tnode).
    fold (twalk strategy q []). rewrite twalk_nil. reflexivity. }
  rewrite H. destruct (lookup_truncates && (first <? len_N [])); [|reflexivity]. apply firstn_nil.
Qed.

Theorem write_read info t bytes :
  info_ok info -> root_ok t -> write info t = Ok bytes ->
  exists tr, open bytes = Ok tr /\ t_info tr = info /\
    (forall q first strategy, Forall (fun s => s <> 0) q ->
        lookup tr q first strategy = Ok (tlookup t q first strategy)) /\
    (exists es, entries tr = Ok es /\ Permutation es (tentries t)).
Proof.
  intros Hinfo Hroot Hw. unfold write in Hw.
  destruct (write_parts t) as [[dict data]| | |] eqn:Hwp; try discriminate.
  destruct (enc_file info (enc_recs dict) data) as [b|] eqn:Hef; [|discriminate].
  destruct (DER_MAX <? len_N b) eqn:Hmax; b2p Hmax; [discriminate|]. injection Hw as <-.
  destruct (enc_file_sizes _ _ _ _ Hef) as (Hsz1 & Hsz2). rewrite len_enc_recs in Hsz1.
  assert (Hd32 : len_N dict < U32) by (unfold DER_MAX, U32 in *; lia).
  assert (Hdt32 : len_N data < U32) by (unfold DER_MAX, U32 in *; lia).
  pose proof (dec_enc_file _ _ _ _ Hinfo Hef Hmax) as Hdec.
  unfold write_parts in Hwp.
  destruct Hroot as [->|Hok].
  - (* the empty dictionary *)
    assert (Hdd : dict = [(1, 0, 0)] /\ data = []) by (vm_compute in Hwp; injection Hwp as <- <-; split; reflexivity).
    destruct Hdd as [-> ->].
    exists (mkTrie info [(1, 0, 0)] []). split.
    { unfold open, open_unchecked. rewrite Hdec. reflexivity. }
    split; [reflexivity|]. split.
    + intros q first strategy _. rewrite tlookup_empty. reflexivity.
    + exists []. split; [reflexivity|apply Permutation_refl].
  - (* at least one entry *)
    assert (Hq : Forall qitem_ok [QNode 0 t]) by (constructor; [exact Hok|constructor]).
    assert (Hrok : Forall rec_ok dict).
    { eapply bfs_recs_ok; [exact Hwp|constructor| |exact Hq]. constructor; [cbn; unfold U16; lia|constructor]. }
    pose proof (bfs_repr _ _ _ _ _ _ _ Hwp eq_refl Hd32 Hdt32 Hq) as Hrep.
    cbn [items_repr item_repr] in Hrep. destruct Hrep as ((r & sh & Hr & Hden & Hmir) & _).
    change (len_N []) with 0 in Hr.
    assert (Hval : validate_index dict = true).
    { unfold validate_index.
      apply (bfs_validates _ _ _ _ _ _ _ Hwp eq_refl Hd32 Hdt32 Hq); [constructor| |cbn; lia].
      right. split; [reflexivity|]. exists 0, t. reflexivity. }
    assert (Hsize : ssize sh = len_N dict).
    { rewrite (mirror_size _ _ _ _ Hmir). apply bfs_count in Hwp. rewrite qsize_cons in Hwp. cbn [length isz qsize fold_right] in Hwp. unfold len_N. lia. }
    exists (mkTrie info dict data). split.
    { unfold open, open_unchecked. rewrite Hdec. rewrite (parse_enc_recs dict Hrok). cbn [t_recs]. rewrite Hval. reflexivity. }
    split; [reflexivity|]. split.
    + intros q first strategy Hqz.
      destruct (lookup_over_shape dict data Hrok info r sh q first strategy Hr Hden Hqz) as (ps & c & Hl & _ & (ps0 & Hc & ->)).
      unfold lookup. rewrite Hl. cbn [fst]. f_equal. unfold tlookup.
      assert (HM : Forall2 (M data) [t] [sh]) by (constructor; [exists 0; exact Hmir|constructor]).
      pose proof (mirror_walk data strategy q _ _ HM) as HW.
      rewrite (mirror_collect data first _ _ [] HW) in Hc. injection Hc as <-. reflexivity.
    + destruct (entries_over_shape dict data false r sh (entries_fuel (mkTrie info dict data)) Hrok Hden) as (l & Hl & Hperm).
      { unfold entries_fuel. cbn [t_recs]. pose proof (steps_bound sh). unfold len_N in Hsize. lia. }
      exists (flatten_entries l). split.
      * unfold entries, entries_leaves. cbn [t_recs t_data]. rewrite Hr.
        assert (Hlen : (r_len r =? 0) = false) by (apply N.eqb_neq; destruct sh; cbn [rdenotes] in Hden; lia).
        rewrite Hlen, Hl. reflexivity.
      * unfold tentries, flatten_entries. apply Permutation_flat_map.
        eapply Permutation_trans; [apply Hperm; eapply mirror_inb; exact Hmir|].
        eapply mirror_leaves. exact Hmir.
Qed.
