(* The UTF-8 encoder produces well-formed single characters: complete sweep of
   all 1114112 code points (about a minute; kept in its own file so that nothing
   else is rebuilt with it). *)
From Coq Require Import NArith List Bool Lia.
From LC Require Import Base.Lib Model.Utf8Dfa Proofs.Utf8DfaProofs.
Import ListNotations.
Open Scope N_scope.

(* every Unicode scalar value encodes to one well-formed character of 1..4 bytes:
   complete sweep of the 1114112 code points *)
Definition chk_enc (c : N) : bool :=
  if scalar_ok c then
    let e := utf8_enc_char c in
    is_U0 (urun U0 e) && (utf8_nchars e =? 1) && bytes_ok e && (1 <=? len_N e) && (len_N e <=? 4)
  else true.

Lemma chk_enc_all : forall_below 1114112 chk_enc = true.
Proof. vm_cast_no_check (eq_refl true). Qed.

Lemma enc_char_spec c : scalar_ok c = true ->
  urun U0 (utf8_enc_char c) = U0 /\ utf8_nchars (utf8_enc_char c) = 1 /\ bytes_ok (utf8_enc_char c) = true.
Proof.
  intros Hs.
  assert (Hc : c < 1114112).
  { unfold scalar_ok in Hs. apply orb_true_iff in Hs as [H|H].
    - apply N.ltb_lt in H. lia.
    - apply andb_true_iff in H as [_ H]. now apply N.ltb_lt in H. }
  pose proof (forall_below_true _ _ chk_enc_all c Hc) as H.
  unfold chk_enc in H. rewrite Hs in H.
  repeat (apply andb_true_iff in H as [H ?]).
  repeat split.
  - destruct (urun U0 (utf8_enc_char c)); try discriminate H. reflexivity.
  - now apply N.eqb_eq.
  - assumption.
Qed.

Lemma enc_ok cs : forallb scalar_ok cs = true ->
  utf8_ok (utf8_enc cs) = true /\ utf8_nchars (utf8_enc cs) = len_N cs /\ bytes_ok (utf8_enc cs) = true.
Proof.
  induction cs as [|c cs IH]; intros H; [repeat split; reflexivity|].
  cbn [forallb] in H. apply andb_true_iff in H as [Hc Hcs].
  destruct (enc_char_spec c Hc) as (H1 & H2 & H3). destruct (IH Hcs) as (I1 & I2 & I3).
  unfold utf8_enc in *. cbn [flat_map]. repeat split.
  - rewrite utf8_ok_app; [exact I1|]. unfold utf8_ok. now rewrite H1.
  - rewrite utf8_nchars_app, H2, I2. unfold len_N. cbn [length]. lia.
  - unfold bytes_ok in *. rewrite forallb_app, H3, I3. reflexivity.
Qed.
