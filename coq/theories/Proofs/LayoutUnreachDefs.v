(* C14: the known-unreachable readings of the syllable-state layouts are genuinely
   unreachable.  Definitions: the set of states reachable under the editor's
   protocol (computed by a search over ALL operations: key_press and
   fuzzy_key_press with every key class, remove_last, clear) and the checker that
   this set is closed and never hands a syllable that would enter the reading. *)
From Coq Require Import NArith List Bool FMapPositive.
From LC Require Import Base.Lib Gen.Readings_gen Model.Syllable Model.Keyboard Model.LayoutBase
  Model.LayoutHsu Model.LayoutEt26 Model.Layout Model.LayoutSearch
  Proofs.LayoutDefs Proofs.LayoutCompleteDefs.
Import ListNotations.
Open Scope N_scope.

Definition next_states (L s : N) : list N :=
  flat_map (fun op => match editor_step L (syl_state s) op with
                      | Ok (st', _) => [ls_syl st']
                      | _ => []
                      end) sweep_ops.

Definition reach_add (acc : list N * PM.t unit) (s : N) : list N * PM.t unit :=
  let '(nw, v) := acc in
  if PM.mem (pkey s) v then acc else (s :: nw, PM.add (pkey s) tt v).

Fixpoint reach (fuel : nat) (L : N) (frontier : list N) (vis : PM.t unit) : PM.t unit :=
  match fuel with
  | O => vis
  | S f =>
    match frontier with
    | [] => vis
    | s :: rest =>
        let '(nw, vis') := fold_left reach_add (next_states L s) ([], vis) in
        reach f L (nw ++ rest) vis'
    end
  end.

Definition reach_set (L : N) : PM.t unit :=
  reach (N.to_nat 8000) L [EMPTY_PATTERN] (PM.add (pkey EMPTY_PATTERN) tt (PM.empty unit)).

(* the syllables whose arrival in the editor would enter reading r: r itself and the
   dictionary readings whose alt_syllables contain r *)
Definition bad_syls (L r : N) : list N := r :: alt_sources L r.
Definition bad_all (L : N) : list N := flat_map (bad_syls L) (known_unreachable L).

Definition closed_op (L : N) (set : PM.t unit) (bad : list N) (s : N) (op : lop) : bool :=
  match editor_step L (syl_state s) op with
  | Ok (st', o) =>
      PM.mem (pkey (ls_syl st')) set &&
      match o with Some h => negb (memN h bad) | None => true end
  | _ => false
  end.

Definition closed_with (L : N) (set : PM.t unit) (bad : list N) : bool :=
  PM.mem (pkey EMPTY_PATTERN) set &&
  forallb (fun e => forallb (closed_op L set bad (Pos.pred_N (fst e))) sweep_ops) (PM.elements set).

Definition closed_b (L : N) : bool := closed_with L (reach_set L) (bad_all L).
