(* C14 soundness of the three Pinyin variants: the table sweeps.  The state holds a key string of
   arbitrary content, so the proof factors key_press through its table lookups:
   whatever the string is, a lookup yields an entry of the generated table (or
   nothing), and the finishing function is swept over all
   (variant, initial entry option, final entry option, tone option) combinations;
   builder.insert(..).unwrap() is shown unreachable the same way. *)
From Coq Require Import NArith List Bool Lia.
From LC Require Import Base.Lib Gen.Bopomofo_gen Gen.Keyboard_gen Gen.Layout_gen
  Model.Syllable Model.SyllableSearch Model.Keyboard Model.LayoutBase Model.LayoutPinyin Model.Layout
  Proofs.SyllableProofs Proofs.LayoutDefs.
Import ListNotations.
Open Scope N_scope.

Definition variants : list N := [V_HANYU; V_THL; V_MPS2].
Definition tone_opts : list (option N) := None :: map (fun e => Some (snd e)) pinyin_tone_table.
Definition ini_opts : list (option N) := None :: map (fun e => Some (snd e)) pinyin_initial_mapping.
Definition fin_opts : list (option (option N * option N)) :=
  None :: map (fun e => Some (snd e)) pinyin_final_mapping.

Lemma assoc_opts {A} k (t : list (N * A)) : In (assoc k t) (None :: map (fun e => Some (snd e)) t).
Proof.
  induction t as [|[k' a] t IH]; cbn [assoc map].
  - left. reflexivity.
  - destruct (k =? k').
    + right. left. reflexivity.
    + destruct IH as [IH|IH]; [left; exact IH | right; right; exact IH].
Qed.

Lemma find_opts {A B} (p : A * B -> bool) (t : list (A * B)) :
  In (option_map snd (find p t)) (None :: map (fun e => Some (snd e)) t).
Proof.
  destruct (find p t) as [e|] eqn:E; cbn [option_map].
  - right. apply find_some in E as [Hin _]. apply in_map_iff. exists e. auto.
  - left. reflexivity.
Qed.

(* ---- sweep 1: committing an entry of the ambiguous-mapping tables ---- *)
Definition chk_commit_entry (e : list N * (N * N)) (t : option N) : bool :=
  match pinyin_commit_entry e t with
  | Ok (st', Commit) =>
      wf_syl_b (ls_syl st') && wf_syl_b (ls_alt st') && match ls_keys st' with [] => true | _ => false end
  | _ => false
  end.

Definition chk_commit_all : bool :=
  forallb (fun v => forallb (fun e => forallb (chk_commit_entry e) tone_opts)
                            (pinyin_variant_mapping v ++ pinyin_common_mapping)) variants.

Lemma commit_entry_sweep : chk_commit_all = true.
Proof. vm_cast_no_check (eq_refl true). Qed.

Lemma commit_entry_ok v e t :
  In v variants -> In e (pinyin_variant_mapping v ++ pinyin_common_mapping) -> In t tone_opts ->
  exists st', pinyin_commit_entry e t = Ok (st', Commit) /\ wf_state st'.
Proof.
  intros Hv He Ht. pose proof commit_entry_sweep as H. unfold chk_commit_all in H.
  rewrite forallb_forall in H. specialize (H v Hv).
  rewrite forallb_forall in H. specialize (H e He).
  rewrite forallb_forall in H. specialize (H t Ht).
  unfold chk_commit_entry in H.
  destruct (pinyin_commit_entry e t) as [[st' b]| | |]; try discriminate.
  destruct b; try discriminate.
  apply andb_true_iff in H as [H _]. apply andb_true_iff in H as [H1 H2].
  exists st'. split; [reflexivity|]. split; now apply wf_syl_b_sound.
Qed.

(* ---- sweep 2: the finishing function over the whole table product ---- *)
Definition chk_finish_all : bool :=
  forallb (fun v => forallb (fun i => forallb (fun f => forallb (fun t =>
    match pinyin_finish v i f t with Ok s => wf_syl_b s | _ => false end)
    tone_opts) fin_opts) ini_opts) variants.

Lemma finish_sweep : chk_finish_all = true.
Proof. vm_cast_no_check (eq_refl true). Qed.

Lemma finish_ok v i f t :
  In v variants -> In i ini_opts -> In f fin_opts -> In t tone_opts ->
  exists s, pinyin_finish v i f t = Ok s /\ wf_syl s.
Proof.
  intros Hv Hi Hf Ht. pose proof finish_sweep as H. unfold chk_finish_all in H.
  rewrite forallb_forall in H. specialize (H v Hv).
  rewrite forallb_forall in H. specialize (H i Hi).
  rewrite forallb_forall in H. specialize (H f Hf).
  rewrite forallb_forall in H. specialize (H t Ht).
  destruct (pinyin_finish v i f t) as [s| | |]; try discriminate.
  exists s. split; [reflexivity | now apply wf_syl_b_sound].
Qed.

