(* C09, the history-level statements: a removed phrase stays absent until it is added or
   updated again and is then visible again - on the specification map, and carried over
   to TrieBuf (every history) and SQLite (histories outside the known finding) by the
   refinement lemmas. *)
From Coq Require Import NArith List Bool Lia Permutation.
From LC Require Import Base.Lib Model.Dict Model.TrieBuf Model.Layered Model.SqliteDict
  Proofs.DictProofs Proofs.TrieProofs Proofs.TrieBufProofs Proofs.LayeredProofs Proofs.SqliteProofs.
Import ListNotations.
Open Scope N_scope.

(* o adds or updates entry x *)
Definition writes (x : pkey) (o : op) : bool :=
  match o with
  | OAdd k ph => pkey_eqb (k, ph_text ph) x
  | OUpdate k p _ _ _ => pkey_eqb (k, p) x
  | _ => false
  end.
(* o updates or removes entry x *)
Definition rewrites (x : pkey) (o : op) : bool :=
  match o with
  | OUpdate k p _ _ _ => pkey_eqb (k, p) x
  | ORemove k p => pkey_eqb (k, p) x
  | _ => false
  end.
Definition none_of (f : op -> bool) (ops : list op) : Prop := forallb (fun o => negb (f o)) ops = true.

Lemma spec_run_app s a b : spec_run s (a ++ b) = spec_run (spec_run s a) b.
Proof. apply fold_left_app. Qed.
Lemma sq_spec_run_app s a b : sq_spec_run s (a ++ b) = sq_spec_run (sq_spec_run s a) b.
Proof. apply fold_left_app. Qed.

Lemma pkey_eqb_false_sym x y : pkey_eqb x y = false -> pkey_eqb y x = false.
Proof. now rewrite pkey_eqb_sym. Qed.

Lemma spec_absent_stays x s ops :
  s_find x s = None -> none_of (writes x) ops -> s_find x (spec_run s ops) = None.
Proof.
  unfold none_of, spec_run. revert s. induction ops as [|o ops IH]; intros s Hs Hn; cbn [fold_left forallb] in *; [assumption|].
  apply andb_true_iff in Hn as [Ho Hn]. apply negb_true_iff in Ho. apply IH; [|assumption].
  destruct o; cbn [spec_step writes] in *; try assumption.
  - destruct (s_find (k, ph_text ph) s); [assumption|]. rewrite s_find_set, (pkey_eqb_false_sym _ _ Ho). assumption.
  - rewrite s_find_set, (pkey_eqb_false_sym _ _ Ho). assumption.
  - rewrite s_find_unset. destruct (pkey_eqb x (k, p)); [reflexivity | assumption].
Qed.

Lemma spec_present_stays x v s ops :
  s_find x s = Some v -> none_of (rewrites x) ops -> s_find x (spec_run s ops) = Some v.
Proof.
  unfold none_of, spec_run. revert s. induction ops as [|o ops IH]; intros s Hs Hn; cbn [fold_left forallb] in *; [assumption|].
  apply andb_true_iff in Hn as [Ho Hn]. apply negb_true_iff in Ho. apply IH; [|assumption].
  destruct o; cbn [spec_step rewrites] in *; try assumption.
  - destruct (s_find (k, ph_text ph) s) eqn:E; [assumption|]. rewrite s_find_set.
    destruct (pkey_eqb x (k, ph_text ph)) eqn:E2; [|assumption]. apply pkey_eqb_eq in E2. subst. congruence.
  - rewrite s_find_set, (pkey_eqb_false_sym _ _ Ho). assumption.
  - rewrite s_find_unset, (pkey_eqb_false_sym _ _ Ho). assumption.
Qed.

(* ---- on the map ---- *)
Lemma spec_removed_absent s ops1 k p ops2 :
  none_of (writes (k, p)) ops2 -> s_find (k, p) (spec_run s (ops1 ++ ORemove k p :: ops2)) = None.
Proof.
  intro H. rewrite spec_run_app. change (ORemove k p :: ops2) with ([ORemove k p] ++ ops2). rewrite spec_run_app.
  apply spec_absent_stays; [|assumption]. unfold spec_run. cbn [fold_left spec_step].
  rewrite s_find_unset. now rewrite pkey_eqb_refl.
Qed.

Lemma spec_updated_visible s ops1 k p f uf t ops2 :
  none_of (rewrites (k, p)) ops2 ->
  s_find (k, p) (spec_run s (ops1 ++ OUpdate k p f uf t :: ops2)) = Some (uf, Some t).
Proof.
  intro H. rewrite spec_run_app. change (OUpdate k p f uf t :: ops2) with ([OUpdate k p f uf t] ++ ops2). rewrite spec_run_app.
  apply spec_present_stays; [|assumption]. unfold spec_run. cbn [fold_left spec_step].
  rewrite s_find_set. now rewrite pkey_eqb_refl.
Qed.

Lemma spec_added_visible s ops1 k ph ops2 :
  s_find (k, ph_text ph) (spec_run s ops1) = None -> none_of (rewrites (k, ph_text ph)) ops2 ->
  s_find (k, ph_text ph) (spec_run s (ops1 ++ OAdd k ph :: ops2)) = Some (ph_freq ph, Some (opt_default (ph_time ph))).
Proof.
  intros Ha H. rewrite spec_run_app. change (OAdd k ph :: ops2) with ([OAdd k ph] ++ ops2). rewrite spec_run_app.
  apply spec_present_stays; [|assumption]. unfold spec_run at 1. cbn [fold_left spec_step].
  rewrite Ha, s_find_set. now rewrite pkey_eqb_refl.
Qed.

(* ---- TrieBuf ---- *)
Section TrieBufHistories.
  Variables (tb0 : triebuf) (s0 : spec).
  Hypothesis Hstart : refines tb0 s0.

  Definition after (ops : list op) : triebuf := fst (tb_run fixed tb0 ops).

  Lemma after_refines ops : refines (after ops) (spec_run s0 ops).
  Proof. now apply refines_run. Qed.

  Lemma tb_lookup_spec ops k :
    NoDup (texts (tb_lookup fixed (after ops) k USIZE_MAX Standard)) /\
    forall ph, In ph (tb_lookup fixed (after ops) k USIZE_MAX Standard) <->
               s_find (k, ph_text ph) (spec_run s0 ops) = Some (ph_freq ph, ph_time ph).
  Proof.
    split; [apply (lookup_NoDup _ _ (after_refines ops)) | intro ph; apply (lookup_exact _ _ (after_refines ops))].
  Qed.

  (* phrase-set-only form *)
  Lemma tb_lookup_set ops k p :
    In p (texts (tb_lookup fixed (after ops) k USIZE_MAX Standard)) <-> s_find (k, p) (spec_run s0 ops) <> None.
  Proof.
    destruct (tb_lookup_spec ops k) as [_ Hx]. split.
    - intro Hin. apply in_map_iff in Hin as [ph [<- Hin]]. apply Hx in Hin. congruence.
    - intro Hn. destruct (s_find (k, p) (spec_run s0 ops)) as [[f t]|] eqn:E; [|congruence].
      apply in_map_iff. exists (mkPhrase p f t). split; [reflexivity|]. apply Hx. exact E.
  Qed.

  Lemma tb_removed_absent ops1 k p ops2 :
    none_of (writes (k, p)) ops2 ->
    ~ In p (texts (tb_lookup fixed (after (ops1 ++ ORemove k p :: ops2)) k USIZE_MAX Standard)) /\
    ~ In (k, p) (map pk (tb_entries fixed (after (ops1 ++ ORemove k p :: ops2)))).
  Proof.
    intro H. pose proof (spec_removed_absent s0 ops1 k p ops2 H) as Hs.
    set (ops := ops1 ++ ORemove k p :: ops2) in *. split.
    - intro Hin. apply in_map_iff in Hin as [ph [Hp Hin]].
      apply (lookup_exact _ _ (after_refines ops)) in Hin. rewrite Hp in Hin. congruence.
    - intro Hin. apply in_map_iff in Hin as [e [He Hin]].
      apply (Permutation_in _ (entries_perm _ _ (after_refines ops))) in Hin.
      apply s_entries_In in Hin; [|apply (after_refines ops)]. rewrite He in Hin. congruence.
  Qed.

  Lemma tb_updated_visible ops1 k p f uf t ops2 :
    none_of (rewrites (k, p)) ops2 ->
    In (mkPhrase p uf (Some t)) (tb_lookup fixed (after (ops1 ++ OUpdate k p f uf t :: ops2)) k USIZE_MAX Standard) /\
    In (k, mkPhrase p uf (Some t)) (tb_entries fixed (after (ops1 ++ OUpdate k p f uf t :: ops2))).
  Proof.
    intro H. pose proof (spec_updated_visible s0 ops1 k p f uf t ops2 H) as Hs.
    set (ops := ops1 ++ OUpdate k p f uf t :: ops2) in *. split.
    - apply (lookup_exact _ _ (after_refines ops)). exact Hs.
    - apply (Permutation_in _ (Permutation_sym (entries_perm _ _ (after_refines ops)))).
      apply s_entries_In; [apply (after_refines ops) | exact Hs].
  Qed.

  Lemma tb_added_visible ops1 k ph ops2 :
    ~ In (ph_text ph) (texts (tb_lookup fixed (after ops1) k USIZE_MAX Standard)) ->
    none_of (rewrites (k, ph_text ph)) ops2 ->
    In (mkPhrase (ph_text ph) (ph_freq ph) (Some (opt_default (ph_time ph))))
       (tb_lookup fixed (after (ops1 ++ OAdd k ph :: ops2)) k USIZE_MAX Standard).
  Proof.
    intros Ha H.
    assert (Hn : s_find (k, ph_text ph) (spec_run s0 ops1) = None).
    { destruct (s_find (k, ph_text ph) (spec_run s0 ops1)) as [[f t]|] eqn:E; [|reflexivity].
      exfalso. apply Ha. apply in_map_iff. exists (mkPhrase (ph_text ph) f t). split; [reflexivity|].
      apply (lookup_exact _ _ (after_refines ops1)). exact E. }
    apply (lookup_exact _ _ (after_refines _)). cbn [ph_text ph_freq ph_time].
    now apply spec_added_visible.
  Qed.
End TrieBufHistories.

(* ---- SQLite ---- *)
Definition sq_rewrites (x : pkey) (o : op) : bool :=
  match o with
  | OAdd k ph => pkey_eqb (k, ph_text ph) x
  | OUpdate k p _ _ _ => pkey_eqb (k, p) x
  | ORemove k p => pkey_eqb (k, p) x
  | _ => false
  end.

Lemma sq_spec_absent_stays x s ops :
  s_find x s = None -> none_of (writes x) ops -> s_find x (sq_spec_run s ops) = None.
Proof.
  unfold none_of, sq_spec_run. revert s. induction ops as [|o ops IH]; intros s Hs Hn; cbn [fold_left forallb] in *; [assumption|].
  apply andb_true_iff in Hn as [Ho Hn]. apply negb_true_iff in Ho. apply IH; [|assumption].
  destruct o; cbn [sq_spec_step writes] in *; try assumption.
  - rewrite s_find_set, (pkey_eqb_false_sym _ _ Ho). assumption.
  - rewrite s_find_set, (pkey_eqb_false_sym _ _ Ho). assumption.
  - rewrite s_find_unset. destruct (pkey_eqb x (k, p)); [reflexivity | assumption].
Qed.

Lemma sq_spec_present_stays x v s ops :
  s_find x s = Some v -> none_of (sq_rewrites x) ops -> s_find x (sq_spec_run s ops) = Some v.
Proof.
  unfold none_of, sq_spec_run. revert s. induction ops as [|o ops IH]; intros s Hs Hn; cbn [fold_left forallb] in *; [assumption|].
  apply andb_true_iff in Hn as [Ho Hn]. apply negb_true_iff in Ho. apply IH; [|assumption].
  destruct o; cbn [sq_spec_step sq_rewrites] in *; try assumption.
  - rewrite s_find_set, (pkey_eqb_false_sym _ _ Ho). assumption.
  - rewrite s_find_set, (pkey_eqb_false_sym _ _ Ho). assumption.
  - rewrite s_find_unset, (pkey_eqb_false_sym _ _ Ho). assumption.
Qed.

Section SqliteHistories.
  Variables (ops : list op).
  Hypothesis Hok : sq_hist_ok [] ops.

  Definition sq_after : sqdb := fst (sq_run sq_empty ops).

  Lemma sq_after_refines : sq_refines sq_after (sq_spec_run [] ops).
  Proof. apply sq_refines_run; [apply sq_refines_empty | assumption]. Qed.

  Lemma sq_lookup_spec k :
    NoDup (texts (sq_lookup sq_after k USIZE_MAX)) /\
    forall p g, (exists tm, In (mkPhrase p g tm) (sq_lookup sq_after k USIZE_MAX)) <->
                (exists tm, s_find (k, p) (sq_spec_run [] ops) = Some (g, tm)).
  Proof.
    split; [apply sq_lookup_NoDup, sq_after_refines | intros p g; apply sq_lookup_exact, sq_after_refines].
  Qed.

  Lemma sq_entries_spec :
    NoDup (map pk (sq_entries sq_after)) /\
    forall k p g, (exists tm, In (k, mkPhrase p g tm) (sq_entries sq_after)) <->
                  (exists tm, s_find (k, p) (sq_spec_run [] ops) = Some (g, tm)).
  Proof.
    split; [apply sq_entries_NoDup, sq_after_refines | intros k p g; apply sq_entries_exact, sq_after_refines].
  Qed.
End SqliteHistories.

Lemma sq_removed_absent ops1 k p ops2 :
  sq_hist_ok [] (ops1 ++ ORemove k p :: ops2) -> none_of (writes (k, p)) ops2 ->
  ~ In p (texts (sq_lookup (sq_after (ops1 ++ ORemove k p :: ops2)) k USIZE_MAX)).
Proof.
  intros Hok H Hin. apply in_map_iff in Hin as [[p' g tm] [Hp Hin]]. cbn [ph_text] in Hp. subst p'.
  assert (Hex : exists tm, In (mkPhrase p g tm) (sq_lookup (sq_after (ops1 ++ ORemove k p :: ops2)) k USIZE_MAX)) by eauto.
  apply (sq_lookup_spec _ Hok) in Hex as [tm' Hs].
  rewrite sq_spec_run_app in Hs. change (ORemove k p :: ops2) with ([ORemove k p] ++ ops2) in Hs.
  rewrite sq_spec_run_app in Hs. rewrite sq_spec_absent_stays in Hs; [discriminate| |assumption].
  unfold sq_spec_run. cbn [fold_left sq_spec_step]. rewrite s_find_unset. now rewrite pkey_eqb_refl.
Qed.

Lemma sq_updated_visible ops1 k p f uf t ops2 :
  sq_hist_ok [] (ops1 ++ OUpdate k p f uf t :: ops2) -> none_of (sq_rewrites (k, p)) ops2 ->
  exists tm, In (mkPhrase p uf tm) (sq_lookup (sq_after (ops1 ++ OUpdate k p f uf t :: ops2)) k USIZE_MAX).
Proof.
  intros Hok H. apply (sq_lookup_spec _ Hok). exists (Some t).
  rewrite sq_spec_run_app. change (OUpdate k p f uf t :: ops2) with ([OUpdate k p f uf t] ++ ops2).
  rewrite sq_spec_run_app. apply sq_spec_present_stays; [|assumption].
  unfold sq_spec_run at 1. cbn [fold_left sq_spec_step]. rewrite s_find_set. now rewrite pkey_eqb_refl.
Qed.

Lemma sq_added_visible ops1 k ph ops2 :
  sq_hist_ok [] (ops1 ++ OAdd k ph :: ops2) -> none_of (sq_rewrites (k, ph_text ph)) ops2 ->
  exists tm, In (mkPhrase (ph_text ph) (ph_freq ph) tm) (sq_lookup (sq_after (ops1 ++ OAdd k ph :: ops2)) k USIZE_MAX).
Proof.
  intros Hok H. apply (sq_lookup_spec _ Hok). exists None.
  rewrite sq_spec_run_app. change (OAdd k ph :: ops2) with ([OAdd k ph] ++ ops2).
  rewrite sq_spec_run_app. apply sq_spec_present_stays; [|assumption].
  unfold sq_spec_run at 1. cbn [fold_left sq_spec_step]. rewrite s_find_set. now rewrite pkey_eqb_refl.
Qed.

(* ---- the layered stack along a history: union of the system leaves and the user map ---- *)
Lemma ly_lookup_stack d0 s0 ops k :
  Forall trie_wf (ly_sys d0) -> refines (ly_user d0) s0 ->
  let d := fst (ly_run fixed d0 ops) in
  let s := spec_run s0 (filter forwarded ops) in
  NoDup (texts (ly_lookup fixed d k USIZE_MAX Standard)) /\
  (forall p, In p (texts (ly_lookup fixed d k USIZE_MAX Standard)) <->
             (exists t, In t (ly_sys d0) /\ In p (texts (trie_leaf t k))) \/ s_find (k, p) s <> None) /\
  (forall x, In x (ly_lookup fixed d k USIZE_MAX Standard) ->
             (forall t q, In t (ly_sys d0) -> In q (trie_leaf t k) -> ph_text q = ph_text x -> ph_freq q <= ph_freq x) /\
             (forall f tm, s_find (k, ph_text x) s = Some (f, tm) -> f <= ph_freq x)).
Proof.
  intros Hw Href d s. destruct (ly_run_user d0 ops) as [Hu Hs]. fold d in Hu, Hs.
  assert (Hr : refines (ly_user d) s) by (rewrite Hu; now apply refines_run).
  assert (Hw' : Forall trie_wf (ly_sys d)) by now rewrite Hs.
  unfold ly_lookup. rewrite (ly_results_std d k Hw'), Hs. split; [apply merge_NoDup|]. split.
  - intro p. rewrite merge_union. split.
    + intros [l [Hl Hp]]. apply in_app_iff in Hl as [Hl|[<-|[]]].
      * left. apply in_map_iff in Hl as [t [<- Ht]]. eauto.
      * right. apply in_map_iff in Hp as [ph [<- Hph]]. apply (lookup_exact _ _ Hr) in Hph. congruence.
    + intros [[t [Ht Hp]]|Hp].
      * exists (trie_leaf t k). split; [|assumption]. apply in_app_iff. left. apply in_map_iff. exists t. auto.
      * exists (tb_lookup fixed (ly_user d) k USIZE_MAX Standard). split; [apply in_app_iff; right; now left|].
        destruct (s_find (k, p) s) as [[f tm]|] eqn:E; [|congruence].
        apply in_map_iff. exists (mkPhrase p f tm). split; [reflexivity|]. apply (lookup_exact _ _ Hr). exact E.
  - intros x Hx. apply merge_max in Hx as [_ Hmax]. split.
    + intros t q Ht Hq Hp. apply (Hmax (trie_leaf t k) q); auto. apply in_app_iff. left. apply in_map_iff. exists t. auto.
    + intros f tm Hf. apply (Hmax (tb_lookup fixed (ly_user d) k USIZE_MAX Standard) (mkPhrase (ph_text x) f tm)); auto.
      * apply in_app_iff. right. now left.
      * apply (lookup_exact _ _ Hr). exact Hf.
Qed.
