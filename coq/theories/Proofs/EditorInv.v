(* The editor invariant (C05, basis of C01/C02/C04/C06): the composition editor
   stays well-formed - cursor within [0, len], |gaps| = |symbols|, selections
   non-empty, in range and pairwise disjoint - across EVERY key event and public
   operation, for every layout, dictionary and conversion oracle. *)
From Coq Require Import NArith List Bool Arith Lia.
From LC Require Import Base.Lib Gen.Editor_gen Model.Composition Model.Conversion Model.Editor Model.EditorRun
     Proofs.CompositionProofs Proofs.Paging Proofs.BreakPoints.
Import ListNotations.
Open Scope nat_scope.

Section Inv.
Context {D SY : Type} (dops : dict_ops D) (sops : syl_ops SY) (conv : conv_fn D).

(* dictionaries reachable by the editor never hold an entry for the empty syllable
   sequence (part of the properties' "well-formed dictionary") *)
Variable dict_ok : D -> Prop.
Hypothesis ok_lookup : forall d f, dict_ok d -> do_lookup dops d f [] = [].
Hypothesis ok_add : forall d k t f, dict_ok d -> length t <= length k -> (f <= 100)%N -> dict_ok (fst (do_add dops d k t f)).
Hypothesis ok_update : forall d k t f u tm, dict_ok d -> length t = length k -> k <> [] -> (u <= MAX_USER_FREQ)%N -> dict_ok (do_update dops d k t f u tm).
Hypothesis ok_remove : forall d k t, dict_ok d -> dict_ok (do_remove dops d k t).

Notation shared' := (shared D SY).
Notation editor' := (editor D SY).

(* the layout's alternative syllables do not depend on the keys typed so far *)
Hypothesis alt_stable : forall x c, so_alt sops (so_clear sops x) c = so_alt sops x c.

(* a phrase selector's range is non-empty and inside the composition it was made from *)
(* everything but "non-empty and inside the buffer": the range covers syllables only, the position the
   list was opened at is a syllable of the buffer, and the range hangs on that position the way the
   direction of choice says (forward: starts there; rearward: ends right after it and does not reach back
   past the previous break point) *)
Record ps_pre (p : phrase_sel) : Prop := {
  pp_syl : syl_range (ps_com p) (ps_begin p) (ps_end p);
  pp_orig : ps_orig p < clen (ps_com p) /\ syl_at (ps_com p) (ps_orig p);
  pp_dir : if ps_fwd p then ps_begin p = ps_orig p
           else ps_end p = S (ps_orig p) /\ apbp (ps_com p) (ps_orig p) <= ps_begin p
}.
Record ps_ok (p : phrase_sel) : Prop := {
  po_lt : ps_begin p < ps_end p;
  po_le : ps_end p <= clen (ps_com p);
  po_pre : ps_pre p
}.

(* the current page lies inside the candidate list (first page when the list is empty) *)
Definition page_ok (s : shared') (pg : nat) (sel : selector) : Prop :=
  1 <= o_per_page (opts s) -> forall c, candidates dops sops s sel = Ok c -> pg = 0 \/ pg * o_per_page (opts s) < length c.

(* the symbol tables (symbols.dat) are loaded once and never change: ss0 is what the editor was created with;
   they are well-formed: a category without a table has a name, a table index lies inside the tables *)
Variable ss0 : symbol_sel.
Definition ss_good (y : symbol_sel) : Prop :=
  (forall name, In (name, None) (ss_category y) -> name <> []) /\
  (forall name idx, In (name, Some idx) (ss_category y) -> idx mod 256 < length (ss_table y)).
Hypothesis ss0_good : ss_good ss0.
Hypothesis ss0_fresh : ss_cursor ss0 = None.
(* a symbol selector in use: the loaded tables, with a cursor inside them *)
Definition ss_from (y : symbol_sel) : Prop :=
  ss_category y = ss_category ss0 /\ ss_table y = ss_table ss0 /\ (forall c, ss_cursor y = Some c -> c < length (ss_table ss0)).

(* ... and that composition is the editor's current one: the buffer does not change while a list is open *)
Definition sel_inv (s : shared') (sel : selector) : Prop :=
  match sel with
  | SelPhrase p => ps_ok p /\ ps_com p = inner (com s)
  | SelSymbol y => ss_from y
  | SelSpecial sym => is_char sym = true
  end.
(* a list that REPLACES the symbol at the cursor (opened on a symbol) has a symbol at the cursor *)
Definition char_at_cursor (e : comp_editor) : Prop := exists ch, nth_error (symbols (inner e)) (cursor e) = Some (SymChar ch).
Definition act_ok (s : shared') (act : bool) (sel : selector) : Prop :=
  match sel with SelPhrase _ => True | _ => act = false -> char_at_cursor (com s) end.
Lemma char_at_cursor_lt e : char_at_cursor e -> cursor e < ce_len e.
Proof. intros (ch & H). unfold ce_len, clen. apply nth_error_Some. congruence. Qed.
Definition pg_ok (s : shared') (pg : nat) (act : bool) (sel : selector) : Prop := page_ok s pg sel /\ act_ok s act sel.
Definition state_inv (s : shared') (st : estate) : Prop :=
  match st with Selecting pg act sel => sel_inv s sel /\ pg_ok s pg act sel | _ => True end.

(* the page size is at least 1 (the C API accepts 1..10; Editor::set_editor_options is only given such values: op_ok) *)
Record SInv (s : shared') : Prop := { si_com : wf_ce (com s); si_dict : dict_ok (dict s); si_sym : sym_sel s = ss0;
                                      si_per : 1 <= o_per_page (opts s) }.
Record Inv (e : editor') : Prop := { inv_sh : SInv (sh e); inv_st : state_inv (sh e) (st e) }.

(* what the candidate list and its paging read of the shared state *)
Definition same_view (a b : shared') : Prop :=
  dict a = dict b /\ syl a = syl b /\ o_per_page (opts a) = o_per_page (opts b) /\ inner (com a) = inner (com b) /\
  cursor (com a) = cursor (com b).

Lemma candidates_view a b sel : dict a = dict b -> syl a = syl b -> candidates dops sops a sel = candidates dops sops b sel.
Proof. intros Hd Hs. destruct sel; unfold candidates; rewrite ?Hd, ?Hs; reflexivity. Qed.

Lemma page_ok_view a b pg sel : same_view a b -> page_ok a pg sel -> page_ok b pg sel.
Proof.
  intros (Hd & Hs & Hp & _) H Hper c Hc. rewrite <- Hp in *. rewrite <- (candidates_view a b sel Hd Hs) in Hc. now apply H.
Qed.

Lemma sel_inv_view a b sel : inner (com a) = inner (com b) -> sel_inv a sel -> sel_inv b sel.
Proof. intros Hc. destruct sel; cbn; [|trivial|trivial]. intros (Hok & Hcom). split; [assumption | congruence]. Qed.

Lemma act_ok_view a b act sel : inner (com a) = inner (com b) -> cursor (com a) = cursor (com b) -> act_ok a act sel -> act_ok b act sel.
Proof. intros Hi Hc. unfold act_ok, char_at_cursor. rewrite Hi, Hc. trivial. Qed.

Lemma state_inv_view a b st : same_view a b -> state_inv a st -> state_inv b st.
Proof.
  intros V. destruct st; cbn; trivial. intros (Hs & Hp & Ha).
  split; [eapply sel_inv_view; [apply V | exact Hs] | split; [eapply page_ok_view; eassumption | eapply act_ok_view; [apply V | apply V | exact Ha]]].
Qed.

Lemma page_ok_zero s sel : page_ok s 0 sel.
Proof. intros _ c _. now left. Qed.

Lemma pg_ok_zero_phrase s act p : pg_ok s 0 act (SelPhrase p).
Proof. split; [apply page_ok_zero | exact Logic.I]. Qed.

Lemma div_ceil_ok a b n : div_ceil a b = Ok n -> 0 < b /\ n = pages_of a b.
Proof.
  unfold div_ceil. destruct (Nat.eqb b 0) eqn:E; [discriminate|]. apply Nat.eqb_neq in E.
  intros H. inversion H. split; [lia | reflexivity].
Qed.

(* ---- outcome plumbing ---- *)
Lemma obind_ok {A B} (r : outcome A) (f : A -> outcome B) b :
  obind r f = Ok b -> exists a, r = Ok a /\ f a = Ok b.
Proof. destruct r; cbn; intros H; try discriminate. eauto. Qed.

Ltac inv_ok H := inversion H; subst; clear H.
Ltac frame := split; [first [assumption | constructor; assumption] | repeat split; first [reflexivity | assumption | congruence]].
Ltac bind_ok H x Hx := apply obind_ok in H; destruct H as (x & Hx & H).

Lemma with_com_ok (s : shared') r s' : with_com s r = Ok s' -> exists c, r = Ok c /\ s' = set_com s c.
Proof. unfold with_com. intros H. bind_ok H c Hc. inv_ok H. eauto. Qed.

(* ---- helpers preserve SInv ---- *)
Lemma SInv_set_com s c : SInv s -> wf_ce c -> SInv (set_com s c).
Proof. intros [Hc Hd Sy Pp] W. constructor; assumption. Qed.

Lemma commit_or_insert_inv s ch s' t : SInv s -> commit_or_insert s ch = Ok (s', t) -> SInv s'.
Proof.
  intros I H. unfold commit_or_insert in H. destruct (ce_is_empty (com s)).
  - inv_ok H. destruct I; constructor; assumption.
  - bind_ok H s1 H1. inv_ok H. apply with_com_ok in H1 as (c & Hc & ->).
    apply SInv_set_com; [assumption|]. destruct I as [W _ _ _]. now destruct (ce_insert_spec _ _ _ W Hc).
Qed.

Lemma insert_chars_wf l : forall c c', wf_ce c -> insert_chars c l = Ok c' -> wf_ce c'.
Proof.
  induction l as [|ch l IH]; intros c c' W H; cbn [insert_chars] in H.
  - now inv_ok H.
  - bind_ok H c1 H1. destruct (ce_insert_spec _ _ _ W H1) as (W1 & _). eapply IH; eassumption.
Qed.

Lemma estimate_ok a b c u : estimate a b c = Ok u -> True.
Proof. trivial. Qed.

Lemma learn_phrase_inv s k t s' b : SInv s -> learn_phrase dops s k t = Ok (s', b) ->
  SInv s' /\ com s' = com s /\ opts s' = opts s /\ syl s' = syl s /\ nth s' = nth s /\ commit_buf s' = commit_buf s /\
  notice s' = notice s /\ last s' = last s /\ lifetime s' = lifetime s /\ engine s' = engine s /\
  abbr s' = abbr s /\ sym_sel s' = sym_sel s.
Proof.
  intros [W Hd Sy Pp] H. unfold learn_phrase in H.
  destruct (negb (Nat.eqb (length k) (length t))) eqn:El.
  - inv_ok H. frame.
  - apply negb_false_iff, Nat.eqb_eq in El.
    destruct (do_lookup dops (dict s) false k) eqn:Elk.
    + destruct (do_add dops (dict s) k t 1%N) as [d' ok] eqn:Ea.
      assert (Hd' : dict_ok d').
      { change d' with (fst (d', ok)). rewrite <- Ea. apply ok_add; [assumption | lia | lia]. }
      inv_ok H. cbn. split; [|repeat split; reflexivity]. constructor; cbn; assumption.
    + bind_ok H uf Hu. inv_ok H. cbn. split; [|repeat split; reflexivity]. constructor; cbn; [assumption| |assumption|assumption].
      apply ok_update; [assumption | lia | |].
      * intros ->. rewrite (ok_lookup _ _ Hd) in Elk. discriminate.
      * unfold estimate in Hu. repeat match type of Hu with context[if ?c then _ else _] => destruct c; try discriminate end;
          inv_ok Hu; apply N.le_min_r.
Qed.

Lemma auto_learn_go_inv syms ivs : forall s pending psyl s',
  SInv s -> auto_learn_go dops s syms ivs pending psyl = Ok s' ->
  SInv s' /\ com s' = com s /\ opts s' = opts s /\ syl s' = syl s /\ nth s' = nth s /\ commit_buf s' = commit_buf s /\
  notice s' = notice s /\ last s' = last s /\ lifetime s' = lifetime s /\ engine s' = engine s /\
  abbr s' = abbr s /\ sym_sel s' = sym_sel s.
Proof.
  induction ivs as [|iv rest IH]; intros s pending psyl s' I H; cbn [auto_learn_go] in H.
  - destruct pending.
    + inv_ok H. frame.
    + bind_ok H r Hr. inv_ok H. destruct r as [s1 b]. cbn [fst]. eapply learn_phrase_inv; eassumption.
  - destruct (Nat.ltb (ie iv) (ib iv)); [discriminate|].
    destruct (Nat.ltb (length syms) (ie iv)); [discriminate|].
    destruct (iphrase iv && Nat.eqb (iv_len iv) 1 && negb (is_break_word (itext iv))).
    + eapply IH; eassumption.
    + bind_ok H s1 H1. bind_ok H s2 H2.
      assert (K1 : SInv s1 /\ com s1 = com s /\ opts s1 = opts s /\ syl s1 = syl s /\ nth s1 = nth s /\ commit_buf s1 = commit_buf s /\
                   notice s1 = notice s /\ last s1 = last s /\ lifetime s1 = lifetime s /\ engine s1 = engine s /\
                   abbr s1 = abbr s /\ sym_sel s1 = sym_sel s).
      { destruct pending.
        - inv_ok H1. frame.
        - bind_ok H1 r Hr. inv_ok H1. destruct r as [sx b]. cbn [fst]. eapply learn_phrase_inv; eassumption. }
      destruct K1 as (I1 & E1).
      assert (K2 : SInv s2 /\ com s2 = com s1 /\ opts s2 = opts s1 /\ syl s2 = syl s1 /\ nth s2 = nth s1 /\ commit_buf s2 = commit_buf s1 /\
                   notice s2 = notice s1 /\ last s2 = last s1 /\ lifetime s2 = lifetime s1 /\ engine s2 = engine s1 /\
                   abbr s2 = abbr s1 /\ sym_sel s2 = sym_sel s1).
      { destruct (iphrase iv).
        - bind_ok H2 r Hr. inv_ok H2. destruct r as [sx b]. cbn [fst]. eapply learn_phrase_inv; eassumption.
        - inv_ok H2. frame. }
      destruct K2 as (I2 & E2).
      destruct (IH _ _ _ _ I2 H) as (I3 & E3).
      split; [exact I3|].
      destruct E1 as (?&?&?&?&?&?&?&?&?&?&?), E2 as (?&?&?&?&?&?&?&?&?&?&?), E3 as (?&?&?&?&?&?&?&?&?&?&?).
      repeat split; congruence.
Qed.

Lemma commit_inv s s' : SInv s -> commit dops conv s = Ok s' ->
  SInv s' /\ commit_buf s' = display conv s /\ ce_len (com s') = 0 /\ last s' = BCommit /\ nth s' = 0 /\
  opts s' = opts s /\ syl s' = syl s.
Proof.
  intros I H. unfold commit in H. bind_ok H s1 H1. inv_ok H.
  assert (K : SInv s1 /\ com s1 = com s /\ opts s1 = opts s /\ syl s1 = syl s).
  { destruct (o_no_learn (opts s)).
    - inv_ok H1. auto.
    - unfold auto_learn in H1. destruct (auto_learn_go_inv _ _ _ _ _ _ I H1) as (I1 & E1 & E2 & E3 & _). auto. }
  destruct K as (I1 & Ec & Eo & Es). cbn.
  split; [|split; [reflexivity | split; [reflexivity | split; [reflexivity | split; [reflexivity | split; assumption]]]]].
  destruct I1 as [W1 D1 Sy1 Pp1]. constructor; cbn; [apply ce_clear_all_wf | assumption | assumption | assumption].
Qed.

Lemma try_auto_commit_inv s s' : SInv s -> try_auto_commit conv s = Ok s' -> SInv s'.
Proof.
  intros I H. unfold try_auto_commit in H.
  destruct (Nat.leb (ce_len (com s)) (o_threshold (opts s))); [now inv_ok H|].
  bind_ok H r Hr. destruct r as [buf remove]. bind_ok H c Hc. inv_ok H.
  destruct I as [W Dk Sy Pp]. constructor; cbn; [|assumption|assumption|assumption].
  now destruct (ce_remove_front_spec _ _ _ W Hc).
Qed.

Lemma syl_prefix_all l : existsb is_char l = false -> length (syl_prefix l) = length l.
Proof.
  induction l as [|x l IH]; cbn [existsb syl_prefix length]; [reflexivity|].
  destruct x as [c|c]; cbn [is_char is_syllable negb orb]; [|discriminate].
  intros H. cbn [length]. now rewrite IH.
Qed.

Lemma slice_length {A} (l : list A) a b : b <= length l -> length (slice l a b) = b - a.
Proof. intros H. unfold slice. rewrite firstn_length, skipn_length. lia. Qed.

Lemma learn_in_range_inv s a b s' ok : SInv s -> learn_in_range dops conv s a b = Ok (s', ok) ->
  SInv s' /\ com s' = com s /\ opts s' = opts s /\ syl s' = syl s /\ nth s' = nth s.
Proof.
  intros [W Dk Sy Pp] H. unfold learn_in_range in H.
  destruct (Nat.ltb (ce_len (com s)) b) eqn:Eb; [inv_ok H; cbn; frame|]. apply Nat.ltb_ge in Eb.
  destruct (Nat.ltb b a) eqn:Eab; [discriminate|]. apply Nat.ltb_ge in Eab.
  destruct (existsb is_char _) eqn:Ech; [inv_ok H; cbn; frame|].
  match type of H with context[if ?c then _ else _] => destruct c end; [inv_ok H; cbn; frame|].
  destruct (do_add dops (dict s) _ _ 100%N) as [d' okk] eqn:Ea.
  assert (Hd' : dict_ok d').
  { change d' with (fst (d', okk)). rewrite <- Ea. apply ok_add; [assumption| |lia].
    rewrite (syl_prefix_all _ Ech), slice_length, firstn_length; [lia | exact Eb]. }
  destruct okk; inv_ok H; cbn; (split; [constructor; cbn; assumption | repeat split; reflexivity]).
Qed.

(* ---- phrase selector ranges are non-empty ---- *)
Lemma has_phrase_nonempty d f (l : list symbol) :
  dict_ok d -> has_phrase dops d f (syl_prefix l) = true -> l <> [].
Proof.
  intros Hd H ->. cbn [syl_prefix] in H. unfold has_phrase in H. now rewrite (ok_lookup _ _ Hd) in H.
Qed.

Lemma slice_nil_iff {A} (l : list A) b e : e <= b -> slice l b e = [].
Proof. intros H. unfold slice. replace (e - b) with 0 by lia. reflexivity. Qed.

Lemma range_has_lt d f c b e : dict_ok d ->
  has_phrase dops d f (syl_prefix (slice (symbols c) b e)) = true -> b < e.
Proof.
  intros Hd H. destruct (Nat.lt_ge_cases b e) as [Hlt|Hge]; [exact Hlt|].
  exfalso. apply (has_phrase_nonempty _ _ _ Hd H). now apply slice_nil_iff.
Qed.

Lemma ps_pre_range p b e : ps_pre p ->
  syl_range (ps_com p) b e ->
  (if ps_fwd p then b = ps_orig p else e = S (ps_orig p) /\ apbp (ps_com p) (ps_orig p) <= b) ->
  ps_pre (ps_with_range p b e).
Proof. intros [Sr O Dr] Hs Hd. constructor; cbn [ps_with_range ps_begin ps_end ps_com ps_orig ps_fwd]; assumption. Qed.

Lemma ps_shrink_inv d fuel : forall p p', dict_ok d -> ps_pre p -> ps_shrink dops d fuel p = Ok p' ->
  ps_ok p' /\ ps_com p' = ps_com p.
Proof.
  induction fuel as [|k IH]; intros p p' Hd Hp H; cbn [ps_shrink] in H; [discriminate|].
  destruct (Nat.ltb (ps_end p) (ps_begin p)) eqn:Elt; [discriminate|]. apply Nat.ltb_ge in Elt.
  destruct (Nat.ltb (clen (ps_com p)) (ps_end p)) eqn:Ele; [discriminate|]. apply Nat.ltb_ge in Ele.
  destruct (has_phrase dops d (ps_fuzzy p) _) eqn:Eh.
  - inv_ok H. split; [constructor; [eapply range_has_lt; eassumption | assumption | assumption] | reflexivity].
  - destruct (Nat.eqb (ps_end p - ps_begin p) 1 && _) eqn:E1.
    { apply andb_true_iff in E1 as (E1 & _). apply Nat.eqb_eq in E1. inv_ok H.
      split; [constructor; [lia | assumption | assumption] | reflexivity]. }
    destruct Hp as [Sr O Dr].
    destruct (ps_fwd p) eqn:Ef.
    + destruct (Nat.eqb (ps_end p) 0); [discriminate|].
      apply (IH _ _ Hd) in H; [exact H|].
      constructor; cbn [ps_begin ps_end ps_com ps_orig ps_fwd]; [eapply syl_range_sub; [exact Sr | lia | lia] | exact O | exact Dr].
    + apply (IH _ _ Hd) in H; [exact H|].
      constructor; cbn [ps_begin ps_end ps_com ps_orig ps_fwd]; [eapply syl_range_sub; [exact Sr | lia | lia] | exact O |].
      destruct Dr as (D1 & D2). split; [exact D1 | lia].
Qed.

Lemma ps_init_inv d p cur p' : dict_ok d -> cur < clen (ps_com p) -> syl_at (ps_com p) cur ->
  ps_init dops d p cur = Ok p' -> ps_ok p' /\ ps_com p' = ps_com p.
Proof.
  intros Hd Hc Hs H. unfold ps_init in H. destruct (ps_fwd p) eqn:Ef.
  - destruct (_ && _); [discriminate|].
    assert (Nat.eqb cur (clen (ps_com p)) = false) as E by (apply Nat.eqb_neq; lia). rewrite E in H.
    apply (ps_shrink_inv _ _ _ _ Hd) in H; [exact H|].
    destruct (nbp_props (ps_com p) cur ltac:(lia)) as (_ & Hr & _).
    constructor; cbn [ps_begin ps_end ps_com ps_orig ps_fwd]; [exact Hr | split; assumption | reflexivity].
  - apply (ps_shrink_inv _ _ _ _ Hd) in H; [exact H|].
    destruct (apbp_props (ps_com p) cur ltac:(lia)) as (Ha & Hr).
    assert (Em : Nat.min (S cur) (clen (ps_com p)) = S cur) by lia.
    constructor; cbn [ps_begin ps_end ps_com ps_orig ps_fwd]; rewrite ?Em.
    + apply syl_range_snoc; assumption.
    + split; assumption.
    + split; [reflexivity | lia].
Qed.

Lemma ps_init_single_word_inv p cur p' :
  (0 < Nat.min cur (clen (ps_com p)) -> syl_at (ps_com p) (Nat.min cur (clen (ps_com p)) - 1)) ->
  ps_init_single_word p cur = Ok p' -> ps_ok p' /\ ps_com p' = ps_com p.
Proof.
  unfold ps_init_single_word. intros Hs. set (e := Nat.min cur (clen (ps_com p))) in *.
  destruct (Nat.eqb e 0) eqn:E; [discriminate|]. apply Nat.eqb_neq in E. specialize (Hs ltac:(lia)).
  intros H. inv_ok H. split; [|reflexivity].
  assert (He : e <= clen (ps_com p)) by (subst e; lia).
  constructor; cbn [ps_begin ps_end ps_com ps_orig ps_fwd]; [lia | exact He |].
  constructor; cbn [ps_begin ps_end ps_com ps_orig ps_fwd].
  - intros k Hk. replace k with (e - 1) by lia. exact Hs.
  - split; [lia | exact Hs].
  - destruct (ps_fwd p); [reflexivity|]. split; [lia|]. now destruct (apbp_props (ps_com p) (e - 1) ltac:(lia)).
Qed.

Lemma ps_range_has_lt d p b e : dict_ok d -> ps_range_has dops d p b e = Ok true -> b < e /\ e <= clen (ps_com p).
Proof.
  intros Hd H. unfold ps_range_has in H.
  destruct (Nat.ltb e b); [discriminate|].
  destruct (Nat.ltb (clen (ps_com p)) e) eqn:Ele; [discriminate|]. apply Nat.ltb_ge in Ele.
  inv_ok H. split; [eapply range_has_lt; eassumption | assumption].
Qed.

(* a narrower range found from (b, e): forward choice keeps the begin, rearward choice the end *)
Lemma ps_next_point_inv d fuel : forall p b e b' e', dict_ok d ->
  ps_next_point dops d fuel p b e = Ok (Some (b', e')) ->
  b' < e' /\ e' <= clen (ps_com p) /\ b <= b' /\ e' <= e /\ (if ps_fwd p then b' = b else e' = e) /\ e' - b' < e - b.
Proof.
  induction fuel as [|k IH]; intros p b e b' e' Hd H; cbn [ps_next_point] in H; [discriminate|].
  destruct (ps_fwd p) eqn:Ef.
  - destruct (Nat.eqb e 0); [discriminate|]. destruct (Nat.eqb b (e - 1)); [discriminate|].
    destruct (ps_range_has dops d p b (e - 1)) as [[|]| | |] eqn:Er; try discriminate.
    + inv_ok H. destruct (ps_range_has_lt _ _ _ _ Hd Er). repeat split; lia.
    + destruct (IH _ _ _ _ _ Hd H) as (A & B & C & E & F & G). rewrite Ef in F. repeat split; lia.
  - destruct (Nat.eqb (S b) e); [discriminate|].
    destruct (ps_range_has dops d p (S b) e) as [[|]| | |] eqn:Er; try discriminate.
    + inv_ok H. destruct (ps_range_has_lt _ _ _ _ Hd Er). repeat split; lia.
    + destruct (IH _ _ _ _ _ Hd H) as (A & B & C & E & F & G). rewrite Ef in F. repeat split; lia.
Qed.

(* a wider range: forward choice grows the end up to the break point after the origin, rearward
   choice the begin back to the break point before it *)
Lemma ps_prev_point_inv d fuel : forall p b e b' e', dict_ok d ->
  ps_prev_point dops d fuel p b e = Ok (Some (b', e')) ->
  b' < e' /\ e' <= clen (ps_com p) /\
  (if ps_fwd p then b' = b /\ e' <= nbp (ps_com p) (ps_orig p) else e' = e /\ apbp (ps_com p) (ps_orig p) <= b').
Proof.
  induction fuel as [|k IH]; intros p b e b' e' Hd H; cbn [ps_prev_point] in H; [discriminate|].
  destruct (ps_fwd p) eqn:Ef.
  - destruct (Nat.eqb e (clen (ps_com p))); [discriminate|].
    destruct (Nat.ltb (nbp (ps_com p) (ps_orig p)) (S e)) eqn:En; [discriminate|]. apply Nat.ltb_ge in En.
    destruct (ps_range_has dops d p b (S e)) as [[|]| | |] eqn:Er; try discriminate.
    + inv_ok H. destruct (ps_range_has_lt _ _ _ _ Hd Er). repeat split; lia.
    + destruct (IH _ _ _ _ _ Hd H) as (A & B & F). rewrite Ef in F. repeat split; lia.
  - destruct (Nat.eqb b 0); [discriminate|].
    destruct (Nat.ltb (b - 1) (apbp (ps_com p) (ps_orig p))) eqn:En; [discriminate|]. apply Nat.ltb_ge in En.
    destruct (ps_range_has dops d p (b - 1) e) as [[|]| | |] eqn:Er; try discriminate.
    + inv_ok H. destruct (ps_range_has_lt _ _ _ _ Hd Er). repeat split; lia.
    + destruct (IH _ _ _ _ _ Hd H) as (A & B & F). rewrite Ef in F. repeat split; lia.
Qed.

Lemma ps_ok_narrower p b' e' : ps_ok p -> b' < e' -> ps_begin p <= b' -> e' <= ps_end p ->
  (if ps_fwd p then b' = ps_begin p else e' = ps_end p) -> ps_ok (ps_with_range p b' e').
Proof.
  intros [Hlt Hle [Sr O Dr]] H1 H2 H3 H4.
  constructor; cbn [ps_with_range ps_begin ps_end ps_com]; [lia | lia |].
  constructor; cbn [ps_with_range ps_begin ps_end ps_com ps_orig ps_fwd].
  - eapply syl_range_sub; [exact Sr | lia | lia].
  - exact O.
  - destruct (ps_fwd p); [lia | destruct Dr; split; lia].
Qed.

Lemma ps_ok_wider p b' e' : ps_ok p -> b' < e' -> e' <= clen (ps_com p) ->
  (if ps_fwd p then b' = ps_begin p /\ e' <= nbp (ps_com p) (ps_orig p)
   else e' = ps_end p /\ apbp (ps_com p) (ps_orig p) <= b') -> ps_ok (ps_with_range p b' e').
Proof.
  intros [Hlt Hle [Sr O Dr]] H1 H2 H4.
  constructor; cbn [ps_with_range ps_begin ps_end ps_com]; [lia | lia |].
  destruct O as (O1 & O2).
  constructor; cbn [ps_with_range ps_begin ps_end ps_com ps_orig ps_fwd].
  - destruct (ps_fwd p).
    + destruct H4 as (-> & H4). rewrite Dr. destruct (nbp_props (ps_com p) (ps_orig p) ltac:(lia)) as (_ & Hr & _).
      eapply syl_range_sub; [exact Hr | lia | lia].
    + destruct H4 as (-> & H4). destruct Dr as (-> & _).
      destruct (apbp_props (ps_com p) (ps_orig p) ltac:(lia)) as (_ & Hr).
      eapply syl_range_sub; [apply syl_range_snoc; [exact Hr | exact O2] | lia | lia].
  - split; assumption.
  - destruct (ps_fwd p); [destruct H4; congruence | destruct H4, Dr; split; [congruence | lia]].
Qed.

(* the range PhraseSelector::next tries after (begin, end) is again a proper range *)
Lemma ps_cycle_step_ok p : ps_ok p ->
  let c := ps_com p in
  let '(b, e) := if ps_fwd p
                 then (ps_begin p, if Nat.eqb (ps_begin p) (ps_end p - 1) then nbp c (ps_begin p) else ps_end p - 1)
                 else (if Nat.eqb (S (ps_begin p)) (ps_end p) then apbp c (S (ps_begin p) - 1) else S (ps_begin p), ps_end p) in
  ps_ok (ps_with_range p b e).
Proof.
  intros Hok. pose proof Hok as [Hlt Hle [Sr [O1 O2] Dr]]. cbv zeta.
  destruct (ps_fwd p) eqn:Ef.
  - destruct (Nat.eqb (ps_begin p) (ps_end p - 1)) eqn:E.
    + apply Nat.eqb_eq in E. rewrite Dr in *.
      destruct (nbp_props (ps_com p) (ps_orig p) ltac:(lia)) as ((N1 & N2) & _).
      pose proof (nbp_gt (ps_com p) (ps_orig p) O1 O2).
      apply ps_ok_wider; [exact Hok | lia | lia |]. rewrite Ef. split; [congruence | lia].
    + apply Nat.eqb_neq in E. apply ps_ok_narrower; [exact Hok | lia | lia | lia |]. now rewrite Ef.
  - destruct Dr as (D1 & D2).
    destruct (Nat.eqb (S (ps_begin p)) (ps_end p)) eqn:E.
    + apply Nat.eqb_eq in E. replace (S (ps_begin p) - 1) with (ps_orig p) by lia.
      destruct (apbp_props (ps_com p) (ps_orig p) ltac:(lia)) as (A1 & _).
      apply ps_ok_wider; [exact Hok | lia | lia |]. rewrite Ef. split; [reflexivity | lia].
    + apply Nat.eqb_neq in E. apply ps_ok_narrower; [exact Hok | lia | lia | lia |]. now rewrite Ef.
Qed.

Lemma ps_with_range_id p : ps_with_range p (ps_begin p) (ps_end p) = p.
Proof. destruct p; reflexivity. Qed.

Lemma ps_cycle_inv d fuel start : forall p p', dict_ok d -> ps_ok p ->
  ps_cycle dops d fuel start p = Ok p' -> ps_ok p' /\ ps_com p' = ps_com p.
Proof.
  induction fuel as [|k IH]; intros p p' Hd Hok H; cbn [ps_cycle] in H; [discriminate|].
  pose proof (ps_cycle_step_ok p Hok) as Hstep. cbv zeta in Hstep.
  destruct (ps_fwd p) eqn:Ef.
  - destruct (Nat.eqb (ps_end p) 0); [discriminate|]. cbn [obind] in H.
    set (e' := if Nat.eqb (ps_begin p) (ps_end p - 1) then nbp (ps_com p) (ps_begin p) else ps_end p - 1) in *.
    destruct (ps_range_has dops d p (ps_begin p) e') as [[|]| | |] eqn:Eh; try discriminate.
    + inv_ok H. split; [exact Hstep | reflexivity].
    + destruct (Nat.eqb (ps_begin p) (fst start) && Nat.eqb e' (snd start)); [inv_ok H; split; [exact Hstep | reflexivity]|].
      destruct (IH _ _ Hd Hstep H) as (A & B). split; [exact A | exact B].
  - cbn [obind] in H.
    set (b' := if Nat.eqb (S (ps_begin p)) (ps_end p) then apbp (ps_com p) (S (ps_begin p) - 1) else S (ps_begin p)) in *.
    destruct (ps_range_has dops d p b' (ps_end p)) as [[|]| | |] eqn:Eh; try discriminate.
    + inv_ok H. split; [exact Hstep | reflexivity].
    + destruct (Nat.eqb b' (fst start) && Nat.eqb (ps_end p) (snd start)); [inv_ok H; split; [exact Hstep | reflexivity]|].
      destruct (IH _ _ Hd Hstep H) as (A & B). split; [exact A | exact B].
Qed.

Lemma ps_jump_last_inv d fuel : forall p p', dict_ok d -> ps_ok p ->
  ps_jump_last dops d fuel p = Ok p' -> ps_ok p' /\ ps_com p' = ps_com p.
Proof.
  induction fuel as [|k IH]; intros p p' Hd Hp H; cbn [ps_jump_last] in H; [discriminate|].
  destruct (ps_next_selection_point dops d p) as [[[b e]|]| | |] eqn:En; try discriminate.
  - assert (Hq : ps_ok (ps_with_range p b e)).
    { unfold ps_next_selection_point in En. destruct (ps_next_point_inv _ _ _ _ _ _ _ Hd En) as (A & B & C & E & F & _).
      apply ps_ok_narrower; assumption. }
    destruct (IH _ _ Hd Hq H) as (Hok & Hc). split; [exact Hok | exact Hc].
  - inv_ok H. split; [assumption | reflexivity].
Qed.

(* ---- paging ---- *)
Lemma total_page_ok s sel tp : total_page dops sops s sel = Ok tp ->
  exists c, candidates dops sops s sel = Ok c /\ 0 < o_per_page (opts s) /\ tp = pages_of (length c) (o_per_page (opts s)).
Proof.
  unfold total_page. intros H. bind_ok H c Hc. apply div_ceil_ok in H as (Hp & ->). eauto.
Qed.

(* every page index below the page count is in range ... *)
Lemma total_page_lt s sel tp k : total_page dops sops s sel = Ok tp -> k < tp -> page_ok s k sel.
Proof.
  intros H Hk _ c Hc. apply total_page_ok in H as (c' & Hc' & Hp & ->). rewrite Hc in Hc'. inv_ok Hc'.
  right. now apply page_index_valid.
Qed.

(* ... and so is the last page (page 0 of an empty list) *)
Lemma total_page_last s sel tp : total_page dops sops s sel = Ok tp -> page_ok s (tp - 1) sel.
Proof.
  intros H. destruct tp as [|tp]; [apply page_ok_zero|]. eapply total_page_lt; [exact H | lia].
Qed.

Lemma page_ok_pred s pg sel : page_ok s pg sel -> page_ok s (pg - 1) sel.
Proof.
  intros H Hp c Hc. destruct (H Hp c Hc) as [->|Hlt]; [now left|]. right.
  assert ((pg - 1) * o_per_page (opts s) <= pg * o_per_page (opts s)) by (apply Nat.mul_le_mono_r; lia). lia.
Qed.

(* ---- entering the Selecting state ---- *)
(* the symbol the list is opened on (the one at the cursor, or the last one when the cursor is at the
   end) is the symbol at the clamped cursor *)
Lemma symbol_for_select_at_clamped_cursor e sym : ce_symbol_for_select e = Some sym ->
  cursor (ce_clamp_cursor (ce_push_cursor e)) < clen (inner e) /\
  nth_error (symbols (inner e)) (cursor (ce_clamp_cursor (ce_push_cursor e))) = Some sym.
Proof.
  unfold ce_symbol_for_select, ce_is_end, ce_clamp_cursor, ce_push_cursor, comp_symbol, ce_len. cbn [cursor inner cursor_stack].
  rewrite (Nat.eqb_sym (clen (inner e)) (cursor e)).
  destruct (Nat.eqb (cursor e) (clen (inner e))); cbn [cursor]; intros H;
    (split; [apply nth_error_Some; unfold clen in *; congruence | exact H]).
Qed.

Lemma new_phrase_selecting_inv s s' st' : SInv s ->
  (exists code, ce_symbol_for_select (com s) = Some (SymSyl code)) ->
  new_phrase_selecting dops s = Ok (s', st') ->
  SInv s' /\ state_inv s' st'.
Proof.
  intros [W Dk Sy Pp] (code & Hsym) H. unfold new_phrase_selecting in H. bind_ok H p Hp. inv_ok H. split.
  - constructor; cbn; [|assumption|assumption|assumption]. apply ce_clamp_cursor_wf, ce_push_cursor_wf, W.
  - destruct (symbol_for_select_at_clamped_cursor _ _ Hsym) as (Hlt & Hat).
    assert (Hin : inner (ce_clamp_cursor (ce_push_cursor (com s))) = inner (com s)).
    { unfold ce_clamp_cursor, ce_push_cursor. cbn [cursor inner cursor_stack ce_len]. destruct (Nat.eqb _ _); reflexivity. }
    unfold ps_new in Hp. rewrite Hin in Hp.
    apply ps_init_inv in Hp; [|exact Dk | exact Hlt | exists code; exact Hat].
    destruct Hp as (Hok & Hc). cbn [state_inv sel_inv]. split; [|apply pg_ok_zero_phrase].
    split; [exact Hok|]. rewrite Hc. cbn [ps_com com set_com]. now rewrite Hin.
Qed.

Lemma new_phrase_selecting_simple_inv s s' st' : SInv s ->
  (0 < cursor (com s) -> syl_at (inner (com s)) (cursor (com s) - 1)) ->
  new_phrase_selecting_simple s = Ok (s', st') ->
  SInv s' /\ state_inv s' st'.
Proof.
  intros [W Dk Sy Pp] Hsym H. unfold new_phrase_selecting_simple in H. bind_ok H p Hp. inv_ok H. split.
  - constructor; cbn; [|assumption|assumption|assumption]. apply ce_push_cursor_wf, W.
  - apply ps_init_single_word_inv in Hp.
    + destruct Hp as (Hok & Hc). cbn [state_inv sel_inv]. split; [|apply pg_ok_zero_phrase].
      split; [exact Hok|]. rewrite Hc. reflexivity.
    + cbn [ps_new ps_com ce_push_cursor cursor inner]. destruct W as [_ Wc]. unfold ce_len in Wc.
      rewrite Nat.min_l by exact Wc. exact Hsym.
Qed.

Lemma ss0_from : ss_from ss0.
Proof. split; [reflexivity | split; [reflexivity | intros c Hc; rewrite ss0_fresh in Hc; discriminate]]. Qed.

Lemma new_special_selecting_inv s sym s' st' : SInv s ->
  ce_symbol_for_select (com s) = Some sym -> is_syllable sym = false ->
  new_special_selecting s sym = Ok (s', st') ->
  SInv s' /\ state_inv s' st'.
Proof.
  intros [W Dk Sy Pp] Hsym Hch H. unfold new_special_selecting in H. bind_ok H m Hm.
  assert (K : wf_ce (ce_clamp_cursor (ce_push_cursor (com s)))) by (apply ce_clamp_cursor_wf, ce_push_cursor_wf, W).
  destruct (symbol_for_select_at_clamped_cursor _ _ Hsym) as (Hlt & Hat).
  assert (Hlen : char_at_cursor (ce_clamp_cursor (ce_push_cursor (com s)))).
  { destruct sym as [code|ch]; [discriminate|]. exists ch.
    replace (inner (ce_clamp_cursor (ce_push_cursor (com s)))) with (inner (com s)); [exact Hat|].
    unfold ce_clamp_cursor, ce_push_cursor. cbn [cursor inner cursor_stack ce_len]. destruct (Nat.eqb _ _); reflexivity. }
  destruct m; inv_ok H; (split; [constructor; cbn; assumption|]); cbn [state_inv sel_inv].
  - split; [rewrite Sy; apply ss0_from | split; [apply page_ok_zero | intros _; exact Hlen]].
  - split; [unfold is_char; now rewrite Hch | split; [apply page_ok_zero | intros _; exact Hlen]].
Qed.

Definition trans_inv (s : shared') (t : transition) : Prop := match t with ToState st => state_inv s st | Spin _ => True end.

(* goals that are True up to unfolding, or the first page of the symbol-table list (Insert action) *)
Ltac triv_t :=
  cbn [trans_inv state_inv sel_inv new_symbol_selecting];
  first [exact Logic.I
        | match goal with
          | I : SInv _ |- _ =>
            let Sy := fresh "Sy" in
            destruct I as [_ _ Sy _];
            cbn [sym_sel set_com set_syl set_dict set_opts set_last set_nth set_commit set_notice set_lifetime set_engine] in *;
            split; [rewrite ?Sy; apply ss0_from | split; [apply page_ok_zero | intros Hf; discriminate Hf]]
          end].

Lemma start_selecting_common_inv s f s' t : SInv s ->
  (forall s0, SInv s0 -> SInv (fst (f s0)) /\ trans_inv (fst (f s0)) (snd (f s0))) ->
  start_selecting_common dops s f = Ok (s', t) -> SInv s' /\ trans_inv s' t.
Proof.
  intros I Hf H. unfold start_selecting_common in H.
  destruct (ce_symbol_for_select (com s)) as [sym|] eqn:Esym.
  - destruct (is_syllable sym) eqn:Eis; bind_ok H r Hr; destruct r as [s1 st1]; inv_ok H; cbn [fst snd trans_inv].
    + eapply new_phrase_selecting_inv; [exact I | | exact Hr]. destruct sym as [code|ch]; [eauto | discriminate].
    + eapply new_special_selecting_inv; eassumption.
  - specialize (Hf s I). destruct (f s) as [a b]. inv_ok H. exact Hf.
Qed.

(* ---- the four states ---- *)
Ltac sinv :=
  match goal with
  | I : SInv _ |- SInv _ =>
    solve [
      let W := fresh "W" in let Dk := fresh "Dk" in
      destruct I as [W Dk Sy Pp]; constructor;
      unfold switch_language, switch_form, cancel_selecting;
      cbn [com dict opts sym_sel set_com set_syl set_dict set_opts set_last set_nth set_commit set_notice set_lifetime set_engine
           set_english set_fullwidth o_per_page];
      auto using ce_left_wf, ce_right_wf, ce_to_end_wf, ce_to_begin_wf, ce_clear_keep_stack_wf, ce_clear_all_wf, ce_pop_cursor_wf,
                 ce_move_cursor_wf, ce_clamp_cursor_wf, ce_push_cursor_wf ]
  end.

Ltac split_if H :=
  match type of H with
  | context[if ?c then _ else _] => let E := fresh "E" in destruct c eqn:E
  end.

Lemma with_com_inv s r s' : SInv s -> (forall c, r = Ok c -> wf_ce c) -> with_com s r = Ok s' -> SInv s'.
Proof.
  intros I Hr H. apply with_com_ok in H as (c & Hc & ->). apply SInv_set_com; auto.
Qed.

Lemma entering_default_inv s ev s' t : SInv s -> entering_default sops s ev = Ok (s', t) -> SInv s' /\ trans_inv s' t.
Proof.
  intros I H. unfold entering_default in H.
  assert (CI : forall s0 ch s1 t1, SInv s0 -> commit_or_insert s0 ch = Ok (s1, t1) -> SInv s1 /\ trans_inv s1 t1).
  { intros s0 ch s1 t1 I0 H0. split; [eapply commit_or_insert_inv; eassumption|].
    unfold commit_or_insert in H0. destruct (ce_is_empty (com s0)); [inv_ok H0; triv_t|].
    bind_ok H0 x Hx. inv_ok H0. triv_t. }
  assert (INS : forall s0 x s1, SInv s0 -> with_com s0 (ce_insert (com s0) x) = Ok s1 -> SInv s1).
  { intros s0 x s1 I0 H0. eapply with_com_inv; [exact I0| |exact H0].
    intros c Hc. destruct I0 as [W0 _ _ _]. now destruct (ce_insert_spec _ _ _ W0 Hc). }
  destruct (negb (o_english (opts s))).
  - destruct (N.eqb (kcode ev) kc_Grave && mods_none ev); [inv_ok H; split; [assumption | triv_t]|].
    destruct (N.eqb (kcode ev) kc_Space).
    { destruct (negb (o_fullwidth (opts s))); [eapply CI; eassumption|].
      destruct (full_width_symbol_input (kunicode ev)); [eapply CI; eassumption | discriminate]. }
    destruct (o_easy_symbol (opts s)).
    { destruct (assoc (kunicode ev) (abbr s)).
      - bind_ok H c Hc. inv_ok H. split; [|triv_t].
        apply SInv_set_com; [assumption|]. destruct I as [W _ _ _]. eapply insert_chars_wf; eassumption.
      - destruct (special_symbol_input (kunicode ev)).
        + bind_ok H s1 H1. inv_ok H. split; [eapply INS; eassumption | triv_t].
        + destruct (mods_none ev).
          * destruct (so_key_press sops (syl s) ev) as [sy kb].
            destruct kb; inv_ok H; (split; [sinv | triv_t]).
          * inv_ok H. split; [assumption | triv_t]. }
    set (pressed := if mods_none ev then Some (so_key_press sops (syl s) ev) else None) in *.
    destruct pressed as [[sy kb]|].
    + assert (I0 : SInv (set_syl s sy)) by sinv.
      destruct kb; try (inv_ok H; split; [assumption | triv_t]);
      (destruct (special_symbol_input (kunicode ev));
       [bind_ok H s1 H1; inv_ok H; split; [eapply INS; eassumption | triv_t]|];
       destruct (is_printable ev); [|inv_ok H; split; [assumption | triv_t]];
       destruct (negb (o_fullwidth (opts s))); [eapply CI; eassumption|];
       destruct (full_width_symbol_input (kunicode ev)); [eapply CI; eassumption | discriminate]).
    + destruct (special_symbol_input (kunicode ev));
       [bind_ok H s1 H1; inv_ok H; split; [eapply INS; eassumption | triv_t]|].
      destruct (is_printable ev); [|inv_ok H; split; [assumption | triv_t]].
      destruct (negb (o_fullwidth (opts s))); [eapply CI; eassumption|].
      destruct (full_width_symbol_input (kunicode ev)); [eapply CI; eassumption | discriminate].
  - destruct (negb (o_fullwidth (opts s))); [eapply CI; eassumption|].
    destruct (full_width_symbol_input (kunicode ev)); [eapply CI; eassumption | inv_ok H; split; [assumption | triv_t]].
Qed.

Ltac done_spin H := inv_ok H; split; [first [assumption | sinv] | triv_t].

Lemma entering_next_inv s ev s' t : SInv s -> entering_next dops sops conv s ev = Ok (s', t) -> SInv s' /\ trans_inv s' t.
Proof.
  intros I H. unfold entering_next in H.
  assert (WC : forall (f : comp_editor -> outcome comp_editor) s1,
             (forall c c', wf_ce c -> f c = Ok c' -> wf_ce c') ->
             with_com s (f (com s)) = Ok s1 -> SInv s1).
  { intros f s1 Hf H0. eapply with_com_inv; [exact I| |exact H0]. intros c Hc. destruct I as [W _ _ _]. eapply Hf; eassumption. }
  assert (LR : forall a b r, learn_in_range dops conv s a b = Ok r -> SInv (fst r)).
  { intros a b [s1 ok] Hr. cbn. now destruct (learn_in_range_inv _ _ _ _ _ I Hr). }
  split_if H.
  { split_if H; [done_spin H|]. bind_ok H s1 H1. inv_ok H. split; [|triv_t].
    eapply WC; [|exact H1]. intros c c' W Hc. now destruct (ce_remove_before_spec _ _ W Hc). }
  split_if H; [done_spin H|].
  split_if H.
  { split_if H; [done_spin H|].
    split_if H.
    - bind_ok H r Hr. inv_ok H. split; [eapply LR; eassumption | triv_t].
    - split_if H.
      + bind_ok H r Hr. inv_ok H. split; [eapply LR; eassumption | triv_t].
      + done_spin H. }
  split_if H; [done_spin H|].
  split_if H.
  { split_if H; [done_spin H|].
    split_if H; bind_ok H s1 H1; inv_ok H; (split; [|triv_t]); (eapply WC; [|exact H1]); intros c c' W Hc.
    - now destruct (ce_set_gap_wf c ce_insert_glue c' (or_introl eq_refl) W Hc).
    - now destruct (ce_set_gap_wf c ce_insert_break c' (or_intror eq_refl) W Hc). }
  split_if H.
  { split_if H; [done_spin H|]. bind_ok H s1 H1. inv_ok H. split; [|triv_t].
    eapply WC; [|exact H1]. intros c c' W Hc. now destruct (ce_remove_after_spec _ _ W Hc). }
  split_if H; [done_spin H|].
  split_if H; [split_if H; done_spin H|].
  split_if H; [split_if H; done_spin H|].
  split_if H; [done_spin H|].
  split_if H; [done_spin H|].
  split_if H; [done_spin H|].
  split_if H; [done_spin H|].
  split_if H.
  { eapply start_selecting_common_inv; [exact I| |exact H].
    intros s0 I0. cbv beta. destruct (ce_is_empty (com s0)); cbn [fst snd trans_inv]; (split; [first [assumption | sinv] | triv_t]). }
  split_if H.
  { eapply start_selecting_common_inv; [exact I| |exact H].
    intros s0 I0. cbv beta. cbn [fst snd trans_inv]. split; [assumption | triv_t]. }
  split_if H; [done_spin H|].
  split_if H.
  { bind_ok H s1 H1. inv_ok H. split; [|triv_t]. now destruct (commit_inv _ _ I H1). }
  split_if H; [split_if H; done_spin H|].
  split_if H.
  { split; [eapply commit_or_insert_inv; eassumption|].
    unfold commit_or_insert in H. destruct (ce_is_empty (com s)); [inv_ok H; triv_t|]. bind_ok H x Hx. inv_ok H. triv_t. }
  eapply entering_default_inv; eassumption.
Qed.

Lemma entering_syllable_next_inv s ev s' t : SInv s ->
  entering_syllable_next dops sops s ev = Ok (s', t) -> SInv s' /\ trans_inv s' t.
Proof.
  intros I H. unfold entering_syllable_next in H.
  split_if H; [split_if H; done_spin H|].
  split_if H; [done_spin H|].
  split_if H; [split_if H; done_spin H|].
  destruct (if o_fuzzy (opts s) then so_fuzzy_key_press sops (syl s) ev else so_key_press sops (syl s) ev) as [sy kb].
  assert (I1 : SInv (set_syl s sy)) by sinv.
  assert (INS : forall s0 x s1, SInv s0 -> with_com s0 (ce_insert (com s0) x) = Ok s1 -> SInv s1).
  { intros s0 x s1 I0 H0. eapply with_com_inv; [exact I0| |exact H0].
    intros c Hc. destruct I0 as [W0 _ _ _]. now destruct (ce_insert_spec _ _ _ W0 Hc). }
  destruct kb; try done_spin H.
  - (* Commit *)
    split_if H; [|done_spin H].
    bind_ok H s2 H2. pose proof (INS _ _ _ I1 H2) as I2.
    destruct (o_engine (opts (set_syl s2 (so_clear sops (syl s2))))).
    + bind_ok H r Hr. destruct r as [s3 st3]. inv_ok H. cbn [fst snd trans_inv].
      eapply new_phrase_selecting_simple_inv; [| |exact Hr]; [sinv|].
      (* the syllable just inserted sits right before the cursor *)
      cbn [com set_syl]. apply with_com_ok in H2 as (c2 & Hc2 & ->). cbn [com set_com].
      destruct I1 as [W1 _ _ _]. destruct (ce_insert_spec _ _ _ W1 Hc2) as (_ & Hsy & Hcur & _).
      intros _. rewrite Hcur. replace (S (cursor (com (set_syl s sy))) - 1) with (cursor (com (set_syl s sy))) by lia.
      eexists. unfold syl_at. rewrite Hsy. apply nth_error_insert_at_eq. destruct W1 as [_ Wc]. exact Wc.
    + done_spin H.
    + done_spin H.
  - (* Fuzzy *)
    split_if H; [|done_spin H].
    bind_ok H s2 H2. inv_ok H. split; [eapply INS; eassumption | triv_t].
Qed.

Lemma ce_insert_or_replace_wf (b : bool) c sym c' : wf_ce c -> (b = false -> char_at_cursor c) ->
  (if b then ce_insert c sym else ce_replace c sym) = Ok c' -> wf_ce c'.
Proof.
  intros W Hb H. destruct b; [now destruct (ce_insert_spec _ _ _ W H) | now destruct (ce_replace_spec _ _ _ W (Hb eq_refl) H)].
Qed.

(* what a step inside the Selecting state guarantees: the shared state stays well-formed, a new
   state is a good one, and when the editor stays in the list the (possibly new) selector and
   page are good for the new shared state *)
Definition stay_inv (s' : shared') (t : transition) (pg' : nat) (act : bool) (sel' : selector) : Prop :=
  match t with Spin _ => sel_inv s' sel' /\ pg_ok s' pg' act sel' | ToState _ => True end.

Lemma ss_select_from y n y' r : ss_from y -> ss_select y n = Ok (y', r) -> ss_from y'.
Proof.
  intros (Hc & Ht & Hcur) H. unfold ss_select in H. destruct (ss_cursor y) as [c|] eqn:Ec.
  - destruct (Nat.leb _ c); [discriminate|]. inv_ok H. repeat split; try assumption; try (intros c0 H0; discriminate).
  - destruct (nth_error (ss_category y) n) as [[name [idx|]]|] eqn:En.
    + inv_ok H. repeat split; try assumption. cbn [ss_cursor]. intros c0 H0. inv_ok H0.
      destruct ss0_good as (_ & G2). rewrite <- Ht. rewrite Hc in En. apply nth_error_In in En.
      specialize (G2 _ _ En). now rewrite Ht.
    + destruct name; [discriminate|]. inv_ok H. repeat split; try assumption; try (intros c0 H0; discriminate).
    + inv_ok H. repeat split; try assumption. intros c0 H0. rewrite Ec in H0. discriminate.
Qed.

Lemma selecting_select_offset_inv s pg act sel n s' t pg' sel' : SInv s -> sel_inv s sel -> pg_ok s pg act sel ->
  selecting_select_offset dops sops s pg act sel n = Ok (s', t, pg', sel') ->
  SInv s' /\ trans_inv s' t /\ stay_inv s' t pg' act sel'.
Proof.
  intros I Hsel (Hpg & Hact) H. unfold selecting_select_offset in H. destruct sel as [p|y|sym0].
  - bind_ok H cands Hc. destruct (nth_error cands _) as [text|].
    + bind_ok H c1 H1. inv_ok H. split; [|split; exact Logic.I].
      destruct I as [W Dk Sy Pp]. destruct Hsel as ([Hlt Hle Hsel0] & Hcom).
      assert (Hsyl : forall k, ps_begin p <= k < ps_end p -> syl_sym (inner (com s)) k).
      { intros k Hk. rewrite <- Hcom. destruct Hsel0 as [Hs0 _ _]. exact (Hs0 k Hk). }
      destruct (ce_select_spec _ (mkIv (ps_begin p) (ps_end p) true text) _ W Hlt Hsyl H1) as (W1 & _).
      constructor; cbn; [|assumption|assumption|assumption].
      destruct (o_auto_shift (opts s)); [apply ce_right_wf|]; apply ce_pop_cursor_wf; assumption.
    + inv_ok H. split; [assumption | split; [exact Logic.I | split; [assumption | split; assumption]]].
  - destruct (Nat.leb _ _); [inv_ok H; split; [assumption | split; [exact Logic.I | split; [assumption | split; assumption]]]|].
    bind_ok H r Hr. destruct r as [y' res]. pose proof (ss_select_from _ _ _ _ Hsel Hr) as Hy'. destruct res as [sym|].
    + bind_ok H c1 H1. inv_ok H. split; [|split; exact Logic.I].
      destruct I as [W Dk Sy Pp]. constructor; cbn; [|assumption|assumption|assumption].
      apply ce_pop_cursor_wf. eapply ce_insert_or_replace_wf; [exact W | exact Hact | eassumption].
    + inv_ok H. split; [assumption | split; [exact Logic.I | split; [exact Hy' | split; [apply page_ok_zero | exact Hact]]]].
  - bind_ok H m Hm. destruct (Nat.leb _ _); [inv_ok H; split; [assumption | split; [exact Logic.I | split; [assumption | split; assumption]]]|].
    bind_ok H res Hr. destruct res as [sym|].
    + bind_ok H c1 H1. inv_ok H. split; [|split; exact Logic.I].
      destruct I as [W Dk Sy Pp]. constructor; cbn; [|assumption|assumption|assumption].
      apply ce_pop_cursor_wf. eapply ce_insert_or_replace_wf; [exact W | exact Hact | eassumption].
    + inv_ok H. split; [assumption | split; [exact Logic.I | split; [exact Hsel | split; [apply page_ok_zero | exact Hact]]]].
Qed.

Lemma selecting_select_inv s pg act sel n s' t pg' sel' : SInv s -> sel_inv s sel -> pg_ok s pg act sel ->
  selecting_select dops sops s pg act sel n = Ok (s', t, pg', sel') ->
  SInv s' /\ trans_inv s' t /\ stay_inv s' t pg' act sel'.
Proof. unfold selecting_select. apply selecting_select_offset_inv. Qed.

(* the selector J / K open at the (moved) cursor: a phrase list or a special-symbol list on the symbol there *)
Lemma reselect_at_cursor_inv s sel act : SInv s -> reselect_at_cursor dops s = Ok sel -> sel_inv s sel /\ act_ok s act sel.
Proof.
  intros [W Dk Sy Pp] H. unfold reselect_at_cursor in H. destruct (ce_symbol (com s)) as [sym|] eqn:Esym; [|discriminate].
  assert (Hcur : cursor (com s) < ce_len (com s)).
  { unfold ce_symbol, comp_symbol in Esym. apply nth_error_Some. unfold ce_len, clen. congruence. }
  destruct (is_syllable sym) eqn:Eis.
  - bind_ok H p Hp. inv_ok H. cbn.
    unfold ce_symbol, comp_symbol in Esym. destruct sym as [code|ch]; [|discriminate].
    apply ps_init_inv in Hp; [|exact Dk | exact Hcur | exists code; exact Esym].
    destruct Hp as (Hok & Hc). split; [split; [exact Hok | now rewrite Hc] | exact Logic.I].
  - inv_ok H. cbn. split; [unfold is_char; now rewrite Eis|]. intros _. destruct sym as [code|ch]; [discriminate|]. exists ch. exact Esym.
Qed.

(* stay in the list with the same shared state, selector and (given) page *)
Ltac fin_stay := split; [first [assumption | sinv] | split; [exact Logic.I | split; [assumption | split; first [assumption | apply page_ok_zero]]]].
(* leave the list *)
Ltac fin_leave := split; [first [assumption | sinv] | split; exact Logic.I].

Lemma selecting_next_inv s ev pg act sel s' t pg' sel' : SInv s -> sel_inv s sel -> pg_ok s pg act sel ->
  selecting_next dops sops s ev pg act sel = Ok (s', t, pg', sel') ->
  SInv s' /\ trans_inv s' t /\ stay_inv s' t pg' act sel'.
Proof.
  intros I Hsel Hpgok H. pose proof Hpgok as (Hpg & Hact). unfold selecting_next in H. cbv zeta in H.
  assert (CS : SInv (cancel_selecting s)) by (unfold cancel_selecting; sinv).
  assert (CSL : SInv (cancel_selecting (switch_language s))) by (unfold cancel_selecting, switch_language; sinv).
  split_if H; [inv_ok H; fin_stay|].
  split_if H; [inv_ok H; fin_leave|].
  split_if H; [inv_ok H; fin_leave|].
  split_if H; [inv_ok H; fin_leave|].
  split_if H.
  { bind_ok H tp Htp. split_if H.
    { inv_ok H. match goal with E : Nat.ltb (S _) _ = true |- _ => apply Nat.ltb_lt in E end. split; [assumption | split; [exact Logic.I | split; [assumption|]]].
      split; [eapply total_page_lt; eassumption | exact Hact]. }
    destruct sel as [p|y|sym0].
    - bind_ok H p' Hp'. inv_ok H. split; [assumption | split; [exact Logic.I|]].
      destruct I as [W Dk Sy Pp]. unfold ps_next in Hp'. destruct Hsel as (Hpok & Hcom).
      destruct (ps_cycle_inv _ _ (ps_begin p, ps_end p) p p' Dk Hpok Hp') as (Hok & Hc).
      split; [|apply pg_ok_zero_phrase]. split; [exact Hok | congruence].
    - inv_ok H. fin_stay.
    - inv_ok H. fin_stay. }
  split_if H.
  { split_if H; [inv_ok H; fin_stay|].
    bind_ok H sel1 Hs1. inv_ok H.
    assert (I1 : SInv (set_com s (ce_move_cursor (com s) (sel_begin s sel - 1)))) by sinv.
    destruct (reselect_at_cursor_inv _ _ act I1 Hs1) as (R1 & R2).
    split; [exact I1 | split; [exact Logic.I | split; [exact R1 | split; [apply page_ok_zero | exact R2]]]]. }
  split_if H.
  { split_if H; [inv_ok H; fin_stay|].
    bind_ok H sel1 Hs1. inv_ok H.
    assert (I1 : SInv (set_com s (ce_clamp_cursor (ce_move_cursor (com s) (sel_begin s sel + 1))))) by sinv.
    destruct (reselect_at_cursor_inv _ _ act I1 Hs1) as (R1 & R2).
    split; [exact I1 | split; [exact Logic.I | split; [exact R1 | split; [apply page_ok_zero | exact R2]]]]. }
  split_if H.
  { split_if H.
    - inv_ok H. split; [assumption | split; [exact Logic.I | split; [assumption | split; [now apply page_ok_pred | exact Hact]]]].
    - bind_ok H tp Htp. inv_ok H. split; [assumption | split; [exact Logic.I | split; [assumption | split; [eapply total_page_last; eassumption | exact Hact]]]]. }
  split_if H.
  { bind_ok H tp Htp. split_if H; inv_ok H.
    - match goal with E : Nat.ltb (S _) _ = true |- _ => apply Nat.ltb_lt in E end. split; [assumption | split; [exact Logic.I | split; [assumption | split; [eapply total_page_lt; eassumption | exact Hact]]]].
    - fin_stay. }
  split_if H; [eapply selecting_select_inv; [exact I | exact Hsel | exact Hpgok | exact H]|].
  split_if H.
  { inv_ok H. split; [|split; exact Logic.I].
    destruct CS as [W Dk Sy Pp]. constructor; cbn; [apply ce_pop_cursor_wf; exact W | exact Dk | exact Sy | exact Pp]. }
  split_if H; inv_ok H; fin_stay.
Qed.

Lemma highlighting_next_inv s ev mv s' t mv' : SInv s ->
  highlighting_next dops conv s ev mv = Ok (s', t, mv') -> SInv s' /\ trans_inv s' t.
Proof.
  intros I H. unfold highlighting_next in H.
  split_if H; [inv_ok H; split; [sinv | exact Logic.I]|].
  split_if H; [inv_ok H; split; [assumption | exact Logic.I]|].
  split_if H; [inv_ok H; split; [assumption | exact Logic.I]|].
  split_if H.
  - bind_ok H r Hr. destruct r as [s1 ok].
    assert (I1 : SInv (set_com s (ce_move_cursor (com s) mv))) by sinv.
    destruct (learn_in_range_inv _ _ _ _ _ I1 Hr) as (I2 & _).
    inv_ok H. cbn [fst]. split; [exact I2 | exact Logic.I].
  - inv_ok H. split; [assumption | exact Logic.I].
Qed.

(* ---- every key event preserves the invariant ---- *)
Lemma same_view_set_last s b : same_view s (set_last s b).
Proof. repeat split. Qed.

Lemma apply_transition_inv s old t s1 st1 : SInv s ->
  (match t with Spin _ => state_inv s old | ToState _ => True end) -> trans_inv s t ->
  apply_transition s old t = (s1, st1) -> SInv s1 /\ state_inv s1 st1.
Proof.
  intros I Ho Ht H. unfold apply_transition in H. destruct t as [ns|b]; inv_ok H;
    (split; [sinv | eapply state_inv_view; [apply same_view_set_last | assumption]]).
Qed.

Theorem process_keyevent_inv e ev e' b : Inv e -> process_keyevent dops sops conv e ev = Ok (e', b) -> Inv e'.
Proof.
  intros [Ish Ist] H. unfold process_keyevent in H.
  set (s0 := set_notice (set_lifetime (sh e) (lifetime (sh e) + 1)%N) []) in *.
  assert (I0 : SInv s0) by (subst s0; sinv).
  set (s1 := set_commit s0 []) in *.
  assert (I1 : SInv s1) by (subst s1; sinv).
  assert (V1 : same_view (sh e) s1) by (subst s1 s0; repeat split).
  pose proof (state_inv_view _ _ _ V1 Ist) as Ist1.
  bind_ok H r Hr. destruct r as [s2 st2].
  assert (K : SInv s2 /\ state_inv s2 st2).
  { destruct (st e) as [| |pg act sel|mv] eqn:Est.
    - bind_ok Hr r Hr1. destruct r as [sa ta]. cbn [fst snd] in Hr.
      destruct (entering_next_inv _ _ _ _ I1 Hr1) as (Ia & Ta).
      injection Hr as Hap. eapply apply_transition_inv; [exact Ia | | exact Ta | exact Hap]. now destruct ta.
    - bind_ok Hr r Hr1. destruct r as [sa ta]. cbn [fst snd] in Hr.
      destruct (entering_syllable_next_inv _ _ _ _ I1 Hr1) as (Ia & Ta).
      injection Hr as Hap. eapply apply_transition_inv; [exact Ia | | exact Ta | exact Hap]. now destruct ta.
    - bind_ok Hr r Hr1. destruct r as [[[sa ta] pg'] sel']. destruct Ist1 as (Hs1 & Hp1).
      destruct (selecting_next_inv _ _ _ _ _ _ _ _ _ I1 Hs1 Hp1 Hr1) as (Ia & Ta & Sa).
      injection Hr as Hap. eapply apply_transition_inv; [exact Ia | | exact Ta | exact Hap].
      destruct ta; [exact Logic.I | exact Sa].
    - bind_ok Hr r Hr1. destruct r as [[sa ta] mv'].
      destruct (highlighting_next_inv _ _ _ _ _ _ I1 Hr1) as (Ia & Ta).
      injection Hr as Hap. eapply apply_transition_inv; [exact Ia | | exact Ta | exact Hap]. now destruct ta. }
  destruct K as (I2 & S2).
  bind_ok H s3 H3.
  assert (K3 : SInv s3 /\ state_inv s3 st2).
  { destruct (is_entering st2 && behavior_eqb (last s2) BAbsorb) eqn:Een.
    - split; [eapply try_auto_commit_inv; eassumption|].
      apply andb_true_iff in Een as (Een & _). destruct st2; try discriminate. exact Logic.I.
    - inv_ok H3. split; assumption. }
  destruct K3 as (I3 & S3).
  inv_ok H. constructor; cbn [sh st].
  - unfold flush_dirty. destruct (N.ltb 0 (dirty s3)); [sinv | assumption].
  - eapply state_inv_view; [|exact S3]. unfold flush_dirty. destruct (N.ltb 0 (dirty s3)); repeat split.
Qed.

(* ---- ... and so does every public operation ---- *)
Theorem ed_select_inv e n e' b : Inv e -> ed_select dops sops conv e n = Ok (e', b) -> Inv e'.
Proof.
  intros [Ish Ist] H. unfold ed_select in H. destruct (st e) as [| |pg act sel|mv] eqn:Est; try (inv_ok H; constructor; [assumption | now rewrite Est]).
  bind_ok H r Hr. destruct r as [[[s2 t] pg'] sel']. destruct Ist as (Hs & Hp).
  destruct (selecting_select_offset_inv _ _ _ _ _ _ _ _ _ Ish Hs Hp Hr) as (I2 & T2 & S2).
  destruct (apply_transition s2 (Selecting pg' act sel') t) as [s3 st3] eqn:Ea.
  assert (K3 : SInv s3 /\ state_inv s3 st3).
  { eapply apply_transition_inv; [exact I2 | | exact T2 | exact Ea]. destruct t; [exact Logic.I | exact S2]. }
  destruct K3 as (I3 & S3).
  bind_ok H s4 H4. inv_ok H.
  destruct (is_entering st3 && behavior_eqb (last s3) BAbsorb) eqn:Eb.
  - apply andb_true_iff in Eb as (Eb & _). constructor; cbn [sh st]; [eapply try_auto_commit_inv; eassumption|].
    destruct st3; try discriminate. exact Logic.I.
  - inv_ok H4. constructor; cbn [sh st]; assumption.
Qed.

Theorem ed_cancel_selecting_inv e : Inv e -> Inv (fst (ed_cancel_selecting e)).
Proof.
  intros [Ish Ist]. unfold ed_cancel_selecting. destruct (is_selecting (st e)); cbn [fst]; [|constructor; assumption].
  constructor; cbn [sh st]; [|exact Logic.I]. unfold cancel_selecting. sinv.
Qed.

Theorem ed_start_selecting_inv e e' b : Inv e -> ed_start_selecting dops sops e = Ok (e', b) -> Inv e'.
Proof.
  intros [Ish Ist] H. unfold ed_start_selecting in H. bind_ok H r Hr. destruct r as [s1 t1]. cbn [fst snd] in H.
  assert (K : SInv s1 /\ trans_inv s1 t1 /\ (match t1 with Spin _ => state_inv s1 (st e) | ToState _ => True end)).
  { destruct (st e) as [| |pg act sel|mv] eqn:Est.
    - destruct (start_selecting_common_inv _ (fun s0 => (s0, Spin BIgnore)) _ _ Ish (fun s0 I0 => conj I0 Logic.I) Hr) as (Ia & Ta).
      split; [exact Ia | split; [exact Ta | now destruct t1]].
    - assert (I1 : SInv (set_syl (sh e) (so_clear sops (syl (sh e))))) by sinv.
      destruct (start_selecting_common_inv _ (fun s0 => (s0, Spin BIgnore)) _ _ I1 (fun s0 I0 => conj I0 Logic.I) Hr) as (Ia & Ta).
      split; [exact Ia | split; [exact Ta | now destruct t1]].
    - inv_ok Hr. split; [assumption | split; [exact Logic.I | exact Ist]].
    - inv_ok Hr. split; [assumption | split; exact Logic.I]. }
  destruct K as (I1 & T1 & O1).
  destruct (apply_transition s1 (st e) t1) as [s2 st2] eqn:Ea. inv_ok H.
  destruct (apply_transition_inv _ _ _ _ _ I1 O1 T1 Ea) as (I2 & S2). constructor; assumption.
Qed.

Theorem ed_commit_inv e e' b : Inv e -> ed_commit dops conv e = Ok (e', b) -> Inv e'.
Proof.
  intros [Ish Ist] H. unfold ed_commit in H.
  destruct (negb (is_entering (st e)) || ce_is_empty (com (sh e))) eqn:E; [inv_ok H; constructor; assumption|].
  apply orb_false_iff in E as (E & _). apply negb_false_iff in E.
  bind_ok H s1 H1. inv_ok H. constructor; cbn [sh st]; [now destruct (commit_inv _ _ Ish H1)|].
  destruct (st e); try discriminate. exact Logic.I.
Qed.

Theorem ed_clear_inv e : Inv e -> Inv (ed_clear sops e).
Proof.
  intros [[W Dk Sy Pp] Ist]. constructor; cbn [sh st ed_clear]; [|exact Logic.I].
  constructor; cbn; [apply ce_clear_all_wf | assumption | assumption | assumption].
Qed.

(* set_editor_options / learn / unlearn leave the buffer alone; the page is then brought back
   into range (clamp_page), which re-establishes the page part of the invariant *)
Lemma clamp_page_inv e e' : SInv (sh e) ->
  (forall pg act sel, st e = Selecting pg act sel -> sel_inv (sh e) sel /\ act_ok (sh e) act sel) ->
  clamp_page dops sops e = Ok e' -> Inv e'.
Proof.
  intros Ish Hsel H. unfold clamp_page in H.
  destruct (st e) as [| |pg act sel|mv] eqn:Est; try (inv_ok H; constructor; [assumption | rewrite Est; exact Logic.I]).
  destruct (Hsel _ _ _ eq_refl) as (Hs & Ha).
  destruct (Nat.eqb (o_per_page (opts (sh e))) 0) eqn:Ez.
  - apply Nat.eqb_eq in Ez. injection H as <-. constructor; [assumption | rewrite Est].
    split; [exact Hs | split; [intros Hp; lia | exact Ha]].
  - bind_ok H tp Htp. inv_ok H. constructor; cbn [sh st]; [assumption|]. cbn [state_inv].
    split; [exact Hs | split; [|exact Ha]].
    intros Hp c Hc. pose proof (total_page_last _ _ _ Htp Hp c Hc) as [Hz|Hlt].
    + left. lia.
    + destruct (Nat.min_spec pg (tp - 1)) as [(Hmin & ->)|(_ & ->)]; [|now right].
      right. assert (pg * o_per_page (opts (sh e)) <= (tp - 1) * o_per_page (opts (sh e))) by (apply Nat.mul_le_mono_r; lia). lia.
Qed.

Lemma ed_set_options_sinv e o : 1 <= o_per_page o -> SInv (sh e) -> SInv (sh (ed_set_options sops e o)).
Proof.
  intros Ho [W Dk Sy Pp]. unfold ed_set_options. cbn [sh].
  destruct (negb _); constructor; cbn [com dict opts sym_sel set_opts set_syl]; assumption.
Qed.

Theorem ed_set_options_c_inv e o e' : 1 <= o_per_page o -> Inv e -> ed_set_options_c dops sops e o = Ok e' -> Inv e'.
Proof.
  intros Ho [Ish Ist] H. unfold ed_set_options_c in H. eapply clamp_page_inv; [apply ed_set_options_sinv; [exact Ho | exact Ish] | | exact H].
  intros pg act sel Hst. unfold ed_set_options in *. cbn [sh st] in *. rewrite Hst in Ist. destruct Ist as (Hs & _ & Ha).
  split; [eapply sel_inv_view; [|exact Hs] | eapply act_ok_view; [| |exact Ha]]; destruct (negb _); reflexivity.
Qed.

Theorem ed_learn_inv_s e k t e' b : SInv (sh e) -> ed_learn dops e k t = Ok (e', b) ->
  SInv (sh e') /\ com (sh e') = com (sh e) /\ opts (sh e') = opts (sh e) /\ st e' = st e.
Proof.
  intros Ish H. unfold ed_learn in H. bind_ok H r Hr. inv_ok H. destruct r as [s1 ok]. cbn [fst sh st].
  destruct (learn_phrase_inv _ _ _ _ _ Ish Hr) as (I1 & Ec & Eo & _). auto.
Qed.

Theorem ed_learn_c_inv e k t e' b : Inv e -> ed_learn_c dops sops e k t = Ok (e', b) -> Inv e'.
Proof.
  intros [Ish Ist] H. unfold ed_learn_c in H. bind_ok H r Hr. bind_ok H e1 He1. inv_ok H. destruct r as [e0 b0].
  destruct (ed_learn_inv_s _ _ _ _ _ Ish Hr) as (I0 & Ec & Eo & Es). cbn [fst] in He1.
  eapply clamp_page_inv; [exact I0 | | exact He1].
  intros pg act sel Hst. rewrite Es in Hst. rewrite Hst in Ist. destruct Ist as (Hs & _ & Ha).
  split; [eapply sel_inv_view; [|exact Hs] | eapply act_ok_view; [| |exact Ha]]; now rewrite Ec.
Qed.

Theorem ed_unlearn_c_inv e k t e' : Inv e -> ed_unlearn_c dops sops e k t = Ok e' -> Inv e'.
Proof.
  intros [[W Dk Sy Pp] Ist] H. unfold ed_unlearn_c in H. eapply clamp_page_inv; [| | exact H]; unfold ed_unlearn; cbn [sh st].
  - constructor; cbn; [assumption | now apply ok_remove | assumption | assumption].
  - intros pg act sel Hst. rewrite Hst in Ist. destruct Ist as (Hs & _ & Ha). split; [exact Hs | exact Ha].
Qed.

(* a layout switch replaces the syllable editor only; the list it may shorten is re-paged by clamp_page *)
Theorem ed_set_layout_inv e L e' : Inv e -> ed_set_layout dops sops e L = Ok e' -> Inv e'.
Proof.
  intros [[W Dk Sy Pp] Ist] H. unfold ed_set_layout in H. eapply clamp_page_inv; [| | exact H]; unfold ed_set_layout_pinned; cbn [sh st].
  - constructor; cbn; assumption.
  - intros pg act sel Hst. rewrite Hst in Ist. destruct Ist as (Hs & _ & Ha).
    split; [eapply sel_inv_view; [|exact Hs] | eapply act_ok_view; [| |exact Ha]]; reflexivity.
Qed.

Lemma with_phrase_sel_inv e f e' b : Inv e ->
  (forall pg act p p', ps_ok p -> f pg act p = Ok (Some p') -> ps_ok p' /\ ps_com p' = ps_com p) ->
  with_phrase_sel e f = Ok (e', b) -> Inv e'.
Proof.
  intros [Ish Ist] Hf H. unfold with_phrase_sel in H.
  destruct (st e) as [| |pg act [p|y|sy]|mv] eqn:Est; try (inv_ok H; constructor; [assumption | now rewrite Est]).
  bind_ok H r Hr. destruct r as [p'|].
  - inv_ok H. constructor; cbn [sh st]; [assumption|]. destruct Ist as ((Hok & Hcom) & _).
    destruct (Hf _ _ _ _ Hok Hr) as (Hok' & Hc'). cbn [state_inv sel_inv].
    split; [split; [exact Hok' | congruence] | apply pg_ok_zero_phrase].
  - inv_ok H. constructor; [assumption | now rewrite Est].
Qed.

Theorem ed_jump_inv e e' b : Inv e ->
  (ed_jump_next dops e = Ok (e', b) \/ ed_jump_prev dops e = Ok (e', b) \/
   ed_jump_first dops e = Ok (e', b) \/ ed_jump_last dops e = Ok (e', b)) -> Inv e'.
Proof.
  intros I [H|[H|[H|H]]]; (eapply with_phrase_sel_inv; [exact I| |exact H]); intros pg act p p' Hp Hf;
  destruct I as [[W Dk] _].
  - bind_ok Hf r Hr. destruct r as [[b0 e0]|]; inv_ok Hf.
    unfold ps_next_selection_point in Hr. destruct (ps_next_point_inv _ _ _ _ _ _ _ Dk Hr) as (A & B & C & E & F & _).
    split; [apply ps_ok_narrower; assumption | reflexivity].
  - bind_ok Hf r Hr. destruct r as [[b0 e0]|]; inv_ok Hf.
    unfold ps_prev_selection_point in Hr. destruct (ps_prev_point_inv _ _ _ _ _ _ _ Dk Hr) as (A & B & F).
    split; [apply ps_ok_wider; assumption | reflexivity].
  - bind_ok Hf r Hr. inv_ok Hf. destruct Hp as [_ _ [_ (O1 & O2) _]]. eapply ps_init_inv; eassumption.
  - bind_ok Hf r Hr. inv_ok Hf. eapply ps_jump_last_inv; eassumption.
Qed.

Lemma fst_ok_ok {A B} (r : outcome (A * B)) a : fst_ok r = Ok a -> exists b, r = Ok (a, b).
Proof. destruct r as [[x y]| | |]; cbn; intros H; inversion H; subst; eauto. Qed.

(* the operations the C API can issue: a page size of at least 1 *)
Definition op_ok (o : op) : Prop := match o with OpSetOptions x => 1 <= o_per_page x | _ => True end.

(* every operation, hence every history, preserves the invariant *)
Theorem step_inv e o e' : op_ok o -> Inv e -> step dops sops conv e o = Ok e' -> Inv e'.
Proof.
  intros Hop I H. destruct o; cbn [step] in H.
  - apply fst_ok_ok in H as (b & H). eapply process_keyevent_inv; eassumption.
  - apply fst_ok_ok in H as (b & H). eapply ed_select_inv; eassumption.
  - inv_ok H. now apply ed_cancel_selecting_inv.
  - apply fst_ok_ok in H as (b & H). eapply ed_start_selecting_inv; eassumption.
  - apply fst_ok_ok in H as (b & H). eapply ed_commit_inv; eassumption.
  - inv_ok H. now apply ed_clear_inv.
  - inv_ok H. destruct I as [[W Dk Sy Pp] Ist]. constructor; cbn [sh st ed_ack]; [constructor; cbn; assumption|].
    eapply state_inv_view; [|exact Ist]. repeat split.
  - eapply ed_set_options_c_inv; [exact Hop | exact I | exact H].
  - inv_ok H. destruct I as [[W Dk Sy Pp] Ist]. constructor; cbn [sh st ed_set_engine]; [constructor; cbn; assumption|].
    eapply state_inv_view; [|exact Ist]. repeat split.
  - inv_ok H. destruct I as [[W Dk Sy Pp] Ist]. constructor; cbn [sh st ed_clear_syllable_editor]; [constructor; cbn; assumption|].
    destruct (st e) as [| |pg act sel|mv]; try exact Logic.I. destruct Ist as (Hs & Hp & Ha). split; [|split; [|exact Ha]].
    + eapply sel_inv_view; [|exact Hs]. reflexivity.
    + intros Hper c Hc. apply (Hp Hper c). rewrite <- Hc. destruct sel as [p|y|sy]; cbn [candidates set_syl dict syl]; try reflexivity.
      destruct (Nat.ltb (ps_end p) (ps_begin p)); [reflexivity|]. destruct (Nat.ltb (clen (ps_com p)) (ps_end p)); [reflexivity|].
      destruct (Nat.eqb (ps_end p - ps_begin p) 1); [|reflexivity].
      destruct (slice (symbols (ps_com p)) (ps_begin p) (ps_end p)) as [|[code|ch] [|x l]]; try reflexivity.
      now rewrite alt_stable.
  - apply fst_ok_ok in H as (b & H). eapply ed_jump_inv; [exact I | left; exact H].
  - apply fst_ok_ok in H as (b & H). eapply ed_jump_inv; [exact I | right; left; exact H].
  - apply fst_ok_ok in H as (b & H). eapply ed_jump_inv; [exact I | right; right; left; exact H].
  - apply fst_ok_ok in H as (b & H). eapply ed_jump_inv; [exact I | right; right; right; exact H].
  - apply fst_ok_ok in H as (b & H). eapply ed_learn_c_inv; eassumption.
  - eapply ed_unlearn_c_inv; eassumption.
  - eapply ed_set_layout_inv; eassumption.
Qed.

Theorem run_inv ops : forall e e', Forall op_ok ops -> Inv e -> run dops sops conv e ops = Ok e' -> Inv e'.
Proof.
  induction ops as [|o rest IH]; intros e e' Hops I H; cbn [run] in H.
  - now inv_ok H.
  - inversion Hops as [|x l Ho Hrest]; subst.
    destruct (step dops sops conv e o) as [e1| | |] eqn:Es; try discriminate.
    eapply IH; [exact Hrest | eapply step_inv; eassumption | exact H].
Qed.

Lemma init_inv d s0 ab t0 : dict_ok d -> Inv (init_editor d s0 ab ss0 t0).
Proof. intros Hd. constructor; cbn; [constructor; cbn; [apply wf_ce_empty | assumption | reflexivity | vm_compute; apply le_S, le_S, le_S, le_S, le_S, le_S, le_S, le_S, le_S, le_n] | exact Logic.I]. Qed.

End Inv.
