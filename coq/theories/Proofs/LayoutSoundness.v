(* C14 soundness for every layout and operation sequences of any length: the
   one-step facts (LayoutProofs for the seven syllable-state layouts,
   LayoutPinyinProofs for the Pinyin variants) lifted by induction. *)
From Coq Require Import NArith List Bool Lia.
From LC Require Import Base.Lib Gen.Bopomofo_gen Gen.Keyboard_gen Gen.Layout_gen
  Model.Syllable Model.Keyboard Model.LayoutBase Model.LayoutPinyin Model.Layout
  Proofs.SyllableProofs Proofs.LayoutDefs Proofs.LayoutProofs Proofs.LayoutPinyinProofs.
Import ListNotations.
Open Scope N_scope.

Lemma layout_split L : L < n_layouts -> L < 7 \/ 7 <= L < 10.
Proof. unfold n_layouts. lia. Qed.

Lemma pinyin_not_compact L : 7 <= L < 10 -> compact L = false /\ is_pinyin L = true.
Proof. intros H. apply pinyin_cases in H as [->|[->| ->]]; split; reflexivity. Qed.

Lemma syl_not_pinyin L : L < 7 -> is_pinyin L = false.
Proof. intros H. apply lt7_cases in H as [->|[->|[->|[->|[->|[->| ->]]]]]]; reflexivity. Qed.

(* what one operation guarantees, for every layout *)
Definition step_post (L : N) (st st' : lstate) (b : behavior) : Prop :=
  wf_state st' /\
  (forall s, handed L st' b = Some s -> wf_syl s) /\
  (inv L st ->
   match b with
   | Commit => is_pinyin L = false -> composable (ls_syl st')
   | Fuzzy s => composable s /\ inv L st'
   | _ => inv L st'
   end).

Lemma step_facts L st op :
  L < n_layouts -> wf_state st -> valid_op op ->
  exists st' b, l_step L st op = Ok (st', b) /\ step_post L st st' b.
Proof.
  intros HL Hw Hop. destruct (layout_split L HL) as [H7|HP].
  - destruct (syl_step_facts L st op H7 (proj1 Hw) Hop) as (st' & b & E & Hw' & Hh & Hi).
    exists st', b. split; [exact E|]. split; [exact Hw'|]. split; [exact Hh|].
    intros Hinv. specialize (Hi Hinv). destruct b; auto.
  - destruct (pinyin_step_facts L st op HP Hw) as (st' & b & E & Hw' & Hb).
    destruct (pinyin_not_compact L HP) as [Hc Hp].
    assert (Hinv' : inv L st') by (split; [exact Hw' | rewrite Hc; discriminate]).
    exists st', b. split; [exact E|]. split; [exact Hw'|]. split.
    + intros s Hs. destruct Hb as [->|[->|[->| ->]]]; cbn [handed] in Hs; try discriminate.
      inversion Hs. subst s. unfold l_read. apply Hw'.
    + intros _. destruct Hb as [->|[->|[->| ->]]]; try exact Hinv'.
      rewrite Hp. discriminate.
Qed.

(* ---- raw object semantics: any operation sequence, nothing cleared in between ---- *)
Lemma sound_raw L ops : forall st,
  L < n_layouts -> wf_state st -> Forall valid_op ops ->
  exists st' hs, run_raw L st ops = Ok (st', hs) /\ wf_state st' /\ Forall wf_syl hs.
Proof.
  induction ops as [|op ops IH]; intros st HL Hw Hops.
  - exists st, []. cbn [run_raw]. auto.
  - inversion Hops as [|? ? Hop Hrest]; subst.
    destruct (step_facts L st op HL Hw Hop) as (st1 & b & E & Hw1 & Hh & _).
    destruct (IH st1 HL Hw1 Hrest) as (st' & hs & E' & Hw' & Hhs).
    cbn [run_raw]. rewrite E. cbn [obind fst snd]. rewrite E'. cbn [obind fst snd].
    eexists _, _. split; [reflexivity|]. split; [exact Hw'|].
    apply Forall_app. split; [|exact Hhs].
    destruct (handed L st1 b) as [s|] eqn:Es; cbn [opt_list]; [|constructor].
    constructor; [now apply Hh | constructor].
Qed.

(* ---- the editor's protocol: cleared after Commit ---- *)
Lemma inv_empty L : inv L lstate_empty.
Proof.
  split; [split; exact wf_empty|]. intros _. reflexivity.
Qed.

Lemma editor_step_facts L st op :
  L < n_layouts -> inv L st -> valid_op op ->
  exists st' o, editor_step L st op = Ok (st', o) /\ inv L st' /\
    (forall s, o = Some s -> wf_syl s /\ (is_pinyin L = false -> composable s)).
Proof.
  intros HL Hinv Hop.
  destruct (step_facts L st op HL (proj1 Hinv) Hop) as (st1 & b & E & Hw1 & Hh & Hi).
  specialize (Hi Hinv). unfold editor_step. rewrite E. cbn [obind fst snd].
  destruct b; try (eexists _, None; split; [reflexivity|]; split; [exact Hi | intros s Hs; discriminate]).
  - (* Commit *)
    eexists _, (Some _). split; [reflexivity|]. split; [apply inv_empty|].
    intros s Hs. inversion Hs; subst s. split.
    + apply Hh. reflexivity.
    + exact Hi.
  - (* Fuzzy *)
    destruct Hi as [Hc Hi]. eexists _, (Some _). split; [reflexivity|]. split; [exact Hi|].
    intros s Hs. inversion Hs; subst s. split; [now apply composable_wf | intros _; exact Hc].
Qed.

Lemma sound_editor L ops : forall st,
  L < n_layouts -> inv L st -> Forall valid_op ops ->
  exists st' hs, run_editor L st ops = Ok (st', hs) /\ inv L st' /\ Forall wf_syl hs /\
    (is_pinyin L = false -> Forall composable hs).
Proof.
  induction ops as [|op ops IH]; intros st HL Hinv Hops.
  - exists st, []. cbn [run_editor]. auto.
  - inversion Hops as [|? ? Hop Hrest]; subst.
    destruct (editor_step_facts L st op HL Hinv Hop) as (st1 & o & E & Hinv1 & Ho).
    destruct (IH st1 HL Hinv1 Hrest) as (st' & hs & E' & Hinv' & Hhs & Hcs).
    cbn [run_editor]. rewrite E. cbn [obind fst snd]. rewrite E'. cbn [obind fst snd].
    eexists _, _. split; [reflexivity|]. split; [exact Hinv'|]. split.
    + apply Forall_app. split; [|exact Hhs].
      destruct o as [s|]; cbn [opt_list]; [|constructor].
      constructor; [apply (Ho s eq_refl) | constructor].
    + intros Hp. apply Forall_app. split; [|now apply Hcs].
      destruct o as [s|]; cbn [opt_list]; [|constructor].
      constructor; [now apply (Ho s eq_refl) | constructor].
Qed.

(* the editor inserts a handed syllable only when the dictionary knows it
   (lookup_first_phrase guard of EnteringSyllable::next): with a dictionary that has
   no entry for the EMPTY syllable, everything that enters the buffer is composable *)
Lemma buffer_syllables (dict_has : N -> bool) hs :
  dict_has EMPTY_PATTERN = false -> Forall wf_syl hs -> Forall composable (filter dict_has hs).
Proof.
  intros Hd Hhs. apply Forall_forall. intros s Hs. apply filter_In in Hs as [Hin Hk].
  rewrite Forall_forall in Hhs. destruct (Hhs s Hin) as (ci & cm & cr & ct & Hr & Hv).
  exists ci, cm, cr, ct. split; [exact Hr|]. split; [|exact Hv].
  destruct (all_zero ci cm cr ct) eqn:Ez; [|reflexivity].
  exfalso. assert (s = EMPTY_PATTERN) as ->.
  { rewrite Hv. unfold pack. unfold all_zero in Ez. now rewrite Ez. }
  rewrite Hd in Hk. discriminate.
Qed.
