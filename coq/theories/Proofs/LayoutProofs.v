(* C14 soundness of the seven syllable-state layouts: the one-step sweeps
   (Proofs/LayoutSweep<L>.v) lifted to arbitrary states, events and operations. *)
From Coq Require Import NArith List Bool Lia.
From LC Require Import Base.Lib Gen.Bopomofo_gen Gen.Keyboard_gen Gen.Layout_gen
  Model.Syllable Model.SyllableSearch Model.Keyboard Model.LayoutBase Model.Layout Model.LayoutSearch
  Proofs.SyllableProofs Proofs.LayoutDefs
  Proofs.LayoutSweep0 Proofs.LayoutSweep1 Proofs.LayoutSweep2 Proofs.LayoutSweep3
  Proofs.LayoutSweep4 Proofs.LayoutSweep5 Proofs.LayoutSweep6.
Import ListNotations.
Open Scope N_scope.

Lemma lt7_cases L : L < 7 -> L = 0 \/ L = 1 \/ L = 2 \/ L = 3 \/ L = 4 \/ L = 5 \/ L = 6.
Proof. lia. Qed.

Lemma sweep_all L : L < 7 -> forall_comps (chk_state L) = true.
Proof.
  intros H. apply lt7_cases in H as [->|[->|[->|[->|[->|[->| ->]]]]]].
  - exact sweep_layout_0. - exact sweep_layout_1. - exact sweep_layout_2. - exact sweep_layout_3.
  - exact sweep_layout_4. - exact sweep_layout_5. - exact sweep_layout_6.
Qed.

(* a syllable-state layout looks at the syllable only, and at the key event only
   through its class (KeyIndex for standard/ibm/ginyieh/et/dc26, KeyCode for hsu/et26) *)
Lemma step_norm L st op :
  L < 7 -> l_step L st op = l_step L (syl_state (ls_syl st)) (norm_op L op).
Proof.
  intros H. apply lt7_cases in H as [->|[->|[->|[->|[->|[->| ->]]]]]]; destruct op; reflexivity.
Qed.

Lemma class_lt L ev : valid_event_b ev = true -> class_of L ev < 63.
Proof.
  unfold valid_event_b, class_of. intros H. apply andb_true_iff in H as [H1 H2].
  apply N.ltb_lt in H1, H2. change n_keyindex with 63 in H1. change n_keycode with 63 in H2.
  destruct (by_code L); assumption.
Qed.

Lemma class_event_in k : k < 63 -> In (class_event k) class_events.
Proof.
  intros H. unfold class_events. apply in_map. unfold key_classes.
  apply range_nat_In. exact H.
Qed.

Lemma norm_op_in L op : valid_op op -> In (norm_op L op) sweep_ops.
Proof.
  unfold sweep_ops. intros H. destruct op as [ev|ev| |]; cbn [norm_op valid_op] in *.
  - apply in_or_app. left. apply in_map. apply class_event_in. now apply class_lt.
  - apply in_or_app. right. apply in_or_app. left. apply in_map. apply class_event_in. now apply class_lt.
  - apply in_or_app. right. apply in_or_app. right. left. reflexivity.
  - apply in_or_app. right. apply in_or_app. right. right. left. reflexivity.
Qed.

Lemma chk_op_holds L st op :
  L < 7 -> wf_syl (ls_syl st) -> valid_op op ->
  chk_op L (ls_syl st) (norm_op L op) = true.
Proof.
  intros HL (ci & cm & cr & ct & Hr & Hv) Hop.
  pose proof (forall_comps_spec _ (sweep_all L HL) _ _ _ _ Hr) as H.
  unfold chk_state in H. rewrite <- Hv in H.
  rewrite forallb_forall in H. apply H. now apply norm_op_in.
Qed.

Lemma inv_syl_b_spec L st :
  wf_syl (ls_alt st) -> inv_syl_b L (ls_syl st) = true -> inv L st.
Proof.
  unfold inv_syl_b, inv, wf_state. intros Ha H. apply andb_true_iff in H as [Hw Ht].
  split; [split; [now apply wf_syl_b_sound | exact Ha]|].
  intros Hc. rewrite Hc in Ht. cbn [negb orb] in Ht. now apply N.eqb_eq.
Qed.

Lemma wf_syl_b_complete v : wf_syl v -> wf_syl_b v = true.
Proof.
  intros (ci & cm & cr & ct & Hr & Hv). subst v.
  assert (H : forall_comps (fun ci cm cr ct => wf_syl_b (pack ci cm cr ct)) = true)
    by (vm_cast_no_check (eq_refl true)).
  exact (forall_comps_spec _ H _ _ _ _ Hr).
Qed.

Lemma inv_syl_b_complete L st : inv L st -> inv_syl_b L (ls_syl st) = true.
Proof.
  unfold inv, inv_syl_b, wf_state. intros [[Hw _] Ht]. rewrite (wf_syl_b_complete _ Hw). cbn [andb].
  destruct (compact L); cbn [negb orb]; [|reflexivity]. apply N.eqb_eq. now apply Ht.
Qed.

(* one operation on a syllable-state layout, from any well-formed state *)
Lemma syl_step_facts L st op :
  L < 7 -> wf_syl (ls_syl st) -> valid_op op ->
  exists st' b, l_step L st op = Ok (st', b) /\ wf_state st' /\
    (forall s, handed L st' b = Some s -> wf_syl s) /\
    (inv L st ->
     match b with
     | Commit => composable (ls_syl st')
     | Fuzzy s => composable s /\ inv L st'
     | _ => inv L st'
     end).
Proof.
  intros HL Hw Hop.
  pose proof (chk_op_holds L st op HL Hw Hop) as H. unfold chk_op in H.
  rewrite <- (step_norm L st op HL) in H.
  destruct (l_step L st op) as [[st' b]| | |]; try discriminate.
  exists st', b. split; [reflexivity|].
  apply andb_true_iff in H as [H H4]. apply andb_true_iff in H as [H H3].
  apply andb_true_iff in H as [H1 H2].
  assert (Hwf' : wf_state st') by (split; now apply wf_syl_b_sound).
  split; [exact Hwf'|]. split.
  - intros s Hs. rewrite Hs in H3. now apply wf_syl_b_sound.
  - intros Hinv. rewrite (inv_syl_b_complete _ _ Hinv) in H4. cbn [negb orb] in H4.
    destruct b; try (apply inv_syl_b_spec; [apply Hwf' | exact H4]).
    + now apply composable_b_sound.
    + apply andb_true_iff in H4 as [Hc Hi]. split; [now apply composable_b_sound|].
      apply inv_syl_b_spec; [apply Hwf' | exact Hi].
Qed.
