(* Round trips of the phrase record, the phrase sequence of a leaf, the
   metadata and the whole trie file (Model/TrieCodec.v on top of Model/Der.v);
   records <-> bytes.  Stdlib only. *)
From Coq Require Import NArith List Bool Lia ZArith.
From LC Require Import Base.Lib Model.Utf8 Model.Der Model.TrieCodec Gen.Trie_gen Proofs.DerProofs.
Import ListNotations.
Open Scope N_scope.

Ltac Zify.zify_post_hook ::= Z.to_euclidean_division_equations.

(* what Rust's types guarantee about a Phrase / DictionaryInfo *)
Definition phrase_ok (p : phrase) : Prop :=
  utf8_valid (p_str p) = true /\ p_freq p < 2 ^ 32 /\
  match p_last p with Some t => t < 2 ^ 64 | None => True end.

Definition info_ok (i : dinfo) : Prop :=
  utf8_valid (i_name i) = true /\ utf8_valid (i_copyright i) = true /\ utf8_valid (i_license i) = true /\
  utf8_valid (i_version i) = true /\ utf8_valid (i_software i) = true.

Lemma dec_enc_phrase p b rest :
  phrase_ok p -> enc_phrase p = Some b -> dec_phrase (b ++ rest) = Some (p, rest).
Proof.
  intros (Hs & Hf & Ht) He. unfold enc_phrase in He.
  apply obind_some in He as (body & Hb & He).
  apply oapp_some in Hb as (x12 & x3 & H12 & H3 & ->).
  apply oapp_some in H12 as (x1 & x2 & H1 & H2 & ->).
  unfold dec_phrase. eapply dec_enc_sequence; [|exact He].
  unfold dec_phrase_body.
  rewrite <- !app_assoc.
  rewrite (dec_enc_utf8string _ _ _ Hs H1).
  rewrite (dec_enc_uint 4 _ _ _ ltac:(lia) Hf H2).
  destruct p as [s f [t|]]; cbn [p_last p_str p_freq] in *.
  - rewrite <- (app_nil_r x3). rewrite (dec_enc_ctx0_some _ _ _ Ht H3). reflexivity.
  - cbn [enc_ctx0_u64_opt] in H3. injection H3 as <-. reflexivity.
Qed.

Lemma enc_phrase_nonempty p b : enc_phrase p = Some b -> b <> [].
Proof.
  unfold enc_phrase. intros He. apply obind_some in He as (body & _ & He).
  eapply enc_tlv_nonempty; exact He.
Qed.

Lemma dec_phrases_enc ps : forall b fuel,
  Forall phrase_ok ps -> enc_phrases ps = Some b -> (length ps <= fuel)%nat ->
  dec_phrases fuel b = ps.
Proof.
  induction ps as [|p ps IH]; intros b fuel Hok He Hf.
  - cbn in He. injection He as <-. destruct fuel; reflexivity.
  - cbn [enc_phrases] in He. apply oapp_some in He as (x & y & Hx & Hy & ->).
    destruct fuel as [|fuel]; [cbn in Hf; lia|].
    cbn [dec_phrases].
    pose proof (enc_phrase_nonempty _ _ Hx) as Hne.
    destruct (x ++ y) as [|z zs] eqn:Exy.
    { destruct x; [congruence|discriminate]. }
    rewrite <- Exy.
    inversion Hok as [|? ? Hp Hps]; subst.
    rewrite (dec_enc_phrase _ _ _ Hp Hx).
    f_equal. apply IH; [assumption|assumption|cbn in Hf; lia].
Qed.

Lemma enc_phrases_length ps b : enc_phrases ps = Some b -> (length ps <= length b)%nat.
Proof.
  revert b. induction ps as [|p ps IH]; intros b He; [cbn; lia|].
  cbn [enc_phrases] in He. apply oapp_some in He as (x & y & Hx & Hy & ->).
  specialize (IH _ Hy). pose proof (enc_phrase_nonempty _ _ Hx).
  rewrite app_length. cbn [length]. destruct x; [congruence|cbn [length]; lia].
Qed.

(* the leaf slice written by `write` decodes to exactly the phrases that were encoded *)
Lemma phrases_of_slice_enc ps b :
  Forall phrase_ok ps -> enc_phrases ps = Some b -> phrases_of_slice b = ps.
Proof.
  intros Hok He. unfold phrases_of_slice. apply dec_phrases_enc; try assumption.
  eapply enc_phrases_length; eassumption.
Qed.

Lemma dec_enc_info i b rest : info_ok i -> enc_info i = Some b -> dec_info (b ++ rest) = Some (i, rest).
Proof.
  intros (H1 & H2 & H3 & H4 & H5) He. unfold enc_info in He.
  apply obind_some in He as (body & Hb & He).
  apply oapp_some in Hb as (x1234 & x5 & Hb & E5 & ->).
  apply oapp_some in Hb as (x123 & x4 & Hb & E4 & ->).
  apply oapp_some in Hb as (x12 & x3 & Hb & E3 & ->).
  apply oapp_some in Hb as (x1 & x2 & E1 & E2 & ->).
  unfold dec_info. eapply dec_enc_sequence; [|exact He].
  unfold dec_info_body. rewrite <- !app_assoc.
  rewrite (dec_enc_utf8string _ _ _ H1 E1), (dec_enc_utf8string _ _ _ H2 E2),
    (dec_enc_utf8string _ _ _ H3 E3), (dec_enc_utf8string _ _ _ H4 E4).
  rewrite <- (app_nil_r x5). rewrite (dec_enc_utf8string _ _ _ H5 E5).
  destruct i; reflexivity.
Qed.

Lemma magic_valid : utf8_valid MAGIC = true.
Proof. reflexivity. Qed.

Lemma version_small : dict_format_version < 256 ^ N.of_nat 1.
Proof. vm_compute. reflexivity. Qed.

(* the whole file: whatever enc_file produces (within Length::MAX) is decoded
   back to the same metadata, index bytes and phrase bytes *)
Lemma dec_enc_file i idx data b :
  info_ok i -> enc_file i idx data = Some b -> len_N b <= DER_MAX ->
  dec_file b = Some (i, idx, data).
Proof.
  intros Hi He Hl. unfold enc_file in He.
  apply obind_some in He as (body & Hb & He).
  apply oapp_some in Hb as (x1234 & x5 & Hb & E5 & ->).
  apply oapp_some in Hb as (x123 & x4 & Hb & E4 & ->).
  apply oapp_some in Hb as (x12 & x3 & Hb & E3 & ->).
  apply oapp_some in Hb as (x1 & x2 & E1 & E2 & ->).
  unfold dec_file.
  destruct (DER_MAX <? len_N b) eqn:E; b2p E; [lia|].
  rewrite <- (app_nil_r b).
  erewrite dec_enc_sequence; [reflexivity| |exact He].
  unfold dec_file_body. rewrite <- !app_assoc.
  rewrite (dec_enc_utf8string _ _ _ magic_valid E1).
  rewrite (dec_enc_uint 1 _ _ _ ltac:(lia) version_small E2).
  assert (Hm : bytes_eqb MAGIC MAGIC = true) by reflexivity.
  rewrite Hm, N.eqb_refl. cbn [andb negb].
  rewrite (dec_enc_info _ _ _ Hi E3).
  rewrite (dec_enc_octets _ _ _ E4).
  rewrite <- (app_nil_r x5).
  unfold enc_sequence in E5. rewrite (dec_enc_tlv _ _ _ _ E5). reflexivity.
Qed.

(* ---- records <-> bytes ---- *)
Definition rec_ok (r : rec) : Prop := r_begin r < U32 /\ r_len r < U16 /\ r_syl r < U16.

Lemma parse_recs_cons r l : rec_ok r -> parse_recs (enc_rec r ++ l) = r :: parse_recs l.
Proof.
  destruct r as [[a b] c]. intros (Ha & Hb & Hc). cbn [r_begin r_len r_syl fst snd] in *.
  unfold enc_rec, be32, be16. cbn [r_begin r_len r_syl fst snd app].
  cbn [parse_recs]. unfold U32, U16 in *.
  f_equal. f_equal; [f_equal|]; lia.
Qed.

Lemma parse_enc_recs rs : Forall rec_ok rs -> parse_recs (enc_recs rs) = rs.
Proof.
  induction rs as [|r rs IH]; intros H; [reflexivity|].
  inversion H as [|? ? Hr Hrs]; subst.
  unfold enc_recs in *.
  change (flat_map enc_rec (r :: rs)) with (enc_rec r ++ flat_map enc_rec rs).
  rewrite parse_recs_cons by assumption. rewrite IH by assumption. reflexivity.
Qed.

Lemma enc_recs_app a b : enc_recs (a ++ b) = enc_recs a ++ enc_recs b.
Proof. unfold enc_recs. apply flat_map_app. Qed.
