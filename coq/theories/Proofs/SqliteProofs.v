(* Refinement of the relational model of SqliteDictionary (Model/SqliteDict.v) to the
   specification map, frequency component, for every history whose updates do not lower
   the frequency (the known finding C09-sqlite-lowered-user-freq: the SELECT reports
   max(freq, user_freq)). *)
From Coq Require Import NArith List Bool Lia Permutation.
From LC Require Import Base.Lib Model.Dict Model.TrieBuf Model.SqliteDict
  Proofs.DictProofs Proofs.TrieProofs Proofs.TrieBufProofs.
Import ListNotations.
Open Scope N_scope.

Definition d_pk (r : drow) : pkey := (d_key r, d_text r).

Lemma d_is_pk k p r : d_is k p r = pkey_eqb (d_pk r) (k, p).
Proof. reflexivity. Qed.

(* the same history on the map; add_phrase is INSERT OR REPLACE *)
Definition sq_spec_step (s : spec) (o : op) : spec :=
  match o with
  | OAdd k ph => s_set (k, ph_text ph) (ph_freq ph, None) s
  | OUpdate k p _ uf t => s_set (k, p) (uf, Some t) s
  | ORemove k p => s_unset (k, p) s
  | _ => s
  end.
Definition sq_spec_run (s : spec) (ops : list op) : spec := fold_left sq_spec_step ops s.

(* histories outside the known finding: an update never lowers the frequency, neither below
   the one passed as the phrase's own nor below the one currently stored; times fit an i64 *)
Definition sq_op_ok (s : spec) (o : op) : Prop :=
  match o with
  | OUpdate k p f uf t =>
      f <= uf /\ t <= I64_MAX /\
      match s_find (k, p) s with Some (g, _) => g <= uf | None => True end
  | _ => True
  end.
Fixpoint sq_hist_ok (s : spec) (ops : list op) : Prop :=
  match ops with
  | [] => True
  | o :: ops' => sq_op_ok s o /\ sq_hist_ok (sq_spec_step s o) ops'
  end.

Definition sq_row (db : sqdb) (x : pkey) : option drow := find (d_is (fst x) (snd x)) (sq_dict db).
Definition sq_get (db : sqdb) (x : pkey) : option N :=
  match sq_row db x with Some r => Some (fst (joined db r)) | None => None end.

Definition sq_wf (db : sqdb) : Prop :=
  NoDup (map d_pk (sq_dict db)) /\
  NoDup (map u_id (sq_user db)) /\
  (forall r id, In r (sq_dict db) -> d_uid r = Some id -> In id (map u_id (sq_user db))) /\
  (forall r r' id, In r (sq_dict db) -> In r' (sq_dict db) -> d_uid r = Some id -> d_uid r' = Some id -> r = r') /\
  sq_ro db = false.

Definition sq_refines (db : sqdb) (s : spec) : Prop :=
  sq_wf db /\ spec_wf s /\ forall x, sq_get db x = option_map fst (s_find x s).

(* ---- rows ---- *)

Lemma find_pk_spec (t : list drow) x r :
  NoDup (map d_pk t) -> (find (d_is (fst x) (snd x)) t = Some r <-> In r t /\ d_pk r = x).
Proof.
  induction t as [|a t IH]; cbn [find map In]; intro Hnd.
  - split; [discriminate | intros [[] _]].
  - inversion Hnd as [|? ? Hn Hd]; subst. rewrite d_is_pk. replace (fst x, snd x) with x by now destruct x.
    destruct (pkey_eqb (d_pk a) x) eqn:E.
    + apply pkey_eqb_eq in E. split.
      * intros [= <-]. auto.
      * intros [[<-|Hin] Hp]; [reflexivity|]. exfalso. apply Hn. rewrite E, <- Hp. now apply in_map.
    + apply pkey_eqb_neq in E. rewrite (IH Hd). split.
      * intros [H1 H2]. auto.
      * intros [[<-|Hin] Hp]; [contradiction | auto].
Qed.

Lemma find_pk_none (t : list drow) x : find (d_is (fst x) (snd x)) t = None <-> ~ In x (map d_pk t).
Proof.
  induction t as [|a t IH]; cbn [find map In]; [tauto|].
  rewrite d_is_pk. replace (fst x, snd x) with x by now destruct x.
  destruct (pkey_eqb (d_pk a) x) eqn:E.
  - apply pkey_eqb_eq in E. split; [discriminate | intro H; exfalso; apply H; now left].
  - apply pkey_eqb_neq in E. rewrite IH. tauto.
Qed.

Lemma d_replace_In r t a : In a (d_replace r t) <-> a = r \/ (In a t /\ d_pk a <> d_pk r).
Proof.
  unfold d_replace. cbn [In]. rewrite filter_In, negb_true_iff, d_is_pk, pkey_eqb_neq.
  unfold d_pk. split; intros [H|H]; auto.
Qed.

Lemma d_replace_NoDup r t : NoDup (map d_pk t) -> NoDup (map d_pk (d_replace r t)).
Proof.
  intro H. unfold d_replace. cbn [map]. constructor.
  - intro Hin. apply in_map_iff in Hin as [a [Ha Hi]]. apply filter_In in Hi as [_ Hi].
    apply negb_true_iff in Hi. rewrite d_is_pk in Hi. apply pkey_eqb_neq in Hi. apply Hi. exact Ha.
  - now apply NoDup_map_filter.
Qed.

Lemma find_replace_same r t : find (d_is (d_key r) (d_text r)) (d_replace r t) = Some r.
Proof. unfold d_replace. cbn [find]. rewrite d_is_pk. unfold d_pk. now rewrite pkey_eqb_refl. Qed.

Lemma find_filter_other (t : list drow) k p k' p' :
  (k', p') <> (k, p) ->
  find (d_is k' p') (filter (fun a => negb (d_is k p a)) t) = find (d_is k' p') t.
Proof.
  intro Hne. induction t as [|a t IH]; cbn [filter find]; [reflexivity|].
  destruct (d_is k p a) eqn:E; cbn [negb].
  - destruct (d_is k' p' a) eqn:E2; [|exact IH]. exfalso. apply Hne.
    rewrite d_is_pk in E, E2. apply pkey_eqb_eq in E. apply pkey_eqb_eq in E2. congruence.
  - cbn [find]. destruct (d_is k' p' a); [reflexivity | exact IH].
Qed.

Lemma find_replace_other r t y :
  y <> d_pk r -> find (d_is (fst y) (snd y)) (d_replace r t) = find (d_is (fst y) (snd y)) t.
Proof.
  intro Hne. unfold d_replace. cbn [find].
  destruct (d_is (fst y) (snd y) r) eqn:E.
  - exfalso. apply Hne. rewrite d_is_pk in E. apply pkey_eqb_eq in E. rewrite E. now destruct y.
  - apply find_filter_other. destruct y. exact Hne.
Qed.

(* ---- the user table ---- *)

Lemma u_find_In id t u : u_find id t = Some u -> In u t /\ u_id u = id.
Proof.
  unfold u_find. intro H. apply find_some in H as [H1 H2]. apply N.eqb_eq in H2. auto.
Qed.

Lemma u_find_none id t : u_find id t = None <-> ~ In id (map u_id t).
Proof.
  unfold u_find. induction t as [|a t IH]; cbn [find map In]; [tauto|].
  destruct (N.eqb_spec (u_id a) id) as [E|E].
  - split; [discriminate | intro H; exfalso; apply H; now left].
  - rewrite IH. tauto.
Qed.

Lemma u_next_id_fresh t : forall u, In u t -> u_id u < u_next_id t.
Proof.
  unfold u_next_id.
  enough (G : forall m u, In u t -> u_id u <= fold_left (fun m r => N.max m (u_id r)) t m) by
    (intros u Hu; specialize (G 0 u Hu); lia).
  induction t as [|a t IH]; intros m u Hu; [destruct Hu|]. cbn [fold_left]. destruct Hu as [->|Hu].
  - clear IH. generalize (N.max m (u_id u)) (N.le_max_r m (u_id u)). clear. revert t.
    enough (G : forall t x y, x <= y -> x <= fold_left (fun m r => N.max m (u_id r)) t y) by (intros; now apply G).
    induction t as [|a t IH]; intros x y H; cbn [fold_left]; [assumption|]. apply IH. lia.
  - now apply IH.
Qed.

Lemma u_find_app_old id t u' : In id (map u_id t) -> u_find id (t ++ [u']) = u_find id t.
Proof.
  intro H. unfold u_find. induction t as [|a t IH]; cbn [find app map In] in *; [destruct H|].
  destruct (N.eqb_spec (u_id a) id); [reflexivity|]. apply IH. destruct H; [contradiction | assumption].
Qed.

Lemma u_find_app_new id t u' : ~ In id (map u_id t) -> u_id u' = id -> u_find id (t ++ [u']) = Some u'.
Proof.
  intros H E. unfold u_find. induction t as [|a t IH]; cbn [find app map In] in *.
  - subst. now rewrite N.eqb_refl.
  - destruct (N.eqb_spec (u_id a) id) as [E2|E2]; [exfalso; apply H; now left|]. apply IH. tauto.
Qed.

Lemma u_find_map_same id uf t :
  In id (map u_id t) ->
  exists u, u_find id (map (fun u => if u_id u =? id then mkU (u_id u) uf (u_time u) else u) t) = Some u /\ u_freq u = uf.
Proof.
  unfold u_find. induction t as [|a t IH]; cbn [find map In]; [intros []|]. intro H.
  destruct (N.eqb_spec (u_id a) id) as [E|E].
  - cbn [u_id]. rewrite E, N.eqb_refl. eexists. split; [reflexivity | reflexivity].
  - destruct (N.eqb_spec (u_id a) id); [contradiction|]. apply IH. destruct H; [contradiction | assumption].
Qed.

Lemma u_find_map_other id id' uf t :
  id' <> id ->
  u_find id' (map (fun u => if u_id u =? id then mkU (u_id u) uf (u_time u) else u) t) = u_find id' t.
Proof.
  intro Hne. unfold u_find. induction t as [|a t IH]; cbn [find map]; [reflexivity|].
  destruct (N.eqb_spec (u_id a) id) as [E|E]; cbn [u_id].
  - destruct (N.eqb_spec (u_id a) id'); [congruence | exact IH].
  - destruct (N.eqb_spec (u_id a) id'); [reflexivity | exact IH].
Qed.

Lemma map_ids id uf t :
  map u_id (map (fun u => if u_id u =? id then mkU (u_id u) uf (u_time u) else u) t) = map u_id t.
Proof.
  rewrite map_map. apply map_ext. intro u. now destruct (u_id u =? id).
Qed.

(* ---- one step ---- *)

Lemma joined_user_irrelevant db db' r :
  (forall id, d_uid r = Some id -> u_find id (sq_user db') = u_find id (sq_user db)) ->
  joined db' r = joined db r.
Proof.
  intro H. unfold joined. destruct (d_uid r) as [id|]; [|reflexivity]. now rewrite H.
Qed.

Lemma sq_get_intro db x r : sq_row db x = Some r -> sq_get db x = Some (fst (joined db r)).
Proof. unfold sq_get. now intros ->. Qed.

Lemma sq_refines_add db s k ph :
  sq_refines db s -> sq_refines (fst (sq_add db k ph)) (s_set (k, ph_text ph) (ph_freq ph, None) s).
Proof.
  intros [[W1 [W2 [W3 [W4 W5]]]] [Hs Hr]]. unfold sq_add. rewrite W5. cbn [fst].
  set (r := mkD k (ph_text ph) (ph_freq ph) None None).
  split; [|split].
  - unfold sq_wf. cbn [sq_dict sq_user sq_ro]. split; [now apply d_replace_NoDup|]. split; [assumption|]. split; [|split; [|reflexivity]].
    + intros a id Ha Hu. apply d_replace_In in Ha as [->|[Ha _]]; [discriminate | eauto].
    + intros a a' id Ha Ha' Hu Hu'. apply d_replace_In in Ha as [->|[Ha _]]; [discriminate|].
      apply d_replace_In in Ha' as [->|[Ha' _]]; [discriminate | eauto].
  - now apply spec_wf_set.
  - intro x. rewrite s_find_set. unfold sq_get, sq_row. cbn [sq_dict].
    destruct (pkey_eqb x (k, ph_text ph)) eqn:E.
    + apply pkey_eqb_eq in E. subst x. cbn [fst snd].
      change (find (d_is k (ph_text ph)) (d_replace r (sq_dict db))) with (find (d_is (d_key r) (d_text r)) (d_replace r (sq_dict db))).
      rewrite find_replace_same. unfold joined. cbn [d_uid d_freq r fst option_map]. f_equal. lia.
    + apply pkey_eqb_neq in E. rewrite find_replace_other by exact E.
      rewrite <- Hr. unfold sq_get, sq_row. destruct (find _ (sq_dict db)); reflexivity.
Qed.

Lemma sq_refines_remove db s k p :
  sq_refines db s -> sq_refines (sq_remove db k p) (s_unset (k, p) s).
Proof.
  intros [[W1 [W2 [W3 [W4 W5]]]] [Hs Hr]]. unfold sq_remove.
  split; [|split].
  - unfold sq_wf. cbn [sq_dict sq_user sq_ro]. split; [now apply NoDup_map_filter|]. split; [assumption|].
    split; [|split; [|assumption]].
    + intros a id Ha Hu. apply filter_In in Ha as [Ha _]. eauto.
    + intros a a' id Ha Ha' Hu Hu'. apply filter_In in Ha as [Ha _]. apply filter_In in Ha' as [Ha' _]. eauto.
  - now apply spec_wf_unset.
  - intro x. rewrite s_find_unset. unfold sq_get, sq_row. cbn [sq_dict].
    destruct (pkey_eqb x (k, p)) eqn:E.
    + apply pkey_eqb_eq in E. subst x. cbn [fst snd option_map].
      assert (H : find (d_is k p) (filter (fun a => negb (d_is k p a)) (sq_dict db)) = None).
      { apply (find_pk_none _ (k, p)). intro Hin. apply in_map_iff in Hin as [a [Ha Hi]].
        apply filter_In in Hi as [_ Hi]. apply negb_true_iff in Hi. rewrite d_is_pk in Hi.
        apply pkey_eqb_neq in Hi. contradiction. }
      now rewrite H.
    + apply pkey_eqb_neq in E. rewrite (find_filter_other (sq_dict db) k p (fst x) (snd x)) by (destruct x; exact E).
      rewrite <- Hr. unfold sq_get, sq_row. destruct (find _ (sq_dict db)); reflexivity.
Qed.

Lemma sq_update_new db s k p f uf t :
  sq_refines db s -> f <= uf ->
  sq_refines (mkSq (d_replace (mkD k p f None (Some (u_next_id (sq_user db)))) (sq_dict db))
                   (sq_user db ++ [mkU (u_next_id (sq_user db)) uf t]) false)
             (s_set (k, p) (uf, Some t) s).
Proof.
  intros [[W1 [W2 [W3 [W4 W5]]]] [Hs Hr]] Hf.
  set (id := u_next_id (sq_user db)). set (r := mkD k p f None (Some id)). set (u := mkU id uf t).
  assert (Hfresh : ~ In id (map u_id (sq_user db))).
  { intro Hin. apply in_map_iff in Hin as [a [Ha Hi]]. pose proof (u_next_id_fresh (sq_user db) a Hi). unfold id in Ha. lia. }
  split; [|split].
  - unfold sq_wf. cbn [sq_dict sq_user sq_ro]. split; [now apply d_replace_NoDup|].
    rewrite map_app. cbn [map u_id u].
    split; [now apply NoDup_snoc|]. split; [|split; [|reflexivity]].
    + intros a id0 Ha Hu. apply in_app_iff. apply d_replace_In in Ha as [->|[Ha _]].
      * cbn [d_uid r] in Hu. injection Hu as <-. right. now left.
      * left. eauto.
    + intros a a' id0 Ha Ha' Hu Hu'.
      apply d_replace_In in Ha as [->|[Ha _]]; apply d_replace_In in Ha' as [->|[Ha' _]].
      * reflexivity.
      * cbn [d_uid r] in Hu. injection Hu as <-. exfalso. apply Hfresh. eauto.
      * cbn [d_uid r] in Hu'. injection Hu' as <-. exfalso. apply Hfresh. eauto.
      * eauto.
  - now apply spec_wf_set.
  - intro x. rewrite s_find_set. unfold sq_get, sq_row. cbn [sq_dict].
    destruct (pkey_eqb x (k, p)) eqn:E.
    + apply pkey_eqb_eq in E. subst x. cbn [fst snd].
      change (find (d_is k p) (d_replace r (sq_dict db))) with (find (d_is (d_key r) (d_text r)) (d_replace r (sq_dict db))).
      rewrite find_replace_same. cbn [option_map fst]. f_equal. unfold joined. cbn [d_uid r sq_user d_freq].
      rewrite (u_find_app_new id (sq_user db) u Hfresh eq_refl). cbn [fst u_freq u]. lia.
    + apply pkey_eqb_neq in E. rewrite find_replace_other by exact E.
      rewrite <- Hr. unfold sq_get, sq_row.
      destruct (find (d_is (fst x) (snd x)) (sq_dict db)) as [r'|] eqn:Er'; [|reflexivity].
      f_equal. f_equal. apply joined_user_irrelevant. cbn [sq_user]. intros id' Hu'.
      apply u_find_app_old. apply find_some in Er' as [Hin _]. eauto.
Qed.

Lemma sq_refines_update db s k p f uf t :
  sq_refines db s -> sq_op_ok s (OUpdate k p f uf t) ->
  sq_refines (fst (sq_update db k p f uf t)) (s_set (k, p) (uf, Some t) s).
Proof.
  intros Href [Hf [Ht Hg]]. pose proof Href as [[W1 [W2 [W3 [W4 W5]]]] [Hs Hr]]. unfold sq_update. rewrite W5.
  destruct (find (d_is k p) (sq_dict db)) as [r|] eqn:Er.
  - pose proof (proj1 (find_pk_spec (sq_dict db) (k, p) r W1) Er) as [Hrin Hrpk].
    destruct (d_uid r) as [id|] eqn:Eu.
    + (* UPDATE userphrase_v2 SET user_freq = ? WHERE id = ? *)
      cbn [fst].
      assert (Hid : In id (map u_id (sq_user db))) by eauto.
      split; [|split].
      * unfold sq_wf. cbn [sq_dict sq_user sq_ro]. split; [assumption|]. rewrite map_ids.
        split; [assumption|]. split; [assumption|]. split; [assumption | reflexivity].
      * now apply spec_wf_set.
      * intro x. rewrite s_find_set. unfold sq_get, sq_row. cbn [sq_dict].
        destruct (pkey_eqb x (k, p)) eqn:E.
        -- apply pkey_eqb_eq in E. subst x. cbn [fst snd]. rewrite Er. cbn [option_map fst]. f_equal.
           unfold joined. cbn [sq_user]. rewrite Eu.
           destruct (u_find_map_same id uf (sq_user db) Hid) as [u [-> Hu]]. cbn [fst]. rewrite Hu.
           (* the stored frequency is not above the new one *)
           specialize (Hr (k, p)). unfold sq_get, sq_row in Hr. cbn [fst snd] in Hr. rewrite Er in Hr.
           destruct (s_find (k, p) s) as [[g tm]|]; [|discriminate]. cbn [option_map fst] in Hr.
           injection Hr as Hr. unfold joined in Hr. rewrite Eu in Hr.
           destruct (u_find id (sq_user db)); cbn [fst] in Hr; lia.
        -- apply pkey_eqb_neq in E. rewrite <- Hr. unfold sq_get, sq_row.
           destruct (find (d_is (fst x) (snd x)) (sq_dict db)) as [r'|] eqn:Er'; [|reflexivity].
           f_equal. f_equal. apply joined_user_irrelevant. cbn [sq_user]. intros id' Hu'.
           apply u_find_map_other. intro Heq. subst id'.
           pose proof (proj1 (find_pk_spec (sq_dict db) x r' W1) Er') as [Hr'in Hr'pk].
           assert (r' = r) by eauto. subst r'. congruence.
    + (* the row exists without a userphrase record: a new record and INSERT OR REPLACE *)
      destruct (N.ltb_spec I64_MAX t); [lia|]. cbn [fst]. now apply sq_update_new.
  - destruct (N.ltb_spec I64_MAX t); [lia|]. cbn [fst]. now apply sq_update_new.
Qed.

Lemma sq_refines_step db s o :
  sq_refines db s -> sq_op_ok s o -> sq_refines (fst (sq_step db o)) (sq_spec_step s o).
Proof.
  intros Href Hok. destruct o as [k ph|k p f0 uf t|k p|k n st| | |w]; cbn [sq_step sq_spec_step]; try exact Href.
  - pose proof (sq_refines_add db s k ph Href) as H. destruct (sq_add db k ph). exact H.
  - pose proof (sq_refines_update db s k p f0 uf t Href Hok) as H. destruct (sq_update db k p f0 uf t). exact H.
  - now apply sq_refines_remove.
Qed.

Lemma sq_run_fst db ops : fst (sq_run db ops) = fold_left (fun st o => fst (sq_step st o)) ops db.
Proof.
  revert db. induction ops as [|o ops IH]; intro db; cbn [sq_run fold_left]; [reflexivity|].
  destruct (sq_step db o) as [d1 r] eqn:E1. destruct (sq_run d1 ops) as [d2 rs] eqn:E2.
  cbn [fst]. rewrite <- IH, E2. reflexivity.
Qed.

Lemma sq_refines_run db s ops :
  sq_refines db s -> sq_hist_ok s ops -> sq_refines (fst (sq_run db ops)) (sq_spec_run s ops).
Proof.
  rewrite sq_run_fst. unfold sq_spec_run. revert db s.
  induction ops as [|o ops IH]; intros db s H Hok; cbn [fold_left]; [assumption|].
  destruct Hok as [Ho Hok]. apply IH; [now apply sq_refines_step | assumption].
Qed.

Lemma sq_refines_empty : sq_refines sq_empty [].
Proof.
  split; [|split].
  - unfold sq_wf, sq_empty. cbn. split; [constructor|]. split; [constructor|].
    split; [intros ? ? []|]. split; [intros ? ? ? []| reflexivity].
  - constructor.
  - reflexivity.
Qed.

(* ---- observations ---- *)

Lemma sq_sort_ins_perm x l : Permutation (sq_sort_ins x l) (x :: l).
Proof.
  induction l as [|y l IH]; cbn [sq_sort_ins]; [reflexivity|].
  destruct (sq_cmp x y); try reflexivity; (rewrite IH; apply perm_swap).
Qed.

Lemma sq_sort_perm l : Permutation (sq_sort l) l.
Proof.
  unfold sq_sort.
  enough (G : forall acc, Permutation (fold_left (fun a x => sq_sort_ins x a) l acc) (acc ++ l)) by apply (G []).
  induction l as [|x l IH]; intro acc; cbn [fold_left].
  - now rewrite app_nil_r.
  - rewrite IH, sq_sort_ins_perm. cbn [app]. apply Permutation_middle.
Qed.

Lemma sq_lookup_perm db k :
  Permutation (sq_lookup db k USIZE_MAX)
              (map (row_phrase db) (filter (fun r => seq_eqb (d_key r) k) (sq_dict db))).
Proof.
  unfold sq_lookup. rewrite truncate_usize_max.
  rewrite (Permutation_map snd (sq_sort_perm _)). rewrite map_map. cbn [snd]. reflexivity.
Qed.

Lemma sq_lookup_In db k ph :
  In ph (sq_lookup db k USIZE_MAX) <-> exists r, In r (sq_dict db) /\ d_key r = k /\ ph = row_phrase db r.
Proof.
  split.
  - intro H. apply (Permutation_in _ (sq_lookup_perm db k)) in H. apply in_map_iff in H as [r [<- Hr]].
    apply filter_In in Hr as [Hr Hk]. apply seq_eqb_eq in Hk. eauto.
  - intros [r [Hr [Hk ->]]]. apply (Permutation_in _ (Permutation_sym (sq_lookup_perm db k))).
    apply in_map. apply filter_In. split; [assumption | now apply seq_eqb_eq].
Qed.

(* each phrase once *)
Lemma sq_lookup_NoDup db k : sq_wf db -> NoDup (texts (sq_lookup db k USIZE_MAX)).
Proof.
  intros [W1 _]. unfold texts.
  apply (Permutation_NoDup (Permutation_sym (Permutation_map ph_text (sq_lookup_perm db k)))).
  rewrite map_map. cbn [row_phrase ph_text].
  assert (G : forall t, NoDup (map d_pk t) -> NoDup (map d_text (filter (fun r => seq_eqb (d_key r) k) t))).
  { clear. induction t as [|a t IH]; cbn [map filter]; intro Hnd; [constructor|].
    inversion Hnd as [|? ? Hn Hd]; subst. destruct (seq_eqb (d_key a) k) eqn:E; [|auto].
    cbn [map]. constructor; [|auto]. intro Hin. apply Hn.
    apply in_map_iff in Hin as [b [Hb Hi]]. apply filter_In in Hi as [Hi Hk].
    apply seq_eqb_eq in E. apply seq_eqb_eq in Hk. apply in_map_iff. exists b. split; [|assumption].
    unfold d_pk. congruence. }
  now apply G.
Qed.

(* exactly the live phrases of the key, with the frequency of the map *)
Lemma sq_lookup_exact db s k p g :
  sq_refines db s ->
  ((exists tm, In (mkPhrase p g tm) (sq_lookup db k USIZE_MAX)) <-> (exists tm, s_find (k, p) s = Some (g, tm))).
Proof.
  intros [[W1 _] [_ Hr]]. specialize (Hr (k, p)). unfold sq_get, sq_row in Hr. cbn [fst snd] in Hr. split.
  - intros [tm Hin]. apply sq_lookup_In in Hin as [r [Hin [Hk Hph]]].
    unfold row_phrase in Hph. injection Hph as Hp Hg Ht.
    assert (Hf : find (d_is k p) (sq_dict db) = Some r).
    { apply (find_pk_spec (sq_dict db) (k, p) r W1). split; [assumption|]. unfold d_pk. congruence. }
    rewrite Hf in Hr. destruct (s_find (k, p) s) as [[g' tm']|]; [|discriminate].
    cbn [option_map fst] in Hr. injection Hr as Hr. exists tm'. rewrite Hg, Hr. reflexivity.
  - intros [tm Hs]. rewrite Hs in Hr. cbn [option_map fst] in Hr.
    destruct (find (d_is k p) (sq_dict db)) as [r|] eqn:Hf; [|discriminate]. injection Hr as Hr.
    apply (find_pk_spec (sq_dict db) (k, p) r W1) in Hf as [Hin Hpk]. unfold d_pk in Hpk. injection Hpk as Hk Hp.
    exists (snd (joined db r)). apply sq_lookup_In. exists r. split; [assumption|]. split; [assumption|].
    unfold row_phrase. now rewrite Hp, Hr.
Qed.

Lemma sq_entries_NoDup db : sq_wf db -> NoDup (map pk (sq_entries db)).
Proof.
  intros [W1 _]. unfold sq_entries. rewrite map_map. unfold pk. cbn [fst snd row_phrase ph_text]. exact W1.
Qed.

(* enumeration: exactly the live entries, each once *)
Lemma sq_entries_exact db s k p g :
  sq_refines db s ->
  ((exists tm, In (k, mkPhrase p g tm) (sq_entries db)) <-> (exists tm, s_find (k, p) s = Some (g, tm))).
Proof.
  intros Href. rewrite <- (sq_lookup_exact db s k p g Href). unfold sq_entries. split.
  - intros [tm Hin]. exists tm. apply in_map_iff in Hin as [r [Hr Hin]]. inversion Hr as [[Hk Hph]].
    apply sq_lookup_In. exists r. split; [assumption|]. split; reflexivity.
  - intros [tm Hin]. exists tm. apply sq_lookup_In in Hin as [r [Hin [Hk Hph]]].
    apply in_map_iff. exists r. split; [congruence | assumption].
Qed.

Lemma sq_first_n db k n : sq_lookup db k n = truncate_usize n (sq_lookup db k USIZE_MAX).
Proof. reflexivity. Qed.
