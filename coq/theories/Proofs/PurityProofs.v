(* C17: reset = fresh editor with the same configuration; getters are functions of the state;
   two contexts that share nothing do not influence each other.  Histories of any length. *)
From Coq Require Import NArith List Bool Arith Lia.
From LC Require Import Base.Lib Gen.Editor_gen Model.Syllable Model.Composition Model.Conversion Model.Editor Model.EditorRun
     Model.EdInst Proofs.EditorWitness.
Import ListNotations.
Open Scope nat_scope.

Section Purity.
Context {D SY : Type} (dops : dict_ops D) (sops : syl_ops SY) (conv : conv_fn D).
Notation shared' := (shared D SY).
Notation editor' := (editor D SY).

(* ---- reset ---- *)
(* a freshly created editor (init_editor) given a configuration: options, engine object and the
   pending-flush counter of the user dictionary *)
Definition with_config (e0 : editor') (o : options) (k : engine_kind) (dl : N) : editor' :=
  let s0 := sh e0 in
  mkEditor (mkShared (com s0) (syl s0) (dict s0) (abbr s0) (sym_sel s0) (lifetime s0) o k (last s0) dl (nth s0)
                     (commit_buf s0) (notice s0)) (st e0).

(* the fresh editor with the same dictionaries, tables, tick counter and configuration as e *)
Definition fresh_like (e : editor') : editor' :=
  let s := sh e in
  with_config (init_editor (dict s) (so_clear sops (syl s)) (abbr s) (sym_sel s) (lifetime s)) (opts s) (engine s) (dirty s).

(* Editor::clear in EVERY state (no hypothesis on e: any editor state, any buffer, any saved
   cursors, any pending output) yields exactly that fresh editor *)
Lemma reset_is_fresh (e : editor') : ed_clear sops e = fresh_like e.
Proof. reflexivity. Qed.

(* hence every later history behaves as on the fresh editor: same states, same results *)
Lemma reset_then_history (e : editor') ops : run dops sops conv (ed_clear sops e) ops = run dops sops conv (fresh_like e) ops.
Proof. now rewrite reset_is_fresh. Qed.

(* reset is idempotent and forgets everything but the configuration *)
Lemma reset_forgets (e1 e2 : editor') :
  dict (sh e1) = dict (sh e2) -> so_clear sops (syl (sh e1)) = so_clear sops (syl (sh e2)) ->
  abbr (sh e1) = abbr (sh e2) -> sym_sel (sh e1) = sym_sel (sh e2) -> lifetime (sh e1) = lifetime (sh e2) ->
  opts (sh e1) = opts (sh e2) -> engine (sh e1) = engine (sh e2) -> dirty (sh e1) = dirty (sh e2) ->
  ed_clear sops e1 = ed_clear sops e2.
Proof. intros Hd Hs Ha Hy Hl Ho He Hdl. unfold ed_clear. cbv zeta. now rewrite Hd, Hs, Ha, Hy, Hl, Ho, He, Hdl. Qed.

(* ---- getters ---- *)
(* everything the query functions of the editor return *)
Record observation := mkObs {
  ob_display : list N;
  ob_intervals : list interval;
  ob_cursor : nat;
  ob_len : nat;
  ob_commit : list N;
  ob_notice : list N;
  ob_last : behavior;
  ob_syllable : N;
  ob_selecting : bool;
  ob_entering : bool;
  ob_candidates : outcome (option (list (list N)));
  ob_total_page : outcome (option nat);
  ob_page_no : option nat;
  ob_options : options
}.

Definition observe (e : editor') : observation :=
  let s := sh e in
  mkObs (display conv s) (conversion conv s) (cursor (com s)) (ce_len (com s)) (commit_buf s) (notice s) (last s)
        (so_read sops (syl s)) (is_selecting (st e)) (is_entering (st e))
        (ed_all_candidates dops sops e) (ed_total_page dops sops e) (ed_page_no e) (opts s).

(* a history in which query calls are interleaved with the operations *)
Inductive gop := Do (o : op) | Get.

Fixpoint grun (e : editor') (h : list gop) : outcome (editor' * list observation) :=
  match h with
  | [] => Ok (e, [])
  | Do o :: r => match step dops sops conv e o with
                 | Ok e' => grun e' r
                 | Err x => Err x | Panic s => Panic s | OutOfFuel => OutOfFuel
                 end
  | Get :: r => match grun e r with
                | Ok (e', obs) => Ok (e', observe e :: obs)
                | Err x => Err x | Panic s => Panic s | OutOfFuel => OutOfFuel
                end
  end.

Fixpoint strip (h : list gop) : list op :=
  match h with [] => [] | Do o :: r => o :: strip r | Get :: r => strip r end.

(* inserting any number of queries anywhere changes neither the final state nor whether / where
   the history fails: the operations see exactly the states they see without the queries *)
Lemma queries_do_not_matter h : forall e,
  match grun e h, run dops sops conv e (strip h) with
  | Ok (e1, _), Ok e2 => e1 = e2
  | Panic a, Panic b => a = b
  | Err a, Err b => a = b
  | OutOfFuel, OutOfFuel => True
  | _, _ => False
  end.
Proof.
  induction h as [|[o|] r IH]; intros e; cbn [grun strip run].
  - reflexivity.
  - destruct (step dops sops conv e o) as [e'| | |]; [apply IH | reflexivity | reflexivity | exact I].
  - specialize (IH e). destruct (grun e r) as [[e1 obs]| | |], (run dops sops conv e (strip r)); trivial.
Qed.

(* a query repeated at once returns an equal value *)
Lemma repeated_query_is_equal e r e' o1 o2 obs :
  grun e (Get :: Get :: r) = Ok (e', o1 :: o2 :: obs) -> o1 = o2.
Proof.
  cbn [grun]. destruct (grun e r) as [[e1 obs1]| | |]; try discriminate. intros H. now inversion H.
Qed.

(* the values the queries return depend only on the state at the point of the call: a query
   placed after a prefix p returns what observing the state reached by p returns *)
Lemma query_value p r e e1 e' obs :
  run dops sops conv e p = Ok e1 -> grun e (map Do p ++ Get :: r) = Ok (e', obs) ->
  exists obs', obs = observe e1 :: obs'.
Proof.
  revert e. induction p as [|o p IH]; intros e Hr Hg; cbn [run map app grun] in *.
  - inversion Hr; subst. destruct (grun e1 r) as [[e2 obs2]| | |]; try discriminate. inversion Hg. eauto.
  - destruct (step dops sops conv e o) as [ea| | |]; try discriminate. eapply IH; eassumption.
Qed.

(* ---- two contexts ---- *)
Inductive who := CtxA | CtxB.

Definition step2 (p : editor' * editor') (wo : who * op) : outcome (editor' * editor') :=
  match fst wo with
  | CtxA => match step dops sops conv (fst p) (snd wo) with
            | Ok a => Ok (a, snd p) | Err x => Err x | Panic s => Panic s | OutOfFuel => OutOfFuel end
  | CtxB => match step dops sops conv (snd p) (snd wo) with
            | Ok b => Ok (fst p, b) | Err x => Err x | Panic s => Panic s | OutOfFuel => OutOfFuel end
  end.

Fixpoint run2 (p : editor' * editor') (h : list (who * op)) : outcome (editor' * editor') :=
  match h with
  | [] => Ok p
  | wo :: r => match step2 p wo with
               | Ok p' => run2 p' r
               | Err x => Err x | Panic s => Panic s | OutOfFuel => OutOfFuel
               end
  end.

Definition only (w : who) (h : list (who * op)) : list op :=
  map snd (filter (fun wo => match fst wo, w with CtxA, CtxA | CtxB, CtxB => true | _, _ => false end) h).

(* whatever the interleaving, each context ends where it ends when driven alone with its own
   operations: the other context's operations leave it untouched *)
Lemma contexts_independent h : forall p p', run2 p h = Ok p' ->
  run dops sops conv (fst p) (only CtxA h) = Ok (fst p') /\ run dops sops conv (snd p) (only CtxB h) = Ok (snd p').
Proof.
  induction h as [|[w o] r IH]; intros p p' H; cbn [run2] in H.
  - inversion H. split; reflexivity.
  - unfold step2 in H. cbn [fst snd] in H. destruct w.
    + destruct (step dops sops conv (fst p) o) as [a| | |] eqn:Ea; try discriminate.
      destruct (IH _ _ H) as (Ha & Hb). cbn [fst snd] in Ha, Hb.
      unfold only. cbn [filter fst snd map]. fold (only CtxA r). fold (only CtxB r).
      split; [cbn [run]; now rewrite Ea | exact Hb].
    + destruct (step dops sops conv (snd p) o) as [b| | |] eqn:Eb; try discriminate.
      destruct (IH _ _ H) as (Ha & Hb). cbn [fst snd] in Ha, Hb.
      unfold only. cbn [filter fst snd map]. fold (only CtxA r). fold (only CtxB r).
      split; [exact Ha | cbn [run]; now rewrite Eb].
Qed.

End Purity.

(* ---- the pinned tree kept the saved cursors across a reset (fixed by cd71832) ---- *)
Definition ed_clear_pinned (e : med) : med :=
  let s := sh e in
  mkEditor (mkShared (ce_clear_keep_stack (com s)) (so_clear std_ops (syl s)) (dict s) (abbr s) (sym_sel s) (lifetime s)
                     (opts s) (engine s) BAbsorb (dirty s) 0 [] []) Entering.

Definition d1 : memdict := mkMD [([10268%N], [20874%N], 30%N, 0%N)] [] [].
Definition type_ce4 : list op := [OpKey (key kc_H 104%N); OpKey (key kc_K 107%N); OpKey (key kc_N4 52%N)].
(* two syllables, Home, open the list at the first one *)
Definition before_reset : list op := type_ce4 ++ type_ce4 ++ [OpKey (key kc_Home 65533%N); OpKey (key kc_Down 65533%N)].
(* two syllables again, open the list (cursor at the end), close it with Esc *)
Definition after_reset : list op := type_ce4 ++ type_ce4 ++ [OpKey (key kc_Down 65533%N); OpKey (key kc_Esc 65533%N)].

Definition cursor_after (r : outcome med) : option nat :=
  match r with Ok e => Some (cursor (com (sh e))) | _ => None end.
Definition then_run (r : outcome med) (f : med -> med) (ops : list op) : outcome med :=
  match r with Ok e => run md_ops std_ops conv_single (f e) ops | Err x => Err x | Panic s => Panic s | OutOfFuel => OutOfFuel end.
Definition opened : outcome med := run md_ops std_ops conv_single (m_init d1 [] ss_empty 0%N) before_reset.

(* same history after the reset: the pinned reset ends with the cursor at 0, a fresh editor at 2 *)
Lemma reset_keeps_saved_cursor_pinned_refuted :
  cursor_after (then_run opened ed_clear_pinned after_reset) = Some 0 /\
  cursor_after (then_run opened (fresh_like std_ops) after_reset) = Some 2.
Proof. vm_compute. split; reflexivity. Qed.

Lemma reset_fixed_example :
  match opened with Ok e => is_selecting (st e) | _ => false end = true /\
  cursor_after (then_run opened (ed_clear std_ops) after_reset) = Some 2.
Proof. vm_compute. split; reflexivity. Qed.
