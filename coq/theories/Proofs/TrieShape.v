(* The reader of Model/TrieCodec.v over an index that denotes a tree.

   `shape` is the tree an index describes: per internal record its syllable, an
   optional leaf (data_begin, data_len) and the child shapes in record order.
   `rdenotes recs r sh` says that record r of the index recs is the root of sh.
   Over such an index:
     - entries_run (the iterative DFS of Trie::entries) neither panics nor runs
       out of the stated fuel, and - when every leaf range is inside the phrase
       data - yields a permutation of the leaves of the shape;
     - step_threads / walk / collect (lookup_first_n_phrases) never bail out
       and never panic; the number of child records examined per query
       syllable is bounded by the size of the shape.
   Used both for C12 (every validated index denotes a shape: TrieValidate.v)
   and for C11 (the index written by TrieBuilder::write denotes the shape of
   the builder's tree: TrieLayout.v).  Stdlib only. *)
From Coq Require Import NArith List Bool Lia ZArith Permutation.
From LC Require Import Base.Lib Model.Utf8 Model.Der Model.Syllable Model.TrieCodec Gen.Trie_gen
     Proofs.DerProofs Proofs.TrieFileProofs.
Import ListNotations.
Open Scope N_scope.

Inductive shape := Shape (syl : N) (leaf : option (N * N)) (kids : list shape).
Definition sh_syl (s : shape) := let '(Shape x _ _) := s in x.
Definition sh_leaf (s : shape) := let '(Shape _ x _) := s in x.
Definition sh_kids (s : shape) := let '(Shape _ _ x) := s in x.

Fixpoint shape_ind' (P : shape -> Prop)
         (H : forall s l ks, Forall P ks -> P (Shape s l ks)) (sh : shape) : P sh :=
  match sh with
  | Shape s l ks =>
    H s l ks ((fix go (ks : list shape) : Forall P ks :=
                 match ks with
                 | [] => Forall_nil P
                 | k :: ks' => Forall_cons k (shape_ind' P H k) (go ks')
                 end) ks)
  end.

Definition leafbit (l : option (N * N)) : N := match l with Some _ => 1 | None => 0 end.

(* number of records of the subtree (internal records and leaf records) *)
Fixpoint ssize (sh : shape) : N :=
  match sh with
  | Shape _ l ks => 1 + leafbit l + fold_right (fun k a => ssize k + a) 0 ks
  end.
Definition fsize (ks : list shape) : N := fold_right (fun k a => ssize k + a) 0 ks.

Section ListAt.
  Variable P : rec -> shape -> Prop.
  Variable recs : list rec.
  (* the shapes ks sit at the consecutive records j, j+1, ..; all have a non-zero syllable *)
  Fixpoint list_at (j : N) (ks : list shape) : Prop :=
    match ks with
    | [] => True
    | k :: ks' => (exists rk, rec_at recs j = Some rk /\ r_syl rk <> 0 /\ P rk k) /\ list_at (j + 1) ks'
    end.
End ListAt.

Fixpoint rdenotes (recs : list rec) (r : rec) (sh : shape) {struct sh} : Prop :=
  match sh with
  | Shape syl leaf kids =>
    r_syl r = syl /\ r_len r = leafbit leaf + len_N kids /\ 1 <= r_len r /\
    r_begin r + r_len r <= len_N recs /\
    match leaf with
    | Some (db, dl) => rec_at recs (r_begin r) = Some (db, dl, 0)
    | None => True
    end /\
    list_at (rdenotes recs) recs (r_begin r + leafbit leaf) kids
  end.

(* ---- generic facts ---- *)
Lemma rec_at_some recs i : i < len_N recs -> exists r, rec_at recs i = Some r.
Proof.
  intros H. unfold rec_at. destruct (nth_error recs (N.to_nat i)) eqn:E; [eauto|].
  apply nth_error_None in E. unfold len_N in H. lia.
Qed.

Lemma rec_at_lt recs i r : rec_at recs i = Some r -> i < len_N recs.
Proof.
  unfold rec_at. intros H. assert (Hn : nth_error recs (N.to_nat i) <> None) by congruence.
  apply nth_error_Some in Hn. unfold len_N. lia.
Qed.

Lemma rec_at_ok recs i r : Forall rec_ok recs -> rec_at recs i = Some r -> rec_ok r.
Proof.
  intros Hf H. unfold rec_at in H. apply nth_error_In in H.
  rewrite Forall_forall in Hf. auto.
Qed.

Lemma slice_recs_cons recs b n r :
  rec_at recs b = Some r -> 0 < n -> slice_recs recs b n = r :: slice_recs recs (b + 1) (n - 1).
Proof.
  unfold slice_recs, rec_at. intros H Hn.
  replace (N.to_nat n) with (S (N.to_nat (n - 1))) by lia.
  replace (N.to_nat (b + 1)) with (S (N.to_nat b)) by lia.
  revert H. generalize (N.to_nat b) as k. intros k. revert recs.
  induction k as [|k IH]; intros [|x l] H; cbn in H; try discriminate.
  - injection H as ->. reflexivity.
  - cbn [skipn]. apply IH in H. exact H.
Qed.

Lemma slice_recs_zero recs b : slice_recs recs b 0 = [].
Proof. reflexivity. Qed.

(* the child records of a list of shapes laid out from j *)
Lemma list_at_slice P recs ks : forall j,
  list_at P recs j ks ->
  exists rs, slice_recs recs j (len_N ks) = rs /\
             Forall2 (fun r k => r_syl r <> 0 /\ P r k) rs ks.
Proof.
  induction ks as [|k ks IH]; intros j H.
  - exists []. split; [reflexivity|constructor].
  - cbn [list_at] in H. destruct H as ((rk & Hr & Hz & Hp) & Hrest).
    destruct (IH _ Hrest) as (rs & Hs & Hf).
    exists (rk :: rs). split.
    + rewrite (slice_recs_cons _ _ _ _ Hr) by (rewrite len_N_cons; lia).
      rewrite len_N_cons. replace (1 + len_N ks - 1) with (len_N ks) by lia. now rewrite Hs.
    + constructor; auto.
Qed.

Lemma perm_glue {A} (O X L1 K Y O' R' O'' R'' : list A) :
  Permutation (O' ++ R') (O ++ X ++ L1) ->
  Permutation (O'' ++ R'') (O' ++ R' ++ K) ->
  Permutation (X ++ L1 ++ K) Y ->
  Permutation (O'' ++ R'') (O ++ Y).
Proof.
  intros H1 H2 H3. eapply Permutation_trans; [exact H2|].
  rewrite app_assoc. eapply Permutation_trans; [apply Permutation_app_tail; exact H1|].
  rewrite <- !app_assoc. apply Permutation_app_head. exact H3.
Qed.

(* ------------------------------------------------------------------ *)
(* entries                                                              *)

Section Entries.
  Variable recs : list rec.
  Variable data : list N.
  Variable dbg : bool.
  Hypothesis recs_ok : Forall rec_ok recs.
  Let nrec := len_N recs.

  Definition leaf_entry (syls : list N) (l : N * N) : eentry :=
    (rev syls, phrases_of_slice (slice_bytes data (fst l) (snd l))).

  Fixpoint leaves (syls : list N) (sh : shape) : list eentry :=
    match sh with
    | Shape _ leaf kids =>
      (match leaf with Some l => [leaf_entry syls l] | None => [] end)
        ++ flat_map (fun k => leaves (sh_syl k :: syls) k) kids
    end.
  Definition kleaves (syls : list N) (ks : list shape) : list eentry :=
    flat_map (fun k => leaves (sh_syl k :: syls) k) ks.

  Definition leaf_inb (l : N * N) : Prop := snd l <> 0 /\ fst l + snd l <= len_N data.
  Fixpoint all_inb (sh : shape) : Prop :=
    match sh with
    | Shape _ leaf kids =>
      (match leaf with Some l => leaf_inb l | None => True end)
      /\ fold_right (fun k a => all_inb k /\ a) True kids
    end.
  Definition kall_inb (ks : list shape) : Prop := fold_right (fun k a => all_inb k /\ a) True ks.

  (* loop iterations of the subtree: one Descend per internal record, one Ascend per
     sibling move and one per exhausted frame *)
  Fixpoint steps (sh : shape) : nat :=
    match sh with
    | Shape _ _ kids =>
      match kids with
      | [] => 1%nat
      | _ => fold_right (fun k a => S (steps k + a)) 1%nat kids
      end
    end.
  Definition ksteps (ks : list shape) : nat := fold_right (fun k a => S (steps k + a)) 1%nat ks.

  Definition nozero (syls : list N) : Prop := existsb (N.eqb 0) syls = false.

  Lemma nozero_cons s syls : s <> 0 -> nozero syls -> nozero (s :: syls).
  Proof.
    unfold nozero. intros Hs H. cbn [existsb]. rewrite H.
    destruct (0 =? s) eqn:E; b2p E; [congruence|reflexivity].
  Qed.

  Lemma nozero_tl syls : nozero syls -> nozero (tl syls).
  Proof.
    unfold nozero. destruct syls as [|s r]; [auto|]. cbn [existsb tl].
    intros H. apply orb_false_iff in H. tauto.
  Qed.

  (* --- one-step equations of entries_run --- *)
  Lemma range_ok_of node : 1 <= r_len node -> r_begin node + r_len node <= nrec -> range_oob nrec node = false.
  Proof.
    intros H1 H2. unfold range_oob. apply orb_false_iff. split.
    - apply N.eqb_neq. lia.
    - apply N.ltb_ge. exact H2.
  Qed.

  Lemma step_D_inner f node stack syls R O first :
    range_oob nrec node = false -> rec_at recs (r_begin node) = Some first -> r_syl first <> 0 ->
    entries_run (S f) dbg recs nrec data Descend node stack syls R O
    = entries_run f dbg recs nrec data Descend first
                  ((r_begin node + 1, r_begin node + r_len node) :: stack) (r_syl first :: syls) R O.
  Proof.
    intros H1 H2 H3. cbn [entries_run]. rewrite H1, H2.
    destruct (r_syl first =? 0) eqn:E; b2p E; [congruence|reflexivity].
  Qed.

  Lemma step_D_bail f node stack syls R O db dl :
    range_oob nrec node = false -> rec_at recs (r_begin node) = Some (db, dl, 0) ->
    ~ leaf_inb (db, dl) ->
    entries_run (S f) dbg recs nrec data Descend node stack syls R O = Ok O.
  Proof.
    intros H1 H2 H3. cbn [entries_run]. rewrite H1, H2. cbn [r_syl r_len r_begin fst snd].
    rewrite N.eqb_refl.
    destruct ((dl =? 0) || (len_N data <? db + dl)) eqn:E; [reflexivity|].
    apply orb_false_iff in E as [E1 E2]. b2p E1. b2p E2.
    exfalso. apply H3. unfold leaf_inb. cbn [fst snd]. split; assumption.
  Qed.

  Lemma leaf_checks db dl syls :
    leaf_inb (db, dl) -> nozero syls -> dl < U16 ->
    ((dl =? 0) || (len_N data <? db + dl)) = false /\ existsb (N.eqb 0) syls = false /\ (DER_MAX <? dl) = false.
  Proof.
    intros [H1 H2] H3 H4. cbn [fst snd] in *. repeat split.
    - apply orb_false_iff. split; [apply N.eqb_neq; assumption|apply N.ltb_ge; assumption].
    - exact H3.
    - apply N.ltb_ge. unfold DER_MAX, U16 in *. lia.
  Qed.

  Lemma step_D_leaf_more f node stack syls R O db dl second :
    range_oob nrec node = false -> rec_at recs (r_begin node) = Some (db, dl, 0) ->
    leaf_inb (db, dl) -> nozero syls -> 2 <= r_len node ->
    rec_at recs (r_begin node + 1) = Some second ->
    entries_run (S f) dbg recs nrec data Descend node stack syls R O
    = entries_run f dbg recs nrec data Descend second
                  ((r_begin node + 2, r_begin node + r_len node) :: stack) (r_syl second :: syls)
                  (leaf_entry syls (db, dl) :: R) O.
  Proof.
    intros H1 H2 H3 H4 H5 H6. cbn [entries_run]. rewrite H1, H2. cbn [r_syl r_len r_begin fst snd].
    rewrite N.eqb_refl.
    assert (Hdl : dl < U16).
    { pose proof (rec_at_ok _ _ _ recs_ok H2) as (_ & Hl & _). exact Hl. }
    destruct (leaf_checks db dl syls H3 H4 Hdl) as (E1 & E2 & E3).
    rewrite E1, E2, E3, H6.
    destruct (2 <=? r_len node) eqn:E; b2p E; [reflexivity|lia].
  Qed.

  Lemma step_D_leaf_only f node stack syls R O db dl :
    range_oob nrec node = false -> rec_at recs (r_begin node) = Some (db, dl, 0) ->
    leaf_inb (db, dl) -> nozero syls -> r_len node = 1 ->
    entries_run (S f) dbg recs nrec data Descend node stack syls R O
    = entries_run f dbg recs nrec data Ascend node stack syls (leaf_entry syls (db, dl) :: R) O.
  Proof.
    intros H1 H2 H3 H4 H5. cbn [entries_run]. rewrite H1, H2. cbn [r_syl r_len r_begin fst snd].
    rewrite N.eqb_refl.
    assert (Hdl : dl < U16).
    { pose proof (rec_at_ok _ _ _ recs_ok H2) as (_ & Hl & _). exact Hl. }
    destruct (leaf_checks db dl syls H3 H4 Hdl) as (E1 & E2 & E3).
    rewrite E1, E2, E3.
    destruct (rec_at recs (r_begin node + 1)); [|reflexivity].
    destruct (2 <=? r_len node) eqn:E; b2p E; [lia|reflexivity].
  Qed.

  Lemma step_A_done f node syls R O :
    entries_run (S f) dbg recs nrec data Ascend node [] syls R O = Ok (O ++ R).
  Proof. reflexivity. Qed.

  Lemma step_A_next f node p e stack syls R O next :
    p < e -> rec_at recs p = Some next -> r_syl next <> 0 ->
    entries_run (S f) dbg recs nrec data Ascend node ((p, e) :: stack) syls R O
    = entries_run f dbg recs nrec data Descend next ((p + 1, e) :: stack) (r_syl next :: tl syls) [] (O ++ R).
  Proof.
    intros H1 H2 H3. cbn [entries_run].
    destruct (p <? e) eqn:E; b2p E; [|lia]. rewrite H2.
    destruct (r_syl next =? 0) eqn:E2; b2p E2; [congruence|].
    rewrite andb_false_r. reflexivity.
  Qed.

  Lemma step_A_pop f node p e stack syls R O :
    e <= p ->
    entries_run (S f) dbg recs nrec data Ascend node ((p, e) :: stack) syls R O
    = entries_run f dbg recs nrec data Ascend node stack (tl syls) R O.
  Proof.
    intros H1. cbn [entries_run]. destruct (p <? e) eqn:E; b2p E; [lia|reflexivity].
  Qed.

  (* --- the DFS over a denoted shape --- *)
  Definition descend_ok (sh : shape) : Prop :=
    forall node, rdenotes recs node sh ->
    forall syls stack R O f0, nozero syls ->
      (exists O2, entries_run (steps sh + f0) dbg recs nrec data Descend node stack syls R O = Ok O2 /\ ~ all_inb sh)
      \/
      (exists node' R' O',
          entries_run (steps sh + f0) dbg recs nrec data Descend node stack syls R O
          = entries_run f0 dbg recs nrec data Ascend node' stack syls R' O'
          /\ Permutation (O' ++ R') (O ++ R ++ leaves syls sh)).

  Lemma kids_ok ks : Forall descend_ok ks ->
    forall p, list_at (rdenotes recs) recs p ks ->
    forall node s0 syls stack R O f0, nozero syls ->
      (exists O2, entries_run (ksteps ks + f0) dbg recs nrec data Ascend node ((p, p + len_N ks) :: stack) (s0 :: syls) R O = Ok O2
                  /\ ~ kall_inb ks)
      \/
      (exists node' R' O',
          entries_run (ksteps ks + f0) dbg recs nrec data Ascend node ((p, p + len_N ks) :: stack) (s0 :: syls) R O
          = entries_run f0 dbg recs nrec data Ascend node' stack syls R' O'
          /\ Permutation (O' ++ R') (O ++ R ++ kleaves syls ks)).
  Proof.
    induction ks as [|k ks IH]; intros HF p Hat node s0 syls stack R O f0 Hnz.
    - right. exists node, R, O. split.
      + cbn [ksteps fold_right Nat.add]. rewrite step_A_pop by (unfold len_N; cbn; lia). reflexivity.
      + cbn [kleaves flat_map]. rewrite app_nil_r. apply Permutation_refl.
    - inversion HF as [|? ? Hk Hks]; subst.
      cbn [list_at] in Hat. destruct Hat as ((rk & Hr & Hz & Hd) & Hrest).
      change (ksteps (k :: ks)) with (S (steps k + ksteps ks)).
      cbn [Nat.add].
      rewrite (step_A_next _ _ _ _ _ _ _ _ rk) by (try assumption; rewrite len_N_cons; lia).
      cbn [tl].
      assert (Hsyl : r_syl rk = sh_syl k).
      { destruct k as [s l kk]. cbn [rdenotes] in Hd. cbn [sh_syl]. tauto. }
      rewrite <- Nat.add_assoc.
      destruct (Hk rk Hd (r_syl rk :: syls) ((p + 1, p + len_N (k :: ks)) :: stack) [] (O ++ R) (ksteps ks + f0)%nat)
        as [(O2 & HO2 & Hn)|(node' & R' & O' & Hrun & Hperm)].
      { apply nozero_cons; assumption. }
      + left. exists O2. split; [exact HO2|]. intros Hall. apply Hn. cbn [kall_inb fold_right] in Hall. tauto.
      + rewrite Hrun.
        replace (p + len_N (k :: ks)) with (p + 1 + len_N ks) by (rewrite len_N_cons; lia).
        destruct (IH Hks (p + 1) Hrest node' (r_syl rk) syls stack R' O' f0 Hnz)
          as [(O2 & HO2 & Hn)|(node'' & R'' & O'' & Hrun2 & Hperm2)].
        * left. exists O2. split; [exact HO2|]. intros Hall. apply Hn. cbn [kall_inb fold_right] in Hall. tauto.
        * right. exists node'', R'', O''. split; [exact Hrun2|].
          rewrite (app_assoc O R).
          eapply (perm_glue (O ++ R) [] (leaves (r_syl rk :: syls) k) (kleaves syls ks)); [exact Hperm|exact Hperm2|].
          cbn [app]. unfold kleaves. cbn [flat_map]. rewrite <- Hsyl. apply Permutation_refl.
  Qed.

  Lemma steps_eq s l ks : steps (Shape s l ks) = match ks with [] => 1%nat | _ => ksteps ks end.
  Proof. reflexivity. Qed.

  Lemma all_descend_ok : forall sh, descend_ok sh.
  Proof.
    induction sh as [s leaf kids IHk] using shape_ind'.
    intros node Hd syls stack R O f0 Hnz.
    cbn [rdenotes] in Hd. destruct Hd as (Hsyl & Hlen & Hge & Hle & Hleaf & Hat).
    pose proof (range_ok_of node Hge Hle) as Hrange.
    destruct leaf as [[db dl]|].
    - (* a leaf record first *)
      cbn [leafbit] in *.
      destruct (N.eq_dec dl 0) as [Hz|Hnz0];
        [|destruct (N.le_gt_cases (db + dl) (len_N data)) as [Hin|Hout]].
      + left. exists O. split.
        * rewrite steps_eq. destruct kids; cbn [ksteps fold_right Nat.add];
            eapply step_D_bail; try eassumption; unfold leaf_inb; cbn [fst snd]; tauto.
        * cbn [all_inb]. unfold leaf_inb. cbn [fst snd]. tauto.
      + assert (Hinb : leaf_inb (db, dl)) by (unfold leaf_inb; cbn [fst snd]; tauto).
        destruct kids as [|k1 ks].
        * (* only the leaf *)
          right. exists node, (leaf_entry syls (db, dl) :: R), O. split.
          -- rewrite steps_eq. cbn [Nat.add].
             eapply step_D_leaf_only; try eassumption;
               try (unfold len_N in Hlen; cbn in Hlen; lia).
          -- cbn [leaves flat_map]. rewrite app_nil_r.
             apply Permutation_app_head. apply Permutation_cons_append.
        * (* leaf, then children *)
          cbn [list_at] in Hat. destruct Hat as ((r1 & Hr1 & Hz1 & Hd1) & Hrest).
          inversion IHk as [|? ? Hk1 Hks]; subst.
          rewrite steps_eq. change (ksteps (k1 :: ks)) with (S (steps k1 + ksteps ks)).
          cbn [Nat.add].
          rewrite (step_D_leaf_more _ _ _ _ _ _ db dl r1); try assumption;
            [|rewrite len_N_cons in Hlen; lia].
          assert (Hsyl1 : r_syl r1 = sh_syl k1).
          { destruct k1 as [s1 l1 kk]. cbn [rdenotes] in Hd1. cbn [sh_syl]. tauto. }
          rewrite <- Nat.add_assoc.
          destruct (Hk1 r1 Hd1 (r_syl r1 :: syls) ((r_begin node + 2, r_begin node + r_len node) :: stack)
                        (leaf_entry syls (db, dl) :: R) O (ksteps ks + f0)%nat)
            as [(O2 & HO2 & Hn)|(node' & R' & O' & Hrun & Hperm)].
          { apply nozero_cons; assumption. }
          -- left. exists O2. split; [exact HO2|]. intros Hall. apply Hn. cbn [all_inb fold_right] in Hall. tauto.
          -- rewrite Hrun.
             replace (r_begin node + r_len node) with (r_begin node + 2 + len_N ks)
               by (rewrite Hlen, len_N_cons; lia).
             replace (r_begin node + 1 + 1) with (r_begin node + 2) in Hrest by lia.
             destruct (kids_ok ks Hks (r_begin node + 2) Hrest node' (r_syl r1) syls stack R' O' f0 Hnz)
               as [(O2 & HO2 & Hn)|(node'' & R'' & O'' & Hrun2 & Hperm2)].
             ++ left. exists O2. split; [exact HO2|]. intros Hall. apply Hn. cbn [all_inb fold_right] in Hall.
                unfold kall_inb. tauto.
             ++ right. exists node'', R'', O''. split; [exact Hrun2|].
                eapply (perm_glue O (leaf_entry syls (db, dl) :: R) (leaves (r_syl r1 :: syls) k1) (kleaves syls ks));
                  [exact Hperm|exact Hperm2|].
                cbn [leaves flat_map]. fold (kleaves syls ks). rewrite <- Hsyl1.
                cbn [app]. apply Permutation_middle.
      + left. exists O. split.
        * rewrite steps_eq. destruct kids; cbn [ksteps fold_right Nat.add];
            eapply step_D_bail; try eassumption; unfold leaf_inb; cbn [fst snd]; lia.
        * cbn [all_inb]. unfold leaf_inb. cbn [fst snd]. lia.
    - (* no leaf: the first record of the range is the first child *)
      cbn [leafbit] in *. rewrite N.add_0_r in Hat.
      destruct kids as [|k1 ks].
      { unfold len_N in Hlen. cbn in Hlen. lia. }
      cbn [list_at] in Hat. destruct Hat as ((r1 & Hr1 & Hz1 & Hd1) & Hrest).
      inversion IHk as [|? ? Hk1 Hks]; subst.
      rewrite steps_eq. change (ksteps (k1 :: ks)) with (S (steps k1 + ksteps ks)).
      cbn [Nat.add].
      rewrite (step_D_inner _ _ _ _ _ _ r1); try assumption.
      assert (Hsyl1 : r_syl r1 = sh_syl k1).
      { destruct k1 as [s1 l1 kk]. cbn [rdenotes] in Hd1. cbn [sh_syl]. tauto. }
      rewrite <- Nat.add_assoc.
      destruct (Hk1 r1 Hd1 (r_syl r1 :: syls) ((r_begin node + 1, r_begin node + r_len node) :: stack)
                    R O (ksteps ks + f0)%nat)
        as [(O2 & HO2 & Hn)|(node' & R' & O' & Hrun & Hperm)].
      { apply nozero_cons; assumption. }
      + left. exists O2. split; [exact HO2|]. intros Hall. apply Hn. cbn [all_inb fold_right] in Hall. tauto.
      + rewrite Hrun.
        replace (r_begin node + r_len node) with (r_begin node + 1 + len_N ks)
          by (rewrite Hlen, len_N_cons; lia).
        destruct (kids_ok ks Hks (r_begin node + 1) Hrest node' (r_syl r1) syls stack R' O' f0 Hnz)
          as [(O2 & HO2 & Hn)|(node'' & R'' & O'' & Hrun2 & Hperm2)].
        * left. exists O2. split; [exact HO2|]. intros Hall. apply Hn. cbn [all_inb fold_right] in Hall.
          unfold kall_inb. tauto.
        * right. exists node'', R'', O''. split; [exact Hrun2|].
          eapply (perm_glue O R (leaves (r_syl r1 :: syls) k1) (kleaves syls ks)); [exact Hperm|exact Hperm2|].
          cbn [leaves flat_map app]. fold (kleaves syls ks). rewrite <- Hsyl1. apply Permutation_refl.
  Qed.

End Entries.

(* ------------------------------------------------------------------ *)
(* entries: fuel bound and the top-level statement                      *)

Lemma fsize_cons k ks : fsize (k :: ks) = ssize k + fsize ks.
Proof. reflexivity. Qed.

Lemma ssize_eq s l ks : ssize (Shape s l ks) = 1 + leafbit l + fsize ks.
Proof. reflexivity. Qed.

Lemma ssize_pos sh : 1 <= ssize sh.
Proof. destruct sh. rewrite ssize_eq. lia. Qed.

Lemma steps_bound : forall sh, N.of_nat (steps sh) + 1 <= 2 * ssize sh.
Proof.
  induction sh as [s l ks IH] using shape_ind'.
  rewrite steps_eq, ssize_eq.
  assert (Hk : N.of_nat (ksteps ks) <= 2 * fsize ks + 1).
  { induction ks as [|k ks IHks]; [cbn; lia|].
    inversion IH as [|? ? Hk Hks]; subst. specialize (IHks Hks).
    change (ksteps (k :: ks)) with (S (steps k + ksteps ks)). rewrite fsize_cons. lia. }
  destruct ks as [|k ks']; [cbn; lia|]. lia.
Qed.

Lemma entries_over_shape recs data dbg root sh fuel :
  Forall rec_ok recs -> rdenotes recs root sh -> (steps sh < fuel)%nat ->
  exists l, entries_run fuel dbg recs (len_N recs) data Descend root [] [] [] [] = Ok l /\
            (all_inb data sh -> Permutation l (leaves data [] sh)).
Proof.
  intros Hok Hd Hf.
  replace fuel with (steps sh + (fuel - steps sh))%nat by lia.
  destruct (all_descend_ok recs data dbg Hok sh root Hd [] [] [] [] (fuel - steps sh)%nat)
    as [(O2 & HO2 & Hn)|(node' & R' & O' & Hrun & Hperm)]; [reflexivity| |].
  - exists O2. split; [exact HO2|]. intros Hall. contradiction.
  - rewrite Hrun. destruct (fuel - steps sh)%nat as [|f] eqn:E; [lia|].
    rewrite step_A_done. exists (O' ++ R'). split; [reflexivity|]. intros _. exact Hperm.
Qed.

(* ------------------------------------------------------------------ *)
(* lookup                                                               *)

Section Lookup.
  Variable recs : list rec.
  Variable data : list N.
  Hypothesis recs_ok : Forall rec_ok recs.
  Local Notation nrec := (len_N recs).

  Definition match_kids (strategy s : N) (sh : shape) : list shape :=
    filter (fun k => search_pred strategy (sh_syl k) s) (sh_kids sh).
  Definition next_shapes (strategy s : N) (shs : list shape) : list shape :=
    flat_map (match_kids strategy s) shs.
  Definition walk_shapes (strategy : N) (syls : list N) (shs : list shape) : list shape :=
    fold_left (fun shs s => next_shapes strategy s shs) syls shs.

  Lemma search_pred_zero strategy s : s <> 0 -> search_pred strategy 0 s = false.
  Proof.
    intros Hs. unfold search_pred. destruct (strategy =? STANDARD).
    - apply N.eqb_neq. congruence.
    - reflexivity.
  Qed.

  Lemma filter_kids strategy s rs ks :
    Forall2 (fun r k => r_syl r <> 0 /\ rdenotes recs r k) rs ks ->
    Forall2 (rdenotes recs) (filter (fun k => search_pred strategy (r_syl k) s) rs)
            (filter (fun k => search_pred strategy (sh_syl k) s) ks).
  Proof.
    induction 1 as [|r k rs ks [Hz Hd] HF IH]; [constructor|].
    cbn [filter].
    assert (Hs : r_syl r = sh_syl k) by (destruct k; cbn [rdenotes sh_syl] in *; tauto).
    rewrite Hs. destruct (search_pred strategy (sh_syl k) s); [constructor; assumption|assumption].
  Qed.

  (* the matching children of one thread *)
  Lemma thread_kids strategy s node sh :
    s <> 0 -> rdenotes recs node sh ->
    range_oob nrec node = false /\
    Forall2 (rdenotes recs)
            (filter (fun k => search_pred strategy (r_syl k) s) (slice_recs recs (r_begin node) (r_len node)))
            (match_kids strategy s sh).
  Proof.
    intros Hs Hd. destruct sh as [syl leaf kids]. cbn [rdenotes] in Hd.
    destruct Hd as (Hsyl & Hlen & Hge & Hle & Hleaf & Hat).
    split; [apply range_ok_of; assumption|].
    unfold match_kids. cbn [sh_kids].
    destruct (list_at_slice _ _ _ _ Hat) as (rs & Hrs & HF).
    destruct leaf as [[db dl]|]; cbn [leafbit] in *.
    - rewrite (slice_recs_cons _ _ _ _ Hleaf) by lia.
      cbn [filter r_syl snd]. rewrite search_pred_zero by assumption.
      replace (r_len node - 1) with (len_N kids) by lia. rewrite Hrs.
      apply filter_kids. exact HF.
    - rewrite N.add_0_r in Hrs. rewrite Hlen, N.add_0_l, Hrs. apply filter_kids. exact HF.
  Qed.

  Definition width (threads : list rec) : N := fold_right (fun r a => r_len r + a) 0 threads.

  Lemma step_threads_spec strategy s : s <> 0 ->
    forall threads shs cost, Forall2 (rdenotes recs) threads shs ->
    exists threads',
      step_threads recs nrec strategy s threads cost = Some (threads', cost + width threads) /\
      Forall2 (rdenotes recs) threads' (next_shapes strategy s shs).
  Proof.
    intros Hs threads shs cost HF0. revert cost.
    induction HF0 as [|node sh threads shs Hd HF IH]; intros cost.
    - exists []. split; [cbn; f_equal; f_equal; lia|constructor].
    - destruct (thread_kids strategy s node sh Hs Hd) as (Hr & Hk).
      destruct (IH (cost + r_len node)) as (th' & Hst & Hf').
      exists (filter (fun k => search_pred strategy (r_syl k) s) (slice_recs recs (r_begin node) (r_len node)) ++ th'). split.
      + cbn [step_threads]. rewrite Hr, Hst. cbn [width fold_right].
        replace (cost + r_len node + width threads) with (cost + (r_len node + width threads)) by lia. reflexivity.
      + cbn [next_shapes flat_map]. apply Forall2_app; assumption.
  Qed.

  Lemma width_le threads shs : Forall2 (rdenotes recs) threads shs -> width threads + len_N shs <= fsize shs.
  Proof.
    induction 1 as [|node sh threads shs Hd HF IH]; [cbn; lia|].
    cbn [width fold_right]. rewrite fsize_cons, len_N_cons.
    destruct sh as [syl leaf kids]. cbn [rdenotes] in Hd. destruct Hd as (_ & Hlen & _).
    rewrite ssize_eq.
    assert (len_N kids <= fsize kids).
    { clear. induction kids as [|k ks IHk]; [cbn; lia|]. rewrite len_N_cons, fsize_cons. pose proof (ssize_pos k). lia. }
    unfold width in IH. lia.
  Qed.

  Lemma fsize_app a b : fsize (a ++ b) = fsize a + fsize b.
  Proof. induction a as [|x a IH]; [reflexivity|]. cbn [app]. rewrite !fsize_cons, IH. lia. Qed.

  Lemma fsize_filter (p : shape -> bool) ks : fsize (filter p ks) <= fsize ks.
  Proof.
    induction ks as [|k ks IH]; [cbn; lia|]. cbn [filter]. destruct (p k); rewrite ?fsize_cons; lia.
  Qed.

  Lemma fsize_next strategy s shs : fsize (next_shapes strategy s shs) <= fsize shs.
  Proof.
    induction shs as [|sh shs IH]; [cbn; lia|].
    cbn [next_shapes flat_map]. rewrite fsize_app, fsize_cons. fold (next_shapes strategy s shs).
    destruct sh as [syl leaf kids]. unfold match_kids. cbn [sh_kids]. rewrite ssize_eq.
    pose proof (fsize_filter (fun k => search_pred strategy (sh_syl k) s) kids). lia.
  Qed.

  Lemma walk_spec strategy : forall syls, Forall (fun s => s <> 0) syls ->
    forall threads shs cost, Forall2 (rdenotes recs) threads shs ->
    exists threads' cost',
      walk recs nrec strategy syls threads cost = Some (threads', cost') /\
      Forall2 (rdenotes recs) threads' (walk_shapes strategy syls shs) /\
      cost' <= cost + len_N syls * fsize shs.
  Proof.
    induction syls as [|s syls IH]; intros Hnz threads shs cost HF.
    - exists threads, cost. split; [reflexivity|]. split; [exact HF|]. lia.
    - inversion Hnz as [|? ? Hs Hrest]; subst.
      destruct (step_threads_spec strategy s Hs threads shs cost HF) as (th' & Hst & HF').
      cbn [walk]. rewrite Hst. cbn [walk_shapes fold_left]. fold (walk_shapes strategy syls (next_shapes strategy s shs)).
      pose proof (width_le _ _ HF) as Hw. pose proof (fsize_next strategy s shs) as Hn.
      destruct th' as [|t0 th'].
      + inversion HF'; subst. exists [], (cost + width threads). split; [reflexivity|]. split.
        * replace (next_shapes strategy s shs) with (@nil shape) by congruence.
          clear. induction syls; [constructor|assumption].
        * rewrite len_N_cons. nia.
      + destruct (IH Hrest (t0 :: th') _ (cost + width threads) HF') as (th'' & c'' & Hw2 & HF'' & Hc).
        exists th'', c''. split; [exact Hw2|]. split; [exact HF''|].
        rewrite len_N_cons. nia.
  Qed.

  (* collect over the leaves of the final shapes *)
  Fixpoint collect_sh (first : N) (ls : list (option (N * N))) (acc : list phrase) : outcome (list phrase) :=
    match ls with
    | [] => Ok acc
    | None :: r => collect_sh first r acc
    | Some (db, dl) :: r =>
      if (dl =? 0) || (len_N data <? db + dl) then Ok []
      else let acc' := acc ++ phrases_of_slice (slice_bytes data db dl) in
           if first <? len_N acc' then Ok acc' else collect_sh first r acc'
    end.

  Lemma collect_sh_ok first ls : forall acc, exists ps, collect_sh first ls acc = Ok ps.
  Proof.
    induction ls as [|[[db dl]|] ls IH]; intros acc; cbn [collect_sh]; eauto.
    destruct ((dl =? 0) || (len_N data <? db + dl)); eauto.
    destruct (first <? _); eauto.
  Qed.

  Lemma collect_spec first : forall threads shs acc, Forall2 (rdenotes recs) threads shs ->
    collect recs nrec data first threads acc = collect_sh first (map sh_leaf shs) acc.
  Proof.
    intros threads shs acc HF0. revert acc.
    induction HF0 as [|node sh threads shs Hd HF IH]; intros acc; [reflexivity|].
    destruct sh as [syl leaf kids]. pose proof Hd as Hd'. cbn [rdenotes] in Hd.
    destruct Hd as (Hsyl & Hlen & Hge & Hle & Hleaf & Hat).
    cbn [collect map sh_leaf]. rewrite (range_ok_of recs node Hge Hle).
    destruct leaf as [[db dl]|]; cbn [leafbit] in *.
    - rewrite Hleaf. cbn [r_syl r_len r_begin fst snd collect_sh]. rewrite N.eqb_refl. cbn [negb].
      destruct ((dl =? 0) || (len_N data <? db + dl)); [reflexivity|].
      assert (Hdl : (DER_MAX <? dl) = false).
      { apply N.ltb_ge. pose proof (rec_at_ok _ _ _ recs_ok Hleaf) as (_ & Hl & _).
        cbn [r_len fst snd] in Hl. unfold DER_MAX, U16 in *. lia. }
      rewrite Hdl. destruct (first <? _); [reflexivity|]. apply IH.
    - destruct kids as [|k ks]; [unfold len_N in Hlen; cbn in Hlen; lia|].
      cbn [list_at] in Hat. destruct Hat as ((rk & Hr & Hz & _) & _).
      rewrite N.add_0_r in Hr. rewrite Hr.
      destruct (r_syl rk =? 0) eqn:E; b2p E; [congruence|]. cbn [negb collect_sh]. apply IH.
  Qed.

  (* the whole lookup over an index whose root denotes a shape *)
  Lemma lookup_over_shape info root sh syls first strategy :
    rec_at recs 0 = Some root -> rdenotes recs root sh -> Forall (fun s => s <> 0) syls ->
    exists ps c,
      lookup_cost (mkTrie info recs data) syls first strategy = (Ok ps, c) /\
      c <= len_N syls * ssize sh /\
      exists ps0, collect_sh first (map sh_leaf (walk_shapes strategy syls [sh])) [] = Ok ps0 /\
                  ps = (if lookup_truncates && (first <? len_N ps0) then firstn (N.to_nat first) ps0 else ps0).
  Proof.
    intros Hroot Hd Hnz. unfold lookup_cost. cbn [t_recs t_data]. rewrite Hroot.
    assert (Hlen : (r_len root =? 0) = false).
    { apply N.eqb_neq. destruct sh. cbn [rdenotes] in Hd. lia. }
    rewrite Hlen.
    destruct (walk_spec strategy syls Hnz [root] [sh] 0) as (th & c & Hw & HF & Hc).
    { constructor; [exact Hd|constructor]. }
    rewrite Hw. rewrite (collect_spec first _ _ [] HF).
    destruct (collect_sh_ok first (map sh_leaf (walk_shapes strategy syls [sh])) []) as (ps0 & Hps0).
    rewrite Hps0. eexists. exists c. split; [reflexivity|]. split.
    - cbn [fsize fold_right] in Hc. unfold fsize in Hc. cbn [fold_right] in Hc. lia.
    - exists ps0. split; reflexivity.
  Qed.
End Lookup.
