(* C14: genuine unreachability of the known-unreachable readings of hsu, et26 and
   dc26, for operation sequences of ANY length (key_press and fuzzy_key_press with
   any key event, remove_last, clear) under the editor's protocol: the closure
   sweeps (LayoutUnreach<L>.v) lifted by induction. *)
From Coq Require Import NArith List Bool Lia FMapPositive.
From LC Require Import Base.Lib Gen.Readings_gen Model.Syllable Model.Keyboard Model.LayoutBase
  Model.LayoutHsu Model.LayoutEt26 Model.Layout Model.LayoutSearch
  Proofs.SyllableProofs Proofs.LayoutDefs Proofs.LayoutProofs Proofs.LayoutCompleteDefs Proofs.LayoutUnreachDefs
  Proofs.LayoutUnreach1 Proofs.LayoutUnreach5 Proofs.LayoutUnreach6.
Import ListNotations.
Open Scope N_scope.

Definition in_set (L : N) (st : lstate) : Prop := PM.mem (pkey (ls_syl st)) (reach_set L) = true.

Lemma editor_step_norm L st op :
  L < 7 -> editor_step L st op = editor_step L (syl_state (ls_syl st)) (norm_op L op).
Proof. intros H. unfold editor_step. now rewrite (step_norm L st op H). Qed.

Lemma mem_elements (set : PM.t unit) s :
  PM.mem (pkey s) set = true -> exists e, In e (PM.elements set) /\ Pos.pred_N (fst e) = s.
Proof.
  intros H. rewrite PM.mem_find in H.
  destruct (PM.find (pkey s) set) as [u|] eqn:E; [|discriminate].
  apply PM.elements_correct in E. exists (pkey s, u). split; [exact E|].
  cbn [fst]. unfold pkey. apply N.pos_pred_succ.
Qed.

Lemma closed_step L st op :
  L < 7 -> closed_b L = true -> valid_op op -> in_set L st ->
  exists st' o, editor_step L st op = Ok (st', o) /\ in_set L st' /\
    (forall h, o = Some h -> ~ In h (bad_all L)).
Proof.
  intros HL Hc Hop Hin. unfold closed_b, closed_with in Hc.
  apply andb_true_iff in Hc as [_ Hc]. rewrite forallb_forall in Hc.
  destruct (mem_elements _ _ Hin) as ([p u] & He & Hs). cbn [fst] in Hs.
  specialize (Hc (p, u) He). cbv beta in Hc. cbn [fst] in Hc. rewrite forallb_forall in Hc.
  specialize (Hc (norm_op L op) (norm_op_in L op Hop)).
  rewrite Hs in Hc. unfold closed_op in Hc.
  rewrite (editor_step_norm L st op HL).
  destruct (editor_step L (syl_state (ls_syl st)) (norm_op L op)) as [[st' o]| | |]; try discriminate.
  apply andb_true_iff in Hc as [H1 H2].
  exists st', o. split; [reflexivity|]. split; [exact H1|].
  intros h Hh. subst o. apply negb_true_iff in H2. intro Hbad.
  apply memN_In in Hbad. rewrite Hbad in H2. discriminate.
Qed.

Lemma closed_run L ops : forall st st' hs,
  L < 7 -> closed_b L = true -> Forall valid_op ops -> in_set L st ->
  run_editor L st ops = Ok (st', hs) -> forall h, In h hs -> ~ In h (bad_all L).
Proof.
  induction ops as [|op ops IH]; intros st st' hs HL Hc Hops Hin Hrun h Hh.
  - cbn [run_editor] in Hrun. inversion Hrun; subst. destruct Hh.
  - inversion Hops as [|? ? Hop Hrest]; subst.
    destruct (closed_step L st op HL Hc Hop Hin) as (st1 & o & E & Hin1 & Ho).
    cbn [run_editor] in Hrun. rewrite E in Hrun. cbn [obind fst snd] in Hrun.
    destruct (run_editor L st1 ops) as [[st2 hs2]| | |] eqn:E2; try discriminate.
    cbn [obind fst snd] in Hrun. inversion Hrun; subst.
    apply in_app_or in Hh as [Hh|Hh].
    + destruct o as [x|]; cbn [opt_list] in Hh; [|destruct Hh].
      destruct Hh as [->|[]]. now apply Ho.
    + exact (IH st1 _ _ HL Hc Hrest Hin1 E2 h Hh).
Qed.

Lemma empty_in_set L : closed_b L = true -> in_set L lstate_empty.
Proof.
  unfold closed_b, closed_with, in_set. intros H. apply andb_true_iff in H as [H _]. exact H.
Qed.

Lemma closed_known L : L < 7 -> known_unreachable L <> [] -> closed_b L = true.
Proof.
  intros HL Hk. apply lt7_cases in HL as [->|[->|[->|[->|[->|[->| ->]]]]]];
    try (exfalso; apply Hk; reflexivity).
  - exact closed_layout_1. - exact closed_layout_5. - exact closed_layout_6.
Qed.

(* a syllable through which reading r would be entered is in bad_syls *)
Lemma enters_via_bad L r s :
  s = r \/ (In r (l_alt_syllables L s) /\ In s readings) -> In s (bad_syls L r).
Proof.
  unfold bad_syls. intros [->|[Ha Hs]]; [left; reflexivity|]. right.
  unfold alt_sources. unfold l_alt_syllables in Ha.
  assert (Hgen : forall t, In r (alt_lookup t s) ->
            In s (map fst (filter (fun e => memN r (snd e) && memN (fst e) readings) t))).
  { intros t Ht. unfold alt_lookup in Ht. destruct (assoc s t) as [l|] eqn:E; [|destruct Ht].
    apply assoc_In in E. apply in_map_iff. exists (s, l). split; [reflexivity|].
    apply filter_In. split; [exact E|]. cbn [fst snd].
    apply andb_true_iff. split; apply memN_In; assumption. }
  destruct (L =? L_HSU); [now apply Hgen|].
  destruct (L =? L_ET26); [now apply Hgen|]. destruct Ha.
Qed.

(* no operation sequence of any length makes a syllable-state layout hand the
   editor a syllable that would enter a known-unreachable reading *)
Lemma known_unreachable_genuine L r ops st hs :
  L < 7 -> In r (known_unreachable L) -> Forall valid_op ops ->
  run_editor L lstate_empty ops = Ok (st, hs) ->
  forall s, In s hs -> ~ (s = r \/ (In r (l_alt_syllables L s) /\ In s readings)).
Proof.
  intros HL Hr Hops Hrun s Hs Hent.
  assert (Hne : known_unreachable L <> []) by (intro E; rewrite E in Hr; destruct Hr).
  pose proof (closed_known L HL Hne) as Hc.
  apply (closed_run L ops lstate_empty st hs HL Hc Hops (empty_in_set L Hc) Hrun s Hs).
  unfold bad_all. apply in_flat_map. exists r. split; [exact Hr | now apply enters_via_bad].
Qed.
