(* C14: closure sweep for layout 6 (protocol-reachable states x all operations). *)
From Coq Require Import NArith Bool.
From LC Require Import Proofs.LayoutUnreachDefs.
Open Scope N_scope.

Lemma closed_layout_6 : closed_b 6 = true.
Proof. vm_cast_no_check (eq_refl true). Qed.
