(* Proofs about Model/Config.v over the tables regenerated from capi/src/io.rs & co.
   (property C16).  Specification-side definitions (documented ranges, the named
   option each alias stands for) are at the top; they are hand-written from
   doc/libchewing.texi, include/chewing.h (constants) and tests/test-config.c. *)
From Coq Require Import ZArith NArith List Bool String Ascii Lia.
From LC Require Import Base.Lib Gen.Capi_gen Model.Config.
Import ListNotations.
Open Scope string_scope.
Open Scope Z_scope.

(* ------------------------------------------------------------------ specification side *)

(* documented range of each integer option:
   candidates_per_page   MIN_SELKEY .. MAX_SELKEY            (texi: chewing_set_candPerPage)
   auto_commit_threshold MIN_CHI_SYMBOL_LEN .. MAX_CHI_SYMBOL_LEN  (texi: chewing_set_maxChiSymbolLen)
   conversion_engine     SIMPLE .. FUZZY_CHEWING (public.rs)
   language_mode         SYMBOL_MODE / CHINESE_MODE;  character_form  HALFSHAPE_MODE / FULLSHAPE_MODE
   every other option    0 / 1 *)
Definition doc_lo (o : iopt) : Z :=
  match o with
  | OCandidatesPerPage => c_MIN_SELKEY
  | OAutoCommitThreshold => c_MIN_CHI_SYMBOL_LEN
  | OLanguageMode => Z.min c_SYMBOL_MODE c_CHINESE_MODE
  | OCharacterForm => Z.min c_HALFSHAPE_MODE c_FULLSHAPE_MODE
  | OConversionEngine => c_SIMPLE_CONVERSION_ENGINE
  | _ => 0
  end.
Definition doc_hi (o : iopt) : Z :=
  match o with
  | OCandidatesPerPage => c_MAX_SELKEY
  | OAutoCommitThreshold => c_MAX_CHI_SYMBOL_LEN
  | OLanguageMode => Z.max c_SYMBOL_MODE c_CHINESE_MODE
  | OCharacterForm => Z.max c_HALFSHAPE_MODE c_FULLSHAPE_MODE
  | OConversionEngine => c_FUZZY_CHEWING_CONVERSION_ENGINE
  | _ => 1
  end.
Definition in_range (o : iopt) (v : Z) : Prop := doc_lo o <= v <= doc_hi o.
Definition in_rangeb (o : iopt) (v : Z) : bool := (doc_lo o <=? v) && (v <=? doc_hi o).

(* the part of the configuration that is not an integer option *)
Definition same_rest (c c' : config) : Prop :=
  kb_compat c' = kb_compat c /\ keyboard c' = keyboard c /\ syl_editor c' = syl_editor c /\
  sel_keys c' = sel_keys c.

(* ------------------------------------------------------------------ tactics *)

Ltac bdestr :=
  repeat match goal with
  | |- context [Z.eqb ?a ?b] => destruct (Z.eqb_spec a b); [try subst a|]
  | |- context [Z.ltb ?a ?b] => destruct (Z.ltb_spec a b)
  | |- context [Z.leb ?a ?b] => destruct (Z.leb_spec a b)
  | |- context [Z.gtb ?a ?b] => destruct (Z.gtb_spec a b)
  | |- context [Z.geb ?a ?b] => destruct (Z.geb_spec a b)
  end.

Lemma iopt_eq_dec (a b : iopt) : {a = b} + {a <> b}.
Proof. decide equality. Qed.

(* ------------------------------------------------------------------ T1: the option lists of the source *)

Lemma option_lists_agree :
  set_int_names = map iopt_name all_iopts /\
  get_int_names = map iopt_name all_iopts /\
  set_int_fields = map (fun o => (iopt_name o, iopt_field o)) all_iopts /\
  get_int_fields = map (fun o => (iopt_name o, iopt_field o)) all_iopts /\
  set_str_names = [name_keyboard_type; name_selection_keys] /\
  get_str_names = [name_keyboard_type; name_selection_keys] /\
  set_int_calls_set_editor_options = true.
Proof. repeat split; reflexivity. Qed.

(* has_option answers 1 exactly on the names handled by the integer or the string functions *)
Definition has_option_checker : bool :=
  forallb (fun n => existsb (String.eqb n) has_option_names) (set_int_names ++ set_str_names) &&
  forallb (fun n => existsb (String.eqb n) (set_int_names ++ set_str_names)) has_option_names.

Lemma has_option_checker_true : has_option_checker = true.
Proof. vm_cast_no_check (eq_refl true). Qed.

Lemma existsb_eqb_In (n : string) (l : list string) : existsb (String.eqb n) l = true <-> In n l.
Proof.
  rewrite existsb_exists. split.
  - intros [x [Hx He]]. apply String.eqb_eq in He. now subst.
  - intros H. exists n. split; [assumption | apply String.eqb_refl].
Qed.

Lemma has_option_spec (name : string) :
  config_has_option name = 1 <-> In name (set_int_names ++ set_str_names).
Proof.
  pose proof has_option_checker_true as H. unfold has_option_checker in H.
  apply andb_true_iff in H as [H1 H2]. rewrite forallb_forall in H1, H2.
  unfold config_has_option. split.
  - intros E. destruct (existsb (String.eqb name) has_option_names) eqn:Ex; [|discriminate].
    apply existsb_eqb_In in Ex. apply H2 in Ex. now apply existsb_eqb_In in Ex.
  - intros Hin. apply H1 in Hin. now rewrite Hin.
Qed.

Lemma parse_iopt_name (o : iopt) : parse_iopt (iopt_name o) = Some o.
Proof. destruct o; reflexivity. Qed.

Lemma parse_iopt_sound (name : string) (o : iopt) : parse_iopt name = Some o -> name = iopt_name o.
Proof.
  unfold parse_iopt. intros H. apply find_some in H as [_ H]. now apply String.eqb_eq in H.
Qed.

Lemma iopt_name_inj (a b : iopt) : iopt_name a = iopt_name b -> a = b.
Proof.
  intros H. pose proof (parse_iopt_name a) as Ha. rewrite H, parse_iopt_name in Ha. now inversion Ha.
Qed.

(* legacy alias tables of the source = the transcriptions in the model *)
Lemma legacy_tables_agree :
  legacy_setters = map (fun a => ("chewing_set_" ++ legacy_suffix a,
                                  ("chewing_config_set_int", iopt_name (legacy_option a)))) all_legacy /\
  legacy_getters = map (fun a => ("chewing_get_" ++ legacy_suffix a,
                                  ("chewing_config_get_int", iopt_name (legacy_option a)))) all_legacy.
Proof. split; reflexivity. Qed.

(* ------------------------------------------------------------------ T2: integer options *)

Lemma as_c_int_small (v : Z) : 0 <= v < 2147483648 -> as_c_int v = v.
Proof. intros H. unfold as_c_int. rewrite Z.mod_small by lia. lia. Qed.

Lemma global_reject_spec (v : Z) : set_int_global_reject v = true <-> v < 0.
Proof. unfold set_int_global_reject. bdestr; split; intros; try lia; try reflexivity; discriminate. Qed.

Lemma doc_lo_nonneg (o : iopt) : 0 <= doc_lo o.
Proof. destruct o; cbv; discriminate. Qed.

Lemma doc_hi_small (o : iopt) : doc_hi o < 2147483648.
Proof. destruct o; cbv; reflexivity. Qed.

(* the arm of each option: accepted exactly on the documented range; an accepted value is
   read back by the getter of the same option and changes no other getter *)
Lemma apply_iopt_in_range (o : iopt) (v : Z) (op : options) (eng : N) :
  in_range o v ->
  exists op' eng', apply_iopt o v op eng = Some (op', eng') /\
                   get_iopt o op' = v /\
                   (forall o', o' <> o -> get_iopt o' op' = get_iopt o' op) /\
                   (o <> OLanguageMode -> language_mode op' = language_mode op).
Proof.
  unfold in_range. intros Hr.
  destruct o; cbv [doc_lo doc_hi c_MIN_SELKEY c_MAX_SELKEY c_MIN_CHI_SYMBOL_LEN c_MAX_CHI_SYMBOL_LEN
                   c_SYMBOL_MODE c_CHINESE_MODE c_HALFSHAPE_MODE c_FULLSHAPE_MODE Z.min Z.max Z.compare
                   c_SIMPLE_CONVERSION_ENGINE c_FUZZY_CHEWING_CONVERSION_ENGINE] in Hr;
    cbv [apply_iopt bool_arm existsb ensure_bool_values assocZ orb
         set_int_enum_user_phrase_add_direction set_int_enum_language_mode set_int_enum_character_form
         set_int_engine set_int_reject_candidates_per_page set_int_reject_auto_commit_threshold negb andb];
    bdestr; try lia;
    (eexists; eexists; split; [reflexivity|]; split;
     [ first [reflexivity | cbn [get_iopt upd_candidates_per_page upd_auto_commit_threshold candidates_per_page auto_commit_threshold]; apply as_c_int_small; lia]
     | split; [intros o' Ho'; destruct o'; try congruence; reflexivity | intros Hl; try congruence; reflexivity] ]).
Qed.

Lemma apply_iopt_out_of_range (o : iopt) (v : Z) (op : options) (eng : N) :
  0 <= v -> ~ in_range o v -> apply_iopt o v op eng = None.
Proof.
  unfold in_range. intros H0 Hr.
  destruct o; cbv [doc_lo doc_hi c_MIN_SELKEY c_MAX_SELKEY c_MIN_CHI_SYMBOL_LEN c_MAX_CHI_SYMBOL_LEN
                   c_SYMBOL_MODE c_CHINESE_MODE c_HALFSHAPE_MODE c_FULLSHAPE_MODE Z.min Z.max Z.compare
                   c_SIMPLE_CONVERSION_ENGINE c_FUZZY_CHEWING_CONVERSION_ENGINE] in Hr;
    cbv [apply_iopt bool_arm existsb ensure_bool_values assocZ orb
         set_int_enum_user_phrase_add_direction set_int_enum_language_mode set_int_enum_character_form
         set_int_engine set_int_reject_candidates_per_page set_int_reject_auto_commit_threshold negb andb];
    bdestr; try lia; reflexivity.
Qed.

Lemma set_editor_options_rest (op' : options) (c : config) :
  same_rest c (set_editor_options op' c) /\ opts (set_editor_options op' c) = op' /\
  engine_installed (set_editor_options op' c) = engine_installed c.
Proof. unfold same_rest; cbn. repeat split. Qed.

(* in range: OK, reads back, every other integer option and the rest of the configuration unchanged *)
Lemma set_int_in_range (o : iopt) (v : Z) (c : config) :
  in_range o v ->
  exists c', config_set_int (iopt_name o) v c = (c_OK, c') /\
             config_get_int (iopt_name o) c' = v /\
             (forall o', o' <> o -> config_get_int (iopt_name o') c' = config_get_int (iopt_name o') c) /\
             same_rest c c' /\
             (o <> OLanguageMode -> syl_pending c' = syl_pending c).
Proof.
  intros Hr. unfold config_set_int, config_get_int.
  assert (Hv : 0 <= v) by (pose proof (doc_lo_nonneg o); unfold in_range in Hr; lia).
  destruct (set_int_global_reject v) eqn:Eg; [apply global_reject_spec in Eg; lia|].
  rewrite parse_iopt_name.
  destruct (apply_iopt_in_range o v (opts c) (engine_installed c) Hr) as (op' & eng' & Ha & Hg & Ho & Hl).
  rewrite Ha. change set_int_calls_set_editor_options with true. cbv iota.
  eexists. split; [reflexivity|]. rewrite ?parse_iopt_name. cbn [opts set_editor_options with_engine].
  split; [exact Hg|]. split.
  - intros o' Hne. rewrite parse_iopt_name. now apply Ho.
  - split; [unfold same_rest; cbn; repeat split|].
    intros Hne. cbn. rewrite (Hl Hne), N.eqb_refl. reflexivity.
Qed.

(* out of range: ERROR, and the whole context is unchanged *)
Lemma set_int_out_of_range (o : iopt) (v : Z) (c : config) :
  ~ in_range o v -> config_set_int (iopt_name o) v c = (c_ERROR, c).
Proof.
  intros Hr. unfold config_set_int.
  destruct (set_int_global_reject v) eqn:Eg; [reflexivity|].
  assert (Hv : 0 <= v).
  { destruct (Z.lt_ge_cases v 0) as [Hlt|Hge]; [|exact Hge].
    apply global_reject_spec in Hlt. congruence. }
  rewrite parse_iopt_name, (apply_iopt_out_of_range o v _ _ Hv Hr). reflexivity.
Qed.

(* a name that is not an integer option: ERROR from both functions, context unchanged *)
Lemma int_unknown_name (name : string) (v : Z) (c : config) :
  ~ In name set_int_names ->
  config_set_int name v c = (c_ERROR, c) /\ config_get_int name c = c_ERROR.
Proof.
  intros Hn. assert (Hp : parse_iopt name = None).
  { destruct (parse_iopt name) as [o|] eqn:Ep; [|reflexivity].
    apply parse_iopt_sound in Ep. exfalso. apply Hn. subst name.
    destruct option_lists_agree as [-> _]. apply in_map. destruct o; cbn; tauto. }
  unfold config_set_int, config_get_int. rewrite Hp.
  split; [destruct (set_int_global_reject v)|]; reflexivity.
Qed.

(* ------------------------------------------------------------------ T3: legacy aliases *)

Lemma legacy_set_is_named (a : legacy) (v : Z) (c : config) :
  legacy_set a v c = snd (config_set_int (iopt_name (legacy_option a)) v c).
Proof. destruct a; reflexivity. Qed.

Lemma legacy_get_is_named (a : legacy) (c : config) :
  legacy_get a c = config_get_int (iopt_name (legacy_option a)) c.
Proof. destruct a; reflexivity. Qed.

(* consequences for the legacy pair on its own: set/get round trip and rejection *)
Lemma legacy_round_trip (a : legacy) (v : Z) (c : config) :
  (in_range (legacy_option a) v -> legacy_get a (legacy_set a v c) = v) /\
  (~ in_range (legacy_option a) v -> legacy_set a v c = c).
Proof.
  rewrite legacy_set_is_named. split; intros Hr.
  - destruct (set_int_in_range _ v c Hr) as (c' & Hs & Hg & _).
    rewrite Hs, legacy_get_is_named. exact Hg.
  - now rewrite (set_int_out_of_range _ v c Hr).
Qed.

(* ------------------------------------------------------------------ T4: KeyboardLayoutCompat conversions *)

Definition kb_lt (k : N) : Prop := (k < n_kb)%N.

Definition kb_conv_checker : bool :=
  forall_below n_kb (fun k =>
    option_eqb N.eqb (kb_try_from k) (Some k) &&
    option_eqb N.eqb (kb_parse (codes (kb_name k))) (Some k) &&
    negb (codes_eqb (codes (kb_name k)) [])) &&
  forall_below 256 (fun k => if (k <? n_kb)%N then true else option_eqb N.eqb (kb_try_from k) None) &&
  forallb (fun p => (snd p <? n_kb)%N && String.eqb (kb_name (snd p)) (fst p)) kb_from_str &&
  (Z.of_nat (List.length kb_display) =? Z.of_N n_kb).

Lemma kb_conv_checker_true : kb_conv_checker = true.
Proof. vm_cast_no_check (eq_refl true). Qed.

Lemma kb_conv_parts :
  (forall k, kb_lt k -> kb_try_from k = Some k /\ kb_parse (codes (kb_name k)) = Some k) /\
  (forall k, (k < 256)%N -> ~ kb_lt k -> kb_try_from k = None) /\
  (forall n k, In (n, k) kb_from_str -> kb_lt k /\ kb_name k = n).
Proof.
  pose proof kb_conv_checker_true as H. unfold kb_conv_checker in H.
  apply andb_true_iff in H as [H _]. apply andb_true_iff in H as [H H1].
  apply andb_true_iff in H as [H H2].
  split; [|split].
  - intros k Hk. pose proof (forall_below_true _ _ H k Hk) as Hc. cbn beta in Hc.
    apply andb_true_iff in Hc as [Hc _]. apply andb_true_iff in Hc as [Ha Hb].
    apply option_eqb_N_spec in Ha, Hb. split; assumption.
  - intros k Hk Hn. pose proof (forall_below_true _ _ H2 k Hk) as Hc. cbn beta in Hc.
    unfold kb_lt in Hn. destruct (N.ltb_spec k n_kb); [contradiction|]. now apply option_eqb_N_spec in Hc.
  - intros n k Hin. rewrite forallb_forall in H1. apply H1 in Hin. cbn [fst snd] in Hin.
    apply andb_true_iff in Hin as [Hl He]. apply N.ltb_lt in Hl. apply String.eqb_eq in He. split; assumption.
Qed.

Lemma codes_eqb_eq (a b : list N) : codes_eqb a b = true <-> a = b.
Proof. apply list_eqb_N_spec. Qed.

Lemma kb_parse_in_sound (s : list N) (l : list (string * N)) (k : N) :
  kb_parse_in s l = Some k -> exists n, In (n, k) l /\ s = codes n.
Proof.
  induction l as [|[n k'] l IH]; cbn [kb_parse_in]; [discriminate|].
  destruct (codes_eqb s (codes n)) eqn:E.
  - intros H; inversion H; subst. apply codes_eqb_eq in E. exists n. split; [now left | exact E].
  - intros H. destruct (IH H) as (n' & Hin & Hs). exists n'. split; [now right | exact Hs].
Qed.

(* a name accepted by FromStr is the Display name of the layout it denotes *)
Lemma kb_parse_sound (s : list N) (k : N) :
  kb_parse s = Some k -> kb_lt k /\ s = codes (kb_name k).
Proof.
  intros H. apply kb_parse_in_sound in H as (n & Hin & Hs).
  destruct kb_conv_parts as (_ & _ & H3). destruct (H3 n k Hin) as [Hl Hn]. split; [exact Hl | now rewrite Hn].
Qed.

Lemma as_u8_lt (z : Z) : (as_u8 z < 256)%N.
Proof. unfold as_u8. pose proof (Z.mod_pos_bound z 256 ltac:(lia)). lia. Qed.

Lemma as_u8_small (z : Z) : 0 <= z < 256 -> as_u8 z = Z.to_N z.
Proof. intros H. unfold as_u8. now rewrite Z.mod_small. Qed.

(* chewing_kbtype_Total / enumeration: every layout, in number order, and the names convert back *)
Definition kb_enum_checker : bool :=
  list_eqb N.eqb kb_enumeration (map N.of_nat (seq 0 (N.to_nat n_kb))) &&
  list_eqb (fun a b => String.eqb a b) kbtype_Strings kb_display.

Lemma kb_enum_checker_true : kb_enum_checker = true.
Proof. vm_cast_no_check (eq_refl true). Qed.

Lemma list_eqb_string_spec (l1 l2 : list string) : list_eqb (fun a b => String.eqb a b) l1 l2 = true -> l1 = l2.
Proof.
  revert l2; induction l1 as [|a l1 IH]; intros [|b l2]; cbn [list_eqb]; intro H; try reflexivity; try discriminate.
  apply andb_true_iff in H as [Hab Hl]. apply String.eqb_eq in Hab. apply IH in Hl. now subst.
Qed.

Lemma kb_enumeration_spec :
  kb_enumeration = map N.of_nat (seq 0 (N.to_nat n_kb)) /\ kbtype_Total = Z.of_N n_kb /\
  kbtype_Strings = kb_display.
Proof.
  pose proof kb_enum_checker_true as H. apply andb_true_iff in H as [H1 H2].
  apply list_eqb_N_spec in H1. apply list_eqb_string_spec in H2.
  split; [exact H1|]. split; [|exact H2].
  unfold kbtype_Total. rewrite H1, map_length, seq_length. lia.
Qed.

Lemma KBStr2Num_KBString (k : N) : kb_lt k -> KBStr2Num (codes (kb_name k)) = Z.of_N k.
Proof. intros H. unfold KBStr2Num. destruct kb_conv_parts as (H1 & _). now rewrite (proj2 (H1 k H)). Qed.

(* ------------------------------------------------------------------ T5: the two keyboard tables *)

Definition row_eqb (a b : string * string) : bool := String.eqb (fst a) (fst b) && String.eqb (snd a) (snd b).
Lemma row_eqb_eq a b : row_eqb a b = true <-> a = b.
Proof.
  destruct a as [a1 a2], b as [b1 b2]. unfold row_eqb. cbn [fst snd]. rewrite andb_true_iff, !String.eqb_eq.
  split; [intros [-> ->]; reflexivity | intros H; inversion H; split; reflexivity].
Qed.

(* the layouts on which the two tables differ (counter-example finder of the table theorem) *)
Definition kb_table_differences : list N :=
  filter (fun k => negb (row_eqb (row_by_name k) (row_by_number k))) (map N.of_nat (seq 0 (N.to_nat n_kb))).

(* both tables have exactly one row per layout, in order *)
Definition kb_tables_shape_checker : bool :=
  list_eqb N.eqb (map fst kb_table_by_name) (map N.of_nat (seq 0 (N.to_nat n_kb))) &&
  list_eqb N.eqb (map fst kb_table_by_number) (map N.of_nat (seq 0 (N.to_nat n_kb))).
Lemma kb_tables_shape : kb_tables_shape_checker = true.
Proof. vm_cast_no_check (eq_refl true). Qed.

Definition kb_tables_agree_outside (bad : list N) : bool :=
  forall_below n_kb (fun k => memN k bad || row_eqb (row_by_name k) (row_by_number k)).

Lemma kb_tables_agree_outside_spec (bad : list N) :
  kb_tables_agree_outside bad = true ->
  forall k, kb_lt k -> ~ In k bad -> row_by_name k = row_by_number k.
Proof.
  intros H k Hk Hn. pose proof (forall_below_true _ _ H k Hk) as Hc. cbn beta in Hc.
  apply orb_true_iff in Hc as [Hc|Hc]; [apply memN_In in Hc; contradiction | now apply row_eqb_eq].
Qed.

(* ------------------------------------------------------------------ T6: chewing_set_KBType *)

Lemma in_effect_install (k : N) (r : string * string) (c : config) :
  in_effect (install_layout k r c) = r.
Proof. destruct r; reflexivity. Qed.

Lemma kbtype_number_known (n : N) : kb_lt n -> kbtype_number (Z.of_N n) = Some n.
Proof.
  intros Hn. unfold kbtype_number.
  assert (Hsmall : 0 <= Z.of_N n <= 255) by (unfold kb_lt in Hn; change n_kb with 17%N in Hn; lia).
  destruct (Z.leb_spec 0 (Z.of_N n)); [|lia]. destruct (Z.leb_spec (Z.of_N n) 255); [|lia].
  cbn [andb]. rewrite N2Z.id. destruct kb_conv_parts as (H1 & _). exact (proj1 (H1 n Hn)).
Qed.

Lemma kbtype_number_unknown (v : Z) : ~ (0 <= v < Z.of_N n_kb) -> kbtype_number v = None.
Proof.
  intros Hv. unfold kbtype_number.
  destruct (Z.leb_spec 0 v); [|reflexivity]. destruct (Z.leb_spec v 255); [|reflexivity].
  cbn [andb]. destruct kb_conv_parts as (_ & H2 & _). apply H2; [lia|].
  unfold kb_lt. intros Hlt. apply Hv. lia.
Qed.

Lemma set_KBType_known (n : N) (c : config) :
  kb_lt n ->
  let '(r, c') := set_KBType (Z.of_N n) c in
  r = 0 /\ kb_compat c' = n /\ in_effect c' = row_by_number n /\ opts c' = opts c /\ sel_keys c' = sel_keys c.
Proof.
  intros Hn. unfold set_KBType. rewrite (kbtype_number_known n Hn).
  rewrite Z.eqb_refl, andb_false_r. rewrite in_effect_install. cbn. repeat split.
Qed.

(* EVERY number that is not a layout number: default layout, -1 *)
Lemma set_KBType_unknown (v : Z) (c : config) :
  ~ (0 <= v < Z.of_N n_kb) ->
  let '(r, c') := set_KBType v c in
  r = -1 /\ kb_compat c' = KB_Default /\ in_effect c' = row_by_number KB_Default /\
  opts c' = opts c /\ sel_keys c' = sel_keys c.
Proof.
  intros Hn. unfold set_KBType. rewrite (kbtype_number_unknown v Hn).
  assert (Hne : Z.of_N KB_Default <> v).
  { intros <-. apply Hn. vm_compute. split; [discriminate | reflexivity]. }
  apply Z.eqb_neq in Hne. rewrite Hne, N.eqb_refl, in_effect_install. cbn. repeat split.
Qed.

(* ------------------------------------------------------------------ T7: string options *)

Lemma set_str_keyboard_ok (s : list N) (c : config) (k : N) :
  kb_parse s = Some k ->
  let '(r, c') := config_set_str name_keyboard_type s c in
  r = c_OK /\ kb_compat c' = k /\ in_effect c' = row_by_name k /\
  config_get_str name_keyboard_type c' = SOk s /\ opts c' = opts c /\ sel_keys c' = sel_keys c.
Proof.
  intros Hp. unfold config_set_str. rewrite String.eqb_refl, Hp.
  apply kb_parse_sound in Hp as [_ Hs]. rewrite in_effect_install. unfold config_get_str. rewrite String.eqb_refl. cbn [kb_compat install_layout opts sel_keys]. rewrite <- Hs. repeat split.
Qed.

Lemma set_str_keyboard_err (s : list N) (c : config) :
  kb_parse s = None -> config_set_str name_keyboard_type s c = (c_ERROR, c).
Proof. intros Hp. unfold config_set_str. now rewrite String.eqb_refl, Hp. Qed.

Lemma str_unknown_name (name : string) (s : list N) (c : config) :
  name <> name_keyboard_type -> name <> name_selection_keys ->
  config_set_str name s c = (c_ERROR, c) /\ config_get_str name c = SError.
Proof.
  intros H1 H2. apply String.eqb_neq in H1, H2. unfold config_set_str, config_get_str. now rewrite H1, H2.
Qed.

Lemma set_str_selkeys_err (s : list N) (c : config) :
  sel_keys_acceptable s = false -> config_set_str name_selection_keys s c = (c_ERROR, c).
Proof. intros H. unfold config_set_str. cbn. now rewrite H. Qed.

Lemma utf8_len_pos (x : N) : 1 <= utf8_len x.
Proof. unfold utf8_len. repeat match goal with |- context [(?a <? ?b)%N] => destruct (a <? b)%N end; lia. Qed.

Lemma str_len_ge_length (s : list N) : Z.of_nat (List.length s) <= str_len s.
Proof.
  induction s as [|x s IH]; cbn [str_len fold_right List.length]; [lia|].
  pose proof (utf8_len_pos x). fold (str_len s). lia.
Qed.

Lemma str_len_ascii (s : list N) : is_ascii s = true -> str_len s = Z.of_nat (List.length s).
Proof.
  induction s as [|x s IH]; cbn [str_len fold_right List.length is_ascii forallb]; [reflexivity|].
  intros H. apply andb_true_iff in H as [Hx Hs]. fold (str_len s). rewrite (IH Hs).
  unfold utf8_len. rewrite Hx. lia.
Qed.

Lemma pad_keys_exact (l : list Z) : pad_keys (List.length l) l = l.
Proof. induction l as [|x l IH]; cbn; [reflexivity | now rewrite IH]. Qed.

Lemma sel_key_char_ascii (x : N) : (x < 256)%N -> sel_key_char (Z.of_N x) = x.
Proof. intros H. unfold sel_key_char. rewrite as_u8_small by lia. apply N2Z.id. Qed.

(* ------------------------------------------------------------------ T8: set_selKey / get_selKey *)

Lemma set_selKey_spec (keys : list Z) (len : Z) (c : config) :
  (len = 10 -> List.length keys = 10%nat -> get_selKey (set_selKey (Some keys) len c) = keys) /\
  (len <> 10 -> set_selKey (Some keys) len c = c) /\
  set_selKey None len c = c.
Proof.
  unfold set_selKey, get_selKey. repeat split.
  - intros -> Hl. cbn [Z.eqb Pos.eqb with_sel_keys sel_keys]. rewrite <- Hl. apply firstn_all.
  - intros Hne. apply Z.eqb_neq in Hne. now rewrite Hne.
Qed.

(* ------------------------------------------------------------------ T9: frame conditions for the invariant *)

Lemma set_int_frame (name : string) (v : Z) (c : config) :
  let c' := snd (config_set_int name v c) in
  kb_compat c' = kb_compat c /\ in_effect c' = in_effect c /\ sel_keys c' = sel_keys c.
Proof.
  unfold config_set_int.
  destruct (set_int_global_reject v); [cbn; repeat split|].
  destruct (parse_iopt name) as [o|]; [|cbn; repeat split].
  destruct (apply_iopt o v (opts c) (engine_installed c)) as [[op' eng']|]; [|cbn; repeat split].
  change set_int_calls_set_editor_options with true. cbn. repeat split.
Qed.

Lemma legacy_set_frame (a : legacy) (v : Z) (c : config) :
  let c' := legacy_set a v c in
  kb_compat c' = kb_compat c /\ in_effect c' = in_effect c /\ sel_keys c' = sel_keys c.
Proof. rewrite legacy_set_is_named. apply set_int_frame. Qed.

Lemma set_selKey_frame keys len c :
  let c' := set_selKey keys len c in kb_compat c' = kb_compat c /\ in_effect c' = in_effect c.
Proof. unfold set_selKey. destruct keys; [destruct (len =? 10)|]; cbn; split; reflexivity. Qed.

Lemma configure_frame p c :
  let c' := chewing_Configure p c in kb_compat c' = kb_compat c /\ in_effect c' = in_effect c.
Proof.
  unfold chewing_Configure.
  change chewing_set_candPerPage with (legacy_set LCandPerPage).
  change chewing_set_maxChiSymbolLen with (legacy_set LMaxChiSymbolLen).
  change chewing_set_addPhraseDirection with (legacy_set LAddPhraseDirection).
  change chewing_set_spaceAsSelection with (legacy_set LSpaceAsSelection).
  change chewing_set_escCleanAllBuf with (legacy_set LEscCleanAllBuf).
  change chewing_set_autoShiftCur with (legacy_set LAutoShiftCur).
  change chewing_set_easySymbolInput with (legacy_set LEasySymbolInput).
  change chewing_set_phraseChoiceRearward with (legacy_set LPhraseChoiceRearward).
  cbv zeta.
  repeat match goal with
  | |- context [legacy_set ?a ?v ?x] =>
      let H := fresh in pose proof (legacy_set_frame a v x) as H; cbv zeta in H;
      destruct H as (-> & -> & _)
  | |- context [set_selKey ?k ?l ?x] =>
      let H := fresh in pose proof (set_selKey_frame k l x) as H; cbv zeta in H;
      destruct H as (-> & ->)
  end.
  split; reflexivity.
Qed.

Lemma editor_activity_frame tl tf p c :
  let c' := editor_activity tl tf p c in
  kb_compat c' = kb_compat c /\ in_effect c' = in_effect c /\ sel_keys c' = sel_keys c.
Proof. unfold editor_activity. destruct tl, tf; cbn; repeat split. Qed.

(* ------------------------------------------------------------------ T10: "the layout reported as current is the one in effect" *)

(* the layout reported by chewing_get_KBType / chewing_get_KBString / config_get_str is kb_compat;
   the layout in effect is (keyboard, syllable editor).  The invariant: the pair in effect is the
   row of the reported layout in BOTH tables. *)
Definition layout_inv (c : config) : Prop :=
  kb_lt (kb_compat c) /\
  in_effect c = row_by_number (kb_compat c) /\
  in_effect c = row_by_name (kb_compat c).

(* the weaker invariant that holds whatever the tables say: the pair in effect is the row of the
   reported layout in one of the two tables *)
Definition layout_inv_weak (c : config) : Prop :=
  kb_lt (kb_compat c) /\
  (in_effect c = row_by_number (kb_compat c) \/ in_effect c = row_by_name (kb_compat c)).

Definition tables_agree : Prop := forall k, kb_lt k -> row_by_name k = row_by_number k.

Lemma kb_default_lt : kb_lt KB_Default.
Proof. vm_compute. reflexivity. Qed.

Lemma kbtype_number_lt (v : Z) (k : N) : kbtype_number v = Some k -> kb_lt k.
Proof.
  intros H. destruct (Z.le_gt_cases 0 v) as [H0|H0]; [destruct (Z.lt_ge_cases v (Z.of_N n_kb)) as [H1|H1]|].
  - replace v with (Z.of_N (Z.to_N v)) in H by (apply Z2N.id; lia).
    assert (Hl : kb_lt (Z.to_N v)) by (unfold kb_lt; lia).
    rewrite (kbtype_number_known _ Hl) in H. inversion H; subst. exact Hl.
  - rewrite kbtype_number_unknown in H by lia. discriminate.
  - rewrite kbtype_number_unknown in H by lia. discriminate.
Qed.

Lemma init_rows : in_effect init_config = row_by_number (kb_compat init_config) /\
                  in_effect init_config = row_by_name (kb_compat init_config).
Proof. split; vm_compute; reflexivity. Qed.

Lemma layout_inv_init : layout_inv init_config.
Proof. destruct init_rows. split; [exact kb_default_lt | split; assumption]. Qed.

Lemma step_preserves_weak (o : op) (c : config) : layout_inv_weak c -> layout_inv_weak (snd (step o c)).
Proof.
  intros (Hk & Hr). unfold layout_inv_weak. destruct o; cbn [step snd].
  - destruct (set_int_frame name v c) as (-> & -> & _). now split.
  - destruct (legacy_set_frame a v c) as (-> & -> & _). now split.
  - unfold config_set_str.
    destruct (String.eqb name name_keyboard_type).
    + destruct (kb_parse value) as [k|] eqn:Ep; cbn [snd]; [|now split].
      apply kb_parse_sound in Ep as [Hl _].
      split; [exact Hl | right; apply in_effect_install].
    + destruct (String.eqb name name_selection_keys); [destruct (sel_keys_acceptable value)|]; cbn; now split.
  - unfold set_KBType. cbn [snd].
    split; [|left; apply in_effect_install].
    cbn [install_layout kb_compat].
    destruct (kbtype_number v) as [k|] eqn:Ek; [now apply kbtype_number_lt in Ek | exact kb_default_lt].
  - destruct (set_selKey_frame keys len c) as (-> & ->). now split.
  - destruct (configure_frame p c) as (-> & ->). now split.
  - destruct (editor_activity_frame toggle_lang toggle_form pending c) as (-> & -> & _). now split.
Qed.

Lemma run_app (a b : list op) (c : config) : run (a ++ b) c = run b (run a c).
Proof. unfold run. apply fold_left_app. Qed.

Lemma run_preserves_weak (ops : list op) (c : config) : layout_inv_weak c -> layout_inv_weak (run ops c).
Proof.
  revert c. induction ops as [|o ops IH]; intros c H; [exact H|].
  cbn [run fold_left]. apply IH. now apply step_preserves_weak.
Qed.

Lemma layout_inv_weak_run (ops : list op) : layout_inv_weak (run ops init_config).
Proof.
  apply run_preserves_weak. destruct layout_inv_init as (H1 & H2 & _). split; [exact H1 | now left].
Qed.

(* when the two tables agree the weak invariant is the full one *)
Lemma layout_inv_run_if_tables_agree (Htab : tables_agree) (ops : list op) : layout_inv (run ops init_config).
Proof.
  destruct (layout_inv_weak_run ops) as (Hk & Hr). split; [exact Hk|].
  destruct Hr as [Hr|Hr]; rewrite Hr; [rewrite (Htab _ Hk) | rewrite <- (Htab _ Hk)]; split; reflexivity.
Qed.

(* what the getters report *)
Lemma reported_layout (c : config) :
  kb_lt (kb_compat c) ->
  get_KBType c = Z.of_N (kb_compat c) /\
  kb_parse (get_KBString c) = Some (kb_compat c) /\
  config_get_str name_keyboard_type c = SOk (get_KBString c) /\
  KBStr2Num (get_KBString c) = get_KBType c.
Proof.
  intros Hk. destruct kb_conv_parts as (H1 & _). destruct (H1 _ Hk) as [_ Hp].
  unfold get_KBType, get_KBString, KBStr2Num. rewrite Hp. repeat split.
Qed.

(* ------------------------------------------------------------------ T11: selection_keys round trip *)

(* the content of a C string has no NUL *)
Definition cstring (s : list N) : Prop := ~ In 0%N s.

Lemma map_sel_key_char_ascii (s : list N) :
  is_ascii s = true -> map sel_key_char (map Z.of_N s) = s.
Proof.
  induction s as [|x s IH]; cbn [map is_ascii forallb]; [reflexivity|].
  intros H. apply andb_true_iff in H as [Hx Hs]. apply N.ltb_lt in Hx.
  rewrite sel_key_char_ascii by lia. now rewrite (IH Hs).
Qed.

Lemma existsb_zero_false (s : list N) : cstring s -> existsb (N.eqb 0) s = false.
Proof.
  intros H. destruct (existsb (N.eqb 0) s) eqn:E; [|reflexivity].
  exfalso. apply H. apply existsb_exists in E as (x & Hx & He). apply N.eqb_eq in He. now subst.
Qed.

Lemma get_str_selkeys_unfold (c : config) :
  config_get_str name_selection_keys c =
  if existsb (N.eqb 0) (map sel_key_char (sel_keys c)) then SError else SOk (map sel_key_char (sel_keys c)).
Proof. reflexivity. Qed.

Lemma set_str_selkeys_unfold (s : list N) (c : config) :
  config_set_str name_selection_keys s c =
  if sel_keys_acceptable s
  then (c_OK, with_sel_keys (pad_keys (Z.to_nat c_MAX_SELKEY) (map Z.of_N s)) c)
  else (c_ERROR, c).
Proof. reflexivity. Qed.

(* accepted = exactly ten ASCII characters *)
Lemma sel_keys_acceptable_spec (s : list N) :
  sel_keys_acceptable s = true <-> List.length s = 10%nat /\ is_ascii s = true.
Proof.
  unfold sel_keys_acceptable. rewrite andb_true_iff, Z.eqb_eq. change c_MAX_SELKEY with 10. split.
  - intros [Hl Ha]. rewrite (str_len_ascii s Ha) in Hl. split; [lia | exact Ha].
  - intros [Hl Ha]. rewrite (str_len_ascii s Ha), Hl. split; [reflexivity | exact Ha].
Qed.

Lemma selkeys_stored_read_back (s : list N) (c : config) :
  List.length s = 10%nat -> is_ascii s = true -> cstring s ->
  config_get_str name_selection_keys (with_sel_keys (pad_keys (Z.to_nat c_MAX_SELKEY) (map Z.of_N s)) c) = SOk s.
Proof.
  intros Hl Ha Hc. change (Z.to_nat c_MAX_SELKEY) with 10%nat.
  replace 10%nat with (List.length (map Z.of_N s)) by (now rewrite map_length).
  rewrite pad_keys_exact, get_str_selkeys_unfold. cbn [with_sel_keys sel_keys].
  rewrite (map_sel_key_char_ascii s Ha), (existsb_zero_false s Hc). reflexivity.
Qed.

(* EVERY string: accepted => OK, read back unchanged by both getters, nothing else changes;
   otherwise ERROR and the whole context unchanged *)
Lemma set_str_selkeys_spec (s : list N) (c : config) :
  cstring s ->
  (sel_keys_acceptable s = true ->
     exists c', config_set_str name_selection_keys s c = (c_OK, c') /\
                config_get_str name_selection_keys c' = SOk s /\
                get_selKey c' = map Z.of_N s /\
                opts c' = opts c /\ kb_compat c' = kb_compat c /\ in_effect c' = in_effect c /\
                syl_pending c' = syl_pending c) /\
  (sel_keys_acceptable s = false -> config_set_str name_selection_keys s c = (c_ERROR, c)).
Proof.
  intros Hc. rewrite set_str_selkeys_unfold. split; intros Hacc; rewrite Hacc; [|reflexivity].
  apply sel_keys_acceptable_spec in Hacc as [Hl Ha].
  eexists. split; [reflexivity|]. split; [now apply selkeys_stored_read_back|].
  split; [|repeat split].
  unfold get_selKey. cbn [with_sel_keys sel_keys]. change (Z.to_nat c_MAX_SELKEY) with 10%nat.
  replace 10%nat with (List.length (map Z.of_N s)) by (now rewrite map_length). apply pad_keys_exact.
Qed.

(* set_selKey with ten ASCII keys = the named option with the same keys as a string *)
Lemma set_selKey_is_named (s : list N) (c : config) :
  sel_keys_acceptable s = true ->
  set_selKey (Some (map Z.of_N s)) 10 c = snd (config_set_str name_selection_keys s c).
Proof.
  intros Hacc. rewrite set_str_selkeys_unfold, Hacc. cbn [snd].
  apply sel_keys_acceptable_spec in Hacc as [Hl Ha].
  unfold set_selKey. cbn [Z.eqb Pos.eqb]. f_equal.
  change (Z.to_nat c_MAX_SELKEY) with 10%nat.
  assert (Hm : List.length (map Z.of_N s) = 10%nat) by (now rewrite map_length).
  rewrite <- Hm at 2. rewrite pad_keys_exact. rewrite <- Hm. apply firstn_all.
Qed.

(* config_get_str(selection_keys) is the string of the keys chewing_get_selKey returns whenever
   these are non-NUL bytes, and an error (never a panic) exactly when a key's low byte is NUL *)
Lemma get_str_selkeys_spec (c : config) :
  (Forall (fun k => 0 < k < 256) (get_selKey c) ->
     config_get_str name_selection_keys c = SOk (map Z.to_N (get_selKey c))) /\
  (config_get_str name_selection_keys c = SError <-> exists k, In k (get_selKey c) /\ as_u8 k = 0%N).
Proof.
  rewrite get_str_selkeys_unfold. unfold get_selKey. split.
  - intros Hall.
    assert (Hm : map sel_key_char (sel_keys c) = map Z.to_N (sel_keys c)).
    { induction Hall as [|k l Hk Hl IH]; cbn [map]; [reflexivity|]. rewrite IH. f_equal.
      unfold sel_key_char. apply as_u8_small. lia. }
    rewrite Hm. destruct (existsb (N.eqb 0) (map Z.to_N (sel_keys c))) eqn:E; [|reflexivity].
    exfalso. apply existsb_exists in E as (x & Hx & He). apply N.eqb_eq in He. subst x.
    apply in_map_iff in Hx as (k & Hk & Hin). rewrite Forall_forall in Hall. specialize (Hall k Hin). lia.
  - destruct (existsb (N.eqb 0) (map sel_key_char (sel_keys c))) eqn:E; split; intros H; try discriminate; try reflexivity.
    + apply existsb_exists in E as (x & Hx & He). apply N.eqb_eq in He. subst x.
      apply in_map_iff in Hx as (k & Hk & Hin). exists k. split; [exact Hin | exact Hk].
    + exfalso. destruct H as (k & Hin & Hk).
      assert (Hex : existsb (N.eqb 0) (map sel_key_char (sel_keys c)) = true).
      { apply existsb_exists. exists 0%N. split; [|reflexivity]. apply in_map_iff. exists k. split; assumption. }
      congruence.
Qed.

(* ------------------------------------------------------------------ T12: the two tables agree; the full invariant *)

Lemma kb_tables_agree : tables_agree.
Proof.
  intros k Hk. apply (kb_tables_agree_outside_spec []); [vm_cast_no_check (eq_refl true) | exact Hk | intros []].
Qed.

Lemma kb_table_differences_none : kb_table_differences = [].
Proof. vm_compute. reflexivity. Qed.

Lemma layout_inv_run (ops : list op) : layout_inv (run ops init_config).
Proof. exact (layout_inv_run_if_tables_agree kb_tables_agree ops). Qed.

(* keyboard_type by name, both directions in one statement *)
Lemma set_str_keyboard_spec (s : list N) (c : config) :
  (forall k, kb_parse s = Some k ->
     let '(r, c') := config_set_str name_keyboard_type s c in
     r = c_OK /\ kb_compat c' = k /\ in_effect c' = row_by_name k /\
     config_get_str name_keyboard_type c' = SOk s /\ opts c' = opts c /\ sel_keys c' = sel_keys c) /\
  (kb_parse s = None -> config_set_str name_keyboard_type s c = (c_ERROR, c)).
Proof. split; [intros k; apply set_str_keyboard_ok | apply set_str_keyboard_err]. Qed.

(* selecting a layout by number and by name is the same operation *)
Lemma set_by_number_is_set_by_name (k : N) (c : config) :
  kb_lt k ->
  snd (set_KBType (Z.of_N k) c) = snd (config_set_str name_keyboard_type (codes (kb_name k)) c).
Proof.
  intros Hk. unfold set_KBType, config_set_str. rewrite (kbtype_number_known k Hk).
  rewrite String.eqb_refl. destruct kb_conv_parts as (H1 & _). rewrite (proj2 (H1 k Hk)).
  cbn [snd]. now rewrite (kb_tables_agree k Hk).
Qed.

(* deprecated chewing_Configure = the named options / chewing_set_selKey, in the order of its body *)
Lemma configure_is_named (p : config_data) (c : config) :
  chewing_Configure p c =
  fold_left (fun c (f : config -> config) => f c)
    [ (fun c => snd (config_set_int (iopt_name OCandidatesPerPage) (cd_cand_per_page p) c));
      (fun c => snd (config_set_int (iopt_name OAutoCommitThreshold) (cd_max_chi_symbol_len p) c));
      set_selKey (Some (cd_sel_key p)) c_MAX_SELKEY;
      (fun c => snd (config_set_int (iopt_name OUserPhraseAddDirection) (cd_add_phrase_forward p) c));
      (fun c => snd (config_set_int (iopt_name OSpaceIsSelectKey) (cd_space_as_selection p) c));
      (fun c => snd (config_set_int (iopt_name OEscClearAllBuffer) (cd_esc_clean_all_buf p) c));
      (fun c => snd (config_set_int (iopt_name OAutoShiftCursor) (cd_auto_shift_cur p) c));
      (fun c => snd (config_set_int (iopt_name OEasySymbolInput) (cd_easy_symbol_input p) c));
      (fun c => snd (config_set_int (iopt_name OPhraseChoiceRearward) (cd_phrase_choice_rearward p) c)) ] c.
Proof. reflexivity. Qed.

(* ------------------------------------------------------------------ T13: no history leaves the documented ranges *)

Definition opts_wf (o : options) : Prop :=
  c_MIN_SELKEY <= candidates_per_page o <= c_MAX_SELKEY /\
  c_MIN_CHI_SYMBOL_LEN <= auto_commit_threshold o <= c_MAX_CHI_SYMBOL_LEN /\
  (language_mode o < 2)%N /\ (character_form o < 2)%N /\ (user_phrase_add_dir o < 2)%N /\
  (conversion_engine o < 3)%N.

Lemma default_options_wf : opts_wf default_options.
Proof. unfold opts_wf. cbn. repeat split; try discriminate; reflexivity. Qed.

Lemma N_lt_2_cases (d : N) : (d < 2)%N -> d = 0%N \/ d = 1%N.
Proof. lia. Qed.
Lemma N_lt_3_cases (d : N) : (d < 3)%N -> d = 0%N \/ d = 1%N \/ d = 2%N.
Proof. lia. Qed.

Lemma get_iopt_in_range (o : iopt) (op : options) : opts_wf op -> in_range o (get_iopt o op).
Proof.
  intros (H1 & H2 & H3 & H4 & H5 & H6). unfold in_range.
  destruct o; cbn [get_iopt doc_lo doc_hi];
    try (match goal with |- context [b2z ?b] => destruct b; cbv; split; discriminate end).
  - apply N_lt_2_cases in H5 as [-> | ->]; cbv; split; discriminate.
  - change c_MIN_SELKEY with 1 in *; change c_MAX_SELKEY with 10 in *. rewrite as_c_int_small; lia.
  - apply N_lt_2_cases in H3 as [-> | ->]; cbv; split; discriminate.
  - change c_MIN_CHI_SYMBOL_LEN with 0 in *; change c_MAX_CHI_SYMBOL_LEN with 39 in *. rewrite as_c_int_small; lia.
  - apply N_lt_2_cases in H4 as [-> | ->]; cbv; split; discriminate.
  - apply N_lt_3_cases in H6 as [-> | [-> | ->]]; cbv; split; discriminate.
Qed.

Lemma apply_iopt_wf (o : iopt) (v : Z) (op op' : options) (eng eng' : N) :
  0 <= v -> opts_wf op -> apply_iopt o v op eng = Some (op', eng') -> opts_wf op'.
Proof.
  intros Hv (H1 & H2 & H3 & H4 & H5 & H6).
  destruct o;
    cbv [apply_iopt bool_arm existsb ensure_bool_values assocZ orb
         set_int_enum_user_phrase_add_direction set_int_enum_language_mode set_int_enum_character_form
         set_int_engine set_int_reject_candidates_per_page set_int_reject_auto_commit_threshold negb andb];
    bdestr; intros E; inversion E; subst; unfold opts_wf; cbn;
    change c_MIN_SELKEY with 1 in *; change c_MAX_SELKEY with 10 in *;
    change c_MIN_CHI_SYMBOL_LEN with 0 in *; change c_MAX_CHI_SYMBOL_LEN with 39 in *;
    repeat split; try assumption; try lia; try reflexivity.
Qed.

Lemma set_int_wf (name : string) (v : Z) (c : config) :
  opts_wf (opts c) -> opts_wf (opts (snd (config_set_int name v c))).
Proof.
  intros H. unfold config_set_int.
  destruct (set_int_global_reject v) eqn:Eg; [exact H|].
  assert (Hv : 0 <= v).
  { destruct (Z.lt_ge_cases v 0) as [Hlt|Hge]; [|exact Hge]. apply global_reject_spec in Hlt. congruence. }
  destruct (parse_iopt name) as [o|]; [|exact H].
  destruct (apply_iopt o v (opts c) (engine_installed c)) as [[op' eng']|] eqn:E; [|exact H].
  change set_int_calls_set_editor_options with true. cbn. exact (apply_iopt_wf _ _ _ _ _ _ Hv H E).
Qed.

Lemma step_wf (o : op) (c : config) : opts_wf (opts c) -> opts_wf (opts (snd (step o c))).
Proof.
  intros H. destruct o; cbn [step snd].
  - now apply set_int_wf.
  - rewrite legacy_set_is_named. now apply set_int_wf.
  - unfold config_set_str. destruct (String.eqb name name_keyboard_type).
    + destruct (kb_parse value); exact H.
    + destruct (String.eqb name name_selection_keys); [destruct (sel_keys_acceptable value)|]; exact H.
  - exact H.
  - unfold set_selKey. destruct keys; [destruct (len =? 10)|]; exact H.
  - rewrite configure_is_named. cbn [fold_left].
    repeat match goal with
    | |- opts_wf (opts (snd (config_set_int _ _ _))) => apply set_int_wf
    | |- opts_wf (opts (set_selKey ?k ?l ?x)) =>
        change (opts (set_selKey k l x)) with (opts x)
    end; try exact H.
    all: unfold set_selKey; cbn [Z.eqb c_MAX_SELKEY Pos.eqb with_sel_keys opts];
      repeat apply set_int_wf; exact H.
  - destruct H as ([H1 H1'] & [H2 H2'] & H3 & H4 & H5 & H6).
    unfold editor_activity. destruct toggle_lang, toggle_form; unfold opts_wf; cbn;
      repeat match goal with |- context [N.eqb ?a ?b] => destruct (N.eqb a b) end;
      repeat split; try assumption; reflexivity.
Qed.

Lemma run_wf (ops : list op) (c : config) : opts_wf (opts c) -> opts_wf (opts (run ops c)).
Proof.
  revert c. induction ops as [|o ops IH]; intros c H; [exact H|].
  cbn [run fold_left]. apply IH. now apply step_wf.
Qed.

(* after ANY history every integer option reads a value of its documented range *)
Lemma options_always_in_range (ops : list op) (o : iopt) :
  in_range o (config_get_int (iopt_name o) (run ops init_config)).
Proof.
  unfold config_get_int. rewrite parse_iopt_name. apply get_iopt_in_range, run_wf. exact default_options_wf.
Qed.
