(* The conversion graph always has a path from 0 to the end of the buffer (C01 mechanism: "the graph
   always has a path, so shortest_path().unwrap() cannot fail"; C03: the tiling theorems are about paths,
   this shows there is one).  For every well-formed composition - which every history of the editor
   produces (EditorInv) - and every dictionary: a recorded choice is an edge of its own range (it covers
   syllables only and no break lies inside it: wf_clean), every other symbol has an edge of its own
   (a character as itself; a syllable by its best word, or - since fix e6644f0 - by its spelling when the
   dictionary has no word for it).  On the pinned tree the last case had no edge: refuted in C01/C03. *)
From Coq Require Import NArith List Bool Arith Lia.
From LC Require Import Base.Lib Model.Composition Model.Conversion Proofs.CompositionProofs.
Import ListNotations.
Open Scope nat_scope.

Section Path.
Variable lookup : lookup_fn.
Variable spell : N -> list N.
Variable c : composition.
Hypothesis Wc : wf_comp c.

Lemma find_exists {A} (f : A -> bool) l x : In x l -> f x = true -> exists y, find f l = Some y.
Proof.
  induction l as [|a l IH]; intros Hin Hf; [contradiction|]. cbn [find]. destruct (f a) eqn:E; [eauto|].
  destruct Hin as [->|Hin]; [congruence | now apply IH].
Qed.

Lemma pphrase_eqb_refl p : pphrase_eqb p p = true.
Proof.
  destruct p as [[x|x]|t f]; cbn; try apply N.eqb_refl.
  apply andb_true_iff. split; [|apply N.eqb_refl]. unfold text_eqb.
  induction t as [|a t IH]; cbn; [reflexivity|]. now rewrite N.eqb_refl.
Qed.

Lemma slice_len b n : b + n <= clen c -> length (firstn n (skipn b (symbols c))) = n.
Proof. intros H. rewrite firstn_length, skipn_length. unfold clen in H. lia. Qed.

Lemma nth_error_slice b n k : k < n -> nth_error (firstn n (skipn b (symbols c))) k = nth_error (symbols c) (b + k).
Proof.
  intros Hk. rewrite <- nth_error_skipn_add. revert k Hk. generalize (skipn b (symbols c)) as l.
  induction n as [|n IH]; intros l k Hk; [lia|]. destruct l as [|x l]; [now destruct k|].
  destruct k as [|k]; cbn [firstn nth_error]; [reflexivity | apply IH; lia].
Qed.

(* an edge found by find_best_phrase for [b, b+n) is in the graph *)
Lemma edge_in_graph b n p : b < clen c -> b + n <= clen c ->
  find_best_phrase spell lookup c b (firstn n (skipn b (symbols c))) = Some p ->
  In (mkEdge b (b + n) p) (find_intervals spell lookup c).
Proof.
  intros Hb Hn Hf. unfold find_intervals. apply in_flat_map. exists b. split; [apply in_seq; lia|].
  unfold edges_from. apply in_flat_map. exists n. split; [apply in_seq; lia|]. rewrite Hf. now left.
Qed.

(* ---- a symbol that lies in no longer choice has an edge of its own ---- *)
Definition free_at (k : nat) : Prop := forall s, In s (selections c) -> ib s <= k < ie s -> ie s = S (ib s).

Lemma single_edge k : k < clen c -> free_at k ->
  exists p, find_best_phrase spell lookup c k (firstn 1 (skipn k (symbols c))) = Some p.
Proof.
  intros Hk Hfree.
  assert (Hsym : exists sym, firstn 1 (skipn k (symbols c)) = [sym]).
  { pose proof (slice_len k 1 ltac:(lia)) as L. destruct (firstn 1 (skipn k (symbols c))) as [|x [|y l]]; cbn in L; try lia. eauto. }
  destruct Hsym as (sym & ->). unfold find_best_phrase. cbn [length].
  assert (E1 : has_break_inside c k 1 = false) by reflexivity. rewrite E1.
  assert (E2 : sel_conflicts c k (k + 1) = false).
  { unfold sel_conflicts. apply not_true_iff_false. intros H. apply existsb_exists in H as (s & Hs & H).
    apply andb_true_iff in H as (H1 & H2). unfold intersect_range in H1. apply Nat.ltb_lt in H1.
    apply negb_true_iff in H2. unfold is_contained_by in H2.
    assert (ib s <= k < ie s) by lia. specialize (Hfree s Hs H).
    apply andb_false_iff in H2 as [H2|H2]; [apply Nat.leb_gt in H2 | apply Nat.leb_gt in H2]; lia. }
  rewrite E2. destruct sym as [code|ch]; [|eauto]. cbn [existsb is_char is_syllable negb orb].
  destruct (pick_best c k (k + 1) (lookup [SymSyl code]) None 0%N); [eauto|].
  destruct (forced_selection c k (k + 1)); eauto.
Qed.

(* ---- a recorded choice is an edge of its own range ---- *)
Lemma not_char_pattern {A} (syms : list symbol) (a b : A) (f : N -> A) : existsb is_char syms = false ->
  match syms with [SymChar ch] => f ch | _ => b end = b.
Proof. destruct syms as [|[code|ch] [|y l]]; cbn; try reflexivity. discriminate. Qed.

Lemma selection_edge s : In s (selections c) ->
  exists p, find_best_phrase spell lookup c (ib s) (firstn (ie s - ib s) (skipn (ib s) (symbols c))) = Some p.
Proof.
  intros Hs. destruct Wc as [Wg Ws Wd Wk]. rewrite Forall_forall in Ws. destruct (Ws s Hs) as (S1 & S2).
  destruct (Wk s Hs) as (K1 & K2).
  set (n := ie s - ib s). set (syms := firstn n (skipn (ib s) (symbols c))).
  assert (L : length syms = n) by (apply slice_len; unfold n; lia).
  unfold find_best_phrase. rewrite L. replace (ib s + n) with (ie s) by (unfold n; lia).
  assert (E1 : has_break_inside c (ib s) n = false).
  { unfold has_break_inside. apply not_true_iff_false. intros H. apply existsb_exists in H as (i & Hi & H). apply in_seq in Hi.
    unfold comp_gap in H. destruct (Nat.ltb i (clen c)); [|discriminate].
    destruct (nth_error (gaps c) i) as [[| | |]|] eqn:Eg; try discriminate. apply (K2 i); [unfold n in Hi; lia | exact Eg]. }
  rewrite E1.
  assert (E2 : sel_conflicts c (ib s) (ie s) = false).
  { unfold sel_conflicts. apply not_true_iff_false. intros H. apply existsb_exists in H as (s' & Hs' & H).
    apply andb_true_iff in H as (H1 & H2). unfold intersect_range in H1. apply Nat.ltb_lt in H1.
    apply negb_true_iff in H2. unfold is_contained_by in H2.
    destruct (ForallOrdPairs_In Wd s s' Hs Hs') as [->|[Hd|Hd]].
    - rewrite !Nat.leb_refl in H2. discriminate.
    - unfold disjoint in Hd. lia.
    - unfold disjoint in Hd. lia. }
  rewrite E2.
  assert (E3 : existsb is_char syms = false).
  { apply not_true_iff_false. intros H. apply existsb_exists in H as (x & Hx & Hc). apply In_nth_error in Hx as (k & Hk).
    assert (k < n) by (rewrite <- L; apply nth_error_Some; congruence).
    unfold syms in Hk. rewrite nth_error_slice in Hk by assumption.
    destruct (K1 (ib s + k) ltac:(unfold n in *; lia)) as (code & Hcode). rewrite Hcode in Hk. inversion Hk; subst. discriminate. }
  rewrite (not_char_pattern syms (Some (PSym (SymChar 0%N)))) by exact E3. rewrite E3.
  destruct (pick_best c (ib s) (ie s) (lookup syms) None 0%N); [eauto|].
  destruct (find_exists (fun sel => Nat.eqb (ib s) (ib sel) && Nat.eqb (ie s) (ie sel)) (selections c) s Hs) as (y & Hy);
    [now rewrite !Nat.eqb_refl|].
  unfold forced_selection. rewrite Hy. eauto.
Qed.

(* ---- the path: whole choices where one starts, single symbols elsewhere ---- *)
Definition not_inside (k : nat) : Prop := forall s, In s (selections c) -> ~ (ib s < k < ie s).

Lemma step_ok graph from to p rest : graph = find_intervals spell lookup c ->
  from < to -> In (mkEdge from to p) graph -> path_ok graph to (clen c) rest = true ->
  path_ok graph from (clen c) (mkEdge from to p :: rest) = true.
Proof.
  intros -> Hlt Hin Hrest. cbn [path_ok eb ee ephrase]. rewrite Nat.eqb_refl. cbn [andb].
  assert (E : Nat.ltb from to = true) by now apply Nat.ltb_lt. rewrite E, Hrest. cbn [andb]. rewrite andb_true_r.
  apply existsb_exists. exists (mkEdge from to p). split; [exact Hin|]. cbn [eb ee ephrase].
  now rewrite !Nat.eqb_refl, pphrase_eqb_refl.
Qed.

Lemma path_from : forall n from, clen c - from = n -> from <= clen c -> not_inside from ->
  exists p, path_ok (find_intervals spell lookup c) from (clen c) p = true.
Proof.
  induction n as [n IH] using lt_wf_ind. intros from Hn Hle Hni.
  destruct (Nat.eq_dec from (clen c)) as [->|Hne]; [exists []; cbn; apply Nat.eqb_refl|].
  assert (Hlt : from < clen c) by lia.
  pose proof Wc as [Wg Ws Wd Wk]. rewrite Forall_forall in Ws.
  destruct (find (fun s => Nat.eqb (ib s) from) (selections c)) as [s|] eqn:Ef.
  - (* a choice starts here: take it whole *)
    apply find_some in Ef as (Hs & Eb). apply Nat.eqb_eq in Eb. destruct (Ws s Hs) as (S1 & S2).
    destruct (selection_edge s Hs) as (p & Hp). rewrite Eb in Hp.
    assert (Hin : In (mkEdge from (from + (ie s - from)) p) (find_intervals spell lookup c)) by (apply edge_in_graph; [lia | lia | rewrite <- Eb at 1; rewrite Eb; exact Hp]).
    replace (from + (ie s - from)) with (ie s) in Hin by lia.
    destruct (IH (clen c - ie s) ltac:(lia) (ie s) eq_refl S2) as (rest & Hrest).
    { intros s' Hs' Hin'. destruct (ForallOrdPairs_In Wd s s' Hs Hs') as [->|[Hd|Hd]]; unfold disjoint in *; try lia; destruct (Ws s' Hs'); lia. }
    exists (mkEdge from (ie s) p :: rest). apply step_ok; [reflexivity | lia | exact Hin | exact Hrest].
  - (* no choice starts here, and none contains this position: a single symbol *)
    assert (Hfree : free_at from).
    { intros s Hs Hk. exfalso. destruct (Nat.eq_dec (ib s) from) as [E|E].
      - pose proof (find_none _ _ Ef s Hs) as Hn0. cbn beta in Hn0. apply Nat.eqb_neq in Hn0. contradiction.
      - apply (Hni s Hs). lia. }
    destruct (single_edge from Hlt Hfree) as (p & Hp).
    assert (Hin : In (mkEdge from (from + 1) p) (find_intervals spell lookup c)) by (apply edge_in_graph; [lia | lia | exact Hp]).
    destruct (IH (clen c - (from + 1)) ltac:(lia) (from + 1) eq_refl ltac:(lia)) as (rest & Hrest).
    { intros s Hs Hin'. destruct (Nat.eq_dec (ib s) from) as [E|E].
      - pose proof (find_none _ _ Ef s Hs) as Hn0. cbn beta in Hn0. apply Nat.eqb_neq in Hn0. contradiction.
      - apply (Hni s Hs). lia. }
    exists (mkEdge from (from + 1) p :: rest). apply step_ok; [reflexivity | lia | exact Hin | exact Hrest].
Qed.

Theorem graph_has_a_path : exists p, path_ok (find_intervals spell lookup c) 0 (clen c) p = true.
Proof. apply (path_from (clen c) 0); [lia | lia | intros s Hs H; lia]. Qed.

End Path.

(* ---- the pinned tree (before fix e6644f0): find_best_phrase without the spelled fallback ---- *)
Definition find_best_phrase_pinned (lookup : lookup_fn) (c : composition) (start : nat) (syms : list symbol) : option pphrase :=
  let e := start + length syms in
  if has_break_inside c start (length syms) then None
  else if sel_conflicts c start e then None
  else match syms with
       | [SymChar ch] => Some (PSym (SymChar ch))
       | _ =>
         if existsb is_char syms then None
         else match pick_best c start e (lookup syms) None 0%N with
              | Some p => Some (PPhrase (fst p) (snd p))
              | None => match forced_selection c start e with
                        | Some sel => Some (PPhrase (itext sel) 0%N)
                        | None => None
                        end
              end
       end.
Definition find_intervals_pinned (lookup : lookup_fn) (c : composition) : list edge :=
  flat_map (fun b => flat_map (fun n =>
    match find_best_phrase_pinned lookup c b (firstn n (skipn b (symbols c))) with
    | Some p => [mkEdge b (b + n) p]
    | None => []
    end) (seq 0 (S (clen c - b)))) (seq 0 (clen c)).

Lemma no_path_pinned : forall p,
  path_ok (find_intervals_pinned (fun _ => []) (mkComp [SymSyl 100%N] [GBegin] [])) 0 1 p = false.
Proof. intros [|e rest]; [reflexivity|]. cbn [path_ok]. vm_compute find_intervals_pinned. cbn [existsb]. now rewrite andb_false_r. Qed.
