(* Proofs about Model/Uhash.v.
   Part 1 (C12): totality of the legacy loaders over ALL byte strings - they
   return Ok or Err, never Panic, never OutOfFuel within the stated fuel - and
   the refutation of that statement for the binary loader of the pinned tree.
   Part 2 (C19): printer/loader round trips for both legacy formats and the
   refutation for the text loader of the pinned tree. *)
From Coq Require Import NArith ZArith List Bool Lia.
From LC Require Import Base.Lib Gen.Uhash_gen Model.Utf8Dfa Model.Uhash Proofs.Utf8DfaProofs.
Import ListNotations.
Open Scope N_scope.

Ltac Zify.zify_post_hook ::= Z.div_mod_to_equations.

(* "reports an error or succeeds": the only outcomes allowed by C12 *)
Definition total_outcome {A} (o : outcome A) : Prop :=
  match o with Ok _ | Err _ => True | Panic _ | OutOfFuel => False end.

(* ================================================================== *)
(* Part 1: totality *)

Lemma load_text_with_total lty bs : total_outcome (load_text_with lty bs).
Proof.
  unfold load_text_with.
  destruct (split_lines bs []) as [|first rest]; [exact I|].
  destruct (negb (utf8_ok first)); [exact I|].
  destruct (parse_num lty first); [|exact I].
  destruct (text_records rest); exact I.
Qed.

(* the text loader is total for every byte string (there is no loop besides the
   structural recursion over the input, hence no fuel) *)
Lemma load_text_total : forall bs, total_outcome (load_text bs).
Proof. intros bs. apply load_text_with_total. Qed.

Lemma len_N_firstn_field (bs : list N) :
  BIN_FIELD_SIZE <= len_N bs -> length (firstn (N.to_nat BIN_FIELD_SIZE) bs) = N.to_nat BIN_FIELD_SIZE.
Proof. unfold len_N. intros H. apply firstn_length_le. lia. Qed.

Lemma nth_N_some {A} (l : list A) i : i < len_N l -> exists x, nth_N l i = Some x.
Proof.
  unfold nth_N, len_N. intros H.
  destruct (nth_error l (N.to_nat i)) eqn:E; [eauto|].
  apply nth_error_None in E. lia.
Qed.

(* a record of the right size never panics in the bounds-checked loader *)
Lemma bin_record_checked_no_panic buf :
  len_N buf = BIN_FIELD_SIZE -> forall s, bin_record true buf <> RPanic s.
Proof.
  intros Hlen s. unfold bin_record.
  destruct (_ || _ || _ || _); [discriminate|].
  cbn [andb].
  destruct (N.leb_spec BIN_FIELD_SIZE (bin_syl_offset + 2 * byte_or0 buf bin_len_offset + 1)) as [Hge|Hlt]; [discriminate|].
  unfold byte_at.
  destruct (nth_N_some buf (bin_syl_offset + 2 * byte_or0 buf bin_len_offset + 1)) as [x Hx].
  { rewrite Hlen. exact Hlt. }
  rewrite Hx. destruct (x =? 0); [discriminate|].
  destruct (bin_syls _ _ _); [|discriminate].
  destruct (BIN_FIELD_SIZE <? _); [discriminate|].
  destruct (utf8_ok _); discriminate.
Qed.

Lemma bin_loop_checked_total fuel : forall bs acc,
  (N.to_nat (len_N bs / BIN_FIELD_SIZE) < fuel)%nat ->
  total_outcome (bin_loop true fuel bs acc).
Proof.
  induction fuel as [|k IH]; intros bs acc Hf; [exfalso; exact (Nat.nlt_0_r _ Hf)|].
  cbn [bin_loop].
  destruct (N.ltb_spec (len_N bs) BIN_FIELD_SIZE) as [Hlt|Hge]; [exact I|].
  set (buf := firstn (N.to_nat BIN_FIELD_SIZE) bs).
  set (rest := skipn (N.to_nat BIN_FIELD_SIZE) bs).
  assert (Hbuf : len_N buf = BIN_FIELD_SIZE).
  { unfold len_N, buf. rewrite len_N_firstn_field by exact Hge. apply N2Nat.id. }
  assert (Hrest : (N.to_nat (len_N rest / BIN_FIELD_SIZE) < k)%nat).
  { unfold rest, len_N in *. rewrite skipn_length.
    change BIN_FIELD_SIZE with 125 in *. lia. }
  pose proof (bin_record_checked_no_panic buf Hbuf) as Hnp.
  destruct (bin_record true buf) as [|e| |s].
  - apply IH, Hrest.
  - apply IH, Hrest.
  - exact I.
  - exfalso. now apply (Hnp s).
Qed.

(* C12 (legacy binary loader): for EVERY byte string the current loader returns
   Ok or Err - no panic, and the loop ends within bin_fuel bs =
   (number of complete records) + 1 iterations *)
Lemma load_bin_total : forall bs, total_outcome (load_bin bs).
Proof.
  intros bs. unfold load_bin, load_bin_with.
  destruct (len_N bs <? sig_len); [exact I|].
  destruct (negb _); [exact I|].
  destruct (N.ltb_spec (len_N bs) bin_header_len) as [|Hge]; [exact I|].
  apply bin_loop_checked_total. unfold bin_fuel, len_N in *. rewrite skipn_length.
  change BIN_FIELD_SIZE with 125 in *. lia.
Qed.

(* loader.rs: binary first, text on error *)
Lemma load_uhash_total : forall bs, total_outcome (load_uhash bs).
Proof.
  intros bs. unfold load_uhash, load_uhash_with.
  pose proof (load_bin_total bs) as H. unfold load_bin in H.
  destruct (load_bin_with true bs); try exact H.
  apply load_text_with_total.
Qed.

(* The pinned tree: a record whose length byte is 200 indexes buf[418] of a
   125-byte buffer.  "CBiH", 4 lifetime bytes, one record of zeros except byte 16. *)
Definition bin_panic_witness : list N :=
  BIN_HASH_SIG ++ zeros 4 ++ (zeros 16 ++ [200] ++ zeros 108).

Lemma load_bin_pinned_refuted :
  exists bs, load_bin_pinned bs = Panic SITE_BIN_DELETED_INDEX.
Proof. exists bin_panic_witness. vm_compute. reflexivity. Qed.

(* a valid 1-syllable record whose phrase-length byte is overwritten with 0xff:
   the slice buf[20..275] is out of range *)
Definition bin_panic_witness2 : list N :=
  BIN_HASH_SIG ++ zeros 4 ++ (zeros 16 ++ [1; 1; 0; 255; 80] ++ zeros 104).

Lemma load_bin_pinned_refuted_slice :
  exists bs, load_bin_pinned bs = Panic SITE_BIN_PHRASE_SLICE.
Proof. exists bin_panic_witness2. vm_compute. reflexivity. Qed.

(* on both witnesses the current loader skips the record *)
Lemma load_bin_witnesses_now_ok :
  load_bin bin_panic_witness = Ok [] /\ load_bin bin_panic_witness2 = Ok [].
Proof. split; vm_compute; reflexivity. Qed.

(* ================================================================== *)
(* Part 2: printer / loader round trips *)

(* the record of tests/data/golden-uhash-*.dat *)
Definition golden_rec : lrec :=
  {| lr_phrase := [231; 173; 150; 232; 169; 166]; lr_syls := [10268; 8708];
     lr_user := 9999%Z; lr_time := 6%Z; lr_max := 9318%Z; lr_orig := 318%Z; lr_deleted := false |}.

(* The pinned tree parses the lifetime line as c_ushort: a legacy text file whose
   lifetime counter passed 65535 is rejected as a whole and nothing is migrated. *)
Lemma load_text_pinned_refuted :
  exists lt rs, c_int_ok lt = true /\ forallb lrec_wf rs = true /\ forallb lrec_text_ok rs = true /\
                load_text_pinned (print_text lt rs) = Err E_INVALID_DATA.
Proof. exists 70000%Z, [golden_rec]. vm_compute. repeat split; reflexivity. Qed.

(* ------------------------------------------------------------------ *)
(* decimal printer / parser *)

Lemma parse_digits_snoc l d a :
  parse_digits (l ++ [d]) a =
  match parse_digits l a with
  | Some v => if is_digit d then Some (v * 10 + (d - 48)) else None
  | None => None
  end.
Proof.
  revert a. induction l as [|b l IH]; intros a; cbn [app parse_digits].
  - destruct (is_digit d); reflexivity.
  - destruct (is_digit b); [apply IH | reflexivity].
Qed.

Lemma is_digit_dec r : r < 10 -> is_digit (48 + r) = true.
Proof.
  intros H. unfold is_digit. apply andb_true_iff. split; [apply N.leb_le | apply N.leb_le]; lia.
Qed.

Lemma dec_rev_parse fuel : forall n, n < 2 ^ N.of_nat fuel ->
  parse_digits (rev (dec_rev fuel n)) 0 = Some n.
Proof.
  induction fuel as [|k IH]; intros n Hn.
  - cbn in Hn. assert (n = 0) by lia. subst. reflexivity.
  - cbn [dec_rev rev]. rewrite parse_digits_snoc.
    assert (Hm : n mod 10 < 10) by (apply N.mod_lt; lia).
    rewrite (is_digit_dec _ Hm).
    destruct (N.ltb_spec n 10) as [Hlt|Hge].
    + cbn [rev parse_digits]. f_equal. rewrite N.mod_small by exact Hlt. lia.
    + rewrite IH.
      * f_equal. pose proof (N.div_mod n 10). lia.
      * rewrite Nat2N.inj_succ, N.pow_succ_r' in Hn.
        apply N.div_lt_upper_bound; lia.
Qed.

Lemma dec_N_parse n : parse_digits (dec_N n) 0 = Some n.
Proof.
  unfold dec_N. apply dec_rev_parse.
  rewrite Nat2N.inj_succ, N2Nat.id.
  destruct n as [|p]; [cbn; lia|].
  apply N.log2_spec. lia.
Qed.

Lemma dec_rev_digits fuel : forall n, Forall (fun b => is_digit b = true) (dec_rev fuel n).
Proof.
  induction fuel as [|k IH]; intros n; cbn [dec_rev]; constructor.
  - apply is_digit_dec. apply N.mod_lt. lia.
  - destruct (n <? 10); [constructor | apply IH].
Qed.

Lemma dec_N_digits n : Forall (fun b => is_digit b = true) (dec_N n).
Proof. unfold dec_N. apply Forall_rev, dec_rev_digits. Qed.

Lemma dec_N_nonempty n : dec_N n <> [].
Proof.
  unfold dec_N. cbn [dec_rev rev]. intros H. apply app_eq_nil in H as [_ H]. discriminate H.
Qed.

Lemma is_digit_range b : is_digit b = true -> 48 <= b <= 57.
Proof. unfold is_digit. intros H. apply andb_true_iff in H as [H1 H2]. apply N.leb_le in H1, H2. lia. Qed.

(* a type (signed?, bits) holds the non-negative value n *)
Definition fits_nonneg (ty : bool * N) (n : N) : Prop :=
  if fst ty then n < 2 ^ (snd ty - 1) else n < 2 ^ snd ty.

Lemma parse_num_dec_N ty n : fits_nonneg ty n -> parse_num ty (dec_N n) = Some (false, n).
Proof.
  destruct ty as [sg bits]. unfold fits_nonneg, parse_num. cbn [fst snd]. intros Hfit.
  pose proof (dec_N_parse n) as Hp. pose proof (dec_N_digits n) as Hd. pose proof (dec_N_nonempty n) as Hne.
  destruct (dec_N n) as [|c t]; [contradiction|].
  inversion Hd as [|c0 t0 Hc Ht]; subst. apply is_digit_range in Hc.
  destruct (N.eqb_spec c 43) as [->|_]; [lia|].
  destruct (N.eqb_spec c 45) as [->|_]; [lia|]. cbn [andb].
  rewrite Hp. destruct sg.
  - destruct (N.ltb_spec n (2 ^ (bits - 1))); [reflexivity | lia].
  - destruct (N.ltb_spec n (2 ^ bits)); [reflexivity | lia].
Qed.

Lemma parse_col_dec_N ty n : fits_nonneg ty n -> parse_col ty (dec_N n) = Some n.
Proof. intros H. unfold parse_col. rewrite (parse_num_dec_N ty n H). reflexivity. Qed.

(* a type holds the integer z *)
Definition fits_int (ty : bool * N) (z : Z) : Prop :=
  if fst ty then (- Z.of_N (2 ^ (snd ty - 1)) <= z < Z.of_N (2 ^ (snd ty - 1)))%Z
  else (0 <= z < Z.of_N (2 ^ snd ty))%Z.

Lemma parse_num_dec_Z ty z : fits_int ty z -> parse_num ty (dec_Z z) <> None.
Proof.
  intros Hfit. destruct z as [|p|p].
  - cbn [dec_Z Z.to_N]. rewrite parse_num_dec_N; [discriminate|].
    destruct ty as [[|] bits]; unfold fits_int, fits_nonneg in *; cbn [fst snd] in *; lia.
  - cbn [dec_Z Z.to_N]. rewrite parse_num_dec_N; [discriminate|].
    destruct ty as [[|] bits]; unfold fits_int, fits_nonneg in *; cbn [fst snd] in *; lia.
  - destruct ty as [sg bits]. unfold fits_int in Hfit. cbn [fst snd] in Hfit.
    destruct sg; [|lia].
    cbn [dec_Z]. unfold parse_num.
    change (45 =? 43) with false. change (45 =? 45) with true. cbn [andb].
    pose proof (dec_N_nonempty (N.pos p)) as Hne.
    destruct (dec_N (N.pos p)) as [|c t] eqn:E; [contradiction|].
    rewrite <- E, dec_N_parse.
    destruct (N.leb_spec (N.pos p) (2 ^ (bits - 1))); [discriminate | lia].
Qed.

(* ASCII facts about the printed numbers *)
Lemma digits_ascii l : Forall (fun b => is_digit b = true) l -> Forall (fun b => b < 128) l.
Proof. apply Forall_impl. intros b H. apply is_digit_range in H. lia. Qed.

Lemma digits_no_ws l : Forall (fun b => is_digit b = true) l -> Forall (fun b => is_ascii_ws b = false) l.
Proof.
  apply Forall_impl. intros b H. apply is_digit_range in H. unfold is_ascii_ws.
  repeat match goal with |- context [?x =? ?y] => destruct (N.eqb_spec x y); [lia|] end. reflexivity.
Qed.

Lemma dec_Z_nonneg z : (0 <= z)%Z -> dec_Z z = dec_N (Z.to_N z).
Proof. destruct z; [reflexivity | reflexivity | lia]. Qed.

Lemma dec_Z_ascii z : Forall (fun b => b < 128) (dec_Z z).
Proof.
  destruct z; cbn [dec_Z]; try (apply digits_ascii, dec_N_digits).
  constructor; [lia | apply digits_ascii, dec_N_digits].
Qed.

Lemma dec_N_no_nl n : ~ In 10 (dec_N n).
Proof.
  intros H. pose proof (dec_N_digits n) as Hd. rewrite Forall_forall in Hd.
  apply Hd, is_digit_range in H. lia.
Qed.

Lemma dec_Z_no_nl z : ~ In 10 (dec_Z z).
Proof.
  destruct z; cbn [dec_Z]; try apply dec_N_no_nl.
  intros [H|H]; [discriminate H | exact (dec_N_no_nl _ H)].
Qed.

(* ------------------------------------------------------------------ *)
(* tokens and lines *)

Definition ws_free (t : list N) : Prop := Forall (fun b => is_ascii_ws b = false) t.

Lemma split_ws_token t : forall rest cur, ws_free t ->
  split_ws (t ++ rest) cur = split_ws rest (rev t ++ cur).
Proof.
  induction t as [|b t IH]; intros rest cur H; [reflexivity|].
  inversion H as [|b0 t0 Hb Ht]; subst.
  cbn [app split_ws rev]. rewrite Hb. rewrite IH by exact Ht. now rewrite <- app_assoc.
Qed.

Lemma split_ws_tokens toks : forall cur,
  cur <> [] -> Forall (fun t => t <> [] /\ ws_free t) toks ->
  split_ws (flat_map (fun t => SP :: t) toks) cur = rev cur :: toks.
Proof.
  induction toks as [|t ts IH]; intros cur Hc H.
  - cbn. destruct cur; [contradiction | reflexivity].
  - inversion H as [|t0 ts0 [Hne Hws] Hts]; subst.
    cbn [flat_map app]. cbn [split_ws]. change (is_ascii_ws SP) with true. cbn iota.
    destruct cur as [|c cur']; [contradiction|].
    rewrite split_ws_token by exact Hws. rewrite app_nil_r.
    rewrite IH; [now rewrite rev_involutive| |exact Hts].
    intros E. apply (f_equal (@rev N)) in E. rewrite rev_involutive in E. cbn in E. contradiction.
Qed.

Lemma split_ws_line t toks :
  t <> [] -> ws_free t -> Forall (fun t => t <> [] /\ ws_free t) toks ->
  split_ws (t ++ flat_map (fun t => SP :: t) toks) [] = t :: toks.
Proof.
  intros Hne Hws H. rewrite split_ws_token by exact Hws. rewrite app_nil_r.
  rewrite split_ws_tokens; [now rewrite rev_involutive| |exact H].
  intros E. apply (f_equal (@rev N)) in E. rewrite rev_involutive in E. cbn in E. contradiction.
Qed.

Lemma split_lines_line l : forall rest cur, ~ In 10 l ->
  split_lines (l ++ 10 :: rest) cur = strip_cr_rev (rev l ++ cur) :: split_lines rest [].
Proof.
  induction l as [|b l IH]; intros rest cur H.
  - cbn [app split_lines rev]. change (10 =? 10) with true. reflexivity.
  - cbn [app split_lines rev].
    destruct (N.eqb_spec b 10) as [->|_]; [exfalso; apply H; now left|].
    rewrite IH by (intros Hi; apply H; now right). now rewrite <- app_assoc.
Qed.

(* a line that does not end in \r comes back unchanged *)
Lemma strip_cr_rev_id l : last l 0 <> 13 -> strip_cr_rev (rev l) = l.
Proof.
  intros H. unfold strip_cr_rev.
  destruct (rev l) as [|b r] eqn:E.
  - apply (f_equal (@rev N)) in E. rewrite rev_involutive in E. now subst.
  - apply (f_equal (@rev N)) in E. rewrite rev_involutive in E. cbn [rev] in E. subst l.
    rewrite last_last in H. destruct (N.eqb_spec b 13) as [->|_]; [contradiction|].
    cbn [rev]. reflexivity.
Qed.

Lemma split_lines_lines ls : 
  Forall (fun l => ~ In 10 l /\ last l 0 <> 13) ls ->
  split_lines (flat_map (fun l => l ++ [10]) ls) [] = ls.
Proof.
  induction ls as [|l ls IH]; intros H; [reflexivity|].
  inversion H as [|l0 ls0 [Hnl Hcr] Hls]; subst.
  cbn [flat_map]. rewrite <- app_assoc. cbn [app].
  rewrite split_lines_line by exact Hnl. rewrite app_nil_r, strip_cr_rev_id by exact Hcr.
  now rewrite IH.
Qed.

(* ------------------------------------------------------------------ *)
(* text format: one record *)

Definition rec_tokens (r : lrec) : list (list N) :=
  map dec_N (lr_syls r) ++ [dec_Z (lr_user r); dec_Z (lr_time r); dec_Z (lr_max r); dec_Z (lr_orig r)].
Definition text_line_of (r : lrec) : list N :=
  lr_phrase r ++ flat_map (fun t => SP :: t) (rec_tokens r).

Lemma flat_map_map {A B C} (f : B -> list C) (g : A -> B) l :
  flat_map f (map g l) = flat_map (fun x => f (g x)) l.
Proof. induction l as [|a l IH]; [reflexivity|]. cbn [map flat_map]. now rewrite IH. Qed.

Lemma print_text_rec_eq r : print_text_rec r = text_line_of r ++ [NL].
Proof.
  unfold print_text_rec, text_line_of, rec_tokens.
  rewrite flat_map_app, flat_map_map. cbn [flat_map].
  repeat rewrite <- app_assoc. cbn [app]. repeat rewrite <- app_assoc. cbn [app]. reflexivity.
Qed.

Record lrec_wf_P (r : lrec) : Prop := {
  wf_bytes : bytes_ok (lr_phrase r) = true;
  wf_utf8 : utf8_ok (lr_phrase r) = true;
  wf_nows : ws_free (lr_phrase r);
  wf_nonempty : exists b t, lr_phrase r = b :: t /\ b <> 0;
  wf_nchars : utf8_nchars (lr_phrase r) = len_N (lr_syls r);
  wf_syls : Forall (fun s => 0 < s < 65536) (lr_syls r);
  wf_size : bin_syl_offset + 2 * len_N (lr_syls r) + 1 + len_N (lr_phrase r) <= BIN_FIELD_SIZE;
  wf_user : (-2147483648 <= lr_user r < 2147483648)%Z;
  wf_time : (-2147483648 <= lr_time r < 2147483648)%Z;
  wf_max : (-2147483648 <= lr_max r < 2147483648)%Z;
  wf_orig : (-2147483648 <= lr_orig r < 2147483648)%Z
}.

Lemma c_int_ok_spec z : c_int_ok z = true -> (-2147483648 <= z < 2147483648)%Z.
Proof. unfold c_int_ok. intros H. apply andb_true_iff in H as [H1 H2]. apply Z.leb_le in H1. apply Z.ltb_lt in H2. lia. Qed.

Lemma lrec_wf_spec r : lrec_wf r = true -> lrec_wf_P r.
Proof.
  unfold lrec_wf. intros H. repeat (apply andb_true_iff in H as [H ?]).
  constructor; try (apply c_int_ok_spec; assumption); try assumption.
  - unfold ws_free. apply Forall_forall. intros b Hb.
    match goal with Hf : forallb _ (lr_phrase r) = true |- _ => rewrite forallb_forall in Hf; specialize (Hf b Hb) end.
    now apply negb_true_iff.
  - destruct (lr_phrase r) as [|b t]; [discriminate|]. exists b, t. split; [reflexivity|].
    match goal with Hb : negb (b =? 0) = true |- _ => apply negb_true_iff, N.eqb_neq in Hb; exact Hb end.
  - now apply N.eqb_eq.
  - apply Forall_forall. intros s Hs.
    match goal with Hf : forallb _ (lr_syls r) = true |- _ => rewrite forallb_forall in Hf; specialize (Hf s Hs);
      apply andb_true_iff in Hf as [Hf1 Hf2]; apply N.ltb_lt in Hf1, Hf2 end. lia.
  - now apply N.leb_le.
Qed.

Record lrec_text_P (r : lrec) : Prop := {
  tx_live : lr_deleted r = false;
  tx_user : (0 <= lr_user r)%Z; tx_time : (0 <= lr_time r)%Z;
  tx_max : (0 <= lr_max r)%Z; tx_orig : (0 <= lr_orig r)%Z
}.
Lemma lrec_text_ok_spec r : lrec_text_ok r = true -> lrec_text_P r.
Proof.
  unfold lrec_text_ok. intros H. repeat (apply andb_true_iff in H as [H ?]).
  constructor; try (apply Z.leb_le; assumption). now apply negb_true_iff.
Qed.

(* the column types of the current source hold every non-negative C int / u16 *)
Lemma column_types_wide :
  (forall n, n < 65536 -> fits_nonneg text_syl_ty n) /\
  (forall n, n < 2147483648 -> fits_nonneg text_freq_ty n /\ fits_nonneg text_time_ty n /\
                               fits_nonneg text_maxfreq_ty n /\ fits_nonneg text_origfreq_ty n).
Proof.
  unfold fits_nonneg. cbn [text_syl_ty text_freq_ty text_time_ty text_maxfreq_ty text_origfreq_ty fst snd].
  split; [intros n H | intros n H; repeat split];
    match goal with |- _ < 2 ^ ?k => let v := eval vm_compute in (2 ^ k) in change (2 ^ k) with v end; lia.
Qed.

Lemma text_syls_print syls : forall rest,
  Forall (fun s => 0 < s < 65536) syls ->
  text_syls (length syls) (map dec_N syls ++ rest) = Some (syls, rest).
Proof.
  induction syls as [|s syls IH]; intros rest H; [reflexivity|].
  inversion H as [|s0 l0 Hs Hl]; subst.
  cbn [length map app text_syls].
  rewrite parse_col_dec_N by (apply column_types_wide; lia).
  destruct (N.eqb_spec s 0) as [->|_]; [lia|].
  now rewrite IH.
Qed.

Lemma rec_tokens_ok r : Forall (fun t => t <> [] /\ ws_free t) (rec_tokens r).
Proof.
  assert (HN : forall n, dec_N n <> [] /\ ws_free (dec_N n)).
  { intros n. split; [apply dec_N_nonempty | apply digits_no_ws, dec_N_digits]. }
  assert (HZ : forall z, dec_Z z <> [] /\ ws_free (dec_Z z)).
  { intros z. destruct z; cbn [dec_Z]; try apply HN.
    split; [discriminate|]. constructor; [reflexivity | apply HN]. }
  unfold rec_tokens. apply Forall_app. split.
  - apply Forall_forall. intros t Ht. apply in_map_iff in Ht as [n [<- _]]. apply HN.
  - repeat constructor; apply HZ.
Qed.

Lemma text_line_print r : lrec_wf_P r -> lrec_text_P r ->
  text_line (text_line_of r) = Some (entry_of r).
Proof.
  intros W T. unfold text_line.
  assert (Hascii : Forall (fun b => b < 128) (flat_map (fun t => SP :: t) (rec_tokens r))).
  { apply Forall_forall. intros b Hb. apply in_flat_map in Hb as [t [Ht Hb]].
    destruct Hb as [<-|Hb]; [cbv; reflexivity|].
    assert (Ha : Forall (fun b => b < 128) t).
    { unfold rec_tokens in Ht. apply in_app_or in Ht as [Ht|Ht].
      - apply in_map_iff in Ht as [n [<- _]]. apply digits_ascii, dec_N_digits.
      - cbn [In] in Ht. destruct Ht as [<-|[<-|[<-|[<-|[]]]]]; apply dec_Z_ascii. }
    rewrite Forall_forall in Ha. now apply Ha. }
  assert (Hu : utf8_ok (text_line_of r) = true).
  { unfold text_line_of. apply utf8_ok_app_both; [apply (wf_utf8 r W) | apply utf8_ok_ascii, Hascii]. }
  rewrite Hu. cbn [negb].
  destruct (wf_nonempty r W) as (b & t & Hph & Hb).
  unfold text_line_of. rewrite split_ws_line; [| rewrite Hph; discriminate | apply (wf_nows r W) | apply rec_tokens_ok].
  rewrite (wf_nchars r W). unfold len_N. rewrite Nat2N.id.
  unfold rec_tokens. rewrite text_syls_print by apply (wf_syls r W).
  pose proof (wf_user r W). pose proof (wf_time r W). pose proof (wf_max r W). pose proof (wf_orig r W).
  pose proof (tx_user r T). pose proof (tx_time r T). pose proof (tx_max r T). pose proof (tx_orig r T).
  rewrite !dec_Z_nonneg by assumption.
  destruct column_types_wide as [_ Hc].
  rewrite (parse_col_dec_N text_freq_ty), (parse_col_dec_N text_time_ty),
          (parse_col_dec_N text_maxfreq_ty), (parse_col_dec_N text_origfreq_ty)
    by (apply Hc; lia).
  reflexivity.
Qed.

Lemma text_line_of_no_nl r : lrec_wf_P r -> ~ In 10 (text_line_of r) /\ last (text_line_of r) 0 <> 13.
Proof.
  intros W. unfold text_line_of, rec_tokens. split.
  - intros H. apply in_app_or in H as [H|H].
    + pose proof (wf_nows r W) as Hw. unfold ws_free in Hw. rewrite Forall_forall in Hw.
      specialize (Hw 10 H). discriminate Hw.
    + apply in_flat_map in H as [t [Ht H]]. destruct H as [H|H]; [discriminate H|].
      apply in_app_or in Ht as [Ht|Ht].
      * apply in_map_iff in Ht as [n [<- _]]. exact (dec_N_no_nl _ H).
      * cbn [In] in Ht. destruct Ht as [<-|[<-|[<-|[<-|[]]]]]; exact (dec_Z_no_nl _ H).
  - rewrite flat_map_app. cbn [flat_map]. rewrite app_nil_r.
    rewrite !app_assoc.
    match goal with |- last (?a ++ SP :: dec_Z ?z) 0 <> 13 => set (pre := a) end.
    assert (Hl : forall z, exists d l, dec_Z z = l ++ [d] /\ d <> 13).
    { intros z. assert (HN : forall n, exists d l, dec_N n = l ++ [d] /\ d <> 13).
      { intros n. unfold dec_N. cbn [dec_rev rev]. eexists _, _. split; [reflexivity|].
        intros E. pose proof (N.le_add_r 48 (n mod 10)) as Hle. rewrite E in Hle. lia. }
      destruct z; cbn [dec_Z]; try apply HN.
      destruct (HN (N.pos p)) as (d & l & E & Hd). exists d, (45 :: l). rewrite E. split; [reflexivity | exact Hd]. }
    destruct (Hl (lr_orig r)) as (d & l & E & Hd). rewrite E.
    change (pre ++ SP :: l ++ [d]) with (pre ++ (SP :: l) ++ [d]). rewrite app_assoc, last_last. exact Hd.
Qed.

(* ------------------------------------------------------------------ *)
(* text format: the whole file, for any lifetime the type of the lifetime
   column holds *)

Lemma print_text_lines lt rs :
  print_text lt rs = flat_map (fun l => l ++ [10]) (dec_Z lt :: map text_line_of rs).
Proof.
  unfold print_text. cbn [flat_map]. rewrite <- app_assoc. cbn [app]. f_equal. f_equal.
  rewrite flat_map_map. apply flat_map_ext. intros r. apply print_text_rec_eq.
Qed.

Lemma dec_Z_last z : last (dec_Z z) 0 <> 13.
Proof.
  assert (HN : forall n pre, last (pre ++ dec_N n) 0 <> 13).
  { intros n pre. unfold dec_N. cbn [dec_rev rev]. rewrite app_assoc, last_last.
    intros E. pose proof (N.le_add_r 48 (n mod 10)) as Hle. rewrite E in Hle. lia. }
  destruct z; cbn [dec_Z]; try apply (HN _ []). apply (HN _ [45]).
Qed.

Lemma text_records_print rs :
  Forall lrec_wf_P rs -> Forall lrec_text_P rs ->
  text_records (map text_line_of rs) = Some (map entry_of rs).
Proof.
  induction rs as [|r rs IH]; intros W T; [reflexivity|].
  inversion W; inversion T; subst. cbn [map text_records].
  rewrite text_line_print by assumption. rewrite IH by assumption. reflexivity.
Qed.

Theorem load_text_with_print lty lt rs :
  fits_int lty lt ->
  forallb lrec_wf rs = true -> forallb lrec_text_ok rs = true ->
  load_text_with lty (print_text lt rs) = Ok (map entry_of rs).
Proof.
  intros Hlt W T.
  assert (WP : Forall lrec_wf_P rs).
  { apply Forall_forall. intros r Hr. rewrite forallb_forall in W. apply lrec_wf_spec, W, Hr. }
  assert (TP : Forall lrec_text_P rs).
  { apply Forall_forall. intros r Hr. rewrite forallb_forall in T. apply lrec_text_ok_spec, T, Hr. }
  unfold load_text_with. rewrite print_text_lines, split_lines_lines.
  - rewrite (utf8_ok_ascii _ (dec_Z_ascii lt)). cbn [negb].
    destruct (parse_num lty (dec_Z lt)) eqn:E; [|exfalso; exact (parse_num_dec_Z lty lt Hlt E)].
    now rewrite text_records_print.
  - constructor; [split; [apply dec_Z_no_nl | apply dec_Z_last]|].
    apply Forall_forall. intros l Hl. apply in_map_iff in Hl as [r [<- Hr]].
    rewrite Forall_forall in WP. apply text_line_of_no_nl, WP, Hr.
Qed.

(* the lifetime column of the current source holds every 64-bit integer, in
   particular every value of the C int the legacy engine kept *)
Lemma lifetime_ty_wide lt :
  (-9223372036854775808 <= lt < 9223372036854775808)%Z -> fits_int text_lifetime_ty lt.
Proof.
  unfold fits_int. cbn [text_lifetime_ty fst snd].
  match goal with |- context [2 ^ ?k] => let v := eval vm_compute in (2 ^ k) in change (2 ^ k) with v end.
  cbn [Z.of_N]. lia.
Qed.

Theorem load_text_print lt rs :
  (-9223372036854775808 <= lt < 9223372036854775808)%Z ->
  forallb lrec_wf rs = true -> forallb lrec_text_ok rs = true ->
  load_text (print_text lt rs) = Ok (map entry_of rs).
Proof. intros H. apply load_text_with_print, lifetime_ty_wide, H. Qed.

(* ------------------------------------------------------------------ *)
(* binary format: one record *)

Lemma nth_N_app_r {A} (a b : list A) j : nth_N (a ++ b) (len_N a + j) = nth_N b j.
Proof.
  unfold nth_N, len_N. rewrite N2Nat.inj_add, Nat2N.id.
  rewrite nth_error_app2 by lia. f_equal. lia.
Qed.

Lemma byte_or0_app_r a b j : byte_or0 (a ++ b) (len_N a + j) = byte_or0 b j.
Proof. unfold byte_or0. now rewrite nth_N_app_r. Qed.

Lemma byte_or0_app_0 a b : byte_or0 (a ++ b) (len_N a) = byte_or0 b 0.
Proof. rewrite <- (N.add_0_r (len_N a)) at 1. apply byte_or0_app_r. Qed.

Lemma rd_u32le_at pre b0 b1 b2 b3 rest :
  rd_u32le (pre ++ b0 :: b1 :: b2 :: b3 :: rest) (len_N pre) = b0 + 256 * b1 + 65536 * b2 + 16777216 * b3.
Proof. unfold rd_u32le. rewrite byte_or0_app_0, !byte_or0_app_r. reflexivity. Qed.

Lemma rd_u16le_at pre b0 b1 rest :
  rd_u16le (pre ++ b0 :: b1 :: rest) (len_N pre) = b0 + 256 * b1.
Proof. unfold rd_u16le. rewrite byte_or0_app_0, !byte_or0_app_r. reflexivity. Qed.

Lemma le16_value w : w < 65536 -> w mod 256 + 256 * ((w / 256) mod 256) = w.
Proof.
  intros H. rewrite (N.mod_small (w / 256)) by (apply N.div_lt_upper_bound; lia).
  pose proof (N.div_mod w 256). lia.
Qed.

Lemma le32_value w : w < 4294967296 ->
  w mod 256 + 256 * ((w / 256) mod 256) + 65536 * ((w / 65536) mod 256) + 16777216 * ((w / 16777216) mod 256) = w.
Proof.
  intros H.
  rewrite (N.mod_small (w / 16777216)) by (apply N.div_lt_upper_bound; lia).
  pose proof (N.div_mod w 256) as H1.
  pose proof (N.div_mod (w / 256) 256) as H2.
  pose proof (N.div_mod (w / 65536) 256) as H3.
  replace (w / 256 / 256) with (w / 65536) in H2 by (rewrite N.div_div by lia; reflexivity).
  replace (w / 65536 / 256) with (w / 16777216) in H3 by (rewrite N.div_div by lia; reflexivity).
  lia.
Qed.

Lemma i32_word_range z : (-2147483648 <= z < 2147483648)%Z -> i32_word z < 4294967296.
Proof. intros H. unfold i32_word. destruct (Z.ltb_spec z 0); lia. Qed.

Lemma i32_word_negative z : (-2147483648 <= z < 2147483648)%Z -> i32_negative (i32_word z) = (z <? 0)%Z.
Proof.
  intros H. unfold i32_negative, i32_word.
  destruct (Z.ltb_spec z 0); [apply N.leb_le | apply N.leb_gt]; lia.
Qed.

Lemma i32_word_nonneg z : (0 <= z)%Z -> i32_word z = Z.to_N z.
Proof. intros H. unfold i32_word. destruct (Z.ltb_spec z 0); [lia | reflexivity]. Qed.

Lemma bin_syls_at ss : forall pre post,
  Forall (fun s => 0 < s < 65536) ss ->
  bin_syls (length ss) (pre ++ flat_map le16 ss ++ post) (len_N pre) = Some ss.
Proof.
  induction ss as [|s ss IH]; intros pre post H; [reflexivity|].
  inversion H as [|s0 l0 Hs Hl]; subst.
  assert (E : pre ++ flat_map le16 (s :: ss) ++ post =
              pre ++ s mod 256 :: (s / 256) mod 256 :: (flat_map le16 ss ++ post)).
  { cbn [flat_map]. unfold le16 at 1. rewrite <- app_assoc. reflexivity. }
  rewrite E. cbn [length bin_syls]. cbv zeta.
  rewrite !rd_u16le_at, le16_value by lia.
  destruct (N.eqb_spec s 0) as [->|_]; [lia|].
  replace (len_N pre + 2) with (len_N (pre ++ [s mod 256; (s / 256) mod 256]))
    by (unfold len_N; rewrite app_length; cbn [length]; lia).
  replace (pre ++ s mod 256 :: (s / 256) mod 256 :: flat_map le16 ss ++ post)
    with ((pre ++ [s mod 256; (s / 256) mod 256]) ++ flat_map le16 ss ++ post)
    by (rewrite <- app_assoc; reflexivity).
  now rewrite IH.
Qed.

Lemma len_flat_le16 ss : len_N (flat_map le16 ss) = 2 * len_N ss.
Proof.
  unfold len_N. induction ss as [|s ss IH]; [reflexivity|].
  cbn [flat_map]. rewrite app_length. cbn [length le16]. lia.
Qed.

Definition bin_phrase_field (r : lrec) : list N :=
  if lr_deleted r then match lr_phrase r with [] => [] | _ :: t => 0 :: t end else lr_phrase r.

Definition bin_head (r : lrec) : list N :=
  le32 (i32_word (lr_user r)) ++ le32 (i32_word (lr_time r)) ++ le32 (i32_word (lr_max r)) ++ le32 (i32_word (lr_orig r)).

Lemma print_bin_rec_eq r :
  print_bin_rec r =
  ((bin_head r ++ [len_N (lr_syls r)]) ++ flat_map le16 (lr_syls r)) ++ [len_N (lr_phrase r)] ++
  bin_phrase_field r ++
  zeros (BIN_FIELD_SIZE - len_N (bin_head r ++ [len_N (lr_syls r)] ++ flat_map le16 (lr_syls r) ++ [len_N (lr_phrase r)] ++ bin_phrase_field r)).
Proof.
  unfold print_bin_rec, bin_head, bin_phrase_field. repeat rewrite <- app_assoc. reflexivity.
Qed.

Lemma len_bin_phrase_field r : len_N (bin_phrase_field r) = len_N (lr_phrase r).
Proof. unfold bin_phrase_field. destruct (lr_deleted r); [|reflexivity]. destruct (lr_phrase r); reflexivity. Qed.

Lemma len_bin_head r : len_N (bin_head r) = 16.
Proof. reflexivity. Qed.

Lemma len_N_app {A} (a b : list A) : len_N (a ++ b) = len_N a + len_N b.
Proof. unfold len_N. rewrite app_length. lia. Qed.

Lemma len_N_single {A} (x : A) : len_N [x] = 1.
Proof. reflexivity. Qed.

Lemma len_print_bin_rec r : lrec_wf_P r -> len_N (print_bin_rec r) = BIN_FIELD_SIZE.
Proof.
  intros W. pose proof (wf_size r W) as Hs. rewrite print_bin_rec_eq.
  match goal with |- context [zeros (BIN_FIELD_SIZE - ?k)] => set (bl := k) end.
  assert (Hb : bl = bin_syl_offset + 2 * len_N (lr_syls r) + 1 + len_N (lr_phrase r)).
  { unfold bl. rewrite !len_N_app, len_flat_le16, len_bin_phrase_field, len_bin_head, !len_N_single.
    change bin_syl_offset with 17. lia. }
  rewrite !len_N_app, len_flat_le16, len_bin_phrase_field, len_bin_head, !len_N_single.
  unfold zeros, len_N at 3. rewrite repeat_length, N2Nat.id.
  change bin_syl_offset with 17 in *. lia.
Qed.

Lemma firstn_app_len {A} (a b : list A) : firstn (length a) (a ++ b) = a.
Proof. rewrite firstn_app, Nat.sub_diag, firstn_all. cbn [firstn]. apply app_nil_r. Qed.

Lemma skipn_app_len {A} (a b : list A) : skipn (length a) (a ++ b) = b.
Proof. rewrite skipn_app, Nat.sub_diag, skipn_all. reflexivity. Qed.

Lemma bin_record_print checked r : lrec_wf_P r ->
  bin_record checked (print_bin_rec r) = if lr_dead r then RSkip else RPush (entry_of r).
Proof.
  intros W.
  pose proof (wf_user r W) as Hu. pose proof (wf_time r W) as Ht.
  pose proof (wf_max r W) as Hm. pose proof (wf_orig r W) as Ho.
  pose proof (wf_size r W) as Hsz. destruct (wf_nonempty r W) as (b0 & pt & Hph & Hb0).
  assert (Hplen : 1 <= len_N (lr_phrase r)) by (rewrite Hph; unfold len_N; cbn [length]; lia).
  change bin_syl_offset with 17 in *. change BIN_FIELD_SIZE with 125 in *.
  unfold bin_record. change bin_syl_offset with 17. change BIN_FIELD_SIZE with 125.
  (* the four integers *)
  assert (Hw : forall buf, 
    rd_u32le (bin_head r ++ buf) 0 = i32_word (lr_user r) /\ rd_u32le (bin_head r ++ buf) 4 = i32_word (lr_time r) /\
    rd_u32le (bin_head r ++ buf) 8 = i32_word (lr_max r) /\ rd_u32le (bin_head r ++ buf) 12 = i32_word (lr_orig r)).
  { intros buf. unfold bin_head. repeat rewrite <- app_assoc. unfold le32. cbn [app].
    repeat split.
    - match goal with |- rd_u32le (?a :: ?b :: ?c :: ?d :: ?rest) 0 = _ =>
        change (rd_u32le ([] ++ a :: b :: c :: d :: rest) (len_N (@nil N)) = i32_word (lr_user r)) end.
      rewrite rd_u32le_at. apply le32_value, i32_word_range, Hu.
    - match goal with |- rd_u32le (?a :: ?b :: ?c :: ?d :: ?rest) 4 = _ =>
        change (rd_u32le ([a; b; c; d] ++ rest) (len_N [a; b; c; d]) = i32_word (lr_time r)) end.
      rewrite rd_u32le_at. apply le32_value, i32_word_range, Ht.
    - match goal with |- rd_u32le (?a :: ?b :: ?c :: ?d :: ?e :: ?f :: ?g :: ?h :: ?rest) 8 = _ =>
        change (rd_u32le ([a; b; c; d; e; f; g; h] ++ rest) (len_N [a; b; c; d; e; f; g; h]) = i32_word (lr_max r)) end.
      rewrite rd_u32le_at. apply le32_value, i32_word_range, Hm.
    - match goal with |- rd_u32le (?a :: ?b :: ?c :: ?d :: ?e :: ?f :: ?g :: ?h :: ?i :: ?j :: ?k :: ?l :: ?rest) 12 = _ =>
        change (rd_u32le ([a; b; c; d; e; f; g; h; i; j; k; l] ++ rest) (len_N [a; b; c; d; e; f; g; h; i; j; k; l]) = i32_word (lr_orig r)) end.
      rewrite rd_u32le_at. apply le32_value, i32_word_range, Ho. }
  rewrite print_bin_rec_eq.
  match goal with |- context [zeros ?k] => set (Z := zeros k) end.
  set (n := len_N (lr_syls r)). set (pl := len_N (lr_phrase r)).
  set (buf := ((bin_head r ++ [n]) ++ flat_map le16 (lr_syls r)) ++ [pl] ++ bin_phrase_field r ++ Z).
  assert (Hbuf1 : buf = bin_head r ++ ([n] ++ flat_map le16 (lr_syls r) ++ [pl] ++ bin_phrase_field r ++ Z)).
  { unfold buf. repeat rewrite <- app_assoc. reflexivity. }
  destruct (Hw ([n] ++ flat_map le16 (lr_syls r) ++ [pl] ++ bin_phrase_field r ++ Z)) as (W0 & W4 & W8 & W12).
  rewrite <- Hbuf1 in W0, W4, W8, W12. rewrite W0, W4, W8, W12.
  rewrite !i32_word_negative by assumption.
  unfold lr_dead.
  destruct (Z.ltb_spec (lr_user r) 0) as [Hun|Hun]; [cbn [orb]; now rewrite !orb_true_r|].
  destruct (Z.ltb_spec (lr_time r) 0) as [Htn|Htn]; [cbn [orb]; now rewrite !orb_true_r|].
  destruct (Z.ltb_spec (lr_max r) 0) as [Hmn|Hmn]; [cbn [orb]; now rewrite !orb_true_r|].
  destruct (Z.ltb_spec (lr_orig r) 0) as [Hon|Hon]; [cbn [orb]; now rewrite !orb_true_r|].
  cbn [orb]. rewrite !orb_false_r.
  (* the length byte *)
  assert (Hlen : byte_or0 buf bin_len_offset = n).
  { rewrite Hbuf1. change bin_len_offset with (len_N (bin_head r)). rewrite byte_or0_app_0. reflexivity. }
  rewrite Hlen.
  assert (Hpre2 : len_N ((bin_head r ++ [n]) ++ flat_map le16 (lr_syls r)) = 17 + 2 * n).
  { rewrite !len_N_app, len_flat_le16, len_bin_head. unfold len_N at 1. cbn [length]. fold n. lia. }
  (* guards of the fixed code *)
  destruct (N.leb_spec 125 (17 + 2 * n + 1)) as [Hbad|_]; [fold pl in Hsz; lia|]. rewrite andb_false_r.
  (* first phrase byte *)
  assert (Hfirst : byte_at buf (17 + 2 * n + 1) = Some (if lr_deleted r then 0 else b0)).
  { unfold byte_at, buf. rewrite <- Hpre2. cbn [app]. rewrite nth_N_app_r.
    unfold bin_phrase_field. rewrite Hph. destruct (lr_deleted r); reflexivity. }
  rewrite Hfirst.
  destruct (lr_deleted r) eqn:Hdel; [reflexivity|].
  destruct (N.eqb_spec b0 0) as [->|_]; [contradiction|].
  (* syllables *)
  assert (Hsyls : bin_syls (N.to_nat n) buf 17 = Some (lr_syls r)).
  { unfold n, len_N. rewrite Nat2N.id. unfold buf. rewrite <- (app_assoc (bin_head r ++ [len_N (lr_syls r)])).
    change 17 with (len_N (bin_head r ++ [len_N (lr_syls r)])). apply bin_syls_at, (wf_syls r W). }
  rewrite Hsyls.
  assert (Hbytes : byte_or0 buf (17 + 2 * n) = pl).
  { unfold buf. rewrite <- Hpre2. cbn [app]. rewrite byte_or0_app_0. reflexivity. }
  rewrite Hbytes.
  destruct (N.ltb_spec 125 (17 + 2 * n + pl + 1)) as [Hbad|_]; [lia|]. rewrite andb_false_r.
  (* the phrase *)
  assert (Hslice : slice buf (17 + 2 * n + 1) (17 + 2 * n + pl + 1) = lr_phrase r).
  { unfold slice.
    replace (17 + 2 * n + pl + 1 - (17 + 2 * n + 1)) with pl by lia.
    assert (Hb2 : buf = (((bin_head r ++ [n]) ++ flat_map le16 (lr_syls r)) ++ [pl]) ++ lr_phrase r ++ Z).
    { unfold buf, bin_phrase_field. rewrite Hdel. repeat rewrite <- app_assoc. reflexivity. }
    assert (Hl2 : N.to_nat (17 + 2 * n + 1) = length (((bin_head r ++ [n]) ++ flat_map le16 (lr_syls r)) ++ [pl])).
    { rewrite app_length. cbn [length]. unfold len_N in Hpre2. lia. }
    rewrite Hb2, Hl2, skipn_app_len. unfold pl, len_N. rewrite Nat2N.id. apply firstn_app_len. }
  rewrite Hslice, (wf_utf8 r W).
  unfold entry_of. rewrite !i32_word_nonneg by assumption. reflexivity.
Qed.

(* ------------------------------------------------------------------ *)
(* binary format: the whole file *)

Definition live_entries (rs : list lrec) : list uentry :=
  map entry_of (filter (fun r => negb (lr_dead r)) rs).

Lemma bin_loop_print checked rs : forall fuel acc,
  Forall lrec_wf_P rs -> (length rs < fuel)%nat ->
  bin_loop checked fuel (flat_map print_bin_rec rs) acc = Ok (rev acc ++ live_entries rs).
Proof.
  induction rs as [|r rs IH]; intros fuel acc W Hf.
  - destruct fuel as [|k]; [inversion Hf|]. cbn [flat_map bin_loop]. unfold live_entries. cbn [filter map].
    now rewrite app_nil_r.
  - destruct fuel as [|k]; [inversion Hf|]. inversion W as [|r0 rs0 Wr Wrs]; subst.
    cbn [flat_map bin_loop].
    pose proof (len_print_bin_rec r Wr) as Hl.
    destruct (N.ltb_spec (len_N (print_bin_rec r ++ flat_map print_bin_rec rs)) BIN_FIELD_SIZE) as [Hlt|_].
    { rewrite len_N_app in Hlt. lia. }
    assert (Hn : N.to_nat BIN_FIELD_SIZE = length (print_bin_rec r)).
    { unfold len_N in Hl. lia. }
    rewrite Hn, firstn_app_len, skipn_app_len, bin_record_print by exact Wr.
    unfold live_entries. cbn [filter].
    cbn [length] in Hf.
    destruct (lr_dead r); cbn [negb].
    + apply IH; [exact Wrs | lia].
    + rewrite IH; [|exact Wrs | lia]. cbn [rev map]. now rewrite <- app_assoc.
Qed.

Lemma len_flat_print_bin rs : Forall lrec_wf_P rs ->
  len_N (flat_map print_bin_rec rs) = BIN_FIELD_SIZE * len_N rs.
Proof.
  induction rs as [|r rs IH]; intros W; [reflexivity|]. inversion W; subst.
  cbn [flat_map]. rewrite len_N_app, len_print_bin_rec, IH by assumption.
  unfold len_N. cbn [length]. lia.
Qed.

(* load_bin (print_bin lifetime rs) = the live records in order; deleted records
   and records with a negative integer are skipped.  Holds for every lifetime
   and for the pinned as well as the bounds-checked loader. *)
Theorem load_bin_with_print checked lt rs :
  forallb lrec_wf rs = true ->
  load_bin_with checked (print_bin lt rs) = Ok (live_entries rs).
Proof.
  intros W.
  assert (WP : Forall lrec_wf_P rs).
  { apply Forall_forall. intros r Hr. rewrite forallb_forall in W. apply lrec_wf_spec, W, Hr. }
  unfold load_bin_with, print_bin.
  set (lw := firstn (N.to_nat bin_lifetime_bytes) (le32 (i32_word lt) ++ zeros 4)).
  assert (Hlw : len_N lw = bin_lifetime_bytes) by reflexivity.
  set (recs := flat_map print_bin_rec rs).
  assert (Hlen : len_N (BIN_HASH_SIG ++ lw ++ recs) = bin_header_len + BIN_FIELD_SIZE * len_N rs).
  { rewrite !len_N_app, Hlw. unfold recs. rewrite len_flat_print_bin by exact WP.
    unfold bin_header_len, sig_len. lia. }
  destruct (N.ltb_spec (len_N (BIN_HASH_SIG ++ lw ++ recs)) sig_len) as [Hlt|_].
  { rewrite Hlen in Hlt. change bin_header_len with 8 in Hlt. change sig_len with 4 in Hlt. lia. }
  replace (N.to_nat sig_len) with (length BIN_HASH_SIG) by reflexivity.
  rewrite firstn_app_len.
  replace (list_eqb N.eqb BIN_HASH_SIG BIN_HASH_SIG) with true by reflexivity. cbn [negb].
  destruct (N.ltb_spec (len_N (BIN_HASH_SIG ++ lw ++ recs)) bin_header_len) as [Hlt|_].
  { rewrite Hlen in Hlt. lia. }
  replace (N.to_nat bin_header_len) with (length (BIN_HASH_SIG ++ lw)) by reflexivity.
  rewrite app_assoc, skipn_app_len.
  subst recs. rewrite bin_loop_print; [reflexivity | exact WP |].
  unfold bin_fuel. rewrite <- app_assoc, Hlen.
  change bin_header_len with 8. change BIN_FIELD_SIZE with 125.
  assert (E : (8 + 125 * len_N rs) / 125 = len_N rs).
  { rewrite N.mul_comm, N.div_add by lia. reflexivity. }
  rewrite E. unfold len_N. rewrite Nat2N.id. lia.
Qed.

Theorem load_bin_print lt rs :
  forallb lrec_wf rs = true -> load_bin (print_bin lt rs) = Ok (live_entries rs).
Proof. apply load_bin_with_print. Qed.

(* the loader as the start-up code uses it: binary first, text when that fails *)
Theorem load_uhash_print_bin lt rs :
  forallb lrec_wf rs = true -> load_uhash (print_bin lt rs) = Ok (live_entries rs).
Proof. intros W. unfold load_uhash, load_uhash_with. now rewrite load_bin_with_print. Qed.

(* a text file does not start with the binary signature *)
Lemma load_bin_of_text checked lt rs : load_bin_with checked (print_text lt rs) = Err E_INVALID_DATA.
Proof.
  unfold load_bin_with.
  destruct (len_N (print_text lt rs) <? sig_len); [reflexivity|].
  assert (H : list_eqb N.eqb (firstn (N.to_nat sig_len) (print_text lt rs)) BIN_HASH_SIG = false).
  { unfold print_text.
    assert (Hd : exists d t, dec_Z lt = d :: t /\ d <> 67).
    { destruct lt; cbn [dec_Z].
      - pose proof (dec_N_digits (Z.to_N 0)) as Hd. destruct (dec_N (Z.to_N 0)) as [|d t] eqn:E; [now apply dec_N_nonempty in E|].
        exists d, t. split; [reflexivity|]. inversion Hd; subst. match goal with Hx : is_digit d = true |- _ => apply is_digit_range in Hx; lia end.
      - pose proof (dec_N_digits (Z.to_N (Z.pos p))) as Hd. destruct (dec_N (Z.to_N (Z.pos p))) as [|d t] eqn:E; [now apply dec_N_nonempty in E|].
        exists d, t. split; [reflexivity|]. inversion Hd; subst. match goal with Hx : is_digit d = true |- _ => apply is_digit_range in Hx; lia end.
      - exists 45, (dec_N (N.pos p)). split; [reflexivity | lia]. }
    destruct Hd as (d & t & E & Hd). rewrite E.
    change (N.to_nat sig_len) with 4%nat. change BIN_HASH_SIG with [67; 66; 105; 72].
    cbn [app firstn list_eqb]. destruct (N.eqb_spec d 67); [contradiction | reflexivity]. }
  rewrite H. reflexivity.
Qed.

Theorem load_uhash_print_text lt rs :
  (-9223372036854775808 <= lt < 9223372036854775808)%Z ->
  forallb lrec_wf rs = true -> forallb lrec_text_ok rs = true ->
  load_uhash (print_text lt rs) = Ok (map entry_of rs).
Proof.
  intros Hlt W T. unfold load_uhash, load_uhash_with. rewrite load_bin_of_text.
  apply load_text_with_print; [apply lifetime_ty_wide, Hlt | exact W | exact T].
Qed.
