(* Proofs about Model/Uhash.v.
   Part 1 (C12): totality of the legacy loaders over ALL byte strings - they
   return Ok or Err, never Panic, never OutOfFuel within the stated fuel - and
   the refutation of that statement for the binary loader of the pinned tree.
   Part 2 (C19): printer/loader round trips for both legacy formats and the
   refutation for the text loader of the pinned tree. *)
From Coq Require Import NArith ZArith List Bool Lia.
From LC Require Import Base.Lib Gen.Uhash_gen Model.Utf8Dfa Model.Uhash Proofs.Utf8DfaProofs.
Import ListNotations.
Open Scope N_scope.

Ltac Zify.zify_post_hook ::= Z.div_mod_to_equations.

(* "reports an error or succeeds": the only outcomes allowed by C12 *)
Definition total_outcome {A} (o : outcome A) : Prop :=
  match o with Ok _ | Err _ => True | Panic _ | OutOfFuel => False end.

(* ================================================================== *)
(* Part 1: totality *)

Lemma load_text_with_total lty bs : total_outcome (load_text_with lty bs).
Proof.
  unfold load_text_with.
  destruct (split_lines bs []) as [|first rest]; [exact I|].
  destruct (negb (utf8_ok first)); [exact I|].
  destruct (parse_num lty first); [|exact I].
  destruct (text_records rest); exact I.
Qed.

(* the text loader is total for every byte string (there is no loop besides the
   structural recursion over the input, hence no fuel) *)
Lemma load_text_total : forall bs, total_outcome (load_text bs).
Proof. intros bs. apply load_text_with_total. Qed.

Lemma len_N_firstn_field (bs : list N) :
  BIN_FIELD_SIZE <= len_N bs -> length (firstn (N.to_nat BIN_FIELD_SIZE) bs) = N.to_nat BIN_FIELD_SIZE.
Proof. unfold len_N. intros H. apply firstn_length_le. lia. Qed.

Lemma nth_N_some {A} (l : list A) i : i < len_N l -> exists x, nth_N l i = Some x.
Proof.
  unfold nth_N, len_N. intros H.
  destruct (nth_error l (N.to_nat i)) eqn:E; [eauto|].
  apply nth_error_None in E. lia.
Qed.

(* a record of the right size never panics in the bounds-checked loader *)
Lemma bin_record_checked_no_panic buf :
  len_N buf = BIN_FIELD_SIZE -> forall s, bin_record true buf <> RPanic s.
Proof.
  intros Hlen s. unfold bin_record.
  destruct (_ || _ || _ || _); [discriminate|].
  cbn [andb].
  destruct (N.leb_spec BIN_FIELD_SIZE (bin_syl_offset + 2 * byte_or0 buf bin_len_offset + 1)) as [Hge|Hlt]; [discriminate|].
  unfold byte_at.
  destruct (nth_N_some buf (bin_syl_offset + 2 * byte_or0 buf bin_len_offset + 1)) as [x Hx].
  { rewrite Hlen. exact Hlt. }
  rewrite Hx. destruct x; [discriminate|].
  destruct (bin_syls _ _ _); [|discriminate].
  destruct (BIN_FIELD_SIZE <? _); [discriminate|].
  destruct (utf8_ok _); discriminate.
Qed.

Lemma bin_loop_checked_total fuel : forall bs acc,
  (N.to_nat (len_N bs / BIN_FIELD_SIZE) < fuel)%nat ->
  total_outcome (bin_loop true fuel bs acc).
Proof.
  induction fuel as [|k IH]; intros bs acc Hf; [exfalso; exact (Nat.nlt_0_r _ Hf)|].
  cbn [bin_loop].
  destruct (N.ltb_spec (len_N bs) BIN_FIELD_SIZE) as [Hlt|Hge]; [exact I|].
  set (buf := firstn (N.to_nat BIN_FIELD_SIZE) bs).
  set (rest := skipn (N.to_nat BIN_FIELD_SIZE) bs).
  assert (Hbuf : len_N buf = BIN_FIELD_SIZE).
  { unfold len_N, buf. rewrite len_N_firstn_field by exact Hge. apply N2Nat.id. }
  assert (Hrest : (N.to_nat (len_N rest / BIN_FIELD_SIZE) < k)%nat).
  { unfold rest, len_N in *. rewrite skipn_length.
    change BIN_FIELD_SIZE with 125 in *. lia. }
  pose proof (bin_record_checked_no_panic buf Hbuf) as Hnp.
  destruct (bin_record true buf) as [|e| |s].
  - apply IH, Hrest.
  - apply IH, Hrest.
  - exact I.
  - exfalso. now apply (Hnp s).
Qed.

(* C12 (legacy binary loader): for EVERY byte string the current loader returns
   Ok or Err - no panic, and the loop ends within bin_fuel bs =
   (number of complete records) + 1 iterations *)
Lemma load_bin_total : forall bs, total_outcome (load_bin bs).
Proof.
  intros bs. unfold load_bin, load_bin_with.
  destruct (len_N bs <? sig_len); [exact I|].
  destruct (negb _); [exact I|].
  destruct (N.ltb_spec (len_N bs) bin_header_len) as [|Hge]; [exact I|].
  apply bin_loop_checked_total. unfold bin_fuel, len_N in *. rewrite skipn_length.
  change BIN_FIELD_SIZE with 125 in *. lia.
Qed.

(* loader.rs: binary first, text on error *)
Lemma load_uhash_total : forall bs, total_outcome (load_uhash bs).
Proof.
  intros bs. unfold load_uhash, load_uhash_with.
  pose proof (load_bin_total bs) as H. unfold load_bin in H.
  destruct (load_bin_with true bs); try exact H.
  apply load_text_with_total.
Qed.

(* The pinned tree: a record whose length byte is 200 indexes buf[418] of a
   125-byte buffer.  "CBiH", 4 lifetime bytes, one record of zeros except byte 16. *)
Definition bin_panic_witness : list N :=
  BIN_HASH_SIG ++ zeros 4 ++ (zeros 16 ++ [200] ++ zeros 108).

Lemma load_bin_pinned_refuted :
  exists bs, load_bin_pinned bs = Panic SITE_BIN_DELETED_INDEX.
Proof. exists bin_panic_witness. vm_compute. reflexivity. Qed.

(* a valid 1-syllable record whose phrase-length byte is overwritten with 0xff:
   the slice buf[20..275] is out of range *)
Definition bin_panic_witness2 : list N :=
  BIN_HASH_SIG ++ zeros 4 ++ (zeros 16 ++ [1; 1; 0; 255; 80] ++ zeros 104).

Lemma load_bin_pinned_refuted_slice :
  exists bs, load_bin_pinned bs = Panic SITE_BIN_PHRASE_SLICE.
Proof. exists bin_panic_witness2. vm_compute. reflexivity. Qed.

(* on both witnesses the current loader skips the record *)
Lemma load_bin_witnesses_now_ok :
  load_bin bin_panic_witness = Ok [] /\ load_bin bin_panic_witness2 = Ok [].
Proof. split; vm_compute; reflexivity. Qed.

(* ================================================================== *)
(* Part 2: printer / loader round trips *)

(* the record of tests/data/golden-uhash-*.dat *)
Definition golden_rec : lrec :=
  {| lr_phrase := [231; 173; 150; 232; 169; 166]; lr_syls := [10268; 8708];
     lr_user := 9999%Z; lr_time := 6%Z; lr_max := 9318%Z; lr_orig := 318%Z; lr_deleted := false |}.

(* The pinned tree parses the lifetime line as c_ushort: a legacy text file whose
   lifetime counter passed 65535 is rejected as a whole and nothing is migrated. *)
Lemma load_text_pinned_refuted :
  exists lt rs, c_int_ok lt = true /\ forallb lrec_wf rs = true /\ forallb lrec_text_ok rs = true /\
                load_text_pinned (print_text lt rs) = Err E_INVALID_DATA.
Proof. exists 70000%Z, [golden_rec]. vm_compute. repeat split; reflexivity. Qed.
