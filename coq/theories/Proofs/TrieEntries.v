(* C11, entry level: what a lookup on the tree TrieBuilder builds from a LIST OF ENTRIES returns, in terms of
   that list.  (TrieRoundtrip: the file written for a tree answers every lookup with the tree-level walk
   `tlookup`; this file: the tree-level walk on `build es` is
     - exact lookup of q: the phrases inserted under exactly q (a re-inserted string replaces the earlier one
       in place), in leaf order; nothing for a sequence that was not inserted;
     - fuzzy lookup of q: the same for every inserted key of q's length whose every syllable starts with q's,
       the keys in strictly ascending lexicographic order of their codes, each once.)  Stdlib only. *)
From Coq Require Import NArith List Bool Lia ZArith Permutation Sorted.
From LC Require Import Base.Lib Model.Utf8 Model.Der Model.Syllable Model.TrieCodec Gen.Trie_gen
     Proofs.TrieLayout Proofs.TrieRoundtrip.
Import ListNotations.
Open Scope N_scope.

(* ------------------------------------------------------------------ the tree as a map from keys *)

Fixpoint find_child (s : N) (ch : list (N * tnode)) : option tnode :=
  match ch with
  | [] => None
  | (s', c) :: r => if s =? s' then Some c else find_child s r
  end.

(* the node a key leads to *)
Fixpoint tsub (k : list N) (t : tnode) : option tnode :=
  match k with
  | [] => Some t
  | s :: r => match find_child s (tchildren t) with Some c => tsub r c | None => None end
  end.
Definition tget (k : list N) (t : tnode) : option (list phrase) :=
  match tsub k t with Some n => tleaf n | None => None end.

Definition keyb (a b : list N) : bool := list_eqb N.eqb a b.
Lemma keyb_eq a b : keyb a b = true <-> a = b.
Proof.
  unfold keyb. revert b. induction a as [|x a IH]; intros [|y b]; cbn [list_eqb]; split; intros H; try discriminate; try reflexivity.
  - apply andb_true_iff in H as [H1 H2]. apply N.eqb_eq in H1. apply IH in H2. now subst.
  - inversion H; subst. apply andb_true_iff. split; [apply N.eqb_refl | now apply IH].
Qed.
Lemma keyb_refl a : keyb a a = true.
Proof. now apply keyb_eq. Qed.
Lemma keyb_neq a b : a <> b -> keyb a b = false.
Proof. intros H. destruct (keyb a b) eqn:E; [apply keyb_eq in E; contradiction | reflexivity]. Qed.

(* what the entry list holds under a key: insert() replaces the phrase with the same string in place, else pushes *)
Definition put_entry (k : list N) (acc : option (list phrase)) (e : entry) : option (list phrase) :=
  if keyb (fst e) k then Some (insert_phrase (match acc with Some ps => ps | None => [] end) (snd e)) else acc.
Definition phrases_for (es : list entry) (k : list N) : option (list phrase) := fold_left (put_entry k) es None.

Lemma find_child_upd_same f s ch :
  find_child s (upd_child f s ch) = Some (f (match find_child s ch with Some c => c | None => tempty end)).
Proof.
  induction ch as [|[s' c] ch IH]; cbn [upd_child find_child]; [now rewrite N.eqb_refl|].
  destruct (s =? s') eqn:E; cbn [find_child]; rewrite E; [reflexivity | exact IH].
Qed.

Lemma find_child_upd_other f s s2 ch : s2 <> s -> find_child s2 (upd_child f s ch) = find_child s2 ch.
Proof.
  intros Hne. induction ch as [|[s' c] ch IH]; cbn [upd_child find_child].
  - assert (E : (s2 =? s) = false) by (now apply N.eqb_neq). now rewrite E.
  - destruct (s =? s') eqn:E; cbn [find_child].
    + apply N.eqb_eq in E. subst s'. assert (E2 : (s2 =? s) = false) by (now apply N.eqb_neq). now rewrite E2.
    + destruct (s2 =? s'); [reflexivity | exact IH].
Qed.

Lemma tsub_tempty k : k <> [] -> tsub k tempty = None.
Proof. destruct k; [contradiction | reflexivity]. Qed.

Lemma tget_tempty k : tget k tempty = None.
Proof. unfold tget. destruct k; reflexivity. Qed.

Lemma tget_tinsert_same : forall k p t,
  tget k (tinsert k p t) = Some (insert_phrase (match tget k t with Some ps => ps | None => [] end) p).
Proof.
  induction k as [|s k IH]; intros p t; [reflexivity|].
  unfold tget in *. cbn [tinsert tsub tchildren]. rewrite find_child_upd_same.
  destruct (find_child s (tchildren t)) as [c|]; [apply IH|].
  rewrite IH. destruct k; reflexivity.
Qed.

Lemma tget_tinsert_other : forall k k' p t, k' <> k -> tget k' (tinsert k p t) = tget k' t.
Proof.
  induction k as [|s k IH]; intros k' p t Hne.
  - destruct k' as [|s' k']; [contradiction|]. unfold tget. cbn [tinsert tsub tchildren]. reflexivity.
  - destruct k' as [|s' k']; [reflexivity|].
    unfold tget in *. cbn [tinsert tsub tchildren].
    destruct (N.eq_dec s' s) as [->|Hs].
    + rewrite find_child_upd_same. assert (Hk : k' <> k) by (intros ->; contradiction).
      destruct (find_child s (tchildren t)) as [c|]; [now apply IH|].
      rewrite (IH k' p tempty Hk). destruct k'; reflexivity.
    + now rewrite find_child_upd_other.
Qed.

Lemma tget_fold k : forall es t,
  tget k (fold_left (fun t e => tinsert (fst e) (snd e) t) es t) = fold_left (put_entry k) es (tget k t).
Proof.
  induction es as [|e es IH]; intros t; cbn [fold_left]; [reflexivity|].
  rewrite IH. f_equal. unfold put_entry. destruct (keyb (fst e) k) eqn:E.
  - apply keyb_eq in E. subst k. apply tget_tinsert_same.
  - apply tget_tinsert_other. intros ->. now rewrite keyb_refl in E.
Qed.

(* the tree built from a list of entries, read as a map: exactly what the list holds under each key *)
Theorem tget_build es k : tget k (build es) = phrases_for es k.
Proof. unfold build, phrases_for. rewrite tget_fold. now rewrite tget_tempty. Qed.

Lemma phrases_for_in : forall es k acc,
  fold_left (put_entry k) es acc <> None <-> (acc <> None \/ In k (map fst es)).
Proof.
  induction es as [|e es IH]; intros k acc; cbn [fold_left map In]; [tauto|].
  rewrite IH. unfold put_entry. destruct (keyb (fst e) k) eqn:E.
  - apply keyb_eq in E. split; [intros _; right; now left | intros _; left; discriminate].
  - assert (fst e <> k) by (intros Hk; rewrite Hk, keyb_refl in E; discriminate). tauto.
Qed.

Corollary phrases_for_some es k : phrases_for es k <> None <-> In k (map fst es).
Proof. unfold phrases_for. rewrite phrases_for_in. split; [intros [H|H]; [contradiction | exact H] | now right]. Qed.

(* ------------------------------------------------------------------ child syllables are pairwise distinct *)
(* find_or_insert_internal never adds a second child for a syllable *)
Fixpoint tuniq (t : tnode) : Prop :=
  match t with
  | TNode _ ch => NoDup (map fst ch) /\ fold_right (fun sc a => tuniq (snd sc) /\ a) True ch
  end.

Lemma tuniq_children l ch : tuniq (TNode l ch) -> NoDup (map fst ch) /\ Forall (fun sc => tuniq (snd sc)) ch.
Proof.
  cbn [tuniq]. intros [H1 H2]. split; [exact H1|]. clear H1.
  induction ch as [|sc ch IH]; [constructor|]. cbn [fold_right] in H2. destruct H2 as [Ha Hb].
  constructor; [exact Ha | now apply IH].
Qed.

Lemma tuniq_intro l ch : NoDup (map fst ch) -> Forall (fun sc => tuniq (snd sc)) ch -> tuniq (TNode l ch).
Proof.
  intros H1 H2. cbn [tuniq]. split; [exact H1|]. induction H2 as [|sc ch Ha Hb IH]; cbn [fold_right]; [exact I|].
  split; [exact Ha|]. apply IH. now inversion H1.
Qed.

Lemma tuniq_tempty : tuniq tempty.
Proof. cbn. split; [constructor | exact I]. Qed.

Lemma upd_child_keys f s ch :
  map fst (upd_child f s ch) = if existsb (N.eqb s) (map fst ch) then map fst ch else map fst ch ++ [s].
Proof.
  induction ch as [|[s' c] ch IH]; cbn [upd_child map existsb fst]; [reflexivity|].
  destruct (s =? s') eqn:E; cbn [orb map fst]; [reflexivity|]. rewrite IH.
  destruct (existsb (N.eqb s) (map fst ch)); reflexivity.
Qed.

Lemma upd_child_forall (P : tnode -> Prop) f s ch :
  (forall c, P c -> P (f c)) -> P (f tempty) -> Forall (fun sc => P (snd sc)) ch ->
  Forall (fun sc => P (snd sc)) (upd_child f s ch).
Proof.
  intros Hf H0 H. induction H as [|[s' c] ch Ha Hb IH]; cbn [upd_child]; [constructor; [exact H0 | constructor]|].
  destruct (s =? s'); constructor; cbn [snd] in *; auto.
Qed.

Lemma tuniq_tinsert : forall k p t, tuniq t -> tuniq (tinsert k p t).
Proof.
  induction k as [|s k IH]; intros p [l ch] H; cbn [tinsert tleaf tchildren].
  - destruct (tuniq_children l ch H) as [H1 H2]. now apply tuniq_intro.
  - destruct (tuniq_children l ch H) as [H1 H2]. apply tuniq_intro.
    + rewrite upd_child_keys. destruct (existsb (N.eqb s) (map fst ch)) eqn:E; [exact H1|].
      apply (Permutation_NoDup (l := s :: map fst ch)); [apply Permutation_cons_append|]. constructor; [|exact H1].
      intros Hin. assert (X : existsb (N.eqb s) (map fst ch) = true) by (apply existsb_exists; exists s; split; [exact Hin | apply N.eqb_refl]).
      congruence.
    + apply upd_child_forall; [intros c Hc; now apply IH | apply IH, tuniq_tempty | exact H2].
Qed.

Lemma tuniq_build es : tuniq (build es).
Proof.
  unfold build. assert (G : forall es t, tuniq t -> tuniq (fold_left (fun t e => tinsert (fst e) (snd e) t) es t)).
  { induction es0 as [|e es0 IH]; intros t Ht; cbn [fold_left]; [exact Ht|]. apply IH. now apply tuniq_tinsert. }
  apply G, tuniq_tempty.
Qed.

(* ---- sorted children ---- *)
Definition child_le (a b : N * tnode) : bool := fst a <=? fst b.

Lemma sinsert_sorted x l : StronglySorted (fun a b : N * tnode => fst a <= fst b) l ->
  StronglySorted (fun a b : N * tnode => fst a <= fst b) (sinsert child_le x l).
Proof.
  intros H. induction H as [|y l Hs IH Hy]; cbn [sinsert]; [constructor; [constructor | constructor]|].
  unfold child_le at 1. destruct (fst x <=? fst y) eqn:E.
  - apply N.leb_le in E. constructor; [constructor; assumption|].
    constructor; [exact E|]. rewrite Forall_forall in *. intros z Hz. specialize (Hy z Hz). lia.
  - apply N.leb_gt in E. constructor; [exact IH|].
    rewrite Forall_forall in *. intros z Hz.
    apply (Permutation_in _ (sinsert_perm child_le x l)) in Hz. destruct Hz as [<-|Hz]; [lia | now apply Hy].
Qed.

Lemma sort_children_sorted ch : StronglySorted (fun a b : N * tnode => fst a <= fst b) (sort_children ch).
Proof.
  unfold sort_children. fold child_le. induction ch as [|x ch IH]; cbn [ssort]; [constructor|]. now apply sinsert_sorted.
Qed.

Lemma sort_children_perm ch : Permutation (sort_children ch) ch.
Proof. apply ssort_perm. Qed.

Lemma sort_children_strict ch : NoDup (map fst ch) ->
  StronglySorted (fun a b : N * tnode => fst a < fst b) (sort_children ch).
Proof.
  intros Hnd.
  assert (Hnd' : NoDup (map fst (sort_children ch))).
  { eapply Permutation_NoDup; [|exact Hnd]. apply Permutation_map, Permutation_sym, sort_children_perm. }
  pose proof (sort_children_sorted ch) as Hs. induction Hs as [|y l Hs IH Hy]; [constructor|].
  cbn [map] in Hnd'. inversion Hnd' as [|? ? Hnotin Hnd'']; subst. constructor; [now apply IH|].
  rewrite Forall_forall in *. intros z Hz. specialize (Hy z Hz).
  assert (fst z <> fst y) by (intros Heq; apply Hnotin; rewrite <- Heq; now apply in_map). lia.
Qed.

(* with distinct syllables: the first child with a syllable is THE child with it, in any order of the children *)
Lemma find_child_in s c ch : NoDup (map fst ch) -> (find_child s ch = Some c <-> In (s, c) ch).
Proof.
  induction ch as [|[s' c'] ch IH]; intros Hnd; cbn [find_child In]; [split; [discriminate | contradiction]|].
  cbn [map fst] in Hnd. inversion Hnd as [|? ? Hnotin Hnd']; subst.
  destruct (s =? s') eqn:E.
  - apply N.eqb_eq in E. subst s'. split; [intros H; inversion H; now left|].
    intros [H|H]; [inversion H; reflexivity|]. exfalso. apply Hnotin. change s with (fst (s, c)). now apply in_map.
  - apply N.eqb_neq in E. rewrite (IH Hnd'). split; [now right|]. intros [H|H]; [inversion H; congruence | exact H].
Qed.

Lemma find_child_perm s ch ch' : NoDup (map fst ch) -> Permutation ch ch' -> find_child s ch = find_child s ch'.
Proof.
  intros Hnd Hp.
  assert (Hnd' : NoDup (map fst ch')) by (eapply Permutation_NoDup; [apply Permutation_map; exact Hp | exact Hnd]).
  destruct (find_child s ch) as [c|] eqn:E1.
  - symmetry. apply (find_child_in s c ch' Hnd'). eapply Permutation_in; [exact Hp|]. now apply (find_child_in s c ch Hnd).
  - destruct (find_child s ch') as [c|] eqn:E2; [|reflexivity].
    apply (find_child_in s c ch' Hnd') in E2. apply (Permutation_in _ (Permutation_sym Hp)) in E2.
    apply (find_child_in s c ch Hnd) in E2. congruence.
Qed.

Lemma filter_eq_find s ch : NoDup (map fst ch) ->
  map snd (filter (fun sc : N * tnode => fst sc =? s) ch) = match find_child s ch with Some c => [c] | None => [] end.
Proof.
  induction ch as [|[s' c'] ch IH]; intros Hnd; cbn [filter find_child fst]; [reflexivity|].
  cbn [map fst] in Hnd. inversion Hnd as [|? ? Hnotin Hnd']; subst.
  rewrite (N.eqb_sym s s'). destruct (s' =? s) eqn:E.
  - apply N.eqb_eq in E. subst s'. cbn [map snd]. f_equal.
    assert (F : forall l, ~ In s (map fst l) -> filter (fun sc : N * tnode => fst sc =? s) l = []).
    { induction l as [|[s2 c2] l IH2]; intros Hn; [reflexivity|]. cbn [filter fst].
      destruct (s2 =? s) eqn:E2; [apply N.eqb_eq in E2; subst s2; exfalso; apply Hn; now left|].
      apply IH2. intros Hx. apply Hn. now right. }
    now rewrite (F ch Hnotin).
  - now apply IH.
Qed.

(* ------------------------------------------------------------------ exact lookup *)
Lemma twalk_nil strategy q : twalk strategy q [] = [].
Proof. induction q as [|s q IH]; [reflexivity|]. cbn [twalk fold_left tnext flat_map]. exact IH. Qed.

Lemma twalk_cons strategy s q ts : twalk strategy (s :: q) ts = twalk strategy q (tnext strategy s ts).
Proof. reflexivity. Qed.

Lemma tuniq_find_child s c t : tuniq t -> find_child s (tchildren t) = Some c -> tuniq c.
Proof.
  destruct t as [l ch]. intros H Hf. destruct (tuniq_children l ch H) as [H1 H2]. cbn [tchildren] in Hf.
  apply (find_child_in s c ch H1) in Hf. rewrite Forall_forall in H2. exact (H2 (s, c) Hf).
Qed.

Lemma tnext_standard s t : tuniq t ->
  tnext STANDARD s [t] = match find_child s (tchildren t) with Some c => [c] | None => [] end.
Proof.
  intros H. destruct t as [l ch]. destruct (tuniq_children l ch H) as [H1 _].
  unfold tnext. cbn [flat_map tchildren]. rewrite app_nil_r.
  assert (Hnd : NoDup (map fst (sort_children ch))).
  { eapply Permutation_NoDup; [|exact H1]. apply Permutation_map, Permutation_sym, sort_children_perm. }
  assert (E : forall l0, filter (fun sc : N * tnode => search_pred STANDARD (fst sc) s) l0 = filter (fun sc : N * tnode => fst sc =? s) l0).
  { intros l0. apply filter_ext. intros a. reflexivity. }
  rewrite E, (filter_eq_find s _ Hnd).
  rewrite (find_child_perm s (sort_children ch) ch Hnd (sort_children_perm ch)). reflexivity.
Qed.

Theorem twalk_standard : forall q t, tuniq t ->
  twalk STANDARD q [t] = match tsub q t with Some n => [n] | None => [] end.
Proof.
  induction q as [|s q IH]; intros t H; [reflexivity|].
  rewrite twalk_cons, (tnext_standard s t H). cbn [tsub].
  destruct (find_child s (tchildren t)) as [c|] eqn:E; [|apply twalk_nil].
  apply IH. eapply tuniq_find_child; eassumption.
Qed.

(* the final truncation of lookup_first_n_phrases *)
Definition trunc (first : N) (l : list phrase) : list phrase :=
  if lookup_truncates && (first <? len_N l) then firstn (N.to_nat first) l else l.

(* EXACT lookup on the tree built from a list of entries, any `first`: the phrases the list holds under exactly
   that key, in leaf order (sort_leaf), cut to `first`; nothing for a key that was not inserted *)
Theorem exact_lookup_build es q first :
  tlookup (build es) q first STANDARD =
  trunc first (match phrases_for es q with Some ps => sort_leaf ps | None => [] end).
Proof.
  unfold tlookup. rewrite (twalk_standard q (build es) (tuniq_build es)).
  rewrite <- tget_build. unfold tget.
  destruct (tsub q (build es)) as [n|]; cbn [map tcollect]; [|reflexivity].
  destruct (tleaf n) as [ps|]; cbn [tcollect app]; [|reflexivity].
  destruct (first <? len_N (sort_leaf ps)); reflexivity.
Qed.

(* ------------------------------------------------------------------ fuzzy (prefix) lookup *)
(* a key matches a query: same number of syllables, every syllable non-zero and starting with the query's *)
Fixpoint smatch (k q : list N) : bool :=
  match k, q with
  | [], [] => true
  | a :: k', b :: q' => search_pred FUZZY a b && smatch k' q'
  | _, _ => false
  end.

(* the walk, with the key of every node it reaches *)
Fixpoint dfs (q : list N) (pre : list N) (t : tnode) : list (list N * tnode) :=
  match q with
  | [] => [(pre, t)]
  | s :: q' => flat_map (fun sc => if search_pred FUZZY (fst sc) s then dfs q' (pre ++ [fst sc]) (snd sc) else [])
                        (sort_children (tchildren t))
  end.

Lemma flat_map_if {A B} (p : A -> bool) (f : A -> list B) l :
  flat_map (fun x => if p x then f x else []) l = flat_map f (filter p l).
Proof. induction l as [|x l IH]; cbn [flat_map filter]; [reflexivity|]. destruct (p x); cbn [flat_map]; now rewrite IH. Qed.

Lemma flat_map_flat_map {A B C} (f : A -> list B) (g : B -> list C) l :
  flat_map g (flat_map f l) = flat_map (fun x => flat_map g (f x)) l.
Proof. induction l as [|x l IH]; cbn [flat_map]; [reflexivity|]. now rewrite flat_map_app, IH. Qed.

Lemma flat_map_map {A B C} (f : A -> B) (g : B -> list C) l : flat_map g (map f l) = flat_map (fun x => g (f x)) l.
Proof. induction l as [|x l IH]; cbn [flat_map map]; [reflexivity|]. now rewrite IH. Qed.

Lemma map_flat_map {A B C} (f : A -> list B) (g : B -> C) l : map g (flat_map f l) = flat_map (fun x => map g (f x)) l.
Proof. induction l as [|x l IH]; cbn [flat_map map]; [reflexivity|]. now rewrite map_app, IH. Qed.

(* the level-by-level walk visits the nodes in the order of the depth-first enumeration (all at one depth) *)
Lemma twalk_dfs : forall q (l : list (list N * tnode)),
  twalk FUZZY q (map snd l) = map snd (flat_map (fun pt => dfs q (fst pt) (snd pt)) l).
Proof.
  induction q as [|s q IH]; intros l.
  - cbn [twalk fold_left dfs]. induction l as [|pt l IHl]; cbn [map flat_map app]; [reflexivity|]. now rewrite <- IHl.
  - rewrite twalk_cons.
    set (nxt := fun pt : list N * tnode =>
                  map (fun sc : N * tnode => (fst pt ++ [fst sc], snd sc))
                      (filter (fun sc : N * tnode => search_pred FUZZY (fst sc) s) (sort_children (tchildren (snd pt))))).
    assert (E1 : tnext FUZZY s (map snd l) = map snd (flat_map nxt l)).
    { unfold tnext. rewrite flat_map_map, map_flat_map. apply flat_map_ext. intros pt. unfold nxt.
      rewrite map_map. reflexivity. }
    rewrite E1, IH, flat_map_flat_map. f_equal. apply flat_map_ext. intros pt.
    cbn [dfs]. rewrite flat_map_if. unfold nxt. rewrite flat_map_map. reflexivity.
Qed.

Corollary twalk_fuzzy_root q t : twalk FUZZY q [t] = map snd (dfs q [] t).
Proof. change [t] with (map snd [([] : list N, t)]). rewrite twalk_dfs. cbn [flat_map fst snd]. now rewrite app_nil_r. Qed.

(* every node the walk reaches: its key extends the prefix by a path that matches the query and leads to it *)
Lemma dfs_sound : forall q pre t k n, tuniq t -> In (k, n) (dfs q pre t) ->
  exists path, k = pre ++ path /\ smatch path q = true /\ tsub path t = Some n.
Proof.
  induction q as [|s q IH]; intros pre t k n Hu Hin; cbn [dfs] in Hin.
  - destruct Hin as [Heq|[]]. inversion Heq; subst. exists []. rewrite app_nil_r. repeat split.
  - apply in_flat_map in Hin as ([s' c] & Hsc & Hin). cbn [fst snd] in Hin.
    destruct (search_pred FUZZY s' s) eqn:Ep; [|contradiction].
    destruct t as [l ch]. destruct (tuniq_children l ch Hu) as [H1 H2]. cbn [tchildren] in Hsc.
    apply (Permutation_in _ (sort_children_perm ch)) in Hsc.
    assert (Hc : tuniq c) by (rewrite Forall_forall in H2; exact (H2 (s', c) Hsc)).
    destruct (IH (pre ++ [s']) c k n Hc Hin) as (path & -> & Hm & Hs).
    exists (s' :: path). rewrite <- app_assoc. split; [reflexivity|]. split.
    + cbn [smatch]. now rewrite Ep, Hm.
    + cbn [tsub tchildren]. apply (find_child_in s' c ch H1) in Hsc. now rewrite Hsc.
Qed.

(* ... and every node with a matching key is reached *)
Lemma dfs_complete : forall q pre t path n, tuniq t -> smatch path q = true -> tsub path t = Some n ->
  In (pre ++ path, n) (dfs q pre t).
Proof.
  induction q as [|s q IH]; intros pre t path n Hu Hm Hs.
  - destruct path; [|discriminate]. cbn [tsub] in Hs. inversion Hs; subst. rewrite app_nil_r. now left.
  - destruct path as [|a path]; [discriminate|]. cbn [smatch] in Hm. apply andb_true_iff in Hm as [Ep Hm].
    cbn [tsub] in Hs. destruct (find_child a (tchildren t)) as [c|] eqn:Ef; [|discriminate].
    destruct t as [l ch]. destruct (tuniq_children l ch Hu) as [H1 H2]. cbn [tchildren] in Ef.
    apply (find_child_in a c ch H1) in Ef.
    cbn [dfs tchildren]. apply in_flat_map. exists (a, c). split.
    + eapply Permutation_in; [apply Permutation_sym, sort_children_perm | exact Ef].
    + cbn [fst snd]. rewrite Ep. replace (pre ++ a :: path) with ((pre ++ [a]) ++ path) by (now rewrite <- app_assoc).
      apply IH; [rewrite Forall_forall in H2; exact (H2 (a, c) Ef) | exact Hm | exact Hs].
Qed.

(* ---- the keys come out in strictly ascending lexicographic order ---- *)
Fixpoint klt (a b : list N) : Prop :=
  match a, b with
  | x :: a', y :: b' => x < y \/ (x = y /\ klt a' b')
  | [], _ :: _ => True
  | _, _ => False
  end.

Lemma klt_app_same pre : forall a b, klt a b -> klt (pre ++ a) (pre ++ b).
Proof. induction pre as [|x pre IH]; intros a b H; [exact H|]. cbn [app klt]. right. split; [reflexivity | now apply IH]. Qed.

Lemma klt_branch pre a b ra rb : a < b -> klt ((pre ++ [a]) ++ ra) ((pre ++ [b]) ++ rb).
Proof. intros H. rewrite <- !app_assoc. apply klt_app_same. cbn [app klt]. now left. Qed.

Lemma StronglySorted_app {A} (R : A -> A -> Prop) l1 l2 :
  StronglySorted R l1 -> StronglySorted R l2 -> (forall x y, In x l1 -> In y l2 -> R x y) -> StronglySorted R (l1 ++ l2).
Proof.
  intros H1 H2 H. induction H1 as [|a l1 Hs IH Ha]; [exact H2|]. cbn [app]. constructor.
  - apply IH. intros x y Hx Hy. apply H; [now right | exact Hy].
  - apply Forall_app. split; [exact Ha|]. apply Forall_forall. intros y Hy. apply H; [now left | exact Hy].
Qed.

Lemma dfs_prefix : forall q pre t k n, In (k, n) (dfs q pre t) -> exists r, k = pre ++ r.
Proof.
  induction q as [|s q IH]; intros pre t k n Hin; cbn [dfs] in Hin.
  - destruct Hin as [Heq|[]]. inversion Heq; subst. exists []. now rewrite app_nil_r.
  - apply in_flat_map in Hin as ([s' c] & _ & Hin). cbn [fst snd] in Hin.
    destruct (search_pred FUZZY s' s); [|contradiction].
    destruct (IH _ _ _ _ Hin) as (r & ->). exists (s' :: r). now rewrite <- app_assoc.
Qed.

Lemma dfs_sorted : forall q pre t, tuniq t -> StronglySorted klt (map fst (dfs q pre t)).
Proof.
  induction q as [|s q IH]; intros pre t Hu; cbn [dfs]; [repeat constructor|].
  destruct t as [l ch]. destruct (tuniq_children l ch Hu) as [H1 H2]. cbn [tchildren].
  pose proof (sort_children_strict ch H1) as Hs.
  assert (Hall : Forall (fun sc => tuniq (snd sc)) (sort_children ch)).
  { rewrite Forall_forall in *. intros sc Hsc. apply H2. eapply Permutation_in; [apply sort_children_perm | exact Hsc]. }
  induction Hs as [|sc rest Hs' IHs Hlt]; cbn [flat_map]; [constructor|].
  inversion Hall as [|? ? Hsc Hrest]; subst. rewrite map_app. apply StronglySorted_app.
  - destruct (search_pred FUZZY (fst sc) s); [now apply IH | constructor].
  - now apply IHs.
  - intros x y Hx Hy. apply in_map_iff in Hx as ([kx nx] & <- & Hx). apply in_map_iff in Hy as ([ky ny] & <- & Hy). cbn [fst].
    destruct (search_pred FUZZY (fst sc) s); [|contradiction].
    destruct (dfs_prefix _ _ _ _ _ Hx) as (rx & ->).
    apply in_flat_map in Hy as (sc2 & Hsc2 & Hy). destruct (search_pred FUZZY (fst sc2) s); [|contradiction].
    destruct (dfs_prefix _ _ _ _ _ Hy) as (ry & ->).
    apply klt_branch. rewrite Forall_forall in Hlt. exact (Hlt sc2 Hsc2).
Qed.

(* ---- collecting the leaves ---- *)
Definition leaf_list (o : option (list phrase)) : list phrase := match o with Some ps => sort_leaf ps | None => [] end.

Lemma len_N_le_app (a b : list phrase) : len_N a <= len_N (a ++ b).
Proof. unfold len_N. rewrite app_length. lia. Qed.

(* with `first` at least the total number of phrases the early exit is never taken *)
Lemma tcollect_all first : forall ls acc, len_N (acc ++ flat_map leaf_list ls) <= first ->
  tcollect first ls acc = acc ++ flat_map leaf_list ls.
Proof.
  induction ls as [|o ls IH]; intros acc Hlen; cbn [tcollect flat_map] in *; [now rewrite app_nil_r|].
  destruct o as [ps|]; cbn [leaf_list app] in *.
  - rewrite app_assoc in Hlen.
    assert (Hle : len_N (acc ++ sort_leaf ps) <= first) by (pose proof (len_N_le_app (acc ++ sort_leaf ps) (flat_map leaf_list ls)); lia).
    assert (E : (first <? len_N (acc ++ sort_leaf ps)) = false) by (apply N.ltb_ge; exact Hle).
    rewrite E, (IH _ Hlen). now rewrite app_assoc.
  - now apply IH.
Qed.

Lemma StronglySorted_filter {A} (R : A -> A -> Prop) p l : StronglySorted R l -> StronglySorted R (filter p l).
Proof.
  intros H. induction H as [|a l Hs IH Ha]; cbn [filter]; [constructor|].
  destruct (p a); [|exact IH]. constructor; [exact IH|].
  rewrite Forall_forall in *. intros x Hx. apply filter_In in Hx as [Hx _]. now apply Ha.
Qed.

(* FUZZY lookup on the tree built from a list of entries (with `first` at least the size of the answer): there is a
   list of keys ks -
     strictly ascending in the lexicographic order of the syllable codes (so each key once),
     exactly the inserted keys that match the query syllable by syllable (same length, every syllable non-zero
       and starts_with the query's partial syllable) -
   and the answer is, key by key in that order, the phrases the list holds under the key, in leaf order *)
Theorem fuzzy_lookup_build es q first :
  exists ks,
    StronglySorted klt ks /\
    (forall k, In k ks <-> In k (map fst es) /\ smatch k q = true) /\
    let answer := flat_map (fun k => leaf_list (phrases_for es k)) ks in
    (len_N answer <= first -> tlookup (build es) q first FUZZY = answer).
Proof.
  set (t := build es). pose proof (tuniq_build es) as Hu. fold t in Hu.
  set (has_leaf := fun kn : list N * tnode => match tleaf (snd kn) with Some _ => true | None => false end).
  exists (map fst (filter has_leaf (dfs q [] t))). split; [|split].
  - (* sorted: a sub-list of the sorted enumeration *)
    pose proof (dfs_sorted q [] t Hu) as Hs.
    assert (G : forall l : list (list N * tnode), StronglySorted klt (map fst l) -> StronglySorted klt (map fst (filter has_leaf l))).
    { induction l as [|a l IH]; intros H; cbn [filter map]; [constructor|]. cbn [map] in H. inversion H as [|? ? Hl Ha]; subst.
      destruct (has_leaf a); [|now apply IH]. cbn [map]. constructor; [now apply IH|].
      rewrite Forall_forall in *. intros x Hx. apply Ha. apply in_map_iff in Hx as (y & <- & Hy).
      apply filter_In in Hy as [Hy _]. now apply in_map. }
    now apply G.
  - (* exactly the inserted keys that match *)
    intros k. rewrite <- phrases_for_some, <- tget_build. fold t. split.
    + intros Hin. apply in_map_iff in Hin as ([k' n] & <- & Hin). apply filter_In in Hin as [Hin Hl]. cbn [fst].
      destruct (dfs_sound q [] t k' n Hu Hin) as (path & -> & Hm & Hs). cbn [app]. split; [|exact Hm].
      unfold tget. rewrite Hs. unfold has_leaf in Hl. cbn [snd] in Hl. destruct (tleaf n); [discriminate | discriminate].
    + intros [Hg Hm]. unfold tget in Hg. destruct (tsub k t) as [n|] eqn:Es; [|contradiction].
      apply in_map_iff. exists (k, n). split; [reflexivity|]. apply filter_In. split.
      * exact (dfs_complete q [] t k n Hu Hm Es).
      * unfold has_leaf. cbn [snd]. destruct (tleaf n); [reflexivity | contradiction].
  - (* the answer *)
    cbv zeta. intros Hlen.
    assert (Hleaf : forall l : list (list N * tnode), (forall k n, In (k, n) l -> tsub k t = Some n) ->
              flat_map leaf_list (map tleaf (map snd l)) = flat_map (fun k => leaf_list (phrases_for es k)) (map fst (filter has_leaf l))).
    { induction l as [|[k n] l IH]; intros Hall; cbn [map flat_map filter]; [reflexivity|].
      rewrite IH by (intros k' n' Hin; apply Hall; now right).
      assert (Hk : tsub k t = Some n) by (apply Hall; now left).
      assert (Hh : has_leaf (k, n) = match tleaf n with Some _ => true | None => false end) by reflexivity.
      rewrite Hh. destruct (tleaf n) as [ps|] eqn:El; cbn [map flat_map fst snd leaf_list app]; rewrite ?El; cbn [leaf_list app]; [|reflexivity].
      rewrite <- tget_build. fold t. unfold tget. rewrite Hk, El. reflexivity. }
    assert (Hall : forall k n, In (k, n) (dfs q [] t) -> tsub k t = Some n).
    { intros k n Hin. destruct (dfs_sound q [] t k n Hu Hin) as (path & -> & _ & Hs). exact Hs. }
    unfold tlookup. rewrite twalk_fuzzy_root. fold t.
    rewrite (tcollect_all first _ []); cbn [app]; rewrite (Hleaf _ Hall); [|exact Hlen].
    assert (E : (first <? len_N (flat_map (fun k => leaf_list (phrases_for es k)) (map fst (filter has_leaf (dfs q [] t))))) = false)
      by (apply N.ltb_ge; exact Hlen).
    rewrite E, andb_false_r. reflexivity.
Qed.

(* ------------------------------------------------------------------ enumeration *)
Lemma tnode_ind' (P : tnode -> Prop) :
  (forall leaf ch, Forall (fun sc => P (snd sc)) ch -> P (TNode leaf ch)) -> forall t, P t.
Proof.
  intros H. fix IH 1. intros [leaf ch]. apply H.
  induction ch as [|sc ch IHch]; constructor; [apply IH | exact IHch].
Qed.

(* the (key, leaf) pairs of the tree: exactly the keys that hold phrases, each with its leaf in leaf order *)
Lemma tleaves_spec : forall t pre k l, tuniq t ->
  (In (k, l) (tleaves pre t) <-> exists path ps, k = rev pre ++ path /\ tget path t = Some ps /\ l = sort_leaf ps).
Proof.
  induction t as [leaf ch IH] using tnode_ind'. intros pre k l Hu.
  destruct (tuniq_children leaf ch Hu) as [Hnd Hall]. cbn [tleaves]. rewrite in_app_iff. split.
  - intros [Hin|Hin].
    + destruct leaf as [ps|]; [|contradiction]. destruct Hin as [Heq|[]]. inversion Heq; subst.
      exists [], ps. rewrite app_nil_r. repeat split.
    + apply in_flat_map in Hin as ([s c] & Hsc & Hin). cbn [fst snd] in Hin.
      rewrite Forall_forall in IH, Hall.
      destruct (proj1 (IH (s, c) Hsc (s :: pre) k l (Hall (s, c) Hsc)) Hin) as (path & ps & -> & Hg & ->).
      exists (s :: path), ps. cbn [rev]. rewrite <- app_assoc. split; [reflexivity|]. split; [|reflexivity].
      unfold tget in *. cbn [tsub tchildren]. rewrite (proj2 (find_child_in s c ch Hnd) Hsc). exact Hg.
  - intros (path & ps & -> & Hg & ->). destruct path as [|s path].
    + left. unfold tget in Hg. cbn [tsub tleaf] in Hg. subst leaf. rewrite app_nil_r. now left.
    + right. unfold tget in Hg. cbn [tsub tchildren] in Hg.
      destruct (find_child s ch) as [c|] eqn:Ef; [|discriminate].
      apply (find_child_in s c ch Hnd) in Ef. apply in_flat_map. exists (s, c). split; [exact Ef|]. cbn [fst snd].
      rewrite Forall_forall in IH, Hall. apply (IH (s, c) Ef (s :: pre) _ _ (Hall (s, c) Ef)).
      exists path, ps. cbn [rev]. rewrite <- app_assoc. repeat split. exact Hg.
Qed.

Lemma sort_leaf_in p ps : In p (sort_leaf ps) <-> In p ps.
Proof.
  split; intros H; [eapply Permutation_in; [apply ssort_perm | exact H] | eapply Permutation_in; [apply Permutation_sym, ssort_perm | exact H]].
Qed.

(* ENUMERATION of the tree built from a list of entries: exactly the (key, phrase) pairs the list holds - a phrase
   re-inserted under a key replaced the earlier one with the same string - and nothing else *)
Theorem entries_build es k p :
  In (k, p) (tentries (build es)) <-> exists ps, phrases_for es k = Some ps /\ In p ps.
Proof.
  unfold tentries, flatten_entries. rewrite in_flat_map. split.
  - intros ([k' l] & Hin & Hp). cbn [fst snd] in Hp. apply in_map_iff in Hp as (p' & Heq & Hp'). inversion Heq; subst.
    apply (tleaves_spec (build es) [] k l (tuniq_build es)) in Hin as (path & ps & -> & Hg & ->). cbn [rev app].
    exists ps. rewrite <- tget_build. split; [exact Hg | now apply sort_leaf_in].
  - intros (ps & Hg & Hp). exists (k, sort_leaf ps). split.
    + apply (tleaves_spec (build es) [] k _ (tuniq_build es)). exists k, ps. rewrite tget_build. repeat split. exact Hg.
    + cbn [fst snd]. apply in_map. now apply sort_leaf_in.
Qed.

(* ------------------------------------------------------------------ "a re-inserted phrase replaces the earlier one" *)
Lemma bytes_eqb_eq a b : bytes_eqb a b = true <-> a = b.
Proof. unfold bytes_eqb. apply list_eqb_N_spec. Qed.

Definition uniq_str (ps : list phrase) : Prop := NoDup (map p_str ps).

Lemma insert_phrase_strs ps p : forall x, In x (map p_str (insert_phrase ps p)) <-> x = p_str p \/ In x (map p_str ps).
Proof.
  induction ps as [|y ps IH]; intros x; cbn [insert_phrase map In].
  - split; [intros [H|[]]; now left | intros [H|[]]; now left].
  - destruct (bytes_eqb (p_str y) (p_str p)) eqn:E; cbn [map In].
    + apply bytes_eqb_eq in E. rewrite E. intuition (subst; auto).
    + rewrite IH. intuition (subst; auto).
Qed.

Lemma insert_phrase_uniq ps p : uniq_str ps -> uniq_str (insert_phrase ps p).
Proof.
  unfold uniq_str. induction ps as [|y ps IH]; intros H; cbn [insert_phrase map]; [constructor; [intros [] | constructor]|].
  cbn [map] in H. inversion H as [|? ? Hn Hr]; subst.
  destruct (bytes_eqb (p_str y) (p_str p)) eqn:E; cbn [map].
  - apply bytes_eqb_eq in E. rewrite <- E. exact H.
  - constructor; [|now apply IH]. intros Hin. apply insert_phrase_strs in Hin as [Hin|Hin]; [|contradiction].
    apply (proj2 (bytes_eqb_eq _ _)) in Hin. congruence.
Qed.

Lemma insert_phrase_in ps p q : uniq_str ps ->
  (In q (insert_phrase ps p) <-> q = p \/ (In q ps /\ p_str q <> p_str p)).
Proof.
  unfold uniq_str. induction ps as [|y ps IH]; intros Hu; cbn [insert_phrase In].
  - split; [intros [H|[]]; left; now symmetry | intros [->|[[] _]]; now left].
  - cbn [map] in Hu. inversion Hu as [|? ? Hn Hr]; subst.
    destruct (bytes_eqb (p_str y) (p_str p)) eqn:E; cbn [In].
    + apply bytes_eqb_eq in E. split.
      * intros [H|H]; [left; now symmetry|]. right. split; [now right|].
        intros Heq. apply Hn. rewrite E, <- Heq. now apply in_map.
      * intros [->|[[Hq|Hq] Hne]]; [now left | subst q; congruence | now right].
    + assert (Hne : p_str y <> p_str p) by (intros Heq; apply (proj2 (bytes_eqb_eq _ _)) in Heq; congruence).
      rewrite (IH Hr). split.
      * intros [H|[->|[H1 H2]]]; [subst q; right; split; [now left | exact Hne] | now left | right; split; [now right | exact H2]].
      * intros [->|[[Hq|Hq] Hq2]]; [right; now left | now left | right; right; split; assumption].
Qed.

Definition hits (k : list N) (p : phrase) (e : entry) : Prop := fst e = k /\ p_str (snd e) = p_str p.

Lemma put_entry_fold k p : forall es acc, uniq_str (match acc with Some ps => ps | None => [] end) ->
  ((exists ps, fold_left (put_entry k) es acc = Some ps /\ In p ps) <->
   (exists es1 es2, es = es1 ++ (k, p) :: es2 /\ Forall (fun e => ~ hits k p e) es2) \/
   ((exists ps, acc = Some ps /\ In p ps) /\ Forall (fun e => ~ hits k p e) es)).
Proof.
  induction es as [|e es IH]; intros acc Hu; cbn [fold_left].
  - split.
    + intros H. right. split; [exact H | constructor].
    + intros [(es1 & es2 & H & _)|[H _]]; [destruct es1; discriminate | exact H].
  - assert (Hu' : uniq_str (match put_entry k acc e with Some ps => ps | None => [] end)).
    { unfold put_entry. destruct (keyb (fst e) k); [now apply insert_phrase_uniq | exact Hu]. }
    rewrite (IH _ Hu'). clear IH. unfold put_entry at 1. destruct (keyb (fst e) k) eqn:Ek.
    + apply keyb_eq in Ek. split.
      * intros [(es1 & es2 & -> & Hf)|[(ps & Hps & Hin) Hf]].
        -- left. exists (e :: es1), es2. split; [reflexivity | exact Hf].
        -- inversion Hps; subst ps; clear Hps. apply (insert_phrase_in _ _ _ Hu) in Hin as [->|[Hin Hne]].
           ++ left. exists [], es. split; [destruct e as [k0 p0]; cbn in *; now subst | exact Hf].
           ++ right. split.
              ** destruct acc as [ps0|]; [eauto | contradiction].
              ** constructor; [|exact Hf]. intros [_ Hs]. now apply Hne.
      * intros [(es1 & es2 & Heq & Hf)|[(ps & -> & Hin) Hf]].
        -- destruct es1 as [|e1 es1]; cbn [app] in Heq; inversion Heq; subst.
           ++ right. split; [|exact Hf]. eexists. split; [reflexivity|]. apply (insert_phrase_in _ _ _ Hu). now left.
           ++ left. exists es1, es2. split; [reflexivity | exact Hf].
        -- inversion Hf as [|? ? Hne Hf']; subst. right. split; [|exact Hf'].
           eexists. split; [reflexivity|]. apply (insert_phrase_in _ _ _ Hu). right. split; [exact Hin|].
           intros Hs. apply Hne. split; [first [exact Ek | reflexivity] | now symmetry].
    + assert (Hk : fst e <> k) by (intros Heq; rewrite Heq, keyb_refl in Ek; discriminate). split.
      * intros [(es1 & es2 & -> & Hf)|[Ha Hf]].
        -- left. exists (e :: es1), es2. split; [reflexivity | exact Hf].
        -- right. split; [exact Ha|]. constructor; [|exact Hf]. intros [Hx _]. contradiction.
      * intros [(es1 & es2 & Heq & Hf)|[Ha Hf]].
        -- destruct es1 as [|e1 es1]; cbn [app] in Heq; inversion Heq; subst; [cbn in Hk; contradiction|].
           left. exists es1, es2. split; [reflexivity | exact Hf].
        -- inversion Hf; subst. right. split; assumption.
Qed.

(* what the entry list holds under a key, entry by entry: p is held under k exactly when (k, p) is an entry of the list
   and no LATER entry of the list has the same key and the same string (that one replaced it) *)
Theorem phrases_for_last es k p :
  (exists ps, phrases_for es k = Some ps /\ In p ps) <->
  exists es1 es2, es = es1 ++ (k, p) :: es2 /\ Forall (fun e => ~ hits k p e) es2.
Proof.
  unfold phrases_for. rewrite (put_entry_fold k p es None); [|constructor]. split.
  - intros [H|[(ps & Hps & _) _]]; [exact H | discriminate].
  - intros H. now left.
Qed.
