(* C07 through the C API: chewing_cand_choose_by_index with an index outside the open list (negative, or at least
   chewing_cand_TotalChoice, any int) returns -1 and changes nothing but the key result (Bell): buffer, cursor,
   choices, the open list and its page, dictionary and options are what they were. *)
From Coq Require Import NArith ZArith List Bool String Lia.
From LC Require Import Base.Lib Gen.Keyboard_gen Gen.Capi_gen Gen.Editor_gen Model.Composition Model.Conversion Model.Editor
     Model.EditorRun Model.EdInst Model.CapiKeys Model.CapiConfig Model.CapiRun
     Proofs.CompositionProofs Proofs.EdInstProofs Proofs.EditorInv Proofs.EditorSelect Proofs.NoPanic
     Proofs.CapiKeysProofs Proofs.CapiInv.
Import ListNotations.

Section CapiChoose.
Variable conv : conv_fn memdict.
Variable ss0 : symbol_sel.
Notation CI := (CInv ss0).

Theorem c_choose_out_of_range c i c' rc :
  CI c -> chewing_cand_CheckDone c = 0%Z -> (i < 0 \/ chewing_cand_TotalChoice c <= i)%Z ->
  cand_choose conv c i = Ok (c', rc) ->
  rc = (-1)%Z /\ c' = with_ed c (mkEditor (set_last (sh (cx_ed c)) BBell) (st (cx_ed c))).
Proof.
  intros [[_ Hst] _] Hdone Hi H.
  unfold chewing_cand_CheckDone, chewing_cand_TotalChoice, flag, c_flags in *. cbn [List.nth] in *.
  unfold is_selecting_b in Hdone. unfold cand_choose, ml_select, ed_select in H.
  unfold choose_index, past_the_end, ml_candidates, ed_all_candidates in *.
  destruct (st (cx_ed c)) as [| |pg act sel|] eqn:Est; cbn [negb bz] in Hdone; try discriminate.
  cbn [state_inv] in Hst. destruct Hst as (Hsel & _).
  destruct (candidates_ok ss0 (sh (cx_ed c)) sel Hsel) as (l & Hl). rewrite Hl in *. cbn [obind] in *.
  set (n := if (i <? 0)%Z || (65535 <? i)%Z then List.length l else Z.to_nat i) in *.
  assert (Hn : (List.length l <= n)%nat).
  { subst n. destruct ((i <? 0)%Z || (65535 <? i)%Z) eqn:E; [lia|].
    apply orb_false_iff in E as [E1 E2]. apply Z.ltb_ge in E1. lia. }
  destruct (selecting_select_offset mdf_ops lay_ops (sh (cx_ed c)) pg act sel n) as [[[[s2 t] pg'] sel']| | |] eqn:Es;
    cbn [obind] in H; try discriminate.
  destruct (choose_out_of_range mdf_ops lay_ops _ _ _ _ _ _ _ _ _ _ Hl Hn Es) as (-> & -> & -> & ->).
  cbn [apply_transition is_entering andb obind] in H. cbn [last set_last behavior_eqb negb fst snd] in H.
  inversion H; subst. split; reflexivity.
Qed.

End CapiChoose.
