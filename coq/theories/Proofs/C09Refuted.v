(* C09: witnesses that the code pinned at the start of the work ([pinned] in
   Model/TrieBuf.v) does NOT behave as a map, each closed by evaluation of the faithful
   model; the same histories are in corpus/c09/defects.case and were replayed on the
   implementation.  After the `fix:` commits the model of the code that exists is
   [fixed]; the witnesses stay as the record of what was wrong. *)
From Coq Require Import NArith List Bool.
From LC Require Import Base.Lib Model.Dict Model.TrieBuf Model.Layered Model.SqliteDict.
Import ListNotations.
Open Scope N_scope.

Definition K1 : key := [10268].          (* ㄘㄜˋ *)
Definition K2 : key := [10268; 8708].    (* ㄘㄜˋ ㄕˋ *)
Definition Kc : key := [10240].          (* ㄘ *)
Definition ce : text := [28204].         (* 測 *)
Definition ceshi : text := [28204; 35430].

Definition final (c : cfg) (tb : triebuf) (ops : list op) : triebuf := fst (tb_run c tb ops).

(* (i) remove -> add: the spec map holds the phrase again, the pinned code hides it for ever *)
Definition ops_i : list op := [OAdd K1 (mkPhrase ce 1 None); ORemove K1 ce; OAdd K1 (mkPhrase ce 2 None)].
Lemma remove_then_add_invisible :
  exists ops k,
    s_lookup k (spec_run [] ops) = [mkPhrase ce 2 (Some 0)] /\
    tb_lookup pinned (final pinned tb_new_in_memory ops) k USIZE_MAX Standard = [] /\
    tb_entries pinned (final pinned tb_new_in_memory ops) = [].
Proof. exists ops_i, K1. vm_compute. repeat split. Qed.

Definition ops_i' : list op := [ORemove K1 ce; OUpdate K1 ce 1 9 7].
Lemma remove_then_update_invisible :
  exists ops k,
    s_lookup k (spec_run [] ops) = [mkPhrase ce 9 (Some 7)] /\
    tb_lookup pinned (final pinned tb_new_in_memory ops) k USIZE_MAX Standard = [].
Proof. exists ops_i', K1. vm_compute. repeat split. Qed.

(* (ii) Trie::lookup_first_n_phrases(_, n) returns more than n phrases *)
Definition trie_ii : trie :=
  trie_build [(K1, mkPhrase ce 5 None); (K1, mkPhrase [20874] 4294967295 None); (K1, mkPhrase [31574] 3 None)].
Lemma trie_ignores_first :
  exists t k,
    trie_lookup pinned t k 0 Standard = trie_lookup pinned t k USIZE_MAX Standard /\
    trie_lookup pinned t k 1 Standard = trie_lookup pinned t k USIZE_MAX Standard /\
    trie_lookup pinned t k 2 Standard = trie_lookup pinned t k USIZE_MAX Standard /\
    length (trie_lookup pinned t k USIZE_MAX Standard) = 3%nat.
Proof. exists trie_ii, K1. vm_compute. repeat split. Qed.

(* (iii) entries() lists an updated entry that is already persisted twice;
   (iv) an update that lowers a persisted frequency is answered with the old maximum *)
Definition tb_iii : triebuf := tb_open (trie_build [(K2, mkPhrase ceshi 100 None)]).
Definition ops_iii : list op := [OUpdate K2 ceshi 3 1 186613].
Lemma updated_persisted_entry_listed_twice :
  exists tb ops,
    s_entries (spec_run (spec_of_trie [(K2, [mkPhrase ceshi 100 None])]) ops) = [(K2, mkPhrase ceshi 1 (Some 186613))] /\
    tb_entries pinned (final pinned tb ops) =
      [(K2, mkPhrase ceshi 100 None); (K2, mkPhrase ceshi 1 (Some 186613))].
Proof. exists tb_iii, ops_iii. vm_compute. repeat split. Qed.

Lemma lowered_frequency_shadowed :
  exists tb ops k,
    s_lookup k (spec_run (spec_of_trie [(K2, [mkPhrase ceshi 100 None])]) ops) = [mkPhrase ceshi 1 (Some 186613)] /\
    tb_lookup pinned (final pinned tb ops) k USIZE_MAX Standard = [mkPhrase ceshi 100 None].
Proof. exists tb_iii, ops_iii, K2. vm_compute. repeat split. Qed.

(* the same through the public history only: add, flush, writer finishes, reopen, lower *)
Definition ops_iv : list op :=
  [OAdd K1 (mkPhrase ce 5 None); OFlush; OReopen FinishedOk; OUpdate K1 ce 5 3 7].
Lemma lowered_frequency_shadowed_after_flush :
  exists ops k,
    s_lookup k (spec_run [] ops) = [mkPhrase ce 3 (Some 7)] /\
    tb_lookup pinned (final pinned (tb_open []) ops) k USIZE_MAX Standard = [mkPhrase ce 5 (Some 0)] /\
    length (tb_entries pinned (final pinned (tb_open []) ops)) = 2%nat.
Proof. exists ops_iv, K1. vm_compute. repeat split. Qed.

(* (v) a pending phrase that sorts at or after "\u{10FFFF}" is enumerated but never looked up *)
Definition ops_v : list op := [OAdd K1 (mkPhrase [1114111] 4 None)].
Lemma max_phrase_cut_off :
  exists ops k,
    s_lookup k (spec_run [] ops) = [mkPhrase [1114111] 4 (Some 0)] /\
    tb_lookup pinned (final pinned tb_new_in_memory ops) k USIZE_MAX Standard = [] /\
    tb_entries pinned (final pinned tb_new_in_memory ops) = [(K1, mkPhrase [1114111] 4 (Some 0))].
Proof. exists ops_v, K1. vm_compute. repeat split. Qed.

(* SQLite (not fixed: KNOWN_FINDINGS C09-sqlite-lowered-user-freq): the lookup statement
   reports max(freq, user_freq), so an update that lowers the frequency is not observed *)
Definition ops_sq : list op := [OAdd K1 (mkPhrase ce 100 None); OUpdate K1 ce 100 50 7].
Lemma sqlite_lowered_frequency_shadowed :
  exists ops k,
    s_lookup k (spec_run [] ops) = [mkPhrase ce 50 (Some 7)] /\
    sq_lookup (fst (sq_run sq_empty ops)) k USIZE_MAX = [mkPhrase ce 100 (Some 7)].
Proof. exists ops_sq, K1. vm_compute. repeat split. Qed.

(* open finding (KNOWN_FINDINGS C09-prefix-lookup-returns-removed-phrase): a TrieBuf over a file that holds (ㄘㄜˋ, 測);
   the phrase is removed; the exact lookup no longer returns it, the prefix lookup of ㄘ still does - on the model of
   the CURRENT code (`fixed`): the tombstone is looked up under the query key *)
Lemma prefix_lookup_returns_removed_phrase :
  let tb := final fixed (tb_open (trie_build [(K1, mkPhrase ce 5 None)])) [ORemove K1 ce] in
  s_lookup K1 (spec_run (spec_of_trie (trie_build [(K1, mkPhrase ce 5 None)])) [ORemove K1 ce]) = [] /\
  tb_lookup fixed tb K1 USIZE_MAX Standard = [] /\
  tb_lookup fixed tb Kc USIZE_MAX FuzzyPartialPrefix = [mkPhrase ce 5 None].
Proof. vm_compute. repeat split. Qed.
